#!/usr/bin/env python3
"""mkbenigntasks.py ROUND PROP [PROP ...]

Writes /tmp/benigntask<ROUND>-<PROP>.txt (the complete brief for a fresh sub-agent that is to produce
changes to libsv/go-bt which PRESERVE the property but change behaviour the property does not fix)
and creates the scratch worktree /tmp/benign<ROUND>-<PROP> of /repo HEAD.  The brief contains nothing
from /verif but the property text.  Used to test the third requirement of the task: no alarm on code
where the property holds."""
import json, os, subprocess, sys

rnd = sys.argv[1]
props = {json.loads(l)['id']: json.loads(l) for l in open('/verif/properties.jsonl')}
for pid in sys.argv[2:]:
    p = props[pid]
    wt = f'/tmp/benign{rnd}-{pid}'
    if not os.path.exists(wt):
        subprocess.run(['git', '-C', '/repo', 'worktree', 'add', '--detach', wt, 'HEAD'], check=True, capture_output=True)
    anchors = p['anchors']
    mech = '; '.join(f"{m['name']} ({m['where']})" for m in anchors.get('mechanism', []))
    extra = ''
    n_changes, words = 'THREE', 'changes 2 and 3'
    dirs = '1, 2, 3'
    if int(rnd) >= 2:
        n_changes, words, dirs = 'TWO', 'change 2', '1, 2'
        extra = """

A first round of such changes already exists; it consisted mostly of error wrapping, exactly sized buffers, nil-versus-empty results and private copies. This time go for changes of BEHAVIOUR that the statement leaves open, for example: (i) what happens on failing or out-of-domain paths - a call that fails now fails EARLIER (before any partial work, before a callback fires, before reading further input) or LATER, leaves different partial state behind, or reports a different one of several applicable problems; an out-of-domain argument that used to panic or give garbage is now refused, or the other way round is now handled; (ii) the timing and order of internal events the statement does not fix - when a script is parsed, when a limit or a flag combination is checked, how many intermediate events / reads / writes / locks one operation consists of, as long as the results the statement talks about are the same; (iii) which of several allowed outputs is chosen when the statement gives a bound, a set or an inequality rather than a value (move to another point of the allowed range, deterministically); (iv) additional functionality: a new exported option, field, method or accepted input form next to the existing ones, which changes nothing for existing callers within the quantified domain. Make sure the property REALLY still holds: re-read each clause against your change, and test your change against the unchanged library on many inputs (a throw-away differential test, deleted afterwards) before you deliver it."""
    txt = f"""You are given a Go library (libsv/go-bt: Bitcoin SV transactions and a script interpreter) in your own scratch git worktree at {wt} (a checkout of the library's current HEAD; work ONLY inside that directory; do not read or write anything under /verif or /repo; there is no network: every go command needs `export GOFLAGS=-mod=mod GOPROXY=off GOSUMDB=off GOTOOLCHAIN=local`).

The library is claimed to satisfy this semantic property:

Property {pid}: {p['title']}

Statement: {p['statement']}

Quantified over: {p['quantifier']['text']}

Code anchors: files {', '.join(anchors['files'])}; mechanisms: {mech}

Somebody has built an automated checker for this property (randomised / generated inputs compared against independent reference implementations, call histories on one object, results kept across calls, invariants on caller-owned data). We want to find out whether that checker raises FALSE ALARMS, i.e. whether it demands more than the property states. You never see the checker.

Your task: produce {n_changes} different, realistic code changes to the library (non-test .go files only) for which the property above STILL HOLDS — for every input in the quantified domain, every clause of the statement remains true on the changed tree — but which change something an over-specified or carelessly written checker might be looking at. Each change must
  (a) compile (`go build ./...`),
  (b) pass the library's entire existing test suite unchanged (`go test -vet=off -count=1 ./...` in {wt} must print no FAIL),
  (c) really preserve the property: be conservative; if you are not sure a clause still holds for every input of the quantified domain, pick another change. Read the statement literally: what it fixes must stay fixed; what it leaves open may move,
  (d) be observable or structural, not a comment or a rename: something a caller, a debugger, a profiler or a byte-for-byte comparison of some *unspecified* result could notice,
  (e) be the kind of change a maintainer could plausibly commit (a refactoring, an optimisation done correctly, a hardening, a clean-up of an error path).

Good directions (pick the ones that fit this property; the changes should use different ones and touch different functions):
  - behaviour OUTSIDE the quantified domain or outside the statement: inputs the property explicitly excludes, arguments no constructor of the library can produce, functions near the anchored ones that the statement does not mention;
  - WHICH error is returned when the statement only says "an error" / "rejected": other sentinel, wrapped error, other message, other error code, a different one of two applicable errors because two validity checks swapped order; errors that are now reported earlier or later (before / after partial work) where the statement does not say;
  - a choice among several results the statement allows (when it gives an inequality, a bound or a set rather than one value): move inside the allowed range;
  - representation details the statement does not fix: nil versus empty slices in returned values, capacity of returned slices, whether a returned slice is a fresh copy or not where the caller data clause is not affected, pointer identity of returned objects, more copying than before, the internal field layout, the order of fields in produced JSON where a decoder does not care, upper- versus lower-case hex only where the statement does not fix it;
  - resource behaviour within what the statement allows: more (or fewer) allocations, pre-sizing buffers from TRUSTED lengths, a correct cache or pooled buffer (one that is invalidated / copied correctly so that no result ever goes stale or aliases), a slower or faster algorithm giving the same answers, chunk sizes of readers, the number of Read calls made on an io.Reader (without reading past what is needed if the statement forbids that);
  - internal control flow: fast paths that agree with the general path everywhere, validation done up front instead of lazily where the observable verdict is the same, a different but equivalent order of independent steps, recursion replaced by a loop;
  - stricter or laxer handling of things the statement does not cover (for example: extra, more informative fields in a debugging snapshot; an additional exported helper; a deprecated path redirected to the new one with identical results).

{extra}

Do NOT make changes that merely look benign but break a clause for rare inputs; the point is the opposite. Also do not break OTHER obvious contracts of the library (documented behaviour of exported functions, the Bitcoin wire formats and script rules): the changed library must remain a correct library.

For each change deliver, under {wt}/benign/<n>/ (n = {dirs}):
  - patch.diff : `git diff` of the change against HEAD (library source only; the benign/ directory itself must not be in the diff),
  - README.md : what changed and what a caller could observe; then, clause by clause of the statement, the argument why the property still holds for every input of the quantified domain; and what kind of over-specified check you expect might wrongly object.

IMPORTANT: never use `git stash` (the stash is shared with other people's worktrees of the same repository); to get back to a clean tree save your diff to a file and run `git checkout -- .`, and re-apply it with `git apply` when needed.

Procedure: make change 1, verify (a)(b), save the diff, `git checkout -- .` to restore HEAD, and repeat for {words}. Leave the worktree clean at the end (only the untracked benign/ directory). In your final message, summarise the changes (files, one-line description, what is observable, why the property holds) and confirm (a) and (b) with the commands you ran.
"""
    open(f'/tmp/benigntask{rnd}-{pid}.txt', 'w').write(txt)
    print(pid, wt)
