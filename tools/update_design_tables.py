#!/usr/bin/env python3
"""Refreshes the generated tables inside DESIGN.md (between marker comments)."""
import subprocess,re
p='/verif/DESIGN.md'
s=open(p).read()
t=subprocess.check_output(['python3','/verif/tools/seeded_table.py']).decode()
s=re.sub(r'<!-- seeded-table-begin -->.*?<!-- seeded-table-end -->','<!-- seeded-table-begin -->\n'+t+'<!-- seeded-table-end -->',s,flags=re.S)
t=subprocess.check_output(['python3','/verif/tools/benign_table.py']).decode()
s=re.sub(r'<!-- benign-table-begin -->.*?<!-- benign-table-end -->','<!-- benign-table-begin -->\n'+t+'<!-- benign-table-end -->',s,flags=re.S)
open(p,'w').write(s)
