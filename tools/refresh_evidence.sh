#!/bin/sh
# Runs every property's quick check on /repo's working tree (VERIF_SEED unset = 0) so that the
# committed evidence/<id>.json files describe the unchanged tree. Prints one line per property.
cd /verif || exit 2
rc=0
for i in 01 02 03 04 05 06 07 08 09 10 11 12 13 14 15 16 17 18 19 20; do
  out=$(./check C$i quick 2>&1); r=$?
  echo "$out" | grep -E "^(OK|VIOLATION|INCONCLUSIVE)" | cut -c1-160
  [ $r -ne 0 ] && { echo "C$i exit=$r"; rc=1; }
done
exit $rc
