#!/usr/bin/env python3
import json,glob
print("| seeded change | property | needs | caught by |\n|---|---|---|---|")
for f in sorted(glob.glob('/verif/seeded/*/meta.json')):
    m=json.load(open(f)); n=f.split('/')[-2]
    cr=m['check_result']
    if cr.get('not_closed'):
        c="**not caught** (judged outside the stated property, see note in meta.json and the text above)"
    else:
        c=cr['caught_by_subchecks']+(" — **missed at first**" if cr.get('missed_at_first') else "")
    print(f"| {n}: {m['change']} | {m['property']} | {m['needs_to_manifest']} | {c} |")
