#!/usr/bin/env python3
import json,glob
print("| seeded change | property | needs | caught by |\n|---|---|---|---|")
for f in sorted(glob.glob('/verif/seeded/*/meta.json')):
    m=json.load(open(f)); n=f.split('/')[-2]
    c=m['check_result']['caught_by_subchecks']+(" — **missed at first**" if m['check_result'].get('missed_at_first') else "")
    print(f"| {n}: {m['change']} | {m['property']} | {m['needs_to_manifest']} | {c} |")
