#!/usr/bin/env python3
"""Regenerates MANIFEST.json from tools/manifest_src.json (claimed checks) + properties.jsonl
(everything not claimed goes to not_applicable with the reason given in manifest_src.json)."""
import json, os
root = os.path.dirname(os.path.dirname(os.path.abspath(__file__)))
src = json.load(open(os.path.join(root, 'tools', 'manifest_src.json')))
props = [json.loads(l) for l in open(os.path.join(root, 'properties.jsonl'))]
checks = []
na = []
for p in props:
    pid = p['id']
    c = src['checks'].get(pid)
    if c and not c.get('disabled'):
        checks.append({
            'property_id': pid,
            'quick_cmd': f'./check {pid} quick',
            'thorough_cmd': f'./check {pid} thorough',
            'evidence_file': f'/verif/evidence/{pid}.json',
            'replay_cmd_template': f'./check {pid} --replay {{path}}',
            'engine': c.get('engine', 'rapid'),
            'level_claimed': {'category': 'exploration', 'text': c['text'], 'design_ref': f'DESIGN.md section 5 {pid}'},
            'level_note': c['note'],
            'technique': c['technique'],
        })
    else:
        na.append({'property_id': pid, 'reason': (c or {}).get('reason', src['default_reason'])})
m = {
    'version': 1,
    'setup_cmd': './check --setup',
    'hooks': {
        'guard': 'verif',
        'enable': 'none needed: no hook commits; every observation goes through the exported API (Engine.Execute, Debugger, codecs)',
        'baseline_off_cmd': "cd /repo && GOFLAGS=-mod=mod GOPROXY=off GOSUMDB=off go test -json -vet=off -count=1 -timeout 25m ./...",
        'source_commits': [],
        'add_only': True,
    },
    'engines': src['engines'],
    'checks': checks,
    'notes': src['notes'],
    'not_applicable': na,
}
json.dump(m, open(os.path.join(root, 'MANIFEST.json'), 'w'), indent=1)
print('claimed', [c['property_id'] for c in checks], 'not claimed', [n['property_id'] for n in na])
