#!/usr/bin/env python3
"""Prints the table of benign changes (benign/*/meta.json) for DESIGN.md section 8.4."""
import json, glob, re
print("| benign change | what moves (from its README) | checks run against it (exit) |\n|---|---|---|")
for f in sorted(glob.glob('/verif/benign/*/meta.json')):
    m = json.load(open(f)); n = f.split('/')[-2]
    what = m.get('what', '')
    if not what:
        try:
            txt = open(f.replace('meta.json', 'README.md')).read()
            lines = [l.strip('# ').strip() for l in txt.splitlines() if l.strip()]
            what = lines[0][:160] if lines else ''
        except OSError:
            what = ''
    what = what.replace('|', '/')
    cs = ', '.join(f"{q}={v['exit']}" + (f" [{'; '.join(v['subchecks'])}]" if v.get('subchecks') else '') for q, v in m.get('checks', {}).items())
    verdict = m.get('verdict', '')
    print(f"| {n} | {what} | {cs}{(' — ' + verdict) if verdict else ''} |")
