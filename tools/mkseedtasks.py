#!/usr/bin/env python3
"""mkseedtasks.py ROUND PROP [PROP ...]

Writes /tmp/seedtask<ROUND>-<PROP>.txt (the complete brief for a fresh seeding sub-agent: property
text, one-line descriptions of the changes that already exist for it, what to deliver) and creates
the scratch worktree /tmp/seed<ROUND>-<PROP> of /repo HEAD. The brief contains nothing from /verif
but the property text and those one-liners."""
import json, os, subprocess, sys, glob

rnd = sys.argv[1]
props = {json.loads(l)['id']: json.loads(l) for l in open('/verif/properties.jsonl')}
for pid in sys.argv[2:]:
    p = props[pid]
    wt = f'/tmp/seed{rnd}-{pid}'
    if not os.path.exists(wt):
        subprocess.run(['git', '-C', '/repo', 'worktree', 'add', '--detach', wt, 'HEAD'], check=True, capture_output=True)
    prev = []
    for m in sorted(glob.glob(f'/verif/seeded/{pid}-*/meta.json')):
        prev.append(' - ' + json.load(open(m))['change'])
    anchors = p['anchors']
    mech = '; '.join(f"{m['name']} ({m['where']})" for m in anchors.get('mechanism', []))
    extra = ''
    if int(rnd) >= 5:
        extra = (" Assume the property is already being checked by a property-based test harness that compares the library against independent reference implementations over randomly generated inputs, generated call sequences on one object, results kept across later calls, and element counts / lengths around 253 and 65536; aim for a defect such a harness is unlikely to generate the trigger for by chance: a magic value or a narrow numeric window, a rare combination of three or more conditions, an interaction between two API entry points that are rarely used together, an exported option / constructor / helper that ordinary tests never touch, a particular ordering of otherwise ordinary calls, or a dependence on something outside the arguments (package-level state, object identity, capacity of a caller's slice).")
    if int(rnd) >= 9:
        extra += (" The earlier changes listed above lean heavily on magic constants, caches and pooled buffers; this time prefer one of: (i) two cooperating sites that each look correct alone (a helper whose contract is subtly changed plus a caller that relied on the old contract for one rare shape only); (ii) a fault at a particular point - an io.Reader that fails or short-reads at a specific offset, a callback / supplier / unlocker that returns an error or an unusual value at a certain call, and what the library leaves behind or reports afterwards; (iii) a clause of the property statement or an exported function in the anchored files that none of the earlier changes touches; (iv) behaviour that differs only for a rare but legal *combination* of options, flags or argument forms.")
    txt = f"""You are given a Go library (libsv/go-bt: Bitcoin SV transactions and a script interpreter) in your own scratch git worktree at {wt} (a checkout of the library's current HEAD; work ONLY inside that directory; do not read or write anything under /verif or /repo; there is no network: every go command needs `export GOFLAGS=-mod=mod GOPROXY=off GOSUMDB=off GOTOOLCHAIN=local`).

The library is claimed to satisfy this semantic property:

Property {pid}: {p['title']}

Statement: {p['statement']}

Quantified over: {p['quantifier']['text']}

Why the existing tests cannot settle it: {p['why_tests_cant']}

Code anchors: files {', '.join(anchors['files'])}; mechanisms: {mech}


Other people have already produced the following changes for this property; yours must be DIFFERENT (other functions, other mechanisms, other triggers). Look for parts of the property's claim and of the anchored code that none of these touch:
{chr(10).join(prev)}


Your task: produce TWO different, realistic code changes ("seeded defects") to the library (non-test .go files only), each of which
  (a) still compiles (`go build ./...`),
  (b) still passes the library's entire existing test suite unchanged (`go test -vet=off -count=1 ./...` in {wt} must print no FAIL),
  (c) breaks the property above, and
  (d) needs something specific to manifest — an unusual input, a particular boundary value, a multi-step sequence of operations on one object, results kept across later calls, a particular flag combination or era, a particular interleaving, or two cooperating sites that each look fine alone — NOT something ordinary use would expose at once. Think of the kind of subtle regression a maintainer could plausibly introduce in a refactoring or "optimisation" (off-by-one at a boundary class, a missing copy, a wrong constant for a rare branch, a dropped check on an uncommon path, an operand order that only matters for asymmetric values, a cache or pooled buffer that goes stale, state that leaks from one call into the next, a fast path that disagrees with the general path for rare inputs...). The two changes should be in different functions / exercise different mechanisms. Avoid changes that make almost every input fail. Prefer parts of the property's statement that the earlier changes listed above leave untouched.{extra}

For each change deliver, under {wt}/seeded/<n>/ (n = 1, 2):
  - patch.diff : `git diff` of the change against HEAD (library source only; the seeded/ directory itself must not be in the diff),
  - demo_test.go + a short README.md: a demonstration that FAILS with the change applied and PASSES on the unchanged HEAD, showing the property violation concretely. The demonstration should check the property's own claim (e.g. compare against the value the specification requires), not merely "output changed".
  - In README.md: which clause of the property is broken, what exactly is needed for the defect to manifest (the trigger), and why the existing test suite does not notice.

IMPORTANT: never use `git stash` (the stash is shared with other people's worktrees of the same repository); to get back to a clean tree save your diff to a file and run `git checkout -- .`, and re-apply it with `git apply` when needed. The demo file must start with the line `//go:build seeddemo`, define `func TestSeedDemo(t *testing.T)`, and README.md must say into which package directory it has to be copied (run with `go test -tags seeddemo -run TestSeedDemo <pkg>`).

Procedure: make change 1, verify (a)(b), write and run the demo with the change (must fail) and on a clean checkout (save the diff, `git checkout -- .`; must pass), save the diff, then `git checkout -- .` to restore HEAD and repeat for change 2. Leave the worktree clean at the end (only the untracked seeded/ directory). In your final message, summarise both changes (files, trigger, one-line description, and the package directory of each demo) and confirm the four requirements with the commands you ran.
"""
    open(f'/tmp/seedtask{rnd}-{pid}.txt', 'w').write(txt)
    print(pid, wt, len(prev), 'earlier changes listed')
