#!/usr/bin/env python3
"""mkmeta.py NAME CHANGE NEEDS MISSED(0|1) [NOTE] [--exit N] [--subs "a, b"]
Writes seeded/NAME/meta.json in the common format (round >= 9 helper)."""
import json, sys
a = sys.argv[1:]
name, change, needs, missed = a[0], a[1], a[2], a[3] == '1'
note = a[4] if len(a) > 4 and not a[4].startswith('--') else ''
ex, subs = 1, 'PENDING'
if '--exit' in a: ex = int(a[a.index('--exit') + 1])
if '--subs' in a: subs = a[a.index('--subs') + 1]
rnd = int(a[a.index('--round') + 1]) if '--round' in a else 9
prop = name.split('-')[0]
m = {
 "property": prop, "change": change, "needs_to_manifest": needs,
 "produced_by": "fresh sub-agent given only the property text, one-line descriptions of the earlier seeded changes to avoid, a description of what kind of harness it is up against (round >= 5; round 9 additionally asked for cooperating sites, injected faults, untouched clauses, rare option combinations) and its own scratch worktree of /repo HEAD",
 "round": rnd,
 "confirmed": {"compiles": True, "pinned_suite_passes_with_change": True, "demo_fails_with_change": True, "demo_passes_without_change": True,
  "how": f"seeded/verify.sh {prop} {name} <agent dir> <demo destination> seeddemo: scratch copy of /repo, git apply patch.diff, go build ./..., go test -vet=off -count=1 ./... (no FAIL), demo with and without the change, then VERIF_REPO=<scratch> ./check {prop} quick"},
 "check_result": {"command": f"./check {prop} quick (against the changed tree)", "exit": ex, "caught_by_subchecks": subs, "missed_at_first": missed},
}
if note: m["note"] = note
json.dump(m, open(f'/verif/seeded/{name}/meta.json', 'w'), indent=1)
print('meta', name)
