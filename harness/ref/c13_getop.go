package ref

// Independent script tokeniser (a GetOp-style reader, written from the script
// format: opcodes 0x01..0x4b push that many bytes, 0x4c/0x4d/0x4e are followed
// by a 1/2/4-byte little-endian length and that many bytes, everything else is
// a one-byte instruction). It is the reference for push boundaries and for
// "accept vs truncated" in C13/C14. It never looks at the library.

// Script opcodes the reference needs by name.
const (
	OpPushData1 = 0x4c
	OpPushData2 = 0x4d
	OpPushData4 = 0x4e
	OpIf        = 0x63
	OpNotIf     = 0x64
	OpVerIf     = 0x65
	OpVerNotIf  = 0x66
	OpEndIf     = 0x68
	OpReturn    = 0x6a
)

// ScriptTok is one instruction as it sits in the script bytes.
type ScriptTok struct {
	Op     byte
	IsPush bool   // opcode 0x01..0x4e (carries immediate data, possibly of length 0)
	Data   []byte // the pushed bytes (nil for non-push opcodes)
	Start  int    // offset of the opcode byte
	End    int    // offset one past the last byte of the instruction
}

// GetOp reads one instruction at offset pc. ok is false when the instruction
// runs past the end of the script (a truncated push: missing length bytes or
// missing data bytes) or when pc is not inside the script.
func GetOp(script []byte, pc int) (tok ScriptTok, ok bool) {
	if pc < 0 || pc >= len(script) {
		return ScriptTok{}, false
	}
	op := script[pc]
	tok = ScriptTok{Op: op, Start: pc}
	p := pc + 1
	var n uint64
	switch {
	case op >= 0x01 && op <= 0x4b:
		n = uint64(op)
	case op == OpPushData1:
		if len(script)-p < 1 {
			return tok, false
		}
		n = uint64(script[p])
		p++
	case op == OpPushData2:
		if len(script)-p < 2 {
			return tok, false
		}
		n = uint64(script[p]) | uint64(script[p+1])<<8
		p += 2
	case op == OpPushData4:
		if len(script)-p < 4 {
			return tok, false
		}
		n = uint64(script[p]) | uint64(script[p+1])<<8 | uint64(script[p+2])<<16 | uint64(script[p+3])<<24
		p += 4
	default:
		tok.End = p
		return tok, true
	}
	tok.IsPush = true
	if uint64(len(script)-p) < n {
		return tok, false
	}
	tok.Data = script[p : p+int(n)]
	tok.End = p + int(n)
	return tok, true
}

// Tokenize walks the whole script. It returns the instructions read so far and
// ok=false if an instruction is truncated (toks then holds the complete ones
// before it; cutAt is the offset of the truncated instruction, else len(script)).
func Tokenize(script []byte) (toks []ScriptTok, ok bool, cutAt int) {
	pc := 0
	for pc < len(script) {
		t, good := GetOp(script, pc)
		if !good {
			return toks, false, pc
		}
		toks = append(toks, t)
		pc = t.End
	}
	return toks, true, len(script)
}

// MinimalPushPrefix is the shortest push prefix for a data item of length n
// chosen by length alone (direct push up to 75, then PUSHDATA1/2/4).
func MinimalPushPrefix(n int) []byte {
	switch {
	case n <= 75:
		return []byte{byte(n)}
	case n <= 0xff:
		return []byte{OpPushData1, byte(n)}
	case n <= 0xffff:
		return []byte{OpPushData2, byte(n), byte(n >> 8)}
	default:
		return []byte{OpPushData4, byte(n), byte(n >> 8), byte(n >> 16), byte(n >> 24)}
	}
}

// PushForm returns the reference encoding of one push with the given opcode
// form: form 0 = minimal by length, 1/2/4 = PUSHDATA1/2/4 (caller guarantees the
// length fits), -1 = direct push (length 1..75).
func PushForm(data []byte, form int) []byte {
	n := len(data)
	var out []byte
	switch form {
	case -1:
		out = []byte{byte(n)}
	case 1:
		out = []byte{OpPushData1, byte(n)}
	case 2:
		out = []byte{OpPushData2, byte(n), byte(n >> 8)}
	case 4:
		out = []byte{OpPushData4, byte(n), byte(n >> 8), byte(n >> 16), byte(n >> 24)}
	default:
		out = MinimalPushPrefix(n)
	}
	return append(out, data...)
}

// ParserView describes how a parser that stops tokenising at a top-level
// OP_RETURN (one outside every IF..ENDIF block) must treat a script.
type ParserView struct {
	Toks        []ScriptTok // instructions up to and including the top-level OP_RETURN (or all of them)
	ReturnAt    int         // offset of the top-level OP_RETURN, -1 if none was reached
	Truncated   bool        // a push before any top-level OP_RETURN runs past the end
	Ambiguous   bool        // an OP_RETURN was met after an unbalanced ENDIF or an OP_VERIF/OP_VERNOTIF: "top level" is not decided here
	HasOpReturn bool        // some instruction (at any depth) is OP_RETURN
}

// ParserTokenize walks the script the way the statement describes the opcode
// parser: instructions are read one by one, IF/NOTIF open a block and ENDIF
// closes one; an OP_RETURN met outside every block ends
// tokenisation and everything after it is an opaque blob.
func ParserTokenize(script []byte) ParserView {
	v := ParserView{ReturnAt: -1}
	depth := 0
	wentNegative := false
	sawVer := false
	pc := 0
	for pc < len(script) {
		t, good := GetOp(script, pc)
		if !good {
			v.Truncated = true
			return v
		}
		switch t.Op {
		case OpIf, OpNotIf:
			depth++
		case OpVerIf, OpVerNotIf:
			// always-invalid opcodes: whether they open a block for the purpose of
			// locating a top-level OP_RETURN is not something the statement decides
			sawVer = true
		case OpEndIf:
			depth--
			if depth < 0 {
				wentNegative = true
			}
		case OpReturn:
			v.HasOpReturn = true
			if wentNegative || sawVer {
				v.Ambiguous = true
			}
			if depth == 0 {
				v.Toks = append(v.Toks, t)
				v.ReturnAt = pc
				return v
			}
		}
		v.Toks = append(v.Toks, t)
		pc = t.End
	}
	return v
}
