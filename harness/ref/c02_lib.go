package ref

import (
	"fmt"
	"reflect"

	"github.com/libsv/go-bt/v2"
)

// ToLibLoose is ToLib for models that may contain inputs *without* a previous
// txid (model TxID of length 0): such an input is built as the zero-value
// bt.Input with its exported fields set, which is the only way the exported API
// produces an input whose PreviousTxID() is empty.
func ToLibLoose(m Tx) *bt.Tx {
	tx := &bt.Tx{Version: m.Version, LockTime: m.LockTime, Inputs: make([]*bt.Input, 0, len(m.In))}
	for n, in := range m.In {
		i := &bt.Input{PreviousTxOutIndex: in.Vout, SequenceNumber: in.Seq, PreviousTxSatoshis: in.PrevSats}
		if len(in.TxID) != 0 {
			if err := i.PreviousTxIDAdd(append([]byte{}, in.TxID...)); err != nil {
				panic("ref.ToLibLoose: model with invalid txid: " + err.Error())
			}
		}
		if !in.UnlockNil {
			i.UnlockingScript = LibScript(in.Unlock, n+len(m.Out)+int(m.LockTime%7))
		}
		if !in.PrevNil {
			i.PreviousTxScript = LibScript(in.PrevScript, n+len(m.In)+int(m.Version%5))
		}
		tx.Inputs = append(tx.Inputs, i)
	}
	for n, o := range m.Out {
		tx.Outputs = append(tx.Outputs, &bt.Output{Satoshis: o.Sats, LockingScript: LibScript(o.Script, n+len(m.In)+int(m.LockTime%3))})
	}
	return tx
}

// Snapshot reads every field of a library transaction (through the pointers the
// object holds *now*) into a model; two snapshots are compared with SameSnapshot
// to decide "the call left the transaction unchanged": same counts, same scalar
// fields, same script bytes and the same nil-ness of every script pointer.
func Snapshot(tx *bt.Tx) Tx {
	m := FromLib(tx)
	m.Damage = CanaryDamage(tx)
	return m
}

// SameSnapshot compares two snapshots exactly (nil-ness flags included).
func SameSnapshot(a, b Tx) bool { return reflect.DeepEqual(a, b) }

// DiffSnapshot names the first field in which two snapshots differ ("" if none).
func DiffSnapshot(a, b Tx) string {
	short := func(h []byte) string {
		if len(h) > 40 {
			return fmt.Sprintf("%x..(%d bytes)", h[:40], len(h))
		}
		return fmt.Sprintf("%x", h)
	}
	switch {
	case a.Damage != b.Damage:
		return b.Damage
	case a.Version != b.Version:
		return fmt.Sprintf("Version %d -> %d", a.Version, b.Version)
	case a.LockTime != b.LockTime:
		return fmt.Sprintf("LockTime %d -> %d", a.LockTime, b.LockTime)
	case len(a.In) != len(b.In):
		return fmt.Sprintf("input count %d -> %d", len(a.In), len(b.In))
	case len(a.Out) != len(b.Out):
		return fmt.Sprintf("output count %d -> %d", len(a.Out), len(b.Out))
	}
	for i := range a.In {
		x, y := a.In[i], b.In[i]
		switch {
		case string(x.TxID) != string(y.TxID):
			return fmt.Sprintf("input %d txid %x -> %x", i, x.TxID, y.TxID)
		case x.Vout != y.Vout:
			return fmt.Sprintf("input %d vout %d -> %d", i, x.Vout, y.Vout)
		case x.Seq != y.Seq:
			return fmt.Sprintf("input %d sequence %d -> %d", i, x.Seq, y.Seq)
		case x.PrevSats != y.PrevSats:
			return fmt.Sprintf("input %d previous satoshis %d -> %d", i, x.PrevSats, y.PrevSats)
		case x.UnlockNil != y.UnlockNil:
			return fmt.Sprintf("input %d UnlockingScript nil=%v -> nil=%v", i, x.UnlockNil, y.UnlockNil)
		case x.PrevNil != y.PrevNil:
			return fmt.Sprintf("input %d PreviousTxScript nil=%v -> nil=%v", i, x.PrevNil, y.PrevNil)
		case string(x.Unlock) != string(y.Unlock):
			return fmt.Sprintf("input %d unlocking script %s -> %s", i, short(x.Unlock), short(y.Unlock))
		case string(x.PrevScript) != string(y.PrevScript):
			return fmt.Sprintf("input %d previous script %s -> %s", i, short(x.PrevScript), short(y.PrevScript))
		}
	}
	for i := range a.Out {
		x, y := a.Out[i], b.Out[i]
		switch {
		case x.Sats != y.Sats:
			return fmt.Sprintf("output %d satoshis %d -> %d", i, x.Sats, y.Sats)
		case string(x.Script) != string(y.Script):
			return fmt.Sprintf("output %d script %s -> %s", i, short(x.Script), short(y.Script))
		}
	}
	if !reflect.DeepEqual(a, b) {
		return "nil-ness of a slice changed"
	}
	return ""
}
