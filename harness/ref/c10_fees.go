package ref

// Independent size / fee oracle used by C10, C11 and C12.
//
// Nothing here calls into the library's size, fee or classification code:
// sizes come from the reference codec (Encode), the data/standard partition
// from FeeIsData, fees from unbounded integer arithmetic. The only library
// types used are the plain data carriers needed to hand a quote to the code
// under test (FeeQuoteToLib).

import (
	"errors"
	"fmt"
	"math/big"
	"time"

	"github.com/libsv/go-bt/v2"

	"verif/harness/pbt"
)

// FeeUnit is "Sat satoshis per Bytes bytes".
type FeeUnit struct {
	Sat   int `json:"sat"`
	Bytes int `json:"bytes"`
}

// FeeQuote models a fee quote: mining and relay rate for both fee types. Only the
// mining fee is "the quoted fee" the library documents for change and funding;
// the relay fee is carried so that a case can show it is ignored.
type FeeQuote struct {
	Std       FeeUnit `json:"std"`
	Data      FeeUnit `json:"data"`
	StdRelay  FeeUnit `json:"std_relay"`
	DataRelay FeeUnit `json:"data_relay"`
	// StdTag / DataTag say what the informational FeeType field of the *bt.Fee registered as
	// the standard / data fee carries (FeeTagKey, FeeTagEmpty, FeeTagOther). Only
	// FeeQuoteToLibTagged and FeeLibFee look at them: a quote answers by the key a fee was
	// registered under, whatever the fee object says about itself.
	StdTag  int `json:"std_tag,omitempty"`
	DataTag int `json:"data_tag,omitempty"`
	// Build says how FeeQuoteBuild fills the library object (FeeBuild*).
	Build int `json:"build,omitempty"`
}

// Values of FeeQuote.StdTag / DataTag.
const (
	FeeTagKey   = 0 // Fee.FeeType equals the key the fee is registered under
	FeeTagEmpty = 1 // Fee.FeeType is empty
	FeeTagOther = 2 // Fee.FeeType names the other fee type (a copied and edited fee object)
)

// FeeLibFee builds the *bt.Fee to be registered under key with the given mining / relay rate;
// tag chooses the content of its informational FeeType field.
func FeeLibFee(key bt.FeeType, mining, relay FeeUnit, tag int) *bt.Fee {
	f := &bt.Fee{FeeType: key,
		MiningFee: bt.FeeUnit{Satoshis: mining.Sat, Bytes: mining.Bytes},
		RelayFee:  bt.FeeUnit{Satoshis: relay.Sat, Bytes: relay.Bytes}}
	switch tag {
	case FeeTagEmpty:
		f.FeeType = ""
	case FeeTagOther:
		f.FeeType = bt.FeeTypeData
		if key == bt.FeeTypeData {
			f.FeeType = bt.FeeTypeStandard
		}
	}
	return f
}

// FeeQuoteToLibTagged is FeeQuoteToLib honouring q.StdTag / q.DataTag.
func FeeQuoteToLibTagged(q FeeQuote) *bt.FeeQuote {
	fq := bt.NewFeeQuote()
	fq.AddQuote(bt.FeeTypeStandard, FeeLibFee(bt.FeeTypeStandard, q.Std, q.StdRelay, q.StdTag))
	fq.AddQuote(bt.FeeTypeData, FeeLibFee(bt.FeeTypeData, q.Data, q.DataRelay, q.DataTag))
	return fq
}

// FeeQuoteToLib builds the library's quote object from the model.
func FeeQuoteToLib(q FeeQuote) *bt.FeeQuote {
	fq := bt.NewFeeQuote()
	fq.AddQuote(bt.FeeTypeStandard, &bt.Fee{FeeType: bt.FeeTypeStandard,
		MiningFee: bt.FeeUnit{Satoshis: q.Std.Sat, Bytes: q.Std.Bytes},
		RelayFee:  bt.FeeUnit{Satoshis: q.StdRelay.Sat, Bytes: q.StdRelay.Bytes}})
	fq.AddQuote(bt.FeeTypeData, &bt.Fee{FeeType: bt.FeeTypeData,
		MiningFee: bt.FeeUnit{Satoshis: q.Data.Sat, Bytes: q.Data.Bytes},
		RelayFee:  bt.FeeUnit{Satoshis: q.DataRelay.Sat, Bytes: q.DataRelay.Bytes}})
	return fq
}

// FeeIsData is the reference data-carrier classifier: the script starts
// with OP_RETURN (6a) or with OP_FALSE OP_RETURN (00 6a).
func FeeIsData(s []byte) bool {
	if len(s) >= 1 && s[0] == 0x6a {
		return true
	}
	return len(s) >= 2 && s[0] == 0x00 && s[1] == 0x6a
}

// FeeIsP2PKH is the reference P2PKH template: 76 a9 14 <20 bytes> 88 ac.
func FeeIsP2PKH(s []byte) bool {
	return len(s) == 25 && s[0] == 0x76 && s[1] == 0xa9 && s[2] == 0x14 && s[23] == 0x88 && s[24] == 0xac
}

// FeeP2PKH builds the P2PKH locking script for a 20-byte hash.
func FeeP2PKH(hash []byte) []byte {
	s := make([]byte, 0, 25)
	s = append(s, 0x76, 0xa9, 0x14)
	s = append(s, hash...)
	return append(s, 0x88, 0xac)
}

// FeeSizes is the size breakdown of a transaction.
type FeeSizes struct {
	Total, Std, Data uint64
}

// FeeSizesOf measures a model: total = length of the standard (non-extended)
// serialisation, data = script bytes of data-carrier outputs, std = the rest.
func FeeSizesOf(tx Tx) FeeSizes {
	total := uint64(len(Encode(tx, false)))
	var data uint64
	for _, o := range tx.Out {
		if FeeIsData(o.Script) {
			data += uint64(len(o.Script))
		}
	}
	return FeeSizes{Total: total, Std: total - data, Data: data}
}

// Errors of FeeEstimatedFinal.
var (
	ErrFeeMissingPrev = errors.New("ref: input without previous locking script")
	ErrFeeUnsupportedPrev   = errors.New("ref: input spends a script that is not P2PKH")
)

// FeeUnlockP2PKHLen is the documented size of the placeholder unlocking script of
// a not-yet-signed P2PKH input: push(72-byte signature incl. sighash byte) +
// push(33-byte compressed key) = 1+72+1+33.
const FeeUnlockP2PKHLen = 107

// FeeEstimatedFinal returns the model of the transaction "as it will be once
// signed", as the library documents it: every input without an unlocking
// script gets a 107-byte placeholder; inputs that already carry one are kept.
// Inputs whose spent script is missing / not P2PKH yield the two errors; when
// both occur the one of the first offending input is returned and both is set.
func FeeEstimatedFinal(tx Tx) (out Tx, both bool, err error) {
	out = tx
	out.In = make([]In, len(tx.In))
	copy(out.In, tx.In)
	sawMissing, sawUnsupported := false, false
	for i, in := range out.In {
		switch {
		case in.PrevNil:
			sawMissing = true
			if err == nil {
				err = ErrFeeMissingPrev
			}
			continue
		case !FeeIsP2PKH(in.PrevScript):
			sawUnsupported = true
			if err == nil {
				err = ErrFeeUnsupportedPrev
			}
			continue
		}
		if len(in.Unlock) == 0 {
			out.In[i].Unlock = make(pbt.Hex, FeeUnlockP2PKHLen)
			out.In[i].UnlockNil = false
		}
	}
	return out, sawMissing && sawUnsupported, err
}

// FeeCalc is floor(std*s/b) + floor(data*s'/b') over unbounded integers, using the
// mining rates of the quote. The two parts are also returned.
func FeeCalc(sz FeeSizes, q FeeQuote) (total, std, data *big.Int) {
	part := func(n uint64, u FeeUnit) *big.Int {
		x := new(big.Int).SetUint64(n)
		x.Mul(x, big.NewInt(int64(u.Sat)))
		return x.Div(x, big.NewInt(int64(u.Bytes))) // operands are non-negative: Div == floor
	}
	std = part(sz.Std, q.Std)
	data = part(sz.Data, q.Data)
	return new(big.Int).Add(std, data), std, data
}

// FeeCeilStd is ceil(n*s/b) at the standard mining rate (used for the slack
// bound "fee for nine bytes").
func FeeCeilStd(n uint64, q FeeQuote) *big.Int {
	x := new(big.Int).SetUint64(n)
	x.Mul(x, big.NewInt(int64(q.Std.Sat)))
	x.Add(x, big.NewInt(int64(q.Std.Bytes-1)))
	return x.Div(x, big.NewInt(int64(q.Std.Bytes)))
}

// FeeSumIn / FeeSumOut are the totals as unbounded integers.
func FeeSumIn(tx Tx) *big.Int {
	s := new(big.Int)
	for _, in := range tx.In {
		s.Add(s, new(big.Int).SetUint64(in.PrevSats))
	}
	return s
}

// FeeSumOut is the total output value.
func FeeSumOut(tx Tx) *big.Int {
	s := new(big.Int)
	for _, o := range tx.Out {
		s.Add(s, new(big.Int).SetUint64(o.Sats))
	}
	return s
}

// ---------------------------------------------------------------------------
// Quote objects as a caller builds and updates them (round 6).
//
// A *bt.FeeQuote can be filled and changed through several exported ways, and the *bt.Fee
// objects involved are ordinary caller-owned values: the same pointer may be registered under
// both types and in several quotes, objects obtained from the library (Fee) may be fed back
// into AddQuote / UpdateMinerFees. Whatever the way, a quote answers by the key a fee was last
// registered under, and registering a fee object does not modify it.

// Values of FeeQuote.Build: how FeeQuoteBuild fills the library object.
const (
	FeeBuildAddQuote   = 0 // two fee objects, AddQuote each (FeeQuoteToLibTagged)
	FeeBuildShared     = 1 // ONE fee object registered under both types (only when both rates and relay rates are equal; else as 0)
	FeeBuildFetched    = 2 // fee objects fetched with Fee() from another quote, where they sit under the other type
	FeeBuildUnmarshal  = 3 // UnmarshalJSON of a complete document into a fresh quote
	FeeBuildContainer  = 4 // default quote inside a FeeQuotes container, both fees set with UpdateMinerFees
	FeeBuildUsedBefore = 5 // default quote used for one fee calculation, then a complete document unmarshalled into the same object
)

// FeeQuoteEdit is one exported way of changing a quote object that is in use.
type FeeQuoteEdit struct {
	// Via: "addquote" (or empty) | "shared" | "fetched" | "fetched-other-quote" | "unmarshal" |
	// "unmarshal-partial" | "updateminerfees" | "expiry"
	Via   string  `json:"via,omitempty"`
	Data  bool    `json:"data,omitempty"`  // the data fee is the one replaced (else the standard fee)
	Unit  FeeUnit `json:"unit,omitempty"`  // new mining rate of that type
	Unit2 FeeUnit `json:"unit2,omitempty"` // unmarshal, unmarshal-partial: new mining rate of the other type
	Tag   int     `json:"tag,omitempty"`   // FeeType field of a fee object built for the edit (FeeTag*)
}

func feeUnitOK(u FeeUnit) bool {
	return u.Bytes >= 1 && u.Sat >= 0 && u.Sat <= 1000000 && u.Bytes <= 1000000
}

// FeeQuoteEditOK reports whether the edit is well formed (rates inside the domain of C10-C12).
func FeeQuoteEditOK(e FeeQuoteEdit) bool {
	switch e.Via {
	case "", "addquote", "shared", "fetched-other-quote", "updateminerfees":
		return feeUnitOK(e.Unit)
	case "unmarshal", "unmarshal-partial":
		return feeUnitOK(e.Unit) && feeUnitOK(e.Unit2)
	case "fetched", "expiry":
		return true
	}
	return false
}

type feeKept struct {
	p    *bt.Fee
	copy bt.Fee
	what string
}

// FeeQuoteLib is a library quote object together with every fee object the caller (the
// harness) handed to it or obtained from it.
type FeeQuoteLib struct {
	Q      *bt.FeeQuote
	kept   []feeKept
	miners *bt.FeeQuotes
}

func (l *FeeQuoteLib) keep(f *bt.Fee, what string) *bt.Fee {
	l.kept = append(l.kept, feeKept{f, *f, what})
	return f
}

// Unmodified checks that no fee object of the caller was changed by registering it (or by
// anything else the library did): its fields are what they were when it was handed over.
func (l *FeeQuoteLib) Unmodified() error {
	for _, k := range l.kept {
		if *k.p != k.copy {
			return fmt.Errorf("the caller's fee object (%s) was %+v when it was handed to the library and is %+v now: registering a fee object modified it", k.what, k.copy, *k.p)
		}
	}
	return nil
}

func feeJSON(mining, relay FeeUnit) string {
	return fmt.Sprintf(`{"miningFee":{"satoshis":%d,"bytes":%d},"relayFee":{"satoshis":%d,"bytes":%d}}`, mining.Sat, mining.Bytes, relay.Sat, relay.Bytes)
}

func feeKeyOther(data bool) (key, other bt.FeeType) {
	if data {
		return bt.FeeTypeData, bt.FeeTypeStandard
	}
	return bt.FeeTypeStandard, bt.FeeTypeData
}

// FeeQuoteBuild builds the library object for the model in the way q.Build says.
func FeeQuoteBuild(q FeeQuote) (*FeeQuoteLib, error) {
	l := &FeeQuoteLib{}
	switch q.Build {
	case FeeBuildShared:
		if q.Std == q.Data && q.StdRelay == q.DataRelay {
			l.Q = bt.NewFeeQuote()
			f := l.keep(FeeLibFee(bt.FeeTypeStandard, q.Std, q.StdRelay, q.StdTag), "one object registered under both types")
			l.Q.AddQuote(bt.FeeTypeStandard, f)
			l.Q.AddQuote(bt.FeeTypeData, f)
			return l, nil
		}
	case FeeBuildFetched:
		// quote A holds the model's data fee under "standard" and its standard fee under "data"
		a := bt.NewFeeQuote()
		a.AddQuote(bt.FeeTypeStandard, l.keep(FeeLibFee(bt.FeeTypeStandard, q.Data, q.DataRelay, q.DataTag), "registered in another quote as standard"))
		a.AddQuote(bt.FeeTypeData, l.keep(FeeLibFee(bt.FeeTypeData, q.Std, q.StdRelay, q.StdTag), "registered in another quote as data"))
		fs, err := a.Fee(bt.FeeTypeData)
		if err != nil {
			return nil, fmt.Errorf("Fee(data) on a quote both fees were added to: %v", err)
		}
		fd, err := a.Fee(bt.FeeTypeStandard)
		if err != nil {
			return nil, fmt.Errorf("Fee(standard) on a quote both fees were added to: %v", err)
		}
		l.Q = bt.NewFeeQuote()
		l.Q.AddQuote(bt.FeeTypeStandard, l.keep(fs, "fetched from another quote (data) and registered as standard"))
		l.Q.AddQuote(bt.FeeTypeData, l.keep(fd, "fetched from another quote (standard) and registered as data"))
		return l, nil
	case FeeBuildUnmarshal:
		l.Q = bt.NewFeeQuote()
		doc := `{"standard":` + feeJSON(q.Std, q.StdRelay) + `,"data":` + feeJSON(q.Data, q.DataRelay) + `}`
		if err := l.Q.UnmarshalJSON([]byte(doc)); err != nil {
			return nil, fmt.Errorf("UnmarshalJSON(%s): %v", doc, err)
		}
		return l, nil
	case FeeBuildUsedBefore:
		// the object is created with the default rates, used for a fee calculation, and only then
		// given the model's rates with a complete document
		l.Q = bt.NewFeeQuote()
		if _, err := bt.NewTx().EstimateFeesPaid(l.Q); err != nil {
			return nil, fmt.Errorf("EstimateFeesPaid on an empty transaction with the default quote: %v", err)
		}
		doc := `{"standard":` + feeJSON(q.Std, q.StdRelay) + `,"data":` + feeJSON(q.Data, q.DataRelay) + `}`
		if err := l.Q.UnmarshalJSON([]byte(doc)); err != nil {
			return nil, fmt.Errorf("UnmarshalJSON(%s): %v", doc, err)
		}
		return l, nil
	case FeeBuildContainer:
		l.miners = bt.NewFeeQuotes("miner")
		if _, err := l.miners.UpdateMinerFees("miner", bt.FeeTypeStandard, l.keep(FeeLibFee(bt.FeeTypeStandard, q.Std, q.StdRelay, q.StdTag), "standard fee given to UpdateMinerFees")); err != nil {
			return nil, fmt.Errorf("UpdateMinerFees(standard): %v", err)
		}
		if _, err := l.miners.UpdateMinerFees("miner", bt.FeeTypeData, l.keep(FeeLibFee(bt.FeeTypeData, q.Data, q.DataRelay, q.DataTag), "data fee given to UpdateMinerFees")); err != nil {
			return nil, fmt.Errorf("UpdateMinerFees(data): %v", err)
		}
		fq, err := l.miners.Quote("miner")
		if err != nil {
			return nil, fmt.Errorf("Quote(miner): %v", err)
		}
		l.Q = fq
		return l, nil
	}
	l.Q = bt.NewFeeQuote()
	l.Q.AddQuote(bt.FeeTypeStandard, l.keep(FeeLibFee(bt.FeeTypeStandard, q.Std, q.StdRelay, q.StdTag), "standard fee"))
	l.Q.AddQuote(bt.FeeTypeData, l.keep(FeeLibFee(bt.FeeTypeData, q.Data, q.DataRelay, q.DataTag), "data fee"))
	return l, nil
}

// Apply performs the edit on the library object and on the model q.
func (l *FeeQuoteLib) Apply(q *FeeQuote, e FeeQuoteEdit) error {
	key, other := feeKeyOther(e.Data)
	relay, orelay := &q.StdRelay, &q.DataRelay
	if e.Data {
		relay, orelay = &q.DataRelay, &q.StdRelay
	}
	switch e.Via {
	case "", "addquote":
		l.Q.AddQuote(key, l.keep(FeeLibFee(key, e.Unit, *relay, e.Tag), "fee given to AddQuote"))
	case "shared": // one object under both types
		f := l.keep(FeeLibFee(key, e.Unit, *relay, e.Tag), "one object registered under both types")
		l.Q.AddQuote(key, f)
		l.Q.AddQuote(other, f)
	case "fetched": // the object registered under the other type is registered under this one as well
		f, err := l.Q.Fee(other)
		if err != nil {
			return fmt.Errorf("Fee(%s): %v", other, err)
		}
		l.Q.AddQuote(key, l.keep(f, "fetched with Fee("+string(other)+") and registered as "+string(key)))
	case "fetched-other-quote": // an object that sits in another quote under the other type
		a := bt.NewFeeQuote()
		a.AddQuote(other, l.keep(FeeLibFee(other, e.Unit, *relay, e.Tag), "registered in another quote as "+string(other)))
		f, err := a.Fee(other)
		if err != nil {
			return fmt.Errorf("Fee(%s) on the other quote: %v", other, err)
		}
		l.Q.AddQuote(key, l.keep(f, "fetched from another quote ("+string(other)+") and registered as "+string(key)))
	case "unmarshal", "unmarshal-partial":
		doc := `{"` + string(key) + `":` + feeJSON(e.Unit, *relay)
		if e.Via == "unmarshal" {
			doc += `,"` + string(other) + `":` + feeJSON(e.Unit2, *orelay)
		}
		doc += `}`
		if err := l.Q.UnmarshalJSON([]byte(doc)); err != nil {
			return fmt.Errorf("UnmarshalJSON(%s): %v", doc, err)
		}
		if e.Via == "unmarshal-partial" { // the other type is (re-)registered explicitly before the next use
			l.Q.AddQuote(other, l.keep(FeeLibFee(other, e.Unit2, *orelay, e.Tag), "fee given to AddQuote"))
		}
	case "updateminerfees":
		if l.miners == nil {
			l.miners = bt.NewFeeQuotes("some other miner")
			l.miners.AddMiner("miner", l.Q)
		}
		got, err := l.miners.UpdateMinerFees("miner", key, l.keep(FeeLibFee(key, e.Unit, *relay, e.Tag), "fee given to UpdateMinerFees"))
		if err != nil {
			return fmt.Errorf("UpdateMinerFees: %v", err)
		}
		if got != l.Q {
			return fmt.Errorf("UpdateMinerFees returned a quote object other than the one registered for the miner")
		}
	case "expiry":
		l.Q.UpdateExpiry(time.Unix(1700000000+int64(e.Unit.Sat), 0).UTC())
	default:
		return fmt.Errorf("harness: unknown quote edit %q", e.Via)
	}
	FeeQuoteEditModel(q, e)
	return nil
}

// FeeQuoteEditModel applies the edit to the model only: what the quote must answer afterwards.
func FeeQuoteEditModel(q *FeeQuote, e FeeQuoteEdit) {
	rate, relay, tag := &q.Std, &q.StdRelay, &q.StdTag
	orate, orelay := &q.Data, &q.DataRelay
	if e.Data {
		rate, relay, tag = &q.Data, &q.DataRelay, &q.DataTag
		orate, orelay = &q.Std, &q.StdRelay
	}
	switch e.Via {
	case "", "addquote", "updateminerfees":
		*rate, *tag = e.Unit, e.Tag
	case "shared":
		*rate, *orate, *orelay = e.Unit, e.Unit, *relay
	case "fetched":
		*rate, *relay = *orate, *orelay
	case "fetched-other-quote":
		*rate = e.Unit
	case "unmarshal", "unmarshal-partial":
		*rate, *orate = e.Unit, e.Unit2
	}
}

// ---------------------------------------------------------------------------
// Fee units written with huge numbers (round 7 for C11, round 8 for C10 and C12).

// FeeUnitWideOK is the domain of a mining rate: positive byte denominator, non-negative
// satoshi amount, over the whole range of the (Go int) fields.
func FeeUnitWideOK(u FeeUnit) bool { return u.Bytes >= 1 && u.Sat >= 0 }

// FeeQuoteIsWide reports whether a mining rate of the quote is written with a number above 10^6.
func FeeQuoteIsWide(q FeeQuote) bool {
	for _, u := range []FeeUnit{q.Std, q.Data} {
		if u.Bytes > 1000000 || u.Sat > 1000000 {
			return true
		}
	}
	return false
}

// FeeFits reports whether the exact products bytes x satoshis of both fee types fit uint64 and
// the two floored fees add up below 2^64. The fee is stated as floor(bytes x rate); the library
// computes bytes*satoshis/bytes in uint64, so only such cases are judged (no claim is made
// about products that do not fit).
func FeeFits(sz FeeSizes, q FeeQuote) bool {
	for _, p := range [][2]uint64{{sz.Std, uint64(q.Std.Sat)}, {sz.Data, uint64(q.Data.Sat)}} {
		if !new(big.Int).Mul(new(big.Int).SetUint64(p[0]), new(big.Int).SetUint64(p[1])).IsUint64() {
			return false
		}
	}
	total, _, _ := FeeCalc(sz, q)
	return total.IsUint64()
}

// FeeQuoteEditWideOK is FeeQuoteEditOK with the rates of the edit taken from the wide domain.
func FeeQuoteEditWideOK(e FeeQuoteEdit) bool {
	for _, u := range []*FeeUnit{&e.Unit, &e.Unit2} {
		if FeeUnitWideOK(*u) {
			*u = FeeUnit{Sat: 1, Bytes: 1}
		}
	}
	return FeeQuoteEditOK(e)
}
