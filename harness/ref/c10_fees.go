package ref

// Independent size / fee oracle used by C10, C11 and C12.
//
// Nothing here calls into the library's size, fee or classification code:
// sizes come from the reference codec (Encode), the data/standard partition
// from FeeIsData, fees from unbounded integer arithmetic. The only library
// types used are the plain data carriers needed to hand a quote to the code
// under test (FeeQuoteToLib).

import (
	"errors"
	"math/big"

	"github.com/libsv/go-bt/v2"

	"verif/harness/pbt"
)

// FeeUnit is "Sat satoshis per Bytes bytes".
type FeeUnit struct {
	Sat   int `json:"sat"`
	Bytes int `json:"bytes"`
}

// FeeQuote models a fee quote: mining and relay rate for both fee types. Only the
// mining fee is "the quoted fee" the library documents for change and funding;
// the relay fee is carried so that a case can show it is ignored.
type FeeQuote struct {
	Std       FeeUnit `json:"std"`
	Data      FeeUnit `json:"data"`
	StdRelay  FeeUnit `json:"std_relay"`
	DataRelay FeeUnit `json:"data_relay"`
	// StdTag / DataTag say what the informational FeeType field of the *bt.Fee registered as
	// the standard / data fee carries (FeeTagKey, FeeTagEmpty, FeeTagOther). Only
	// FeeQuoteToLibTagged and FeeLibFee look at them: a quote answers by the key a fee was
	// registered under, whatever the fee object says about itself.
	StdTag  int `json:"std_tag,omitempty"`
	DataTag int `json:"data_tag,omitempty"`
}

// Values of FeeQuote.StdTag / DataTag.
const (
	FeeTagKey   = 0 // Fee.FeeType equals the key the fee is registered under
	FeeTagEmpty = 1 // Fee.FeeType is empty
	FeeTagOther = 2 // Fee.FeeType names the other fee type (a copied and edited fee object)
)

// FeeLibFee builds the *bt.Fee to be registered under key with the given mining / relay rate;
// tag chooses the content of its informational FeeType field.
func FeeLibFee(key bt.FeeType, mining, relay FeeUnit, tag int) *bt.Fee {
	f := &bt.Fee{FeeType: key,
		MiningFee: bt.FeeUnit{Satoshis: mining.Sat, Bytes: mining.Bytes},
		RelayFee:  bt.FeeUnit{Satoshis: relay.Sat, Bytes: relay.Bytes}}
	switch tag {
	case FeeTagEmpty:
		f.FeeType = ""
	case FeeTagOther:
		f.FeeType = bt.FeeTypeData
		if key == bt.FeeTypeData {
			f.FeeType = bt.FeeTypeStandard
		}
	}
	return f
}

// FeeQuoteToLibTagged is FeeQuoteToLib honouring q.StdTag / q.DataTag.
func FeeQuoteToLibTagged(q FeeQuote) *bt.FeeQuote {
	fq := bt.NewFeeQuote()
	fq.AddQuote(bt.FeeTypeStandard, FeeLibFee(bt.FeeTypeStandard, q.Std, q.StdRelay, q.StdTag))
	fq.AddQuote(bt.FeeTypeData, FeeLibFee(bt.FeeTypeData, q.Data, q.DataRelay, q.DataTag))
	return fq
}

// FeeQuoteToLib builds the library's quote object from the model.
func FeeQuoteToLib(q FeeQuote) *bt.FeeQuote {
	fq := bt.NewFeeQuote()
	fq.AddQuote(bt.FeeTypeStandard, &bt.Fee{FeeType: bt.FeeTypeStandard,
		MiningFee: bt.FeeUnit{Satoshis: q.Std.Sat, Bytes: q.Std.Bytes},
		RelayFee:  bt.FeeUnit{Satoshis: q.StdRelay.Sat, Bytes: q.StdRelay.Bytes}})
	fq.AddQuote(bt.FeeTypeData, &bt.Fee{FeeType: bt.FeeTypeData,
		MiningFee: bt.FeeUnit{Satoshis: q.Data.Sat, Bytes: q.Data.Bytes},
		RelayFee:  bt.FeeUnit{Satoshis: q.DataRelay.Sat, Bytes: q.DataRelay.Bytes}})
	return fq
}

// FeeIsData is the reference data-carrier classifier: the script starts
// with OP_RETURN (6a) or with OP_FALSE OP_RETURN (00 6a).
func FeeIsData(s []byte) bool {
	if len(s) >= 1 && s[0] == 0x6a {
		return true
	}
	return len(s) >= 2 && s[0] == 0x00 && s[1] == 0x6a
}

// FeeIsP2PKH is the reference P2PKH template: 76 a9 14 <20 bytes> 88 ac.
func FeeIsP2PKH(s []byte) bool {
	return len(s) == 25 && s[0] == 0x76 && s[1] == 0xa9 && s[2] == 0x14 && s[23] == 0x88 && s[24] == 0xac
}

// FeeP2PKH builds the P2PKH locking script for a 20-byte hash.
func FeeP2PKH(hash []byte) []byte {
	s := make([]byte, 0, 25)
	s = append(s, 0x76, 0xa9, 0x14)
	s = append(s, hash...)
	return append(s, 0x88, 0xac)
}

// FeeSizes is the size breakdown of a transaction.
type FeeSizes struct {
	Total, Std, Data uint64
}

// FeeSizesOf measures a model: total = length of the standard (non-extended)
// serialisation, data = script bytes of data-carrier outputs, std = the rest.
func FeeSizesOf(tx Tx) FeeSizes {
	total := uint64(len(Encode(tx, false)))
	var data uint64
	for _, o := range tx.Out {
		if FeeIsData(o.Script) {
			data += uint64(len(o.Script))
		}
	}
	return FeeSizes{Total: total, Std: total - data, Data: data}
}

// Errors of FeeEstimatedFinal.
var (
	ErrFeeMissingPrev = errors.New("ref: input without previous locking script")
	ErrFeeUnsupportedPrev   = errors.New("ref: input spends a script that is not P2PKH")
)

// FeeUnlockP2PKHLen is the documented size of the placeholder unlocking script of
// a not-yet-signed P2PKH input: push(72-byte signature incl. sighash byte) +
// push(33-byte compressed key) = 1+72+1+33.
const FeeUnlockP2PKHLen = 107

// FeeEstimatedFinal returns the model of the transaction "as it will be once
// signed", as the library documents it: every input without an unlocking
// script gets a 107-byte placeholder; inputs that already carry one are kept.
// Inputs whose spent script is missing / not P2PKH yield the two errors; when
// both occur the one of the first offending input is returned and both is set.
func FeeEstimatedFinal(tx Tx) (out Tx, both bool, err error) {
	out = tx
	out.In = make([]In, len(tx.In))
	copy(out.In, tx.In)
	sawMissing, sawUnsupported := false, false
	for i, in := range out.In {
		switch {
		case in.PrevNil:
			sawMissing = true
			if err == nil {
				err = ErrFeeMissingPrev
			}
			continue
		case !FeeIsP2PKH(in.PrevScript):
			sawUnsupported = true
			if err == nil {
				err = ErrFeeUnsupportedPrev
			}
			continue
		}
		if len(in.Unlock) == 0 {
			out.In[i].Unlock = make(pbt.Hex, FeeUnlockP2PKHLen)
			out.In[i].UnlockNil = false
		}
	}
	return out, sawMissing && sawUnsupported, err
}

// FeeCalc is floor(std*s/b) + floor(data*s'/b') over unbounded integers, using the
// mining rates of the quote. The two parts are also returned.
func FeeCalc(sz FeeSizes, q FeeQuote) (total, std, data *big.Int) {
	part := func(n uint64, u FeeUnit) *big.Int {
		x := new(big.Int).SetUint64(n)
		x.Mul(x, big.NewInt(int64(u.Sat)))
		return x.Div(x, big.NewInt(int64(u.Bytes))) // operands are non-negative: Div == floor
	}
	std = part(sz.Std, q.Std)
	data = part(sz.Data, q.Data)
	return new(big.Int).Add(std, data), std, data
}

// FeeCeilStd is ceil(n*s/b) at the standard mining rate (used for the slack
// bound "fee for nine bytes").
func FeeCeilStd(n uint64, q FeeQuote) *big.Int {
	x := new(big.Int).SetUint64(n)
	x.Mul(x, big.NewInt(int64(q.Std.Sat)))
	x.Add(x, big.NewInt(int64(q.Std.Bytes-1)))
	return x.Div(x, big.NewInt(int64(q.Std.Bytes)))
}

// FeeSumIn / FeeSumOut are the totals as unbounded integers.
func FeeSumIn(tx Tx) *big.Int {
	s := new(big.Int)
	for _, in := range tx.In {
		s.Add(s, new(big.Int).SetUint64(in.PrevSats))
	}
	return s
}

// FeeSumOut is the total output value.
func FeeSumOut(tx Tx) *big.Int {
	s := new(big.Int)
	for _, o := range tx.Out {
		s.Add(s, new(big.Int).SetUint64(o.Sats))
	}
	return s
}
