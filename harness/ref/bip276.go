package ref

import (
	"crypto/sha256"
	"encoding/hex"
	"errors"
	"strings"
)

// BIP276 is the reference model of a BIP276 value.
type BIP276 struct {
	Prefix  string
	Version int
	Network int
	Data    []byte
}

func sha256d(b []byte) []byte {
	a := sha256.Sum256(b)
	c := sha256.Sum256(a[:])
	return c[:]
}

// Sha256d is the double SHA-256 used all over the protocol (std-lib based).
func Sha256d(b []byte) []byte { return sha256d(b) }

const lowerHex = "0123456789abcdef"

func hex2(v int) string { return string([]byte{lowerHex[(v>>4)&15], lowerHex[v&15]}) }

// EncodeBIP276 lays the value out as the BIP text says: prefix ':' two hex digits
// of version, two hex digits of network, lowercase hex data, eight hex digits of
// the double SHA-256 of everything before them.
func EncodeBIP276(v BIP276) string {
	p := v.Prefix + ":" + hex2(v.Version) + hex2(v.Network) + hex.EncodeToString(v.Data)
	return p + hex.EncodeToString(sha256d([]byte(p))[:4])
}

func isHex(c byte) bool {
	return c >= '0' && c <= '9' || c >= 'a' && c <= 'f' || c >= 'A' && c <= 'F'
}

// DecodeBIP276 is the reference layout predicate + decoder. Hex digits are
// accepted in either case (the checksum is taken over the lower-case form), as
// the library does; everything else is strict.
func DecodeBIP276(s string) (BIP276, error) {
	i := strings.IndexByte(s, ':')
	if i <= 0 {
		return BIP276{}, errors.New("no prefix")
	}
	if strings.ContainsAny(s[:i], "\n") {
		return BIP276{}, errors.New("bad prefix")
	}
	rest := s[i+1:]
	if len(rest) < 12 || len(rest)%2 != 0 {
		return BIP276{}, errors.New("bad length")
	}
	for j := 0; j < len(rest); j++ {
		if !isHex(rest[j]) {
			return BIP276{}, errors.New("non-hex")
		}
	}
	b, err := hex.DecodeString(rest)
	if err != nil {
		return BIP276{}, err
	}
	v := BIP276{Prefix: s[:i], Version: int(b[0]), Network: int(b[1]), Data: b[2 : len(b)-4]}
	payload := s[:i] + ":" + strings.ToLower(rest[:len(rest)-8])
	if hex.EncodeToString(sha256d([]byte(payload))[:4]) != rest[len(rest)-8:] {
		return BIP276{}, errors.New("checksum")
	}
	return v, nil
}
