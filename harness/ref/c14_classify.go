package ref

import "bytes"

// Strict recognisers for the standard templates named in C14. They are
// deliberately narrow (sufficient conditions only): a script they accept
// instantiates the template beyond doubt, so the library must report that
// type. They are written over the reference reader, not the library.

// Template kinds returned by StrictTemplate.
const (
	TplNone        = ""
	TplP2PKH       = "p2pkh"
	TplP2PK        = "p2pk"
	TplMultisig    = "multisig"
	TplData        = "data"
	TplInscription = "p2pkh-inscription"
	TplP2SH        = "p2sh"
)

// IsP2PKHBytes is the 25-byte template 76 a9 14 <20> 88 ac.
func IsP2PKHBytes(s []byte) bool {
	return len(s) == 25 && s[0] == 0x76 && s[1] == 0xa9 && s[2] == 0x14 && s[23] == 0x88 && s[24] == 0xac
}

// IsP2SHBytes is the 23-byte template a9 14 <20> 87.
func IsP2SHBytes(s []byte) bool {
	return len(s) == 23 && s[0] == 0xa9 && s[1] == 0x14 && s[22] == 0x87
}

// HasDataPrefix: the script starts with OP_RETURN or OP_FALSE OP_RETURN.
func HasDataPrefix(s []byte) bool {
	return (len(s) > 0 && s[0] == 0x6a) || (len(s) > 1 && s[0] == 0x00 && s[1] == 0x6a)
}

// validKeyPush: a direct push of a 33-byte key starting 02/03 or a 65-byte key starting 04.
func validKeyPush(t ScriptTok) bool {
	if !t.IsPush || t.End-t.Start != 1+len(t.Data) {
		return false
	}
	switch len(t.Data) {
	case 33:
		return t.Data[0] == 0x02 || t.Data[0] == 0x03
	case 65:
		return t.Data[0] == 0x04
	}
	return false
}

func minimalPush(t ScriptTok) bool {
	return t.IsPush && t.End-t.Start == len(MinimalPushPrefix(len(t.Data)))+len(t.Data)
}

func isOp(t ScriptTok, op byte) bool { return !t.IsPush && t.Op == op }

// StrictTemplate returns the template the script instantiates, or TplNone.
func StrictTemplate(s []byte) string {
	if IsP2PKHBytes(s) {
		return TplP2PKH
	}
	if IsP2SHBytes(s) {
		return TplP2SH
	}
	toks, ok, _ := Tokenize(s)
	if !ok || len(toks) == 0 {
		return TplNone
	}
	// P2PK: <key> OP_CHECKSIG
	if len(toks) == 2 && validKeyPush(toks[0]) && isOp(toks[1], 0xac) {
		return TplP2PK
	}
	// bare multisig: OP_m <key>*n OP_n OP_CHECKMULTISIG, 1 <= m <= n <= 16
	if len(toks) >= 4 && isOp(toks[len(toks)-1], 0xae) {
		n := len(toks) - 3
		mTok, nTok := toks[0], toks[len(toks)-2]
		if n >= 1 && n <= 16 && !mTok.IsPush && mTok.Op >= 0x51 && int(mTok.Op) <= 0x50+n && isOp(nTok, byte(0x50+n)) {
			all := true
			for _, t := range toks[1 : 1+n] {
				if !validKeyPush(t) {
					all = false
					break
				}
			}
			if all {
				return TplMultisig
			}
		}
	}
	// data: OP_RETURN <pushes> or OP_FALSE OP_RETURN <pushes>; the last push must not begin
	// with ac/ae and must not be empty (that keeps the class clear of the loose multisig /
	// pubkey tests that come first in ScriptType's order)
	if HasDataPrefix(s) {
		rest := toks[1:]
		if s[0] == 0x00 {
			rest = toks[2:]
		}
		for _, t := range rest {
			if !t.IsPush {
				return TplNone
			}
		}
		if len(rest) > 0 {
			last := rest[len(rest)-1]
			if len(last.Data) == 0 || last.Data[0] == 0xac || last.Data[0] == 0xae {
				return TplNone
			}
		}
		return TplData
	}
	// P2PKH inscription: 76 a9 14<20> 88 ac 00 63 03"ord" 51 <ctype> 00 <data> 68 [6a <push>+]
	if len(toks) >= 13 && len(s) > 25 && IsP2PKHBytes(s[:25]) &&
		isOp(toks[5], 0x00) && isOp(toks[6], 0x63) &&
		toks[7].IsPush && toks[7].Op == 0x03 && bytes.Equal(toks[7].Data, []byte("ord")) &&
		isOp(toks[8], 0x51) &&
		minimalPush(toks[9]) && len(toks[9].Data) >= 1 &&
		isOp(toks[10], 0x00) &&
		minimalPush(toks[11]) && len(toks[11].Data) >= 1 &&
		isOp(toks[12], 0x68) {
		if len(toks) == 13 {
			return TplInscription
		}
		if len(toks) >= 15 && isOp(toks[13], 0x6a) {
			for _, t := range toks[14:] {
				if !minimalPush(t) || len(t.Data) == 0 {
					return TplNone
				}
			}
			return TplInscription
		}
	}
	return TplNone
}
