package ref

// Calls on a quote object in use that the library REFUSES (ninth round, C11).
//
// "A refused update is not an update": a call on a *bt.FeeQuote (or on the FeeQuotes
// container holding it) that returns an error leaves the quote answering with the rates of the
// last successful update. C11Refused describes one such call as plain data; C11RefusedApply
// performs it on the library object of a FeeQuoteLib. The model of the quote is NOT touched.
//
// The set is what the library documents / does refuse (fees.go):
//   - FeeQuote.UnmarshalJSON with a fee type other than "standard" / "data" (ErrUnknownFeeType),
//     alone or next to valid entries; with a document that is not JSON; with a document whose
//     values have the wrong JSON type for the field (UnmarshalTypeError) - each called as the
//     method, through json.Unmarshal on the object, through a json.Decoder, or as the field of an
//     enclosing document;
//   - FeeQuotes.UpdateMinerFees with an empty miner name, an empty fee type, a nil fee
//     (ErrEmptyValues) or a miner the container does not hold (ErrMinerNoQuotes);
//   - look-ups that fail: FeeQuote.Fee of an unregistered type, FeeQuotes.Fee / Quote of an
//     unknown miner.
// AddQuote and AddMiner refuse nothing. One successful call that leaves the standard and the data
// rate alone is included as well (kind "other-key": AddQuote under a third fee type).
//
// Deliberately left out (accepted by the library, i.e. successful updates): the documents
// `null` and `{}` (the quote then holds no fee at all), negative numbers, duplicate keys; and
// `{"standard":null}` (outside the documented format; see the C11 round-9 report).

import (
	"bytes"
	"encoding/json"
	"errors"
	"fmt"
	"strings"

	"github.com/libsv/go-bt/v2"
)

// C11Refused is one refused call.
type C11Refused struct {
	// Kind: "unknown-type" | "malformed" | "wrong-type" | "updateminerfees" | "lookup" | "other-key"
	Kind string `json:"kind"`
	// Via (document kinds): "method" (or empty) = fq.UnmarshalJSON(doc) | "json" = json.Unmarshal(doc, fq) |
	// "decoder" = json.NewDecoder(..).Decode(fq) | "field" = json.Unmarshal(`{"quote":doc}`, &struct{Quote *bt.FeeQuote}{fq})
	Via string `json:"via,omitempty"`
	// Key: the fee type that is not standard / data (unknown-type, lookup, other-key), the
	// miner the container does not know (updateminerfees shape 3, lookup shapes 1, 2)
	Key   string `json:"key,omitempty"`
	Shape int    `json:"shape,omitempty"` // variant within the kind (see c11RefusedDoc / C11RefusedApply)
	N     int    `json:"n,omitempty"`     // malformed, shape 0: where the document is cut (modulo its length)
	Data  bool   `json:"data,omitempty"`  // updateminerfees: the data fee is the one offered
	// rates written into the refused document / carried by the refused fee: anything but, as a
	// rule, not what the quote holds
	Unit  FeeUnit `json:"unit,omitempty"`
	Unit2 FeeUnit `json:"unit2,omitempty"`
}

// C11ErrAccepted is returned by C11RefusedApply when the library did NOT refuse the call: what
// the quote holds from then on is not defined by "a refused update is not an update", so the
// caller stops judging the case.
var C11ErrAccepted = errors.New("ref: the library accepted a call that is expected to be refused")

// Number of shapes per kind.
const (
	C11UnknownTypeShapes = 8
	C11MalformedShapes   = 7
	C11WrongTypeShapes   = 12
	C11UpdateShapes      = 4
	C11LookupShapes      = 3
)

// C11RefusedOK reports whether r is well formed.
func C11RefusedOK(r C11Refused) bool {
	shapes := 0
	switch r.Kind {
	case "unknown-type":
		shapes = C11UnknownTypeShapes
	case "malformed":
		shapes = C11MalformedShapes
	case "wrong-type":
		shapes = C11WrongTypeShapes
	case "updateminerfees":
		shapes = C11UpdateShapes
	case "lookup":
		shapes = C11LookupShapes
	case "other-key":
		shapes = 1
	default:
		return false
	}
	if r.Shape < 0 || r.Shape >= shapes || r.N < 0 || len(r.Key) > 64 {
		return false
	}
	switch r.Via {
	case "", "method", "json", "decoder", "field":
	default:
		return false
	}
	return true
}

// c11OtherType is the fee type r names: never "standard" or "data".
func c11OtherType(r C11Refused) bt.FeeType {
	k := strings.ToValidUTF8(r.Key, "?")
	if k == string(bt.FeeTypeStandard) || k == string(bt.FeeTypeData) {
		k += "?"
	}
	return bt.FeeType(k)
}

func c11JSONString(s string) string {
	b, err := json.Marshal(s)
	if err != nil {
		panic("harness: " + err.Error())
	}
	return string(b)
}

// C11RefusedDoc is the document of a document kind ("" for the other kinds).
func C11RefusedDoc(r C11Refused) string {
	relay := FeeUnit{Sat: 1, Bytes: 4}
	std, data := feeJSON(r.Unit, relay), feeJSON(r.Unit2, relay)
	full := `{"standard":` + std + `,"data":` + data + `}`
	switch r.Kind {
	case "unknown-type":
		// bit 0: a standard entry is present, bit 1: a data entry is present, bit 2: the unknown type comes first
		var parts []string
		if r.Shape&1 != 0 {
			parts = append(parts, `"standard":`+std)
		}
		if r.Shape&2 != 0 {
			parts = append(parts, `"data":`+data)
		}
		unk := c11JSONString(string(c11OtherType(r))) + `:` + feeJSON(r.Unit, r.Unit2)
		if r.Shape&4 != 0 {
			parts = append([]string{unk}, parts...)
		} else {
			parts = append(parts, unk)
		}
		return `{` + strings.Join(parts, `,`) + `}`
	case "malformed":
		switch r.Shape {
		case 0: // a proper prefix of a complete document (possibly empty)
			return full[:r.N%len(full)]
		case 1:
			return full + `}`
		case 2:
			return full[:len(full)-1] + `,}`
		case 3:
			return strings.ReplaceAll(full, `"`, `'`)
		case 4:
			return `{standard:` + std + `,"data":` + data + `}`
		case 5:
			return `x` + full
		}
		return full + ` ` + full // two documents
	case "wrong-type":
		unit := func(sat string) string {
			return fmt.Sprintf(`{"miningFee":{"satoshis":%s,"bytes":%d},"relayFee":{"satoshis":1,"bytes":4}}`, sat, max(r.Unit.Bytes, 1))
		}
		switch r.Shape {
		case 0:
			return `{"standard":5,"data":` + data + `}`
		case 1:
			return `{"standard":` + unit(`"7"`) + `,"data":` + data + `}`
		case 2:
			return `[` + std + `,` + data + `]`
		case 3:
			return `"standard"`
		case 4:
			return `7`
		case 5:
			return `{"data":` + data + `,"standard":` + unit(`1.5`) + `}`
		case 6:
			return `{"standard":` + unit(`1e40`) + `,"data":` + data + `}`
		case 7:
			return `{"standard":` + std + `,"data":[1,2]}`
		case 8:
			return `true`
		case 9:
			return `{"standard":` + std + `,"data":{"miningFee":[],"relayFee":{"satoshis":1,"bytes":4}}}`
		case 10:
			return `{"data":` + data + `,"standard":` + unit(`99999999999999999999`) + `}`
		}
		return `{"standard":` + std + `,"data":"` + string(bt.FeeTypeData) + `"}`
	}
	return ""
}

// C11RefusedApply performs the call on the library object. nil = the library refused it, as
// expected; C11ErrAccepted = it did not; anything else is a violation seen on the way.
func C11RefusedApply(l *FeeQuoteLib, r C11Refused) error {
	container := func() *bt.FeeQuotes {
		if l.miners == nil {
			l.miners = bt.NewFeeQuotes("some other miner")
			l.miners.AddMiner("miner", l.Q)
		}
		return l.miners
	}
	var err error
	switch r.Kind {
	case "unknown-type", "malformed", "wrong-type":
		doc := []byte(C11RefusedDoc(r))
		via := r.Via
		if r.Kind == "malformed" && (r.Shape == 1 || r.Shape == 6) && via == "decoder" {
			via = "json" // a Decoder stops after the first value: what follows it would never be looked at
		}
		switch via {
		case "", "method":
			err = l.Q.UnmarshalJSON(doc)
		case "json":
			err = json.Unmarshal(doc, l.Q)
		case "decoder":
			err = json.NewDecoder(bytes.NewReader(doc)).Decode(l.Q)
		case "field":
			outer := struct {
				Quote *bt.FeeQuote `json:"quote"`
			}{l.Q}
			err = json.Unmarshal([]byte(`{"quote":`+string(doc)+`}`), &outer)
			if outer.Quote != l.Q {
				return fmt.Errorf("decoding into a struct whose field points at the quote object replaced the pointer")
			}
		}
	case "updateminerfees":
		key, _ := feeKeyOther(r.Data)
		fee := l.keep(FeeLibFee(key, r.Unit, r.Unit2, FeeTagKey), "fee offered to a refused UpdateMinerFees")
		miner := "miner"
		switch r.Shape {
		case 0:
			miner = ""
		case 1:
			key = ""
		case 2:
			fee = nil
		case 3:
			miner = "nobody:" + r.Key
		}
		var got *bt.FeeQuote
		got, err = container().UpdateMinerFees(miner, key, fee)
		if err != nil && got != nil {
			return fmt.Errorf("UpdateMinerFees(%q, %q, ...) returned a quote together with the error %v", miner, key, err)
		}
	case "lookup":
		switch r.Shape {
		case 0:
			_, err = l.Q.Fee("lookup:" + c11OtherType(r))
		case 1:
			_, err = container().Fee("nobody:"+r.Key, bt.FeeTypeStandard)
		case 2:
			_, err = container().Quote("nobody:" + r.Key)
		}
	case "other-key": // succeeds, and leaves the standard and the data fee alone
		l.Q.AddQuote("other:"+c11OtherType(r), l.keep(FeeLibFee(bt.FeeTypeStandard, r.Unit, r.Unit2, FeeTagKey), "fee registered under a third fee type"))
		return nil
	default:
		return fmt.Errorf("harness: unknown refused call %q", r.Kind)
	}
	if err == nil {
		return C11ErrAccepted
	}
	return nil
}

// C11RefusedLabel classifies the call for the label histogram.
func C11RefusedLabel(r C11Refused) string {
	switch r.Kind {
	case "unknown-type", "malformed", "wrong-type":
		via := r.Via
		if via == "" {
			via = "method"
		}
		return "refused:" + r.Kind + ":via=" + via
	case "other-key":
		return "no-op:addquote-under-a-third-fee-type"
	}
	return fmt.Sprintf("refused:%s:shape=%d", r.Kind, r.Shape)
}
