package ref

import (
	"encoding/binary"
)

// Reference signature-hash algorithms, written from the algorithm descriptions
// (BSV "replay protected sighash" document / original Satoshi serialiser), not
// from go-bt. Both are calibrated against the node-generated vectors shipped in
// bscript/interpreter/data before they are allowed to judge the library (see
// sighash_calib.go).

// Hash-type bits.
const (
	SigHashAll          = 1
	SigHashNone         = 2
	SigHashSingle       = 3
	SigHashForkIDBit    = 0x40
	SigHashAnyOneCanPay = 0x80
	sigHashBaseMask     = 0x1f
)

func putLE32(o []byte, v uint32) []byte { return binary.LittleEndian.AppendUint32(o, v) }
func putLE64(o []byte, v uint64) []byte { return binary.LittleEndian.AppendUint64(o, v) }

func outpoint(o []byte, in In) []byte {
	o = append(o, Reverse(in.TxID)...)
	return putLE32(o, in.Vout)
}

func txOut(o []byte, out Out) []byte {
	o = putLE64(o, out.Sats)
	o = append(o, VarInt(uint64(len(out.Script)))...)
	return append(o, out.Script...)
}

// SigHashOne is the constant the legacy algorithm yields for SIGHASH_SINGLE
// without a matching output: the number 1 as a little-endian 256-bit integer.
func SigHashOne() []byte {
	b := make([]byte, 32)
	b[0] = 1
	return b
}

// SigHashForkID computes the replay-protected (BIP143-style) preimage and its
// double SHA-256 for input idx (which must be in range) of tx.
//
//  1. nVersion (4 LE)
//  2. hashPrevouts: sha256d of all outpoints, or 32 zero bytes with ANYONECANPAY
//  3. hashSequence: sha256d of all sequences, or zeros with ANYONECANPAY / NONE / SINGLE
//  4. outpoint of the signed input (32-byte hash in wire order + 4 LE index)
//  5. script code, length-prefixed
//  6. value of the spent output (8 LE)
//  7. nSequence of the signed input (4 LE)
//  8. hashOutputs: sha256d of all outputs (base type neither NONE nor SINGLE),
//     of output idx alone (SINGLE and idx < #outputs), else zeros
//  9. nLockTime (4 LE)
//  10. hash type (4 LE)
//
// The base type is hashType & 0x1f; every base type other than NONE and SINGLE
// behaves as ALL.
func SigHashForkID(tx Tx, idx int, scriptCode []byte, amount uint64, hashType uint32) (preimage, digest []byte) {
	base := hashType & sigHashBaseMask
	acp := hashType&SigHashAnyOneCanPay != 0

	hashPrevouts := make([]byte, 32)
	hashSequence := make([]byte, 32)
	hashOutputs := make([]byte, 32)

	if !acp {
		var b []byte
		for _, in := range tx.In {
			b = outpoint(b, in)
		}
		hashPrevouts = sha256d(b)
	}
	if !acp && base != SigHashSingle && base != SigHashNone {
		var b []byte
		for _, in := range tx.In {
			b = putLE32(b, in.Seq)
		}
		hashSequence = sha256d(b)
	}
	switch {
	case base != SigHashSingle && base != SigHashNone:
		var b []byte
		for _, o := range tx.Out {
			b = txOut(b, o)
		}
		hashOutputs = sha256d(b)
	case base == SigHashSingle && idx < len(tx.Out):
		hashOutputs = sha256d(txOut(nil, tx.Out[idx]))
	}

	p := putLE32(nil, tx.Version)
	p = append(p, hashPrevouts...)
	p = append(p, hashSequence...)
	p = outpoint(p, tx.In[idx])
	p = append(p, VarInt(uint64(len(scriptCode)))...)
	p = append(p, scriptCode...)
	p = putLE64(p, amount)
	p = putLE32(p, tx.In[idx].Seq)
	p = append(p, hashOutputs...)
	p = putLE32(p, tx.LockTime)
	p = putLE32(p, hashType)
	return p, sha256d(p)
}

// StripCodeSeparators removes every OP_CODESEPARATOR (0xab) *instruction* from
// a script. The script is walked instruction by instruction so that 0xab bytes
// inside push data stay. If a push runs past the end of the script the walk
// stops and the unparsable tail is kept verbatim.
func StripCodeSeparators(s []byte) []byte {
	out := make([]byte, 0, len(s))
	i := 0
	for i < len(s) {
		op := s[i]
		n := 1 // instruction length including the opcode
		switch {
		case op >= 1 && op <= 75:
			n = 1 + int(op)
		case op == 0x4c:
			if i+2 > len(s) {
				return append(out, s[i:]...)
			}
			n = 2 + int(s[i+1])
		case op == 0x4d:
			if i+3 > len(s) {
				return append(out, s[i:]...)
			}
			n = 3 + int(binary.LittleEndian.Uint16(s[i+1:]))
		case op == 0x4e:
			if i+5 > len(s) {
				return append(out, s[i:]...)
			}
			l := binary.LittleEndian.Uint32(s[i+1:])
			if uint64(l) > uint64(len(s)) {
				return append(out, s[i:]...)
			}
			n = 5 + int(l)
		}
		if i+n > len(s) {
			return append(out, s[i:]...)
		}
		if op != 0xab {
			out = append(out, s[i:i+n]...)
		}
		i += n
	}
	return out
}

// SigHashLegacy computes the original (pre-fork) signature-hash preimage and
// digest for input idx (in range) of tx:
//
//   - SIGHASH_SINGLE (base type 3) with idx >= #outputs: the digest is the
//     constant 1 (SigHashOne) - it is NOT hashed; the preimage returned is the
//     same constant.
//   - otherwise a modified copy of the transaction is serialised: the signed
//     input carries the script code, every other input an empty script;
//     NONE: no outputs, other inputs' sequences 0; SINGLE: outputs cut to
//     idx+1, those before idx replaced by (value -1, empty script), other
//     inputs' sequences 0; ANYONECANPAY: only the signed input is kept;
//     then the 4-byte little-endian hash type is appended; digest = sha256d.
//
// stripCodeSep removes OP_CODESEPARATOR instructions from the script code first
// (what a node does before hashing; go-bt documents that as the caller's job).
func SigHashLegacy(tx Tx, idx int, scriptCode []byte, hashType uint32, stripCodeSep bool) (preimage, digest []byte) {
	base := hashType & sigHashBaseMask
	acp := hashType&SigHashAnyOneCanPay != 0

	if base == SigHashSingle && idx >= len(tx.Out) {
		return SigHashOne(), SigHashOne()
	}
	if stripCodeSep {
		scriptCode = StripCodeSeparators(scriptCode)
	}

	p := putLE32(nil, tx.Version)

	// inputs
	first, last := 0, len(tx.In) // [first,last)
	if acp {
		first, last = idx, idx+1
	}
	p = append(p, VarInt(uint64(last-first))...)
	for i := first; i < last; i++ {
		p = outpoint(p, tx.In[i])
		if i == idx {
			p = append(p, VarInt(uint64(len(scriptCode)))...)
			p = append(p, scriptCode...)
			p = putLE32(p, tx.In[i].Seq)
			continue
		}
		p = append(p, 0) // empty script
		if base == SigHashNone || base == SigHashSingle {
			p = putLE32(p, 0)
		} else {
			p = putLE32(p, tx.In[i].Seq)
		}
	}

	// outputs
	switch base {
	case SigHashNone:
		p = append(p, 0)
	case SigHashSingle:
		p = append(p, VarInt(uint64(idx+1))...)
		for i := 0; i < idx; i++ {
			p = putLE64(p, ^uint64(0)) // value -1
			p = append(p, 0)           // empty script
		}
		p = txOut(p, tx.Out[idx])
	default:
		p = append(p, VarInt(uint64(len(tx.Out)))...)
		for _, o := range tx.Out {
			p = txOut(p, o)
		}
	}

	p = putLE32(p, tx.LockTime)
	p = putLE32(p, hashType)
	return p, sha256d(p)
}
