package ref

// Independent Base58Check reference for property C15. Written from the
// Bitcoin address specification with math/big; shares no code with go-bt or
// go-bk (only crypto/sha256 and x/crypto/ripemd160 from outside).

import (
	"bytes"
	"crypto/sha256"
	"math/big"

	"golang.org/x/crypto/ripemd160" //nolint
)

// B58Alphabet is the Bitcoin Base58 alphabet (no 0, O, I, l).
const B58Alphabet = "123456789ABCDEFGHJKLMNPQRSTUVWXYZabcdefghijkmnopqrstuvwxyz"

var b58Index = func() (t [256]int) {
	for i := range t {
		t[i] = -1
	}
	for i := 0; i < len(B58Alphabet); i++ {
		t[B58Alphabet[i]] = i
	}
	return
}()

// B58Encode is the bijective Base58 encoding: every leading zero byte becomes
// one leading '1', the rest is the big-endian number in base 58.
func B58Encode(b []byte) string {
	z := 0
	for z < len(b) && b[z] == 0 {
		z++
	}
	n := new(big.Int).SetBytes(b[z:])
	radix := big.NewInt(58)
	mod := new(big.Int)
	var digits []byte
	for n.Sign() > 0 {
		n.QuoRem(n, radix, mod)
		digits = append(digits, B58Alphabet[mod.Int64()])
	}
	out := bytes.Repeat([]byte{'1'}, z)
	for i := len(digits) - 1; i >= 0; i-- {
		out = append(out, digits[i])
	}
	return string(out)
}

// B58Decode inverts B58Encode. ok is false if s holds a byte outside the
// alphabet. Because the k leading '1's are taken as exactly k zero bytes and
// the remainder as a number without leading zero bytes, B58Encode(B58Decode(s))
// == s for every alphabet string: each string has exactly one decoding, so a
// string with a missing or surplus leading '1' decodes to a different length.
func B58Decode(s string) (out []byte, ok bool) {
	for i := 0; i < len(s); i++ {
		if b58Index[s[i]] < 0 {
			return nil, false
		}
	}
	z := 0
	for z < len(s) && s[z] == '1' {
		z++
	}
	n := new(big.Int)
	radix := big.NewInt(58)
	for i := z; i < len(s); i++ {
		n.Mul(n, radix)
		n.Add(n, big.NewInt(int64(b58Index[s[i]])))
	}
	out = make([]byte, z, z+25)
	return append(out, n.Bytes()...), true
}

// Checksum4 is the first four bytes of SHA256(SHA256(b)).
func Checksum4(b []byte) [4]byte {
	h1 := sha256.Sum256(b)
	h2 := sha256.Sum256(h1[:])
	var c [4]byte
	copy(c[:], h2[:4])
	return c
}

// B58CheckEncode renders version||payload||checksum.
func B58CheckEncode(version byte, payload []byte) string {
	b := append([]byte{version}, payload...)
	c := Checksum4(b)
	return B58Encode(append(b, c[:]...))
}

// Hash160 is RIPEMD160(SHA256(b)).
func Hash160(b []byte) []byte {
	h := sha256.Sum256(b)
	r := ripemd160.New()
	r.Write(h[:])
	return r.Sum(nil)
}

// Address classes, in the order the defects are tested.
const (
	AddrValid       = "valid"
	AddrBadChar     = "bad_char"     // a byte outside the Base58 alphabet
	AddrBadLen      = "bad_len"      // does not decode to exactly 25 bytes
	AddrBadVersion  = "bad_version"  // 25 bytes, version byte not 0x00 / 0x6f
	AddrBadChecksum = "bad_checksum" // 25 bytes, supported version, checksum is the ONLY defect
)

// AddrInfo is the reference verdict on a candidate P2PKH address string.
type AddrInfo struct {
	Class   string
	Version byte
	Hash    []byte // 20 bytes, set for AddrValid and AddrBadChecksum
}

// ClassifyAddress decides whether s is a well-formed P2PKH address.
func ClassifyAddress(s string) AddrInfo {
	b, ok := B58Decode(s)
	if !ok {
		return AddrInfo{Class: AddrBadChar}
	}
	if len(b) != 25 {
		return AddrInfo{Class: AddrBadLen}
	}
	if b[0] != 0x00 && b[0] != 0x6f {
		return AddrInfo{Class: AddrBadVersion, Version: b[0]}
	}
	c := Checksum4(b[:21])
	if !bytes.Equal(c[:], b[21:]) {
		return AddrInfo{Class: AddrBadChecksum, Version: b[0], Hash: b[1:21]}
	}
	return AddrInfo{Class: AddrValid, Version: b[0], Hash: b[1:21]}
}

// P2PKHScript is the canonical 25-byte locking script for a 20-byte hash.
func P2PKHScript(hash []byte) []byte {
	s := []byte{0x76, 0xa9, 0x14}
	s = append(s, hash...)
	return append(s, 0x88, 0xac)
}
