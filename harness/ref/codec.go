package ref

import (
	"bytes"
	"encoding/binary"
	"errors"
	"fmt"

	"github.com/libsv/go-bt/v2"
	"github.com/libsv/go-bt/v2/bscript"

	"verif/harness/pbt"
)

// In is the model of a transaction input. TxID is in display order (the order
// PreviousTxID() returns), i.e. byte-reversed on the wire.
type In struct {
	TxID       pbt.Hex `json:"txid"`
	Vout       uint32  `json:"vout"`
	Unlock     pbt.Hex `json:"unlock"`
	UnlockNil  bool    `json:"unlock_nil,omitempty"` // library object carries a nil UnlockingScript
	Seq        uint32  `json:"seq"`
	PrevSats   uint64  `json:"prev_sats"`
	PrevScript pbt.Hex `json:"prev_script"`
	PrevNil    bool    `json:"prev_nil,omitempty"` // library object carries a nil PreviousTxScript
}

// Out is the model of a transaction output.
type Out struct {
	Sats   uint64  `json:"sats"`
	Script pbt.Hex `json:"script"`
}

// Tx is the model of a transaction.
type Tx struct {
	Version  uint32 `json:"version"`
	In       []In   `json:"in"`
	Out      []Out  `json:"out"`
	LockTime uint32 `json:"locktime"`
	// Damage is set by Snapshot only: the first canary of the library object found overwritten.
	Damage string `json:"-"`
}

// VarInt writes v minimally.
func VarInt(v uint64) []byte { return VarIntWidth(v, 0) }

// VarIntWidth writes v with at least the given width class (0 = minimal, 3, 5, 9).
func VarIntWidth(v uint64, width int) []byte {
	min := 1
	switch {
	case v >= 1<<32:
		min = 9
	case v >= 1<<16:
		min = 5
	case v >= 253:
		min = 3
	}
	if width < min {
		width = min
	}
	switch width {
	case 1:
		return []byte{byte(v)}
	case 3:
		return []byte{0xfd, byte(v), byte(v >> 8)}
	case 5:
		b := make([]byte, 5)
		b[0] = 0xfe
		binary.LittleEndian.PutUint32(b[1:], uint32(v))
		return b
	default:
		b := make([]byte, 9)
		b[0] = 0xff
		binary.LittleEndian.PutUint64(b[1:], v)
		return b
	}
}

func le32(v uint32) []byte { b := make([]byte, 4); binary.LittleEndian.PutUint32(b, v); return b }
func le64(v uint64) []byte { b := make([]byte, 8); binary.LittleEndian.PutUint64(b, v); return b }

// Reverse returns a reversed copy.
func Reverse(b []byte) []byte {
	o := make([]byte, len(b))
	for i := range b {
		o[len(b)-1-i] = b[i]
	}
	return o
}

// Widths forces chosen varint sites to a wider (non-minimal) class. A site is
// numbered in order of appearance in the encoding; nil means all minimal.
type Widths map[int]int

// Encode serialises the model, standard or extended (BIP-239 style marker
// 00 00 00 00 00 EF after the version).
func Encode(tx Tx, extended bool) []byte { return EncodeWidths(tx, extended, nil) }

// EncodeWidths is Encode with chosen varint sites written non-minimally.
func EncodeWidths(tx Tx, extended bool, w Widths) []byte {
	site := 0
	vi := func(v uint64) []byte {
		b := VarIntWidth(v, w[site])
		site++
		return b
	}
	var o []byte
	o = append(o, le32(tx.Version)...)
	if extended {
		o = append(o, 0, 0, 0, 0, 0, 0xEF)
	}
	o = append(o, vi(uint64(len(tx.In)))...)
	for _, in := range tx.In {
		o = append(o, Reverse(in.TxID)...)
		o = append(o, le32(in.Vout)...)
		o = append(o, vi(uint64(len(in.Unlock)))...)
		o = append(o, in.Unlock...)
		o = append(o, le32(in.Seq)...)
		if extended {
			o = append(o, le64(in.PrevSats)...)
			o = append(o, vi(uint64(len(in.PrevScript)))...)
			o = append(o, in.PrevScript...)
		}
	}
	o = append(o, vi(uint64(len(tx.Out)))...)
	for _, out := range tx.Out {
		o = append(o, le64(out.Sats)...)
		o = append(o, vi(uint64(len(out.Script)))...)
		o = append(o, out.Script...)
	}
	return append(o, le32(tx.LockTime)...)
}

// VarintSites returns the number of varint sites EncodeWidths will visit.
func VarintSites(tx Tx, extended bool) int {
	n := 2 + len(tx.In) + len(tx.Out)
	if extended {
		n += len(tx.In)
	}
	return n
}

// ErrShort is returned by the reference decoder when the input ends early.
var ErrShort = errors.New("ref: short input")

type cursor struct {
	b       []byte
	p       int
	minimal bool
}

func (c *cursor) take(n uint64) ([]byte, error) {
	if n > uint64(len(c.b)-c.p) {
		return nil, ErrShort
	}
	s := c.b[c.p : c.p+int(n)]
	c.p += int(n)
	return s, nil
}

func (c *cursor) varint() (uint64, error) {
	f, err := c.take(1)
	if err != nil {
		return 0, err
	}
	switch f[0] {
	case 0xfd:
		b, err := c.take(2)
		if err != nil {
			return 0, err
		}
		v := uint64(binary.LittleEndian.Uint16(b))
		if v < 253 {
			c.minimal = false
		}
		return v, nil
	case 0xfe:
		b, err := c.take(4)
		if err != nil {
			return 0, err
		}
		v := uint64(binary.LittleEndian.Uint32(b))
		if v < 1<<16 {
			c.minimal = false
		}
		return v, nil
	case 0xff:
		b, err := c.take(8)
		if err != nil {
			return 0, err
		}
		v := binary.LittleEndian.Uint64(b)
		if v < 1<<32 {
			c.minimal = false
		}
		return v, nil
	}
	return uint64(f[0]), nil
}

// Decoded is the result of the reference decoder.
type Decoded struct {
	Tx       Tx
	Consumed int
	Extended bool
	Minimal  bool // every varint was minimally encoded
}

// Decode parses one transaction from the front of b. The extended marker is
// recognised by value (input count 0, output count 0, then bytes 00 00 00 EF),
// as the library documents, whatever the width of the two zero counts.
func Decode(b []byte) (Decoded, error) {
	c := &cursor{b: b, minimal: true}
	var d Decoded
	v, err := c.take(4)
	if err != nil {
		return d, err
	}
	d.Tx.Version = binary.LittleEndian.Uint32(v)
	nin, err := c.varint()
	if err != nil {
		return d, err
	}
	var nout uint64
	haveOut := false
	if nin == 0 {
		nout, err = c.varint()
		if err != nil {
			return d, err
		}
		haveOut = true
		if nout == 0 {
			lt, err := c.take(4)
			if err != nil {
				return d, err
			}
			if !(lt[0] == 0 && lt[1] == 0 && lt[2] == 0 && lt[3] == 0xEF) {
				d.Tx.LockTime = binary.LittleEndian.Uint32(lt)
				d.Consumed, d.Minimal = c.p, c.minimal
				return d, nil
			}
			d.Extended = true
			haveOut = false
			nin, err = c.varint()
			if err != nil {
				return d, err
			}
		}
	}
	for i := uint64(0); i < nin; i++ {
		var in In
		h, err := c.take(32)
		if err != nil {
			return d, err
		}
		in.TxID = Reverse(h)
		x, err := c.take(4)
		if err != nil {
			return d, err
		}
		in.Vout = binary.LittleEndian.Uint32(x)
		l, err := c.varint()
		if err != nil {
			return d, err
		}
		s, err := c.take(l)
		if err != nil {
			return d, err
		}
		in.Unlock = append(pbt.Hex{}, s...)
		x, err = c.take(4)
		if err != nil {
			return d, err
		}
		in.Seq = binary.LittleEndian.Uint32(x)
		if d.Extended {
			x, err = c.take(8)
			if err != nil {
				return d, err
			}
			in.PrevSats = binary.LittleEndian.Uint64(x)
			l, err := c.varint()
			if err != nil {
				return d, err
			}
			s, err := c.take(l)
			if err != nil {
				return d, err
			}
			in.PrevScript = append(pbt.Hex{}, s...)
		}
		d.Tx.In = append(d.Tx.In, in)
	}
	if !haveOut {
		nout, err = c.varint()
		if err != nil {
			return d, err
		}
	}
	for i := uint64(0); i < nout; i++ {
		var o Out
		x, err := c.take(8)
		if err != nil {
			return d, err
		}
		o.Sats = binary.LittleEndian.Uint64(x)
		l, err := c.varint()
		if err != nil {
			return d, err
		}
		s, err := c.take(l)
		if err != nil {
			return d, err
		}
		o.Script = append(pbt.Hex{}, s...)
		d.Tx.Out = append(d.Tx.Out, o)
	}
	lt, err := c.take(4)
	if err != nil {
		return d, err
	}
	d.Tx.LockTime = binary.LittleEndian.Uint32(lt)
	d.Consumed, d.Minimal = c.p, c.minimal
	return d, nil
}

// Ambiguous reports the single shape the extended marker makes undecidable.
func Ambiguous(tx Tx) bool {
	return len(tx.In) == 0 && len(tx.Out) == 0 && tx.LockTime == 0xEF000000
}

// ToLib builds the library object for a model through the exported API only.
// Canary returns a copy of b that owns 32 bytes of spare capacity holding a self-describing
// pattern: the length of b, eight filler bytes, and a 16-byte magic at the very end. Code that is
// handed the slice and appends to it without taking ownership - `append(callersSlice, more...)` -
// writes into that spare capacity from its start: the caller's slice header does not change, the
// bytes behind it do. CanaryDamaged tells. (A slice is recognised as one of these by its spare
// capacity of exactly 32 bytes ending in the second half of the magic, so a foreign slice that
// happens to have 32 spare bytes is never judged; a write longer than 24 bytes is not recognised.)
func Canary(b []byte) []byte {
	buf := make([]byte, len(b)+canaryLen)
	copy(buf, b)
	copy(buf[len(b):], canaryTail(len(b)))
	return buf[:len(b)]
}

const canaryLen = 32

var canaryMagic = []byte{0xc5, 0x3a, 0x96, 0x69, 0x5c, 0xa3, 0x0f, 0xf0, 0x1e, 0xe1, 0x2d, 0xd2, 0x4b, 0xb4, 0x87, 0x78}

func canaryTail(n int) []byte {
	t := make([]byte, canaryLen)
	binary.LittleEndian.PutUint64(t, uint64(n))
	for i := 8; i < 16; i++ {
		t[i] = 0xa5
	}
	copy(t[16:], canaryMagic)
	return t
}

// CanaryDamaged reports whether a slice made by Canary still has its original length and
// capacity but no longer its pattern. Slices that were replaced, grown or re-allocated, and
// slices that are not recognisably made by Canary, are not judged.
func CanaryDamaged(b []byte) bool {
	if cap(b)-len(b) != canaryLen {
		return false
	}
	tail := b[len(b):cap(b)]
	if !bytes.Equal(tail[24:], canaryMagic[8:]) {
		return false
	}
	return !bytes.Equal(tail, canaryTail(len(b)))
}

// CanaryDamage names the first script or txid of a library transaction built by ToLib whose
// spare capacity was written to ("" if none).
func CanaryDamage(tx *bt.Tx) string {
	for i, in := range tx.Inputs {
		if in == nil {
			continue
		}
		if in.UnlockingScript != nil && CanaryDamaged(*in.UnlockingScript) {
			return fmt.Sprintf("input %d: the bytes behind the caller's unlocking script slice (its spare capacity) were overwritten: %x", i, []byte(*in.UnlockingScript)[len(*in.UnlockingScript):cap(*in.UnlockingScript)])
		}
		if in.PreviousTxScript != nil && CanaryDamaged(*in.PreviousTxScript) {
			return fmt.Sprintf("input %d: the bytes behind the caller's previous-script slice (its spare capacity) were overwritten: %x", i, []byte(*in.PreviousTxScript)[len(*in.PreviousTxScript):cap(*in.PreviousTxScript)])
		}
		if id := in.PreviousTxID(); CanaryDamaged(id) {
			return fmt.Sprintf("input %d: the bytes behind the caller's previous-txid slice were overwritten", i)
		}
	}
	for i, o := range tx.Outputs {
		if o != nil && o.LockingScript != nil && CanaryDamaged(*o.LockingScript) {
			return fmt.Sprintf("output %d: the bytes behind the caller's locking script slice (its spare capacity) were overwritten: %x", i, []byte(*o.LockingScript)[len(*o.LockingScript):cap(*o.LockingScript)])
		}
	}
	return ""
}

// Intact is CanaryDamage as an invariant for pbt.Ctx.After.
func Intact(tx *bt.Tx) func() error {
	return func() error {
		if d := CanaryDamage(tx); d != "" {
			return errors.New("a slice the caller handed in was written to beyond its length: " + d)
		}
		return nil
	}
}

// ToLib builds the library object of a model. Every byte slice it hands over is the caller's
// own and carries a canary in its spare capacity (see Canary).
func ToLib(m Tx) *bt.Tx {
	tx := &bt.Tx{Version: m.Version, LockTime: m.LockTime, Inputs: make([]*bt.Input, 0, len(m.In))}
	for n, in := range m.In {
		i := &bt.Input{PreviousTxOutIndex: in.Vout, SequenceNumber: in.Seq, PreviousTxSatoshis: in.PrevSats}
		if err := i.PreviousTxIDAdd(Canary(in.TxID)); err != nil {
			panic("ref.ToLib: model with invalid txid: " + err.Error())
		}
		if !in.UnlockNil {
			i.UnlockingScript = LibScript(in.Unlock, n+len(m.Out)+int(m.LockTime%7))
		}
		if !in.PrevNil {
			i.PreviousTxScript = LibScript(in.PrevScript, n+len(m.In)+int(m.Version%5))
		}
		tx.Inputs = append(tx.Inputs, i)
	}
	for n, o := range m.Out {
		tx.Outputs = append(tx.Outputs, &bt.Output{Satoshis: o.Sats, LockingScript: LibScript(o.Script, n+len(m.In)+int(m.LockTime%3))})
	}
	return tx
}

// LibScript builds the script object handed to the library: the bytes with a capacity canary
// behind them; an EMPTY script is, for one salt in three, a non-nil script object holding a nil
// slice (what new(bscript.Script) and bscript.NewFromBytes(nil) give) instead of an empty one.
func LibScript(b []byte, salt int) *bscript.Script {
	if len(b) == 0 && salt%3 == 1 {
		return new(bscript.Script)
	}
	return bscript.NewFromBytes(Canary(b))
}

// ToLibVia is ToLib followed by one of the ways a program comes by a transaction object with that
// content, chosen from the model itself: as built (field by field), Clone(), a clone of a clone,
// or parsed from the extended serialisation (only when every input records its previous script).
// The label names the way. Content is the same in all of them except that parsing and cloning
// turn a nil unlocking script into an empty one.
func ToLibVia(m Tx) (*bt.Tx, string) {
	return ToLibViaSalt(m, len(m.In)*3+len(m.Out)+int(m.LockTime%11)+int(m.Version%2))
}

// ToLibViaSalt is ToLibVia with the way chosen by the caller's salt (for models whose shape is
// the same in every case).
func ToLibViaSalt(m Tx, salt int) (*bt.Tx, string) {
	tx := ToLib(m)
	for _, in := range m.In {
		if len(in.TxID) != 32 {
			return tx, "built"
		}
	}
	if salt < 0 {
		salt = -salt
	}
	switch salt % 4 {
	case 1:
		return tx.Clone(), "cloned"
	case 2:
		return tx.Clone().Clone(), "cloned-twice"
	case 3:
		for _, in := range m.In {
			if in.PrevNil {
				return tx, "built"
			}
		}
		p, err := bt.NewTxFromBytes(tx.ExtendedBytes())
		if err != nil {
			panic("ref.ToLibVia: the library does not parse its own extended serialisation: " + err.Error())
		}
		return p, "parsed-extended"
	}
	return tx, "built"
}

// FromLib reads a library object back into a model (nil scripts become empty).
func FromLib(tx *bt.Tx) Tx {
	m := Tx{Version: tx.Version, LockTime: tx.LockTime}
	for _, i := range tx.Inputs {
		in := In{TxID: append(pbt.Hex{}, i.PreviousTxID()...), Vout: i.PreviousTxOutIndex, Seq: i.SequenceNumber, PrevSats: i.PreviousTxSatoshis}
		if i.UnlockingScript != nil {
			in.Unlock = append(pbt.Hex{}, *i.UnlockingScript...)
		} else {
			in.UnlockNil = true
		}
		if i.PreviousTxScript != nil {
			in.PrevScript = append(pbt.Hex{}, *i.PreviousTxScript...)
		} else {
			in.PrevNil = true
		}
		m.In = append(m.In, in)
	}
	for _, o := range tx.Outputs {
		out := Out{Sats: o.Satoshis}
		if o.LockingScript != nil {
			out.Script = append(pbt.Hex{}, *o.LockingScript...)
		}
		m.Out = append(m.Out, out)
	}
	return m
}

// SameWire reports whether two models are equal as wire values (nil == empty).
func SameWire(a, b Tx, extended bool) bool {
	if a.Version != b.Version || a.LockTime != b.LockTime || len(a.In) != len(b.In) || len(a.Out) != len(b.Out) {
		return false
	}
	for i := range a.In {
		x, y := a.In[i], b.In[i]
		if string(x.TxID) != string(y.TxID) || x.Vout != y.Vout || x.Seq != y.Seq || string(x.Unlock) != string(y.Unlock) {
			return false
		}
		if extended && (x.PrevSats != y.PrevSats || string(x.PrevScript) != string(y.PrevScript)) {
			return false
		}
	}
	for i := range a.Out {
		if a.Out[i].Sats != b.Out[i].Sats || string(a.Out[i].Script) != string(b.Out[i].Script) {
			return false
		}
	}
	return true
}
