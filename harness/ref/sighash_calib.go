package ref

import (
	"bytes"
	"encoding/hex"
	"encoding/json"
	"fmt"
	"os"
	"path/filepath"
)

// SigHashVector is one node-generated vector of sighash_bip143.json /
// sighash_legacy.json: [raw_tx_hex, script_hex, input_index, hashType, hash_hex].
type SigHashVector struct {
	Tx       Tx
	Script   []byte
	Idx      int
	HashType uint32 // the file holds a signed 32-bit value; kept as its bit pattern
	Want     []byte // digest in natural byte order (the file stores it reversed)
}

// RepoDir is the tree under test (the driver exports VERIF_REPO; default /repo).
func RepoDir() string {
	if v := os.Getenv("VERIF_REPO"); v != "" {
		return v
	}
	return "/repo"
}

// LoadSigHashVectors reads one of the two node vector files.
func LoadSigHashVectors(name string) ([]SigHashVector, error) {
	path := filepath.Join(RepoDir(), "bscript", "interpreter", "data", name)
	raw, err := os.ReadFile(path)
	if err != nil {
		return nil, err
	}
	var rows [][]json.RawMessage
	if err := json.Unmarshal(raw, &rows); err != nil {
		return nil, fmt.Errorf("%s: %w", path, err)
	}
	var out []SigHashVector
	for n, r := range rows {
		if len(r) != 5 {
			continue // header / comment row
		}
		var txHex, scHex, wantHex string
		var idx int
		var ht int64
		if json.Unmarshal(r[0], &txHex) != nil || json.Unmarshal(r[1], &scHex) != nil ||
			json.Unmarshal(r[2], &idx) != nil || json.Unmarshal(r[3], &ht) != nil || json.Unmarshal(r[4], &wantHex) != nil {
			return nil, fmt.Errorf("%s: row %d malformed", path, n)
		}
		txb, e1 := hex.DecodeString(txHex)
		sc, e2 := hex.DecodeString(scHex)
		want, e3 := hex.DecodeString(wantHex)
		if e1 != nil || e2 != nil || e3 != nil || len(want) != 32 {
			return nil, fmt.Errorf("%s: row %d bad hex", path, n)
		}
		d, err := Decode(txb)
		if err != nil || d.Consumed != len(txb) || d.Extended {
			return nil, fmt.Errorf("%s: row %d transaction does not decode (%v)", path, n, err)
		}
		if idx < 0 || idx >= len(d.Tx.In) {
			return nil, fmt.Errorf("%s: row %d input index %d out of range", path, n, idx)
		}
		out = append(out, SigHashVector{Tx: d.Tx, Script: sc, Idx: idx, HashType: uint32(int32(ht)), Want: Reverse(want)})
	}
	return out, nil
}

// SigHashCalibration is the result of CalibrateSigHash.
type SigHashCalibration struct {
	BIP143, Legacy     []SigHashVector
	OKBIP143, OKLegacy int
}

// CalibrateSigHash runs both reference algorithms over all node vectors
// (BIP143 file: amount 0, script verbatim; legacy file: code separators
// stripped). err != nil unless every vector is reproduced.
func CalibrateSigHash() (SigHashCalibration, error) {
	var c SigHashCalibration
	var err error
	if c.BIP143, err = LoadSigHashVectors("sighash_bip143.json"); err != nil {
		return c, err
	}
	if c.Legacy, err = LoadSigHashVectors("sighash_legacy.json"); err != nil {
		return c, err
	}
	var firstBad string
	for i, v := range c.BIP143 {
		_, d := SigHashForkID(v.Tx, v.Idx, v.Script, 0, v.HashType)
		if bytes.Equal(d, v.Want) {
			c.OKBIP143++
		} else if firstBad == "" {
			firstBad = fmt.Sprintf("bip143 vector %d: reference %x, node %x", i, d, v.Want)
		}
	}
	for i, v := range c.Legacy {
		_, d := SigHashLegacy(v.Tx, v.Idx, v.Script, v.HashType, true)
		if bytes.Equal(d, v.Want) {
			c.OKLegacy++
		} else if firstBad == "" {
			firstBad = fmt.Sprintf("legacy vector %d: reference %x, node %x", i, d, v.Want)
		}
	}
	if len(c.BIP143) != 500 || len(c.Legacy) != 500 {
		return c, fmt.Errorf("expected 500+500 vectors, found %d+%d", len(c.BIP143), len(c.Legacy))
	}
	if firstBad != "" {
		return c, fmt.Errorf("reference reproduces %d/%d bip143 and %d/%d legacy vectors; first mismatch: %s",
			c.OKBIP143, len(c.BIP143), c.OKLegacy, len(c.Legacy), firstBad)
	}
	return c, nil
}

// MustCalibrateSigHash is what the C02/C03/C04 packages call before any
// property runs: a reference that does not reproduce all node vectors is a
// harness error (exit 2), never a verdict about the library.
func MustCalibrateSigHash() SigHashCalibration {
	c, err := CalibrateSigHash()
	if err != nil {
		fmt.Printf("HARNESS-ERROR sighash reference calibration failed: %v\n", err)
		os.Exit(2)
	}
	return c
}
