package gen

import (
	"pgregory.net/rapid"

	"verif/harness/pbt"
	"verif/harness/ref"
)

// TxOpts bounds the transaction generator.
type TxOpts struct {
	MinIn, MaxIn   int // small-count range
	MinOut, MaxOut int
	BigCounts      []int // low-weight boundary counts (e.g. 252, 253, 254, 300)
	MaxScript      int   // upper bound for script lengths
	ScriptEdges    []int
	Script         func(t *rapid.T, n int, label string) []byte // content generator (default FillBytes)
}

// DefaultTxOpts are the shapes used when a property does not care.
func DefaultTxOpts() TxOpts {
	return TxOpts{MinIn: 0, MaxIn: 5, MinOut: 0, MaxOut: 5, BigCounts: []int{252, 253, 254, 300}, MaxScript: 700,
		ScriptEdges: []int{0, 1, 2, 25, 75, 76, 107, 252, 253, 254, 255, 256, 520, 521}}
}

func count(t *rapid.T, min, max int, big []int, label string) int {
	if len(big) > 0 && rapid.IntRange(0, 39).Draw(t, label+"_big") == 0 {
		return rapid.SampledFrom(big).Draw(t, label)
	}
	return rapid.IntRange(min, max).Draw(t, label)
}

// Tx draws a transaction model. When a count is large the scripts of that list
// are kept short so one case stays in the tens of kilobytes.
func Tx(t *rapid.T, o TxOpts) ref.Tx {
	sc := o.Script
	if sc == nil {
		sc = FillBytes
	}
	m := ref.Tx{Version: U32(t, "version"), LockTime: U32(t, "locktime")}
	nin := count(t, o.MinIn, o.MaxIn, o.BigCounts, "nin")
	nout := count(t, o.MinOut, o.MaxOut, o.BigCounts, "nout")
	slen := func(big bool, label string) int {
		if big {
			return rapid.IntRange(0, 3).Draw(t, label)
		}
		return EdgeLen(t, o.MaxScript, label, o.ScriptEdges...)
	}
	for i := 0; i < nin; i++ {
		in := ref.In{TxID: pbt.Hex(Bytes(t, 32, "txid")), Vout: U32(t, "vout"), Seq: U32(t, "seq"), PrevSats: U64(t, "prevsats")}
		in.Unlock = sc(t, slen(nin > 20, "ulen"), "unlock")
		in.PrevScript = sc(t, slen(nin > 20, "plen"), "prevscript")
		m.In = append(m.In, in)
	}
	for i := 0; i < nout; i++ {
		m.Out = append(m.Out, ref.Out{Sats: U64(t, "sats"), Script: sc(t, slen(nout > 20, "olen"), "oscript")})
	}
	// special outpoints: the coinbase shape (one input, all-zero txid, index or sequence 0xffffffff),
	// all-zero / all-ff txids on ordinary inputs, two inputs spending the same outpoint
	if len(m.In) > 0 {
		switch rapid.IntRange(0, 29).Draw(t, "outpoint_shape") {
		case 0:
			m.In = m.In[:1]
			m.In[0].TxID = make(pbt.Hex, 32)
			if rapid.Bool().Draw(t, "cb_vout") {
				m.In[0].Vout = 0xffffffff
			}
			if rapid.Bool().Draw(t, "cb_seq") {
				m.In[0].Seq = 0xffffffff
			}
		case 1:
			i := rapid.IntRange(0, len(m.In)-1).Draw(t, "zero_txid_at")
			fill := rapid.SampledFrom([]byte{0x00, 0xff}).Draw(t, "txid_fill")
			id := make(pbt.Hex, 32)
			for k := range id {
				id[k] = fill
			}
			m.In[i].TxID = id
			m.In[i].Vout = rapid.SampledFrom([]uint32{0, 0xffffffff, 1}).Draw(t, "zero_txid_vout")
		case 2:
			if len(m.In) >= 2 {
				m.In[len(m.In)-1].TxID = append(pbt.Hex{}, m.In[0].TxID...)
				m.In[len(m.In)-1].Vout = m.In[0].Vout
			}
		}
	}
	return m
}

// HugeSizes are the script lengths of the low-weight "one very long script" class: around the
// 3- and 5-byte varint boundaries and around 128 KiB, 256 KiB, 512 KiB and 1 MiB, where buffered
// or chunked implementations change path.
var HugeSizes = []int{65535, 65536, 70000, 131071, 131072, 131073, 200000, 262143, 262144, 262145, 300000, 524288, 524289, 1 << 20, 1<<20 + 1}

// HugeField replaces ONE script of the model - the recorded previous script or the unlocking
// script of any input, or the locking script of any output, at any position - by a very long one.
// Sizes above 256 KiB are drawn for one such case in four.
func HugeField(t *rapid.T, m *ref.Tx) string {
	sizes := HugeSizes[:9]
	if rapid.IntRange(0, 3).Draw(t, "huge_xl") == 0 {
		sizes = HugeSizes[9:]
	}
	n := rapid.SampledFrom(sizes).Draw(t, "huge_len")
	kind := rapid.IntRange(0, 3).Draw(t, "huge_field")
	if len(m.Out) == 0 && kind >= 2 {
		kind = 0
	}
	if len(m.In) == 0 {
		if len(m.Out) == 0 {
			return ""
		}
		kind = 2
	}
	switch kind {
	case 0:
		i := rapid.IntRange(0, len(m.In)-1).Draw(t, "huge_at")
		if m.In[i].PrevNil {
			return ""
		}
		m.In[i].PrevScript = FillBytes(t, n, "huge_script")
		return "huge=prevscript"
	case 1:
		i := rapid.IntRange(0, len(m.In)-1).Draw(t, "huge_at")
		m.In[i].Unlock, m.In[i].UnlockNil = FillBytes(t, n, "huge_script"), false
		return "huge=unlock"
	default:
		i := rapid.IntRange(0, len(m.Out)-1).Draw(t, "huge_at")
		m.Out[i].Script = FillBytes(t, n, "huge_script")
		if i > 0 {
			return "huge=output-not-first"
		}
		return "huge=output-first"
	}
}

// TemplateLike draws a script that is a standard template or one step away from one: P2PKH,
// P2PK, P2SH and bare multisig with the exact bytes, with the closing opcodes replaced, with the
// hash / key one byte shorter or longer, with the hash pushed through OP_PUSHDATA1, with an opcode
// appended or the first byte changed. Fast paths keyed to "looks like a template" meet them.
func TemplateLike(t *rapid.T, label string) []byte {
	h := Bytes(t, 20, label+"_h")
	k := append([]byte{0x02}, Bytes(t, 32, label+"_k")...)
	var s []byte
	switch rapid.IntRange(0, 4).Draw(t, label+"_tpl") {
	case 0, 1:
		s = append(append([]byte{0x76, 0xa9, 0x14}, h...), 0x88, 0xac)
	case 2:
		s = append(append([]byte{0x21}, k...), 0xac)
	case 3:
		s = append(append([]byte{0xa9, 0x14}, h...), 0x87)
	default:
		s = append(append(append(append([]byte{0x51, 0x21}, k...), 0x21), k...), 0x52, 0xae)
	}
	switch rapid.IntRange(0, 9).Draw(t, label+"_dev") {
	case 0, 1, 2: // exact
	case 3: // last opcode replaced
		s[len(s)-1] = rapid.SampledFrom([]byte{0xad, 0x69, 0x87, 0x88, 0xac, 0xae, 0x00, 0x51}).Draw(t, label+"_last")
	case 4: // last two bytes replaced
		if len(s) >= 2 {
			s[len(s)-2] = rapid.SampledFrom([]byte{0x87, 0x88, 0x69, 0x75, 0xac}).Draw(t, label+"_l2")
			s[len(s)-1] = rapid.SampledFrom([]byte{0x69, 0xad, 0x51, 0xac, 0x87}).Draw(t, label+"_l1")
		}
	case 5: // one byte shorter (same announced push length: the push swallows the next opcode)
		s = append(s[:3:3], s[4:]...)
	case 6: // an opcode appended
		s = append(s, rapid.SampledFrom([]byte{0x61, 0x75, 0x51, 0x6a, 0xac}).Draw(t, label+"_app"))
	case 7: // first byte changed
		s[0] = rapid.SampledFrom([]byte{0x00, 0x6a, 0x78, 0xa9, 0x76, 0x51}).Draw(t, label+"_first")
	case 8: // P2PKH with the hash pushed through OP_PUSHDATA1 (26 bytes) or cut to 25 by dropping the last opcode
		if s[0] == 0x76 {
			s = append(append([]byte{0x76, 0xa9, 0x4c, 0x14}, h...), 0x88, 0xac)
			if rapid.Bool().Draw(t, label+"_cut") {
				s = s[:25]
			}
		}
	default: // one byte of the body flipped
		i := rapid.IntRange(0, len(s)-1).Draw(t, label+"_at")
		s[i] ^= 1 << rapid.IntRange(0, 7).Draw(t, label+"_bit")
	}
	return s
}
