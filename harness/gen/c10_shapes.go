package gen

// Generator classes shared by the transaction / quote generators of C10, C11 and C12
// (round 8): special outpoint shapes, fee units written with huge numbers, data-output
// payloads that look like other templates when data and opcodes are confused.

import (
	"pgregory.net/rapid"

	"verif/harness/pbt"
	"verif/harness/ref"
)

// C10SpecialOutpoints gives, in about one transaction in eight, the inputs a special outpoint
// shape: the coinbase shape (ONE input left, all-zero previous txid, index and / or sequence
// 0xffffffff - or neither), an all-zero or all-ff txid on an ordinary input, or two inputs
// spending the same outpoint. Scripts, values and everything else stay as drawn. The returned
// slice may be shorter than ins.
func C10SpecialOutpoints(t *rapid.T, ins []ref.In) []ref.In {
	if len(ins) == 0 {
		return ins
	}
	switch rapid.IntRange(0, 23).Draw(t, "outpoint_shape") {
	case 5, 17: // rapid favours the ends of a range: the classes sit inside
		ins = ins[:1]
		ins[0].TxID = make(pbt.Hex, 32)
		switch rapid.IntRange(0, 3).Draw(t, "null_outpoint") {
		case 0:
			ins[0].Vout = 0xffffffff
		case 1:
			ins[0].Seq = 0xffffffff
		case 2:
			ins[0].Vout, ins[0].Seq = 0xffffffff, 0xffffffff
		default: // all-zero txid only: not the coinbase shape unless the sequence already is final
			ins[0].Vout = rapid.SampledFrom([]uint32{0, 1, 0xfffffffe}).Draw(t, "null_vout")
		}
	case 9:
		i := rapid.IntRange(0, len(ins)-1).Draw(t, "fill_txid_at")
		fill := rapid.SampledFrom([]byte{0x00, 0xff}).Draw(t, "txid_fill")
		id := make(pbt.Hex, 32)
		for k := range id {
			id[k] = fill
		}
		ins[i].TxID = id
		ins[i].Vout = rapid.SampledFrom([]uint32{0, 0xffffffff, 1}).Draw(t, "fill_txid_vout")
	case 13:
		if len(ins) >= 2 {
			ins[len(ins)-1].TxID = append(pbt.Hex{}, ins[0].TxID...)
			ins[len(ins)-1].Vout = ins[0].Vout
		}
	}
	return ins
}

// C10OutpointShape names the special shape of a model's inputs ("" if none): used for labels.
func C10OutpointShape(ins []ref.In) string {
	zero := func(id []byte) bool {
		if len(id) != 32 {
			return false
		}
		for _, b := range id {
			if b != 0 {
				return false
			}
		}
		return true
	}
	if len(ins) == 1 && zero(ins[0].TxID) {
		if ins[0].Vout == 0xffffffff || ins[0].Seq == 0xffffffff {
			return "outpoints=coinbase-shape"
		}
		return "outpoints=single-input-zero-txid"
	}
	for i, in := range ins {
		if zero(in.TxID) {
			return "outpoints=zero-txid"
		}
		for j := 0; j < i; j++ {
			if string(ins[j].TxID) == string(in.TxID) && ins[j].Vout == in.Vout {
				return "outpoints=same-outpoint-twice"
			}
		}
	}
	return ""
}

// C10UnitWide draws a fee unit written with huge numbers: an ordinary rate with numerator and
// denominator both scaled by 2^31 .. 2^40 or by 10^9 (5*10^9 satoshis per 10^10 bytes is 0.5
// sat/byte), or numbers from the upper part of the int range - around 2^53 (the last integer a
// float64 counts exactly), 2^54, 2^55, 2^62, the largest int - a few units apart, a few satoshis
// per a huge number of bytes, or a huge numerator over about 2^40.
func C10UnitWide(t *rapid.T, label string) ref.FeeUnit {
	switch rapid.IntRange(0, 7).Draw(t, label+"_wk") {
	case 0, 1, 2, 3: // an equivalent spelling of an ordinary rate
		k := rapid.SampledFrom([]int{1 << 31, 1<<32 - 1, 1 << 32, 1<<32 + 1, 1 << 33, 1 << 36, 1 << 40, 1000000000}).Draw(t, label+"_scale")
		u := rapid.SampledFrom([]ref.FeeUnit{{Sat: 5, Bytes: 100}, {Sat: 1, Bytes: 2}, {Sat: 5, Bytes: 10}, {Sat: 1, Bytes: 1}, {Sat: 500, Bytes: 1000}, {Sat: 3, Bytes: 2}, {Sat: 50, Bytes: 1}, {Sat: 999, Bytes: 1000}, {Sat: 1, Bytes: 1000}}).Draw(t, label+"_rate")
		if rapid.Bool().Draw(t, label+"_anyrate") {
			u = ref.FeeUnit{Sat: rapid.IntRange(0, 5000).Draw(t, label+"_sat"), Bytes: rapid.IntRange(1, 1000).Draw(t, label+"_bytes")}
		}
		return ref.FeeUnit{Sat: u.Sat * k, Bytes: u.Bytes * k}
	}
	base := rapid.SampledFrom([]int{1 << 53, 1 << 53, 1 << 53, 1 << 54, 1 << 55, 1 << 62, 1<<63 - 1}).Draw(t, label+"_base")
	near := func(l string) int {
		d := rapid.IntRange(-3, 3).Draw(t, l)
		if base == 1<<63-1 && d > 0 {
			d = -d
		}
		return base + d
	}
	switch rapid.IntRange(0, 3).Draw(t, label+"_hk") {
	case 0, 1:
		return ref.FeeUnit{Sat: near(label + "_ds"), Bytes: near(label + "_db")}
	case 2:
		return ref.FeeUnit{Sat: rapid.IntRange(0, 5000).Draw(t, label+"_sat"), Bytes: near(label + "_db")}
	}
	return ref.FeeUnit{Sat: near(label + "_ds"), Bytes: 1<<40 + rapid.IntRange(-3, 3).Draw(t, label+"_db40")}
}

// C10DataPayload draws what follows OP_RETURN / OP_FALSE OP_RETURN in a data output: a payload
// is a free field. 1..4 properly encoded pushes (and now and then a bare opcode between them)
// whose contents START with opcode-valued bytes - 00, 51..60 (small integers), ae / ac
// (CHECKMULTISIG / CHECKSIG), 6a (RETURN), 76 a9 14 (the P2PKH head), 87 / 88 - so that the
// script looks like another template to code that does not tell pushed data from opcodes.
func C10DataPayload(t *rapid.T, label string) []byte {
	var out []byte
	n := rapid.IntRange(1, 4).Draw(t, label+"_npush")
	for i := 0; i < n; i++ {
		var first []byte
		switch rapid.IntRange(0, 9).Draw(t, label+"_first") {
		case 0, 1, 2:
			first = []byte{byte(0x51 + rapid.IntRange(0, 15).Draw(t, label+"_smallint"))}
		case 3:
			first = []byte{0x00}
		case 4, 5:
			first = []byte{0xae}
		case 6:
			first = []byte{rapid.SampledFrom([]byte{0xac, 0x6a, 0x87, 0x88, 0xa9}).Draw(t, label+"_op")}
		case 7:
			first = []byte{0x76, 0xa9, 0x14}
		default:
			first = []byte{byte(rapid.IntRange(0, 255).Draw(t, label+"_any"))}
		}
		l := rapid.SampledFrom([]int{1, 1, 2, 20, 33, 75, 76, 80, 120}).Draw(t, label+"_plen")
		if l < len(first) {
			l = len(first)
		}
		p := make([]byte, l)
		copy(p, first)
		for k := len(first); k < l; k++ {
			p[k] = byte(k*5 + i*17 + 1)
		}
		switch {
		case l <= 75:
			out = append(out, byte(l))
		default:
			out = append(out, 0x4c, byte(l))
		}
		out = append(out, p...)
		if i+1 < n && rapid.IntRange(0, 5).Draw(t, label+"_bare") == 3 {
			out = append(out, rapid.SampledFrom([]byte{0x51, 0x52, 0x00, 0xae, 0x75}).Draw(t, label+"_bareop"))
		}
	}
	return out
}
