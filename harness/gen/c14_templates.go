package gen

import (
	"pgregory.net/rapid"
)

// Template builders and mutators for C14. Builders write the script bytes
// directly from the template definitions (no library call).

func minimalPush(data []byte) []byte {
	return append(pushPrefix(MinimalForm(len(data)), len(data)), data...)
}

// PubKeyBytes draws a key-shaped byte string: 33 bytes starting 02/03 or 65 bytes starting 04.
func PubKeyBytes(t *rapid.T, label string) []byte {
	if rapid.IntRange(0, 3).Draw(t, label+"_unc") == 0 {
		k := Bytes(t, 65, label)
		k[0] = 0x04
		return k
	}
	k := Bytes(t, 33, label)
	k[0] = byte(2 + rapid.IntRange(0, 1).Draw(t, label+"_par"))
	return k
}

// TplP2PKH builds 76 a9 14 <hash20> 88 ac.
func TplP2PKH(hash []byte) []byte {
	s := []byte{0x76, 0xa9, 0x14}
	s = append(s, hash...)
	return append(s, 0x88, 0xac)
}

// TplP2SH builds a9 14 <hash20> 87.
func TplP2SH(hash []byte) []byte {
	s := []byte{0xa9, 0x14}
	s = append(s, hash...)
	return append(s, 0x87)
}

// TplP2PK builds <key> ac.
func TplP2PK(key []byte) []byte {
	return append(minimalPush(key), 0xac)
}

// TplMultisig builds OP_m <keys> OP_n ae.
func TplMultisig(m int, keys [][]byte) []byte {
	s := []byte{byte(0x50 + m)}
	for _, k := range keys {
		s = append(s, minimalPush(k)...)
	}
	return append(s, byte(0x50+len(keys)), 0xae)
}

// TplData builds [00] 6a <pushes>.
func TplData(withFalse bool, payload [][]byte) []byte {
	var s []byte
	if withFalse {
		s = append(s, 0x00)
	}
	s = append(s, 0x6a)
	for _, p := range payload {
		s = append(s, minimalPush(p)...)
	}
	return s
}

// TplInscription builds the P2PKH inscription; opReturn (if any) is appended as 6a <pushes>.
func TplInscription(hash, ctype, data []byte, opReturn [][]byte) []byte {
	s := TplP2PKH(hash)
	s = append(s, 0x00, 0x63, 0x03, 'o', 'r', 'd', 0x51)
	s = append(s, minimalPush(ctype)...)
	s = append(s, 0x00)
	s = append(s, minimalPush(data)...)
	s = append(s, 0x68)
	if len(opReturn) > 0 {
		s = append(s, 0x6a)
		for _, p := range opReturn {
			s = append(s, minimalPush(p)...)
		}
	}
	return s
}

func payload(t *rapid.T, label string, maxItems int) [][]byte {
	n := rapid.IntRange(1, maxItems).Draw(t, label+"_n")
	out := make([][]byte, n)
	for i := range out {
		l := EdgeLen(t, 300, label+"_len", 1, 2, 20, 75, 76, 255, 256)
		if l == 0 {
			l = 1
		}
		out[i] = FillBytes(t, l, label)
	}
	// keep the class unambiguous: the last item must not begin with ac / ae
	last := out[n-1]
	if last[0] == 0xac || last[0] == 0xae {
		last[0] = 0x21
	}
	return out
}

// Template draws an instance of one standard template and its name.
func Template(t *rapid.T) (string, []byte) {
	kind := rapid.SampledFrom([]string{"p2pkh", "p2pk", "multisig", "multisig", "data", "data", "inscription", "inscription", "p2sh"}).Draw(t, "tpl")
	switch kind {
	case "p2pkh":
		return kind, TplP2PKH(Bytes(t, 20, "hash"))
	case "p2sh":
		return kind, TplP2SH(Bytes(t, 20, "hash"))
	case "p2pk":
		return kind, TplP2PK(PubKeyBytes(t, "key"))
	case "multisig":
		n := rapid.IntRange(1, 4).Draw(t, "n")
		if rapid.IntRange(0, 9).Draw(t, "n_big") == 0 {
			n = rapid.IntRange(5, 16).Draw(t, "n")
		}
		m := rapid.IntRange(1, n).Draw(t, "m")
		keys := make([][]byte, n)
		for i := range keys {
			keys[i] = PubKeyBytes(t, "key")
		}
		return kind, TplMultisig(m, keys)
	case "data":
		return kind, TplData(rapid.Bool().Draw(t, "false_return"), payload(t, "payload", 4))
	default:
		ct := rapid.SampledFrom([]string{"text/plain;charset=utf-8", "image/png", "a", "application/json", "text/html"}).Draw(t, "ctype")
		dl := EdgeLen(t, 400, "data_len", 1, 2, 75, 76, 255, 256)
		if dl == 0 {
			dl = 1
		}
		var opr [][]byte
		if rapid.IntRange(0, 2).Draw(t, "enriched") == 0 {
			opr = payload(t, "opreturn", 3)
		}
		return kind, TplInscription(Bytes(t, 20, "hash"), []byte(ct), FillBytes(t, dl, "data"), opr)
	}
}

// Tok is an instruction span used by the mutators (computed by the caller with the reference reader).
type Tok struct {
	Start, End int
	IsPush     bool
	DataLen    int
}

// ZeroPushForms are the replacements for "an empty push": OP_0 and zero-length PUSHDATA1/2/4.
var ZeroPushForms = [][]byte{{0x00}, {0x4c, 0x00}, {0x4d, 0x00, 0x00}, {0x4e, 0x00, 0x00, 0x00, 0x00}}

func splice(s []byte, from, to int, with []byte) []byte {
	out := make([]byte, 0, len(s)-(to-from)+len(with))
	out = append(out, s[:from]...)
	out = append(out, with...)
	return append(out, s[to:]...)
}

// MutationNames lists the structural mutations Mutate can apply.
var MutationNames = []string{"flip", "flip", "zero-push", "zero-push", "truncate", "remove", "duplicate", "shorten-push", "short-data", "len+1", "insert-zero-push", "append-cut-push"}

// CutPushes are unterminated pushes; appended to a script they make it undecodable.
var CutPushes = [][]byte{{0x4c}, {0x4d, 0x00}, {0x4e, 0x00, 0x00}, {0x02, 0xaa}, {0x4c, 0x05, 0xaa}, {0x4b}, {0x4e, 0xff, 0xff, 0xff, 0xff}}

// Mutate applies one named mutation to s, whose instruction spans are toks
// (toks may be empty for undecodable scripts: then only byte-level mutations apply).
func Mutate(t *rapid.T, s []byte, toks []Tok, name string) []byte {
	if len(s) == 0 {
		return s
	}
	pick := func() Tok { return toks[rapid.IntRange(0, len(toks)-1).Draw(t, "tok")] }
	switch name {
	case "flip":
		i := rapid.IntRange(0, len(s)-1).Draw(t, "pos")
		out := append([]byte(nil), s...)
		switch rapid.IntRange(0, 3).Draw(t, "flip_kind") {
		case 0:
			out[i] ^= 1 << uint(rapid.IntRange(0, 7).Draw(t, "bit"))
		case 1:
			out[i] = rapid.SampledFrom([]byte{0x00, 0x01, 0x4c, 0x4d, 0x4e, 0x51, 0x60, 0x6a, 0xac, 0xae, 0xff}).Draw(t, "val")
		default:
			out[i] = rapid.Byte().Draw(t, "val")
		}
		return out
	case "truncate":
		return append([]byte(nil), s[:rapid.IntRange(0, len(s)-1).Draw(t, "cut")]...)
	case "append-cut-push":
		return append(append([]byte(nil), s...), rapid.SampledFrom(CutPushes).Draw(t, "cut_push")...)
	}
	if len(toks) == 0 {
		return s
	}
	switch name {
	case "zero-push":
		k := pick()
		return splice(s, k.Start, k.End, rapid.SampledFrom(ZeroPushForms).Draw(t, "zero_form"))
	case "insert-zero-push":
		k := pick()
		return splice(s, k.Start, k.Start, rapid.SampledFrom(ZeroPushForms).Draw(t, "zero_form"))
	case "remove":
		k := pick()
		return splice(s, k.Start, k.End, nil)
	case "duplicate":
		k := pick()
		return splice(s, k.End, k.End, s[k.Start:k.End])
	case "shorten-push":
		// re-encode a push with only its first 1..2 data bytes
		k := pick()
		if !k.IsPush || k.DataLen == 0 {
			return s
		}
		keep := rapid.IntRange(1, 2).Draw(t, "keep")
		if keep > k.DataLen {
			keep = k.DataLen
		}
		ds := k.End - k.DataLen
		return splice(s, k.Start, k.End, minimalPush(s[ds:ds+keep]))
	case "short-data":
		// keep the length prefix, drop the last data byte(s): the push swallows what follows
		k := pick()
		if !k.IsPush || k.DataLen == 0 {
			return s
		}
		drop := rapid.IntRange(1, k.DataLen).Draw(t, "drop")
		return splice(s, k.End-drop, k.End, nil)
	case "len+1":
		k := pick()
		if !k.IsPush {
			return s
		}
		out := append([]byte(nil), s...)
		i := k.Start
		if out[i] >= 0x4c {
			i++
		}
		out[i]++
		return out
	}
	return s
}
