package gen

// Round 9 (properties C09 and C01): HOW a reader hands over its bytes is an axis of
// its own. C09Script describes one legal io.Reader behaviour over a fixed byte
// string - read sizes, reads that return (0, nil) at chosen offsets or every k-th
// call, the last bytes arriving together with io.EOF, a non-EOF failure after k
// bytes (on its own call or together with the last data) and whether the reader
// also offers ReadByte - and C09NewScriptReader plays it. Everything a script does
// is allowed by the io.Reader contract, so a decoder must see exactly the byte
// string data[:limit] whatever the script is.

import (
	"errors"
	"io"

	"pgregory.net/rapid"
)

// C09ErrScript is the non-EOF error a failing script returns.
var C09ErrScript = errors.New("scripted reader: connection reset")

// C09Script is JSON-serialisable so that it can be part of a case.
type C09Script struct {
	Chunks       []int `json:"chunks,omitempty"`        // sizes of successive data reads, cycled (empty or <= 0: as much as asked for)
	EmptyAt      []int `json:"empty_at,omitempty"`      // at each of these offsets ONE read is answered (0, nil) before data goes on; no read crosses a pending one
	EmptyEvery   int   `json:"empty_every,omitempty"`   // k >= 2: every k-th Read call is answered (0, nil)
	EOFWithData  bool  `json:"eof_with_data,omitempty"` // the read that hands over the last byte returns io.EOF with it
	Fail         bool  `json:"fail,omitempty"`          // after FailAt bytes (or all of them, if fewer) the reader fails with C09ErrScript instead of io.EOF
	FailAt       int   `json:"fail_at,omitempty"`
	FailWithData bool  `json:"fail_with_data,omitempty"` // the error comes along with the last bytes before the failure (n > 0, err) instead of on the next call
	ByteReader   bool  `json:"byte_reader,omitempty"`    // the reader is an io.ByteReader too (same script)
}

// Valid reports whether the script is well formed (replay files).
func (s C09Script) Valid() bool {
	if s.EmptyEvery < 0 || s.EmptyEvery == 1 || s.FailAt < 0 || len(s.Chunks) > 64 || len(s.EmptyAt) > 4096 {
		return false
	}
	for _, e := range s.EmptyAt {
		if e < 0 {
			return false
		}
	}
	return true
}

// Limit is how many bytes of an n-byte string a reader playing the script hands over.
func (s C09Script) Limit(n int) int {
	if s.Fail && s.FailAt < n {
		return s.FailAt
	}
	return n
}

// Name classifies the script for label histograms.
func (s C09Script) Name() string {
	n := ""
	add := func(x string) {
		if n != "" {
			n += "+"
		}
		n += x
	}
	if len(s.Chunks) > 0 {
		add("chunks")
	}
	if len(s.EmptyAt) > 0 {
		add("empty-at")
	}
	if s.EmptyEvery > 0 {
		add("empty-every")
	}
	if s.EOFWithData {
		add("eof-with-data")
	}
	if s.Fail {
		if s.FailWithData {
			add("fail-with-data")
		} else {
			add("fail")
		}
	}
	if s.ByteReader {
		add("bytereader")
	}
	if n == "" {
		return "plain"
	}
	return n
}

// C09ScriptReader plays a script. Delivered is the number of bytes handed over.
type C09ScriptReader struct {
	data      []byte
	s         C09Script
	pos       int
	calls     int
	ci        int
	emptied   map[int]bool
	Delivered int64
	Empties   int // (0, nil) answers given
	ended     error // the error already handed over together with the last data
}

func (r *C09ScriptReader) limit() int { return r.s.Limit(len(r.data)) }

// Left is the number of bytes of the underlying string not handed over yet.
func (r *C09ScriptReader) Left() int { return len(r.data) - r.pos }

func (r *C09ScriptReader) Read(p []byte) (int, error) {
	if len(p) == 0 {
		return 0, nil
	}
	if r.ended != nil {
		return 0, r.ended
	}
	r.calls++
	limit := r.limit()
	for _, e := range r.s.EmptyAt {
		if e == r.pos && !r.emptied[e] { // also at the very end: an empty read, then EOF / the failure
			r.emptied[e] = true
			r.Empties++
			return 0, nil
		}
	}
	if r.pos >= limit {
		if r.s.Fail {
			return 0, C09ErrScript
		}
		return 0, io.EOF
	}
	if r.s.EmptyEvery >= 2 && r.calls%r.s.EmptyEvery == 0 {
		r.Empties++
		return 0, nil
	}
	n := len(p)
	if len(r.s.Chunks) > 0 {
		if k := r.s.Chunks[r.ci%len(r.s.Chunks)]; k > 0 && k < n {
			n = k
		}
		r.ci++
	}
	end := r.pos + n
	if end > limit {
		end = limit
	}
	for _, e := range r.s.EmptyAt {
		if e > r.pos && e < end && !r.emptied[e] {
			end = e
		}
	}
	n = copy(p, r.data[r.pos:end])
	r.pos += n
	r.Delivered += int64(n)
	if r.pos == limit {
		if r.s.Fail {
			if r.s.FailWithData {
				r.ended = C09ErrScript
				return n, C09ErrScript
			}
		} else if r.s.EOFWithData {
			r.ended = io.EOF
			return n, io.EOF
		}
	}
	return n, nil
}

type c09ScriptByteReader struct{ *C09ScriptReader }

func (b c09ScriptByteReader) ReadByte() (byte, error) {
	var one [1]byte
	for {
		n, err := b.C09ScriptReader.Read(one[:])
		if n == 1 {
			return one[0], nil // an error that came along is repeated by the next call
		}
		if err != nil {
			return 0, err
		}
	}
}

// C09NewScriptReader returns the reader to hand to the code under test and the
// player behind it (for Delivered / Left).
func C09NewScriptReader(data []byte, s C09Script) (io.Reader, *C09ScriptReader) {
	core := &C09ScriptReader{data: data, s: s}
	if len(s.EmptyAt) > 0 {
		core.emptied = make(map[int]bool, len(s.EmptyAt)) // nothing is allocated while reading
	}
	if s.ByteReader {
		return c09ScriptByteReader{core}, core
	}
	return core, core
}

// C09GenScript draws a script for a byte string of n bytes. With failing == false
// the reader hands over all n bytes in the end.
func C09GenScript(t *rapid.T, n int, failing bool) C09Script {
	var s C09Script
	off := func(label string) int { return rapid.IntRange(0, n).Draw(t, label) }
	kinds := []string{"empty-at", "empty-at", "empty-at-many", "empty-every", "eof-with-data", "eof-with-data", "chunks", "mixed"}
	if failing {
		kinds = append(kinds, "fail", "fail-with-data", "fail-with-data", "fail-mixed")
	}
	switch rapid.SampledFrom(kinds).Draw(t, "script_kind") {
	case "empty-at":
		s.EmptyAt = []int{off("empty_at")}
	case "empty-at-many":
		for i, k := 0, rapid.IntRange(2, 6).Draw(t, "n_empty"); i < k; i++ {
			s.EmptyAt = append(s.EmptyAt, off("empty_at"))
		}
	case "empty-every":
		s.EmptyEvery = rapid.IntRange(2, 5).Draw(t, "empty_every")
	case "eof-with-data":
		s.EOFWithData = true
	case "chunks":
		s.Chunks = rapid.SliceOfN(rapid.IntRange(1, 40), 1, 6).Draw(t, "chunks")
	case "mixed":
		s.EmptyAt = []int{off("empty_at")}
		s.EOFWithData = rapid.Bool().Draw(t, "eof_with_data")
		s.EmptyEvery = rapid.SampledFrom([]int{0, 0, 2, 3}).Draw(t, "empty_every")
	case "fail":
		s.Fail, s.FailAt = true, off("fail_at")
	case "fail-with-data":
		s.Fail, s.FailAt, s.FailWithData = true, off("fail_at"), true
	case "fail-mixed":
		s.Fail, s.FailAt, s.FailWithData = true, off("fail_at"), rapid.Bool().Draw(t, "fail_with_data")
		s.EmptyAt = []int{off("empty_at")}
	}
	if len(s.Chunks) == 0 && rapid.IntRange(0, 2).Draw(t, "chunked") == 0 {
		s.Chunks = rapid.SliceOfN(rapid.SampledFrom([]int{1, 1, 2, 3, 4, 7, 8, 9, 32, 33, 36, 41}), 1, 4).Draw(t, "chunks")
	}
	s.ByteReader = rapid.IntRange(0, 3).Draw(t, "byte_reader") == 0
	return s
}

// C09EnumScripts lists, for a byte string of n bytes: one (0, nil) read at every
// offset 0..n (plain reads, and one byte at a time), the last bytes with io.EOF for
// read sizes {all, 1, 7}, an empty read before every data read, and (failing) a
// non-EOF failure at every offset 0..n, on its own call and together with data.
func C09EnumScripts(n int, failing bool) []C09Script {
	var out []C09Script
	for k := 0; k <= n; k++ {
		out = append(out, C09Script{EmptyAt: []int{k}})
		out = append(out, C09Script{EmptyAt: []int{k}, Chunks: []int{1}})
	}
	for _, ch := range [][]int{nil, {1}, {7}} {
		out = append(out, C09Script{EOFWithData: true, Chunks: ch})
		out = append(out, C09Script{EOFWithData: true, Chunks: ch, ByteReader: true})
	}
	out = append(out, C09Script{EmptyEvery: 2}, C09Script{EmptyEvery: 2, Chunks: []int{1}}, C09Script{EmptyEvery: 3, Chunks: []int{2}, EOFWithData: true})
	if failing {
		for k := 0; k <= n; k++ {
			out = append(out, C09Script{Fail: true, FailAt: k})
			out = append(out, C09Script{Fail: true, FailAt: k, FailWithData: true})
			out = append(out, C09Script{Fail: true, FailAt: k, FailWithData: true, Chunks: []int{1}})
		}
	}
	return out
}
