// Package gen holds the rapid generators shared by the property packages.
package gen

import (
	"pgregory.net/rapid"
)

// Bytes draws n uniformly random bytes.
func Bytes(t *rapid.T, n int, label string) []byte {
	return rapid.SliceOfN(rapid.Byte(), n, n).Draw(t, label)
}

// BytesUpTo draws 0..max random bytes.
func BytesUpTo(t *rapid.T, max int, label string) []byte {
	return rapid.SliceOfN(rapid.Byte(), 0, max).Draw(t, label)
}

// EdgeLen draws a length from the boundary set (clipped to max) or a small uniform one.
func EdgeLen(t *rapid.T, max int, label string, edges ...int) int {
	if rapid.IntRange(0, 2).Draw(t, label+"_kind") == 0 {
		ok := make([]int, 0, len(edges))
		for _, e := range edges {
			if e <= max {
				ok = append(ok, e)
			}
		}
		if len(ok) > 0 {
			return rapid.SampledFrom(ok).Draw(t, label)
		}
	}
	sm := 40
	if max < sm {
		sm = max
	}
	return rapid.IntRange(0, sm).Draw(t, label)
}

// FillBytes draws n bytes cheaply: a short random pattern repeated (keeps the
// rapid bit-stream small for multi-kB buffers while content still varies).
func FillBytes(t *rapid.T, n int, label string) []byte {
	if n <= 64 {
		return Bytes(t, n, label)
	}
	pat := rapid.SliceOfN(rapid.Byte(), 1, 16).Draw(t, label+"_pat")
	out := make([]byte, n)
	for i := range out {
		out[i] = pat[i%len(pat)] + byte(i/len(pat))
	}
	return out
}

// U32 draws an edge-biased uint32.
func U32(t *rapid.T, label string) uint32 {
	switch rapid.IntRange(0, 3).Draw(t, label+"_k") {
	case 0:
		return rapid.SampledFrom([]uint32{0, 1, 2, 0x7f, 0x80, 0xfc, 0xfd, 0xfe, 0xff, 0x100, 0xffff, 0x10000, 0x7fffffff, 0x80000000, 0xfffffffe, 0xffffffff, 0xef000000, 0x000000ef, 499999999, 500000000}).Draw(t, label)
	case 1:
		sh := rapid.IntRange(0, 31).Draw(t, label+"_sh")
		d := rapid.IntRange(-1, 1).Draw(t, label+"_d")
		return uint32(int64(1)<<uint(sh) + int64(d))
	default:
		return rapid.Uint32().Draw(t, label)
	}
}

// U64 draws an edge-biased uint64.
func U64(t *rapid.T, label string) uint64 {
	switch rapid.IntRange(0, 3).Draw(t, label+"_k") {
	case 0:
		return rapid.SampledFrom([]uint64{0, 1, 2, 0xfc, 0xfd, 0xffff, 0x10000, 0xffffffff, 0x100000000, 1 << 53, 1<<63 - 1, 1 << 63, ^uint64(0), ^uint64(0) - 1, 2100000000000000, 546, 136, 135}).Draw(t, label)
	case 1:
		sh := rapid.IntRange(0, 63).Draw(t, label+"_sh")
		d := rapid.IntRange(-1, 1).Draw(t, label+"_d")
		return uint64(1)<<uint(sh) + uint64(int64(d))
	default:
		return rapid.Uint64().Draw(t, label)
	}
}
