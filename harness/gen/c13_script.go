package gen

import (
	"pgregory.net/rapid"
)

// ScriptOpts steers the instruction-sequence generator used by C13/C14.
type ScriptOpts struct {
	MaxInstr    int  // 1..MaxInstr instructions
	AllowReturn bool // OP_RETURN may appear as an opcode
	NonMinimal  bool // non-minimal push forms and zero-length PUSHDATA1/2/4 may appear
	Big         bool // rare (about 1 in 1000 pushes) pushes of 65535 / 65536 / 65537 bytes
	OneByte     bool // one-byte direct pushes may appear
}

// hot non-push opcodes: small ints, flow control, OP_RETURN, template opcodes, edge values.
var hotOps = []byte{0x00, 0x4f, 0x50, 0x51, 0x52, 0x60, 0x61, 0x63, 0x64, 0x65, 0x66, 0x67, 0x68, 0x69, 0x6a, 0x6a,
	0x75, 0x76, 0x87, 0x88, 0xa9, 0xab, 0xac, 0xad, 0xae, 0xaf, 0xb1, 0xba, 0xfa, 0xff}

// Rare is true about once in a thousand draws. rapid's integer generators are heavily
// biased towards the ends of their range (IntRange(0, n) yields 0 roughly one time in
// ten whatever n is), so a rare event must be keyed to a value in the middle of the range.
func Rare(t *rapid.T, label string) bool {
	return rapid.IntRange(0, 255).Draw(t, label) == 173
}

// NonPushOp draws an opcode outside 0x01..0x4e.
func NonPushOp(t *rapid.T, allowReturn bool) byte {
	var op byte
	if rapid.IntRange(0, 1).Draw(t, "op_hot") == 0 {
		op = rapid.SampledFrom(hotOps).Draw(t, "op")
	} else {
		v := rapid.IntRange(0, 177).Draw(t, "op")
		if v == 0 {
			op = 0
		} else {
			op = byte(0x4e + v)
		}
	}
	if op == 0x6a && !allowReturn {
		op = 0x61
	}
	return op
}

func pushPrefix(form int, n int) []byte {
	switch form {
	case 1:
		return []byte{0x4c, byte(n)}
	case 2:
		return []byte{0x4d, byte(n), byte(n >> 8)}
	case 4:
		return []byte{0x4e, byte(n), byte(n >> 8), byte(n >> 16), byte(n >> 24)}
	}
	return []byte{byte(n)}
}

// MinimalForm returns the push form (0 direct, 1, 2, 4) that is shortest for length n.
func MinimalForm(n int) int {
	switch {
	case n <= 75:
		return 0
	case n <= 0xff:
		return 1
	case n <= 0xffff:
		return 2
	}
	return 4
}

// Push draws one complete push instruction (prefix + data).
func Push(t *rapid.T, o ScriptOpts) []byte {
	var n int
	k := rapid.IntRange(0, 2999).Draw(t, "push_kind")
	minLen := 2
	if o.OneByte {
		minLen = 1
	}
	switch {
	case o.Big && Rare(t, "push_big"):
		n = rapid.SampledFrom([]int{65535, 65536, 65537}).Draw(t, "push_len")
	case k < 900:
		n = rapid.SampledFrom([]int{minLen, 2, 3, 4, 5, 20, 32, 33, 65, 74, 75, 76, 77, 255, 256, 257}).Draw(t, "push_len")
	case k < 1200:
		n = rapid.IntRange(70, 300).Draw(t, "push_len")
	default:
		n = rapid.IntRange(minLen, 40).Draw(t, "push_len")
	}
	form := MinimalForm(n)
	if o.NonMinimal && rapid.IntRange(0, 3).Draw(t, "push_nonmin") == 0 {
		// any form wide enough for n, or a zero-length PUSHDATA
		if rapid.IntRange(0, 2).Draw(t, "push_zero") == 0 {
			n = 0
		}
		forms := []int{4}
		if n <= 0xffff {
			forms = append(forms, 2)
		}
		if n <= 0xff {
			forms = append(forms, 1)
		}
		if n >= 1 && n <= 75 {
			forms = append(forms, 0)
		}
		form = rapid.SampledFrom(forms).Draw(t, "push_form")
	}
	out := pushPrefix(form, n)
	return append(out, FillBytes(t, n, "push_data")...)
}

// Script draws a well-formed instruction sequence (every push complete).
func Script(t *rapid.T, o ScriptOpts) []byte {
	if o.MaxInstr < 1 {
		o.MaxInstr = 1
	}
	n := rapid.IntRange(1, o.MaxInstr).Draw(t, "ninstr")
	var s []byte
	for i := 0; i < n; i++ {
		if rapid.IntRange(0, 9).Draw(t, "instr_kind") < 4 {
			s = append(s, Push(t, o)...)
		} else {
			s = append(s, NonPushOp(t, o.AllowReturn))
		}
	}
	return s
}
