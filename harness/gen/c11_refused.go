package gen

import (
	"pgregory.net/rapid"

	"verif/harness/ref"
)

// C11Refused draws one call on a quote object that the library refuses (ref.C11Refused): an
// UnmarshalJSON naming an unknown fee type (2/6, the unknown type alone or next to valid
// standard / data entries, first or last in the document), a document that is not JSON, a
// document with values of the wrong JSON type, a refused FeeQuotes.UpdateMinerFees, a failing
// look-up, or (rarely) an AddQuote under a third fee type. The rates the refused document /
// fee carries are ordinary ones - what a careless implementation would start charging.
func C11Refused(t *rapid.T, label string) ref.C11Refused {
	unit := func(l string) ref.FeeUnit {
		if rapid.IntRange(0, 3).Draw(t, l+"_fixed") == 0 {
			return rapid.SampledFrom([]ref.FeeUnit{{Sat: 500, Bytes: 1000}, {Sat: 900, Bytes: 1000}, {Sat: 0, Bytes: 1}, {Sat: 50, Bytes: 1}, {Sat: 5, Bytes: 100}}).Draw(t, l)
		}
		return ref.FeeUnit{Sat: rapid.IntRange(0, 5000).Draw(t, l+"_sat"), Bytes: rapid.IntRange(1, 1000).Draw(t, l+"_bytes")}
	}
	r := ref.C11Refused{Unit: unit(label + "_unit"), Unit2: unit(label + "_unit2")}
	r.Kind = rapid.SampledFrom([]string{"unknown-type", "unknown-type", "unknown-type", "unknown-type", "malformed", "malformed", "wrong-type", "wrong-type",
		"updateminerfees", "updateminerfees", "lookup", "other-key"}).Draw(t, label+"_kind")
	r.Key = rapid.SampledFrom([]string{"relay", "", "Standard", "DATA", "standard ", " data", "mining", "std", "standardFee", "miningFee", "0", "data\u0000", "täglich"}).Draw(t, label+"_key")
	switch r.Kind {
	case "unknown-type":
		r.Shape = rapid.IntRange(0, ref.C11UnknownTypeShapes-1).Draw(t, label+"_shape")
	case "malformed":
		r.Shape = rapid.IntRange(0, ref.C11MalformedShapes-1).Draw(t, label+"_shape")
		if r.Shape == 0 {
			r.N = rapid.IntRange(0, 400).Draw(t, label+"_cut")
		}
	case "wrong-type":
		r.Shape = rapid.IntRange(0, ref.C11WrongTypeShapes-1).Draw(t, label+"_shape")
	case "updateminerfees":
		r.Shape = rapid.IntRange(0, ref.C11UpdateShapes-1).Draw(t, label+"_shape")
		r.Data = rapid.Bool().Draw(t, label+"_data")
	case "lookup":
		r.Shape = rapid.IntRange(0, ref.C11LookupShapes-1).Draw(t, label+"_shape")
	}
	switch r.Kind {
	case "unknown-type", "malformed", "wrong-type":
		r.Via = rapid.SampledFrom([]string{"method", "method", "json", "json", "decoder", "field"}).Draw(t, label+"_via")
	}
	return r
}
