// Command vcheck is the driver behind /verif/check: it builds one property's
// test binary against the current /repo tree, replays saved cases, runs the
// generated tier in parallel shards (and native fuzzing where configured),
// merges the shard statistics into /verif/evidence/<id>.json and maps the
// outcome to the exit-code contract (0 held, 1 VIOLATION, 2 inconclusive/harness).
package main

import (
	"bytes"
	"context"
	"crypto/sha256"
	"encoding/binary"
	"encoding/hex"
	"encoding/json"
	"fmt"
	"os"
	"os/exec"
	"path/filepath"
	"regexp"
	"sort"
	"strconv"
	"strings"
	"sync"
	"syscall"
	"time"
)

type fuzzTarget struct {
	Name     string
	Duration time.Duration
}

type propCfg struct {
	Race         bool
	Shards       int
	QuickCap     time.Duration
	ThoroughCap  time.Duration
	Fuzz         []fuzzTarget // thorough only
	MemKB        int64        // ulimit -v per shard (0 = none)
	Flaky        bool         // schedule dependent: a failure that does not replay is still a violation
	Assumptions  []string
}

func cfgFor(id string) propCfg {
	c := propCfg{Shards: 12, QuickCap: 15 * time.Minute, ThoroughCap: 60 * time.Minute, MemKB: 12 << 20}
	switch id {
	case "C01":
		c.Fuzz = []fuzzTarget{{"FuzzCodec", 2 * time.Minute}}
	case "C05":
		c.Fuzz = []fuzzTarget{{"FuzzInterp", 4 * time.Minute}}
	case "C08":
		c.Fuzz = []fuzzTarget{{"FuzzAlias", 2 * time.Minute}}
	case "C02":
		c.Fuzz = []fuzzTarget{{"FuzzForkID", 2 * time.Minute}}
	case "C03":
		c.Fuzz = []fuzzTarget{{"FuzzLegacy", 2 * time.Minute}}
	case "C11":
		c.Fuzz = []fuzzTarget{{"FuzzIdentities", 2 * time.Minute}}
	case "C12":
		c.Fuzz = []fuzzTarget{{"FuzzFund", 2 * time.Minute}}
	case "C20":
		c.Fuzz = []fuzzTarget{{"FuzzFlows", 2 * time.Minute}}
	case "C10":
		c.Fuzz = []fuzzTarget{{"FuzzChange", 2 * time.Minute}}
	case "C16":
		c.Fuzz = []fuzzTarget{{"FuzzObjects", 2 * time.Minute}}
	case "C13":
		c.Fuzz = []fuzzTarget{{"FuzzScript", 2 * time.Minute}}
	case "C14":
		c.Fuzz = []fuzzTarget{{"FuzzInspect", 2 * time.Minute}}
	case "C15":
		c.Fuzz = []fuzzTarget{{"FuzzAddress", 2 * time.Minute}}
	case "C17":
		c.Fuzz = []fuzzTarget{{"FuzzText", 2 * time.Minute}}
	case "C19":
		c.Fuzz = []fuzzTarget{{"FuzzDebug", 3 * time.Minute}}
	case "C07":
		c.Fuzz = []fuzzTarget{{"FuzzExecute", 4 * time.Minute}}
	case "C09":
		c.Fuzz = []fuzzTarget{{"FuzzDecode", 3 * time.Minute}}
		c.MemKB = 6 << 20
	case "C18":
		c.Race = true
		c.MemKB = 0
		c.Flaky = true
		c.Shards = 8
	}
	return c
}

var allProps = []string{"C01", "C02", "C03", "C04", "C05", "C06", "C07", "C08", "C09", "C10",
	"C11", "C12", "C13", "C14", "C15", "C16", "C17", "C18", "C19", "C20"}

var (
	root    string
	harness string
	goEnv   []string
)

func main() {
	root = os.Getenv("VERIF_ROOT")
	if root == "" {
		root = "/verif"
	}
	harness = filepath.Join(root, "harness")
	goEnv = append(os.Environ(),
		"GOFLAGS=-mod=mod", "GOPROXY=off", "GOSUMDB=off", "GOTOOLCHAIN=local", "GONOSUMDB=*", "GONOSUMCHECK=1",
		"VERIF_ROOT="+root)
	args := os.Args[1:]
	if len(args) == 0 {
		usage()
	}
	if args[0] == "--setup" {
		os.Exit(setup())
	}
	id := strings.ToUpper(args[0])
	if len(args) >= 3 && args[1] == "--replay" {
		os.Exit(replayCmd(id, args[2]))
	}
	tier := os.Getenv("VERIF_TIER")
	if len(args) >= 2 {
		tier = args[1]
	}
	if tier != "quick" && tier != "thorough" {
		tier = "quick"
	}
	os.Exit(runCheck(id, tier))
}

func env() []string { return append([]string(nil), goEnv...) }

func usage() {
	fmt.Fprintln(os.Stderr, "usage: check <ID> quick|thorough | check <ID> --replay <path> | check --setup")
	os.Exit(2)
}

func pkgDir(id string) string { return filepath.Join(harness, "props", strings.ToLower(id)) }

// modfileArgs returns -modfile arguments when VERIF_REPO points at a scratch tree.
func modfileArgs() ([]string, error) {
	repo := os.Getenv("VERIF_REPO")
	if repo == "" || repo == "/repo" {
		return nil, nil
	}
	b, err := os.ReadFile(filepath.Join(harness, "go.mod"))
	if err != nil {
		return nil, err
	}
	h := sha256.Sum256([]byte(repo))
	name := filepath.Join(harness, "bin", "alt-"+hex.EncodeToString(h[:6]))
	_ = os.MkdirAll(filepath.Dir(name), 0o755)
	nb := bytes.ReplaceAll(b, []byte("=> /repo"), []byte("=> "+repo))
	if err := os.WriteFile(name+".mod", nb, 0o644); err != nil {
		return nil, err
	}
	sum, _ := os.ReadFile(filepath.Join(harness, "go.sum"))
	_ = os.WriteFile(name+".sum", sum, 0o644)
	return []string{"-modfile=" + name + ".mod"}, nil
}

func binPath(id string) string {
	suffix := ""
	if r := os.Getenv("VERIF_REPO"); r != "" && r != "/repo" {
		h := sha256.Sum256([]byte(r))
		suffix = "-" + hex.EncodeToString(h[:4])
	}
	return filepath.Join(harness, "bin", strings.ToLower(id)+suffix+".test")
}

func build(id string) (string, error) {
	cfg := cfgFor(id)
	if _, err := os.Stat(pkgDir(id)); err != nil {
		return "", fmt.Errorf("no property package for %s", id)
	}
	out := binPath(id)
	_ = os.MkdirAll(filepath.Dir(out), 0o755)
	args := []string{"test", "-c", "-vet=off", "-o", out}
	mf, err := modfileArgs()
	if err != nil {
		return "", err
	}
	args = append(args, mf...)
	if cfg.Race {
		args = append(args, "-race")
	}
	args = append(args, "./props/"+strings.ToLower(id))
	cmd := exec.Command("go", args...)
	cmd.Dir = harness
	cmd.Env = env()
	ob, err := cmd.CombinedOutput()
	if err != nil {
		return "", fmt.Errorf("build failed: %v\n%s", err, ob)
	}
	return out, nil
}

func setup() int {
	var wg sync.WaitGroup
	sem := make(chan struct{}, 4)
	var mu sync.Mutex
	rc := 0
	for _, id := range allProps {
		if _, err := os.Stat(pkgDir(id)); err != nil {
			continue
		}
		wg.Add(1)
		go func(id string) {
			defer wg.Done()
			sem <- struct{}{}
			defer func() { <-sem }()
			if _, err := build(id); err != nil {
				mu.Lock()
				fmt.Fprintf(os.Stderr, "setup: %s: %v\n", id, err)
				rc = 2
				mu.Unlock()
			}
		}(id)
	}
	wg.Wait()
	if rc == 0 {
		fmt.Println("setup ok")
	}
	return rc
}

type replayResult struct {
	Path   string
	Status string // pass, fail, error, died
	Known  []string
	Output string
}

func runReplay(bin, id, path string) replayResult {
	ctx, cancel := context.WithTimeout(context.Background(), 5*time.Minute)
	defer cancel()
	targs := fmt.Sprintf("%q -test.run '^Test' -test.timeout 0 -test.count=1", bin)
	sh := "exec " + targs
	if mk := cfgFor(id).MemKB; mk > 0 {
		sh = fmt.Sprintf("ulimit -v %d; exec %s", mk, targs)
	}
	cmd := exec.CommandContext(ctx, "sh", "-c", sh)
	cmd.Env = append(env(), "VERIF_REPLAY="+path, "VERIF_PROP="+id, "GORACE=halt_on_error=1")
	cmd.Dir = pkgDir(id)
	ob, err := cmd.CombinedOutput()
	out := string(ob)
	r := replayResult{Path: path, Output: out}
	for _, m := range regexp.MustCompile(`(?m)^REPLAY-KNOWN (\S+)`).FindAllStringSubmatch(out, -1) {
		r.Known = append(r.Known, m[1])
	}
	switch {
	case strings.Contains(out, "REPLAY-ERROR"):
		r.Status = "error"
	case strings.Contains(out, "REPLAY-FAIL"):
		r.Status = "fail"
	case strings.Contains(out, "WARNING: DATA RACE"):
		r.Status = "fail"
	case err != nil:
		r.Status = "died"
	case strings.Contains(out, "REPLAY-PASS"):
		r.Status = "pass"
	default:
		r.Status = "error"
	}
	return r
}

// historyReplay is a replay file whose reproducible unit is a whole shard run: the failing case
// passes when it is run alone in a fresh process and fails after the cases that precede it.
type historyReplay struct {
	HistoryReplay struct {
		Prop   string `json:"prop"`
		Tier   string `json:"tier"`
		Seed   int64  `json:"seed"`
		Shard  int    `json:"shard"`
		Shards int    `json:"shards"`
		Sub    string `json:"sub"`
	} `json:"history_replay"`
	Case json.RawMessage `json:"case,omitempty"`
}

func writeHistoryReplay(path, id, tier string, seed int64, shard, nsh int, sub, casePath string) {
	var h historyReplay
	h.HistoryReplay.Prop, h.HistoryReplay.Tier, h.HistoryReplay.Seed = id, tier, seed
	h.HistoryReplay.Shard, h.HistoryReplay.Shards, h.HistoryReplay.Sub = shard, nsh, sub
	if b, err := os.ReadFile(casePath); err == nil && json.Valid(b) {
		h.Case = b
	}
	b, _ := json.MarshalIndent(h, "", " ")
	_ = os.WriteFile(path, b, 0o644)
}

// rerunShard runs one shard of a tier again, exactly as runCheck does, in a work directory of its
// own, and reports whether the named sub-check failed again.
func rerunShard(bin, id, tier string, seed int64, shard, nsh int, sub string, capDur time.Duration) (bool, string) {
	work, err := os.MkdirTemp(filepath.Join(root, ".work"), "rerun-")
	if err != nil {
		return false, err.Error()
	}
	defer os.RemoveAll(work)
	cfg := cfgFor(id)
	rs := uint64(1) + ((uint64(seed)*64+uint64(shard))*0x9E3779B97F4A7C15)%(1<<62)
	ctx, cancel := context.WithTimeout(context.Background(), capDur)
	defer cancel()
	targs := fmt.Sprintf("%q -test.run '^Test' -test.timeout 0 -test.count=1 -rapid.seed=%d -rapid.nofailfile -rapid.shrinktime=20s", bin, rs)
	sh := "exec " + targs
	if cfg.MemKB > 0 {
		sh = fmt.Sprintf("ulimit -v %d; exec %s", cfg.MemKB, targs)
	}
	cmd := exec.CommandContext(ctx, "sh", "-c", sh)
	cmd.SysProcAttr = &syscall.SysProcAttr{Setpgid: true}
	cmd.Cancel = func() error { return syscall.Kill(-cmd.Process.Pid, syscall.SIGKILL) }
	cmd.Dir = pkgDir(id)
	cmd.Env = append(env(),
		"VERIF_PROP="+id, "VERIF_TIER="+tier, "VERIF_OUT="+work,
		fmt.Sprintf("VERIF_SHARD=%d", shard), fmt.Sprintf("VERIF_SHARDS=%d", nsh),
		fmt.Sprintf("VERIF_SEED=%d", seed),
		"GORACE=halt_on_error=1 exitcode=66")
	ob, _ := cmd.CombinedOutput()
	ff, _ := filepath.Glob(filepath.Join(work, fmt.Sprintf("fail-%d-*.json", shard)))
	for _, f := range ff {
		if strings.TrimSuffix(strings.SplitN(filepath.Base(f), "-", 3)[2], ".json") == sub {
			return true, string(ob)
		}
	}
	return false, string(ob)
}

func replayCmd(id, path string) int {
	bin, err := build(id)
	if err != nil {
		fmt.Fprintln(os.Stderr, err)
		return 2
	}
	abs, _ := filepath.Abs(path)
	if b, err := os.ReadFile(abs); err == nil && strings.Contains(string(b), "\"history_replay\"") {
		var h historyReplay
		if json.Unmarshal(b, &h) != nil || h.HistoryReplay.Sub == "" {
			fmt.Fprintln(os.Stderr, "malformed history replay file")
			return 2
		}
		hr := h.HistoryReplay
		capDur := cfgFor(id).QuickCap
		if hr.Tier == "thorough" {
			capDur = cfgFor(id).ThoroughCap
		}
		failed, out := rerunShard(bin, id, hr.Tier, hr.Seed, hr.Shard, hr.Shards, hr.Sub, capDur)
		fmt.Print(tail(out, 60))
		if failed {
			fmt.Printf("VIOLATION property=%s replay=%s\n", id, abs)
			return 1
		}
		return 0
	}
	r := runReplay(bin, id, abs)
	fmt.Print(r.Output)
	switch r.Status {
	case "pass":
		return 0
	case "fail", "died":
		fmt.Printf("VIOLATION property=%s replay=%s\n", id, abs)
		return 1
	}
	return 2
}

type knownFile struct {
	Findings []struct {
		ID       string `json:"id"`
		Property string `json:"property"`
		What     string `json:"what"`
		Witness  string `json:"witness"`
	} `json:"findings"`
	Fixed []string `json:"fixed"`
}

func loadKnown() knownFile {
	var k knownFile
	b, err := os.ReadFile(filepath.Join(root, "known_findings.json"))
	if err == nil {
		_ = json.Unmarshal(b, &k)
	}
	return k
}

type subStats struct {
	Evaluations int64             `json:"evaluations"`
	NonTrivial  int64             `json:"nontrivial"`
	Enumerated  int64             `json:"enumerated"`
	Discards    map[string]int64  `json:"discards,omitempty"`
	Labels      map[string]int64  `json:"labels,omitempty"`
	Known       map[string]int64  `json:"known,omitempty"`
	Samples     []json.RawMessage `json:"samples,omitempty"`
	NTSamples   []json.RawMessage `json:"nontrivial_samples,omitempty"`
	Requested   int64             `json:"requested"`
	EnumDesc    string            `json:"enum_desc,omitempty"`
	EnumDone    bool              `json:"enum_done,omitempty"`
	Saturated   bool              `json:"hashes_saturated,omitempty"`
	Extra       map[string]any    `json:"extra,omitempty"`
}

type shardStats struct {
	Shard int                  `json:"shard"`
	Wall  float64              `json:"wall_s"`
	Exit  int                  `json:"exit"`
	Subs  map[string]*subStats `json:"subs"`
}

type shardOutcome struct {
	idx      int
	exit     int
	timedOut bool
	output   string
}

func runCheck(id, tier string) int {
	start := time.Now()
	cfg := cfgFor(id)
	seed, _ := strconv.ParseInt(os.Getenv("VERIF_SEED"), 10, 64)
	bin, err := build(id)
	if err != nil {
		fmt.Fprintf(os.Stderr, "%s: %v\n", id, err)
		return 2
	}
	work := filepath.Join(root, ".work", fmt.Sprintf("%s-%s-%d", id, tier, os.Getpid()))
	_ = os.RemoveAll(work)
	if err := os.MkdirAll(work, 0o755); err != nil {
		fmt.Fprintln(os.Stderr, err)
		return 2
	}
	keepWork := os.Getenv("VERIF_KEEP") != ""
	defer func() {
		if !keepWork {
			_ = os.RemoveAll(work)
		}
		if r := os.Getenv("VERIF_REPO"); r != "" && r != "/repo" {
			_ = os.Remove(bin) // binaries built against scratch trees are single-use
		}
	}()
	replayDir := filepath.Join(root, "replays", id)
	_ = os.MkdirAll(replayDir, 0o755)
	if os.Getenv("VERIF_REPO") == "" || os.Getenv("VERIF_REPO") == "/repo" {
		// stale run artefacts of this tier/seed (never the committed seeds)
		for _, pre := range []string{"fail-", "died-", "race-"} {
			old, _ := filepath.Glob(filepath.Join(replayDir, fmt.Sprintf("%s%s-seed%d-*", pre, tier, seed)))
			for _, f := range old {
				_ = os.Remove(f)
			}
		}
	}

	violations := []string{}
	inconclusive := []string{}
	knownLines := map[string]string{}
	known := loadKnown()
	knownWhat := map[string]string{}
	for _, f := range known.Findings {
		if f.Property == id {
			knownWhat[f.ID] = f.What
		}
	}

	// ---- replay tier -------------------------------------------------------
	files, _ := filepath.Glob(filepath.Join(replayDir, "*.json"))
	{
		// only committed seeds are replayed; fail-/died-/race-/fuzz- files are run artefacts
		keep := files[:0]
		for _, f := range files {
			b := filepath.Base(f)
			if strings.HasPrefix(b, "seed-") || strings.HasPrefix(b, "known-") || strings.HasPrefix(b, "fixed-") {
				keep = append(keep, f)
			}
		}
		files = keep
	}
	sort.Strings(files)
	replaysRun := 0
	{
		var wg sync.WaitGroup
		sem := make(chan struct{}, 8)
		res := make([]replayResult, len(files))
		for i, f := range files {
			wg.Add(1)
			go func(i int, f string) {
				defer wg.Done()
				sem <- struct{}{}
				defer func() { <-sem }()
				res[i] = runReplay(bin, id, f)
			}(i, f)
		}
		wg.Wait()
		for _, r := range res {
			replaysRun++
			switch r.Status {
			case "pass":
				for _, k := range r.Known {
					if w, ok := knownWhat[k]; ok {
						knownLines[k] = w
					}
				}
			case "fail", "died":
				fmt.Print(tail(r.Output, 30))
				violations = append(violations, r.Path)
			default:
				fmt.Fprintf(os.Stderr, "replay harness error for %s:\n%s\n", r.Path, tail(r.Output, 30))
				inconclusive = append(inconclusive, "replay error "+r.Path)
			}
		}
	}

	// ---- generated tier ----------------------------------------------------
	capDur := cfg.QuickCap
	if tier == "thorough" {
		capDur = cfg.ThoroughCap
	}
	nsh := cfg.Shards
	if v, err := strconv.Atoi(os.Getenv("VERIF_SHARDS")); err == nil && v > 0 {
		nsh = v
	}
	outcomes := make([]shardOutcome, nsh)
	{
		var wg sync.WaitGroup
		for i := 0; i < nsh; i++ {
			wg.Add(1)
			go func(i int) {
				defer wg.Done()
				rs := uint64(1) + ((uint64(seed)*64+uint64(i))*0x9E3779B97F4A7C15)%(1<<62) // spaced: rapid derives per-case seeds as base + small offsets
				ctx, cancel := context.WithTimeout(context.Background(), capDur)
				defer cancel()
				targs := fmt.Sprintf("%q -test.run '^Test' -test.timeout 0 -test.count=1 -rapid.seed=%d -rapid.nofailfile -rapid.shrinktime=20s", bin, rs)
				sh := "exec " + targs
				if cfg.MemKB > 0 {
					sh = fmt.Sprintf("ulimit -v %d; exec %s", cfg.MemKB, targs)
				}
				cmd := exec.CommandContext(ctx, "sh", "-c", sh)
				cmd.SysProcAttr = &syscall.SysProcAttr{Setpgid: true}
				cmd.Cancel = func() error { return syscall.Kill(-cmd.Process.Pid, syscall.SIGKILL) }
				cmd.Dir = pkgDir(id)
				cmd.Env = append(env(),
					"VERIF_PROP="+id, "VERIF_TIER="+tier, "VERIF_OUT="+work,
					fmt.Sprintf("VERIF_SHARD=%d", i), fmt.Sprintf("VERIF_SHARDS=%d", nsh),
					fmt.Sprintf("VERIF_SEED=%d", seed),
					"GORACE=halt_on_error=1 exitcode=66")
				ob, err := cmd.CombinedOutput()
				oc := shardOutcome{idx: i, output: string(ob)}
				if ctx.Err() != nil {
					oc.timedOut = true
					oc.exit = -1
				} else if err != nil {
					if ee, ok := err.(*exec.ExitError); ok {
						oc.exit = ee.ExitCode()
					} else {
						oc.exit = -2
					}
				}
				outcomes[i] = oc
			}(i)
		}
		wg.Wait()
	}

	completed := 0
	seenSub := map[string]bool{}
	for _, oc := range outcomes {
		failFiles, _ := filepath.Glob(filepath.Join(work, fmt.Sprintf("fail-%d-*.json", oc.idx)))
		cur := filepath.Join(work, fmt.Sprintf("current-%d.json", oc.idx))
		decodeCurrent(filepath.Join(work, fmt.Sprintf("current-%d.bin", oc.idx)), cur)
		switch {
		case oc.exit == 0 && !oc.timedOut:
			completed++
		case oc.timedOut:
			inconclusive = append(inconclusive, fmt.Sprintf("shard %d hit the wall-clock cap %v", oc.idx, capDur))
		case len(failFiles) > 0:
			completed++
			for _, ff := range failFiles {
				subName := strings.TrimSuffix(strings.SplitN(filepath.Base(ff), "-", 3)[2], ".json")
				if seenSub[subName] {
					continue // one replay file per sub-check is enough
				}
				seenSub[subName] = true
				dst := filepath.Join(replayDir, fmt.Sprintf("fail-%s-seed%d-%s", tier, seed, filepath.Base(ff)))
				copyFile(ff, dst)
				r := runReplay(bin, id, dst)
				if r.Status == "fail" || r.Status == "died" || cfg.Flaky || scheduleDependent(id, subName) {
					fmt.Print(tail(oc.output, 40))
					violations = append(violations, dst)
				} else if again, out2 := rerunShard(bin, id, tier, seed, oc.idx, nsh, subName, capDur); again {
					// The case alone passes, the same shard run again fails at the same sub-check: the
					// failure depends on what the earlier cases of the process left behind in the
					// library (package-level state). The reproducible unit is the shard run.
					hist := strings.TrimSuffix(dst, ".json") + "-history.json"
					writeHistoryReplay(hist, id, tier, seed, oc.idx, nsh, subName, dst)
					_ = os.Remove(dst)
					fmt.Print(tail(out2, 40))
					fmt.Printf("failure of sub-check %s depends on earlier cases of the same process (the case alone passes, the shard run fails again)\n", subName)
					violations = append(violations, hist)
				} else {
					// did not reproduce outside rapid: treat as harness nondeterminism
					fmt.Fprintf(os.Stderr, "shard %d failure did not replay (%s); output:\n%s\n", oc.idx, r.Status, tail(oc.output, 40))
					inconclusive = append(inconclusive, "non-reproducible failure "+dst)
				}
			}
		case strings.Contains(oc.output, "WARNING: DATA RACE"):
			completed++
			dst := filepath.Join(replayDir, fmt.Sprintf("race-%s-seed%d-shard%d.json", tier, seed, oc.idx))
			if _, err := os.Stat(cur); err == nil {
				copyFile(cur, dst)
			} else {
				_ = os.WriteFile(dst, []byte("{}"), 0o644)
			}
			_ = os.WriteFile(dst+".log", []byte(oc.output), 0o644)
			fmt.Print(tail(oc.output, 60))
			violations = append(violations, dst)
		default:
			// process died without a recorded failing case
			if _, err := os.Stat(cur); err == nil {
				dst := filepath.Join(replayDir, fmt.Sprintf("died-%s-seed%d-shard%d.json", tier, seed, oc.idx))
				copyFile(cur, dst)
				r := runReplay(bin, id, dst)
				if r.Status == "fail" || r.Status == "died" {
					fmt.Print(tail(oc.output, 40))
					violations = append(violations, dst)
					completed++
					continue
				}
				_ = os.Remove(dst)
			}
			fmt.Fprintf(os.Stderr, "shard %d exited %d without a failing case; output (head, tail):\n%s...\n%s\n", oc.idx, oc.exit, head(oc.output, 40), tail(oc.output, 25))
			inconclusive = append(inconclusive, fmt.Sprintf("shard %d died (exit %d)", oc.idx, oc.exit))
		}
	}

	// ---- native fuzzing (thorough) ------------------------------------------
	fuzzInfo := map[string]any{}
	if tier == "thorough" && len(violations) == 0 {
		for _, ft := range cfg.Fuzz {
			info, viol, inc := runFuzz(id, ft, replayDir, bin)
			fuzzInfo[ft.Name] = info
			violations = append(violations, viol...)
			inconclusive = append(inconclusive, inc...)
		}
	}

	// ---- merge statistics ----------------------------------------------------
	merged := map[string]*subStats{}
	hashSet := map[uint64]struct{}{}
	for i := 0; i < nsh; i++ {
		b, err := os.ReadFile(filepath.Join(work, fmt.Sprintf("stats-%d.json", i)))
		if err != nil {
			continue
		}
		var ss shardStats
		if json.Unmarshal(b, &ss) != nil {
			continue
		}
		for name, s := range ss.Subs {
			m := merged[name]
			if m == nil {
				m = &subStats{Labels: map[string]int64{}, Known: map[string]int64{}, Discards: map[string]int64{}, Extra: map[string]any{}}
				merged[name] = m
			}
			m.Evaluations += s.Evaluations
			m.NonTrivial += s.NonTrivial
			m.Enumerated += s.Enumerated
			m.Requested += s.Requested
			m.Saturated = m.Saturated || s.Saturated
			if s.EnumDesc != "" {
				m.EnumDesc = s.EnumDesc
			}
			if i == 0 {
				m.EnumDone = s.EnumDone
			} else {
				m.EnumDone = m.EnumDone && s.EnumDone
			}
			for k, v := range s.Labels {
				m.Labels[k] += v
			}
			for k, v := range s.Known {
				m.Known[k] += v
			}
			for k, v := range s.Discards {
				m.Discards[k] += v
			}
			for k, v := range s.Extra {
				if f, ok := v.(float64); ok && strings.HasPrefix(k, "sum_") {
					if pf, ok := m.Extra[k].(float64); ok {
						m.Extra[k] = pf + f
					} else {
						m.Extra[k] = f
					}
				} else if _, ok := m.Extra[k]; !ok {
					m.Extra[k] = v
				}
			}
			if len(m.Samples) < 3 {
				m.Samples = append(m.Samples, s.Samples...)
			}
			if len(m.NTSamples) < 4 {
				m.NTSamples = append(m.NTSamples, s.NTSamples...)
			}
		}
		hb, err := os.ReadFile(filepath.Join(work, fmt.Sprintf("hashes-%d.bin", i)))
		if err == nil {
			for o := 0; o+8 <= len(hb); o += 8 {
				hashSet[binary.LittleEndian.Uint64(hb[o:])] = struct{}{}
			}
		}
	}
	var evals, shortfall int64
	labels := map[string]map[string]int64{}
	excluded := map[string]int64{}
	discards := map[string]int64{}
	samples := []any{}
	exh := []string{}
	subsOut := map[string]any{}
	names := make([]string, 0, len(merged))
	for n := range merged {
		names = append(names, n)
	}
	sort.Strings(names)
	saturated := false
	for _, n := range names {
		m := merged[n]
		evals += m.Evaluations
		gen := m.Evaluations - m.Enumerated
		if gen < m.Requested {
			shortfall += m.Requested - gen
		}
		saturated = saturated || m.Saturated
		labels[n] = m.Labels
		for k, v := range m.Known {
			excluded[k] += v
			if v > 0 {
				if w, ok := knownWhat[k]; ok {
					knownLines[k] = w
				}
			}
		}
		for k, v := range m.Discards {
			discards[n+"/"+k] += v
		}
		if m.EnumDesc != "" && m.EnumDone {
			exh = append(exh, fmt.Sprintf("%s: %s (%d cases)", n, m.EnumDesc, m.Enumerated))
		}
		take := 0
		for _, s := range m.NTSamples {
			if take >= 2 {
				break
			}
			samples = append(samples, map[string]any{"sub": n, "nontrivial": true, "case": s})
			take++
		}
		if take == 0 && len(m.Samples) > 0 {
			samples = append(samples, map[string]any{"sub": n, "nontrivial": false, "case": m.Samples[0]})
		}
		subsOut[n] = map[string]any{"evaluations": m.Evaluations, "nontrivial": m.NonTrivial, "enumerated": m.Enumerated, "requested_generated": m.Requested, "extra": m.Extra}
	}

	// generator health: labels a property declares as required must have been reached
	if len(violations) == 0 && os.Getenv("VERIF_SUB") == "" {
		if rb, err := os.ReadFile(filepath.Join(pkgDir(id), "REQUIRED_LABELS.txt")); err == nil {
			for _, line := range strings.Split(string(rb), "\n") {
				line = strings.TrimSpace(line)
				if line == "" || strings.HasPrefix(line, "#") {
					continue
				}
				parts := strings.SplitN(line, ":", 2)
				if len(parts) != 2 {
					continue
				}
				if m := merged[parts[0]]; m == nil || m.Labels[parts[1]] == 0 {
					inconclusive = append(inconclusive, "generator unhealthy: required class "+line+" was never reached")
				}
			}
		}
	}

	rule := readRule(id)
	if saturated {
		rule += " [distinct count is a lower bound: per-shard hash sets were capped]"
	}
	ev := map[string]any{
		"property_id": id,
		"tier":        tier,
		"seed":        seed,
		"level":       "exploration",
		"coverage": map[string]any{
			"evaluations":           evals,
			"distinct_nontrivial":   len(hashSet),
			"rule":                  rule,
			"samples":               samples,
			"subchecks":             subsOut,
			"labels":                labels,
			"exhaustive_subspaces":  exh,
			"excluded_known":        excluded,
			"discards":              discards,
			"shards":                nsh,
			"shards_completed":      completed,
			"shortfall":             shortfall,
			"replays_run":           replaysRun,
			"native_fuzz":           fuzzInfo,
			"inconclusive":          inconclusive,
		},
		"assumptions": readAssumptions(id),
		"wall_s":      time.Since(start).Seconds(),
		"violations":  len(violations),
	}
	// evidence/<id>.json describes /repo; a run against another tree (VERIF_REPO, used by the
	// sensitivity scripts) records under .work/ instead and leaves the record of /repo alone
	evDir := filepath.Join(root, "evidence")
	if os.Getenv("VERIF_REPO") != "" {
		evDir = filepath.Join(root, ".work", "evidence-alt")
	}
	_ = os.MkdirAll(evDir, 0o755)
	eb, _ := json.MarshalIndent(ev, "", " ")
	_ = os.WriteFile(filepath.Join(evDir, id+".json"), eb, 0o644)

	kids := make([]string, 0, len(knownLines))
	for k := range knownLines {
		kids = append(kids, k)
	}
	sort.Strings(kids)
	for _, k := range kids {
		fmt.Printf("KNOWN-FINDING: property=%s %s: %s\n", id, k, knownLines[k])
	}
	if len(violations) > 0 {
		for _, v := range violations {
			fmt.Printf("VIOLATION property=%s replay=%s\n", id, v)
		}
		return 1
	}
	if completed == 0 || len(inconclusive) > 0 {
		for _, s := range inconclusive {
			fmt.Fprintf(os.Stderr, "INCONCLUSIVE %s: %s\n", id, s)
		}
		if completed == 0 || hasHard(inconclusive) {
			return 2
		}
	}
	if evals == 0 {
		fmt.Fprintf(os.Stderr, "%s: no cases were evaluated\n", id)
		return 2
	}
	fmt.Printf("OK property=%s tier=%s seed=%d evaluations=%d distinct_nontrivial=%d wall=%.1fs\n", id, tier, seed, evals, len(hashSet), time.Since(start).Seconds())
	return 0
}

// hasHard: anything but a wall-clock cap on some (not all) shards is a hard harness problem.
func hasHard(inc []string) bool {
	for _, s := range inc {
		if !strings.Contains(s, "wall-clock cap") {
			return true
		}
	}
	return false
}

// scheduleDependent reports whether a sub-check is listed in the package's FLAKY_SUBS.txt: its
// cases start goroutines, so a failure seen once (against an explicit oracle) is a violation
// even when the saved case passes on replay.
func scheduleDependent(id, sub string) bool {
	b, err := os.ReadFile(filepath.Join(pkgDir(id), "FLAKY_SUBS.txt"))
	if err != nil {
		return false
	}
	for _, l := range strings.Split(string(b), "\n") {
		if strings.TrimSpace(l) == sub {
			return true
		}
	}
	return false
}

func readRule(id string) string {
	b, err := os.ReadFile(filepath.Join(pkgDir(id), "RULE.txt"))
	if err != nil {
		return "see DESIGN.md section 5 " + id
	}
	return strings.TrimSpace(string(b))
}

func readAssumptions(id string) []string {
	b, err := os.ReadFile(filepath.Join(pkgDir(id), "ASSUMPTIONS.txt"))
	if err != nil {
		return []string{"Go toolchain/runtime, rapid v1.3.0 generators and shrinker, go-bk bec for ECDSA"}
	}
	var out []string
	for _, l := range strings.Split(string(b), "\n") {
		if l = strings.TrimSpace(l); l != "" {
			out = append(out, l)
		}
	}
	return out
}

func head(s string, n int) string {
	lines := strings.Split(s, "\n")
	if len(lines) > n {
		lines = lines[:n]
	}
	return strings.Join(lines, "\n") + "\n"
}

func tail(s string, n int) string {
	lines := strings.Split(strings.TrimRight(s, "\n"), "\n")
	if len(lines) > n {
		lines = lines[len(lines)-n:]
	}
	return strings.Join(lines, "\n") + "\n"
}

// decodeCurrent turns the length-prefixed precommit record into a replay JSON file.
func decodeCurrent(bin, out string) {
	b, err := os.ReadFile(bin)
	if err != nil || len(b) < 8 {
		return
	}
	n := binary.LittleEndian.Uint64(b)
	if n > uint64(len(b)-8) {
		return
	}
	var v any
	if json.Unmarshal(b[8:8+n], &v) != nil {
		return
	}
	pretty, _ := json.MarshalIndent(v, "", " ")
	_ = os.WriteFile(out, pretty, 0o644)
}

func copyFile(src, dst string) {
	b, err := os.ReadFile(src)
	if err == nil {
		_ = os.WriteFile(dst, b, 0o644)
	}
}

// runFuzz runs one native fuzz target for a bounded time with a fresh cache
// directory; a crasher is converted by the test package itself into a replay
// case (the fuzz target writes fail files through pbt when VERIF_OUT is set).
func runFuzz(id string, ft fuzzTarget, replayDir, bin string) (map[string]any, []string, []string) {
	if v, err := strconv.Atoi(os.Getenv("VERIF_FUZZTIME")); err == nil && v > 0 {
		ft.Duration = time.Duration(v) * time.Second // for sensitivity runs
	}
	info := map[string]any{"duration_s": ft.Duration.Seconds()}
	cache, err := os.MkdirTemp("", "vfuzz-")
	if err != nil {
		return info, nil, []string{"fuzz: " + err.Error()}
	}
	defer os.RemoveAll(cache)
	work, _ := os.MkdirTemp("", "vfuzzout-")
	defer os.RemoveAll(work)
	args := []string{"test", "-vet=off"}
	mf, _ := modfileArgs()
	args = append(args, mf...)
	args = append(args, "-run", "^$", "-fuzz", "^"+ft.Name+"$", "-fuzztime", ft.Duration.String(), "-parallel", "14",
		"./props/"+strings.ToLower(id), "-test.fuzzcachedir", cache)
	ctx, cancel := context.WithTimeout(context.Background(), ft.Duration+5*time.Minute)
	defer cancel()
	cmd := exec.CommandContext(ctx, "go", args...)
	cmd.Dir = harness
	cmd.Env = append(env(), "VERIF_PROP="+id, "VERIF_TIER=thorough", "VERIF_FUZZ_OUT="+work)
	ob, err := cmd.CombinedOutput()
	out := string(ob)
	if m := regexp.MustCompile(`execs: (\d+)`).FindAllStringSubmatch(out, -1); len(m) > 0 {
		n, _ := strconv.ParseInt(m[len(m)-1][1], 10, 64)
		info["execs"] = n
	}
	if m := regexp.MustCompile(`new interesting: (\d+) \(total: (\d+)\)`).FindAllStringSubmatch(out, -1); len(m) > 0 {
		n, _ := strconv.ParseInt(m[len(m)-1][2], 10, 64)
		info["corpus_total"] = n
	}
	// crashers written by go test land under the package's testdata/fuzz/<name>/
	crashDir := filepath.Join(pkgDir(id), "testdata", "fuzz", ft.Name)
	var viol []string
	// a failing generated input ("Failing input written to") or a failing entry of the seed corpus
	if err != nil && (strings.Contains(out, "Failing input written to") || strings.Contains(out, "--- FAIL: "+ft.Name)) {
		fs, _ := filepath.Glob(filepath.Join(work, "fuzzfail-*.json"))
		if len(fs) > 0 {
			sort.Strings(fs)
			dst := filepath.Join(replayDir, "fuzz-"+filepath.Base(fs[len(fs)-1]))
			copyFile(fs[len(fs)-1], dst)
			viol = append(viol, dst)
		} else {
			dst := filepath.Join(replayDir, "fuzz-crasher-"+ft.Name+".log")
			_ = os.WriteFile(dst, ob, 0o644)
			viol = append(viol, dst)
		}
		fmt.Print(tail(out, 40))
		// remove the go-native crasher file so later runs are not poisoned
		_ = os.RemoveAll(crashDir)
		return info, viol, nil
	}
	if err != nil {
		return info, nil, []string{"fuzz run error: " + tail(out, 10)}
	}
	return info, nil, nil
}
