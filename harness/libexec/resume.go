package libexec

import (
	"fmt"

	"github.com/libsv/go-bt/v2/bscript/interpreter"

	"verif/harness/interp"
	"verif/harness/ref"
)

// Keeper is a Recorder that also keeps every BeforeStep record. The interpreter hands a fresh
// State value to every callback, and its documentation names the BeforeStep / AfterStep records as
// the ones an execution can be resumed from through the exported option WithState.
type Keeper struct {
	Recorder
	States []*interpreter.State
}

// BeforeStep implements interpreter.Debugger.
func (k *Keeper) BeforeStep(s *interpreter.State) { k.States = append(k.States, s) }

// CopyState deep-copies a State record (stacks, conditional stack, parsed scripts), so that a
// resumption can be given a value nothing else refers to.
func CopyState(s *interpreter.State) *interpreter.State {
	c := *s
	c.DataStack, c.AltStack, c.ElseStack, c.SavedFirstStack = cpAll(s.DataStack), cpAll(s.AltStack), cpAll(s.ElseStack), cpAll(s.SavedFirstStack)
	if s.SavedFirstStack == nil {
		c.SavedFirstStack = nil
	}
	c.CondStack = append([]int{}, s.CondStack...)
	c.Scripts = make([]interpreter.ParsedScript, len(s.Scripts))
	for i, ps := range s.Scripts {
		c.Scripts[i] = append(interpreter.ParsedScript{}, ps...)
	}
	return &c
}

// ResumeModel runs input idx of m from the given State record (a fresh engine, a fresh
// transaction object, the same flags and spent output as the uninterrupted run).
func ResumeModel(m ref.Tx, idx int, lock []byte, amount uint64, flags interp.Flags, st *interpreter.State, dbg interpreter.Debugger) Outcome {
	return RunModelOpts(interpreter.NewEngine(), m, idx, lock, amount, flags, dbg, interpreter.WithState(st))
}

// CompareResumed judges an execution resumed from BeforeStep record number `at` (i.e. after `at`
// completed steps of the uninterrupted execution) against the rules: the verdict is the verdict of
// the whole program, and the steps it reports are the steps at+1.. of the reference trace.
func CompareResumed(out Outcome, at int, r interp.Result, withSteps bool) error {
	if out.Panic != "" {
		return fmt.Errorf("library panicked: %s", out.Panic)
	}
	libOK := out.Err == nil
	if libOK != r.OK {
		return fmt.Errorf("verdict of the resumed execution: library err=%v, rules ok=%v (%s)", out.Err, r.OK, r.Err)
	}
	if at > len(r.Trace) {
		return fmt.Errorf("resumed after %d completed steps but the rules stop after %d", at, len(r.Trace))
	}
	if !withSteps {
		return nil
	}
	rest := r
	rest.Trace = r.Trace[at:]
	if err := CompareTraces(out.Steps, libOK, rest); err != nil {
		return fmt.Errorf("%v (step numbers count from the resumption point, %d steps into the program)", err, at)
	}
	return nil
}
