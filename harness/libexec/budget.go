package libexec

import (
	"github.com/libsv/go-bt/v2/bscript/interpreter"

	"verif/harness/interp"
)

// BudgetExceeded is the private sentinel the budget debugger panics with.
type BudgetExceeded struct{ Why string }

// Budget is a Debugger that aborts an execution (by panicking with
// BudgetExceeded, recovered by the harness only) before a step that could
// exceed the stated memory budget, so that "never crashes" is not confused with
// the harness running out of memory. It also records AfterStep like Recorder.
type Budget struct {
	Recorder
	MaxTotal int // total bytes on both stacks
	MaxElem  int // result size of NUM2BIN / CAT
	MaxMul   int // operand size of MUL
}

// NewBudget returns the default budget (8 MiB total, 1 MiB elements, 64 KiB MUL operands).
func NewBudget() *Budget { return &Budget{MaxTotal: 8 << 20, MaxElem: 1 << 20, MaxMul: 64 << 10} }

func smallNum(b []byte) (int, bool) {
	v := interp.DecodeNum(b)
	if v.Sign() < 0 {
		return 0, true // rejected by the opcode itself
	}
	if !v.IsInt64() || v.Int64() > 1<<40 {
		return 0, false
	}
	return int(v.Int64()), true
}

// BeforeExecuteOpcode implements interpreter.Debugger.
func (b *Budget) BeforeExecuteOpcode(s *interpreter.State) {
	total := 0
	for _, x := range s.DataStack {
		total += len(x)
	}
	for _, x := range s.AltStack {
		total += len(x)
	}
	if total > b.MaxTotal {
		panic(BudgetExceeded{"total stack bytes"})
	}
	if s.ScriptIdx >= len(s.Scripts) || s.OpcodeIdx >= len(s.Scripts[s.ScriptIdx]) || s.OpcodeIdx < 0 {
		return
	}
	op := s.Opcode().Value()
	d := s.DataStack
	n := len(d)
	switch op {
	case 0x80: // NUM2BIN
		if n >= 1 {
			if v, ok := smallNum(d[n-1]); !ok || v > b.MaxElem {
				panic(BudgetExceeded{"NUM2BIN size"})
			}
		}
	case 0x7e: // CAT
		if n >= 2 && len(d[n-1])+len(d[n-2]) > b.MaxElem {
			panic(BudgetExceeded{"CAT size"})
		}
	case 0x95: // MUL
		if n >= 2 && (len(d[n-1]) > b.MaxMul || len(d[n-2]) > b.MaxMul) {
			panic(BudgetExceeded{"MUL operands"})
		}
	}
}
