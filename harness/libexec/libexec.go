// Package libexec runs go-bt's interpreter on a generated program and records
// what its public Debugger API reports, for comparison with the reference.
package libexec

import (
	"bytes"
	"fmt"
	"runtime/debug"
	"sync"
	"sync/atomic"

	"github.com/libsv/go-bt/v2"
	"github.com/libsv/go-bt/v2/bscript"
	"github.com/libsv/go-bt/v2/bscript/interpreter"
	"github.com/libsv/go-bt/v2/bscript/interpreter/scriptflag"

	"verif/harness/interp"
	"verif/harness/pbt"
	"verif/harness/ref"
)

// Step is one AfterStep snapshot.
type Step struct {
	Stack [][]byte
	Alt   [][]byte
}

// Recorder is a Debugger that deep-copies data and alt stack after every step.
type Recorder struct {
	Steps []Step
	Err   error
	OK    bool
}

func cpAll(s [][]byte) [][]byte {
	o := make([][]byte, len(s))
	for i, b := range s {
		o[i] = append([]byte{}, b...)
	}
	return o
}

// BeforeExecute implements interpreter.Debugger.
func (r *Recorder) BeforeExecute(*interpreter.State) {}

// AfterExecute implements interpreter.Debugger.
func (r *Recorder) AfterExecute(*interpreter.State) {}

// BeforeStep implements interpreter.Debugger.
func (r *Recorder) BeforeStep(*interpreter.State) {}

// AfterStep implements interpreter.Debugger.
func (r *Recorder) AfterStep(s *interpreter.State) {
	r.Steps = append(r.Steps, Step{Stack: cpAll(s.DataStack), Alt: cpAll(s.AltStack)})
}

// BeforeExecuteOpcode implements interpreter.Debugger.
func (r *Recorder) BeforeExecuteOpcode(*interpreter.State) {}

// AfterExecuteOpcode implements interpreter.Debugger.
func (r *Recorder) AfterExecuteOpcode(*interpreter.State) {}

// BeforeScriptChange implements interpreter.Debugger.
func (r *Recorder) BeforeScriptChange(*interpreter.State) {}

// AfterScriptChange implements interpreter.Debugger.
func (r *Recorder) AfterScriptChange(*interpreter.State) {}

// AfterSuccess implements interpreter.Debugger.
func (r *Recorder) AfterSuccess(*interpreter.State) { r.OK = true }

// AfterError implements interpreter.Debugger.
func (r *Recorder) AfterError(_ *interpreter.State, err error) { r.Err = err }

// BeforeStackPush implements interpreter.Debugger.
func (r *Recorder) BeforeStackPush(*interpreter.State, []byte) {}

// AfterStackPush implements interpreter.Debugger.
func (r *Recorder) AfterStackPush(*interpreter.State, []byte) {}

// BeforeStackPop implements interpreter.Debugger.
func (r *Recorder) BeforeStackPop(*interpreter.State) {}

// AfterStackPop implements interpreter.Debugger.
func (r *Recorder) AfterStackPop(*interpreter.State, []byte) {}

// TxCtx is the one-input spending context of a program.
type TxCtx struct {
	Version  uint32 `json:"version"`
	LockTime uint32 `json:"locktime"`
	Seq      uint32 `json:"seq"`
	Amount   uint64 `json:"amount"`
	// NBefore / NAfter other inputs stand before / behind the checked one (ninth round: the
	// checked input is not always input 0); they carry the sequence number OtherSeq.
	NBefore  int    `json:"nbefore,omitempty"`
	NAfter   int    `json:"nafter,omitempty"`
	OtherSeq uint32 `json:"other_seq,omitempty"`
}

// Index is the position of the checked input in the transaction Model builds.
func (c TxCtx) Index() int {
	if c.NBefore < 0 {
		return 0
	}
	return c.NBefore
}

// Model builds the spending transaction model (one input, one output) for a program.
func (c TxCtx) Model(unlock, lock []byte) ref.Tx {
	m := interp.SpendingTx(unlock, lock, c.Amount)
	m.Version, m.LockTime = c.Version, c.LockTime
	m.In[0].Seq = c.Seq
	if c.NBefore > 0 || c.NAfter > 0 {
		other := func(k int) ref.In {
			id := make(pbt.Hex, 32)
			id[0], id[31] = byte(k+1), 0x77
			return ref.In{TxID: id, Vout: uint32(k), Unlock: pbt.Hex{0x51}, Seq: c.OtherSeq, PrevSats: 1, PrevScript: pbt.Hex{0x51}}
		}
		var ins []ref.In
		for k := 0; k < c.NBefore && k < 8; k++ {
			ins = append(ins, other(k))
		}
		ins = append(ins, m.In[0])
		for k := 0; k < c.NAfter && k < 8; k++ {
			ins = append(ins, other(100+k))
		}
		m.In = ins
	}
	return m
}

// Outcome of one library execution.
type Outcome struct {
	Err      error
	Budget   string // set when the budget debugger aborted the run (not a verdict)
	Panic    string
	Steps    []Step
	Recorder *Recorder
	// Damage names a caller-owned slice (script or txid of the transaction handed to the engine,
	// or the spent output's script) whose spare capacity was written to during the execution.
	Damage string
}

// Run executes the program with a transaction context through WithTx. dbg may be
// nil (no debugger), or any Debugger (a *Recorder to collect the trace).
func Run(unlock, lock []byte, flags interp.Flags, c TxCtx, dbg interpreter.Debugger) (out Outcome) {
	m := c.Model(unlock, lock)
	return RunModel(m, c.Index(), lock, c.Amount, flags, dbg)
}

// OptPool hands out ONE option value per distinct option for as long as it is installed
// (SetPool): a caller that validates many inputs builds its option values once and passes them to
// every Execute call, in different combinations. An option value that remembers anything from the
// calls it was used in (round-11 seed C18-20: WithFlags accumulating the flags set before it into
// its captured variable) then changes a later execution that is given the same value.
type OptPool struct {
	mu sync.Mutex
	m  map[string]interpreter.ExecutionOptionFunc
	// Shared counts the option values handed out more than once.
	Shared int
}

// NewOptPool returns an empty pool.
func NewOptPool() *OptPool { return &OptPool{m: map[string]interpreter.ExecutionOptionFunc{}} }

var curPool atomic.Pointer[OptPool]

// SetPool installs (or, with nil, removes) the pool FlagOpts takes its option values from. The
// sub-checks that run several executions per case install one for the length of the case.
func SetPool(p *OptPool) { curPool.Store(p) }

func (p *OptPool) get(key string, mk func() interpreter.ExecutionOptionFunc) interpreter.ExecutionOptionFunc {
	if p == nil {
		return mk()
	}
	p.mu.Lock()
	defer p.mu.Unlock()
	if o, ok := p.m[key]; ok {
		p.Shared++
		return o
	}
	o := mk()
	p.m[key] = o
	return o
}

// FlagOpts renders a flag set as execution options. The form is a pure function of the case
// (salt): all flags through WithFlags; or the three flags that have an option function of their
// own (WithAfterGenesis, WithForkID, WithP2SH) through those, before or after a WithFlags for
// the rest; with a pool installed also one WithFlags value per flag bit between the named ones.
// All forms must configure the same execution.
func FlagOpts(flags interp.Flags, salt int) []interpreter.ExecutionOptionFunc {
	pool := curPool.Load()
	withFlags := func(f scriptflag.Flag) interpreter.ExecutionOptionFunc {
		return pool.get(fmt.Sprintf("F%d", uint32(f)), func() interpreter.ExecutionOptionFunc { return interpreter.WithFlags(f) })
	}
	all := scriptflag.Flag(flags)
	forms := 3
	if pool != nil {
		forms = 5
	}
	if salt < 0 {
		salt = -salt
	}
	form := salt % forms
	if form == 0 {
		return []interpreter.ExecutionOptionFunc{withFlags(all)}
	}
	var named []interpreter.ExecutionOptionFunc
	rest := all
	if all.HasFlag(scriptflag.UTXOAfterGenesis) {
		named = append(named, pool.get("AG", interpreter.WithAfterGenesis))
		rest &^= scriptflag.UTXOAfterGenesis
	}
	if all.HasFlag(scriptflag.EnableSighashForkID) {
		named = append(named, pool.get("FK", interpreter.WithForkID))
		rest &^= scriptflag.EnableSighashForkID
	}
	if all.HasFlag(scriptflag.Bip16) {
		named = append(named, pool.get("P2SH", interpreter.WithP2SH))
		rest &^= scriptflag.Bip16
	}
	switch form {
	case 1:
		return append(named, withFlags(rest))
	case 2:
		return append([]interpreter.ExecutionOptionFunc{withFlags(rest)}, named...)
	}
	// pool only: one (shared) WithFlags value per remaining flag bit, behind (3) or in front of (4) the named ones
	var bits []interpreter.ExecutionOptionFunc
	for b := uint32(0); b < 32; b++ {
		if f := scriptflag.Flag(1) << b; rest&f != 0 {
			bits = append(bits, withFlags(f))
		}
	}
	if form == 3 {
		return append(named, bits...)
	}
	return append(bits, named...)
}

// RunModel executes input idx of model m against the given spent output.
func RunModel(m ref.Tx, idx int, lock []byte, amount uint64, flags interp.Flags, dbg interpreter.Debugger) (out Outcome) {
	return RunModelOn(interpreter.NewEngine(), m, idx, lock, amount, flags, dbg)
}

// RunOn is Run on an engine the caller owns (and may have used before).
func RunOn(eng interpreter.Engine, unlock, lock []byte, flags interp.Flags, c TxCtx, dbg interpreter.Debugger) (out Outcome) {
	return RunModelOn(eng, c.Model(unlock, lock), c.Index(), lock, c.Amount, flags, dbg)
}

// RunModelOn is RunModel on an engine the caller owns (and may have used before).
func RunModelOn(eng interpreter.Engine, m ref.Tx, idx int, lock []byte, amount uint64, flags interp.Flags, dbg interpreter.Debugger) (out Outcome) {
	return RunModelOpts(eng, m, idx, lock, amount, flags, dbg)
}

// RunModelOpts is RunModelOn with further execution options appended (e.g. WithState).
func RunModelOpts(eng interpreter.Engine, m ref.Tx, idx int, lock []byte, amount uint64, flags interp.Flags, dbg interpreter.Debugger, extra ...interpreter.ExecutionOptionFunc) (out Outcome) {
	// the transaction object is built field by field in five cases of eight; in the others it is a
	// Clone(), a clone of a clone, or parsed from the extended serialisation (chosen by the shape
	// of the case, so that a replay takes the same way)
	via := 0
	if s := len(lock) + len(m.In) + int(flags) + int(m.LockTime%5); s%8 >= 5 {
		via = s%8 - 4
	}
	tx, _ := ref.ToLibViaSalt(m, via)
	prev := &bt.Output{Satoshis: amount, LockingScript: bscript.NewFromBytes(ref.Canary(lock))}
	defer func() {
		if out.Damage = ref.CanaryDamage(tx); out.Damage == "" && prev.LockingScript != nil && ref.CanaryDamaged(*prev.LockingScript) {
			out.Damage = "the bytes behind the spent output's locking script slice were overwritten"
		}
	}()
	opts := append([]interpreter.ExecutionOptionFunc{interpreter.WithTx(tx, idx, prev)}, FlagOpts(flags, len(lock)+len(m.In)+int(flags))...)
	if dbg != nil {
		opts = append(opts, interpreter.WithDebugger(dbg))
	}
	opts = append(opts, extra...)
	defer func() {
		if x := recover(); x != nil {
			if be, ok := x.(BudgetExceeded); ok {
				out.Budget = be.Why
			} else {
				out.Panic = fmt.Sprintf("%v\n%s", x, debug.Stack())
			}
		}
		switch r := dbg.(type) {
		case *Recorder:
			out.Steps, out.Recorder = r.Steps, r
		case *Keeper:
			out.Steps, out.Recorder = r.Steps, &r.Recorder
		case *Budget:
			out.Steps, out.Recorder = r.Steps, &r.Recorder
		}
	}()
	out.Err = eng.Execute(opts...)
	return out
}

// RunScriptsOnly executes through WithScripts (no transaction context).
func RunScriptsOnly(unlock, lock []byte, flags interp.Flags, dbg interpreter.Debugger) (out Outcome) {
	opts := []interpreter.ExecutionOptionFunc{
		interpreter.WithScripts(bscript.NewFromBytes(append([]byte{}, lock...)), bscript.NewFromBytes(append([]byte{}, unlock...)))}
	opts = append(opts, FlagOpts(flags, len(lock)+len(unlock)+int(flags))...)
	if dbg != nil {
		opts = append(opts, interpreter.WithDebugger(dbg))
	}
	defer func() {
		if x := recover(); x != nil {
			if be, ok := x.(BudgetExceeded); ok {
				out.Budget = be.Why
			} else {
				out.Panic = fmt.Sprintf("%v\n%s", x, debug.Stack())
			}
		}
		switch r := dbg.(type) {
		case *Recorder:
			out.Steps, out.Recorder = r.Steps, r
		case *Budget:
			out.Steps, out.Recorder = r.Steps, &r.Recorder
		}
	}()
	out.Err = interpreter.NewEngine().Execute(opts...)
	return out
}

// Prog is the JSON form of a generated program (replay files).
type Prog struct {
	Unlock pbt.Hex `json:"unlock"`
	Lock   pbt.Hex `json:"lock"`
	Flags  uint32  `json:"flags"`
	Ctx    TxCtx   `json:"ctx"`
	Level  string  `json:"level,omitempty"`
}

func eqStack(a, b [][]byte) bool {
	if len(a) != len(b) {
		return false
	}
	for i := range a {
		if string(a[i]) != string(b[i]) {
			return false
		}
	}
	return true
}

// CompareTraces checks the library trace against the reference trace: equal
// stacks at every common step; the library may stop earlier only when it
// rejects; it may never complete a step the reference rejected.
func CompareTraces(lib []Step, libOK bool, r interp.Result) error {
	n := len(lib)
	if len(r.Trace) < n {
		n = len(r.Trace)
	}
	for i := 0; i < n; i++ {
		if !eqStack(lib[i].Stack, r.Trace[i].Stack) {
			return fmt.Errorf("step %d (%s): data stack differs: library %x, rules %x", i, r.Trace[i].String(), lib[i].Stack, r.Trace[i].Stack)
		}
		if !eqStack(lib[i].Alt, r.Trace[i].Alt) {
			return fmt.Errorf("step %d (%s): alt stack differs: library %x, rules %x", i, r.Trace[i].String(), lib[i].Alt, r.Trace[i].Alt)
		}
	}
	if len(lib) > len(r.Trace) {
		return fmt.Errorf("library completed step %d (stack %x) but the rules stop after %d steps with %q", len(r.Trace), lib[len(r.Trace)].Stack, len(r.Trace), r.Err)
	}
	if libOK && r.OK && len(lib) != len(r.Trace) {
		return fmt.Errorf("both accept but library ran %d steps, rules %d", len(lib), len(r.Trace))
	}
	return nil
}

// Reuse runs programs on ONE set of library objects that is refilled for every run: the same
// *bt.Tx, the same *bt.Input for the checked input, the same *bscript.Script objects for the
// unlocking and the locking script (their bytes live in two work buffers that keep their first
// element's address as long as the program fits), the same *bt.Output for the spent output.
// Whatever the library remembers about an object or a slice by identity goes stale here.
type Reuse struct {
	tx       *bt.Tx
	in       *bt.Input
	us, ls   *bscript.Script
	ub, lb   []byte
	prev     *bt.Output
	Refilled int // runs that found the objects already in place
}

func refill(buf *[]byte, b []byte) []byte {
	if cap(*buf) < len(b) || *buf == nil {
		*buf = make([]byte, 0, 2*len(b)+64)
	}
	*buf = append((*buf)[:0], b...)
	return (*buf)[:len(b):len(b)]
}

// RunModelOn is RunModelOn with the reused objects.
func (r *Reuse) RunModelOn(eng interpreter.Engine, m ref.Tx, idx int, lock []byte, amount uint64, flags interp.Flags, dbg interpreter.Debugger) (out Outcome) {
	fresh := ref.ToLib(m)
	if r.tx == nil {
		r.tx, r.in, r.us, r.ls, r.prev = &bt.Tx{}, &bt.Input{}, &bscript.Script{}, &bscript.Script{}, &bt.Output{}
	} else {
		r.Refilled++
	}
	*r.tx = *fresh
	if idx >= 0 && idx < len(r.tx.Inputs) {
		*r.in = *fresh.Inputs[idx]
		if r.in.UnlockingScript != nil {
			*r.us = refill(&r.ub, *fresh.Inputs[idx].UnlockingScript)
			r.in.UnlockingScript = r.us
		}
		r.tx.Inputs[idx] = r.in
	}
	*r.ls = refill(&r.lb, lock)
	r.prev.Satoshis, r.prev.LockingScript = amount, r.ls
	tx, prev := r.tx, r.prev
	defer func() {
		if out.Damage = ref.CanaryDamage(tx); out.Damage == "" && (prev.LockingScript != r.ls || !bytes.Equal(*r.ls, lock)) {
			out.Damage = "the spent output's locking script handed to Execute was changed"
		}
	}()
	opts := append([]interpreter.ExecutionOptionFunc{interpreter.WithTx(tx, idx, prev)}, FlagOpts(flags, len(lock)+len(m.In)+int(flags))...)
	if dbg != nil {
		opts = append(opts, interpreter.WithDebugger(dbg))
	}
	defer func() {
		if x := recover(); x != nil {
			if be, ok := x.(BudgetExceeded); ok {
				out.Budget = be.Why
			} else {
				out.Panic = fmt.Sprintf("%v\n%s", x, debug.Stack())
			}
		}
		switch r := dbg.(type) {
		case *Recorder:
			out.Steps, out.Recorder = r.Steps, r
		case *Budget:
			out.Steps, out.Recorder = r.Steps, &r.Recorder
		}
	}()
	out.Err = eng.Execute(opts...)
	return out
}

// RunOn is RunOn with the reused objects.
func (r *Reuse) RunOn(eng interpreter.Engine, unlock, lock []byte, flags interp.Flags, c TxCtx, dbg interpreter.Debugger) Outcome {
	return r.RunModelOn(eng, c.Model(unlock, lock), c.Index(), lock, c.Amount, flags, dbg)
}
