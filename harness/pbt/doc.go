package pbt
import _ "pgregory.net/rapid"
import _ "github.com/libsv/go-bt/v2"
import _ "github.com/libsv/go-bk/bec"
import _ "golang.org/x/crypto/ripemd160"
