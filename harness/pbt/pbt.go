// Package pbt is the shared recorder/runner used by every property package.
//
// A property package declares one or more Sub checks (generator + oracle over a
// JSON-serialisable case type). Run drives a Sub with rapid (generated tier),
// with a complete enumeration (Enum) or from a saved case (replay tier), keeps
// label histograms / distinct non-trivial hashes / samples, and leaves a replay
// file behind at the moment a case fails. Main writes the per-shard statistics
// the driver (cmd/vcheck) merges into evidence.
package pbt

import (
	"encoding/binary"
	"encoding/hex"
	"encoding/json"
	"flag"
	"fmt"
	"hash/fnv"
	"os"
	"path/filepath"
	"runtime/debug"
	"sort"
	"strconv"
	"strings"
	"sync"
	"testing"
	"time"

	"pgregory.net/rapid"
)

// Hex is a byte slice that marshals as a hex string (readable replay files).
type Hex []byte

// MarshalJSON implements json.Marshaler.
func (h Hex) MarshalJSON() ([]byte, error) { return json.Marshal(hex.EncodeToString(h)) }

// UnmarshalJSON implements json.Unmarshaler.
func (h *Hex) UnmarshalJSON(b []byte) error {
	var s string
	if err := json.Unmarshal(b, &s); err != nil {
		return err
	}
	d, err := hex.DecodeString(s)
	if err != nil {
		return err
	}
	*h = d
	return nil
}

// Ctx collects what one case contributes to the evidence.
type Ctx struct {
	labels     []string
	nontrivial bool
	key        []byte
	known      map[string]int
	discard    string
	after      []func() error
}

// After registers an invariant that is evaluated once the check function has returned nil
// (e.g. "the canaries of the object built at the top of the check are intact"); an error it
// returns is the case's error.
func (c *Ctx) After(f func() error) { c.after = append(c.after, f) }

// Label adds a classification label to the case (histogram in evidence).
func (c *Ctx) Label(s string) { c.labels = append(c.labels, s) }

// Labelf is Label with formatting.
func (c *Ctx) Labelf(f string, a ...any) { c.labels = append(c.labels, fmt.Sprintf(f, a...)) }

// NonTrivial marks the case as non-trivial by the property's stated rule.
func (c *Ctx) NonTrivial() { c.nontrivial = true }

// Key sets the bytes that identify the case for the distinct count. If unset
// the JSON of the case is used.
func (c *Ctx) Key(parts ...[]byte) {
	c.key = c.key[:0]
	for _, p := range parts {
		var l [4]byte
		binary.LittleEndian.PutUint32(l[:], uint32(len(p)))
		c.key = append(c.key, l[:]...)
		c.key = append(c.key, p...)
	}
}

// Discard marks the case as discarded (over budget etc.); counted, not a pass
// with content.
func (c *Ctx) Discard(why string) { c.discard = why }

// Known reports whether finding id is listed under findings[] in
// known_findings.json. If it is, the hit is counted and the caller must treat
// the failure as excluded (return nil); otherwise the caller reports it.
func (c *Ctx) Known(id string) bool {
	loadKnown()
	if _, ok := knownIDs[id]; !ok {
		return false
	}
	if c.known == nil {
		c.known = map[string]int{}
	}
	c.known[id]++
	return true
}

// KnownHits returns how often Known(id) returned true for this case.
func (c *Ctx) KnownHits(id string) int { return c.known[id] }

// Sub is one executable sub-check of a property.
type Sub[C any] struct {
	Name     string
	Quick    int // total generated cases over all shards, quick tier
	Thorough int // same, thorough tier
	Gen      func(t *rapid.T) C
	Check    func(ctx *Ctx, c C) error
	// Enum, if set, enumerates a finite sub-space completely (sharded by index).
	// EnumThoroughOnly restricts it to the thorough tier. EnumDesc goes to evidence.
	Enum             func(tier string, yield func(C))
	EnumDesc         string
	EnumThoroughOnly bool
	// Precommit writes every case to disk before it runs so that a process
	// death (fatal error, os.Exit inside the library) can be attributed.
	Precommit bool
}

type subStats struct {
	Evaluations int64            `json:"evaluations"`
	NonTrivial  int64            `json:"nontrivial"`
	Enumerated  int64            `json:"enumerated"`
	Discards    map[string]int64 `json:"discards,omitempty"`
	Labels      map[string]int64 `json:"labels,omitempty"`
	Known       map[string]int64 `json:"known,omitempty"`
	Samples     []json.RawMessage `json:"samples,omitempty"`
	NTSamples   []json.RawMessage `json:"nontrivial_samples,omitempty"`
	Requested   int64            `json:"requested"`
	EnumDesc    string           `json:"enum_desc,omitempty"`
	EnumDone    bool             `json:"enum_done,omitempty"`
	Saturated   bool             `json:"hashes_saturated,omitempty"`
	Extra       map[string]any   `json:"extra,omitempty"`
}

var (
	mu       sync.Mutex
	stats    = map[string]*subStats{}
	hashes   = map[uint64]struct{}{}
	maxHash  = 3_000_000
	property = os.Getenv("VERIF_PROP")
	tier     = envOr("VERIF_TIER", "quick")
	shard    = envInt("VERIF_SHARD", 0)
	shards   = envInt("VERIF_SHARDS", 1)
	outDir   = envOr("VERIF_OUT", "")
	replay   = os.Getenv("VERIF_REPLAY")
	scale    = envFloat("VERIF_SCALE", 1)
	root     = envOr("VERIF_ROOT", "/verif")

	knownOnce sync.Once
	knownIDs  = map[string]struct{}{}
)

func envOr(k, d string) string {
	if v := os.Getenv(k); v != "" {
		return v
	}
	return d
}
func envInt(k string, d int) int {
	if v, err := strconv.Atoi(os.Getenv(k)); err == nil {
		return v
	}
	return d
}
func envFloat(k string, d float64) float64 {
	if v, err := strconv.ParseFloat(os.Getenv(k), 64); err == nil {
		return v
	}
	return d
}

// Tier returns "quick" or "thorough".
func Tier() string { return tier }

// Thorough reports whether the thorough tier is running.
func Thorough() bool { return tier == "thorough" }

// Shard returns this process's shard index and the shard count.
func Shard() (int, int) { return shard, shards }

// Root is the /verif directory.
func Root() string { return root }

// Replaying reports whether the process was started to replay one saved case.
func Replaying() bool { return replay != "" }

func loadKnown() {
	knownOnce.Do(func() {
		b, err := os.ReadFile(filepath.Join(root, "known_findings.json"))
		if err != nil {
			return
		}
		var kf struct {
			Findings []struct {
				ID string `json:"id"`
			} `json:"findings"`
		}
		if json.Unmarshal(b, &kf) == nil {
			for _, f := range kf.Findings {
				knownIDs[f.ID] = struct{}{}
			}
		}
	})
}

func getStats(name string) *subStats {
	s := stats[name]
	if s == nil {
		s = &subStats{Labels: map[string]int64{}, Known: map[string]int64{}, Discards: map[string]int64{}}
		stats[name] = s
	}
	return s
}

// SetExtra attaches a free-form value to a sub's statistics (merged by the
// driver: numbers are summed, other values kept from the first shard).
func SetExtra(sub, key string, v any) {
	mu.Lock()
	defer mu.Unlock()
	s := getStats(sub)
	if s.Extra == nil {
		s.Extra = map[string]any{}
	}
	s.Extra[key] = v
}

// ReplayFile is the on-disk form of a case.
type ReplayFile struct {
	Property string          `json:"property"`
	Sub      string          `json:"sub"`
	Error    string          `json:"error,omitempty"`
	Case     json.RawMessage `json:"case"`
}

func writeCaseFile(path, sub string, c any, errText string) {
	if outDir == "" {
		return
	}
	cb, err := json.Marshal(c)
	if err != nil {
		cb = []byte(`"unmarshalable case"`)
	}
	b, _ := json.MarshalIndent(ReplayFile{Property: property, Sub: sub, Error: errText, Case: cb}, "", " ")
	tmp := path + ".tmp"
	if os.WriteFile(tmp, b, 0o644) == nil {
		_ = os.Rename(tmp, path)
	}
}

var (
	curFile *os.File
	curBuf  []byte
)

// precommit records the case about to run with a single pwrite: 8-byte
// little-endian length followed by the replay JSON (the driver decodes it when
// the process dies without reporting a failure).
func precommit(path, sub string, c any) {
	if curFile == nil {
		f, err := os.OpenFile(path, os.O_CREATE|os.O_RDWR|os.O_TRUNC, 0o644)
		if err != nil {
			return
		}
		curFile = f
	}
	cb, err := json.Marshal(c)
	if err != nil {
		return
	}
	b, _ := json.Marshal(ReplayFile{Property: property, Sub: sub, Case: cb})
	curBuf = append(curBuf[:0], 0, 0, 0, 0, 0, 0, 0, 0)
	binary.LittleEndian.PutUint64(curBuf, uint64(len(b)))
	curBuf = append(curBuf, b...)
	_, _ = curFile.WriteAt(curBuf, 0)
}

func safeCheck[C any](f func(*Ctx, C) error, ctx *Ctx, c C) (err error) {
	defer func() {
		if x := recover(); x != nil {
			err = fmt.Errorf("panic: %v\n%s", x, trimStack(debug.Stack()))
		}
	}()
	if err = f(ctx, c); err != nil {
		return err
	}
	for _, a := range ctx.after {
		if err = a(); err != nil {
			return err
		}
	}
	return nil
}

func trimStack(b []byte) string {
	lines := strings.Split(string(b), "\n")
	if len(lines) > 40 {
		lines = lines[:40]
	}
	return strings.Join(lines, "\n")
}

func commit[C any](name string, ctx *Ctx, c C, enumerated bool) {
	mu.Lock()
	defer mu.Unlock()
	s := getStats(name)
	s.Evaluations++
	if enumerated {
		s.Enumerated++
	}
	for k, v := range ctx.known {
		s.Known[k] += int64(v)
	}
	if ctx.discard != "" {
		s.Discards[ctx.discard]++
		return
	}
	for _, l := range ctx.labels {
		s.Labels[l]++
	}
	var cj []byte
	needSample := len(s.Samples) < 3 || (ctx.nontrivial && len(s.NTSamples) < 4)
	if needSample || (ctx.nontrivial && ctx.key == nil) {
		cj, _ = json.Marshal(c)
	}
	if ctx.nontrivial {
		s.NonTrivial++
		if len(hashes) < maxHash {
			h := fnv.New64a()
			h.Write([]byte(name))
			if ctx.key != nil {
				h.Write(ctx.key)
			} else {
				h.Write(cj)
			}
			hashes[h.Sum64()] = struct{}{}
		} else {
			s.Saturated = true
		}
		if len(s.NTSamples) < 4 && len(cj) < 6000 {
			s.NTSamples = append(s.NTSamples, cj)
		}
	} else if len(s.Samples) < 3 && len(cj) < 6000 {
		s.Samples = append(s.Samples, cj)
	}
}

// Run executes a Sub according to the process mode (replay / enum+generated).
func Run[C any](t *testing.T, s Sub[C]) {
	t.Helper()
	if replay != "" {
		runReplay(t, s)
		return
	}
	if only := os.Getenv("VERIF_SUB"); only != "" && only != s.Name {
		return
	}
	curPath := ""
	failPath := ""
	if outDir != "" {
		curPath = filepath.Join(outDir, fmt.Sprintf("current-%d.bin", shard))
		failPath = filepath.Join(outDir, fmt.Sprintf("fail-%d-%s.json", shard, s.Name))
	}
	one := func(c C, enumerated bool) error {
		if s.Precommit && curPath != "" {
			precommit(curPath, s.Name, c)
		}
		ctx := &Ctx{}
		err := safeCheck(s.Check, ctx, c)
		if err != nil {
			if failPath != "" {
				writeCaseFile(failPath, s.Name, c, err.Error())
			}
			return err
		}
		commit(s.Name, ctx, c, enumerated)
		return nil
	}
	if s.Enum != nil && (!s.EnumThoroughOnly || tier == "thorough") {
		i := 0
		var ferr error
		s.Enum(tier, func(c C) {
			if ferr != nil {
				return
			}
			if i%shards == shard {
				ferr = one(c, true)
			}
			i++
		})
		mu.Lock()
		st := getStats(s.Name)
		st.EnumDesc = s.EnumDesc
		st.EnumDone = ferr == nil
		mu.Unlock()
		if ferr != nil {
			t.Fatalf("[enum %s] %v", s.Name, ferr)
		}
	}
	if s.Gen == nil {
		return
	}
	total := s.Quick
	if tier == "thorough" {
		total = s.Thorough
	}
	n := int(float64(total)*scale) / shards
	if n < 1 {
		n = 1
	}
	mu.Lock()
	getStats(s.Name).Requested += int64(n)
	mu.Unlock()
	_ = flag.Set("rapid.checks", strconv.Itoa(n))
	_ = flag.Set("rapid.nofailfile", "true")
	rapid.Check(t, func(rt *rapid.T) {
		c := s.Gen(rt)
		if err := one(c, false); err != nil {
			rt.Fatalf("%v", err)
		}
	})
}

func runReplay[C any](t *testing.T, s Sub[C]) {
	b, err := os.ReadFile(replay)
	if err != nil {
		fmt.Printf("REPLAY-ERROR cannot read %s: %v\n", replay, err)
		os.Exit(2)
	}
	var rf ReplayFile
	if err := json.Unmarshal(b, &rf); err != nil {
		fmt.Printf("REPLAY-ERROR cannot parse %s: %v\n", replay, err)
		os.Exit(2)
	}
	if rf.Sub != s.Name {
		return
	}
	var c C
	if err := json.Unmarshal(rf.Case, &c); err != nil {
		fmt.Printf("REPLAY-ERROR cannot decode case in %s: %v\n", replay, err)
		os.Exit(2)
	}
	ctx := &Ctx{}
	err = safeCheck(s.Check, ctx, c)
	replayMatched = true
	if err != nil {
		fmt.Printf("REPLAY-FAIL sub=%s: %v\n", s.Name, err)
		t.Fail()
		return
	}
	ids := make([]string, 0, len(ctx.known))
	for k := range ctx.known {
		ids = append(ids, k)
	}
	sort.Strings(ids)
	for _, k := range ids {
		fmt.Printf("REPLAY-KNOWN %s\n", k)
	}
	fmt.Printf("REPLAY-PASS sub=%s\n", s.Name)
}

var replayMatched bool

// Main is called from TestMain of every property package.
func Main(m *testing.M) {
	start := time.Now()
	debug.SetGCPercent(400)
	code := m.Run()
	if replay != "" {
		if !replayMatched && code == 0 {
			fmt.Printf("REPLAY-ERROR no sub-check matched %s\n", replay)
			code = 2
		}
		os.Exit(code)
	}
	if outDir != "" {
		mu.Lock()
		out := struct {
			Shard  int                  `json:"shard"`
			Wall   float64              `json:"wall_s"`
			Exit   int                  `json:"exit"`
			Subs   map[string]*subStats `json:"subs"`
			NHash  int                  `json:"nhash"`
		}{shard, time.Since(start).Seconds(), code, stats, len(hashes)}
		b, _ := json.Marshal(out)
		_ = os.WriteFile(filepath.Join(outDir, fmt.Sprintf("stats-%d.json", shard)), b, 0o644)
		hb := make([]byte, 0, 8*len(hashes))
		for h := range hashes {
			hb = binary.LittleEndian.AppendUint64(hb, h)
		}
		_ = os.WriteFile(filepath.Join(outDir, fmt.Sprintf("hashes-%d.bin", shard)), hb, 0o644)
		mu.Unlock()
	}
	os.Exit(code)
}

var fuzzFailN int

// FuzzCheck runs one case of a native fuzz target through the same path as a generated case
// (panics recovered, After invariants evaluated). A failure is written as a replay file into
// $VERIF_FUZZ_OUT (the driver copies it under replays/<ID>/) and fails the fuzz run. A discarded
// case is skipped.
func FuzzCheck[C any](t *testing.T, prop, sub string, f func(*Ctx, C) error, c C) {
	ctx := &Ctx{}
	err := safeCheck(f, ctx, c)
	if err == nil {
		return
	}
	if dir := os.Getenv("VERIF_FUZZ_OUT"); dir != "" {
		fuzzFailN++
		cb, _ := json.Marshal(c)
		b, _ := json.MarshalIndent(ReplayFile{Property: prop, Sub: sub, Error: err.Error(), Case: cb}, "", " ")
		_ = os.WriteFile(filepath.Join(dir, fmt.Sprintf("fuzzfail-%d-%d.json", os.Getpid(), fuzzFailN)), b, 0o644)
	}
	t.Fatalf("%v", err)
}

// FuzzSub drives a sub-check's own generator with Go's native coverage-guided fuzzer
// (rapid.MakeFuzz turns the fuzzer's byte string into the generator's choices), through the same
// path as a generated case. It is the thorough tier's way to let coverage feedback steer the
// structured generators; failures are written as replay files of that sub-check.
func FuzzSub[C any](f *testing.F, prop string, s Sub[C]) {
	// starting corpus: fixed pseudo-random byte strings long enough for the generator to draw a
	// complete case from (an empty corpus makes the fuzzer grow its inputs from nothing, and a
	// generator that runs out of bytes rejects the input)
	for k := uint64(1); k <= 24; k++ {
		b := make([]byte, 512<<(k%6))
		x := k*0x9E3779B97F4A7C15 + 1
		for i := range b {
			x ^= x << 13
			x ^= x >> 7
			x ^= x << 17
			b[i] = byte(x >> 24)
			if k%3 == 0 && i%5 != 0 {
				b[i] = 0 // sparse inputs: rapid reads small values, i.e. the generators' first alternatives
			}
		}
		f.Add(b)
	}
	f.Fuzz(rapid.MakeFuzz(func(t *rapid.T) {
		c := s.Gen(t)
		ctx := &Ctx{}
		err := safeCheck(s.Check, ctx, c)
		if err == nil {
			return
		}
		if dir := os.Getenv("VERIF_FUZZ_OUT"); dir != "" {
			fuzzFailN++
			cb, _ := json.Marshal(c)
			b, _ := json.MarshalIndent(ReplayFile{Property: prop, Sub: s.Name, Error: err.Error(), Case: cb}, "", " ")
			_ = os.WriteFile(filepath.Join(dir, fmt.Sprintf("fuzzfail-%d-%d.json", os.Getpid(), fuzzFailN)), b, 0o644)
		}
		t.Fatalf("%v", err)
	}))
}
