package interp

import (
	"encoding/hex"
	"encoding/json"
	"fmt"
	"math/big"
	"os"
	"path/filepath"
	"strconv"
	"strings"

	"verif/harness/pbt"
	"verif/harness/ref"
)

// OpNames maps the short opcode names used by the node's script_tests.json.
var OpNames = map[string]byte{
	"0": 0x00, "FALSE": 0x00, "PUSHDATA1": 0x4c, "PUSHDATA2": 0x4d, "PUSHDATA4": 0x4e, "1NEGATE": 0x4f,
	"RESERVED": 0x50, "TRUE": 0x51,
	"NOP": 0x61, "VER": 0x62, "IF": 0x63, "NOTIF": 0x64, "VERIF": 0x65, "VERNOTIF": 0x66, "ELSE": 0x67, "ENDIF": 0x68,
	"VERIFY": 0x69, "RETURN": 0x6a, "TOALTSTACK": 0x6b, "FROMALTSTACK": 0x6c, "2DROP": 0x6d, "2DUP": 0x6e, "3DUP": 0x6f,
	"2OVER": 0x70, "2ROT": 0x71, "2SWAP": 0x72, "IFDUP": 0x73, "DEPTH": 0x74, "DROP": 0x75, "DUP": 0x76, "NIP": 0x77,
	"OVER": 0x78, "PICK": 0x79, "ROLL": 0x7a, "ROT": 0x7b, "SWAP": 0x7c, "TUCK": 0x7d,
	"CAT": 0x7e, "SPLIT": 0x7f, "NUM2BIN": 0x80, "BIN2NUM": 0x81, "SIZE": 0x82,
	"INVERT": 0x83, "AND": 0x84, "OR": 0x85, "XOR": 0x86, "EQUAL": 0x87, "EQUALVERIFY": 0x88, "RESERVED1": 0x89, "RESERVED2": 0x8a,
	"1ADD": 0x8b, "1SUB": 0x8c, "2MUL": 0x8d, "2DIV": 0x8e, "NEGATE": 0x8f, "ABS": 0x90, "NOT": 0x91, "0NOTEQUAL": 0x92,
	"ADD": 0x93, "SUB": 0x94, "MUL": 0x95, "DIV": 0x96, "MOD": 0x97, "LSHIFT": 0x98, "RSHIFT": 0x99,
	"BOOLAND": 0x9a, "BOOLOR": 0x9b, "NUMEQUAL": 0x9c, "NUMEQUALVERIFY": 0x9d, "NUMNOTEQUAL": 0x9e, "LESSTHAN": 0x9f,
	"GREATERTHAN": 0xa0, "LESSTHANOREQUAL": 0xa1, "GREATERTHANOREQUAL": 0xa2, "MIN": 0xa3, "MAX": 0xa4, "WITHIN": 0xa5,
	"RIPEMD160": 0xa6, "SHA1": 0xa7, "SHA256": 0xa8, "HASH160": 0xa9, "HASH256": 0xaa, "CODESEPARATOR": 0xab,
	"CHECKSIG": 0xac, "CHECKSIGVERIFY": 0xad, "CHECKMULTISIG": 0xae, "CHECKMULTISIGVERIFY": 0xaf,
	"NOP1": 0xb0, "CHECKLOCKTIMEVERIFY": 0xb1, "NOP2": 0xb1, "CHECKSEQUENCEVERIFY": 0xb2, "NOP3": 0xb2,
	"NOP4": 0xb3, "NOP5": 0xb4, "NOP6": 0xb5, "NOP7": 0xb6, "NOP8": 0xb7, "NOP9": 0xb8, "NOP10": 0xb9,
	"INVALIDOPCODE": 0xff,
}

// ParseShortForm converts the node's test notation into script bytes.
func ParseShortForm(s string) ([]byte, error) {
	s = strings.NewReplacer("\n", " ", "\t", " ").Replace(s)
	var out []byte
	for _, tok := range strings.Split(s, " ") {
		if tok == "" {
			continue
		}
		if n, err := strconv.ParseInt(tok, 10, 64); err == nil {
			switch {
			case n == 0:
				out = append(out, 0x00)
			case n == -1 || (n >= 1 && n <= 16):
				out = append(out, byte(0x50+n))
			default:
				out = append(out, PushEncode(EncodeNum(big.NewInt(n)))...)
			}
			continue
		}
		if strings.HasPrefix(tok, "0x") {
			b, err := hex.DecodeString(tok[2:])
			if err != nil {
				return nil, fmt.Errorf("bad hex token %q", tok)
			}
			out = append(out, b...)
			continue
		}
		if len(tok) >= 2 && tok[0] == '\'' && tok[len(tok)-1] == '\'' {
			out = append(out, PushEncode([]byte(tok[1:len(tok)-1]))...)
			continue
		}
		name := strings.TrimPrefix(tok, "OP_")
		if v, ok := OpNames[name]; ok {
			out = append(out, v)
			continue
		}
		return nil, fmt.Errorf("bad token %q", tok)
	}
	return out, nil
}

// ParseFlags converts the node's flag list.
func ParseFlags(s string) (Flags, error) {
	var f Flags
	for _, n := range strings.Split(s, ",") {
		switch n {
		case "", "NONE":
		case "P2SH":
			f |= FlagP2SH
		case "STRICTENC":
			f |= FlagStrictEnc
		case "DERSIG":
			f |= FlagDERSig
		case "LOW_S":
			f |= FlagLowS
		case "NULLDUMMY":
			f |= FlagNullDummy
		case "SIGPUSHONLY":
			f |= FlagSigPushOnly
		case "MINIMALDATA":
			f |= FlagMinimalData
		case "DISCOURAGE_UPGRADABLE_NOPS":
			f |= FlagDiscourageNops
		case "CLEANSTACK":
			f |= FlagCleanStack
		case "CHECKLOCKTIMEVERIFY":
			f |= FlagCLTV
		case "CHECKSEQUENCEVERIFY":
			f |= FlagCSV
		case "NULLFAIL":
			f |= FlagNullFail
		case "MINIMALIF":
			f |= FlagMinimalIf
		case "SIGHASH_FORKID":
			f |= FlagForkID
		case "UTXO_AFTER_GENESIS":
			f |= FlagAfterGenesis
		default:
			return 0, fmt.Errorf("unknown flag %q", n)
		}
	}
	return f, nil
}

// Vector is one entry of script_tests.json.
type Vector struct {
	Unlock, Lock []byte
	Flags        Flags
	Expected     string
	Amount       uint64
	Comment      string
}

// RepoDir is the go-bt tree under test.
func RepoDir() string {
	if v := os.Getenv("VERIF_REPO"); v != "" {
		return v
	}
	return "/repo"
}

// LoadVectors reads the node's script vectors shipped with go-bt.
func LoadVectors() ([]Vector, error) {
	b, err := os.ReadFile(filepath.Join(RepoDir(), "bscript", "interpreter", "data", "script_tests.json"))
	if err != nil {
		return nil, err
	}
	var raw [][]any
	if err := json.Unmarshal(b, &raw); err != nil {
		return nil, err
	}
	var out []Vector
	for _, t := range raw {
		if len(t) == 1 {
			continue
		}
		var v Vector
		if a, ok := t[0].([]any); ok {
			if f, ok := a[len(a)-1].(float64); ok {
				v.Amount = uint64(f*1e8 + 0.5)
			}
			t = t[1:]
		}
		if len(t) < 4 {
			return nil, fmt.Errorf("short vector %v", t)
		}
		us, _ := t[0].(string)
		ls, _ := t[1].(string)
		fs, _ := t[2].(string)
		v.Expected, _ = t[3].(string)
		if len(t) > 4 {
			v.Comment, _ = t[4].(string)
		}
		if v.Unlock, err = ParseShortForm(us); err != nil {
			return nil, err
		}
		if v.Lock, err = ParseShortForm(ls); err != nil {
			return nil, err
		}
		if v.Flags, err = ParseFlags(fs); err != nil {
			return nil, err
		}
		out = append(out, v)
	}
	return out, nil
}

// SpendingTx builds the synthetic crediting/spending pair the node's script
// tests use and returns the spending transaction (one input, one output).
func SpendingTx(unlock, lock []byte, amount uint64) ref.Tx {
	credit := ref.Tx{Version: 1,
		In:  []ref.In{{TxID: make(pbt.Hex, 32), Vout: 0xffffffff, Unlock: pbt.Hex{0x00, 0x00}, Seq: 0xffffffff}},
		Out: []ref.Out{{Sats: amount, Script: lock}}}
	id := ref.Reverse(ref.Sha256d(ref.Encode(credit, false)))
	return ref.Tx{Version: 1,
		In:  []ref.In{{TxID: id, Vout: 0, Unlock: unlock, Seq: 0xffffffff, PrevSats: amount, PrevScript: lock}},
		Out: []ref.Out{{Sats: amount, Script: pbt.Hex{}}}}
}

// equivalent error names (the node file uses a few aliases)
func sameErr(got, want string) bool {
	if got == want {
		return true
	}
	alias := map[string][]string{
		"SCRIPTNUM_OVERFLOW":      {"NUMBER_SIZE", "INVALID_NUMBER_RANGE"},
		"INVALID_NUMBER_RANGE":    {"SCRIPTNUM_OVERFLOW", "NUMBER_SIZE"},
		"SPLIT_RANGE":             {"INVALID_SPLIT_RANGE"},
		"OPERAND_SIZE":            {"INVALID_OPERAND_SIZE"},
		"MUST_USE_FORKID":         {"ILLEGAL_FORKID"},
	}
	for _, a := range alias[got] {
		if a == want {
			return true
		}
	}
	return false
}

// Calibration is the outcome of running the reference over the node vectors.
type Calibration struct {
	Vectors      int
	VerdictAgree int
	NameAgree    int
	Mismatches   []string
}

// Calibrate runs the reference interpreter over all node vectors.
func Calibrate() (Calibration, error) {
	vs, err := LoadVectors()
	if err != nil {
		return Calibration{}, err
	}
	var c Calibration
	for i, v := range vs {
		tx := SpendingTx(v.Unlock, v.Lock, v.Amount)
		r := VerifyScript(v.Unlock, v.Lock, v.Flags, TxChecker{Tx: tx, Idx: 0, Amount: v.Amount}, false, Limits{MaxElem: 64 << 20})
		c.Vectors++
		wantOK := v.Expected == "OK"
		if r.BudgetHit {
			c.Mismatches = append(c.Mismatches, fmt.Sprintf("#%d budget hit (%s)", i, v.Comment))
			continue
		}
		if r.OK == wantOK {
			c.VerdictAgree++
			if wantOK || sameErr(r.Err, v.Expected) {
				c.NameAgree++
			} else {
				c.Mismatches = append(c.Mismatches, fmt.Sprintf("#%d name: got %s want %s | %x | %x | flags %x (%s)", i, r.Err, v.Expected, v.Unlock, v.Lock, v.Flags, v.Comment))
			}
		} else {
			c.Mismatches = append(c.Mismatches, fmt.Sprintf("#%d VERDICT: got ok=%v err=%s want %s | %x | %x | flags %x (%s)", i, r.OK, r.Err, v.Expected, v.Unlock, v.Lock, v.Flags, v.Comment))
		}
	}
	// multi-input ground truth: every input of every tx_valid.json transaction must verify
	n, ok, bad, err := CalibrateTxValid()
	if err != nil {
		return c, err
	}
	c.Vectors += n
	c.VerdictAgree += ok
	c.NameAgree += ok
	c.Mismatches = append(c.Mismatches, bad...)
	return c, nil
}

// CalibrateTxValid runs the reference over the node's tx_valid.json: every input
// of every listed transaction must verify against its listed previous output
// under the listed flags (multi-input transactions, all hash types the node
// authors chose, CLTV/CSV contexts). It returns (inputs checked, inputs agreed).
func CalibrateTxValid() (int, int, []string, error) {
	b, err := os.ReadFile(filepath.Join(RepoDir(), "bscript", "interpreter", "data", "tx_valid.json"))
	if err != nil {
		return 0, 0, nil, err
	}
	var raw [][]any
	if err := json.Unmarshal(b, &raw); err != nil {
		return 0, 0, nil, err
	}
	n, ok := 0, 0
	var bad []string
	for ti, t := range raw {
		if len(t) != 3 {
			continue
		}
		ins, _ := t[0].([]any)
		hexTx, _ := t[1].(string)
		flagStr, _ := t[2].(string)
		if ins == nil {
			continue
		}
		txb, err := hex.DecodeString(hexTx)
		if err != nil {
			return n, ok, bad, err
		}
		d, err := ref.Decode(txb)
		if err != nil {
			return n, ok, bad, fmt.Errorf("tx_valid #%d does not decode: %v", ti, err)
		}
		flags, err := ParseFlags(flagStr)
		if err != nil {
			return n, ok, bad, err
		}
		type prev struct {
			script []byte
			amount uint64
		}
		prevs := map[string]prev{}
		for _, x := range ins {
			a, _ := x.([]any)
			if len(a) < 3 {
				continue
			}
			h, _ := a[0].(string)
			idx, _ := a[1].(float64)
			ss, _ := a[2].(string)
			sc, err := ParseShortForm(ss)
			if err != nil {
				return n, ok, bad, err
			}
			var amt uint64
			if len(a) > 3 {
				if f, isF := a[3].(float64); isF {
					amt = uint64(f)
				}
			}
			prevs[fmt.Sprintf("%s:%d", strings.ToLower(h), uint32(int32(idx)))] = prev{sc, amt}
		}
		m := d.Tx
		for i := range m.In {
			p, found := prevs[fmt.Sprintf("%s:%d", hex.EncodeToString(m.In[i].TxID), m.In[i].Vout)]
			if !found {
				return n, ok, bad, fmt.Errorf("tx_valid #%d: no previous output for input %d", ti, i)
			}
			m.In[i].PrevScript, m.In[i].PrevSats = p.script, p.amount
		}
		for i := range m.In {
			n++
			r := VerifyScript(m.In[i].Unlock, m.In[i].PrevScript, flags, TxChecker{Tx: m, Idx: i, Amount: m.In[i].PrevSats}, false, Limits{MaxElem: 64 << 20})
			if r.OK {
				ok++
			} else {
				bad = append(bad, fmt.Sprintf("tx_valid #%d input %d: %s", ti, i, r.Err))
			}
		}
	}
	return n, ok, bad, nil
}
