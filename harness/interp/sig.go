package interp

import (
	"math/big"

	"github.com/libsv/go-bk/bec"

	"verif/harness/ref"
)

var halfOrder = new(big.Int).Rsh(bec.S256().N, 1)

// IsValidSignatureEncoding is the BIP66 strict-DER predicate over sig including
// its trailing hash-type byte.
func IsValidSignatureEncoding(sig []byte) bool {
	if len(sig) < 9 || len(sig) > 73 {
		return false
	}
	if sig[0] != 0x30 {
		return false
	}
	if int(sig[1]) != len(sig)-3 {
		return false
	}
	lenR := int(sig[3])
	if 5+lenR >= len(sig) {
		return false
	}
	lenS := int(sig[5+lenR])
	if lenR+lenS+7 != len(sig) {
		return false
	}
	if sig[2] != 0x02 {
		return false
	}
	if lenR == 0 {
		return false
	}
	if sig[4]&0x80 != 0 {
		return false
	}
	if lenR > 1 && sig[4] == 0x00 && sig[5]&0x80 == 0 {
		return false
	}
	if sig[lenR+4] != 0x02 {
		return false
	}
	if lenS == 0 {
		return false
	}
	if sig[lenR+6]&0x80 != 0 {
		return false
	}
	if lenS > 1 && sig[lenR+6] == 0x00 && sig[lenR+7]&0x80 == 0 {
		return false
	}
	return true
}

// isLowS assumes a valid strict encoding.
func isLowS(sig []byte) bool {
	lenR := int(sig[3])
	lenS := int(sig[5+lenR])
	s := new(big.Int).SetBytes(sig[6+lenR : 6+lenR+lenS])
	return s.Cmp(halfOrder) <= 0
}

func hashTypeDefined(ht byte) bool {
	base := ht &^ (0x40 | 0x80)
	return base >= 1 && base <= 3
}

// checkSignatureEncoding mirrors the node's CheckSignatureEncoding.
func (m *machine) checkSignatureEncoding(sig []byte) error {
	if len(sig) == 0 {
		return nil
	}
	if (m.flags&(FlagDERSig|FlagLowS|FlagStrictEnc)) != 0 && !IsValidSignatureEncoding(sig) {
		return serr("SIG_DER")
	}
	if m.flags.Has(FlagLowS) && !isLowS(sig) {
		return serr("SIG_HIGH_S")
	}
	if m.flags.Has(FlagStrictEnc) {
		ht := sig[len(sig)-1]
		if !hashTypeDefined(ht) {
			return serr("SIG_HASHTYPE")
		}
		uses := ht&0x40 != 0
		enabled := m.flags.Has(FlagForkID)
		if !enabled && uses {
			return serr("ILLEGAL_FORKID")
		}
		if enabled && !uses {
			return serr("MUST_USE_FORKID")
		}
	}
	return nil
}

func isCompressedOrUncompressedPubKey(k []byte) bool {
	if len(k) < 33 {
		return false
	}
	switch k[0] {
	case 0x04:
		return len(k) == 65
	case 0x02, 0x03:
		return len(k) == 33
	}
	return false
}

func (m *machine) checkPubKeyEncoding(k []byte) error {
	if m.flags.Has(FlagStrictEnc) && !isCompressedOrUncompressedPubKey(k) {
		return serr("PUBKEYTYPE")
	}
	return nil
}

// cleanupScriptCode removes the pushed signature on the legacy digest path.
func (m *machine) cleanupScriptCode(code, sig []byte) []byte {
	var ht byte
	if len(sig) > 0 {
		ht = sig[len(sig)-1]
	}
	if !m.flags.Has(FlagForkID) || ht&0x40 == 0 {
		return FindAndDelete(code, PushEncode(sig))
	}
	return code
}

func (m *machine) recordSig(op byte, outcome string) {
	m.sigops = append(m.sigops, SigOp{Step: len(m.trace), Op: op, Outcome: outcome})
}

func (m *machine) opCheckSig(op byte, script []byte, codeStart int) error {
	if len(m.stack) < 2 {
		m.recordSig(op, "error")
		return serr("INVALID_STACK_OPERATION")
	}
	sig, key := m.top(-2), m.top(-1)
	if err := m.checkSignatureEncoding(sig); err != nil {
		m.recordSig(op, "error")
		return err
	}
	if err := m.checkPubKeyEncoding(key); err != nil {
		m.recordSig(op, "error")
		return err
	}
	code := m.cleanupScriptCode(cp(script[codeStart:]), sig)
	ok := m.chk.CheckSig(sig, key, code, m.flags.Has(FlagForkID))
	if !ok && m.flags.Has(FlagNullFail) && len(sig) > 0 {
		m.recordSig(op, "error")
		return serr("NULLFAIL")
	}
	m.pop()
	m.pop()
	m.stack = append(m.stack, boolBytes(ok))
	if ok {
		m.recordSig(op, "true")
	} else {
		m.recordSig(op, "false")
	}
	if op == 0xad {
		if !ok {
			return serr("CHECKSIGVERIFY")
		}
		m.pop()
	}
	return nil
}

func (m *machine) opCheckMultiSig(op byte, script []byte, codeStart int, nOps *int, maxOps int) (err error) {
	outcome := "error"
	defer func() { m.recordSig(op, outcome) }()
	i := 1
	if len(m.stack) < i {
		return serr("INVALID_STACK_OPERATION")
	}
	kn, err := m.num(m.top(-i), 4)
	if err != nil {
		return err
	}
	maxKeys := int64(20)
	if m.genesis {
		maxKeys = 1<<31 - 1
	}
	if kn.Sign() < 0 || kn.Cmp(big.NewInt(maxKeys)) > 0 {
		return serr("PUBKEY_COUNT")
	}
	nKeys := int(kn.Int64())
	*nOps += nKeys
	if *nOps > maxOps {
		return serr("OP_COUNT")
	}
	i++
	ikey := i
	ikey2 := nKeys + 2
	i += nKeys
	if len(m.stack) < i {
		return serr("INVALID_STACK_OPERATION")
	}
	sn, err := m.num(m.top(-i), 4)
	if err != nil {
		return err
	}
	if sn.Sign() < 0 || sn.Cmp(big.NewInt(int64(nKeys))) > 0 {
		return serr("SIG_COUNT")
	}
	nSigs := int(sn.Int64())
	i++
	isig := i
	i += nSigs
	if len(m.stack) < i {
		return serr("INVALID_STACK_OPERATION")
	}
	code := cp(script[codeStart:])
	for k := 0; k < nSigs; k++ {
		code = m.cleanupScriptCode(code, m.top(-isig-k))
	}
	success := true
	for success && nSigs > 0 {
		sig, key := m.top(-isig), m.top(-ikey)
		if err := m.checkSignatureEncoding(sig); err != nil {
			return err
		}
		if err := m.checkPubKeyEncoding(key); err != nil {
			return err
		}
		if m.chk.CheckSig(sig, key, code, m.flags.Has(FlagForkID)) {
			isig++
			nSigs--
		}
		ikey++
		nKeys--
		if nSigs > nKeys {
			success = false
		}
	}
	for ; i > 1; i-- {
		if !success && m.flags.Has(FlagNullFail) && ikey2 == 0 && len(m.top(-1)) > 0 {
			return serr("NULLFAIL")
		}
		if ikey2 > 0 {
			ikey2--
		}
		m.pop()
	}
	if len(m.stack) < 1 {
		return serr("INVALID_STACK_OPERATION")
	}
	if m.flags.Has(FlagNullDummy) && len(m.top(-1)) > 0 {
		return serr("SIG_NULLDUMMY")
	}
	m.pop()
	m.stack = append(m.stack, boolBytes(success))
	if success {
		outcome = "true"
	} else {
		outcome = "false"
	}
	if op == 0xaf {
		if !success {
			return serr("CHECKMULTISIGVERIFY")
		}
		m.pop()
	}
	return nil
}

// TxChecker implements Checker for input Idx of Tx spending Amount.
type TxChecker struct {
	Tx     ref.Tx
	Idx    int
	Amount uint64
	// BitSelectsDigest models go-bt's recorded deviation L16 (used only to
	// recognise that finding, never as the oracle): the FORKID bit of the hash
	// type alone selects the replay-protected digest, even without the flag.
	BitSelectsDigest bool
}

// SigDigest returns the digest the node would verify sig against.
func (c TxChecker) SigDigest(hashType byte, scriptCode []byte, forkIDEnabled bool) []byte {
	if forkIDEnabled && hashType&0x40 != 0 {
		_, d := ref.SigHashForkID(c.Tx, c.Idx, scriptCode, c.Amount, uint32(hashType))
		return d
	}
	if c.BitSelectsDigest && hashType&0x40 != 0 {
		_, d := ref.SigHashForkID(c.Tx, c.Idx, StripCodeSeparators(scriptCode), c.Amount, uint32(hashType))
		return d
	}
	_, d := ref.SigHashLegacy(c.Tx, c.Idx, scriptCode, uint32(hashType), true)
	return d
}

// CheckSig verifies an ECDSA signature the way the node's checker does: the
// key must parse (compressed, uncompressed or hybrid), the DER is parsed
// leniently, high S is accepted.
func (c TxChecker) CheckSig(sig, pubkey, scriptCode []byte, forkIDEnabled bool) bool {
	if len(sig) == 0 {
		return false
	}
	pk, err := bec.ParsePubKey(pubkey, bec.S256())
	if err != nil {
		return false
	}
	ht := sig[len(sig)-1]
	s, err := bec.ParseSignature(sig[:len(sig)-1], bec.S256())
	if err != nil {
		return false
	}
	return s.Verify(c.SigDigest(ht, scriptCode, forkIDEnabled), pk)
}

// CheckLockTime mirrors TransactionSignatureChecker::CheckLockTime.
func (c TxChecker) CheckLockTime(n *big.Int) bool {
	const threshold = 500000000
	txLock := int64(c.Tx.LockTime)
	if !n.IsInt64() {
		return false
	}
	v := n.Int64()
	if !((txLock < threshold && v < threshold) || (txLock >= threshold && v >= threshold)) {
		return false
	}
	if v > txLock {
		return false
	}
	if c.Tx.In[c.Idx].Seq == 0xffffffff {
		return false
	}
	return true
}

// CheckSequence mirrors TransactionSignatureChecker::CheckSequence.
func (c TxChecker) CheckSequence(n *big.Int) bool {
	const (
		disable  = int64(1) << 31
		typeFlag = int64(1) << 22
		mask     = int64(0x0000ffff)
	)
	if !n.IsInt64() {
		return false
	}
	txSeq := int64(c.Tx.In[c.Idx].Seq)
	if c.Tx.Version < 2 {
		return false
	}
	if txSeq&disable != 0 {
		return false
	}
	lockMask := typeFlag | mask
	a := txSeq & lockMask
	b := n.Int64() & lockMask
	if !((a < typeFlag && b < typeFlag) || (a >= typeFlag && b >= typeFlag)) {
		return false
	}
	return b <= a
}
