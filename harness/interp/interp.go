package interp

// Reference script interpreter, written from the Bitcoin SV node's
// VerifyScript/EvalScript rules (not from go-bt). It walks the script bytes
// with a GetOp-style reader, keeps stacks of always-fresh copies and uses
// math/big numbers with its own encode/decode/minimality functions.
// It is calibrated against bscript/interpreter/data/script_tests.json before it
// is allowed to judge the library (see props/*/calibrate).

import (
	"bytes"
	"crypto/sha1" //nolint:gosec // OP_SHA1
	"crypto/sha256"
	"fmt"
	"math/big"

	"golang.org/x/crypto/ripemd160" //nolint:staticcheck // OP_RIPEMD160
)

// Flags mirrors the numeric values of go-bt's scriptflag.Flag (checked by a test).
type Flags uint32

// Script verification flags.
const (
	FlagP2SH Flags = 1 << iota
	FlagNullDummy
	FlagDiscourageNops
	FlagCLTV
	FlagCSV
	FlagCleanStack
	FlagDERSig
	FlagLowS
	FlagMinimalData
	FlagNullFail
	FlagSigPushOnly
	FlagForkID
	FlagStrictEnc
	FlagBip143 // library-only flag, no meaning in the BSV rules
	FlagAfterGenesis
	FlagMinimalIf
)

// Has reports whether all bits of g are set.
func (f Flags) Has(g Flags) bool { return f&g == g }

// Checker supplies the transaction-dependent predicates.
type Checker interface {
	// CheckSig verifies sig (with hash type byte) by pubkey over scriptCode.
	CheckSig(sig, pubkey, scriptCode []byte, forkIDEnabled bool) bool
	CheckLockTime(n *big.Int) bool
	CheckSequence(n *big.Int) bool
}

// NoTx is the checker used when no transaction context exists.
type NoTx struct{}

// CheckSig always fails without a transaction.
func (NoTx) CheckSig(_, _, _ []byte, _ bool) bool { return false }

// CheckLockTime always fails without a transaction.
func (NoTx) CheckLockTime(*big.Int) bool { return false }

// CheckSequence always fails without a transaction.
func (NoTx) CheckSequence(*big.Int) bool { return false }

// Snapshot is the state after one instruction.
type Snapshot struct {
	Script   int      // 0 unlocking, 1 locking, 2 redeem
	Offset   int      // byte offset of the instruction
	Op       byte     // opcode byte
	Executed bool     // false when skipped inside a non-executing branch
	Stack    [][]byte // bottom first
	Alt      [][]byte
	Cond     []bool // one entry per open conditional (the node's vfExec), outermost first
	Else     []bool // whether that conditional has seen its OP_ELSE (vfElse)
}

// SigOp records the three-valued outcome of a signature opcode.
type SigOp struct {
	Step    int
	Op      byte
	Outcome string // "true", "false", "error"
}

// Result of VerifyScript.
type Result struct {
	OK     bool
	Err    string // error class (node-style name), "" when OK
	Trace  []Snapshot
	SigOps []SigOp
	// BudgetHit is set when the evaluation was abandoned because an operand or
	// result exceeded the harness budget (not a verdict).
	BudgetHit bool
}

// Limits bounds what the reference will compute (harness budget, not consensus).
type Limits struct {
	MaxElem int // maximum element size produced (bytes)
}

// DefaultLimits is generous for generated programs.
var DefaultLimits = Limits{MaxElem: 1 << 20}

type scriptErr struct{ code string }

func (e *scriptErr) Error() string { return e.code }

func serr(code string) error { return &scriptErr{code} }

type budgetErr struct{}

func (budgetErr) Error() string { return "budget" }

// ---------------------------------------------------------------------------
// numbers

// DecodeNum decodes a little-endian sign-magnitude script number.
func DecodeNum(b []byte) *big.Int {
	if len(b) == 0 {
		return new(big.Int)
	}
	be := make([]byte, len(b))
	for i := range b {
		be[len(b)-1-i] = b[i]
	}
	neg := be[0]&0x80 != 0
	be[0] &= 0x7f
	n := new(big.Int).SetBytes(be)
	if neg {
		n.Neg(n)
	}
	return n
}

// EncodeNum encodes minimally.
func EncodeNum(n *big.Int) []byte {
	if n.Sign() == 0 {
		return []byte{}
	}
	abs := new(big.Int).Abs(n)
	be := abs.Bytes()
	le := make([]byte, len(be), len(be)+1)
	for i := range be {
		le[len(be)-1-i] = be[i]
	}
	if le[len(le)-1]&0x80 != 0 {
		if n.Sign() < 0 {
			le = append(le, 0x80)
		} else {
			le = append(le, 0x00)
		}
	} else if n.Sign() < 0 {
		le[len(le)-1] |= 0x80
	}
	return le
}

// IsMinimalNum reports whether b is the shortest encoding of its value.
func IsMinimalNum(b []byte) bool {
	if len(b) == 0 {
		return true
	}
	if b[len(b)-1]&0x7f == 0 {
		if len(b) == 1 || b[len(b)-2]&0x80 == 0 {
			return false
		}
	}
	return true
}

// MinimallyEncode returns the minimal encoding of the number b represents.
func MinimallyEncode(b []byte) []byte {
	if len(b) == 0 {
		return []byte{}
	}
	out := append([]byte{}, b...)
	last := out[len(out)-1]
	if last&0x7f != 0 {
		return out
	}
	if len(out) == 1 {
		return []byte{}
	}
	if out[len(out)-2]&0x80 != 0 {
		return out
	}
	for i := len(out) - 1; i > 0; i-- {
		if out[i-1] != 0 {
			if out[i-1]&0x80 != 0 {
				out[i] = last
				return out[:i+1]
			}
			out[i-1] |= last
			return out[:i]
		}
	}
	return []byte{}
}

// CastToBool is the script truthiness of a stack item.
func CastToBool(b []byte) bool {
	for i, c := range b {
		if c != 0 {
			if i == len(b)-1 && c == 0x80 {
				return false
			}
			return true
		}
	}
	return false
}

// ---------------------------------------------------------------------------
// script reader

// GetOp reads one instruction at pc. ok=false means a truncated push.
func GetOp(s []byte, pc int) (op byte, data []byte, next int, ok bool) {
	if pc >= len(s) {
		return 0, nil, pc, false
	}
	op = s[pc]
	pc++
	if op > 0x4e {
		return op, nil, pc, true
	}
	var n int
	switch {
	case op < 0x4c:
		n = int(op)
	case op == 0x4c:
		if len(s)-pc < 1 {
			return op, nil, pc, false
		}
		n = int(s[pc])
		pc++
	case op == 0x4d:
		if len(s)-pc < 2 {
			return op, nil, pc, false
		}
		n = int(s[pc]) | int(s[pc+1])<<8
		pc += 2
	default:
		if len(s)-pc < 4 {
			return op, nil, pc, false
		}
		n = int(uint32(s[pc]) | uint32(s[pc+1])<<8 | uint32(s[pc+2])<<16 | uint32(s[pc+3])<<24)
		pc += 4
	}
	if n < 0 || len(s)-pc < n {
		return op, nil, pc, false
	}
	return op, s[pc : pc+n], pc + n, true
}

// IsPushOnly mirrors CScript::IsPushOnly.
func IsPushOnly(s []byte) bool {
	for pc := 0; pc < len(s); {
		op, _, next, ok := GetOp(s, pc)
		if !ok || op > 0x60 {
			return false
		}
		pc = next
	}
	return true
}

// IsP2SH mirrors CScript::IsPayToScriptHash.
func IsP2SH(s []byte) bool {
	return len(s) == 23 && s[0] == 0xa9 && s[1] == 0x14 && s[22] == 0x87
}

// PushEncode returns the minimal push of data the way CScript << vector does.
func PushEncode(d []byte) []byte {
	n := len(d)
	var o []byte
	switch {
	case n < 0x4c:
		o = []byte{byte(n)}
	case n <= 0xff:
		o = []byte{0x4c, byte(n)}
	case n <= 0xffff:
		o = []byte{0x4d, byte(n), byte(n >> 8)}
	default:
		o = []byte{0x4e, byte(n), byte(n >> 8), byte(n >> 16), byte(n >> 24)}
	}
	return append(o, d...)
}

// FindAndDelete removes every occurrence of pat that starts on an instruction boundary.
func FindAndDelete(s, pat []byte) []byte {
	if len(pat) == 0 {
		return append([]byte{}, s...)
	}
	var out []byte
	pc, seg := 0, 0
	for {
		out = append(out, s[seg:pc]...)
		for len(s)-pc >= len(pat) && bytes.Equal(s[pc:pc+len(pat)], pat) {
			pc += len(pat)
		}
		seg = pc
		if pc >= len(s) {
			break
		}
		_, _, next, ok := GetOp(s, pc)
		if !ok {
			break
		}
		pc = next
	}
	out = append(out, s[seg:]...)
	return out
}

// StripCodeSeparators removes OP_CODESEPARATOR instructions (legacy digest).
func StripCodeSeparators(s []byte) []byte {
	var out []byte
	pc := 0
	for pc < len(s) {
		op, _, next, ok := GetOp(s, pc)
		if !ok {
			// the node's serializer copies the undecodable tail verbatim
			out = append(out, s[pc:]...)
			break
		}
		if op != 0xab {
			out = append(out, s[pc:next]...)
		}
		pc = next
	}
	return out
}

func checkMinimalPush(data []byte, op byte) bool {
	n := len(data)
	switch {
	case n == 0:
		return op == 0x00
	case n == 1 && data[0] >= 1 && data[0] <= 16:
		return op == 0x50+data[0]
	case n == 1 && data[0] == 0x81:
		return op == 0x4f
	case n <= 75:
		return int(op) == n
	case n <= 255:
		return op == 0x4c
	case n <= 65535:
		return op == 0x4d
	}
	return true
}

// ---------------------------------------------------------------------------
// evaluator

type machine struct {
	flags    Flags
	chk      Checker
	genesis  bool
	maxNum   int
	lim      Limits
	stack    [][]byte
	alt      [][]byte
	trace    []Snapshot
	sigops   []SigOp
	doTrace  bool
	scriptNo int
	cond     []bool // mirrors of vfExec / vfElse for the trace
	els      []bool
}

func cp(b []byte) []byte { return append([]byte{}, b...) }

func cpStack(s [][]byte) [][]byte {
	o := make([][]byte, len(s))
	for i, b := range s {
		o[i] = cp(b)
	}
	return o
}

func (m *machine) push(b []byte) error {
	if len(b) > m.lim.MaxElem {
		return budgetErr{}
	}
	m.stack = append(m.stack, cp(b))
	return nil
}

func (m *machine) top(i int) []byte { return m.stack[len(m.stack)+i] } // i = -1 is the top

func (m *machine) pop() []byte {
	b := m.stack[len(m.stack)-1]
	m.stack = m.stack[:len(m.stack)-1]
	return b
}

func (m *machine) num(b []byte, maxLen int) (*big.Int, error) {
	if len(b) > maxLen {
		return nil, serr("SCRIPTNUM_OVERFLOW")
	}
	if m.flags.Has(FlagMinimalData) && !IsMinimalNum(b) {
		return nil, serr("SCRIPTNUM_MINENCODE")
	}
	return DecodeNum(b), nil
}

func boolBytes(v bool) []byte {
	if v {
		return []byte{1}
	}
	return []byte{}
}

var (
	bigInt32Max = big.NewInt(1<<31 - 1)
	seqDisable  = big.NewInt(1 << 31)
)

func isDisabled(op byte) bool { return op == 0x8d || op == 0x8e } // 2MUL, 2DIV

// eval runs one script on the machine's stack. early=true means post-genesis
// top-level OP_RETURN ended it successfully.
func (m *machine) eval(script []byte) error {
	maxScript := 10000
	if m.genesis {
		maxScript = 1<<32 - 1
	}
	if len(script) > maxScript {
		return serr("SCRIPT_SIZE")
	}
	var vfExec, vfElse []bool
	nonTopReturn := false
	nOps := 0
	maxOps := 500
	if m.genesis {
		maxOps = 1<<31 - 1
	}
	codeStart := 0
	m.alt = nil
	pc := 0
	for pc < len(script) {
		at := pc
		op, data, next, ok := GetOp(script, pc)
		if !ok {
			return serr("BAD_OPCODE")
		}
		// after a non-top-level OP_RETURN (post-genesis) only a later OP_RETURN can
		// still execute; everything else is merely checked for grammar
		fExec := !nonTopReturn || op == 0x6a
		if fExec {
			for _, v := range vfExec {
				if !v {
					fExec = false
					break
				}
			}
		}
		pc = next
		if !m.genesis && len(data) > 520 {
			return serr("PUSH_SIZE")
		}
		if op > 0x60 {
			nOps++
			if nOps > maxOps {
				return serr("OP_COUNT")
			}
		}
		if isDisabled(op) && (!m.genesis || fExec) {
			return serr("DISABLED_OPCODE")
		}
		executed := false
		if fExec && op <= 0x4e {
			if m.flags.Has(FlagMinimalData) && !checkMinimalPush(data, op) {
				return serr("MINIMALDATA")
			}
			if err := m.push(data); err != nil {
				return err
			}
			executed = true
		} else if fExec || (op >= 0x63 && op <= 0x68) {
			executed = true
			done, err := m.exec(op, fExec, script, &codeStart, pc, &vfExec, &vfElse, &nonTopReturn, &nOps, maxOps)
			if err != nil {
				return err
			}
			if done {
				// post-genesis top-level OP_RETURN: success, nothing after it matters
				m.cond, m.els = nil, nil
				m.snap(at, op, true)
				m.alt = nil
				m.fixLastAlt()
				return nil
			}
		}
		if !m.genesis && len(m.stack)+len(m.alt) > 1000 {
			return serr("STACK_SIZE")
		}
		m.cond, m.els = vfExec, vfElse
		m.snap(at, op, executed)
	}
	if len(vfExec) != 0 {
		return serr("UNBALANCED_CONDITIONAL")
	}
	m.alt = nil
	m.fixLastAlt()
	return nil
}

func (m *machine) snap(at int, op byte, executed bool) {
	if !m.doTrace {
		return
	}
	m.trace = append(m.trace, Snapshot{Script: m.scriptNo, Offset: at, Op: op, Executed: executed, Stack: cpStack(m.stack), Alt: cpStack(m.alt),
		Cond: append([]bool{}, m.cond...), Else: append([]bool{}, m.els...)})
}

// fixLastAlt: the state recorded after the last instruction of a script is the
// state the next script starts from (alt stack cleared).
func (m *machine) fixLastAlt() {
	if m.doTrace && len(m.trace) > 0 && m.trace[len(m.trace)-1].Script == m.scriptNo {
		m.trace[len(m.trace)-1].Alt = [][]byte{}
	}
}

func (m *machine) need(n int) error {
	if len(m.stack) < n {
		return serr("INVALID_STACK_OPERATION")
	}
	return nil
}

func (m *machine) exec(op byte, fExec bool, script []byte, codeStart *int, pc int, vfExec, vfElse *[]bool, nonTopReturn *bool, nOps *int, maxOps int) (bool, error) {
	fMin := m.flags.Has(FlagMinimalData)
	_ = fMin
	switch {
	case op == 0x4f || (op >= 0x51 && op <= 0x60):
		return false, m.push(EncodeNum(big.NewInt(int64(op) - 0x50)))
	}
	switch op {
	case 0x61: // NOP
	case 0xb1: // CLTV
		if !m.flags.Has(FlagCLTV) || m.genesis {
			if m.flags.Has(FlagDiscourageNops) {
				return false, serr("DISCOURAGE_UPGRADABLE_NOPS")
			}
			break
		}
		if err := m.need(1); err != nil {
			return false, err
		}
		n, err := m.num(m.top(-1), 5)
		if err != nil {
			return false, err
		}
		if n.Sign() < 0 {
			return false, serr("NEGATIVE_LOCKTIME")
		}
		if !m.chk.CheckLockTime(n) {
			return false, serr("UNSATISFIED_LOCKTIME")
		}
	case 0xb2: // CSV
		if !m.flags.Has(FlagCSV) || m.genesis {
			if m.flags.Has(FlagDiscourageNops) {
				return false, serr("DISCOURAGE_UPGRADABLE_NOPS")
			}
			break
		}
		if err := m.need(1); err != nil {
			return false, err
		}
		n, err := m.num(m.top(-1), 5)
		if err != nil {
			return false, err
		}
		if n.Sign() < 0 {
			return false, serr("NEGATIVE_LOCKTIME")
		}
		if new(big.Int).And(n, seqDisable).Sign() != 0 {
			break
		}
		if !m.chk.CheckSequence(n) {
			return false, serr("UNSATISFIED_LOCKTIME")
		}
	case 0xb0, 0xb3, 0xb4, 0xb5, 0xb6, 0xb7, 0xb8, 0xb9: // NOP1, NOP4..NOP10
		if m.flags.Has(FlagDiscourageNops) {
			return false, serr("DISCOURAGE_UPGRADABLE_NOPS")
		}
	case 0x63, 0x64: // IF NOTIF
		v := false
		if fExec {
			if len(m.stack) < 1 {
				return false, serr("UNBALANCED_CONDITIONAL")
			}
			t := m.top(-1)
			if m.flags.Has(FlagMinimalIf) {
				if len(t) > 1 || (len(t) == 1 && t[0] != 1) {
					return false, serr("MINIMALIF")
				}
			}
			v = CastToBool(t)
			if op == 0x64 {
				v = !v
			}
			m.pop()
		}
		*vfExec = append(*vfExec, v)
		*vfElse = append(*vfElse, false)
	case 0x67: // ELSE
		if len(*vfExec) == 0 || ((*vfElse)[len(*vfElse)-1] && m.genesis) {
			return false, serr("UNBALANCED_CONDITIONAL")
		}
		(*vfExec)[len(*vfExec)-1] = !(*vfExec)[len(*vfExec)-1]
		(*vfElse)[len(*vfElse)-1] = true
	case 0x68: // ENDIF
		if len(*vfExec) == 0 {
			return false, serr("UNBALANCED_CONDITIONAL")
		}
		*vfExec = (*vfExec)[:len(*vfExec)-1]
		*vfElse = (*vfElse)[:len(*vfElse)-1]
	case 0x69: // VERIFY
		if err := m.need(1); err != nil {
			return false, err
		}
		if !CastToBool(m.top(-1)) {
			return false, serr("VERIFY")
		}
		m.pop()
	case 0x6a: // RETURN
		if !m.genesis {
			return false, serr("OP_RETURN")
		}
		if len(*vfExec) == 0 {
			return true, nil
		}
		*nonTopReturn = true
	case 0x6b: // TOALTSTACK
		if err := m.need(1); err != nil {
			return false, err
		}
		m.alt = append(m.alt, m.pop())
	case 0x6c: // FROMALTSTACK
		if len(m.alt) < 1 {
			return false, serr("INVALID_ALTSTACK_OPERATION")
		}
		v := m.alt[len(m.alt)-1]
		m.alt = m.alt[:len(m.alt)-1]
		m.stack = append(m.stack, v)
	case 0x6d: // 2DROP
		if err := m.need(2); err != nil {
			return false, err
		}
		m.pop()
		m.pop()
	case 0x6e: // 2DUP
		if err := m.need(2); err != nil {
			return false, err
		}
		a, b := cp(m.top(-2)), cp(m.top(-1))
		m.stack = append(m.stack, a, b)
	case 0x6f: // 3DUP
		if err := m.need(3); err != nil {
			return false, err
		}
		a, b, c := cp(m.top(-3)), cp(m.top(-2)), cp(m.top(-1))
		m.stack = append(m.stack, a, b, c)
	case 0x70: // 2OVER
		if err := m.need(4); err != nil {
			return false, err
		}
		a, b := cp(m.top(-4)), cp(m.top(-3))
		m.stack = append(m.stack, a, b)
	case 0x71: // 2ROT
		if err := m.need(6); err != nil {
			return false, err
		}
		n := len(m.stack)
		a, b := m.stack[n-6], m.stack[n-5]
		m.stack = append(m.stack[:n-6], m.stack[n-4:]...)
		m.stack = append(m.stack, a, b)
	case 0x72: // 2SWAP
		if err := m.need(4); err != nil {
			return false, err
		}
		n := len(m.stack)
		m.stack[n-4], m.stack[n-2] = m.stack[n-2], m.stack[n-4]
		m.stack[n-3], m.stack[n-1] = m.stack[n-1], m.stack[n-3]
	case 0x73: // IFDUP
		if err := m.need(1); err != nil {
			return false, err
		}
		if CastToBool(m.top(-1)) {
			m.stack = append(m.stack, cp(m.top(-1)))
		}
	case 0x74: // DEPTH
		return false, m.push(EncodeNum(big.NewInt(int64(len(m.stack)))))
	case 0x75: // DROP
		if err := m.need(1); err != nil {
			return false, err
		}
		m.pop()
	case 0x76: // DUP
		if err := m.need(1); err != nil {
			return false, err
		}
		m.stack = append(m.stack, cp(m.top(-1)))
	case 0x77: // NIP
		if err := m.need(2); err != nil {
			return false, err
		}
		n := len(m.stack)
		m.stack = append(m.stack[:n-2], m.stack[n-1])
	case 0x78: // OVER
		if err := m.need(2); err != nil {
			return false, err
		}
		m.stack = append(m.stack, cp(m.top(-2)))
	case 0x79, 0x7a: // PICK ROLL
		if err := m.need(2); err != nil {
			return false, err
		}
		n, err := m.num(m.top(-1), m.maxNum)
		if err != nil {
			return false, err
		}
		m.pop()
		if n.Sign() < 0 || n.Cmp(big.NewInt(int64(len(m.stack)))) >= 0 {
			return false, serr("INVALID_STACK_OPERATION")
		}
		k := int(n.Int64())
		idx := len(m.stack) - 1 - k
		v := m.stack[idx]
		if op == 0x7a {
			m.stack = append(m.stack[:idx], m.stack[idx+1:]...)
			m.stack = append(m.stack, v)
		} else {
			m.stack = append(m.stack, cp(v))
		}
	case 0x7b: // ROT
		if err := m.need(3); err != nil {
			return false, err
		}
		n := len(m.stack)
		m.stack[n-3], m.stack[n-2], m.stack[n-1] = m.stack[n-2], m.stack[n-1], m.stack[n-3]
	case 0x7c: // SWAP
		if err := m.need(2); err != nil {
			return false, err
		}
		n := len(m.stack)
		m.stack[n-2], m.stack[n-1] = m.stack[n-1], m.stack[n-2]
	case 0x7d: // TUCK
		if err := m.need(2); err != nil {
			return false, err
		}
		n := len(m.stack)
		x1, x2 := m.stack[n-2], m.stack[n-1]
		m.stack = append(m.stack[:n-2], cp(x2), x1, x2)
	case 0x7e: // CAT
		if err := m.need(2); err != nil {
			return false, err
		}
		a, b := m.top(-2), m.top(-1)
		if !m.genesis && len(a)+len(b) > 520 {
			return false, serr("PUSH_SIZE")
		}
		if len(a)+len(b) > m.lim.MaxElem {
			return false, budgetErr{}
		}
		r := append(cp(a), b...)
		m.pop()
		m.pop()
		m.stack = append(m.stack, r)
	case 0x7f: // SPLIT
		if err := m.need(2); err != nil {
			return false, err
		}
		d := m.top(-2)
		n, err := m.num(m.top(-1), m.maxNum)
		if err != nil {
			return false, err
		}
		if n.Sign() < 0 || n.Cmp(big.NewInt(int64(len(d)))) > 0 {
			return false, serr("SPLIT_RANGE")
		}
		k := int(n.Int64())
		a, b := cp(d[:k]), cp(d[k:])
		m.pop()
		m.pop()
		m.stack = append(m.stack, a, b)
	case 0x80: // NUM2BIN
		if err := m.need(2); err != nil {
			return false, err
		}
		n, err := m.num(m.top(-1), m.maxNum)
		if err != nil {
			return false, err
		}
		if n.Sign() < 0 || n.Cmp(bigInt32Max) > 0 {
			return false, serr("PUSH_SIZE")
		}
		size := int(n.Int64())
		if !m.genesis && size > 520 {
			return false, serr("PUSH_SIZE")
		}
		m.pop()
		raw := MinimallyEncode(m.top(-1))
		if len(raw) > size {
			return false, serr("IMPOSSIBLE_ENCODING")
		}
		if size > m.lim.MaxElem {
			return false, budgetErr{}
		}
		if len(raw) < size {
			var sign byte
			if len(raw) > 0 {
				sign = raw[len(raw)-1] & 0x80
				raw[len(raw)-1] &= 0x7f
			}
			for len(raw) < size-1 {
				raw = append(raw, 0)
			}
			raw = append(raw, sign)
		}
		m.pop()
		m.stack = append(m.stack, raw)
	case 0x81: // BIN2NUM
		if err := m.need(1); err != nil {
			return false, err
		}
		r := MinimallyEncode(m.top(-1))
		if len(r) > m.maxNum {
			return false, serr("INVALID_NUMBER_RANGE")
		}
		m.pop()
		m.stack = append(m.stack, r)
	case 0x82: // SIZE
		if err := m.need(1); err != nil {
			return false, err
		}
		return false, m.push(EncodeNum(big.NewInt(int64(len(m.top(-1))))))
	case 0x83: // INVERT
		if err := m.need(1); err != nil {
			return false, err
		}
		r := cp(m.top(-1))
		for i := range r {
			r[i] = ^r[i]
		}
		m.pop()
		m.stack = append(m.stack, r)
	case 0x84, 0x85, 0x86: // AND OR XOR
		if err := m.need(2); err != nil {
			return false, err
		}
		a, b := m.top(-2), m.top(-1)
		if len(a) != len(b) {
			return false, serr("OPERAND_SIZE")
		}
		r := make([]byte, len(a))
		for i := range a {
			switch op {
			case 0x84:
				r[i] = a[i] & b[i]
			case 0x85:
				r[i] = a[i] | b[i]
			default:
				r[i] = a[i] ^ b[i]
			}
		}
		m.pop()
		m.pop()
		m.stack = append(m.stack, r)
	case 0x87, 0x88: // EQUAL EQUALVERIFY
		if err := m.need(2); err != nil {
			return false, err
		}
		eq := bytes.Equal(m.top(-2), m.top(-1))
		m.pop()
		m.pop()
		m.stack = append(m.stack, boolBytes(eq))
		if op == 0x88 {
			if !eq {
				return false, serr("EQUALVERIFY")
			}
			m.pop()
		}
	case 0x8b, 0x8c, 0x8f, 0x90, 0x91, 0x92: // 1ADD 1SUB NEGATE ABS NOT 0NOTEQUAL
		if err := m.need(1); err != nil {
			return false, err
		}
		n, err := m.num(m.top(-1), m.maxNum)
		if err != nil {
			return false, err
		}
		r := new(big.Int)
		switch op {
		case 0x8b:
			r.Add(n, big.NewInt(1))
		case 0x8c:
			r.Sub(n, big.NewInt(1))
		case 0x8f:
			r.Neg(n)
		case 0x90:
			r.Abs(n)
		case 0x91:
			if n.Sign() == 0 {
				r.SetInt64(1)
			}
		case 0x92:
			if n.Sign() != 0 {
				r.SetInt64(1)
			}
		}
		m.pop()
		return false, m.push(EncodeNum(r))
	case 0x93, 0x94, 0x95, 0x96, 0x97, 0x9a, 0x9b, 0x9c, 0x9d, 0x9e, 0x9f, 0xa0, 0xa1, 0xa2, 0xa3, 0xa4:
		if err := m.need(2); err != nil {
			return false, err
		}
		a, err := m.num(m.top(-2), m.maxNum)
		if err != nil {
			return false, err
		}
		b, err := m.num(m.top(-1), m.maxNum)
		if err != nil {
			return false, err
		}
		r := new(big.Int)
		bv := func(v bool) {
			if v {
				r.SetInt64(1)
			}
		}
		switch op {
		case 0x93:
			r.Add(a, b)
		case 0x94:
			r.Sub(a, b)
		case 0x95:
			if len(m.top(-2))+len(m.top(-1)) > m.lim.MaxElem {
				return false, budgetErr{}
			}
			r.Mul(a, b)
		case 0x96:
			if b.Sign() == 0 {
				return false, serr("DIV_BY_ZERO")
			}
			r.Quo(a, b)
		case 0x97:
			if b.Sign() == 0 {
				return false, serr("MOD_BY_ZERO")
			}
			r.Rem(a, b)
		case 0x9a:
			bv(a.Sign() != 0 && b.Sign() != 0)
		case 0x9b:
			bv(a.Sign() != 0 || b.Sign() != 0)
		case 0x9c, 0x9d:
			bv(a.Cmp(b) == 0)
		case 0x9e:
			bv(a.Cmp(b) != 0)
		case 0x9f:
			bv(a.Cmp(b) < 0)
		case 0xa0:
			bv(a.Cmp(b) > 0)
		case 0xa1:
			bv(a.Cmp(b) <= 0)
		case 0xa2:
			bv(a.Cmp(b) >= 0)
		case 0xa3:
			if a.Cmp(b) < 0 {
				r.Set(a)
			} else {
				r.Set(b)
			}
		case 0xa4:
			if a.Cmp(b) > 0 {
				r.Set(a)
			} else {
				r.Set(b)
			}
		}
		m.pop()
		m.pop()
		if err := m.push(EncodeNum(r)); err != nil {
			return false, err
		}
		if op == 0x9d {
			if !CastToBool(m.top(-1)) {
				return false, serr("NUMEQUALVERIFY")
			}
			m.pop()
		}
	case 0xa5: // WITHIN
		if err := m.need(3); err != nil {
			return false, err
		}
		x, err := m.num(m.top(-3), m.maxNum)
		if err != nil {
			return false, err
		}
		lo, err := m.num(m.top(-2), m.maxNum)
		if err != nil {
			return false, err
		}
		hi, err := m.num(m.top(-1), m.maxNum)
		if err != nil {
			return false, err
		}
		v := lo.Cmp(x) <= 0 && x.Cmp(hi) < 0
		m.pop()
		m.pop()
		m.pop()
		m.stack = append(m.stack, boolBytes(v))
	case 0x98, 0x99: // LSHIFT RSHIFT
		if err := m.need(2); err != nil {
			return false, err
		}
		n, err := m.num(m.top(-1), m.maxNum)
		if err != nil {
			return false, err
		}
		if n.Sign() < 0 {
			return false, serr("INVALID_NUMBER_RANGE")
		}
		v := m.top(-2)
		r := shiftBytes(v, n, op == 0x98)
		m.pop()
		m.pop()
		m.stack = append(m.stack, r)
	case 0xa6, 0xa7, 0xa8, 0xa9, 0xaa: // hashes
		if err := m.need(1); err != nil {
			return false, err
		}
		v := m.top(-1)
		var h []byte
		switch op {
		case 0xa6:
			r := ripemd160.New()
			r.Write(v)
			h = r.Sum(nil)
		case 0xa7:
			s := sha1.Sum(v) //nolint:gosec // OP_SHA1
			h = s[:]
		case 0xa8:
			s := sha256.Sum256(v)
			h = s[:]
		case 0xa9:
			s := sha256.Sum256(v)
			r := ripemd160.New()
			r.Write(s[:])
			h = r.Sum(nil)
		default:
			h = sha256d(v)
		}
		m.pop()
		m.stack = append(m.stack, h)
	case 0xab: // CODESEPARATOR
		*codeStart = pc
	case 0xac, 0xad: // CHECKSIG CHECKSIGVERIFY
		return false, m.opCheckSig(op, script, *codeStart)
	case 0xae, 0xaf: // CHECKMULTISIG CHECKMULTISIGVERIFY
		return false, m.opCheckMultiSig(op, script, *codeStart, nOps, maxOps)
	default:
		if (op == 0x65 || op == 0x66) && m.genesis && !fExec {
			break
		}
		return false, serr("BAD_OPCODE")
	}
	return false, nil
}

// shiftBytes shifts v as one big-endian bit string by n bits, keeping its length.
func shiftBytes(v []byte, n *big.Int, left bool) []byte {
	r := make([]byte, len(v))
	if len(v) == 0 {
		return r
	}
	if n.Cmp(big.NewInt(int64(8*len(v)))) >= 0 {
		return r
	}
	k := int(n.Int64())
	byteShift, bitShift := k/8, uint(k%8)
	for i := range v {
		if left {
			src := i + byteShift
			if src >= len(v) {
				continue
			}
			x := uint16(v[src]) << 8
			if src+1 < len(v) {
				x |= uint16(v[src+1])
			}
			r[i] = byte((x << bitShift) >> 8)
		} else {
			src := i - byteShift
			if src < 0 {
				continue
			}
			x := uint16(v[src])
			if src-1 >= 0 {
				x |= uint16(v[src-1]) << 8
			}
			r[i] = byte(x >> bitShift)
		}
	}
	return r
}

// VerifyScript evaluates unlocking then locking script (and the P2SH redeem
// script when applicable) under flags, exactly in the node's order.
func VerifyScript(unlock, lock []byte, flags Flags, chk Checker, trace bool, lim Limits) (res Result) {
	if flags.Has(FlagForkID) {
		flags |= FlagStrictEnc
	}
	m := &machine{flags: flags, chk: chk, genesis: flags.Has(FlagAfterGenesis), doTrace: trace, lim: lim}
	m.maxNum = 4
	if m.genesis {
		m.maxNum = 750000
	}
	fail := func(err error) Result {
		if _, ok := err.(budgetErr); ok {
			return Result{BudgetHit: true, Trace: m.trace, SigOps: m.sigops}
		}
		return Result{OK: false, Err: err.Error(), Trace: m.trace, SigOps: m.sigops}
	}
	if flags.Has(FlagCleanStack) && !flags.Has(FlagP2SH) {
		// the node asserts this never happens; the library documents it as invalid flags
		return Result{Err: "INVALID_FLAGS"}
	}
	if flags.Has(FlagSigPushOnly) && !IsPushOnly(unlock) {
		return Result{Err: "SIG_PUSHONLY"}
	}
	m.scriptNo = 0
	if err := m.eval(unlock); err != nil {
		return fail(err)
	}
	var stackCopy [][]byte
	p2sh := flags.Has(FlagP2SH) && !m.genesis
	if p2sh {
		stackCopy = cpStack(m.stack)
	}
	m.scriptNo = 1
	if err := m.eval(lock); err != nil {
		return fail(err)
	}
	if len(m.stack) == 0 || !CastToBool(m.top(-1)) {
		return Result{Err: "EVAL_FALSE", Trace: m.trace, SigOps: m.sigops}
	}
	if p2sh && IsP2SH(lock) {
		if !IsPushOnly(unlock) {
			return Result{Err: "SIG_PUSHONLY", Trace: m.trace, SigOps: m.sigops}
		}
		m.stack = stackCopy
		redeem := m.pop()
		if m.doTrace && len(m.trace) > 0 {
			m.trace[len(m.trace)-1].Stack = cpStack(m.stack)
		}
		m.scriptNo = 2
		if err := m.eval(redeem); err != nil {
			return fail(err)
		}
		if len(m.stack) == 0 || !CastToBool(m.top(-1)) {
			return Result{Err: "EVAL_FALSE", Trace: m.trace, SigOps: m.sigops}
		}
	}
	if flags.Has(FlagCleanStack) && len(m.stack) != 1 {
		return Result{Err: "CLEANSTACK", Trace: m.trace, SigOps: m.sigops}
	}
	return Result{OK: true, Trace: m.trace, SigOps: m.sigops}
}

func (s Snapshot) String() string {
	return fmt.Sprintf("script=%d off=%d op=%02x exec=%v stack=%x alt=%x", s.Script, s.Offset, s.Op, s.Executed, s.Stack, s.Alt)
}

func sha256d(b []byte) []byte {
	a := sha256.Sum256(b)
	c := sha256.Sum256(a[:])
	return c[:]
}
