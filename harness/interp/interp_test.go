package interp

import (
	"testing"

	"github.com/libsv/go-bt/v2/bscript/interpreter/scriptflag"
)

func TestFlagValues(t *testing.T) {
	pairs := map[Flags]scriptflag.Flag{
		FlagP2SH: scriptflag.Bip16, FlagNullDummy: scriptflag.StrictMultiSig, FlagDiscourageNops: scriptflag.DiscourageUpgradableNops,
		FlagCLTV: scriptflag.VerifyCheckLockTimeVerify, FlagCSV: scriptflag.VerifyCheckSequenceVerify, FlagCleanStack: scriptflag.VerifyCleanStack,
		FlagDERSig: scriptflag.VerifyDERSignatures, FlagLowS: scriptflag.VerifyLowS, FlagMinimalData: scriptflag.VerifyMinimalData,
		FlagNullFail: scriptflag.VerifyNullFail, FlagSigPushOnly: scriptflag.VerifySigPushOnly, FlagForkID: scriptflag.EnableSighashForkID,
		FlagStrictEnc: scriptflag.VerifyStrictEncoding, FlagBip143: scriptflag.VerifyBip143SigHash, FlagAfterGenesis: scriptflag.UTXOAfterGenesis,
		FlagMinimalIf: scriptflag.VerifyMinimalIf,
	}
	for a, b := range pairs {
		if uint32(a) != uint32(b) {
			t.Fatalf("flag mismatch %x vs %x", a, b)
		}
	}
}

func TestCalibrate(t *testing.T) {
	c, err := Calibrate()
	if err != nil {
		t.Fatal(err)
	}
	t.Logf("vectors=%d verdict=%d names=%d", c.Vectors, c.VerdictAgree, c.NameAgree)
	for _, m := range c.Mismatches {
		t.Log(m)
	}
	if c.VerdictAgree != c.Vectors {
		t.Fail()
	}
}

func TestCalibrateTxValid(t *testing.T) {
	n, ok, bad, err := CalibrateTxValid()
	if err != nil {
		t.Fatal(err)
	}
	t.Logf("tx_valid inputs=%d agreed=%d", n, ok)
	for _, b := range bad {
		t.Log(b)
	}
	if n != ok || n == 0 {
		t.Fail()
	}
}
