package sgen

import (
	"pgregory.net/rapid"

	"verif/harness/interp"
)

// DegenerateP2SH (tenth round) builds pay-to-script-hash spends whose redeem script is as small as
// a script can be - empty, one opcode, one push of nothing - pushed in its shortest or in a longer
// form, behind 0..3 small items. The redeem script runs as a third script: when it is empty there
// is nothing to run and the verdict is decided by what the unlocking script left behind.
func DegenerateP2SH(t *rapid.T, flags interp.Flags) Program {
	redeem := rapid.SampledFrom([][]byte{{}, {}, {}, {0x00}, {0x51}, {0x61}, {0x6a}, {0x75}, {0x51, 0x51}, {0x00, 0x00}, {0x4c, 0x00}, {0x01, 0x00}, {0x74}, {0x69}}).Draw(t, "dp_redeem")
	var unlock []byte
	n := rapid.IntRange(0, 3).Draw(t, "dp_items")
	for i := 0; i < n; i++ {
		unlock = append(unlock, rapid.SampledFrom([][]byte{{0x00}, {0x51}, {0x55}, {0x01, 0x00}, {0x01, 0x80}, {0x4c, 0x00}, {0x02, 0x00, 0x00}}).Draw(t, "dp_item")...)
	}
	switch rapid.IntRange(0, 3).Draw(t, "dp_form") {
	case 0:
		if len(redeem) == 0 {
			unlock = append(unlock, 0x4c, 0x00) // non-minimal push of the empty redeem script
		} else {
			unlock = append(append(unlock, 0x4c, byte(len(redeem))), redeem...)
		}
	default:
		unlock = append(unlock, interp.PushEncode(redeem)...)
	}
	h := Hash160(redeem)
	if rapid.IntRange(0, 9).Draw(t, "dp_wrong") == 0 {
		h[3] ^= 0x10
	}
	lock := append(append([]byte{0xa9, 0x14}, h...), 0x87)
	f := flags | interp.FlagP2SH
	if rapid.IntRange(0, 3).Draw(t, "dp_noflag") == 0 {
		f = flags &^ interp.FlagP2SH
	}
	if rapid.IntRange(0, 2).Draw(t, "dp_clean") == 0 {
		f |= interp.FlagCleanStack
	}
	if rapid.IntRange(0, 3).Draw(t, "dp_pre") != 0 {
		f &^= interp.FlagAfterGenesis
	}
	return Program{Unlock: unlock, Lock: lock, Flags: f, Level: "L4-p2sh-degenerate"}
}
