package sgen

import (
	"crypto/sha256"
	"math/big"

	"golang.org/x/crypto/ripemd160" //nolint:staticcheck // hash160 for P2SH wrapping
	"pgregory.net/rapid"

	"verif/harness/gen"

	"verif/harness/interp"
)

// Program is a generated script pair with the flags to run it under.
type Program struct {
	Unlock []byte
	Lock   []byte
	Flags  interp.Flags
	Level  string // generator level that produced it (evidence label)
}

// NumPool is the edge pool of numeric / byte-string operands.
var NumPool = [][]byte{
	{}, {0x00}, {0x80}, {0x01}, {0x02}, {0x03}, {0x07}, {0x08}, {0x09}, {0x10}, {0x11}, {0x7f}, {0x81}, {0xff},
	{0x80, 0x00}, {0xff, 0x00}, {0x00, 0x80}, {0x00, 0x01}, {0x01, 0x00}, {0x00, 0x00}, {0xff, 0x7f}, {0xff, 0xff},
	{0x00, 0x00, 0x80}, {0xff, 0xff, 0x7f}, {0xff, 0xff, 0xff, 0x7f}, {0xff, 0xff, 0xff, 0xff}, {0x00, 0x00, 0x00, 0x80},
	{0x00, 0x00, 0x00, 0x80, 0x00}, {0xff, 0xff, 0xff, 0xff, 0x7f}, {0x00, 0x00, 0x00, 0x00, 0x80},
	{0xff, 0xff, 0xff, 0xff, 0xff, 0xff, 0xff, 0x7f}, {0, 0, 0, 0, 0, 0, 0, 0x80, 0x00}, {0, 0, 0, 0, 0, 0, 0, 0, 0x01},
	{0xff, 0xff, 0xff, 0xff, 0xff, 0xff, 0xff, 0xff, 0x00}, {0, 0, 0, 0, 0, 0, 0, 0, 0x81},
	{0xab, 0xcd}, {0x12, 0x34, 0x56}, {0xaa, 0x55, 0xaa, 0x55, 0xaa},
	// small values plus 2^32 / 2^64 (what narrowing to 32 or 64 bits turns back into 1, 2, 3, 8)
	// the most negative values of the native integer widths (their negation, quotient by -1 and
	// absolute value do not fit the width)
	{0, 0, 0, 0, 0, 0, 0, 0x80, 0x80}, {0xff, 0xff, 0xff, 0xff, 0xff, 0xff, 0xff, 0xff}, {0, 0, 0, 0x80, 0x80},
	{0x01, 0, 0, 0, 0x01}, {0x02, 0, 0, 0, 0x01}, {0x01, 0, 0, 0, 0, 0, 0, 0, 0x01}, {0x03, 0, 0, 0, 0, 0, 0, 0, 0x01}, {0x08, 0, 0, 0, 0, 0, 0, 0, 0x01}, {0x01, 0, 0, 0, 0, 0, 0, 0, 0x81},
}

// Operand draws one operand: mostly from the pool, sometimes random, sometimes large.
func Operand(t *rapid.T, genesis bool, label string) []byte {
	switch rapid.IntRange(0, 19).Draw(t, label+"_k") {
	case 0, 1, 2:
		return gen.Bytes(t, rapid.IntRange(0, 6).Draw(t, label+"_n"), label)
	case 3:
		if rapid.Bool().Draw(t, label+"_structured") {
			return LongValue(t, genesis, label)
		}
		if genesis {
			n := rapid.SampledFrom([]int{10, 33, 75, 76, 255, 256, 520, 521, 1000}).Draw(t, label+"_big")
			return gen.FillBytes(t, n, label)
		}
		return gen.FillBytes(t, rapid.SampledFrom([]int{10, 33, 75, 76, 255, 256, 519, 520}).Draw(t, label+"_big"), label)
	case 4, 5, 6:
		// a small valid number
		return interp.EncodeNum(big.NewInt(int64(rapid.IntRange(-3, 40).Draw(t, label+"_small"))))
	default:
		return append([]byte{}, NumPool[rapid.IntRange(0, len(NumPool)-1).Draw(t, label+"_p")]...)
	}
}

// LongValue draws a long item whose VALUE is an edge although its length is not: zero, negative
// zero (all zero bytes, sign bit in the last), a single set bit in the first, a middle or the
// last-but-one byte, a lone sign bit with a non-zero first byte, all ones. Lengths sit on and next
// to the word, cache-line and limit sizes (8, 16, 32, 64, 72, 128, 256, 512, 520, 1024).
func LongValue(t *rapid.T, genesis bool, label string) []byte {
	lens := []int{5, 7, 8, 9, 15, 16, 17, 24, 31, 32, 33, 56, 63, 64, 65, 72, 100, 127, 128, 129, 255, 256, 512, 519, 520}
	if genesis {
		lens = append(lens, 521, 1000, 1023, 1024, 1025, 2048)
	}
	n := rapid.SampledFrom(lens).Draw(t, label+"_len")
	v := make([]byte, n)
	switch rapid.IntRange(0, 7).Draw(t, label+"_shape") {
	case 0: // zero
	case 1, 2: // negative zero
		v[n-1] = 0x80
	case 3:
		v[0] = 0x01
	case 4:
		v[n/2] = 0x10
	case 5:
		v[n-2] = 0x80
	case 6:
		v[0], v[n-1] = 0x01, 0x80
	default:
		for i := range v {
			v[i] = 0xff
		}
	}
	return v
}

// Push encodes a push of d: minimal form unless nonMinimal selects a longer one.
func Push(d []byte, form int) []byte {
	n := len(d)
	switch form {
	case 1: // direct / PUSHDATA1 without using OP_N, OP_0, OP_1NEGATE shortcuts
		if n < 0x4c {
			return append([]byte{byte(n)}, d...)
		}
	case 2: // PUSHDATA1 where a direct push would do
		if n <= 0xff {
			return append([]byte{0x4c, byte(n)}, d...)
		}
	case 3: // PUSHDATA2
		if n <= 0xffff {
			return append([]byte{0x4d, byte(n), byte(n >> 8)}, d...)
		}
	case 4: // PUSHDATA4
		return append([]byte{0x4e, byte(n), byte(n >> 8), byte(n >> 16), byte(n >> 24)}, d...)
	}
	// minimal
	switch {
	case n == 0:
		return []byte{0x00}
	case n == 1 && d[0] >= 1 && d[0] <= 16:
		return []byte{0x50 + d[0]}
	case n == 1 && d[0] == 0x81:
		return []byte{0x4f}
	}
	return interp.PushEncode(d)
}

func drawPush(t *rapid.T, d []byte, label string) []byte {
	form := 0
	if rapid.IntRange(0, 11).Draw(t, label+"_form") == 0 {
		form = rapid.IntRange(1, 4).Draw(t, label+"_nm")
	}
	return Push(d, form)
}

type arity struct{ pops, pushes int }

// opArity lists, for the success path, how many items an opcode takes and leaves.
var opArity = map[byte]arity{
	0x79: {1, 1}, 0x7a: {1, 0}, 0x6c: {0, 1}, 0x73: {1, 1},
	0x61: {0, 0}, 0x69: {1, 0}, 0x6b: {1, 0}, 0x6d: {2, 0}, 0x6e: {2, 4}, 0x6f: {3, 6}, 0x70: {4, 6}, 0x71: {6, 6}, 0x72: {4, 4},
	0x74: {0, 1}, 0x75: {1, 0}, 0x76: {1, 2}, 0x77: {2, 1}, 0x78: {2, 3}, 0x7b: {3, 3}, 0x7c: {2, 2}, 0x7d: {2, 3},
	0x7e: {2, 1}, 0x7f: {2, 2}, 0x80: {2, 1}, 0x81: {1, 1}, 0x82: {1, 2}, 0x83: {1, 1}, 0x84: {2, 1}, 0x85: {2, 1}, 0x86: {2, 1},
	0x87: {2, 1}, 0x88: {2, 0}, 0x8b: {1, 1}, 0x8c: {1, 1}, 0x8f: {1, 1}, 0x90: {1, 1}, 0x91: {1, 1}, 0x92: {1, 1},
	0x93: {2, 1}, 0x94: {2, 1}, 0x95: {2, 1}, 0x96: {2, 1}, 0x97: {2, 1}, 0x98: {2, 1}, 0x99: {2, 1}, 0x9a: {2, 1}, 0x9b: {2, 1},
	0x9c: {2, 1}, 0x9d: {2, 0}, 0x9e: {2, 1}, 0x9f: {2, 1}, 0xa0: {2, 1}, 0xa1: {2, 1}, 0xa2: {2, 1}, 0xa3: {2, 1}, 0xa4: {2, 1}, 0xa5: {3, 1},
	0xa6: {1, 1}, 0xa7: {1, 1}, 0xa8: {1, 1}, 0xa9: {1, 1}, 0xaa: {1, 1}, 0xab: {0, 0},
	0xb0: {0, 0}, 0xb1: {0, 0}, 0xb2: {0, 0}, 0xb3: {0, 0}, 0xb4: {0, 0}, 0xb5: {0, 0}, 0xb6: {0, 0}, 0xb7: {0, 0}, 0xb8: {0, 0}, 0xb9: {0, 0},
}

// NonSigOps is the executable non-signature alphabet used by the stack-aware generator.
var NonSigOps []byte

func init() {
	for op := range opArity {
		NonSigOps = append(NonSigOps, op)
	}
	// deterministic order
	for i := range NonSigOps {
		for j := i + 1; j < len(NonSigOps); j++ {
			if NonSigOps[j] < NonSigOps[i] {
				NonSigOps[i], NonSigOps[j] = NonSigOps[j], NonSigOps[i]
			}
		}
	}
}

// builder is the abstract depth tracker of the stack-aware generator.
type builder struct {
	t       *rapid.T
	genesis bool
	out     []byte
	depth   int
	alt     int
	ops     int
	nest    int
}

func (b *builder) emit(x ...byte) { b.out = append(b.out, x...) }

func (b *builder) pushOperand(label string) {
	b.emit(drawPush(b.t, Operand(b.t, b.genesis, label), label)...)
	b.depth++
}

func (b *builder) pushBytes(d []byte) {
	b.emit(Push(d, 0)...)
	b.depth++
}

func (b *builder) ensure(n int, label string) {
	for b.depth < n {
		b.pushOperand(label)
	}
}

// numOperand pushes a number that is usually valid for the era.
func (b *builder) numOperand(label string) {
	if rapid.IntRange(0, 5).Draw(b.t, label+"_edge") == 0 {
		b.pushOperand(label)
		return
	}
	var v *big.Int
	switch rapid.IntRange(0, 5).Draw(b.t, label+"_cls") {
	case 0:
		v = big.NewInt(int64(rapid.IntRange(-2, 17).Draw(b.t, label)))
	case 1:
		v = big.NewInt(int64(rapid.Int32().Draw(b.t, label)))
	case 2:
		v = big.NewInt(int64(rapid.SampledFrom([]int64{0, 1, -1, 127, 128, -128, 255, 256, 32767, 32768, -32768, 8388607, 8388608, 2147483647, -2147483647}).Draw(b.t, label)))
	case 3:
		if b.genesis {
			v = new(big.Int).Lsh(big.NewInt(int64(rapid.IntRange(1, 255).Draw(b.t, label))), uint(rapid.SampledFrom([]int{24, 31, 32, 55, 63, 64, 65, 127, 128, 400}).Draw(b.t, label+"_sh")))
			if rapid.Bool().Draw(b.t, label+"_neg") {
				v.Neg(v)
			}
		} else {
			v = big.NewInt(int64(rapid.IntRange(-1000, 1000).Draw(b.t, label)))
		}
	default:
		v = big.NewInt(int64(rapid.IntRange(0, 10).Draw(b.t, label)))
	}
	b.emit(drawPush(b.t, interp.EncodeNum(v), label)...)
	b.depth++
}

func isNumeric(op byte) bool {
	return (op >= 0x8b && op <= 0xa5 && op != 0x98 && op != 0x99) || op == 0x8d || op == 0x8e
}

// op emits one opcode with suitable operands in front of it.
func (b *builder) op(op byte) {
	t := b.t
	ar := opArity[op]
	switch {
	case op == 0x79 || op == 0x7a: // PICK ROLL
		b.ensure(1, "pk")
		n := rapid.IntRange(0, b.depth-1).Draw(t, "pick_n")
		if rapid.IntRange(0, 9).Draw(t, "pick_bad") == 0 {
			n = b.depth + rapid.IntRange(0, 2).Draw(t, "pick_over")
		}
		b.emit(drawPush(t, interp.EncodeNum(big.NewInt(int64(n))), "pickn")...)
		b.emit(op)
		if op == 0x79 {
			b.depth++
		}
	case op == 0x6c: // FROMALTSTACK
		if b.alt == 0 {
			b.ensure(1, "alt")
			b.emit(0x6b)
			b.depth--
			b.alt++
		}
		b.emit(op)
		b.alt--
		b.depth++
	case op == 0x73: // IFDUP on a known-truthy or known-falsy value
		if rapid.Bool().Draw(t, "ifdup_true") {
			b.pushBytes([]byte{byte(rapid.IntRange(1, 16).Draw(t, "ifdup_v"))})
			b.emit(op)
			b.depth++
		} else {
			b.pushBytes(rapid.SampledFrom([][]byte{{}, {0x00}, {0x80}, {0x00, 0x80}}).Draw(t, "ifdup_z"))
			b.emit(op)
		}
	case isNumeric(op):
		for i := 0; i < ar.pops; i++ {
			if b.depth > i && rapid.IntRange(0, 3).Draw(t, "reuse") == 0 {
				continue
			}
			b.numOperand("num")
		}
		b.ensure(ar.pops, "numfill")
		b.emit(op)
		b.depth += ar.pushes - ar.pops
	case op == 0x98 || op == 0x99: // shifts: value then count 0..8n+1
		v := Operand(t, b.genesis, "shv")
		b.emit(drawPush(t, v, "shv")...)
		cnt := rapid.IntRange(0, 8*len(v)+1).Draw(t, "shcount")
		if rapid.IntRange(0, 11).Draw(t, "shneg") == 0 {
			cnt = -rapid.IntRange(1, 3).Draw(t, "shnegv")
		}
		b.emit(drawPush(t, interp.EncodeNum(big.NewInt(int64(cnt))), "shc")...)
		b.emit(op)
		b.depth++
	case op == 0x7f: // SPLIT at 0..len+1
		v := Operand(t, b.genesis, "spv")
		b.emit(drawPush(t, v, "spv")...)
		at := rapid.IntRange(-1, len(v)+1).Draw(t, "spat")
		b.emit(drawPush(t, interp.EncodeNum(big.NewInt(int64(at))), "spn")...)
		b.emit(op)
		b.depth += 2
	case op == 0x80: // NUM2BIN
		b.numOperand("n2b_v")
		sz := rapid.SampledFrom([]int{0, 1, 2, 3, 4, 5, 8, 9, 16, 100, 520, 521}).Draw(t, "n2b_sz")
		b.emit(drawPush(t, interp.EncodeNum(big.NewInt(int64(sz))), "n2b_s")...)
		b.emit(op)
	case op == 0x84 || op == 0x85 || op == 0x86: // same-length operands most of the time
		a := Operand(t, b.genesis, "bw_a")
		c := gen.Bytes(t, len(a), "bw_b")
		if rapid.IntRange(0, 7).Draw(t, "bw_mis") == 0 {
			c = append(c, 0x01)
		}
		b.emit(drawPush(t, a, "bw_a")...)
		b.emit(drawPush(t, c, "bw_b")...)
		b.emit(op)
		b.depth++
	case op == 0x88 || op == 0x87: // EQUAL(VERIFY): equal operands half of the time
		a := Operand(t, b.genesis, "eq_a")
		c := a
		if rapid.IntRange(0, 2).Draw(t, "eq_diff") == 0 {
			c = Operand(t, b.genesis, "eq_b")
		}
		b.emit(drawPush(t, a, "eq_a")...)
		b.emit(drawPush(t, c, "eq_b")...)
		b.emit(op)
		if op == 0x87 {
			b.depth++
		}
	case op == 0xb1 || op == 0xb2: // CLTV / CSV peek at a numeric operand
		switch rapid.IntRange(0, 3).Draw(t, "lt_k") {
		case 0:
			b.pushOperand("lt")
		case 1:
			b.emit(drawPush(t, interp.EncodeNum(big.NewInt(int64(rapid.SampledFrom([]int64{0, 1, 499999999, 500000000, 500000001, 1 << 22, 1<<22 + 1, 1 << 31, 1<<31 + 5, 0xffff, 0x10000, 4294967295, -1}).Draw(t, "lt_v")))), "lt_p")...)
			b.depth++
		default:
			b.emit(drawPush(t, interp.EncodeNum(big.NewInt(int64(rapid.IntRange(0, 70000).Draw(t, "lt_s")))), "lt_p")...)
			b.depth++
		}
		b.emit(op)
	case op == 0x69: // VERIFY on a mostly-true value
		if rapid.IntRange(0, 5).Draw(t, "vf_false") == 0 {
			b.pushOperand("vf")
		} else {
			b.pushBytes([]byte{byte(rapid.IntRange(1, 16).Draw(t, "vf_v"))})
		}
		b.emit(op)
		b.depth--
	default:
		if rapid.IntRange(0, 2).Draw(t, "fresh") == 0 {
			for i := 0; i < ar.pops; i++ {
				b.pushOperand("opd")
			}
		}
		b.ensure(ar.pops, "fill")
		b.emit(op)
		if op == 0x6b {
			b.alt++
		}
		b.depth += ar.pushes - ar.pops
	}
	b.ops++
}

// segment emits n operations, possibly nested conditionals with balanced bodies.
func (b *builder) segment(n int) {
	t := b.t
	for i := 0; i < n; i++ {
		k := rapid.IntRange(0, 19).Draw(t, "seg_k")
		switch {
		case k == 0 && b.nest < 3:
			b.conditional()
		case k == 1:
			b.pushOperand("lit")
		case k == 2 && b.genesis && b.nest > 0 && rapid.IntRange(0, 3).Draw(t, "ret_in") == 0:
			b.emit(0x6a) // OP_RETURN inside a conditional
		case k == 4 && b.nest > 0 && rapid.IntRange(0, 1).Draw(t, "odd_in") == 0:
			// opcodes whose legality depends on whether (and in which era) they execute:
			// disabled 2MUL/2DIV, reserved and undefined opcodes, an oversize push
			switch rapid.IntRange(0, 5).Draw(t, "odd_k") {
			case 0, 1:
				b.emit(byte(0x8d + rapid.IntRange(0, 1).Draw(t, "2div")))
			case 2:
				b.emit(rapid.SampledFrom([]byte{0x50, 0x62, 0x89, 0x8a}).Draw(t, "reserved"))
			case 3:
				b.emit(byte(rapid.IntRange(0xba, 0xff).Draw(t, "undefined")))
			case 4:
				b.emit(Push(make([]byte, 521), 0)...)
				b.depth++
			default:
				b.emit(0x8d)
			}
		case k == 3 && b.nest > 0 && rapid.IntRange(0, 2).Draw(t, "verif_in") == 0:
			// reserved branching opcodes: fine post-genesis as long as the branch is dead
			b.emit(byte(0x65 + rapid.IntRange(0, 1).Draw(t, "vernotif")))
		default:
			b.op(NonSigOps[rapid.IntRange(0, len(NonSigOps)-1).Draw(t, "op")])
		}
	}
}

func (b *builder) conditional() {
	t := b.t
	// condition
	switch rapid.IntRange(0, 5).Draw(t, "cond") {
	case 0:
		b.pushBytes([]byte{})
	case 1:
		b.pushBytes([]byte{1})
	case 2:
		b.pushOperand("condv")
	default:
		b.pushBytes([]byte{byte(rapid.IntRange(0, 2).Draw(t, "condn"))})
	}
	b.emit(byte(0x63 + rapid.IntRange(0, 1).Draw(t, "notif")))
	b.depth--
	b.nest++
	base, baseAlt := b.depth, b.alt
	body := func() {
		b.segment(rapid.IntRange(0, 4).Draw(t, "body_n"))
		// balance the branch so the tracker stays exact whichever branch runs
		for b.alt > baseAlt {
			b.emit(0x6c)
			b.alt--
			b.depth++
		}
		for b.depth > base {
			b.emit(0x75)
			b.depth--
		}
		for b.depth < base {
			b.pushBytes([]byte{byte(rapid.IntRange(0, 3).Draw(t, "bal"))})
		}
	}
	body()
	nElse := rapid.SampledFrom([]int{0, 1, 1, 1, 2}).Draw(t, "n_else")
	for i := 0; i < nElse; i++ {
		b.emit(0x67)
		body()
	}
	if rapid.IntRange(0, 29).Draw(t, "no_endif") != 0 {
		b.emit(0x68)
	}
	b.nest--
}

// FlagPoolNonSig are the flags C05 samples subsets of.
var FlagPoolNonSig = []interp.Flags{interp.FlagP2SH, interp.FlagDiscourageNops, interp.FlagCLTV, interp.FlagCSV, interp.FlagCleanStack,
	interp.FlagMinimalData, interp.FlagSigPushOnly, interp.FlagMinimalIf, interp.FlagAfterGenesis}

// Flags draws a subset of pool; CLEANSTACK without P2SH (documented as an
// invalid combination) is kept with low weight.
func Flags(t *rapid.T, pool []interp.Flags) interp.Flags {
	var f interp.Flags
	if rapid.IntRange(0, 3).Draw(t, "flags_none") == 0 {
		return 0
	}
	for i, p := range pool {
		w := 3
		if p == interp.FlagAfterGenesis {
			w = 1
		}
		if rapid.IntRange(0, w).Draw(t, "flag_"+string(rune('a'+i))) == 0 {
			f |= p
		}
	}
	if f.Has(interp.FlagCleanStack) && !f.Has(interp.FlagP2SH) && rapid.IntRange(0, 9).Draw(t, "keep_badcombo") != 0 {
		f |= interp.FlagP2SH
	}
	return f
}

// StackAware builds an L2 program: operand-aware opcode sequences with balanced
// conditionals, an optional clean finish, a split into unlocking/locking script
// and optional P2SH wrapping.
func StackAware(t *rapid.T, flags interp.Flags, maxOps int) Program {
	genesis := flags.Has(interp.FlagAfterGenesis)
	b := &builder{t: t, genesis: genesis}
	// unlocking part: pushes only most of the time
	nPush := rapid.IntRange(0, 4).Draw(t, "n_unlock_push")
	for i := 0; i < nPush; i++ {
		b.pushOperand("u")
	}
	if rapid.IntRange(0, 2).Draw(t, "unlock_ops") == 0 {
		b.segment(rapid.IntRange(1, 5).Draw(t, "unlock_n"))
		for b.alt > 0 { // alt stack does not survive the script boundary
			b.emit(0x6c)
			b.alt--
			b.depth++
		}
	}
	if genesis && rapid.IntRange(0, 24).Draw(t, "unlock_return") == 0 {
		b.emit(0x6a)
		b.emit(gen.Bytes(t, rapid.IntRange(0, 3).Draw(t, "junk_n"), "junk")...)
	}
	split := len(b.out)
	b.alt = 0
	b.segment(rapid.IntRange(1, maxOps).Draw(t, "n_ops"))
	// finish
	switch rapid.IntRange(0, 9).Draw(t, "finish") {
	case 0: // leave as is
	case 1: // top-level OP_RETURN with trailing bytes
		b.pushBytes([]byte{1})
		b.emit(0x6a)
		b.emit(gen.Bytes(t, rapid.IntRange(0, 4).Draw(t, "tail_n"), "tail")...)
	case 2, 3: // push true, leave the rest
		b.pushBytes([]byte{1})
	default: // clean finish: exactly one true item
		for b.alt > 0 {
			b.emit(0x6c, 0x75)
			b.alt--
		}
		for b.depth > 0 {
			if b.depth >= 2 && rapid.Bool().Draw(t, "2drop") {
				b.emit(0x6d)
				b.depth -= 2
			} else {
				b.emit(0x75)
				b.depth--
			}
		}
		b.pushBytes([]byte{byte(rapid.IntRange(1, 3).Draw(t, "final"))})
	}
	p := Program{Unlock: append([]byte{}, b.out[:split]...), Lock: append([]byte{}, b.out[split:]...), Flags: flags, Level: "L2"}
	if !genesis && flags.Has(interp.FlagP2SH) && rapid.IntRange(0, 2).Draw(t, "wrap_p2sh") == 0 && len(p.Lock) <= 520 {
		p = WrapP2SH(p, rapid.IntRange(0, 9).Draw(t, "wrong_hash") == 0)
		p.Level = "L2-p2sh"
	}
	return p
}

// Hash160 is RIPEMD160(SHA256(x)).
func Hash160(b []byte) []byte {
	s := sha256.Sum256(b)
	r := ripemd160.New()
	r.Write(s[:])
	return r.Sum(nil)
}

// WrapP2SH turns the locking script into a redeem script.
func WrapP2SH(p Program, wrongHash bool) Program {
	redeem := p.Lock
	h := Hash160(redeem)
	if wrongHash {
		h[0] ^= 1
	}
	lock := append([]byte{0xa9, 0x14}, h...)
	lock = append(lock, 0x87)
	unlock := append(append([]byte{}, p.Unlock...), interp.PushEncode(redeem)...)
	return Program{Unlock: unlock, Lock: lock, Flags: p.Flags, Level: p.Level}
}

// RandomOps builds an L1 program: well-formed instruction sequences over the
// whole 256-value alphabet (minus the excluded opcodes), no stack awareness.
func RandomOps(t *rapid.T, flags interp.Flags, exclude func(byte) bool) Program {
	n := rapid.IntRange(0, 24).Draw(t, "l1_n")
	var out []byte
	split := 0
	at := rapid.IntRange(0, n).Draw(t, "l1_split")
	for i := 0; i < n; i++ {
		if i == at {
			split = len(out)
		}
		if rapid.IntRange(0, 2).Draw(t, "l1_push") == 0 {
			out = append(out, drawPush(t, Operand(t, flags.Has(interp.FlagAfterGenesis), "l1_d"), "l1_d")...)
			continue
		}
		op := byte(rapid.IntRange(0x4f, 0xff).Draw(t, "l1_op"))
		if op > 0xba && rapid.IntRange(0, 3).Draw(t, "l1_hi") != 0 {
			op = byte(rapid.IntRange(0x61, 0xb9).Draw(t, "l1_op2"))
		}
		if exclude != nil && exclude(op) {
			op = 0x61
		}
		out = append(out, op)
	}
	if at == n {
		split = len(out)
	}
	return Program{Unlock: append([]byte{}, out[:split]...), Lock: append([]byte{}, out[split:]...), Flags: flags, Level: "L1"}
}

// RawBytes builds an L0 program from arbitrary bytes.
func RawBytes(t *rapid.T, flags interp.Flags, max int) Program {
	return Program{Unlock: gen.BytesUpTo(t, max, "l0_u"), Lock: gen.BytesUpTo(t, max, "l0_l"), Flags: flags, Level: "L0"}
}

// IsSigOp reports the signature-checking opcodes.
func IsSigOp(op byte) bool { return op >= 0xac && op <= 0xaf }

// Instructions splits a script into instruction byte ranges (best effort: an
// undecodable tail becomes one final chunk).
func Instructions(s []byte) [][]byte {
	var out [][]byte
	pc := 0
	for pc < len(s) {
		_, _, next, ok := interp.GetOp(s, pc)
		if !ok {
			out = append(out, s[pc:])
			break
		}
		out = append(out, s[pc:next])
		pc = next
	}
	return out
}

// MutateVector builds an L3 program by token- and byte-level mutation of a node vector.
func MutateVector(t *rapid.T, vs []interp.Vector, flagPool []interp.Flags, exclude func(byte) bool) Program {
	v := vs[rapid.IntRange(0, len(vs)-1).Draw(t, "vec")]
	flags := v.Flags
	if rapid.IntRange(0, 2).Draw(t, "reflag") == 0 {
		// toggle one or two flags
		for i := 0; i < rapid.IntRange(1, 2).Draw(t, "nflag"); i++ {
			flags ^= flagPool[rapid.IntRange(0, len(flagPool)-1).Draw(t, "flagi")]
		}
	}
	mut := func(s []byte, label string) []byte {
		ins := Instructions(s)
		nm := rapid.IntRange(0, 2).Draw(t, label+"_nm")
		for k := 0; k < nm; k++ {
			switch rapid.IntRange(0, 4).Draw(t, label+"_mk") {
			case 0: // replace an instruction by an opcode
				if len(ins) > 0 {
					ins[rapid.IntRange(0, len(ins)-1).Draw(t, label+"_ri")] = []byte{byte(rapid.IntRange(0x4f, 0xb9).Draw(t, label+"_rop"))}
				}
			case 1: // insert a push
				i := rapid.IntRange(0, len(ins)).Draw(t, label+"_ii")
				p := drawPush(t, Operand(t, flags.Has(interp.FlagAfterGenesis), label+"_id"), label+"_id")
				ins = append(ins[:i:i], append([][]byte{p}, ins[i:]...)...)
			case 2: // delete
				if len(ins) > 0 {
					i := rapid.IntRange(0, len(ins)-1).Draw(t, label+"_di")
					ins = append(ins[:i:i], ins[i+1:]...)
				}
			case 3: // insert an opcode
				i := rapid.IntRange(0, len(ins)).Draw(t, label+"_oi")
				ins = append(ins[:i:i], append([][]byte{{byte(rapid.IntRange(0x61, 0xb9).Draw(t, label+"_oop"))}}, ins[i:]...)...)
			case 4: // duplicate
				if len(ins) > 0 {
					i := rapid.IntRange(0, len(ins)-1).Draw(t, label+"_ui")
					ins = append(ins[:i:i], append([][]byte{ins[i]}, ins[i:]...)...)
				}
			}
		}
		var out []byte
		for _, x := range ins {
			out = append(out, x...)
		}
		if len(out) > 0 && rapid.IntRange(0, 9).Draw(t, label+"_flip") == 0 {
			i := rapid.IntRange(0, len(out)-1).Draw(t, label+"_fi")
			out[i] ^= 1 << uint(rapid.IntRange(0, 7).Draw(t, label+"_fb"))
		}
		return out
	}
	p := Program{Unlock: mut(v.Unlock, "mu"), Lock: mut(v.Lock, "ml"), Flags: flags, Level: "L3"}
	if exclude != nil {
		strip := func(s []byte) []byte {
			ins := Instructions(s)
			var out []byte
			for _, x := range ins {
				if len(x) == 1 && exclude(x[0]) {
					out = append(out, 0x61)
				} else {
					out = append(out, x...)
				}
			}
			return out
		}
		p.Unlock, p.Lock = strip(p.Unlock), strip(p.Lock)
	}
	return p
}
