package sgen

import (
	"math/big"

	"pgregory.net/rapid"

	"verif/harness/gen"
	"verif/harness/interp"
)

// P2SHLookalike draws a locking script that has the length (23 bytes), the first opcode
// (OP_HASH160) and the last opcode (OP_EQUAL) of the pay-to-script-hash template but not its
// middle (a 20-byte direct push): 21 bytes of well-formed instructions whose first is not 0x14.
// Such a script is an ordinary script; with the P2SH flag it must be evaluated as written.
// The unlocking script is a few pushes (the last one reads as a tiny script, which is what a
// P2SH evaluation would run).
func P2SHLookalike(t *rapid.T, flags interp.Flags) Program {
	mid := make([]byte, 0, 21)
	switch rapid.IntRange(0, 3).Draw(t, "pl_shape") {
	case 0: // a shorter direct push, then filler opcodes
		k := rapid.IntRange(0, 19).Draw(t, "pl_k")
		mid = append(mid, byte(k))
		mid = append(mid, gen.Bytes(t, k, "pl_d")...)
	case 1: // filler first, then a push
		k := rapid.IntRange(1, 18).Draw(t, "pl_k")
		pre := 21 - 1 - k
		for i := 0; i < pre; i++ {
			mid = append(mid, rapid.SampledFrom([]byte{0x76, 0x61, 0x82, 0x75, 0x51}).Draw(t, "pl_f"))
		}
		mid = append(mid, byte(k))
		mid = append(mid, gen.Bytes(t, k, "pl_d")...)
	case 2: // PUSHDATA1 with 19 bytes
		mid = append(mid, 0x4c, 0x13)
		mid = append(mid, gen.Bytes(t, 19, "pl_d")...)
	default: // the genuine template with its hash (control) or with one hash byte of the real redeem script flipped
		mid = append(mid, 0x14)
		mid = append(mid, Hash160([]byte{0x51})...)
		if rapid.Bool().Draw(t, "pl_flip") {
			mid[1+rapid.IntRange(0, 19).Draw(t, "pl_fi")] ^= 0x01
		}
	}
	for len(mid) < 21 {
		mid = append(mid, rapid.SampledFrom([]byte{0x76, 0x76, 0x61, 0x82, 0x75, 0x51, 0x87, 0x7c, 0x6d}).Draw(t, "pl_fill"))
	}
	lock := append(append([]byte{0xa9}, mid[:21]...), 0x87)
	var unlock []byte
	n := rapid.IntRange(1, 3).Draw(t, "pl_un")
	for i := 0; i < n; i++ {
		unlock = append(unlock, rapid.SampledFrom([][]byte{{0x51}, {0x00}, {0x01, 0x51}, {0x01, 0x61}, {0x02, 0x51, 0x51}, {0x01, 0x00}, {0x52}}).Draw(t, "pl_u")...)
	}
	if rapid.IntRange(0, 5).Draw(t, "pl_nonpush") == 0 {
		unlock = append(unlock, 0x61)
	}
	f := flags &^ interp.FlagAfterGenesis
	if rapid.IntRange(0, 4).Draw(t, "pl_p2sh") != 0 {
		f |= interp.FlagP2SH
	}
	if rapid.IntRange(0, 9).Draw(t, "pl_post") == 0 {
		f |= interp.FlagAfterGenesis
	}
	return Program{Unlock: unlock, Lock: lock, Flags: f, Level: "L4-p2sh-lookalike"}
}

// LockCtx is the transaction context a lock-time program is drawn for.
type LockCtx struct {
	Version, LockTime, Seq uint32
}

const seqMask = 0x0040ffff

// LockTimeProgram draws a program around OP_CHECKLOCKTIMEVERIFY / OP_CHECKSEQUENCEVERIFY together
// with the transaction context, the operand placed relative to it: equal, one below, one above,
// the other lock type, negative, wide. Sequence numbers are arbitrary 32-bit values (bits outside
// the lock-time mask set, the disable bit set or clear), lock times lie on both sides of the
// 500,000,000 threshold.
func LockTimeProgram(t *rapid.T, flags interp.Flags) (Program, LockCtx) {
	csv := rapid.Bool().Draw(t, "lt_csv")
	var c LockCtx
	c.Version = rapid.SampledFrom([]uint32{2, 2, 2, 1, 0, 3, 0xffffffff}).Draw(t, "lt_version")
	switch rapid.IntRange(0, 4).Draw(t, "lt_seqk") {
	case 0:
		c.Seq = 0xffffffff
	case 1:
		c.Seq = rapid.Uint32().Draw(t, "lt_seq") | 1<<31
	default:
		c.Seq = rapid.Uint32().Draw(t, "lt_seq") &^ (1 << 31)
		if rapid.Bool().Draw(t, "lt_seq_masked") {
			c.Seq &= seqMask
		}
	}
	switch rapid.IntRange(0, 3).Draw(t, "lt_ltk") {
	case 0:
		c.LockTime = rapid.SampledFrom([]uint32{0, 1, 499999999, 500000000, 500000001, 0xffffffff}).Draw(t, "lt_lt_edge")
	case 1:
		c.LockTime = rapid.Uint32Range(500000000, 0xffffffff).Draw(t, "lt_lt_time")
	default:
		c.LockTime = rapid.Uint32Range(0, 499999999).Draw(t, "lt_lt_height")
	}
	base := int64(c.LockTime)
	if csv {
		base = int64(c.Seq & seqMask)
	}
	var n int64
	switch rapid.IntRange(0, 9).Draw(t, "lt_nk") {
	case 0, 1, 2:
		n = base
	case 3:
		n = base - 1
	case 4:
		n = base + 1
	case 5: // the other lock type
		if csv {
			n = base ^ (1 << 22)
		} else if base < 500000000 {
			n = 500000000 + base%1000
		} else {
			n = base % 500000000
		}
	case 6:
		n = -base - 1
	case 7:
		n = base | 1<<31 // disable bit in the operand (CSV: behaves as a NOP)
	case 8:
		n = int64(rapid.Uint32().Draw(t, "lt_n_any"))
	default:
		n = rapid.SampledFrom([]int64{0, 1, -1, 0x7fffffff, 0x80000000, 0xffffffff, 0x100000000, 0x7fffffffff, 0x8000000000}).Draw(t, "lt_n_edge")
	}
	operand := interp.EncodeNum(big.NewInt(n))
	if rapid.IntRange(0, 11).Draw(t, "lt_nonmin") == 0 {
		operand = append(operand, 0x00) // non-minimal: judged by MINIMALDATA
		if l := len(operand); l >= 2 && operand[l-2]&0x80 != 0 {
			operand[l-2] &= 0x7f
			operand[l-1] = 0x80
		}
	}
	op := byte(0xb1)
	f := flags
	if csv {
		op = 0xb2
		if rapid.IntRange(0, 5).Draw(t, "lt_flag") != 0 {
			f |= interp.FlagCSV
		}
	} else if rapid.IntRange(0, 5).Draw(t, "lt_flag") != 0 {
		f |= interp.FlagCLTV
	}
	if rapid.IntRange(0, 3).Draw(t, "lt_pre") != 0 {
		f &^= interp.FlagAfterGenesis
	}
	var lock []byte
	switch rapid.IntRange(0, 4).Draw(t, "lt_shape") {
	case 0:
		lock = []byte{op}
	case 1:
		lock = []byte{op, 0x75, 0x51}
	case 2: // in a dead branch
		lock = []byte{0x00, 0x63, op, 0x68}
	case 3: // twice
		lock = []byte{op, op, 0x75, 0x51}
	default:
		lock = []byte{0x76, op, 0x75, op}
	}
	unlock := Push(operand, 0)
	if rapid.IntRange(0, 19).Draw(t, "lt_empty") == 0 {
		unlock = nil
	}
	return Program{Unlock: unlock, Lock: lock, Flags: f, Level: "L5-locktime"}, c
}

// DeepStack draws a program that works on a deep data stack next to a busy alt stack: a burst of
// OP_DEPTH (each pushes a distinct number) up to a depth around a power of two or a typical initial
// capacity (16, 32, 64, 128, 256), then a mix of OP_DEPTH, TOALTSTACK / FROMALTSTACK, PICK / ROLL of
// deep items, DUP forms and DROPs that moves the depth back and forth across that point. Every item
// is distinct, so storage shared between the two stacks, or between items, shows in the per-step
// comparison with the reference.
func DeepStack(t *rapid.T, flags interp.Flags) Program {
	around := rapid.SampledFrom([]int{16, 32, 64, 64, 128, 128, 256}).Draw(t, "ds_around")
	depth, alt := 0, 0
	var lock []byte
	burst := around - rapid.IntRange(1, 6).Draw(t, "ds_short")
	for i := 0; i < burst; i++ {
		if i%7 == 3 { // a few items go to the alt stack early
			lock = append(lock, 0x74, 0x6b)
			alt++
			continue
		}
		lock = append(lock, 0x74)
		depth++
	}
	n := rapid.IntRange(10, 90).Draw(t, "ds_ops")
	for i := 0; i < n; i++ {
		switch k := rapid.IntRange(0, 11).Draw(t, "ds_op"); {
		case k <= 3:
			lock = append(lock, 0x74) // DEPTH
			depth++
		case k == 4:
			lock = append(lock, 0x74, 0x6b) // DEPTH TOALTSTACK
			alt++
		case k == 5 && alt > 0:
			lock = append(lock, 0x6c) // FROMALTSTACK
			alt--
			depth++
		case k == 6 && depth >= 1:
			lock = append(lock, 0x6b) // TOALTSTACK
			alt++
			depth--
		case k == 7 && depth >= 2:
			j := rapid.IntRange(0, depth-1).Draw(t, "ds_pick")
			lock = append(lock, Push(interp.EncodeNum(big.NewInt(int64(j))), 0)...)
			lock = append(lock, 0x79) // PICK
			depth++
		case k == 8 && depth >= 2:
			j := rapid.IntRange(0, depth-1).Draw(t, "ds_roll")
			lock = append(lock, Push(interp.EncodeNum(big.NewInt(int64(j))), 0)...)
			lock = append(lock, 0x7a) // ROLL
		case k == 9 && depth >= 3:
			lock = append(lock, 0x6f) // 3DUP
			depth += 3
		case k == 10 && depth >= 1:
			lock = append(lock, 0x75) // DROP
			depth--
		default:
			lock = append(lock, 0x74)
			depth++
		}
	}
	lock = append(lock, 0x51)
	f := flags
	if len(lock) > 480 { // keep within the pre-genesis operation count only when it fits
		f |= interp.FlagAfterGenesis
	}
	return Program{Unlock: []byte{0x51}, Lock: lock, Flags: f &^ interp.FlagCleanStack, Level: "L6-deepstack"}
}
