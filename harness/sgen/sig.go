package sgen

import (
	"fmt"
	"math/big"

	"github.com/libsv/go-bk/bec"
	"pgregory.net/rapid"

	"verif/harness/gen"
	"verif/harness/interp"
	"verif/harness/pbt"
	"verif/harness/ref"
)

// SigProgram is a generated signature-checking program with its transaction.
type SigProgram struct {
	Unlock []byte
	Lock   []byte
	Flags  interp.Flags
	Tx     ref.Tx
	Idx    int
	Amount uint64
	Desc   string
}

// FlagPoolSig are the signature-related flags (both eras are drawn separately).
var FlagPoolSig = []interp.Flags{interp.FlagStrictEnc, interp.FlagDERSig, interp.FlagLowS, interp.FlagNullDummy, interp.FlagNullFail, interp.FlagForkID}

type key struct {
	priv *bec.PrivateKey
	pub  []byte
}

func drawKey(t *rapid.T, label string) key {
	b := gen.Bytes(t, 32, label)
	n := new(big.Int).SetBytes(b)
	n.Mod(n, new(big.Int).Sub(bec.S256().N, big.NewInt(1)))
	n.Add(n, big.NewInt(1))
	kb := n.Bytes()
	kb = append(make([]byte, 32-len(kb)), kb...)
	priv, pub := bec.PrivKeyFromBytes(bec.S256(), kb)
	var enc []byte
	switch rapid.IntRange(0, 9).Draw(t, label+"_enc") {
	case 0, 1, 2:
		enc = pub.SerialiseUncompressed()
	case 3:
		enc = pub.SerialiseHybrid()
	default:
		enc = pub.SerialiseCompressed()
	}
	// encodings that are not a key: a legal length with the format byte of the other length, a
	// legal format byte with a neighbouring length, undefined format bytes, an X that is on no curve
	// point, hybrid with the wrong parity. What the rules make of them depends on STRICTENC (hard
	// failure before anything else) or not (the signature check is simply false).
	if rapid.IntRange(0, 11).Draw(t, label+"_badenc") == 0 {
		c, u := pub.SerialiseCompressed(), pub.SerialiseUncompressed()
		switch rapid.IntRange(0, 9).Draw(t, label+"_badenc_k") {
		case 0:
			enc = append([]byte{rapid.SampledFrom([]byte{0x04, 0x06, 0x07}).Draw(t, label+"_fmt")}, c[1:]...)
		case 1:
			enc = append([]byte{rapid.SampledFrom([]byte{0x02, 0x03}).Draw(t, label+"_fmt")}, u[1:]...)
		case 2:
			enc = c[:32]
		case 3:
			enc = append(append([]byte{}, c...), 0x00)
		case 4:
			enc = u[:64]
		case 5:
			enc = append(append([]byte{}, u...), 0x00)
		case 6:
			enc = append([]byte{rapid.SampledFrom([]byte{0x00, 0x01, 0x05, 0x08, 0xff}).Draw(t, label+"_fmt")}, c[1:]...)
		case 7:
			enc = append([]byte{rapid.SampledFrom([]byte{0x00, 0x05, 0x08, 0xff}).Draw(t, label+"_fmt")}, u[1:]...)
		case 8: // X = 5 is the abscissa of no point on secp256k1
			enc = append([]byte{0x02}, make([]byte, 32)...)
			enc[32] = 0x05
		default: // hybrid whose format byte claims the other parity
			enc = pub.SerialiseHybrid()
			enc[0] ^= 0x01
		}
	}
	return key{priv: priv, pub: enc}
}

func derInt(v *big.Int, pad bool) []byte {
	b := v.Bytes()
	if len(b) == 0 {
		b = []byte{0}
	}
	if b[0]&0x80 != 0 {
		b = append([]byte{0}, b...)
	}
	if pad {
		b = append([]byte{0}, b...)
	}
	return append([]byte{0x02, byte(len(b))}, b...)
}

func der(r, s *big.Int, padR, padS bool) []byte {
	body := append(derInt(r, padR), derInt(s, padS)...)
	return append([]byte{0x30, byte(len(body))}, body...)
}

// sigClass names how a signature slot deviates from a correct signature.
var sigClasses = []string{"correct", "correct", "correct", "correct", "correct", "correct", "wrongmsg", "wrongkey", "empty", "highS", "padR", "padS", "truncated", "badtype", "forkmismatch", "onlytype", "garbage", "dermut", "dermut", "negR", "negS", "zeroS", "longpad", "edgeS"}

type recChecker struct {
	codes map[byte][]byte // placeholder id -> script code handed to CheckSig
}

func (r *recChecker) CheckSig(sig, _ []byte, code []byte, _ bool) bool {
	if len(sig) >= 2 && sig[0] == 0xf5 {
		if _, ok := r.codes[sig[1]]; !ok {
			r.codes[sig[1]] = append([]byte{}, code...)
		}
	}
	return true
}
func (r *recChecker) CheckLockTime(*big.Int) bool { return true }
func (r *recChecker) CheckSequence(*big.Int) bool { return true }

type slot struct {
	id    byte
	ht    byte
	class string
	key   int // index into keys (signing key)
}

func num(n int) []byte { return Push(interp.EncodeNum(big.NewInt(int64(n))), 0) }

// SigScripts draws a signature program: keys, template (P2PK, P2PKH, bare
// m-of-n, two chained signature operations), OP_CODESEPARATOR insertions
// (plain, executed or skipped inside a conditional, at any instruction
// position), per-slot signature classes and hash types, flags.
func SigScripts(t *rapid.T) SigProgram {
	o := gen.TxOpts{MinIn: 1, MaxIn: 4, MinOut: 0, MaxOut: 4, MaxScript: 40, ScriptEdges: []int{0, 1, 25}}
	tx := gen.Tx(t, o)
	idx := rapid.IntRange(0, len(tx.In)-1).Draw(t, "idx")
	return SigScriptsFor(t, tx, idx)
}

// SigScriptsFor draws a signature program for input idx of the given transaction (whose other
// inputs and outputs are what the signatures commit to). The returned program's Tx is a copy of tx
// with the spent output of input idx recorded; the caller installs the unlocking script.
func SigScriptsFor(t *rapid.T, tx ref.Tx, idx int) SigProgram {
	tx.In = append([]ref.In{}, tx.In...)
	// flags
	var flags interp.Flags
	for i, f := range FlagPoolSig {
		w := 2
		if f == interp.FlagForkID {
			w = 1
		}
		if rapid.IntRange(0, w).Draw(t, "sf_"+string(rune('a'+i))) == 0 {
			flags |= f
		}
	}
	if rapid.Bool().Draw(t, "genesis") {
		flags |= interp.FlagAfterGenesis
	}
	if rapid.IntRange(0, 7).Draw(t, "minimal") == 0 {
		flags |= interp.FlagMinimalData
	}
	forkFlag := flags.Has(interp.FlagForkID)

	amount := gen.U64(t, "amount")

	// keys
	nKeys := rapid.SampledFrom([]int{1, 1, 2, 2, 3, 3, 4, 5}).Draw(t, "nkeys")
	keys := make([]key, nKeys+1)
	for i := range keys {
		keys[i] = drawKey(t, "key")
	}
	unlisted := nKeys

	var lock [][]byte // instruction chunks
	var slots []slot
	var unlockOrder []int // slot indices bottom-to-top order to push, -1 = dummy, -2.. = pubkey push
	var pubPush [][]byte
	desc := ""
	nextID := byte(0)
	newSlot := func(k int) int {
		ht := rapid.SampledFrom([]byte{1, 1, 1, 2, 3, 0x81, 0x82, 0x83}).Draw(t, "ht")
		if forkFlag {
			ht |= 0x40
		}
		cl := rapid.SampledFrom(sigClasses).Draw(t, "class")
		slots = append(slots, slot{id: nextID, ht: ht, class: cl, key: k})
		nextID++
		return len(slots) - 1
	}
	sigOp := func(verifyForm bool, base byte) []byte {
		if verifyForm {
			return []byte{base + 1}
		}
		return []byte{base}
	}
	tmpl := rapid.SampledFrom([]string{"p2pk", "p2pkh", "multisig", "multisig", "multisig", "chain"}).Draw(t, "tmpl")
	desc = tmpl
	// the pushes of the locking script use, one time in six, a longer form than necessary
	// (OP_PUSHDATA1 / 2 / 4): the script code that is signed is the bytes as they are
	lockForm := 0
	if rapid.IntRange(0, 5).Draw(t, "lock_push_form") == 0 {
		lockForm = rapid.IntRange(2, 4).Draw(t, "lock_push_form_v")
		desc += fmt.Sprintf("+lockpushform%d", lockForm)
	}
	verifyForm := rapid.IntRange(0, 3).Draw(t, "verify_form") == 0
	switch tmpl {
	case "p2pk":
		lock = append(lock, Push(keys[0].pub, lockForm), sigOp(verifyForm, 0xac))
		unlockOrder = []int{newSlot(0)}
	case "p2pkh":
		lock = append(lock, []byte{0x76}, []byte{0xa9}, Push(Hash160(keys[0].pub), lockForm), []byte{0x88}, sigOp(verifyForm, 0xac))
		pubPush = append(pubPush, Push(keys[0].pub, 0))
		unlockOrder = []int{newSlot(0), -2}
	case "multisig":
		n := nKeys
		m := rapid.IntRange(0, n).Draw(t, "m")
		// counts may come as wide numbers that are congruent to the intended count modulo 2^32 or
		// 2^64 (k + 2^32, k + 2^64, k - 2^64): an implementation that narrows them sees k
		wide := func(k int, label string) []byte {
			if rapid.IntRange(0, 14).Draw(t, label) != 0 {
				return num(k)
			}
			v := new(big.Int).Lsh(big.NewInt(1), uint(rapid.SampledFrom([]int{32, 63, 64, 64}).Draw(t, label+"_bits")))
			if rapid.IntRange(0, 3).Draw(t, label+"_neg") == 0 {
				v.Neg(v)
			}
			v.Add(v, big.NewInt(int64(k)))
			return Push(interp.EncodeNum(v), 0)
		}
		lock = append(lock, wide(m, "m_wide"))
		for i := 0; i < n; i++ {
			kp := keys[i].pub
			if rapid.IntRange(0, 14).Draw(t, "badkey") == 0 {
				kp = rapid.SampledFrom([][]byte{{}, {0x02}, append([]byte{0x05}, kp[1:]...), kp[:len(kp)-1]}).Draw(t, "badkeyv")
			}
			lock = append(lock, Push(kp, lockForm))
		}
		nDecl := n
		if rapid.IntRange(0, 19).Draw(t, "ndecl_off") == 0 {
			nDecl = n + rapid.SampledFrom([]int{-1, 1}).Draw(t, "ndecl_d")
		}
		lock = append(lock, wide(nDecl, "n_wide"), sigOp(verifyForm, 0xae))
		// which keys sign: in order (success) most of the time
		order := make([]int, 0, m)
		ordKind := rapid.IntRange(0, 6).Draw(t, "order")
		switch ordKind {
		case 0: // reversed subset: wrong order
			for i := n - 1; i >= 0 && len(order) < m; i-- {
				order = append(order, i)
			}
		case 1: // one key repeated (tenth round: any key, not only the first - a key vouches for one signature only)
			rk := 0
			if n > 1 {
				rk = rapid.IntRange(0, n-1).Draw(t, "repeated_key")
			}
			for len(order) < m {
				order = append(order, rk)
			}
			if m >= 2 {
				desc += "+one-signer-repeated"
			}
		default: // increasing subset
			skip := n - m
			for i := 0; i < n && len(order) < m; i++ {
				if skip > 0 && rapid.Bool().Draw(t, "skipkey") {
					skip--
					continue
				}
				order = append(order, i)
			}
			for i := n - 1; len(order) < m; i-- { // not enough: top up (may break order)
				order = append(order, i)
			}
			if ordKind == 6 && len(order) >= 2 { // (tenth round) an increasing subset in which one signer appears twice in a row
				j := rapid.IntRange(0, len(order)-2).Draw(t, "dup_at")
				if rapid.Bool().Draw(t, "dup_later") {
					order[j] = order[j+1]
				} else {
					order[j+1] = order[j]
				}
				desc += "+one-signer-twice"
			}
		}
		unlockOrder = []int{-1}
		// signatures are pushed so that the first signature is deepest... the opcode pairs
		// the top-most signature with the top-most key, i.e. push in key order bottom-up
		for _, k := range order {
			unlockOrder = append(unlockOrder, newSlot(k))
		}
	case "chain":
		second := 0
		if nKeys > 1 {
			second = 1
		}
		lock = append(lock, Push(keys[0].pub, lockForm), []byte{0xad}, Push(keys[second].pub, lockForm), sigOp(verifyForm, 0xac))
		s1 := newSlot(0)
		s2 := newSlot(second)
		unlockOrder = []int{s2, s1}
	}
	if verifyForm {
		lock = append(lock, []byte{0x51})
	}
	if rapid.IntRange(0, 2).Draw(t, "not") == 0 {
		lock = append(lock, []byte{0x91})
		desc += "+NOT"
	}
	// OP_CODESEPARATOR at any instruction position
	nSep := rapid.SampledFrom([]int{0, 0, 1, 1, 2}).Draw(t, "nsep")
	for i := 0; i < nSep; i++ {
		pos := rapid.IntRange(0, len(lock)).Draw(t, "seppos")
		var chunk []byte
		switch rapid.IntRange(0, 3).Draw(t, "sepkind") {
		case 0:
			chunk = []byte{0x51, 0x63, 0xab, 0x68} // executed inside IF
		case 1:
			chunk = []byte{0x00, 0x63, 0xab, 0x68} // skipped
		default:
			chunk = []byte{0xab}
		}
		lock = append(lock[:pos:pos], append([][]byte{chunk}, lock[pos:]...)...)
		desc += "+sep"
	}
	var lockBody []byte
	for _, c := range lock {
		lockBody = append(lockBody, c...)
	}
	// legacy digests remove pushes of the signature from the script code: sometimes put the
	// very signature that is being checked into the locking script as well (<sig> DROP ...)
	// ... once, or two or three times - adjacent (<sig> <sig> 2DROP) or apart (<sig> DROP <sig>
	// DROP) - and sometimes one copy in a longer push form, which is NOT what gets removed
	embed, embedN, embedAdjacent, embedForm := -1, 1, false, 0
	if !forkFlag && len(slots) > 0 && rapid.IntRange(0, 5).Draw(t, "embed_sig") == 0 {
		embed = rapid.IntRange(0, len(slots)-1).Draw(t, "embed_slot")
		embedN = rapid.SampledFrom([]int{1, 1, 2, 2, 3}).Draw(t, "embed_n")
		embedAdjacent = rapid.Bool().Draw(t, "embed_adjacent")
		if rapid.IntRange(0, 3).Draw(t, "embed_form") == 0 {
			embedForm = rapid.IntRange(2, 4).Draw(t, "embed_form_v")
		}
		desc += fmt.Sprintf("+sig-in-lock(x%d,adjacent=%v,form=%d)", embedN, embedAdjacent, embedForm)
	}
	redeemOf := func(sigs map[int][]byte) []byte {
		if embed < 0 {
			return lockBody
		}
		var l []byte
		for i := 0; i < embedN; i++ {
			form := 0
			if i == embedN-1 {
				form = embedForm
			}
			l = append(l, Push(sigs[embed], form)...)
			if !embedAdjacent {
				l = append(l, 0x75)
			}
		}
		if embedAdjacent {
			for i := 0; i < embedN; i++ {
				l = append(l, 0x75)
			}
		}
		return append(l, lockBody...)
	}
	// P2SH (pre-genesis, BIP16 flag): the program above becomes the redeem script pushed last by
	// the unlocking script; the script code signed is then the redeem script's
	p2sh := !flags.Has(interp.FlagAfterGenesis) && embed < 0 && len(lockBody) <= 520 && rapid.IntRange(0, 3).Draw(t, "p2sh") == 0
	if p2sh {
		flags |= interp.FlagP2SH
		desc += "+p2sh"
	}
	buildLock := func(sigs map[int][]byte) []byte {
		r := redeemOf(sigs)
		if !p2sh {
			return r
		}
		l := append([]byte{0xa9, 0x14}, Hash160(r)...)
		return append(l, 0x87)
	}
	var build func(sigs map[int][]byte) []byte
	// pass 1: placeholders, learn the script code of every slot
	ph := map[int][]byte{}
	for i, s := range slots {
		p := make([]byte, 71)
		p[0], p[1] = 0xf5, s.id
		p[70] = s.ht
		ph[i] = p
	}
	// the dummy draw inside build must be identical in both passes: draw it once
	dummyNonEmpty := false
	for _, e := range unlockOrder {
		if e == -1 {
			dummyNonEmpty = rapid.IntRange(0, 5).Draw(t, "dummy_nonempty") == 0
		}
	}
	// decorations of the unlocking script: an OP_CODESEPARATOR as its first instruction or after
	// its first push, and (after genesis) a top-level OP_RETURN ending it. None of them may
	// influence the locking script's script code: separator state is per script.
	uSepFirst := rapid.IntRange(0, 7).Draw(t, "u_sep_first") == 0 && (!p2sh || rapid.IntRange(0, 4).Draw(t, "u_sep_p2sh") == 0)
	uSepMid := rapid.IntRange(0, 11).Draw(t, "u_sep_mid") == 0 && !p2sh
	uReturn := flags.Has(interp.FlagAfterGenesis) && rapid.IntRange(0, 7).Draw(t, "u_return") == 0
	var uJunk []byte
	if uReturn {
		uJunk = gen.Bytes(t, rapid.IntRange(0, 3).Draw(t, "u_junk_n"), "u_junk")
		desc += "+unlock-return"
	}
	if uSepFirst || uSepMid {
		desc += "+unlock-sep"
	}
	// a signature operation inside the unlocking script itself (<sig> <key> [CODESEPARATOR]
	// CHECKSIG DROP) before or after the pushes: its script code is the unlocking script's, and
	// nothing it computes may carry over into the locking script's checks
	uCheck := !p2sh && len(slots) > 0 && rapid.IntRange(0, 5).Draw(t, "u_check") == 0
	uSlot, uAtEnd, uSepIn := -1, false, false
	var uTail []byte
	if uCheck {
		uSlot = newSlot(0)
		if rapid.IntRange(0, 2).Draw(t, "u_check_sameht") > 0 {
			slots[uSlot].ht = slots[0].ht
		}
		slots[uSlot].class = rapid.SampledFrom([]string{"correct", "correct", "correct", "wrongmsg", "lockcode", "lockcode", "empty", "garbage"}).Draw(t, "u_check_class")
		uAtEnd = rapid.Bool().Draw(t, "u_check_end")
		uSepIn = rapid.IntRange(0, 2).Draw(t, "u_check_sep") > 0
		uTail = rapid.SampledFrom([][]byte{{0x75}, {0x75}, {0x69}, {0x91, 0x75}}).Draw(t, "u_check_tail")
		if rapid.IntRange(0, 3).Draw(t, "u_check_cross") == 0 { // a locking-script signature made over the unlocking script's code
			j := rapid.IntRange(0, uSlot-1).Draw(t, "u_check_cross_slot")
			slots[j].class = "unlockcode"
			slots[j].ht = slots[uSlot].ht
		}
		desc += "+unlock-checksig"
	}
	if uCheck && uReturn && !forkFlag {
		// The bytes after the closing OP_RETURN are now part of a script code hashed with the legacy
		// digest. What "separator removal" means for bytes that are never executed - and for a tail
		// that does not even parse - is not fixed by the property (the node walks them with GetOp,
		// the library keeps them as the OP_RETURN's payload): keep them parsable and free of 0xab.
		for i := range uJunk {
			uJunk[i] = []byte{0x51, 0x00, 0x61, 0x75, 0x60, 0xee, 0x52, 0x6a}[int(uJunk[i])%8]
		}
	}
	uBlock := func(sigs map[int][]byte) []byte {
		b := append(Push(sigs[uSlot], 0), Push(keys[0].pub, 0)...)
		if uSepIn {
			b = append(b, 0xab)
		}
		b = append(b, 0xac)
		return append(b, uTail...)
	}
	build = func(sigs map[int][]byte) []byte {
		var u []byte
		if uSepFirst {
			u = append(u, 0xab)
		}
		if uCheck && !uAtEnd {
			u = append(u, uBlock(sigs)...)
		}
		pk := 0
		for n, e := range unlockOrder {
			if n == 1 && uSepMid {
				u = append(u, 0xab)
			}
			switch {
			case e == -1:
				if dummyNonEmpty {
					u = append(u, 0x51)
				} else {
					u = append(u, 0x00)
				}
			case e == -2:
				u = append(u, pubPush[pk]...)
				pk++
			default:
				u = append(u, Push(sigs[e], 0)...)
			}
		}
		if p2sh {
			u = append(u, Push(redeemOf(sigs), 0)...)
		}
		if uCheck && uAtEnd {
			u = append(u, uBlock(sigs)...)
		}
		if uReturn {
			u = append(u, 0x6a)
			u = append(u, uJunk...)
		}
		return u
	}
	if uCheck {
		p := make([]byte, 71)
		p[0], p[1], p[70] = 0xf5, slots[uSlot].id, slots[uSlot].ht
		ph[uSlot] = p
		for i, sl := range slots { // hash types may have been aligned above
			ph[i][70] = sl.ht
		}
	}
	rc := &recChecker{codes: map[byte][]byte{}}
	pass1Flags := flags & (interp.FlagForkID | interp.FlagAfterGenesis)
	tx.In[idx].PrevSats = amount
	tx.In[idx].PrevScript = pbt.Hex(buildLock(ph))
	interp.VerifyScript(build(ph), buildLock(ph), pass1Flags, rc, false, interp.DefaultLimits)
	chk := interp.TxChecker{Tx: tx, Idx: idx, Amount: amount}
	// pass 2: real signatures
	real := map[int][]byte{}
	for i, s := range slots {
		if i == uSlot {
			// signed last: its script code is the unlocking script, which holds the others
			for j := range slots {
				if _, ok := real[j]; !ok {
					real[j] = ph[j]
				}
			}
			rc2 := &recChecker{codes: map[byte][]byte{}}
			interp.VerifyScript(build(real), buildLock(real), pass1Flags, rc2, false, interp.DefaultLimits)
			if c, ok := rc2.codes[s.id]; ok {
				rc.codes[s.id] = c
			}
		}
		code, ok := rc.codes[s.id]
		if !ok {
			code = lockBody // the slot is never checked; sign something plausible
		}
		switch s.class {
		case "unlockcode":
			if c, ok := rc.codes[slots[uSlot].id]; ok {
				code = c
			}
		case "lockcode":
			if c, ok := rc.codes[slots[0].id]; ok {
				code = c
			}
		}
		ht := s.ht
		k := keys[s.key]
		switch s.class {
		case "wrongkey":
			k = keys[unlisted]
		case "badtype":
			ht = rapid.SampledFrom([]byte{0x00, 0x04, 0x05, 0x1f, 0x20, 0x44, 0x80, 0xc0, 0xc4}).Draw(t, "badht")
		case "forkmismatch":
			ht ^= 0x40
		}
		digest := chk.SigDigest(ht, code, forkFlag)
		if s.class == "wrongmsg" {
			digest = append([]byte{}, digest...)
			digest[rapid.IntRange(0, 31).Draw(t, "flipbyte")] ^= 0x01
		}
		sg, err := k.priv.Sign(digest)
		if err != nil {
			real[i] = []byte{}
			continue
		}
		r, sv := sg.R, sg.S
		var body []byte
		switch s.class {
		case "highS":
			body = der(r, new(big.Int).Sub(bec.S256().N, sv), false, false)
		case "padR":
			body = der(r, sv, true, false)
		case "padS":
			body = der(r, sv, false, true)
		case "truncated":
			body = der(r, sv, false, false)
			body = body[:len(body)-1]
		case "dermut": // one byte of a valid encoding replaced (headers, lengths, markers, value bytes)
			body = der(r, sv, false, false)
			body[rapid.IntRange(0, len(body)-1).Draw(t, "dermut_i")] = byte(rapid.IntRange(0, 255).Draw(t, "dermut_b"))
		case "negR", "negS": // the zero byte that keeps a high-bit value positive is left out
			rb, sb := new(big.Int).Set(r), new(big.Int).Set(sv)
			if s.class == "negR" {
				rb.SetBit(rb, 255, 1)
			} else {
				sb.SetBit(sb, 255, 1)
			}
			rB, sB := rb.Bytes(), sb.Bytes()
			if s.class != "negR" && rB[0]&0x80 != 0 {
				rB = append([]byte{0}, rB...)
			}
			if s.class != "negS" && sB[0]&0x80 != 0 {
				sB = append([]byte{0}, sB...)
			}
			inner := append(append([]byte{0x02, byte(len(rB))}, rB...), append([]byte{0x02, byte(len(sB))}, sB...)...)
			body = append([]byte{0x30, byte(len(inner))}, inner...)
		case "longpad": // a valid encoding followed by excess bytes: the whole element is 75..77 / 255 / 256 bytes
			body = der(r, sv, false, false)
			target := rapid.SampledFrom([]int{75, 76, 76, 77, 80, 255, 256}).Draw(t, "longpad_len") - 1
			for len(body) < target {
				body = append(body, byte(0x11+len(body)))
			}
		case "edgeS": // S on and next to the bounds an implementation compares it with: n/2 (low-S), n, p/2, p, 2^255
			n := bec.S256().N
			pf := bec.S256().Params().P
			base := rapid.SampledFrom([]*big.Int{new(big.Int).Rsh(n, 1), n, new(big.Int).Rsh(pf, 1), pf, new(big.Int).Lsh(big.NewInt(1), 255), new(big.Int).Lsh(big.NewInt(1), 128), big.NewInt(0)}).Draw(t, "edges_base")
			d := rapid.SampledFrom([]int64{-2, -1, 0, 1, 2}).Draw(t, "edges_d")
			sv2 := new(big.Int).Add(base, big.NewInt(d))
			if rapid.IntRange(0, 3).Draw(t, "edges_far") == 0 { // somewhere inside (n/2, p/2] or just above n/2 by a large step
				sv2 = new(big.Int).Add(new(big.Int).Rsh(n, 1), new(big.Int).Lsh(big.NewInt(1), uint(rapid.IntRange(1, 126).Draw(t, "edges_shift"))))
			}
			if sv2.Sign() <= 0 {
				sv2 = big.NewInt(1)
			}
			body = der(r, sv2, false, false)
		case "zeroS":
			rB := derInt(r, false)
			inner := append(rB, 0x02, 0x00)
			body = append([]byte{0x30, byte(len(inner))}, inner...)
		default:
			body = der(r, sv, false, false)
		}
		switch s.class {
		case "empty":
			real[i] = []byte{}
		case "onlytype":
			real[i] = []byte{ht}
		case "garbage":
			real[i] = append(gen.Bytes(t, rapid.IntRange(1, 12).Draw(t, "garb_n"), "garb"), ht)
		default:
			real[i] = append(body, ht)
		}
	}
	for _, s := range slots {
		desc += "/" + s.class
	}
	finalLock := buildLock(real)
	tx.In[idx].PrevScript = pbt.Hex(finalLock)
	return SigProgram{Unlock: build(real), Lock: finalLock, Flags: flags, Tx: tx, Idx: idx, Amount: amount, Desc: desc}
}
