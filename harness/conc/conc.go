// Package conc runs read-only calls on one shared object from several goroutines
// and compares every answer with the expected one. A function that reads an
// object may be called from many goroutines at once; one that changes the
// object while it works and puts it back afterwards is not read-only, and the
// other callers see it. The goroutine schedule is the only thing not drawn by
// the generators, so sub-checks built on this are listed in FLAKY_SUBS.txt.
package conc

import (
	"bytes"
	"fmt"
	"sync"
)

// Call is one read-only call with the answer it must give.
type Call struct {
	Name string
	F    func() ([]byte, error)
	Want []byte
}

// Readers starts g goroutines; goroutine k performs the calls k, k+1+k%3, ... in `rounds`
// rounds, all released together. It returns the first wrong answer.
func Readers(calls []Call, g, rounds int) error {
	if len(calls) == 0 || g < 1 {
		return nil
	}
	var mu sync.Mutex
	var first error
	var wg sync.WaitGroup
	start := make(chan struct{})
	for k := 0; k < g; k++ {
		wg.Add(1)
		go func(k int) {
			defer wg.Done()
			defer func() {
				if x := recover(); x != nil {
					mu.Lock()
					if first == nil {
						first = fmt.Errorf("panic in a read-only call while %d goroutines use one shared object: %v", g, x)
					}
					mu.Unlock()
				}
			}()
			<-start
			for r := 0; r < rounds; r++ {
				for i := k % len(calls); i < len(calls); i += 1 + k%3 {
					c := calls[i]
					got, err := c.F()
					var bad error
					if err != nil {
						bad = fmt.Errorf("%s failed while %d goroutines use one shared object: %v", c.Name, g, err)
					} else if !bytes.Equal(got, c.Want) {
						bad = fmt.Errorf("%s gave a different answer while %d goroutines use one shared object:\n got  %x\n want %x", c.Name, g, clip(got), clip(c.Want))
					}
					if bad != nil {
						mu.Lock()
						if first == nil {
							first = bad
						}
						mu.Unlock()
						return
					}
				}
			}
		}(k)
	}
	close(start)
	wg.Wait()
	return first
}

func clip(b []byte) []byte {
	if len(b) > 200 {
		return b[:200]
	}
	return b
}
