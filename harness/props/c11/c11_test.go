// Package c11 decides property C11 (size and fee accounting is exact; the size
// estimate is an upper bound of the signed size).
package c11

import (
	"bytes"
	"context"
	"crypto/sha256"
	"encoding/hex"
	"errors"
	"fmt"
	"math/big"
	"testing"

	"github.com/libsv/go-bk/bec"
	"github.com/libsv/go-bt/v2"
	"github.com/libsv/go-bt/v2/bscript"
	"github.com/libsv/go-bt/v2/unlocker"
	"golang.org/x/crypto/ripemd160" //nolint:staticcheck // bitcoin's HASH160
	"pgregory.net/rapid"

	"verif/harness/gen"
	"verif/harness/pbt"
	"verif/harness/ref"
)

func TestMain(m *testing.M) { pbt.Main(m) }

// ---------------------------------------------------------------------------
// sub-check 1: identities

// IDCase is a transaction, a quote and nothing else. Pad[i] > 0 extends the
// script of output i by that many filler bytes (keeps 100 kB payloads out of
// the replay files).
type IDCase struct {
	Tx    ref.Tx       `json:"tx"`
	Pad   []int        `json:"pad,omitempty"`
	Quote ref.FeeQuote `json:"quote"`
	Rel   string       `json:"rel,omitempty"`
	// RepIn / RepOut append that many further copies of the last input (own txid, spending
	// nothing) / of the last output, so that the count prefixes reach their 3-byte form
	// without 253 elements being drawn and stored
	RepIn  int `json:"rep_in,omitempty"`
	RepOut int `json:"rep_out,omitempty"`
	// Refused (ninth round): calls the library refuses, made on the freshly built quote object
	// before it is used; the quote must go on answering with the rates it was built with
	Refused []ref.C11Refused `json:"refused,omitempty"`
}

func repIn(last ref.In, j int) ref.In {
	in := last
	in.TxID = append(pbt.Hex{}, last.TxID...)
	if len(in.TxID) == 32 {
		in.TxID[0], in.TxID[1] = byte(j), byte(j>>8)^0xa5
	}
	in.PrevSats = 0
	return in
}

func expandID(c IDCase) ref.Tx {
	m := c.Tx
	m.Out = make([]ref.Out, len(c.Tx.Out))
	copy(m.Out, c.Tx.Out)
	if c.RepIn > 0 && c.RepIn <= 1000 && len(c.Tx.In) > 0 {
		m.In = append([]ref.In{}, c.Tx.In...)
		for j := 0; j < c.RepIn; j++ {
			m.In = append(m.In, repIn(c.Tx.In[len(c.Tx.In)-1], j))
		}
	}
	for i := range m.Out {
		if i < len(c.Pad) && c.Pad[i] > 0 {
			s := make([]byte, 0, len(m.Out[i].Script)+c.Pad[i])
			s = append(s, m.Out[i].Script...)
			for j := 0; j < c.Pad[i]; j++ {
				s = append(s, byte(i*31+j))
			}
			m.Out[i].Script = s
		}
	}
	if c.RepOut > 0 && c.RepOut <= 1000 && len(m.Out) > 0 {
		for j := 0; j < c.RepOut; j++ {
			m.Out = append(m.Out, m.Out[len(c.Tx.Out)-1])
		}
	}
	return m
}

func quoteOK(q ref.FeeQuote) bool {
	for _, u := range []ref.FeeUnit{q.Std, q.Data} {
		if u.Bytes < 1 || u.Sat < 0 || u.Sat > 1000000 || u.Bytes > 1000000 {
			return false
		}
	}
	return true
}

func payloadClass(n int) string {
	switch {
	case n == 0:
		return "0"
	case n <= 75:
		return "1-75"
	case n <= 255:
		return "76-255"
	case n <= 2000:
		return "256-2000"
	case n <= 65535:
		return "2001-65535"
	}
	return ">=65536"
}

func enough(in, out, fee *big.Int) bool {
	if in.Cmp(out) < 0 {
		return false
	}
	return new(big.Int).Sub(in, out).Cmp(fee) >= 0
}

func checkID(ctx *pbt.Ctx, c IDCase) error {
	m := expandID(c)
	if !quoteWide(c.Quote) {
		ctx.Discard("quote outside domain")
		return nil
	}
	for _, in := range m.In {
		if len(in.TxID) != 32 {
			ctx.Discard("txid length")
			return nil
		}
	}
	// satoshi amounts are uint64: every amount is in the domain as long as neither total overflows
	inSum, outSum := ref.FeeSumIn(m), ref.FeeSumOut(m)
	if !inSum.IsUint64() || !outSum.IsUint64() {
		ctx.Discard("a total overflows uint64")
		return nil
	}
	if ref.Ambiguous(m) {
		ctx.Discard("ambiguous extended-marker shape")
		return nil
	}
	tx := ref.ToLib(m)
	ctx.After(ref.Intact(tx))
	lq, err := ref.FeeQuoteBuild(c.Quote)
	if err != nil {
		return fmt.Errorf("building the quote object: %v", err)
	}
	fq := lq.Q
	ctx.After(lq.Unmodified)
	ctx.Labelf("quote-build=%d", c.Quote.Build)
	ctx.Key(ref.Encode(m, true), []byte(fmt.Sprint(c.Quote.Std, c.Quote.Data, c.Refused)))
	// a refused update is not an update: the model of the quote stays what it is
	if len(c.Refused) > 4 {
		ctx.Discard("too many refused calls")
		return nil
	}
	for _, r := range c.Refused {
		if !ref.C11RefusedOK(r) {
			ctx.Discard("malformed refused call")
			return nil
		}
	}
	for i, r := range c.Refused {
		switch err := ref.C11RefusedApply(lq, r); {
		case errors.Is(err, ref.C11ErrAccepted):
			ctx.Label("refused-call-was-accepted:" + r.Kind) // not a refusal: what the quote holds now is not this check's business
			return nil
		case err != nil:
			return fmt.Errorf("refused call %d (%s): %v", i+1, ref.C11RefusedLabel(r), err)
		}
		ctx.Label(ref.C11RefusedLabel(r))
	}

	// -- 1. partition of bytes ------------------------------------------------
	want := ref.FeeSizesOf(m)
	got := tx.SizeWithTypes()
	ser := tx.Bytes()
	if got.TotalBytes != uint64(len(ser)) || tx.Size() != len(ser) {
		return fmt.Errorf("TotalBytes %d / Size() %d differ from len(Bytes()) %d", got.TotalBytes, tx.Size(), len(ser))
	}
	if uint64(len(ser)) != want.Total {
		return fmt.Errorf("serialised length %d, reference codec says %d", len(ser), want.Total)
	}
	if got.TotalStdBytes+got.TotalDataBytes != got.TotalBytes {
		return fmt.Errorf("std %d + data %d != total %d", got.TotalStdBytes, got.TotalDataBytes, got.TotalBytes)
	}
	if got.TotalDataBytes != want.Data {
		return fmt.Errorf("data bytes %d, reference (script bytes of outputs starting 6a or 00 6a) says %d", got.TotalDataBytes, want.Data)
	}
	nData, n6a, n006a := 0, 0, 0
	for _, o := range m.Out {
		if ref.FeeIsData(o.Script) {
			nData++
			if o.Script[0] == 0x6a {
				n6a++
				ctx.Label("payload=" + payloadClass(len(o.Script)-1))
			} else {
				n006a++
				ctx.Label("payload=" + payloadClass(len(o.Script)-2))
			}
		}
	}
	switch {
	case nData == 0:
		ctx.Label("outputs=standard-only")
	case nData == len(m.Out):
		ctx.Label("outputs=data-only")
	default:
		ctx.Label("outputs=mixed")
	}
	if n6a > 0 {
		ctx.Label("form=OP_RETURN")
	}
	if n006a > 0 {
		ctx.Label("form=OP_FALSE OP_RETURN")
	}

	// -- 2. fee sufficiency on the actual size -----------------------------------
	if quoteIsWide(c.Quote) {
		if !feeFits(want, c.Quote) {
			ctx.Discard("bytes x satoshis does not fit uint64")
			return nil
		}
		ctx.Label("fee-unit-numbers>10^6")
		for _, u := range []ref.FeeUnit{c.Quote.Std, c.Quote.Data} {
			if u.Sat > 1<<53 || u.Bytes > 1<<53 {
				ctx.Label("fee-unit-numbers>2^53")
			}
		}
	}
	feeAct, _, _ := ref.FeeCalc(want, c.Quote)
	ok, err := tx.IsFeePaidEnough(fq)
	if err != nil {
		return fmt.Errorf("IsFeePaidEnough: unexpected error %v", err)
	}
	if wantOK := enough(inSum, outSum, feeAct); ok != wantOK {
		return fmt.Errorf("IsFeePaidEnough = %v, but in=%s out=%s fee=%s (std %d B at %d/%d + data %d B at %d/%d) gives %v",
			ok, inSum, outSum, feeAct, want.Std, c.Quote.Std.Sat, c.Quote.Std.Bytes, want.Data, c.Quote.Data.Sat, c.Quote.Data.Bytes, wantOK)
	}
	ctx.Labelf("paid-enough(actual)=%v", ok)
	ctx.Label("rel=" + c.Rel)
	ctx.Label(feeTagLabel(c.Quote))
	if sh := gen.C10OutpointShape(m.In); sh != "" {
		ctx.Label(sh)
	}
	if two63 := new(big.Int).Lsh(big.NewInt(1), 63); inSum.Cmp(two63) >= 0 || outSum.Cmp(two63) >= 0 {
		switch {
		case inSum.Cmp(outSum) < 0:
			ctx.Label("amounts>=2^63:inputs<outputs")
		case new(big.Int).Sub(inSum, outSum).Cmp(two63) >= 0:
			ctx.Label("amounts>=2^63:surplus>=2^63")
		default:
			ctx.Label("amounts>=2^63:surplus<2^63")
		}
	}
	switch a, b := len(m.In) >= 253, len(m.Out) >= 253; {
	case a && b:
		ctx.Label("counts=both>=253")
	case a:
		ctx.Label("counts=inputs>=253")
	case b:
		ctx.Label("counts=outputs>=253")
	}

	// -- 3. estimates ------------------------------------------------------------
	// Assertions about estimation are made when every input is either P2PKH-funded
	// or (missing / unsupported spent script AND not yet signed): for an input that
	// already carries its unlocking script nothing has to be guessed, and the
	// statement does not say whether such an input must still be refused.
	decided := true
	nUnsigned, nSigned := 0, 0
	for _, in := range m.In {
		supported := !in.PrevNil && ref.FeeIsP2PKH(in.PrevScript)
		if len(in.Unlock) == 0 {
			nUnsigned++
		} else {
			nSigned++
			if !supported {
				decided = false
			}
		}
	}
	switch {
	case len(m.In) == 0:
		ctx.Label("inputs=none")
	case nSigned == 0:
		ctx.Label("inputs=unsigned")
	case nUnsigned == 0:
		ctx.Label("inputs=signed")
	default:
		ctx.Label("inputs=partially-signed")
	}
	if !decided {
		ctx.Label("estimate=not-asserted(signed input with unsupported spent script)")
		if nData > 0 {
			ctx.NonTrivial()
		}
		return nil
	}
	fin, both, rerr := ref.FeeEstimatedFinal(m)
	estSize, e1 := tx.EstimateSize()
	estTypes, e2 := tx.EstimateSizeWithTypes()
	estFees, e3 := tx.EstimateFeesPaid(fq)
	estOK, e4 := tx.EstimateIsFeePaidEnough(fq)
	errs := []error{e1, e2, e3, e4}
	names := []string{"EstimateSize", "EstimateSizeWithTypes", "EstimateFeesPaid", "EstimateIsFeePaidEnough"}
	if rerr != nil {
		ctx.NonTrivial()
		for i, e := range errs {
			if e == nil {
				return fmt.Errorf("%s guessed a size although an unsigned input has a missing/unsupported spent script (%v)", names[i], rerr)
			}
			// the statement asks for AN error ("reports an error rather than guessing"); which sentinel, wrapped or
			// not, is the library's choice (benign change C11-b2-1 reports a zero-length script as 'not supplied')
			_ = both
		}
		if estOK {
			return fmt.Errorf("EstimateIsFeePaidEnough returned true together with an error")
		}
		switch {
		case both:
			ctx.Label("estimate=error(both)")
		case errors.Is(rerr, ref.ErrFeeMissingPrev):
			ctx.Label("estimate=error(missing)")
		default:
			ctx.Label("estimate=error(unsupported)")
		}
		return nil
	}
	for i, e := range errs {
		if e != nil {
			return fmt.Errorf("%s failed on a P2PKH-funded transaction: %v", names[i], e)
		}
	}
	wantEst := ref.FeeSizesOf(fin)
	if quoteIsWide(c.Quote) && !feeFits(wantEst, c.Quote) {
		ctx.Discard("bytes x satoshis does not fit uint64")
		return nil
	}
	if uint64(estSize) != wantEst.Total {
		return fmt.Errorf("EstimateSize = %d, documented estimate (107-byte script per unsigned input) = %d", estSize, wantEst.Total)
	}
	if estTypes.TotalBytes != wantEst.Total || estTypes.TotalStdBytes != wantEst.Std || estTypes.TotalDataBytes != wantEst.Data {
		return fmt.Errorf("EstimateSizeWithTypes = %+v, reference %+v", *estTypes, wantEst)
	}
	feeEst, feeStd, feeData := ref.FeeCalc(wantEst, c.Quote)
	u := func(x *big.Int) uint64 { return x.Uint64() }
	if estFees.StdFeePaid != u(feeStd) || estFees.DataFeePaid != u(feeData) || estFees.TotalFeePaid != u(feeEst) {
		return fmt.Errorf("EstimateFeesPaid = {total %d std %d data %d}, floor(%d*%d/%d)=%s + floor(%d*%d/%d)=%s = %s",
			estFees.TotalFeePaid, estFees.StdFeePaid, estFees.DataFeePaid,
			wantEst.Std, c.Quote.Std.Sat, c.Quote.Std.Bytes, feeStd, wantEst.Data, c.Quote.Data.Sat, c.Quote.Data.Bytes, feeData, feeEst)
	}
	if wantOK := enough(inSum, outSum, feeEst); estOK != wantOK {
		return fmt.Errorf("EstimateIsFeePaidEnough = %v, but in=%s out=%s estimated fee=%s gives %v", estOK, inSum, outSum, feeEst, wantOK)
	}
	ctx.Labelf("paid-enough(estimated)=%v", estOK)
	ctx.Label("estimate=ok")
	if nData > 0 || nUnsigned > 0 {
		ctx.NonTrivial()
	}
	return nil
}

func genUnit(t *rapid.T, label string) ref.FeeUnit {
	switch rapid.IntRange(0, 9).Draw(t, label+"_k") {
	case 0:
		return ref.FeeUnit{Sat: 5, Bytes: 100}
	case 1:
		return rapid.SampledFrom([]ref.FeeUnit{{1, 1}, {500, 1000}, {50, 1}, {5, 1}, {2, 1}, {0, 1}, {0, 1000}, {5000, 1}, {5000, 1000}, {1, 1000}, {3, 2}, {999, 1000}, {1001, 1000}}).Draw(t, label)
	}
	return ref.FeeUnit{Sat: rapid.IntRange(0, 5000).Draw(t, label+"_sat"), Bytes: rapid.IntRange(1, 1000).Draw(t, label+"_bytes")}
}

// quoteWide is the domain of identities and history: positive byte denominators and
// non-negative satoshi amounts over the whole range of the fields (Go int). The fee is stated as
// floor(bytes x rate); the library computes bytes*satoshis/bytes in uint64, so a case is judged
// only when the exact products (and their sum) fit uint64 - see feeFits.
func quoteWide(q ref.FeeQuote) bool {
	for _, u := range []ref.FeeUnit{q.Std, q.Data} {
		if u.Bytes < 1 || u.Sat < 0 {
			return false
		}
	}
	return true
}

func quoteIsWide(q ref.FeeQuote) bool {
	for _, u := range []ref.FeeUnit{q.Std, q.Data} {
		if u.Bytes > 1000000 || u.Sat > 1000000 {
			return true
		}
	}
	return false
}

// feeFits reports whether bytes x satoshis fits uint64 for both fee types, and the two floored
// fees add up below 2^64.
func feeFits(sz ref.FeeSizes, q ref.FeeQuote) bool {
	for _, p := range [][2]uint64{{sz.Std, uint64(q.Std.Sat)}, {sz.Data, uint64(q.Data.Sat)}} {
		if !new(big.Int).Mul(new(big.Int).SetUint64(p[0]), new(big.Int).SetUint64(p[1])).IsUint64() {
			return false
		}
	}
	total, _, _ := ref.FeeCalc(sz, q)
	return total.IsUint64()
}

// genUnitWide draws a fee unit with numbers from the upper part of the int range, as a quote
// that arrives as JSON may carry them: around 2^53 (the last integer a float64 counts exactly),
// 2^54, 2^55, 2^62 and the largest int, numerator and denominator a few units apart.
func genUnitWide(t *rapid.T, label string) ref.FeeUnit { return gen.C10UnitWide(t, label) }

// genQuoteWide is genQuote, with one or both mining rates written with huge numbers in about one
// quote in ten; such quotes arrive through JSON more often than not.
func genQuoteWide(t *rapid.T) ref.FeeQuote {
	q := genQuote(t)
	switch rapid.IntRange(0, 19).Draw(t, "wide") {
	case 7:
		q.Std = genUnitWide(t, "wstd")
	case 11:
		q.Data = genUnitWide(t, "wdata")
	case 13:
		q.Std, q.Data = genUnitWide(t, "wstd"), genUnitWide(t, "wdata")
	default:
		return q
	}
	if rapid.IntRange(0, 2).Draw(t, "wide_json") != 0 {
		q.Build = []int{ref.FeeBuildUnmarshal, ref.FeeBuildUsedBefore}[rapid.IntRange(0, 1).Draw(t, "wide_build")]
	}
	if q.Build == ref.FeeBuildShared {
		q.Data, q.DataRelay = q.Std, q.StdRelay
	}
	return q
}

func genQuote(t *rapid.T) ref.FeeQuote {
	q := ref.FeeQuote{Std: genUnit(t, "std"), Data: genUnit(t, "data"), StdRelay: genUnit(t, "stdrelay"), DataRelay: genUnit(t, "datarelay"),
		StdTag: genFeeTag(t, "stdtag"), DataTag: genFeeTag(t, "datatag")}
	genQuoteBuild(t, &q)
	return q
}

// genQuoteVia draws the exported way a quote object in use is changed.
func genQuoteVia(t *rapid.T, label string) string {
	return rapid.SampledFrom([]string{"addquote", "addquote", "addquote", "unmarshal", "unmarshal", "shared", "fetched", "fetched-other-quote", "unmarshal-partial", "updateminerfees", "expiry"}).Draw(t, label)
}

// genQuoteBuild draws how the quote object is filled in the first place and adapts the model
// where the way implies it (one shared fee object: both types carry the same rates).
func genQuoteBuild(t *rapid.T, q *ref.FeeQuote) {
	q.Build = []int{ref.FeeBuildAddQuote, ref.FeeBuildAddQuote, ref.FeeBuildAddQuote, ref.FeeBuildShared, ref.FeeBuildFetched, ref.FeeBuildUnmarshal, ref.FeeBuildContainer, ref.FeeBuildUsedBefore}[rapid.IntRange(0, 7).Draw(t, "quote_build")]
	if q.Build == ref.FeeBuildShared {
		q.Data, q.DataRelay = q.Std, q.StdRelay
	}
}

// genFeeTag draws what the informational FeeType field of a registered *bt.Fee carries: equal
// to the key it is registered under, empty, or the other fee type (a copied and edited object).
func genFeeTag(t *rapid.T, label string) int {
	return []int{ref.FeeTagKey, ref.FeeTagKey, ref.FeeTagEmpty, ref.FeeTagOther}[rapid.IntRange(0, 3).Draw(t, label)]
}

func feeTagLabel(q ref.FeeQuote) string {
	switch {
	case q.StdTag == ref.FeeTagOther || q.DataTag == ref.FeeTagOther:
		return "fee-type-field=other-type"
	case q.StdTag == ref.FeeTagEmpty || q.DataTag == ref.FeeTagEmpty:
		return "fee-type-field=empty"
	}
	return "fee-type-field=key"
}

// sanitiseUnsupported makes sure a generated "unsupported" script can be neither
// P2PKH nor the library's P2PKH-inscription template (which needs the bytes "ord").
func sanitiseUnsupported(s []byte) []byte {
	for i := 0; i+2 < len(s); i++ {
		if s[i] == 0x6f && s[i+1] == 0x72 && s[i+2] == 0x64 {
			s[i] = 0x6e
		}
	}
	if ref.FeeIsP2PKH(s) {
		s[24] = 0xad
	}
	return s
}

func genUnsupported(t *rapid.T) []byte {
	switch rapid.IntRange(0, 8).Draw(t, "unsup_k") {
	case 7: // an inscription envelope behind something that is not P2PKH: carries the "ord" marker, pays no key hash
		env := []byte{0x00, 0x63, 0x03, 0x6f, 0x72, 0x64, 0x51}
		ct := gen.FillBytes(t, rapid.IntRange(1, 12).Draw(t, "ins_ct"), "ins_ctb")
		data := gen.FillBytes(t, rapid.IntRange(1, 40).Draw(t, "ins_d"), "ins_db")
		env = append(append(env, byte(len(ct))), ct...)
		env = append(append(append(env, 0x00, byte(len(data))), data...), 0x68)
		var pre []byte
		switch rapid.IntRange(0, 4).Draw(t, "ins_pre") {
		case 0:
			pre = append(append([]byte{33}, gen.Bytes(t, 33, "pk")...), 0xac)
		case 1:
			pre = append(append([]byte{0xa9, 0x14}, gen.Bytes(t, 20, "sh")...), 0x87)
		case 2:
			pre = []byte{0x51}
		case 3: // P2PKH with the wrong final opcode
			pre = ref.FeeP2PKH(gen.Bytes(t, 20, "h"))
			pre[24] = 0xad
		}
		return append(pre, env...)
	case 8: // a data script whose payload is the marker
		return append([]byte{0x6a, 0x06}, 0x00, 0x63, 0x03, 0x6f, 0x72, 0x64)
	case 0:
		return []byte{}
	case 1: // P2PK
		return append(append([]byte{33}, gen.Bytes(t, 33, "pk")...), 0xac)
	case 2: // P2SH
		return append(append([]byte{0xa9, 0x14}, gen.Bytes(t, 20, "sh")...), 0x87)
	case 3: // P2PKH with one template byte wrong
		s := ref.FeeP2PKH(gen.Bytes(t, 20, "h"))
		i := rapid.SampledFrom([]int{0, 1, 2, 23, 24}).Draw(t, "pos")
		s[i] ^= byte(rapid.IntRange(1, 255).Draw(t, "flip"))
		return s
	case 4: // P2PKH plus / minus one byte
		s := ref.FeeP2PKH(gen.Bytes(t, 20, "h"))
		if rapid.Bool().Draw(t, "longer") {
			return append(s, 0x61)
		}
		return s[:24]
	case 5:
		return []byte{0x6a, 0x01, 0x01}
	}
	return sanitiseUnsupported(gen.FillBytes(t, gen.EdgeLen(t, 120, "unsup_len", 1, 24, 25, 26), "unsup"))
}

func genDataOut(t *rapid.T, c *IDCase) ref.Out {
	pre := []byte{0x6a}
	if rapid.Bool().Draw(t, "false_return") {
		pre = []byte{0x00, 0x6a}
	}
	pad := 0
	var n int
	// rapid's integers favour small values, so the rare (expensive) classes sit at
	// the top of the range: ~1% of data outputs are 64-100 kB, ~2% are 1-20 kB.
	switch dk := rapid.IntRange(0, 63).Draw(t, "dk"); {
	case dk == 63:
		pad = rapid.SampledFrom([]int{65535, 65536, 100000, 70000, 99999}).Draw(t, "big")
		n = rapid.IntRange(0, 4).Draw(t, "dlen")
	case dk >= 61:
		pad = rapid.IntRange(1000, 20000).Draw(t, "mid")
		n = rapid.IntRange(0, 4).Draw(t, "dlen")
	default:
		n = gen.EdgeLen(t, 2000, "dlen", 0, 1, 2, 75, 76, 252, 253, 255, 256, 2000)
	}
	for len(c.Pad) < len(c.Tx.Out) {
		c.Pad = append(c.Pad, 0)
	}
	c.Pad = append(c.Pad, pad)
	if pad == 0 && rapid.IntRange(0, 3).Draw(t, "template_payload") == 2 {
		// a payload of pushes that start with opcode-valued bytes (a payload is a free field)
		return ref.Out{Script: append(pre, gen.C10DataPayload(t, "tpl")...)}
	}
	return ref.Out{Script: append(pre, gen.FillBytes(t, n, "payload")...)}
}

const maxU64 = ^uint64(0)

// satAdd is a+b, saturating at 2^64-1.
func satAdd(a, b uint64) uint64 {
	if a > maxU64-b {
		return maxU64
	}
	return a + b
}

// genHugeAmount draws an amount in the upper part of the uint64 range: around 2^62, on both
// sides of 2^63 (where a signed 64-bit view changes sign) and just below 2^64.
func genHugeAmount(t *rapid.T, label string) (uint64, string) {
	k := rapid.Uint64Range(0, 1000000).Draw(t, label+"_k")
	switch rapid.IntRange(0, 5).Draw(t, label+"_class") {
	case 0:
		return 1<<62 + k, "2^62+k"
	case 1:
		return 1<<63 - 1 - k, "2^63-1-k"
	case 2:
		return 1<<63 - 1, "2^63-1"
	case 3:
		return 1 << 63, "2^63"
	case 4:
		return 1<<63 + 1 + k, "2^63+1+k"
	}
	return maxU64 - k, "2^64-1-k"
}

func genIDCase(t *rapid.T) IDCase {
	var c IDCase
	c.Tx.Version = gen.U32(t, "version")
	c.Tx.LockTime = rapid.SampledFrom([]uint32{0, 1, 499999999, 500000000, 0xffffffff}).Draw(t, "locktime")
	nin := []int{1, 2, 3, 0, 4, 5}[rapid.IntRange(0, 5).Draw(t, "nin")]
	for i := 0; i < nin; i++ {
		in := ref.In{TxID: gen.Bytes(t, 32, "txid"), Vout: gen.U32(t, "vout"), Seq: gen.U32(t, "seq")}
		prevKind := rapid.IntRange(0, 19).Draw(t, "prevk")
		switch {
		case prevKind == 18:
			in.PrevNil = true
		case prevKind == 19:
			in.PrevScript = genUnsupported(t)
		default:
			in.PrevScript = ref.FeeP2PKH(gen.Bytes(t, 20, "pkh"))
		}
		supported := prevKind < 18
		uk := rapid.IntRange(0, 9).Draw(t, "ukind")
		if !supported && uk >= 4 && rapid.IntRange(0, 9).Draw(t, "signed_bad") != 0 {
			uk = 0 // signed inputs with an unsupported spent script stay rare
		}
		switch {
		case uk <= 2:
			in.UnlockNil = true
		case uk == 3:
			in.Unlock = pbt.Hex{}
		case uk <= 6:
			sl := rapid.IntRange(69, 73).Draw(t, "siglen")
			u := append([]byte{byte(sl)}, gen.Bytes(t, sl, "sig")...)
			u = append(u, 33)
			in.Unlock = append(u, gen.Bytes(t, 33, "pub")...)
		default:
			in.Unlock = gen.FillBytes(t, 1+gen.EdgeLen(t, 599, "ulen", 0, 105, 106, 107, 251, 252, 253, 254), "unlock")
		}
		c.Tx.In = append(c.Tx.In, in)
	}
	c.Tx.In = gen.C10SpecialOutpoints(t, c.Tx.In)
	nin = len(c.Tx.In)
	nout := rapid.IntRange(0, 6).Draw(t, "nout")
	if nin == 0 && nout == 0 && c.Tx.LockTime == 0xef000000 {
		c.Tx.LockTime = 0
	}
	for i := 0; i < nout; i++ {
		var o ref.Out
		switch rapid.IntRange(0, 7).Draw(t, "okind") {
		case 0, 1:
			o.Script = ref.FeeP2PKH(gen.Bytes(t, 20, "ohash"))
		case 2, 3, 4:
			o = genDataOut(t, &c)
		case 5:
			// near-data: 6a not at the front, or 00 followed by something else
			o.Script = rapid.SampledFrom([]pbt.Hex{{}, {0x00}, {0x00, 0x00, 0x6a}, {0x51, 0x6a}, {0x00, 0x6b}, {0x6b}, {0x00, 0x51, 0x6a, 0x01, 0x02}, {0x4c, 0x6a}}).Draw(t, "near")
		default:
			o.Script = gen.FillBytes(t, gen.EdgeLen(t, 300, "slen", 0, 1, 2, 25, 252, 253), "oscript")
		}
		switch rapid.IntRange(0, 3).Draw(t, "vkind") {
		case 0:
			o.Sats = 0
		case 1:
			o.Sats = rapid.Uint64Range(1, 1000000000000).Draw(t, "sats")
		default:
			o.Sats = rapid.Uint64Range(0, 10000).Draw(t, "sats")
		}
		c.Tx.Out = append(c.Tx.Out, o)
	}
	c.Quote = genQuoteWide(t)
	// element counts around the point where the count prefix takes three bytes, independently
	// for inputs and outputs
	if rapid.IntRange(0, 24).Draw(t, "many") == 0 {
		if nin > 0 && rapid.IntRange(0, 2).Draw(t, "many_in") > 0 {
			c.RepIn = rapid.SampledFrom([]int{251, 252, 253, 254, 300}).Draw(t, "total_in") - nin
		}
		if nout > 0 && (c.RepIn == 0 || rapid.Bool().Draw(t, "many_out")) {
			big := false
			for i := range c.Pad {
				big = big || c.Pad[i] > 2000
			}
			if !big {
				c.RepOut = rapid.SampledFrom([]int{251, 252, 253, 254, 300}).Draw(t, "total_out") - nout
			}
		}
	}

	// one output worth an amount in the upper half of the uint64 range (never a replicated one,
	// the others stay small: the total of the outputs cannot overflow)
	if nout > 0 && c.RepOut == 0 && rapid.IntRange(0, 19).Draw(t, "huge_out") == 13 {
		v, class := genHugeAmount(t, "huge_out_v")
		at := rapid.IntRange(0, nout-1).Draw(t, "huge_out_at")
		if class == "2^64-1-k" { // right below the end of the range: the other outputs carry nothing
			for i := range c.Tx.Out {
				c.Tx.Out[i].Sats = 0
			}
		}
		c.Tx.Out[at].Sats = v
	}
	// amounts: aim the input total at the exact fee of the actual or the estimated size
	m := expandID(c)
	outSum := ref.FeeSumOut(m).Uint64()
	feeAct, _, _ := ref.FeeCalc(ref.FeeSizesOf(m), c.Quote)
	target := feeAct.Uint64()
	base := "actual"
	if fin, _, err := ref.FeeEstimatedFinal(m); err == nil && rapid.Bool().Draw(t, "aim_estimated") {
		fe, _, _ := ref.FeeCalc(ref.FeeSizesOf(fin), c.Quote)
		target = fe.Uint64()
		base = "estimated"
	}
	rel := rapid.SampledFrom([]string{"fee", "fee-1", "fee+1", "equal", "insufficient", "ample", "zero-inputs", "surplus>=2^62"}).Draw(t, "rel")
	var total uint64
	switch rel {
	case "surplus>=2^62": // the whole upper range of the amount type, up to the last value the total can take
		v, class := genHugeAmount(t, "surplus")
		rel = "surplus=" + class
		if total = satAdd(satAdd(outSum, target), v); total == maxU64 {
			rel = "total=2^64-1-k"
			total = maxU64 - rapid.Uint64Range(0, 1000000).Draw(t, "below_max")
		}
	case "fee":
		total = outSum + target
	case "fee-1":
		if target == 0 {
			rel = "fee"
			total = outSum
		} else {
			total = outSum + target - 1
		}
	case "fee+1":
		total = outSum + target + 1
	case "equal":
		total = outSum
	case "insufficient":
		if outSum == 0 {
			rel = "equal"
		} else {
			total = outSum - rapid.Uint64Range(1, outSum).Draw(t, "short")
		}
	case "ample":
		total = satAdd(outSum+target, rapid.Uint64Range(2, 1000000000000).Draw(t, "extra"))
	default:
		total = 0
	}
	if nin == 0 {
		c.Rel = "no-inputs"
	} else {
		c.Rel = rel + "(" + base + ")"
	}
	rem := total
	for i := range c.Tx.In {
		if i == len(c.Tx.In)-1 {
			c.Tx.In[i].PrevSats = rem
			break
		}
		p := rapid.Uint64Range(0, rem).Draw(t, "part")
		c.Tx.In[i].PrevSats = p
		rem -= p
	}
	if rapid.IntRange(0, 7).Draw(t, "refused") == 5 { // calls the library refuses, between building the quote and using it
		for i, n := 0, rapid.IntRange(1, 2).Draw(t, "nrefused"); i < n; i++ {
			c.Refused = append(c.Refused, gen.C11Refused(t, "refused"))
		}
	}
	return c
}

func TestIdentities(t *testing.T) {
	pbt.Run(t, pbt.Sub[IDCase]{
		Name: "identities", Quick: 200000, Thorough: 12000000,
		Gen:      genIDCase,
		Check:    checkID,
		EnumDesc: "data/standard classification: one-output transactions whose locking script is empty, each of the 256 one-byte scripts, and each of the 65536 two-byte prefixes followed by 3 payload bytes (quick: every 2-byte prefix with first byte in {00,6a,4c,51,ff} or second byte 6a, plus all shorter scripts)",
		Enum: func(tier string, yield func(IDCase)) {
			q := ref.FeeQuote{Std: ref.FeeUnit{Sat: 3, Bytes: 2}, Data: ref.FeeUnit{Sat: 7, Bytes: 3}, StdRelay: ref.FeeUnit{Sat: 1, Bytes: 1}, DataRelay: ref.FeeUnit{Sat: 1, Bytes: 1}}
			mk := func(s []byte) IDCase {
				return IDCase{Quote: q, Rel: "enum", Tx: ref.Tx{Version: 1,
					In:  []ref.In{{TxID: bytes.Repeat([]byte{0x11}, 32), Seq: 0xffffffff, UnlockNil: true, PrevSats: 400, PrevScript: ref.FeeP2PKH(bytes.Repeat([]byte{0x22}, 20))}},
					Out: []ref.Out{{Sats: 100, Script: s}}}}
			}
			yield(mk([]byte{}))
			for a := 0; a < 256; a++ {
				yield(mk([]byte{byte(a)}))
			}
			for a := 0; a < 256; a++ {
				for b := 0; b < 256; b++ {
					if tier != "thorough" && !(a == 0x00 || a == 0x6a || a == 0x4c || a == 0x51 || a == 0xff || b == 0x6a) {
						continue
					}
					yield(mk([]byte{byte(a), byte(b), 0x01, 0x02, 0x03}))
					yield(mk([]byte{byte(a), byte(b)}))
				}
			}
		},
	})
}

// ---------------------------------------------------------------------------
// sub-check 2: estimate >= signed size

// SignCase is a P2PKH transaction with one private key per input. Inputs flagged
// in Presigned are signed (by the library) before the estimate is taken, so the
// transaction is partially signed at that moment.
type SignCase struct {
	Keys      []pbt.Hex `json:"keys"` // 32-byte secp256k1 private keys, one per input
	Presigned []bool    `json:"presigned"`
	Tx        ref.Tx    `json:"tx"`                // inputs: txid/vout/seq/prev_sats (spent script derived from the key); outputs as given
	RepIn     int       `json:"rep_in,omitempty"`  // further copies of the last input (same key, own txid)
	RepOut    int       `json:"rep_out,omitempty"` // further copies of the last output
	// Forms[i] is the encoding of input i's public key whose HASH160 the spent P2PKH script pays
	// to: 0 compressed, 1 uncompressed (legacy wallets), 2 hybrid. Missing entries repeat the
	// last one (compressed if there is none).
	Forms []int `json:"forms,omitempty"`
}

func (c SignCase) form(i int) int {
	switch {
	case i < len(c.Forms):
		return c.Forms[i]
	case len(c.Forms) > 0:
		return c.Forms[len(c.Forms)-1]
	}
	return 0
}

// keyEncoding is the public key in one of the encodings a P2PKH output can commit to.
func keyEncoding(pub *bec.PublicKey, form int) []byte {
	switch form {
	case 1:
		return pub.SerialiseUncompressed()
	case 2:
		return pub.SerialiseHybrid()
	}
	return pub.SerialiseCompressed()
}

func expandSign(c SignCase) SignCase {
	if n := len(c.Tx.In); n > 0 && c.RepIn > 0 && c.RepIn <= 1000 && len(c.Keys) == n && len(c.Presigned) == n {
		c.Tx.In = append([]ref.In{}, c.Tx.In...)
		c.Keys = append([]pbt.Hex{}, c.Keys...)
		c.Presigned = append([]bool{}, c.Presigned...)
		for j := 0; j < c.RepIn; j++ {
			in := repIn(c.Tx.In[n-1], j)
			in.PrevSats = c.Tx.In[n-1].PrevSats
			c.Tx.In = append(c.Tx.In, in)
			c.Keys = append(c.Keys, c.Keys[n-1])
			c.Presigned = append(c.Presigned, c.Presigned[n-1])
		}
	}
	if n := len(c.Tx.Out); n > 0 && c.RepOut > 0 && c.RepOut <= 1000 {
		c.Tx.Out = append([]ref.Out{}, c.Tx.Out...)
		for j := 0; j < c.RepOut; j++ {
			c.Tx.Out = append(c.Tx.Out, c.Tx.Out[n-1])
		}
	}
	return c
}

func hash160(b []byte) []byte {
	s := sha256.Sum256(b)
	r := ripemd160.New()
	r.Write(s[:])
	return r.Sum(nil)
}

type keyGetter struct {
	byScript map[string]*bec.PrivateKey
}

func (g *keyGetter) Unlocker(_ context.Context, ls *bscript.Script) (bt.Unlocker, error) {
	k, ok := g.byScript[hex.EncodeToString(*ls)]
	if !ok {
		return nil, errors.New("harness: no key for locking script")
	}
	return &unlocker.Simple{PrivateKey: k}, nil
}

func validKey(k []byte) bool {
	if len(k) != 32 {
		return false
	}
	d := new(big.Int).SetBytes(k)
	return d.Sign() > 0 && d.Cmp(bec.S256().N) < 0
}

func checkSign(ctx *pbt.Ctx, c SignCase) error {
	c = expandSign(c)
	n := len(c.Tx.In)
	if n == 0 || len(c.Keys) != n || len(c.Presigned) != n {
		ctx.Discard("malformed case")
		return nil
	}
	for _, k := range c.Keys {
		if !validKey(k) {
			ctx.Discard("invalid private key")
			return nil
		}
	}
	bg := context.Background()
	tx := bt.NewTx()
	tx.Version, tx.LockTime = c.Tx.Version, c.Tx.LockTime
	g := &keyGetter{byScript: map[string]*bec.PrivateKey{}}
	privs := make([]*bec.PrivateKey, n)
	for i, in := range c.Tx.In {
		if len(in.TxID) != 32 {
			ctx.Discard("txid length")
			return nil
		}
		priv, pub := bec.PrivKeyFromBytes(bec.S256(), c.Keys[i])
		privs[i] = priv
		ls := ref.FeeP2PKH(hash160(keyEncoding(pub, c.form(i))))
		ctx.Labelf("spent-script-pays-to-key-form=%d", c.form(i))
		g.byScript[hex.EncodeToString(ls)] = priv
		if err := tx.From(hex.EncodeToString(in.TxID), in.Vout, hex.EncodeToString(ls), in.PrevSats); err != nil {
			return fmt.Errorf("harness: From: %v", err)
		}
		tx.Inputs[i].SequenceNumber = in.Seq
	}
	for _, o := range c.Tx.Out {
		tx.AddOutput(&bt.Output{Satoshis: o.Sats, LockingScript: bscript.NewFromBytes(append([]byte{}, o.Script...))})
	}
	nPre := 0
	for i, p := range c.Presigned {
		if p {
			nPre++
			if err := tx.FillInput(bg, &unlocker.Simple{PrivateKey: privs[i]}, bt.UnlockerParams{InputIdx: uint32(i)}); err != nil {
				return fmt.Errorf("FillInput(%d) failed on a P2PKH input: %v", i, err)
			}
		}
	}
	est, err := tx.EstimateSize()
	if err != nil {
		return fmt.Errorf("EstimateSize failed on a P2PKH transaction: %v", err)
	}
	estT, err := tx.EstimateSizeWithTypes()
	if err != nil {
		return fmt.Errorf("EstimateSizeWithTypes failed on a P2PKH transaction: %v", err)
	}
	if nPre == 0 {
		if err := tx.FillAllInputs(bg, g); err != nil {
			return fmt.Errorf("FillAllInputs failed on a P2PKH transaction: %v", err)
		}
	} else {
		for i, p := range c.Presigned {
			if !p {
				if err := tx.FillInput(bg, &unlocker.Simple{PrivateKey: privs[i]}, bt.UnlockerParams{InputIdx: uint32(i)}); err != nil {
					return fmt.Errorf("FillInput(%d) failed on a P2PKH input: %v", i, err)
				}
			}
		}
	}
	after := ref.FromLib(tx)
	real := len(ref.Encode(after, false))
	if tx.Size() != real {
		return fmt.Errorf("Size() = %d after signing, reference codec says %d", tx.Size(), real)
	}
	for _, in := range after.In {
		u := in.Unlock
		// what the signer pushes is its business (whether it verifies is C04's); only the size counts here
		if len(u) >= 2 && int(u[0]) < 0x4c && len(u) > 1+int(u[0]) {
			ctx.Labelf("siglen+1=%d", int(u[0]))
			ctx.Labelf("pushed-key-len=%d", len(u)-2-int(u[0]))
		}
		ctx.Labelf("unlock-len=%d", len(u))
		if len(u) > ref.FeeUnlockP2PKHLen && est >= real {
			ctx.Label("unlock-longer-than-placeholder-but-estimate-holds")
		}
	}
	if est < real {
		forms := make([]int, n)
		for i := range forms {
			forms[i] = c.form(i)
		}
		return fmt.Errorf("EstimateSize before signing = %d < %d = real size once signed by the library (%d inputs, %d signed before estimating; spent scripts pay to key forms %v, 0 compressed / 1 uncompressed / 2 hybrid; unlocking scripts of %d.. bytes)", est, real, n, nPre, forms, len(after.In[0].Unlock))
	}
	if estT.TotalBytes < uint64(real) {
		return fmt.Errorf("EstimateSizeWithTypes.TotalBytes = %d < %d = real size once signed", estT.TotalBytes, real)
	}
	ctx.Labelf("estimate-minus-real=%d", min(est-real, 6))
	switch {
	case nPre == 0:
		ctx.Label("all-unsigned->FillAllInputs")
	case nPre == n:
		ctx.Label("fully-signed-before-estimate")
	default:
		ctx.Label("partially-signed")
	}
	if n >= 253 || len(c.Tx.Out) >= 253 {
		ctx.Label("count-prefix-3-bytes")
	}
	ctx.NonTrivial()
	kk := make([][]byte, 0, n)
	for _, k := range c.Keys {
		kk = append(kk, k)
	}
	ctx.Key(append(kk, ref.Encode(c.Tx, false))...)
	return nil
}

func genSignCase(t *rapid.T) SignCase {
	var c SignCase
	c.Tx.Version = rapid.SampledFrom([]uint32{1, 2}).Draw(t, "version")
	c.Tx.LockTime = rapid.SampledFrom([]uint32{0, 1, 0xffffffff}).Draw(t, "locktime")
	n := rapid.IntRange(1, 4).Draw(t, "nin")
	partial := rapid.IntRange(0, 3).Draw(t, "partial") == 3
	for i := 0; i < n; i++ {
		k := gen.Bytes(t, 32, "key")
		if k[0] == 0xff {
			k[0] = 0xfe
		}
		if new(big.Int).SetBytes(k).Sign() == 0 {
			k[31] = 1
		}
		c.Keys = append(c.Keys, k)
		c.Presigned = append(c.Presigned, partial && rapid.Bool().Draw(t, "pre"))
		c.Tx.In = append(c.Tx.In, ref.In{TxID: gen.Bytes(t, 32, "txid"), Vout: gen.U32(t, "vout"), Seq: 0xffffffff, PrevSats: rapid.Uint64Range(0, 100000000).Draw(t, "sats")})
		c.Forms = append(c.Forms, []int{0, 0, 1, 2}[rapid.IntRange(0, 3).Draw(t, "keyform")])
	}
	if c.Tx.In = gen.C10SpecialOutpoints(t, c.Tx.In); len(c.Tx.In) < n {
		n = len(c.Tx.In)
		c.Keys, c.Presigned, c.Forms = c.Keys[:n], c.Presigned[:n], c.Forms[:n]
	}
	nout := rapid.IntRange(0, 3).Draw(t, "nout")
	for i := 0; i < nout; i++ {
		var s []byte
		switch rapid.IntRange(0, 2).Draw(t, "okind") {
		case 0:
			s = ref.FeeP2PKH(gen.Bytes(t, 20, "ohash"))
		case 1:
			s = append([]byte{0x00, 0x6a}, gen.FillBytes(t, rapid.IntRange(0, 80).Draw(t, "dlen"), "payload")...)
		default:
			s = gen.FillBytes(t, rapid.IntRange(0, 40).Draw(t, "slen"), "oscript")
		}
		c.Tx.Out = append(c.Tx.Out, ref.Out{Sats: rapid.Uint64Range(0, 100000).Draw(t, "osats"), Script: s})
	}
	if rapid.IntRange(0, 39).Draw(t, "many") == 0 {
		if rapid.Bool().Draw(t, "many_in") {
			c.RepIn = rapid.SampledFrom([]int{251, 252, 253, 254}).Draw(t, "total_in") - n
		}
		if nout > 0 && (c.RepIn == 0 || rapid.Bool().Draw(t, "many_out")) {
			c.RepOut = rapid.SampledFrom([]int{251, 252, 253, 254}).Draw(t, "total_out") - nout
		}
	}
	return c
}

func TestSignedUpperBound(t *testing.T) {
	pbt.Run(t, pbt.Sub[SignCase]{
		Name: "signed", Quick: 10000, Thorough: 400000,
		Gen:   genSignCase,
		Check: checkSign,
	})
}
