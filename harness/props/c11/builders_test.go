package c11

import (
	"bytes"
	"fmt"
	"testing"

	"github.com/libsv/go-bt/v2"
	"pgregory.net/rapid"

	"verif/harness/gen"
	"verif/harness/pbt"
	"verif/harness/ref"
)

// sub-check: builders. The data-carrier outputs of a transaction are usually made by the
// library's own builders (AddOpReturnOutput, AddOpReturnPartsOutput, CreateOpReturnOutput). A
// transaction assembled with them - next to P2PKH outputs - must satisfy the same identities as
// any other: the output built is OP_FALSE OP_RETURN followed by the shortest push of every part,
// it is a data output, and the size breakdown and fee are the reference's for the transaction
// as the builders left it.

// BCase lists the outputs to build: a nil Parts entry is a P2PKH output.
type BCase struct {
	Outs  []BOut       `json:"outs"`
	Quote ref.FeeQuote `json:"quote"`
}

// BOut is one output request.
type BOut struct {
	Kind  string    `json:"kind"` // "p2pkh" | "single" (AddOpReturnOutput) | "parts" (AddOpReturnPartsOutput) | "create" (CreateOpReturnOutput + AddOutput)
	Parts []pbt.Hex `json:"parts,omitempty"`
	Hash  pbt.Hex   `json:"hash,omitempty"`
	Sats  uint64    `json:"sats"`
}

func shortestPush(d []byte) []byte {
	n := len(d)
	switch {
	case n <= 75:
		return append([]byte{byte(n)}, d...)
	case n <= 0xff:
		return append([]byte{0x4c, byte(n)}, d...)
	case n <= 0xffff:
		return append([]byte{0x4d, byte(n), byte(n >> 8)}, d...)
	}
	return append([]byte{0x4e, byte(n), byte(n >> 8), byte(n >> 16), byte(n >> 24)}, d...)
}

func checkBuilders(ctx *pbt.Ctx, c BCase) error {
	if !quoteOK(c.Quote) || len(c.Outs) == 0 {
		ctx.Discard("outside domain")
		return nil
	}
	tx := bt.NewTx()
	var want [][]byte
	for i, o := range c.Outs {
		var err error
		var parts [][]byte
		for _, p := range o.Parts {
			parts = append(parts, append([]byte{}, p...))
		}
		switch o.Kind {
		case "p2pkh":
			if len(o.Hash) != 20 {
				ctx.Discard("hash length")
				return nil
			}
			err = tx.AddP2PKHOutputFromPubKeyHashStr(fmt.Sprintf("%x", []byte(o.Hash)), o.Sats)
			want = append(want, ref.FeeP2PKH(o.Hash))
		case "single":
			if len(parts) != 1 {
				ctx.Discard("single needs one part")
				return nil
			}
			err = tx.AddOpReturnOutput(parts[0])
		case "parts":
			err = tx.AddOpReturnPartsOutput(parts)
		case "create":
			var out *bt.Output
			out, err = bt.CreateOpReturnOutput(parts)
			if err == nil {
				out.Satoshis = o.Sats
				tx.AddOutput(out)
			}
		default:
			ctx.Discard("unknown kind")
			return nil
		}
		if err != nil {
			return fmt.Errorf("output %d (%s, %d parts) refused: %v", i, o.Kind, len(parts), err)
		}
		if o.Kind != "p2pkh" {
			w := []byte{0x00, 0x6a}
			for _, p := range parts {
				w = append(w, shortestPush(p)...)
			}
			want = append(want, w)
		}
		ctx.Label("kind=" + o.Kind)
	}
	if len(tx.Outputs) != len(c.Outs) {
		return fmt.Errorf("%d outputs requested, the transaction has %d", len(c.Outs), len(tx.Outputs))
	}
	for i, o := range tx.Outputs {
		if o.LockingScript == nil || !bytes.Equal(*o.LockingScript, want[i]) {
			return fmt.Errorf("output %d built by %s is %v, the documented form is %x", i, c.Outs[i].Kind, o.LockingScript, want[i])
		}
		if c.Outs[i].Kind != "p2pkh" && !o.LockingScript.IsData() {
			return fmt.Errorf("output %d built by %s is not reported as a data output", i, c.Outs[i].Kind)
		}
	}
	m := ref.FromLib(tx)
	sz := ref.FeeSizesOf(m)
	got := tx.SizeWithTypes()
	if uint64(tx.Size()) != sz.Total || got.TotalBytes != sz.Total || got.TotalStdBytes != sz.Std || got.TotalDataBytes != sz.Data {
		return fmt.Errorf("size breakdown {%d %d %d} (Size %d), reference {%d %d %d}", got.TotalBytes, got.TotalStdBytes, got.TotalDataBytes, tx.Size(), sz.Total, sz.Std, sz.Data)
	}
	fee, fs, fd := ref.FeeCalc(sz, c.Quote)
	fq := ref.FeeQuoteToLib(c.Quote)
	ok, err := tx.IsFeePaidEnough(fq) // no inputs: enough only if nothing is required
	if err != nil {
		return fmt.Errorf("IsFeePaidEnough: %v", err)
	}
	outSum := ref.FeeSumOut(m)
	if wantOK := outSum.Sign() == 0 && fee.Sign() == 0; ok != wantOK {
		return fmt.Errorf("IsFeePaidEnough = %v without inputs, outputs %s, fee %s (std %s + data %s)", ok, outSum, fee, fs, fd)
	}
	ctx.NonTrivial()
	return nil
}

func TestBuilders(t *testing.T) {
	pbt.Run(t, pbt.Sub[BCase]{
		Name: "builders", Quick: 24000, Thorough: 600000,
		Gen: func(t *rapid.T) BCase {
			var c BCase
			n := rapid.IntRange(1, 5).Draw(t, "nout")
			for i := 0; i < n; i++ {
				o := BOut{Kind: rapid.SampledFrom([]string{"p2pkh", "single", "parts", "parts", "create"}).Draw(t, "kind"), Sats: rapid.Uint64Range(0, 100000).Draw(t, "sats")}
				if o.Kind == "p2pkh" {
					o.Hash = gen.Bytes(t, 20, "hash")
				} else {
					np := 1
					if o.Kind != "single" {
						np = rapid.IntRange(0, 4).Draw(t, "nparts")
					}
					for k := 0; k < np; k++ {
						o.Parts = append(o.Parts, gen.FillBytes(t, gen.EdgeLen(t, 1200, "plen", 0, 1, 2, 3, 4, 75, 76, 255, 256), "part"))
					}
					if o.Kind != "create" {
						o.Sats = 0
					}
				}
				c.Outs = append(c.Outs, o)
			}
			c.Quote = genQuote(t)
			return c
		},
		Check: checkBuilders,
	})
}
