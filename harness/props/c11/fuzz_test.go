package c11

import (
	"testing"

	"verif/harness/pbt"
)

// FuzzIdentities (thorough tier): Go's native coverage-guided fuzzer drives the `identities`
// generator (rapid.MakeFuzz); same oracle.
func FuzzIdentities(f *testing.F) {
	pbt.FuzzSub(f, "C11", pbt.Sub[IDCase]{Name: "identities", Gen: genIDCase, Check: checkID})
}
