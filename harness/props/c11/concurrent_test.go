package c11

import (
	"fmt"
	"testing"

	"pgregory.net/rapid"

	"verif/harness/conc"
	"verif/harness/pbt"
	"verif/harness/ref"
)

// ConcCase: size and fee queries read the transaction and the quote; several goroutines may ask
// the same objects at once (schedule dependent: listed in FLAKY_SUBS.txt). Only P2PKH-funded
// transactions are used, so that every estimate has a defined answer.
type ConcCase struct {
	ID         IDCase `json:"id"`
	Goroutines int    `json:"goroutines"`
	Rounds     int    `json:"rounds"`
}

func checkConcurrent(ctx *pbt.Ctx, c ConcCase) error {
	m := expandID(c.ID)
	if !quoteOK(c.ID.Quote) || c.Goroutines < 2 || c.Goroutines > 16 || c.Rounds < 1 || c.Rounds > 300 || ref.Ambiguous(m) || len(m.In) > 400 || len(m.Out) > 400 {
		ctx.Discard("outside domain")
		return nil
	}
	for _, in := range m.In {
		if len(in.TxID) != 32 {
			ctx.Discard("txid length")
			return nil
		}
	}
	fin, _, ferr := ref.FeeEstimatedFinal(m)
	if ferr != nil {
		ctx.Discard("estimate undefined")
		return nil
	}
	tx := ref.ToLib(m)
	ctx.After(ref.Intact(tx))
	fq := ref.FeeQuoteToLib(c.ID.Quote)
	sz := ref.FeeSizesOf(m)
	esz := ref.FeeSizesOf(fin)
	fee, fs, fd := ref.FeeCalc(esz, c.ID.Quote)
	calls := []conc.Call{
		{Name: "Size()", F: func() ([]byte, error) { return []byte(fmt.Sprint(tx.Size())), nil }, Want: []byte(fmt.Sprint(sz.Total))},
		{Name: "SizeWithTypes()", F: func() ([]byte, error) {
			s := tx.SizeWithTypes()
			return []byte(fmt.Sprint(s.TotalBytes, s.TotalStdBytes, s.TotalDataBytes)), nil
		}, Want: []byte(fmt.Sprint(sz.Total, sz.Std, sz.Data))},
		{Name: "EstimateSize()", F: func() ([]byte, error) {
			n, err := tx.EstimateSize()
			return []byte(fmt.Sprint(n)), err
		}, Want: []byte(fmt.Sprint(esz.Total))},
		{Name: "EstimateSizeWithTypes()", F: func() ([]byte, error) {
			s, err := tx.EstimateSizeWithTypes()
			if err != nil {
				return nil, err
			}
			return []byte(fmt.Sprint(s.TotalBytes, s.TotalStdBytes, s.TotalDataBytes)), nil
		}, Want: []byte(fmt.Sprint(esz.Total, esz.Std, esz.Data))},
		{Name: "EstimateFeesPaid()", F: func() ([]byte, error) {
			f, err := tx.EstimateFeesPaid(fq)
			if err != nil {
				return nil, err
			}
			return []byte(fmt.Sprint(f.TotalFeePaid, f.StdFeePaid, f.DataFeePaid)), nil
		}, Want: []byte(fmt.Sprint(fee, fs, fd))},
	}
	before := ref.FromLib(tx)
	if err := conc.Readers(calls, c.Goroutines, c.Rounds); err != nil {
		return err
	}
	if after := ref.FromLib(tx); !ref.SameWire(before, after, true) {
		return fmt.Errorf("the transaction changed while %d goroutines measured it", c.Goroutines)
	}
	ctx.Labelf("goroutines=%d", c.Goroutines)
	ctx.NonTrivial()
	return nil
}

func TestConcurrent(t *testing.T) {
	pbt.Run(t, pbt.Sub[ConcCase]{
		Name: "concurrent", Quick: 1200, Thorough: 24000,
		Gen: func(t *rapid.T) ConcCase {
			id := genIDCase(t)
			return ConcCase{ID: id, Goroutines: rapid.SampledFrom([]int{2, 3, 4, 8}).Draw(t, "goroutines"), Rounds: rapid.SampledFrom([]int{5, 20, 60}).Draw(t, "rounds")}
		},
		Check: checkConcurrent,
	})
}
