package c11

// Sub-check "history" (extension round 4): one *bt.Tx and one *bt.FeeQuote serve a
// whole sequence of queries and in-place edits. After every step every answer of
// the size / fee API must equal the independent reference for the transaction
// (and the quote) as it stands at that moment - a memoised size, a remembered
// data/standard classification, a fee rate looked up once, or an estimator that
// writes its placeholder into the receiver all show up as a stale answer.

import (
	"bytes"
	"context"
	"errors"
	"fmt"
	"math/big"
	"testing"

	"github.com/libsv/go-bk/bec"
	"github.com/libsv/go-bt/v2"
	"github.com/libsv/go-bt/v2/bscript"
	"github.com/libsv/go-bt/v2/unlocker"
	"pgregory.net/rapid"

	"verif/harness/gen"
	"verif/harness/pbt"
	"verif/harness/ref"
)

// HOp is one step of a history: an in-place edit of the library objects (mirrored on
// the model), followed by the queries selected by Q (0 = all of them).
type HOp struct {
	Kind string      `json:"kind"`
	At   int         `json:"at,omitempty"`   // element index (taken modulo the current count)
	N    int         `json:"n,omitempty"`    // count / length / byte position, depending on Kind
	U64  uint64      `json:"u64,omitempty"`  // amount / byte value
	B    pbt.Hex     `json:"b,omitempty"`    // script bytes / txid / private key
	B2   pbt.Hex     `json:"b2,omitempty"`   // second script (spent script of an added input)
	Nil  bool        `json:"nil,omitempty"`  // the script is set to nil instead of B
	Data bool        `json:"data,omitempty"` // quote: the data fee is replaced (else the standard fee)
	Unit ref.FeeUnit `json:"unit,omitempty"` // quote: new mining rate
	Tag  int         `json:"tag,omitempty"`  // quote: FeeType field of the registered fee object (ref.FeeTag*)
	Via   string      `json:"via,omitempty"`   // quote: the exported way the quote object is changed (ref.FeeQuoteEdit.Via)
	Unit2 ref.FeeUnit `json:"unit2,omitempty"` // quote via unmarshal: new rate of the other type
	Q    int         `json:"q,omitempty"`    // query mask after this step (0 = every query)
	R    *ref.C11Refused `json:"r,omitempty"` // kind "refused": a call on the quote object that the library refuses
}

// HistCase is a starting transaction, a starting quote and the steps.
type HistCase struct {
	Tx    ref.Tx       `json:"tx"`
	Quote ref.FeeQuote `json:"quote"`
	Q0    int          `json:"q0,omitempty"` // query mask before the first step
	Ops   []HOp        `json:"ops"`
}

// query mask bits
const (
	qSize = 1 << iota
	qTypes
	qPaid
	qEstSize
	qEstTypes
	qEstFees
	qEstPaid
	qAll = 1<<iota - 1
)

func hFiller(n, salt int) []byte {
	b := make([]byte, n)
	for i := range b {
		b[i] = byte(i*7 + salt*13 + 3)
	}
	return b
}

// hRepIn is replica j of an input: same fields, own txid, worth nothing.
func hRepIn(last ref.In, j int) ref.In {
	in := repIn(last, j)
	in.Unlock = append(pbt.Hex{}, last.Unlock...)
	in.PrevScript = append(pbt.Hex{}, last.PrevScript...)
	return in
}

func hLibIn(in ref.In) *bt.Input {
	i := &bt.Input{PreviousTxOutIndex: in.Vout, SequenceNumber: in.Seq, PreviousTxSatoshis: in.PrevSats}
	if err := i.PreviousTxIDAdd(append([]byte{}, in.TxID...)); err != nil {
		panic("harness: " + err.Error())
	}
	if !in.UnlockNil {
		i.UnlockingScript = bscript.NewFromBytes(append([]byte{}, in.Unlock...))
	}
	if !in.PrevNil {
		i.PreviousTxScript = bscript.NewFromBytes(append([]byte{}, in.PrevScript...))
	}
	return i
}

// hState is the pair (model, library objects) a history works on.
type hState struct {
	m  ref.Tx
	q  ref.FeeQuote
	tx *bt.Tx
	fq *bt.FeeQuote
	lq *ref.FeeQuoteLib
	// every breakdown the library handed out, with the reference it had to equal at that
	// moment: looked at again after the last step (a result is a value; a later call or a
	// later edit of the transaction must not reach back into it)
	keptSizes []hKeptSize
	keptFees  []hKeptFees
	step      int
}

type hKeptSize struct {
	what string
	step int
	got  *bt.TxSize
	want ref.FeeSizes
}

type hKeptFees struct {
	step int
	got  *bt.TxFees
	want [3]uint64 // total, std, data
}

// hRetained compares everything handed out during the history with what it had to be.
func (s *hState) hRetained() error {
	for i, k := range s.keptSizes {
		if k.got.TotalBytes != k.want.Total || k.got.TotalStdBytes != k.want.Std || k.got.TotalDataBytes != k.want.Data {
			return fmt.Errorf("the %s result handed out at step %d (result %d of %d) was {total %d std %d data %d} then and reads %+v after the history: a later call or edit changed a result already returned",
				k.what, k.step, i+1, len(s.keptSizes), k.want.Total, k.want.Std, k.want.Data, *k.got)
		}
	}
	for i, k := range s.keptFees {
		if k.got.TotalFeePaid != k.want[0] || k.got.StdFeePaid != k.want[1] || k.got.DataFeePaid != k.want[2] {
			return fmt.Errorf("the EstimateFeesPaid result handed out at step %d (result %d of %d) was {total %d std %d data %d} then and reads %+v after the history: a later call or edit changed a result already returned",
				k.step, i+1, len(s.keptFees), k.want[0], k.want[1], k.want[2], *k.got)
		}
	}
	return nil
}

// hValid reports whether the op is well formed for the state (a replayed file may hold anything).
func hEdit(op HOp) ref.FeeQuoteEdit {
	return ref.FeeQuoteEdit{Via: op.Via, Data: op.Data, Unit: op.Unit, Unit2: op.Unit2, Tag: op.Tag}
}

func hValid(op HOp) string {
	switch op.Kind {
	case "oappend", "repin", "repout":
		if op.N < 0 || op.N > 70000 {
			return "count out of range"
		}
		if op.Kind != "oappend" && op.N > 1000 {
			return "count out of range"
		}
	case "iappend":
		if op.N < 0 || op.N > 1000 {
			return "count out of range"
		}
	case "addin":
		if len(op.B) != 32 {
			return "txid length"
		}
	case "sign":
		if !validKey(op.B) {
			return "invalid private key"
		}
	case "refused":
		if op.R == nil || !ref.C11RefusedOK(*op.R) {
			return "malformed refused call"
		}
	case "quote":
		e := hEdit(op) // any positive byte denominator and non-negative satoshi amount (see quoteWide)
		for _, u := range []*ref.FeeUnit{&e.Unit, &e.Unit2} {
			if u.Bytes >= 1 && u.Sat >= 0 {
				*u = ref.FeeUnit{Sat: 1, Bytes: 1}
			}
		}
		if !ref.FeeQuoteEditOK(e) {
			return "quote outside domain"
		}
	}
	return ""
}

// apply performs the op on the library objects, in place, and on the model. It returns a
// short class of what happened (for labels) and an error for violations seen on the way.
func (s *hState) apply(op HOp) (string, error) {
	nin, nout := len(s.m.In), len(s.m.Out)
	switch op.Kind {
	// ---- outputs ----------------------------------------------------------------
	case "oset": // a new script object
		if nout == 0 {
			return "skipped", nil
		}
		i := op.At % nout
		s.m.Out[i].Script = append(pbt.Hex{}, op.B...)
		s.tx.Outputs[i].LockingScript = bscript.NewFromBytes(append([]byte{}, op.B...))
	case "oappend": // the same script object grows
		if nout == 0 {
			return "skipped", nil
		}
		i := op.At % nout
		f := hFiller(op.N, i)
		s.m.Out[i].Script = append(append(pbt.Hex{}, s.m.Out[i].Script...), f...)
		p := s.tx.Outputs[i].LockingScript
		*p = append(*p, f...)
	case "otrunc": // the same script object shrinks to N bytes
		if nout == 0 {
			return "skipped", nil
		}
		i := op.At % nout
		if op.N < 0 || op.N >= len(s.m.Out[i].Script) {
			return "skipped", nil
		}
		s.m.Out[i].Script = append(pbt.Hex{}, s.m.Out[i].Script[:op.N]...)
		p := s.tx.Outputs[i].LockingScript
		*p = (*p)[:op.N]
	case "obyte": // one byte of the script is overwritten through the pointer
		if nout == 0 {
			return "skipped", nil
		}
		i := op.At % nout
		if op.N < 0 || op.N >= len(s.m.Out[i].Script) {
			return "skipped", nil
		}
		sc := append(pbt.Hex{}, s.m.Out[i].Script...)
		sc[op.N] = byte(op.U64)
		s.m.Out[i].Script = sc
		(*s.tx.Outputs[i].LockingScript)[op.N] = byte(op.U64)
	case "osats":
		if nout == 0 {
			return "skipped", nil
		}
		i := op.At % nout
		s.m.Out[i].Sats = op.U64
		s.tx.Outputs[i].Satoshis = op.U64
	case "addout":
		s.m.Out = append(s.m.Out, ref.Out{Sats: op.U64, Script: append(pbt.Hex{}, op.B...)})
		s.tx.AddOutput(&bt.Output{Satoshis: op.U64, LockingScript: bscript.NewFromBytes(append([]byte{}, op.B...))})
	case "rmout":
		if nout == 0 {
			return "skipped", nil
		}
		i := op.At % nout
		s.m.Out = append(append([]ref.Out{}, s.m.Out[:i]...), s.m.Out[i+1:]...)
		s.tx.Outputs = append(s.tx.Outputs[:i], s.tx.Outputs[i+1:]...)
	case "repout":
		if nout == 0 {
			return "skipped", nil
		}
		last := s.m.Out[nout-1]
		for j := 0; j < op.N; j++ {
			s.m.Out = append(s.m.Out, ref.Out{Sats: last.Sats, Script: append(pbt.Hex{}, last.Script...)})
			s.tx.Outputs = append(s.tx.Outputs, &bt.Output{Satoshis: last.Sats, LockingScript: bscript.NewFromBytes(append([]byte{}, last.Script...))})
		}
	case "truncout":
		if op.N < 0 || op.N >= nout {
			return "skipped", nil
		}
		s.m.Out = s.m.Out[:op.N:op.N]
		s.tx.Outputs = s.tx.Outputs[:op.N]
	// ---- inputs -----------------------------------------------------------------
	case "isats":
		if nin == 0 {
			return "skipped", nil
		}
		i := op.At % nin
		s.m.In[i].PrevSats = op.U64
		s.tx.Inputs[i].PreviousTxSatoshis = op.U64
	case "iunlock": // a new unlocking script object (or nil)
		if nin == 0 {
			return "skipped", nil
		}
		i := op.At % nin
		if op.Nil {
			s.m.In[i].Unlock, s.m.In[i].UnlockNil = nil, true
			s.tx.Inputs[i].UnlockingScript = nil
		} else {
			s.m.In[i].Unlock, s.m.In[i].UnlockNil = append(pbt.Hex{}, op.B...), false
			s.tx.Inputs[i].UnlockingScript = bscript.NewFromBytes(append([]byte{}, op.B...))
		}
	case "iappend": // the same unlocking script object grows
		if nin == 0 {
			return "skipped", nil
		}
		i := op.At % nin
		if s.m.In[i].UnlockNil {
			return "skipped", nil
		}
		f := hFiller(op.N, i+100)
		s.m.In[i].Unlock = append(append(pbt.Hex{}, s.m.In[i].Unlock...), f...)
		p := s.tx.Inputs[i].UnlockingScript
		*p = append(*p, f...)
	case "iprev":
		if nin == 0 {
			return "skipped", nil
		}
		i := op.At % nin
		if op.Nil {
			s.m.In[i].PrevScript, s.m.In[i].PrevNil = nil, true
			s.tx.Inputs[i].PreviousTxScript = nil
		} else {
			s.m.In[i].PrevScript, s.m.In[i].PrevNil = append(pbt.Hex{}, op.B...), false
			s.tx.Inputs[i].PreviousTxScript = bscript.NewFromBytes(append([]byte{}, op.B...))
		}
	case "sign": // the library signs one input; the script it produced is read back into the model
		if nin == 0 {
			return "skipped", nil
		}
		i := op.At % nin
		priv, pub := bec.PrivKeyFromBytes(bec.S256(), op.B)
		if op.N >= 1 && op.N <= 3 {
			// the input spends a P2PKH output that pays to this very key: to the HASH160 of its
			// compressed (1), uncompressed (2) or hybrid (3) encoding
			ls := ref.FeeP2PKH(hash160(keyEncoding(pub, op.N-1)))
			s.m.In[i].PrevScript, s.m.In[i].PrevNil = append(pbt.Hex{}, ls...), false
			s.tx.Inputs[i].PreviousTxScript = bscript.NewFromBytes(append([]byte{}, ls...))
		}
		funded := !s.m.In[i].PrevNil && ref.FeeIsP2PKH(s.m.In[i].PrevScript)
		err := s.tx.FillInput(context.Background(), &unlocker.Simple{PrivateKey: priv}, bt.UnlockerParams{InputIdx: uint32(i)})
		if err != nil {
			if funded {
				return "", fmt.Errorf("FillInput(%d) failed on a P2PKH-funded input: %v", i, err)
			}
			return "sign-refused", nil
		}
		if s.tx.Inputs[i].UnlockingScript == nil {
			return "", fmt.Errorf("FillInput(%d) succeeded and left no unlocking script", i)
		}
		u := append(pbt.Hex{}, *s.tx.Inputs[i].UnlockingScript...)
		if funded && len(u) > ref.FeeUnlockP2PKHLen {
			// the statement's bound: the placeholder the estimate used for this input is never
			// smaller than what the library's signing produces
			return "", fmt.Errorf("input %d signed by the library carries %d bytes, more than the %d-byte placeholder of the estimate", i, len(u), ref.FeeUnlockP2PKHLen)
		}
		s.m.In[i].Unlock, s.m.In[i].UnlockNil = u, false
		return fmt.Sprintf("signed(%d bytes, spent script pays to key form %d)", len(u), op.N), nil
	case "addin":
		in := ref.In{TxID: append(pbt.Hex{}, op.B...), Vout: uint32(op.N), Seq: 0xffffffff, UnlockNil: true, PrevSats: op.U64,
			PrevScript: append(pbt.Hex{}, op.B2...), PrevNil: op.Nil}
		if op.Nil {
			in.PrevScript = nil
		}
		s.m.In = append(s.m.In, in)
		if op.Nil {
			s.tx.Inputs = append(s.tx.Inputs, hLibIn(in))
		} else { // the public constructor
			u := &bt.UTXO{TxID: append([]byte{}, in.TxID...), Vout: in.Vout, Satoshis: in.PrevSats, LockingScript: bscript.NewFromBytes(append([]byte{}, in.PrevScript...))}
			if err := s.tx.FromUTXOs(u); err != nil {
				return "", fmt.Errorf("harness: FromUTXOs: %v", err)
			}
		}
	case "rmin":
		if nin == 0 {
			return "skipped", nil
		}
		i := op.At % nin
		s.m.In = append(append([]ref.In{}, s.m.In[:i]...), s.m.In[i+1:]...)
		s.tx.Inputs = append(s.tx.Inputs[:i], s.tx.Inputs[i+1:]...)
	case "repin":
		if nin == 0 {
			return "skipped", nil
		}
		last := s.m.In[nin-1]
		for j := 0; j < op.N; j++ {
			in := hRepIn(last, j+nin)
			s.m.In = append(s.m.In, in)
			s.tx.Inputs = append(s.tx.Inputs, hLibIn(in))
		}
	case "truncin":
		if op.N < 0 || op.N >= nin {
			return "skipped", nil
		}
		s.m.In = s.m.In[:op.N:op.N]
		s.tx.Inputs = s.tx.Inputs[:op.N]
	// ---- the quote object -------------------------------------------------------
	case "quote": // the quote object every call has been given is changed through one of the exported ways
		if err := s.lq.Apply(&s.q, hEdit(op)); err != nil {
			return "", fmt.Errorf("updating the quote object (%s): %v", op.Via, err)
		}
		return "quote-step:via=" + hEdit(op).Via, nil
	case "refused": // a refused update is not an update: the model of the quote stays what it is
		switch err := ref.C11RefusedApply(s.lq, *op.R); {
		case errors.Is(err, ref.C11ErrAccepted):
			return "accepted", nil
		case err != nil:
			return "", err
		}
		return ref.C11RefusedLabel(*op.R), nil
	// ---- the object is used for something else in between ----------------------------
	case "touch": // serialisations, id, JSON: answers are thrown away
		_ = s.tx.Bytes()
		_ = s.tx.ExtendedBytes()
		_ = s.tx.TxID()
		_ = s.tx.String()
		_, _ = s.tx.MarshalJSON()
		_ = s.tx.IsCoinbase()
		_ = s.tx.HasDataOutputs()
	case "clone": // the history continues on a clone; the model is what the clone holds
		if ref.Ambiguous(s.m) {
			return "skipped", nil
		}
		s.tx = s.tx.Clone()
		s.m = ref.FromLib(s.tx)
	case "none":
	default:
		return "skipped", nil
	}
	return "", nil
}

// hAnswers compares the answers selected by mask with the reference for the state as it stands.
func (s *hState) hAnswers(mask int) (sizes ref.FeeSizes, estErr string, err error) {
	if mask == 0 {
		mask = qAll
	}
	m, tx, fq := s.m, s.tx, s.fq
	inSum, outSum := ref.FeeSumIn(m), ref.FeeSumOut(m)
	want := ref.FeeSizesOf(m)
	sizes = want
	if mask&qSize != 0 {
		if got := tx.Size(); uint64(got) != want.Total {
			return sizes, "", fmt.Errorf("Size() = %d, the transaction as it stands serialises to %d bytes", got, want.Total)
		}
	}
	if mask&qTypes != 0 {
		got := tx.SizeWithTypes()
		if got.TotalBytes != want.Total || got.TotalStdBytes != want.Std || got.TotalDataBytes != want.Data {
			return sizes, "", fmt.Errorf("SizeWithTypes() = %+v, reference for the transaction as it stands {total %d std %d data %d}", *got, want.Total, want.Std, want.Data)
		}
		s.keptSizes = append(s.keptSizes, hKeptSize{"SizeWithTypes", s.step, got, want})
	}
	if mask&qPaid != 0 {
		feeAct, _, _ := ref.FeeCalc(want, s.q)
		ok, e := tx.IsFeePaidEnough(fq)
		if e != nil {
			return sizes, "", fmt.Errorf("IsFeePaidEnough: unexpected error %v", e)
		}
		if wantOK := enough(inSum, outSum, feeAct); ok != wantOK {
			return sizes, "", fmt.Errorf("IsFeePaidEnough = %v, but in=%s out=%s fee=%s (std %d B at %d/%d + data %d B at %d/%d) gives %v",
				ok, inSum, outSum, feeAct, want.Std, s.q.Std.Sat, s.q.Std.Bytes, want.Data, s.q.Data.Sat, s.q.Data.Bytes, wantOK)
		}
	}
	if mask&(qEstSize|qEstTypes|qEstFees|qEstPaid) == 0 {
		return sizes, "not-queried", nil
	}
	// the estimators are judged under the same rule as in "identities"
	for _, in := range m.In {
		if len(in.Unlock) != 0 && (in.PrevNil || !ref.FeeIsP2PKH(in.PrevScript)) {
			// called, not judged
			if !ref.Ambiguous(m) {
				_, _ = tx.EstimateSize()
			}
			return sizes, "not-asserted", nil
		}
	}
	fin, both, rerr := ref.FeeEstimatedFinal(m)
	wantEst := ref.FeeSizesOf(fin)
	feeEst, feeStd, feeData := ref.FeeCalc(wantEst, s.q)
	judgeErr := func(name string, e error) error {
		if e == nil {
			return fmt.Errorf("%s guessed a size although an unsigned input has a missing/unsupported spent script (%v)", name, rerr)
		}
		// the statement asks for AN error ("reports an error rather than guessing"); which sentinel, wrapped or
		// not, is the library's choice (benign change C11-b2-1 reports a zero-length script as 'not supplied')
		_ = both
		return nil
	}
	estErr = "ok"
	if rerr != nil {
		estErr = "error"
	}
	if mask&qEstSize != 0 {
		got, e := tx.EstimateSize()
		switch {
		case rerr != nil:
			if err := judgeErr("EstimateSize", e); err != nil {
				return sizes, estErr, err
			}
		case e != nil:
			return sizes, estErr, fmt.Errorf("EstimateSize failed on a P2PKH-funded transaction: %v", e)
		case uint64(got) != wantEst.Total:
			return sizes, estErr, fmt.Errorf("EstimateSize = %d, documented estimate for the transaction as it stands (107-byte script per unsigned input) = %d", got, wantEst.Total)
		}
	}
	if mask&qEstTypes != 0 {
		got, e := tx.EstimateSizeWithTypes()
		switch {
		case rerr != nil:
			if err := judgeErr("EstimateSizeWithTypes", e); err != nil {
				return sizes, estErr, err
			}
		case e != nil:
			return sizes, estErr, fmt.Errorf("EstimateSizeWithTypes failed on a P2PKH-funded transaction: %v", e)
		case got.TotalBytes != wantEst.Total || got.TotalStdBytes != wantEst.Std || got.TotalDataBytes != wantEst.Data:
			return sizes, estErr, fmt.Errorf("EstimateSizeWithTypes = %+v, reference for the transaction as it stands %+v", *got, wantEst)
		default:
			s.keptSizes = append(s.keptSizes, hKeptSize{"EstimateSizeWithTypes", s.step, got, wantEst})
		}
	}
	if mask&qEstFees != 0 {
		got, e := tx.EstimateFeesPaid(fq)
		switch {
		case rerr != nil:
			if err := judgeErr("EstimateFeesPaid", e); err != nil {
				return sizes, estErr, err
			}
		case e != nil:
			return sizes, estErr, fmt.Errorf("EstimateFeesPaid failed on a P2PKH-funded transaction: %v", e)
		case got.StdFeePaid != feeStd.Uint64() || got.DataFeePaid != feeData.Uint64() || got.TotalFeePaid != feeEst.Uint64():
			return sizes, estErr, fmt.Errorf("EstimateFeesPaid = {total %d std %d data %d}, floor(%d*%d/%d)=%s + floor(%d*%d/%d)=%s = %s for the transaction and quote as they stand",
				got.TotalFeePaid, got.StdFeePaid, got.DataFeePaid,
				wantEst.Std, s.q.Std.Sat, s.q.Std.Bytes, feeStd, wantEst.Data, s.q.Data.Sat, s.q.Data.Bytes, feeData, feeEst)
		default:
			s.keptFees = append(s.keptFees, hKeptFees{s.step, got, [3]uint64{feeEst.Uint64(), feeStd.Uint64(), feeData.Uint64()}})
		}
	}
	if mask&qEstPaid != 0 {
		got, e := tx.EstimateIsFeePaidEnough(fq)
		switch {
		case rerr != nil:
			if err := judgeErr("EstimateIsFeePaidEnough", e); err != nil {
				return sizes, estErr, err
			}
			if got {
				return sizes, estErr, fmt.Errorf("EstimateIsFeePaidEnough returned true together with an error")
			}
		case e != nil:
			return sizes, estErr, fmt.Errorf("EstimateIsFeePaidEnough failed on a P2PKH-funded transaction: %v", e)
		default:
			if wantOK := enough(inSum, outSum, feeEst); got != wantOK {
				return sizes, estErr, fmt.Errorf("EstimateIsFeePaidEnough = %v, but in=%s out=%s estimated fee=%s gives %v", got, inSum, outSum, feeEst, wantOK)
			}
		}
	}
	return sizes, estErr, nil
}

func hDataFlags(m ref.Tx) []bool {
	f := make([]bool, len(m.Out))
	for i, o := range m.Out {
		f[i] = ref.FeeIsData(o.Script)
	}
	return f
}

func hMaxScript(m ref.Tx) int {
	n := 0
	for _, o := range m.Out {
		n = max(n, len(o.Script))
	}
	for _, in := range m.In {
		n = max(n, len(in.Unlock))
	}
	return n
}

func checkHistory(ctx *pbt.Ctx, c HistCase) error {
	if !quoteWide(c.Quote) {
		ctx.Discard("quote outside domain")
		return nil
	}
	if len(c.Ops) > 12 {
		ctx.Discard("history too long")
		return nil
	}
	for _, in := range c.Tx.In {
		if len(in.TxID) != 32 {
			ctx.Discard("txid length")
			return nil
		}
	}
	for _, op := range c.Ops {
		if why := hValid(op); why != "" {
			ctx.Discard(why)
			return nil
		}
	}
	if ref.Ambiguous(c.Tx) {
		ctx.Discard("ambiguous extended-marker shape")
		return nil
	}
	// deep copy of the model: the case itself is never written to
	s := &hState{q: c.Quote}
	s.m = ref.Tx{Version: c.Tx.Version, LockTime: c.Tx.LockTime}
	for _, in := range c.Tx.In {
		in.TxID, in.Unlock, in.PrevScript = append(pbt.Hex{}, in.TxID...), append(pbt.Hex{}, in.Unlock...), append(pbt.Hex{}, in.PrevScript...)
		if in.UnlockNil {
			in.Unlock = nil
		}
		if in.PrevNil {
			in.PrevScript = nil
		}
		s.m.In = append(s.m.In, in)
	}
	for _, o := range c.Tx.Out {
		s.m.Out = append(s.m.Out, ref.Out{Sats: o.Sats, Script: append(pbt.Hex{}, o.Script...)})
	}
	s.tx = ref.ToLib(s.m)
	lq, err := ref.FeeQuoteBuild(c.Quote)
	if err != nil {
		return fmt.Errorf("building the quote object: %v", err)
	}
	s.lq, s.fq = lq, lq.Q
	ctx.After(lq.Unmodified)
	// satoshi amounts are uint64: every amount is in the domain as long as neither total overflows
	inDomain := func() bool {
		if !(ref.FeeSumIn(s.m).IsUint64() && ref.FeeSumOut(s.m).IsUint64() && !ref.Ambiguous(s.m)) {
			return false
		}
		if quoteIsWide(s.q) { // the exact fee products must fit uint64 (actual and estimated size)
			if !feeFits(ref.FeeSizesOf(s.m), s.q) {
				return false
			}
			if fin, _, err := ref.FeeEstimatedFinal(s.m); err == nil && !feeFits(ref.FeeSizesOf(fin), s.q) {
				return false
			}
		}
		return true
	}
	if !inDomain() {
		ctx.Discard("a total or a fee product overflows uint64")
		return nil
	}
	ctx.Labelf("steps=%d", len(c.Ops))
	if sh := gen.C10OutpointShape(s.m.In); sh != "" {
		ctx.Label("start:" + sh)
	}
	prev, prevEst, err := s.hAnswers(c.Q0)
	if err != nil {
		return fmt.Errorf("before the first edit: %v", err)
	}
	prevQ, prevM := s.q, s.m
	prevFlags, prevMax := hDataFlags(s.m), hMaxScript(s.m)
	seen := map[string]bool{}
	lab := func(l string) {
		if !seen[l] {
			seen[l] = true
			ctx.Label(l)
		}
	}
	for i, op := range c.Ops {
		s.step = i + 1
		what, err := s.apply(op)
		if err != nil {
			return fmt.Errorf("step %d (%s): %v", i+1, op.Kind, err)
		}
		if what == "accepted" {
			// the library did not refuse the call: what the quote holds from here on is not defined by
			// "a refused update is not an update"; the history is not judged further
			ctx.Label("refused-call-was-accepted:" + op.R.Kind)
			return nil
		}
		if what == "skipped" {
			lab("op-skipped")
		} else {
			lab("op=" + op.Kind)
			if op.Kind == "quote" && op.Tag == ref.FeeTagOther {
				lab("quote-step:fee-type-field=other-type")
			} else if op.Kind == "quote" && op.Tag == ref.FeeTagEmpty {
				lab("quote-step:fee-type-field=empty")
			}
			if what != "" {
				lab(what)
			}
		}
		if !inDomain() {
			ctx.Discard("history leaves the domain (a total or a fee product overflows uint64 / ambiguous shape)")
			return nil
		}
		cur, est, err := s.hAnswers(op.Q)
		if err != nil {
			return fmt.Errorf("step %d, after %s (history %s): %v", i+1, hDescribe(op), hKinds(c.Ops[:i+1]), err)
		}
		// classes reached
		if op.Kind == "refused" && (op.Q == 0 || op.Q&(qPaid|qEstFees|qEstPaid) != 0) {
			lab("fee-answers-after-a-refused-call")
			if op.R.Kind != "lookup" && op.R.Kind != "other-key" {
				ctx.NonTrivial() // an update that went through in spite of the refusal would be visible
			}
			if i > 0 && c.Ops[i-1].Kind == "quote" {
				lab("refused-call-right-after-a-quote-update")
			}
		}
		if cur != prev || s.q != prevQ {
			ctx.NonTrivial() // the edit moved a reference answer: a stale answer would be visible
			lab("edit-changed-answers")
		}
		if (len(prevM.Out) < 253) != (len(s.m.Out) < 253) {
			lab("output-count-crosses-253")
		}
		if (len(prevM.In) < 253) != (len(s.m.In) < 253) {
			lab("input-count-crosses-253")
		}
		if (len(s.m.In) >= 253) != (len(s.m.Out) >= 253) {
			lab("count-prefixes-differ")
		}
		if mx := hMaxScript(s.m); (prevMax < 253) != (mx < 253) {
			lab("script-length-crosses-253")
		} else if (prevMax < 65536) != (mx < 65536) {
			lab("script-length-crosses-65536")
		}
		flags := hDataFlags(s.m)
		if len(flags) == len(prevFlags) && (op.Kind == "obyte" || op.Kind == "otrunc" || op.Kind == "oset" || op.Kind == "oappend") {
			for j := range flags {
				if flags[j] != prevFlags[j] {
					if flags[j] {
						lab("output-became-data(" + op.Kind + ")")
					} else {
						lab("output-became-standard(" + op.Kind + ")")
					}
				}
			}
		}
		if est != prevEst && est != "not-queried" && prevEst != "not-queried" {
			lab("estimate:" + prevEst + "->" + est)
		}
		if s.q != prevQ {
			lab("quote-updated")
		}
		if quoteIsWide(s.q) {
			lab("fee-unit-numbers>10^6")
		}
		if two63 := new(big.Int).Lsh(big.NewInt(1), 63); ref.FeeSumIn(s.m).Cmp(two63) >= 0 || ref.FeeSumOut(s.m).Cmp(two63) >= 0 {
			lab("amounts>=2^63")
		}
		prev, prevQ, prevM, prevFlags, prevMax = cur, s.q, s.m, flags, hMaxScript(s.m)
		if est != "not-queried" {
			prevEst = est
		}
	}
	if err := s.hRetained(); err != nil {
		return fmt.Errorf("history %s: %v", hKinds(c.Ops), err)
	}
	if len(s.keptSizes)+len(s.keptFees) >= 2 {
		ctx.Label("retained-results>=2")
	}
	// the queries are read-only: the object still holds what the model holds
	if got := ref.FromLib(s.tx); !bytes.Equal(ref.Encode(got, true), ref.Encode(s.m, true)) {
		return fmt.Errorf("after the history %s the transaction object no longer holds what was put into it: a query modified it\n object %x\n model  %x",
			hKinds(c.Ops), ref.Encode(got, true), ref.Encode(s.m, true))
	}
	return nil
}

func hDescribe(op HOp) string {
	switch op.Kind {
	case "oappend", "iappend", "otrunc", "repin", "repout", "truncin", "truncout":
		return fmt.Sprintf("%s(at %d, n %d)", op.Kind, op.At, op.N)
	case "obyte":
		return fmt.Sprintf("obyte(output %d, byte %d := %#02x)", op.At, op.N, byte(op.U64))
	case "refused":
		if op.R != nil {
			return fmt.Sprintf("refused call %s [%s]", ref.C11RefusedLabel(*op.R), ref.C11RefusedDoc(*op.R))
		}
	case "quote":
		return fmt.Sprintf("quote(via %s, data=%v, %d/%d, other %d/%d)", op.Via, op.Data, op.Unit.Sat, op.Unit.Bytes, op.Unit2.Sat, op.Unit2.Bytes)
	}
	return fmt.Sprintf("%s(at %d)", op.Kind, op.At)
}

func hKinds(ops []HOp) string {
	s := "["
	for i, op := range ops {
		if i > 0 {
			s += " "
		}
		s += op.Kind
	}
	return s + "]"
}

// ---------------------------------------------------------------------------
// generator

func genHScript(t *rapid.T, label string) pbt.Hex {
	switch rapid.IntRange(0, 7).Draw(t, label+"_k") {
	case 0:
		return ref.FeeP2PKH(gen.Bytes(t, 20, label+"_h"))
	case 7: // data output whose payload is pushes starting with opcode-valued bytes
		pre := pbt.Hex{0x00, 0x6a}
		if rapid.IntRange(0, 3).Draw(t, label+"_bare_return") == 0 {
			pre = pbt.Hex{0x6a}
		}
		return append(pre, gen.C10DataPayload(t, label+"_tpl")...)
	case 1:
		return append(pbt.Hex{0x6a}, gen.FillBytes(t, gen.EdgeLen(t, 300, label+"_dl", 0, 1, 75, 76, 250, 251, 252, 253), label+"_p")...)
	case 2:
		return append(pbt.Hex{0x00, 0x6a}, gen.FillBytes(t, gen.EdgeLen(t, 300, label+"_dl", 0, 1, 75, 76, 249, 250, 251, 252), label+"_p")...)
	case 3:
		return rapid.SampledFrom([]pbt.Hex{{}, {0x00}, {0x6a}, {0x00, 0x6a}, {0x00, 0x00, 0x6a}, {0x51, 0x6a}, {0x00, 0x6b}, {0x51}}).Draw(t, label+"_near")
	}
	return gen.FillBytes(t, gen.EdgeLen(t, 300, label+"_sl", 0, 1, 2, 25, 251, 252, 253), label+"_s")
}

func genHOp(t *rapid.T, nin, nout int) HOp {
	var op HOp
	kinds := []string{
		"oset", "oappend", "oappend", "otrunc", "obyte", "obyte", "obyte", "osats", "addout", "rmout",
		"isats", "iunlock", "iunlock", "iappend", "iprev", "sign", "sign", "addin", "rmin",
		"quote", "quote", "touch", "clone", "none",
		"rep", "trunc",
		"refused", "refused",
	}
	op.Kind = rapid.SampledFrom(kinds).Draw(t, "kind")
	op.At = rapid.IntRange(0, 5).Draw(t, "at")
	switch op.Kind {
	case "oset":
		op.B = genHScript(t, "oset")
	case "oappend":
		// aimed at the lengths where a script length prefix (or a push inside it) grows; the
		// generator does not know the current length, so the increments themselves sit on the boundaries
		op.N = rapid.SampledFrom([]int{1, 2, 3, 227, 228, 229, 250, 251, 252, 253, 254, 300, 65000, 65535, 65536}).Draw(t, "grow")
		if op.N > 1000 && rapid.IntRange(0, 3).Draw(t, "rare") != 0 {
			op.N = rapid.IntRange(0, 40).Draw(t, "grow_small")
		}
	case "otrunc":
		op.N = rapid.SampledFrom([]int{0, 1, 2, 25, 252, 253}).Draw(t, "keep")
	case "obyte":
		op.N = rapid.SampledFrom([]int{0, 0, 1}).Draw(t, "pos")
		op.U64 = uint64(rapid.SampledFrom([]byte{0x6a, 0x6a, 0x00, 0x51, 0x76, 0x6b}).Draw(t, "val"))
	case "osats", "isats":
		op.U64 = rapid.SampledFrom([]uint64{0, 1, 2, 100, 1000, 100000, 1000000000000}).Draw(t, "amount")
		if rapid.Bool().Draw(t, "any_amount") {
			op.U64 = rapid.Uint64Range(0, 2000000).Draw(t, "amount_v")
		}
		if rapid.IntRange(0, 4).Draw(t, "huge_amount") == 3 { // upper half of the uint64 range
			v, _ := genHugeAmount(t, "huge_v")
			op.U64 = min(v, maxU64-1<<44)
		}
	case "addout":
		op.B = genHScript(t, "addout")
		op.U64 = rapid.Uint64Range(0, 5000).Draw(t, "osats")
	case "iunlock":
		switch rapid.IntRange(0, 4).Draw(t, "uk") {
		case 0:
			op.Nil = true
		case 1:
			op.B = pbt.Hex{}
		case 2:
			sl := rapid.IntRange(70, 73).Draw(t, "siglen")
			u := append([]byte{byte(sl)}, gen.Bytes(t, sl, "sig")...)
			op.B = append(append(u, 33), gen.Bytes(t, 33, "pub")...)
		default:
			op.B = gen.FillBytes(t, 1+gen.EdgeLen(t, 299, "ulen", 0, 105, 106, 107, 251, 252, 253), "unlock")
		}
	case "iappend":
		op.N = rapid.SampledFrom([]int{1, 2, 145, 146, 147, 252, 253}).Draw(t, "grow")
	case "iprev":
		switch rapid.IntRange(0, 3).Draw(t, "pk") {
		case 0:
			op.Nil = true
		case 1:
			op.B = genUnsupported(t)
		default:
			op.B = ref.FeeP2PKH(gen.Bytes(t, 20, "pkh"))
		}
	case "sign":
		k := gen.Bytes(t, 32, "key")
		if k[0] == 0xff {
			k[0] = 0xfe
		}
		if new(big.Int).SetBytes(k).Sign() == 0 {
			k[31] = 1
		}
		op.B = k
		op.N = []int{0, 1, 2, 3}[rapid.IntRange(0, 3).Draw(t, "keyform")]
	case "addin":
		op.B = gen.Bytes(t, 32, "txid")
		if rapid.IntRange(0, 9).Draw(t, "null_txid") == 4 { // all-zero previous txid (From gives the final sequence)
			op.B = make(pbt.Hex, 32)
		}
		op.N = int(gen.U32(t, "vout") & 0x7fffffff)
		op.U64 = rapid.Uint64Range(0, 3000000).Draw(t, "isats")
		switch rapid.IntRange(0, 7).Draw(t, "pk") {
		case 0:
			op.Nil = true
		case 1:
			op.B2 = genUnsupported(t)
		default:
			op.B2 = ref.FeeP2PKH(gen.Bytes(t, 20, "pkh"))
		}
	case "quote":
		op.Data = rapid.Bool().Draw(t, "data")
		op.Unit = genUnit(t, "unit")
		op.Tag = genFeeTag(t, "tag")
		op.Via = genQuoteVia(t, "via")
		op.Unit2 = genUnit(t, "unit2")
		if rapid.IntRange(0, 7).Draw(t, "wide") == 5 { // numbers from the upper part of the int range, mostly through JSON
			op.Unit = genUnitWide(t, "wunit")
			if rapid.Bool().Draw(t, "wide2") {
				op.Unit2 = genUnitWide(t, "wunit2")
			}
			if rapid.IntRange(0, 2).Draw(t, "wide_json") != 0 {
				op.Via = "unmarshal"
			}
		}
	case "refused":
		r := gen.C11Refused(t, "refused")
		op.R = &r
	case "rep": // element counts reach the three-byte prefix on one side only, or on both
		total := rapid.SampledFrom([]int{251, 252, 253, 254}).Draw(t, "total")
		if rapid.Bool().Draw(t, "side") {
			op.Kind, op.N = "repin", max(total-nin, 0)
		} else {
			op.Kind, op.N = "repout", max(total-nout, 0)
		}
	case "trunc":
		op.N = rapid.SampledFrom([]int{0, 1, 2, 251, 252, 253}).Draw(t, "keep")
		if rapid.Bool().Draw(t, "side") {
			op.Kind = "truncin"
		} else {
			op.Kind = "truncout"
		}
	}
	if rapid.Bool().Draw(t, "subset") && op.Kind != "refused" { // every answer is asked for after a refused call
		op.Q = rapid.IntRange(1, qAll).Draw(t, "q")
	}
	return op
}

func genHistCase(t *rapid.T) HistCase {
	var c HistCase
	c.Tx.Version = rapid.SampledFrom([]uint32{1, 2, 0xffffffff}).Draw(t, "version")
	c.Tx.LockTime = rapid.SampledFrom([]uint32{0, 1, 500000000, 0xffffffff}).Draw(t, "locktime")
	nin := rapid.IntRange(0, 3).Draw(t, "nin")
	for i := 0; i < nin; i++ {
		in := ref.In{TxID: gen.Bytes(t, 32, "txid"), Vout: gen.U32(t, "vout"), Seq: gen.U32(t, "seq"), PrevSats: rapid.Uint64Range(0, 3000000).Draw(t, "isats")}
		switch rapid.IntRange(0, 9).Draw(t, "prevk") {
		case 0:
			in.PrevNil = true
		case 1:
			in.PrevScript = genUnsupported(t)
		default:
			in.PrevScript = ref.FeeP2PKH(gen.Bytes(t, 20, "pkh"))
		}
		switch rapid.IntRange(0, 4).Draw(t, "ukind") {
		case 0, 1:
			in.UnlockNil = true
		case 2:
			in.Unlock = pbt.Hex{}
		default:
			in.Unlock = gen.FillBytes(t, 1+gen.EdgeLen(t, 299, "ulen", 0, 105, 106, 107, 251, 252, 253), "unlock")
		}
		c.Tx.In = append(c.Tx.In, in)
	}
	c.Tx.In = gen.C10SpecialOutpoints(t, c.Tx.In)
	nin = len(c.Tx.In)
	nout := rapid.IntRange(0, 4).Draw(t, "nout")
	for i := 0; i < nout; i++ {
		c.Tx.Out = append(c.Tx.Out, ref.Out{Sats: rapid.Uint64Range(0, 5000).Draw(t, "osats"), Script: genHScript(t, "out")})
	}
	c.Quote = genQuoteWide(t)
	if rapid.Bool().Draw(t, "subset0") {
		c.Q0 = rapid.IntRange(1, qAll).Draw(t, "q0")
	}
	nops := rapid.IntRange(1, 8).Draw(t, "nops")
	for i := 0; i < nops; i++ {
		op := genHOp(t, nin, nout)
		// running element counts (the model's, good enough for aiming the replication ops)
		switch op.Kind {
		case "addin":
			nin++
		case "addout":
			nout++
		case "rmin":
			nin = max(nin-1, 0)
		case "rmout":
			nout = max(nout-1, 0)
		case "repin":
			if nin > 0 {
				nin += op.N
			}
		case "repout":
			if nout > 0 {
				nout += op.N
			}
		case "truncin":
			nin = min(nin, op.N)
		case "truncout":
			nout = min(nout, op.N)
		}
		c.Ops = append(c.Ops, op)
	}
	return c
}

func TestHistory(t *testing.T) {
	pbt.Run(t, pbt.Sub[HistCase]{
		Name: "history", Quick: 40000, Thorough: 1200000,
		Gen:   genHistCase,
		Check: checkHistory,
	})
}
