package c15

// Round 7: the address API is a set of pure functions of their arguments, so several goroutines
// may call it at the same time. 2..8 goroutines call ValidateAddress / NewAddressFromString /
// NewP2PKHFromAddress / PayToAddress on DIFFERENT strings (valid addresses of both networks,
// their one-edit neighbours and other candidates of `strings`, BIP276 texts and look-alikes)
// and NewAddressFromPublicKeyHash / NewAddressFromPublicKeyString / NewAddressFromPublicKey /
// NewP2PKHFromPubKeyHash(Str) / NewP2PKHFromPubKeyBytes / NewP2PKHFromPubKeyStr /
// NewP2PKHFromPubKeyEC on different payees, all released together. Every answer must be the
// REFERENCE answer for its own argument (Base58Check classifier, hash160, canonical script,
// BIP276 reference), exactly as the sequential sub-checks demand it. Known finding L26 is
// matched exactly as in `strings`: a bad_checksum string given to one of the constructors
// that sit on NewAddressFromString is left out when L26 is listed; ValidateAddress is never
// excused. The goroutine schedule is not drawn by the generators: listed in FLAKY_SUBS.txt.

import (
	"encoding/hex"
	"fmt"
	"strings"
	"testing"

	"github.com/libsv/go-bk/bec"
	"github.com/libsv/go-bt/v2"
	"github.com/libsv/go-bt/v2/bscript"
	"pgregory.net/rapid"

	"verif/harness/conc"
	"verif/harness/pbt"
	"verif/harness/ref"
)

// Payee is a hash, an arbitrary 33-byte key or a private scalar, and a network.
type Payee struct {
	Kind    string  `json:"kind"` // hash / key / priv
	Data    pbt.Hex `json:"data"`
	Mainnet bool    `json:"mainnet"`
}

// Conc is one concurrent session.
type Conc struct {
	Payees     []Payee `json:"payees"`
	Strs       []Str   `json:"strs"`
	Goroutines int     `json:"goroutines"`
	Rounds     int     `json:"rounds"`
}

func refused(err error) []byte { return []byte("refused") }

func addrAnswer(a *bscript.Address, err error) ([]byte, error) {
	if err != nil || a == nil {
		return refused(err), nil
	}
	return []byte(a.AddressString + " " + a.PublicKeyHash), nil
}

func scriptAnswer(s *bscript.Script, err error) ([]byte, error) {
	if err != nil || s == nil {
		return refused(err), nil
	}
	return []byte(hex.EncodeToString(*s)), nil
}

func checkConc(ctx *pbt.Ctx, c Conc) error {
	if c.Goroutines < 2 || c.Goroutines > 16 || c.Rounds < 1 || c.Rounds > 500 || len(c.Payees)+len(c.Strs) < 2 {
		ctx.Discard("malformed case")
		return nil
	}
	var calls []conc.Call
	add := func(name string, want string, f func() ([]byte, error)) {
		calls = append(calls, conc.Call{Name: name, F: f, Want: []byte(want)})
	}
	for i, p := range c.Payees {
		p := p
		ver := byte(0x00)
		if !p.Mainnet {
			ver = 0x6f
		}
		var h, key []byte
		var pub *bec.PublicKey
		switch p.Kind {
		case "hash":
			if len(p.Data) != 20 {
				return fmt.Errorf("harness: hash payee with %d bytes", len(p.Data))
			}
			h = append([]byte(nil), p.Data...)
		case "key":
			if len(p.Data) != 33 {
				return fmt.Errorf("harness: key payee with %d bytes", len(p.Data))
			}
			key = append([]byte(nil), p.Data...)
			h = ref.Hash160(key)
		case "priv":
			_, pub = bec.PrivKeyFromBytes(bec.S256(), p.Data)
			key = pub.SerialiseCompressed()
			h = ref.Hash160(key)
		default:
			return fmt.Errorf("harness: unknown payee kind %q", p.Kind)
		}
		ctx.Label("payee=" + p.Kind)
		addr := ref.B58CheckEncode(ver, h)
		wantAddr := addr + " " + hex.EncodeToString(h)
		wantScript := hex.EncodeToString(ref.P2PKHScript(h))
		tag := fmt.Sprintf("[payee %d %s]", i, addr)
		add("NewAddressFromPublicKeyHash"+tag, wantAddr, func() ([]byte, error) {
			return addrAnswer(bscript.NewAddressFromPublicKeyHash(append([]byte(nil), h...), p.Mainnet))
		})
		add("NewP2PKHFromPubKeyHash"+tag, wantScript, func() ([]byte, error) {
			return scriptAnswer(bscript.NewP2PKHFromPubKeyHash(append([]byte(nil), h...)))
		})
		add("NewP2PKHFromPubKeyHashStr"+tag, wantScript, func() ([]byte, error) { return scriptAnswer(bscript.NewP2PKHFromPubKeyHashStr(hex.EncodeToString(h))) })
		if key != nil {
			add("NewAddressFromPublicKeyString"+tag, wantAddr, func() ([]byte, error) {
				return addrAnswer(bscript.NewAddressFromPublicKeyString(hex.EncodeToString(key), p.Mainnet))
			})
			add("NewP2PKHFromPubKeyBytes"+tag, wantScript, func() ([]byte, error) {
				return scriptAnswer(bscript.NewP2PKHFromPubKeyBytes(append([]byte(nil), key...)))
			})
			add("NewP2PKHFromPubKeyStr"+tag, wantScript, func() ([]byte, error) { return scriptAnswer(bscript.NewP2PKHFromPubKeyStr(hex.EncodeToString(key))) })
		}
		if pub != nil {
			add("NewAddressFromPublicKey"+tag, wantAddr, func() ([]byte, error) { return addrAnswer(bscript.NewAddressFromPublicKey(pub, p.Mainnet)) })
			add("NewP2PKHFromPubKeyEC"+tag, wantScript, func() ([]byte, error) { return scriptAnswer(bscript.NewP2PKHFromPubKeyEC(pub)) })
		}
	}
	classes := map[string]bool{}
	for i, sc := range c.Strs {
		s := sc.S
		if len(sc.Raw) > 0 {
			s = string(sc.Raw)
		}
		info := ref.ClassifyAddress(s)
		tag := fmt.Sprintf("[string %d %q]", i, s)
		// ValidateAddress: the reference answer, BIP276 family included
		wantValidate, claimed := "false", true
		switch {
		case info.Class == ref.AddrValid:
			wantValidate = "true"
		case strings.HasPrefix(s, bipPrefix+":"):
			strict, lenient := bip276Verdict(s)
			if strict {
				wantValidate = "true"
			} else if lenient {
				claimed = false
			}
		}
		if claimed {
			classes["validate:"+wantValidate] = true
			add("ValidateAddress"+tag, wantValidate, func() ([]byte, error) {
				ok, err := bscript.ValidateAddress(s)
				return []byte(fmt.Sprint(ok && err == nil)), nil
			})
		}
		// the constructors: valid => hash and canonical script; anything else => refused
		wantAddr, wantScript := "refused", "refused"
		if info.Class == ref.AddrValid {
			wantAddr = s + " " + hex.EncodeToString(info.Hash)
			wantScript = hex.EncodeToString(ref.P2PKHScript(info.Hash))
		}
		classes["class:"+info.Class] = true
		if info.Class == ref.AddrBadChecksum && ctx.Known("L26") {
			ctx.Label("L26: constructors left out for a bad_checksum string")
			continue
		}
		add("NewAddressFromString"+tag, wantAddr, func() ([]byte, error) { return addrAnswer(bscript.NewAddressFromString(s)) })
		add("NewP2PKHFromAddress"+tag, wantScript, func() ([]byte, error) { return scriptAnswer(bscript.NewP2PKHFromAddress(s)) })
		add("PayToAddress"+tag, wantScript, func() ([]byte, error) {
			tx := bt.NewTx()
			if err := tx.PayToAddress(s, 1000); err != nil || len(tx.Outputs) != 1 || tx.Outputs[0].Satoshis != 1000 {
				if len(tx.Outputs) != 0 {
					return []byte(fmt.Sprintf("error %v but %d outputs", err, len(tx.Outputs))), nil
				}
				return refused(err), nil
			}
			return scriptAnswer(tx.Outputs[0].LockingScript, nil)
		})
	}
	// every call alone first: a wrong sequential answer is not a concurrency finding
	for _, cl := range calls {
		got, _ := cl.F()
		if string(got) != string(cl.Want) {
			return fmt.Errorf("%s called alone gives %q, the reference answer is %q", cl.Name, got, cl.Want)
		}
	}
	if err := conc.Readers(calls, c.Goroutines, c.Rounds); err != nil {
		return fmt.Errorf("%v\n(answers are text: got / want above are hex of it; %d calls on %d strings and %d payees)", err, len(calls), len(c.Strs), len(c.Payees))
	}
	for k := range classes {
		ctx.Label(k)
	}
	ctx.Labelf("goroutines=%d", c.Goroutines)
	ctx.NonTrivial()
	return nil
}

func genConc(t *rapid.T) Conc {
	c := Conc{Goroutines: rapid.SampledFrom([]int{2, 3, 4, 8}).Draw(t, "goroutines"), Rounds: rapid.SampledFrom([]int{5, 20, 60}).Draw(t, "rounds")}
	n := rapid.IntRange(2, 6).Draw(t, "payees")
	for i := 0; i < n; i++ {
		p := Payee{Mainnet: rapid.Bool().Draw(t, "mainnet")}
		h := genHash(t)
		switch rapid.IntRange(0, 3).Draw(t, "kind") {
		case 0:
			p.Kind, p.Data = "key", rapid.SliceOfN(rapid.Byte(), 33, 33).Draw(t, "key")
		case 1:
			p.Kind, p.Data = "priv", rapid.SliceOfN(rapid.Byte(), 32, 32).Draw(t, "scalar")
			p.Data[0] &= 0x7f
			p.Data[31] |= 1
		default:
			p.Kind, p.Data = "hash", h
		}
		c.Payees = append(c.Payees, p)
		// the payee's valid address, one neighbour of it, sometimes a BIP276 text
		addr := baseAddr(h, p.Mainnet)
		c.Strs = append(c.Strs, Str{Base: addr, Op: "same", S: addr})
		i := rapid.IntRange(0, len(addr)-1).Draw(t, "pos")
		j := rapid.IntRange(0, 57).Draw(t, "char")
		c.Strs = append(c.Strs, Str{Base: addr, Op: "subst", S: addr[:i] + ref.B58Alphabet[j:j+1] + addr[i+1:]})
		switch rapid.IntRange(0, 3).Draw(t, "extra") {
		case 0:
			c.Strs = append(c.Strs, genStr(t))
		case 1:
			var all []Str
			variants276(1+i%2, 1, ref.P2PKHScript(h), addr, func(s Str) { all = append(all, s) })
			c.Strs = append(c.Strs, all[rapid.IntRange(0, min(len(all)-1, 330)).Draw(t, "variant")])
		}
	}
	return c
}

func TestConcurrent(t *testing.T) {
	pbt.Run(t, pbt.Sub[Conc]{
		Name: "concurrent", Quick: 1800, Thorough: 24000,
		Gen: genConc, Check: checkConc,
	})
}
