package c15

import (
	"bytes"
	"encoding/hex"
	"fmt"
	"testing"

	"github.com/libsv/go-bk/bec"
	"github.com/libsv/go-bk/crypto"
	"github.com/libsv/go-bt/v2"
	"github.com/libsv/go-bt/v2/bscript"
	"pgregory.net/rapid"

	"verif/harness/gen"
	"verif/harness/pbt"
	"verif/harness/ref"
)

// ---------------------------------------------------------------------------
// sub-check: keyforms (tenth round). A public key has several serialisations: compressed (33 bytes,
// 02/03), uncompressed (65 bytes, 04) and hybrid (65 bytes, 06/07). The byte- and string-taking
// P2PKH constructors document the compressed form; whatever they do with the others, they must not
// pay somebody else. Oracle: a constructor handed a serialisation of the point K either refuses, or
// yields the canonical 25-byte script for hash160 of the bytes it was given or for hash160 of K's
// compressed serialisation - and the compressed form is always accepted with exactly that script.
// (The point's parity comes from Y, not from the format byte.)
// ---------------------------------------------------------------------------

// KeyForm is a scalar and the serialisation handed over.
type KeyForm struct {
	Scalar pbt.Hex `json:"scalar"`
	Form   int     `json:"form"` // 0 compressed, 1 uncompressed, 2 hybrid
	Upper  bool    `json:"upper"`
}

func checkKeyForm(ctx *pbt.Ctx, c KeyForm) error {
	if len(c.Scalar) != 32 {
		ctx.Discard("malformed case")
		return nil
	}
	_, pub := bec.PrivKeyFromBytes(bec.S256(), c.Scalar)
	comp := pub.SerialiseCompressed()
	given := comp
	switch c.Form {
	case 1:
		given = pub.SerialiseUncompressed()
	case 2:
		given = append([]byte{}, pub.SerialiseUncompressed()...)
		given[0] = 0x06 | comp[0]&1
	}
	wantA, wantB := ref.P2PKHScript(crypto.Hash160(given)), ref.P2PKHScript(crypto.Hash160(comp))
	hx := hex.EncodeToString(given)
	if c.Upper {
		hx = fmt.Sprintf("%X", given)
	}
	ctx.Labelf("form=%d", c.Form)
	ctx.Labelf("odd_y=%v", comp[0] == 3)
	if c.Form != 0 {
		ctx.NonTrivial()
	}
	judge := func(name string, s []byte, err error) error {
		if err != nil {
			if c.Form == 0 {
				return fmt.Errorf("%s refused the compressed key %x: %v", name, given, err)
			}
			ctx.Label("refused:" + name)
			return nil
		}
		if !bytes.Equal(s, wantA) && !bytes.Equal(s, wantB) {
			return fmt.Errorf("%s(%x) = %x: neither the script for hash160 of the bytes given (%x) nor for the compressed form of the same point (%x)", name, given, s, wantA, wantB)
		}
		if c.Form == 0 && !bytes.Equal(s, wantB) {
			return fmt.Errorf("%s(%x) = %x, want %x", name, given, s, wantB)
		}
		return nil
	}
	arg := ref.Canary(given)
	s1, err := bscript.NewP2PKHFromPubKeyBytes(arg)
	if err2 := judge("NewP2PKHFromPubKeyBytes", deref(s1), err); err2 != nil {
		return err2
	}
	if ref.CanaryDamaged(arg) || !bytes.Equal(arg, given) {
		return fmt.Errorf("NewP2PKHFromPubKeyBytes changed the key slice it was given")
	}
	s2, err := bscript.NewP2PKHFromPubKeyStr(hx)
	if err2 := judge("NewP2PKHFromPubKeyStr", deref(s2), err); err2 != nil {
		return err2
	}
	tx := bt.NewTx()
	err = tx.AddP2PKHOutputFromPubKeyBytes(append([]byte{}, given...), 1000)
	if err2 := judge("AddP2PKHOutputFromPubKeyBytes", lastScript(tx, err), err); err2 != nil {
		return err2
	}
	tx = bt.NewTx()
	err = tx.AddP2PKHOutputFromPubKeyStr(hx, 1000)
	if err2 := judge("AddP2PKHOutputFromPubKeyStr", lastScript(tx, err), err); err2 != nil {
		return err2
	}
	for _, mainnet := range []bool{true, false} {
		a, err := bscript.NewAddressFromPublicKeyString(hx, mainnet)
		if err != nil || a == nil {
			if c.Form == 0 {
				return fmt.Errorf("NewAddressFromPublicKeyString refused the compressed key %x: %v", given, err)
			}
			continue
		}
		ver := byte(0x6f)
		if mainnet {
			ver = 0
		}
		okA, okB := ref.B58CheckEncode(ver, crypto.Hash160(given)), ref.B58CheckEncode(ver, crypto.Hash160(comp))
		if a.AddressString != okA && a.AddressString != okB {
			return fmt.Errorf("NewAddressFromPublicKeyString(%x, mainnet=%v) = %s: neither %s (bytes given) nor %s (compressed form of the point)", given, mainnet, a.AddressString, okA, okB)
		}
	}
	return nil
}

func deref(s *bscript.Script) []byte {
	if s == nil {
		return nil
	}
	return *s
}

func lastScript(tx *bt.Tx, err error) []byte {
	if err != nil || len(tx.Outputs) == 0 || tx.Outputs[len(tx.Outputs)-1].LockingScript == nil {
		return nil
	}
	return *tx.Outputs[len(tx.Outputs)-1].LockingScript
}

func TestKeyForms(t *testing.T) {
	pbt.Run(t, pbt.Sub[KeyForm]{
		Name: "keyforms", Quick: 12000, Thorough: 240000,
		Gen: func(t *rapid.T) KeyForm {
			k := gen.Bytes(t, 32, "scalar")
			k[0] &= 0x7f
			k[31] |= 1
			return KeyForm{Scalar: k, Form: rapid.IntRange(0, 2).Draw(t, "form"), Upper: rapid.Bool().Draw(t, "upper")}
		},
		Check: checkKeyForm,
	})
}
