package c15

import (
	"testing"

	"verif/harness/pbt"
	"verif/harness/ref"
)

// FuzzAddress is the coverage-guided target of the thorough tier: arbitrary candidate strings
// (raw bytes) through the five address entry points with the oracle of the `strings` sub-check.
func FuzzAddress(f *testing.F) {
	h := []byte{1, 2, 3, 4, 5, 6, 7, 8, 9, 10, 11, 12, 13, 14, 15, 16, 17, 18, 19, 20}
	z := make([]byte, 20)
	for _, s := range []string{
		ref.B58CheckEncode(0x00, h), ref.B58CheckEncode(0x6f, h), ref.B58CheckEncode(0x00, z), ref.B58CheckEncode(0x6f, z),
		ref.B58CheckEncode(0x05, h), ref.B58CheckEncode(0x00, h[:19]), ref.B58CheckEncode(0x00, append(h, 1)),
		"", "1", "11111111111111111111111111", "0", " ", "bitcoin-script", "1BvBMSEYstWetqTFn5Au4m4GFg7xJaNVN2",
	} {
		f.Add([]byte(s))
	}
	f.Fuzz(func(t *testing.T, raw []byte) {
		if len(raw) == 0 || len(raw) > 200 {
			t.Skip()
		}
		pbt.FuzzCheck(t, "C15", "strings", checkStr, Str{Op: "fuzz", Raw: raw})
	})
}
