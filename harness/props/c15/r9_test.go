package c15

// Round 9: two axes that every earlier sub-check held fixed.
//
// hex-forms - the TEXT FORM of a key / key hash given as a string. derive and sequence only
// ever wrote the hex in lower case (hex.EncodeToString). Here the same 33-byte key or 20-byte
// hash is spelt in lower case, upper case, any mix (a bit mask over the digits; every single
// digit upper-cased alone is enumerated), with a 0x / 0X prefix and with white space around
// it, and handed to every string-taking constructor: NewP2PKHFromPubKeyStr,
// AddP2PKHOutputFromPubKeyStr, NewAddressFromPublicKeyString, NewP2PKHFromPubKeyHashStr,
// AddP2PKHOutputFromPubKeyHashStr. Oracle: the lower-case spelling must be accepted; every
// other spelling is either refused (error, nothing handed out or added) or gives exactly
// what the byte-taking constructor gives for the value the text denotes - the canonical script
// 76 a9 14 hash160 88 ac / the reference Base58Check address. Never something else.
//
// tx-states - the STATE OF THE TRANSACTION an address-taking builder is called on. tryAll calls
// PayToAddress on an empty transaction and ChangeToAddress on one with a single input and
// plenty of change due. Here the candidate string (generator of strings, valid addresses
// weighted up) meets a transaction that is empty, has inputs only, is fully spent, leaves
// 0..130 satoshis above its outputs (both sides of fee + dust), spends more than it has, holds
// a data output, with the default / nil / zero / high / incomplete fee quote; through
// ChangeToAddress, PayToAddress and AddP2PKHOutputFromAddress. Oracle: a string the reference
// classifier does not call valid is accepted (nil error, or an output added) by none of them,
// whatever the transaction looks like - known finding L26 (class bad_checksum) excused exactly
// as in judge; for a valid address PayToAddress / AddP2PKHOutputFromAddress add one output
// with the canonical script, and ChangeToAddress does what Change(canonical script) does on a
// twin transaction (same error verdict, same resulting transaction bytes).

import (
	"bytes"
	"encoding/hex"
	"fmt"
	"strings"
	"testing"

	"github.com/libsv/go-bt/v2"
	"github.com/libsv/go-bt/v2/bscript"
	"pgregory.net/rapid"

	"verif/harness/gen"
	"verif/harness/pbt"
	"verif/harness/ref"
)

// ---------------------------------------------------------------------------
// hex-forms
// ---------------------------------------------------------------------------

// HexForm is a key / hash and one spelling of its hex rendering.
type HexForm struct {
	Kind    string  `json:"kind"` // "hash" (20 bytes) or "key" (33 bytes)
	Data    pbt.Hex `json:"data"`
	Mainnet bool    `json:"mainnet"`
	// Form: lower, upper, mixed (bit i of Mask set: digit i in upper case), 0x, 0X (prefix in
	// front of the mixed spelling), pad-left, pad-right (Pad around the mixed spelling).
	Form string  `json:"form"`
	Mask pbt.Hex `json:"mask,omitempty"`
	Pad  string  `json:"pad,omitempty"`
}

func (c HexForm) spell(data []byte) string {
	low := hex.EncodeToString(data)
	mixed := func() string {
		b := []byte(low)
		for i := range b {
			if i/8 < len(c.Mask) && c.Mask[i/8]>>(uint(i)%8)&1 == 1 && b[i] >= 'a' && b[i] <= 'f' {
				b[i] -= 'a' - 'A'
			}
		}
		return string(b)
	}
	switch c.Form {
	case "lower":
		return low
	case "upper":
		return strings.ToUpper(low)
	case "mixed":
		return mixed()
	case "0x":
		return "0x" + mixed()
	case "0X":
		return "0X" + mixed()
	case "pad-left":
		return c.Pad + mixed()
	case "pad-right":
		return mixed() + c.Pad
	}
	return low
}

func checkHexForm(ctx *pbt.Ctx, c HexForm) error {
	var h, key []byte
	switch c.Kind {
	case "hash":
		if len(c.Data) != 20 {
			return fmt.Errorf("harness: hash case with %d bytes", len(c.Data))
		}
		h = c.Data
	case "key":
		if len(c.Data) != 33 {
			return fmt.Errorf("harness: key case with %d bytes", len(c.Data))
		}
		key = c.Data
		h = ref.Hash160(key)
	default:
		return fmt.Errorf("harness: unknown kind %q", c.Kind)
	}
	ver := byte(0x00)
	if !c.Mainnet {
		ver = 0x6f
	}
	wantScript := ref.P2PKHScript(h)
	wantAddr := ref.B58CheckEncode(ver, h)
	hashText := c.spell(h)
	ctx.Label("kind=" + c.Kind)
	ctx.Label("form=" + c.Form)
	ctx.Key([]byte(c.Kind), c.Data, []byte(hashText), []byte{ver})
	upperDigits := 0
	for i := 0; i < len(hashText); i++ {
		if hashText[i] >= 'A' && hashText[i] <= 'F' {
			upperDigits++
		}
	}
	mustAccept := c.Form == "lower"
	if c.Form != "lower" {
		ctx.NonTrivial()
	}

	type res struct {
		name   string
		text   string
		err    error
		script []byte // script built / added (nil: none)
		addr   *bscript.Address
		isAddr bool
		extra  string // harness-visible inconsistency
	}
	var rs []res
	script := func(name, text string, s *bscript.Script, err error) {
		r := res{name: name, text: text, err: err}
		if s != nil {
			r.script = []byte(*s)
		} else if err == nil {
			r.extra = "nil script without error"
		}
		rs = append(rs, r)
	}
	output := func(name, text string, tx *bt.Tx, err error, sats uint64) {
		r := res{name: name, text: text, err: err}
		switch {
		case len(tx.Outputs) > 1:
			r.extra = fmt.Sprintf("%d outputs added", len(tx.Outputs))
		case len(tx.Outputs) == 1:
			if tx.Outputs[0] == nil || tx.Outputs[0].LockingScript == nil {
				r.extra = "output without locking script"
			} else {
				r.script = []byte(*tx.Outputs[0].LockingScript)
				if tx.Outputs[0].Satoshis != sats {
					r.extra = fmt.Sprintf("output carries %d satoshis, %d requested", tx.Outputs[0].Satoshis, sats)
				}
			}
		case err == nil:
			r.extra = "no error and no output"
		}
		rs = append(rs, r)
	}
	{
		s, err := bscript.NewP2PKHFromPubKeyHashStr(hashText)
		script("NewP2PKHFromPubKeyHashStr", hashText, s, err)
		tx := bt.NewTx()
		err = tx.AddP2PKHOutputFromPubKeyHashStr(hashText, 601)
		output("AddP2PKHOutputFromPubKeyHashStr", hashText, tx, err, 601)
	}
	if key != nil {
		keyText := c.spell(key)
		s, err := bscript.NewP2PKHFromPubKeyStr(keyText)
		script("NewP2PKHFromPubKeyStr", keyText, s, err)
		tx := bt.NewTx()
		err = tx.AddP2PKHOutputFromPubKeyStr(keyText, 602)
		output("AddP2PKHOutputFromPubKeyStr", keyText, tx, err, 602)
		a, err := bscript.NewAddressFromPublicKeyString(keyText, c.Mainnet)
		r := res{name: "NewAddressFromPublicKeyString", text: keyText, err: err, addr: a, isAddr: true}
		if a == nil && err == nil {
			r.extra = "nil address without error"
		}
		rs = append(rs, r)
		for i := 0; i < len(keyText); i++ {
			if keyText[i] >= 'A' && keyText[i] <= 'F' {
				upperDigits++
			}
		}
	}
	switch {
	case upperDigits == 0:
		ctx.Label("upper_digits=0")
	case upperDigits == 1:
		ctx.Label("upper_digits=1")
	default:
		ctx.Label("upper_digits>=2")
	}
	for _, r := range rs {
		if r.extra != "" {
			return fmt.Errorf("%s(%q): %s (err %v)", r.name, r.text, r.extra, r.err)
		}
		if r.err != nil && r.script == nil && r.addr == nil {
			if mustAccept {
				return fmt.Errorf("%s refuses the lower-case hex %q of %s %x: %v", r.name, r.text, c.Kind, c.Data, r.err)
			}
			ctx.Label("refused:" + c.Form)
			continue
		}
		ctx.Label("accepted:" + c.Form)
		if r.isAddr {
			if r.addr == nil || r.addr.AddressString != wantAddr || r.addr.PublicKeyHash != hex.EncodeToString(h) {
				return fmt.Errorf("%s(%q, mainnet=%v) = %+v (err %v); the key the text spells (%x) has address %q, hash %x", r.name, r.text, c.Mainnet, r.addr, r.err, key, wantAddr, h)
			}
			continue
		}
		if !bytes.Equal(r.script, wantScript) {
			return fmt.Errorf("%s(%q) builds %x; the %s the text spells (%x) has the canonical script %x - the spelling of the hex digits changed the script", r.name, r.text, r.script, c.Kind, c.Data, wantScript)
		}
	}
	return nil
}

var hexForms = []string{"lower", "upper", "mixed", "mixed", "mixed", "mixed", "0x", "0X", "pad-left", "pad-right"}

func genHexForm(t *rapid.T) HexForm {
	c := HexForm{Mainnet: rapid.Bool().Draw(t, "mainnet")}
	if rapid.Bool().Draw(t, "is_key") {
		c.Kind = "key"
		k := gen.Bytes(t, 33, "key")
		k[0] = byte(2 + rapid.IntRange(0, 1).Draw(t, "parity"))
		c.Data = k
	} else {
		c.Kind = "hash"
		c.Data = genHash(t)
	}
	// letters make the spelling matter: weight up data rich in a..f digits
	if rapid.IntRange(0, 3).Draw(t, "letters") == 0 {
		for i := 1; i < len(c.Data); i++ {
			c.Data[i] |= 0xaa
		}
	}
	c.Form = rapid.SampledFrom(hexForms).Draw(t, "form")
	if c.Form != "lower" && c.Form != "upper" {
		switch rapid.IntRange(0, 3).Draw(t, "mask_kind") {
		case 0: // one digit
			c.Mask = make([]byte, 9)
			i := rapid.IntRange(0, 65).Draw(t, "digit")
			c.Mask[i/8] = 1 << uint(i%8)
		case 1: // all but one digit
			c.Mask = bytes.Repeat([]byte{0xff}, 9)
			i := rapid.IntRange(0, 65).Draw(t, "digit")
			c.Mask[i/8] &^= 1 << uint(i%8)
		default:
			c.Mask = gen.Bytes(t, 9, "mask")
		}
	}
	if strings.HasPrefix(c.Form, "pad") {
		c.Pad = rapid.SampledFrom([]string{" ", "\n", "\t", "\r\n", "\x00"}).Draw(t, "pad")
	}
	return c
}

func enumHexForms(tier string, yield func(HexForm)) {
	var datas []HexForm
	for i := 0; i < 6; i++ {
		h := enumHash(9000 + i)
		kh := append(enumHash(9100+i), enumHash(9200 + i)[:12]...)
		k := append([]byte{byte(2 + i%2)}, kh...)
		if i < 2 { // every digit a letter (except the key's prefix byte)
			for j := range h {
				h[j] = []byte{0xab, 0xcd, 0xef, 0xfa, 0xde}[(i+j)%5]
			}
			for j := 1; j < len(k); j++ {
				k[j] = []byte{0xfe, 0xdc, 0xba, 0xaf, 0xeb}[(i+j)%5]
			}
		}
		datas = append(datas, HexForm{Kind: "hash", Data: h, Mainnet: i%2 == 0}, HexForm{Kind: "key", Data: k, Mainnet: i%2 == 1})
	}
	for _, d := range datas {
		for _, f := range []string{"lower", "upper", "0x", "0X"} {
			c := d
			c.Form = f
			yield(c)
		}
		n := 2 * len(d.Data)
		for i := 0; i < n; i++ {
			one := make([]byte, 9)
			one[i/8] = 1 << uint(i%8)
			c := d
			c.Form, c.Mask = "mixed", one
			yield(c)
			allBut := bytes.Repeat([]byte{0xff}, 9)
			allBut[i/8] &^= 1 << uint(i%8)
			c.Mask = allBut
			yield(c)
		}
		for _, m := range []byte{0x55, 0xaa, 0x0f, 0xf0} { // alternating digits, high nibbles only, low nibbles only, ...
			c := d
			c.Form, c.Mask = "mixed", bytes.Repeat([]byte{m}, 9)
			yield(c)
		}
		for _, p := range []string{" ", "\n"} {
			c := d
			c.Form, c.Pad = "pad-left", p
			yield(c)
			c.Form = "pad-right"
			yield(c)
		}
	}
}

func TestHexForms(t *testing.T) {
	pbt.Run(t, pbt.Sub[HexForm]{
		Name: "hex-forms", Quick: 60000, Thorough: 1500000,
		Gen:      genHexForm,
		Check:    checkHexForm,
		EnumDesc: "6 hashes and 6 keys (two of each made of letter digits only) x lower / upper / 0x / 0X / padded, every single digit upper-cased alone, every single digit left in lower case alone, alternating and nibble-wise masks",
		Enum:     enumHexForms,
	})
}

// ---------------------------------------------------------------------------
// tx-states
// ---------------------------------------------------------------------------

// TxState describes the transaction an address-taking builder is called on.
type TxState struct {
	In   []uint64 `json:"in"`             // satoshis of the inputs (previous outputs are P2PKH)
	Out  []uint64 `json:"out"`            // satoshis of the P2PKH outputs already there
	Data int      `json:"data,omitempty"` // > 0: plus an OP_FALSE OP_RETURN output carrying that many bytes
	Fee  string   `json:"fee"`            // default, nil, zero, high, nostd (quote without the standard fee type)
}

// AddrState is a candidate string and a transaction state.
type AddrState struct {
	Str  Str     `json:"str"`
	Tx   TxState `json:"tx"`
	Sats uint64  `json:"sats"` // amount for PayToAddress / AddP2PKHOutputFromAddress
}

var otherPayee = bytes.Repeat([]byte{0x22}, 20)

func (s TxState) build() (*bt.Tx, *bt.FeeQuote) {
	tx := bt.NewTx()
	for i, sat := range s.In {
		if err := tx.From(fundingTxID, uint32(i), fundingScript, sat); err != nil {
			panic("harness: cannot build funding input: " + err.Error())
		}
	}
	for _, sat := range s.Out {
		sc := bscript.Script(ref.P2PKHScript(otherPayee))
		tx.AddOutput(&bt.Output{Satoshis: sat, LockingScript: &sc})
	}
	if s.Data > 0 {
		n := s.Data
		if n > 75 {
			n = 75
		}
		sc := bscript.Script(append([]byte{0x00, 0x6a, byte(n)}, bytes.Repeat([]byte{0x5a}, n)...))
		tx.AddOutput(&bt.Output{Satoshis: 0, LockingScript: &sc})
	}
	unit := func(sat, per int) *bt.Fee {
		return &bt.Fee{MiningFee: bt.FeeUnit{Satoshis: sat, Bytes: per}, RelayFee: bt.FeeUnit{Satoshis: sat, Bytes: per}}
	}
	var fq *bt.FeeQuote
	switch s.Fee {
	case "nil":
	case "zero":
		fq = bt.NewFeeQuote()
		for _, ft := range []bt.FeeType{bt.FeeTypeStandard, bt.FeeTypeData} {
			f := unit(0, 1000)
			f.FeeType = ft
			fq.AddQuote(ft, f)
		}
	case "high":
		fq = bt.NewFeeQuote()
		for _, ft := range []bt.FeeType{bt.FeeTypeStandard, bt.FeeTypeData} {
			f := unit(50, 1)
			f.FeeType = ft
			fq.AddQuote(ft, f)
		}
	case "nostd":
		fq = bt.NewFeeQuote()
		fq.AddQuote(bt.FeeTypeStandard, nil)
	default:
		fq = bt.NewFeeQuote()
	}
	return tx, fq
}

func sum(v []uint64) (t uint64) {
	for _, x := range v {
		t += x
	}
	return
}

func checkAddrState(ctx *pbt.Ctx, c AddrState) error {
	s := c.Str.S
	if len(c.Str.Raw) > 0 {
		s = string(c.Str.Raw)
	}
	if sum(c.Tx.In) > 1<<50 || sum(c.Tx.Out) > 1<<50 || len(c.Tx.In) > 8 || len(c.Tx.Out) > 8 {
		return fmt.Errorf("harness: transaction state outside the generated range")
	}
	info := ref.ClassifyAddress(s)
	ctx.Label("class=" + info.Class)
	ctx.Label("op=" + c.Str.Op)
	ctx.Label("fee=" + c.Tx.Fee)
	ctx.Labelf("inputs=%d outputs=%d", min(len(c.Tx.In), 2), min(len(c.Tx.Out), 2))
	in, out := sum(c.Tx.In), sum(c.Tx.Out)
	var balance string
	switch {
	case len(c.Tx.In) == 0 && len(c.Tx.Out) == 0 && c.Tx.Data == 0:
		balance = "empty"
	case in < out:
		balance = "overspent"
	case in == out:
		balance = "fully-spent"
	case in-out <= 130:
		balance = "remainder<=130"
	default:
		balance = "remainder>130"
	}
	ctx.Label("balance=" + balance)
	ctx.Key([]byte(s), []byte(fmt.Sprintf("%v|%d", c.Tx, c.Sats)))
	ctx.NonTrivial()

	// what the script-taking builder does in this state (also names the state)
	wantScriptHash := info.Hash
	if info.Class != ref.AddrValid {
		wantScriptHash = bytes.Repeat([]byte{0x33}, 20)
	}
	twin, tfq := c.Tx.build()
	tsc := bscript.Script(ref.P2PKHScript(wantScriptHash))
	before := len(twin.Outputs)
	twinErr := twin.Change(&tsc, tfq)
	changeState := "no-change-due"
	switch {
	case twinErr != nil:
		changeState = "change-errors"
	case len(twin.Outputs) > before:
		changeState = "change-due"
	}
	ctx.Label("state=" + changeState)
	ctx.Label("state=" + changeState + "/" + info.Class)

	type call struct {
		name string
		f    func(tx *bt.Tx, fq *bt.FeeQuote) error
	}
	calls := []call{
		{"ChangeToAddress", func(tx *bt.Tx, fq *bt.FeeQuote) error { return tx.ChangeToAddress(s, fq) }},
		{"PayToAddress", func(tx *bt.Tx, fq *bt.FeeQuote) error { return tx.PayToAddress(s, c.Sats) }},
		{"AddP2PKHOutputFromAddress", func(tx *bt.Tx, fq *bt.FeeQuote) error { return tx.AddP2PKHOutputFromAddress(s, c.Sats) }},
	}
	for _, cl := range calls {
		tx, fq := c.Tx.build()
		n0 := len(tx.Outputs)
		err := cl.f(tx, fq)
		grew := len(tx.Outputs) > n0
		if info.Class != ref.AddrValid {
			if err != nil && !grew {
				continue
			}
			// Known finding L26, same narrow shape as in judge: canonical Base58 of exactly 25
			// bytes, version 00/6f, the checksum is the only defect; all three sit on NewAddressFromString.
			if info.Class == ref.AddrBadChecksum && ctx.Known("L26") {
				ctx.Label("L26:" + cl.name)
				continue
			}
			var built []byte
			if grew && tx.Outputs[len(tx.Outputs)-1].LockingScript != nil {
				built = *tx.Outputs[len(tx.Outputs)-1].LockingScript
			}
			return fmt.Errorf("%s accepts %q (error %v, outputs %d -> %d, script %x) although it is not a well-formed address (reference: %s, version %02x); transaction state: %s, %s, fee quote %s", cl.name, s, err, n0, len(tx.Outputs), built, info.Class, info.Version, balance, changeState, c.Tx.Fee)
		}
		// valid address
		want := ref.P2PKHScript(info.Hash)
		if cl.name == "ChangeToAddress" {
			if (err != nil) != (twinErr != nil) {
				return fmt.Errorf("ChangeToAddress(valid address %q) returns %v where Change(canonical script of that address) returns %v; state %s, fee quote %s", s, err, twinErr, balance, c.Tx.Fee)
			}
			if !bytes.Equal(tx.Bytes(), twin.Bytes()) {
				return fmt.Errorf("ChangeToAddress(valid address %q) leaves transaction %x, Change(canonical script %x) leaves %x; state %s", s, tx.Bytes(), want, twin.Bytes(), balance)
			}
			continue
		}
		if err != nil {
			return fmt.Errorf("%s rejects the valid address %q (version %02x, hash %x) on a transaction that is %s: %v", cl.name, s, info.Version, info.Hash, balance, err)
		}
		if len(tx.Outputs) != n0+1 {
			return fmt.Errorf("%s(valid address %q): outputs %d -> %d", cl.name, s, n0, len(tx.Outputs))
		}
		last := tx.Outputs[n0]
		if last == nil || last.LockingScript == nil || !bytes.Equal(*last.LockingScript, want) || last.Satoshis != c.Sats {
			return fmt.Errorf("%s(%q, %d) added output %+v; want %d satoshis to the canonical script %x", cl.name, s, c.Sats, last, c.Sats, want)
		}
		exp, _ := c.Tx.build()
		wsc := bscript.Script(want)
		exp.AddOutput(&bt.Output{Satoshis: c.Sats, LockingScript: &wsc})
		if !bytes.Equal(tx.Bytes(), exp.Bytes()) {
			return fmt.Errorf("%s(%q, %d) left transaction %x, expected %x", cl.name, s, c.Sats, tx.Bytes(), exp.Bytes())
		}
	}
	return nil
}

var txFees = []string{"default", "default", "default", "default", "nil", "zero", "high", "nostd"}

func genTxState(t *rapid.T) TxState {
	st := TxState{Fee: rapid.SampledFrom(txFees).Draw(t, "fee")}
	nin := rapid.SampledFrom([]int{0, 1, 1, 1, 2, 3}).Draw(t, "nin")
	for i := 0; i < nin; i++ {
		st.In = append(st.In, rapid.SampledFrom([]uint64{1, 546, 1000, 10000, 10000, 100000, 5000000}).Draw(t, "in_sats"))
	}
	total := sum(st.In)
	switch rapid.IntRange(0, 7).Draw(t, "spend") {
	case 0: // nothing spent
	case 1: // fully spent
		if total > 0 {
			st.Out = []uint64{total}
		}
	case 2, 3, 4: // a small remainder: both sides of fee + dust
		d := uint64(rapid.IntRange(0, 300).Draw(t, "remainder"))
		if total > d {
			st.Out = []uint64{total - d}
		}
	case 5: // overspent
		st.Out = []uint64{total + uint64(rapid.IntRange(1, 1000).Draw(t, "over"))}
	default:
		if total > 1 {
			a := rapid.Uint64Range(1, total-1).Draw(t, "out0")
			st.Out = []uint64{a}
			if rapid.Bool().Draw(t, "two_outs") && total-a > 1 {
				st.Out = append(st.Out, rapid.Uint64Range(1, total-a).Draw(t, "out1"))
			}
		}
	}
	if rapid.IntRange(0, 5).Draw(t, "data_out") == 0 {
		st.Data = rapid.IntRange(1, 75).Draw(t, "data")
	}
	return st
}

func genAddrState(t *rapid.T) AddrState {
	var c AddrState
	if rapid.IntRange(0, 4).Draw(t, "valid") == 0 {
		b := baseAddr(genHash(t), rapid.Bool().Draw(t, "mainnet"))
		c.Str = Str{Base: b, Op: "same", S: b}
	} else {
		c.Str = genStr(t)
	}
	c.Tx = genTxState(t)
	c.Sats = rapid.SampledFrom([]uint64{1, 546, 1000, 123456789}).Draw(t, "sats")
	return c
}

func enumAddrStates(tier string, yield func(AddrState)) {
	var states []TxState
	states = append(states, TxState{Fee: "default"}, TxState{Fee: "nil"}, TxState{Fee: "zero"})
	for _, fee := range []string{"default", "nil", "zero", "high", "nostd"} {
		states = append(states,
			TxState{In: []uint64{10000}, Fee: fee},
			TxState{In: []uint64{10000}, Out: []uint64{10000}, Fee: fee},
			TxState{In: []uint64{10000}, Out: []uint64{9990}, Fee: fee},
			TxState{In: []uint64{10000}, Out: []uint64{9000}, Fee: fee},
			TxState{In: []uint64{10000}, Out: []uint64{10001}, Fee: fee},
			TxState{In: []uint64{6000, 4000}, Out: []uint64{5000, 5000}, Data: 20, Fee: fee},
			TxState{Out: []uint64{1000}, Fee: fee},
		)
	}
	for d := uint64(0); d <= 130; d++ { // the remainder sweeps over fee + dust of the default quote
		states = append(states, TxState{In: []uint64{10000}, Out: []uint64{10000 - d}, Fee: "default"})
	}
	for i := 0; i < 2; i++ {
		h := enumHash(9500 + i)
		if i == 1 {
			h[0] = 0
		}
		mainnet := i == 0
		base := baseAddr(h, mainnet)
		var strs []Str
		k := 0
		neighbourhood(h, mainnet, func(s Str) {
			if s.Op == "same" || k%61 == 0 {
				strs = append(strs, s)
			}
			k++
		})
		mid := len(base) / 2
		raw, _ := ref.B58Decode(base)
		strs = append(strs,
			Str{Base: base, Op: "empty", S: ""},
			Str{Base: base, Op: "word", S: "invalid"},
			Str{Base: base, Op: "delete", S: base[1:]},
			Str{Base: base, Op: "delete", S: base[:len(base)-1]},
			Str{Base: base, Op: "insert", S: base[:mid] + base[mid:mid+1] + base[mid:]},
			Str{Base: base, Op: "subst_nonalpha", S: base[:len(base)-1] + "0"},
			Str{Base: base, Op: "subst_nonalpha", S: base[:mid] + "l" + base[mid+1:]},
			Str{Base: base, Op: "version", S: ref.B58CheckEncode(0x05, h)},
			Str{Base: base, Op: "pad", S: base + " "},
			Str{Base: base, Op: "pad", S: " " + base},
			Str{Base: base, Op: "double", S: base + base},
			Str{Base: base, Op: "hex", S: hex.EncodeToString(raw)},
			Str{Base: base, Op: "hex", S: hex.EncodeToString(h)},
			Str{Base: base, Op: "bip276", S: "bitcoin-script:0101" + hex.EncodeToString(ref.P2PKHScript(h)) + cks276("bitcoin-script:0101"+hex.EncodeToString(ref.P2PKHScript(h)))},
		)
		for _, st := range states {
			for _, s := range strs {
				yield(AddrState{Str: s, Tx: st, Sats: 1000})
			}
		}
	}
}

func TestTxStates(t *testing.T) {
	pbt.Run(t, pbt.Sub[AddrState]{
		Name: "tx-states", Quick: 120000, Thorough: 3000000,
		Gen:      genAddrState,
		Check:    checkAddrState,
		EnumDesc: "2 base addresses x (every 61st member of the complete neighbourhood, the address itself, '', 'invalid', deletions, insertion, non-Base58 substitutions, P2SH version, padding, doubling, hex renderings, a BIP276 text) x transaction states (empty; one input with nothing / everything / all but 10 / all but 1000 / more than everything spent; two inputs with a data output; outputs without inputs; each with the default, nil, zero, high and incomplete fee quote; one input with a remainder of every value 0..130 under the default quote)",
		Enum:     enumAddrStates,
	})
}
