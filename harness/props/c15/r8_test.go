package c15

// Round 8, three general extensions.
//
// derive-markers: the format's own markers inside the free field. 20-byte hashes (and 33-byte
// keys) that contain, at every offset, the byte strings other script templates are recognised
// by - the ord envelope start 00 63 03 6f 72 64, 6a, 00 6a, 76 a9 14, 88 ac, 87, ae, ac, 68,
// "bitcoin-script:" - go through the complete derive oracle: every address and script
// constructor, and PublicKeyHash() / Addresses() / IsP2PKH() on the canonical script.
//
// refill: ONE 25-byte script buffer (one *bscript.Script, also sitting in one bt.Output) is
// refilled in place with the canonical P2PKH script of 2..8 payees one after the other (same
// slice, same length; sometimes with 25 bytes that are not P2PKH in between, sometimes the
// same payee again). After every refill IsP2PKH, PublicKeyHash, Addresses and the address
// constructors fed with the returned hash must answer for the CURRENT bytes and agree with
// each other; the address strings are kept and compared once more after the last refill.
//
// runs: run lengths as an axis of the candidate strings. A valid address preceded by n extra
// '1' characters for every n = 0..300 and 510..514, 766..770, 1022..1026, 65534..65538; its
// last character / an inner character repeated n times (n up to 1026); n '1' characters alone.
// The reference classifies by decoding (a leading '1' is a leading zero byte: n extra ones
// give n + 25 bytes, never an address); oracle = judge() as in `strings`, L26 unchanged.

import (
	"bytes"
	"fmt"
	"strings"
	"testing"

	"github.com/libsv/go-bt/v2"
	"github.com/libsv/go-bt/v2/bscript"
	"pgregory.net/rapid"

	"verif/harness/pbt"
	"verif/harness/ref"
)

var fieldMarkers = [][]byte{
	{0x00, 0x63, 0x03, 0x6f, 0x72, 0x64}, {0x6a}, {0x00, 0x6a}, {0x76, 0xa9, 0x14}, {0x88, 0xac}, {0x87}, {0xae}, {0xac}, {0x68},
	[]byte("bitcoin-script:"), {0x63, 0x03, 0x6f, 0x72, 0x64, 0x51}, {0x76, 0xa9, 0x14, 0x00, 0x63, 0x03, 0x6f, 0x72, 0x64, 0x88, 0xac},
}

// DeriveMarker: a hash / key with marker Marker at Offset.
type DeriveMarker struct {
	Kind    string `json:"kind"` // hash / key
	Marker  int    `json:"marker"`
	Offset  int    `json:"offset"`
	Salt    byte   `json:"salt"`
	Mainnet bool   `json:"mainnet"`
}

func (c DeriveMarker) data() ([]byte, error) {
	n, from := 20, 0
	if c.Kind == "key" {
		n, from = 33, 1
	}
	if c.Marker < 0 || c.Marker >= len(fieldMarkers) || c.Offset < from || c.Offset+len(fieldMarkers[c.Marker]) > n {
		return nil, fmt.Errorf("harness: marker %d at offset %d does not fit a %s", c.Marker, c.Offset, c.Kind)
	}
	b := make([]byte, n)
	for i := range b {
		b[i] = c.Salt + byte(i*29) + 1
	}
	if c.Kind == "key" {
		b[0] = 0x02 + c.Salt%2
	}
	copy(b[c.Offset:], fieldMarkers[c.Marker])
	return b, nil
}

func checkDeriveMarker(ctx *pbt.Ctx, c DeriveMarker) error {
	d, err := c.data()
	if err != nil {
		return err
	}
	ctx.Labelf("marker:%x", fieldMarkers[c.Marker])
	return checkDerive(ctx, Derive{Kind: c.Kind, Data: d, Mainnet: c.Mainnet})
}

func TestDeriveMarkers(t *testing.T) {
	pbt.Run(t, pbt.Sub[DeriveMarker]{
		Name: "derive-markers", Quick: 6000, Thorough: 150000,
		Gen: func(t *rapid.T) DeriveMarker {
			c := DeriveMarker{Kind: rapid.SampledFrom([]string{"hash", "hash", "hash", "key"}).Draw(t, "kind"), Marker: rapid.IntRange(0, len(fieldMarkers)-1).Draw(t, "marker"),
				Salt: rapid.Byte().Draw(t, "salt"), Mainnet: rapid.Bool().Draw(t, "mainnet")}
			n, from := 20, 0
			if c.Kind == "key" {
				n, from = 33, 1
			}
			c.Offset = rapid.IntRange(from, n-len(fieldMarkers[c.Marker])).Draw(t, "offset")
			return c
		},
		Check:    checkDeriveMarker,
		EnumDesc: "12 marker strings x every offset they fit at in a 20-byte hash (ord envelope start: 0..14) and in a 33-byte key behind its prefix byte x two salts x both networks",
		Enum: func(tier string, yield func(DeriveMarker)) {
			for _, salt := range []byte{0x10, 0xa5} {
				for mi, m := range fieldMarkers {
					for _, kind := range []string{"hash", "key"} {
						n, from := 20, 0
						if kind == "key" {
							n, from = 33, 1
						}
						for off := from; off+len(m) <= n; off++ {
							for _, mn := range []bool{true, false} {
								yield(DeriveMarker{Kind: kind, Marker: mi, Offset: off, Salt: salt, Mainnet: mn})
							}
						}
					}
				}
			}
		},
	})
}

// ---------------------------------------------------------------------------

// Refill is a list of 25-byte contents written into one script buffer one after the other.
type Refill struct {
	// Fills: 20 bytes = the hash of a payee (the canonical script is written), 25 bytes = raw contents
	Fills []pbt.Hex `json:"fills"`
}

func checkRefill(ctx *pbt.Ctx, c Refill) error {
	if len(c.Fills) < 2 {
		return fmt.Errorf("harness: fewer than two fills")
	}
	buf := make([]byte, 25)
	s := bscript.NewFromBytes(buf)
	out := &bt.Output{Satoshis: 1, LockingScript: s}
	type kept struct {
		i     int
		addrs []string
		want  string
	}
	var keep []kept
	var key [][]byte
	seen := map[string]bool{}
	for i, f := range c.Fills {
		var content []byte
		switch len(f) {
		case 20:
			content = ref.P2PKHScript(f)
		case 25:
			content = f
		default:
			return fmt.Errorf("harness: fill of %d bytes", len(f))
		}
		copy(buf, content) // same slice, same length
		key = append(key, content)
		if seen[string(content)] {
			ctx.Label("a content written a second time")
		}
		seen[string(content)] = true
		isP2PKH := ref.IsP2PKHBytes(content)
		if got := s.IsP2PKH(); got != isP2PKH {
			return fmt.Errorf("after refill %d (%x): IsP2PKH = %v", i, content, got)
		}
		if out.LockingScriptHexString() != fmt.Sprintf("%x", content) {
			return fmt.Errorf("after refill %d: the output renders %s, the buffer holds %x", i, out.LockingScriptHexString(), content)
		}
		addrs, aerr := s.Addresses()
		if !isP2PKH {
			ctx.Label("fill: not P2PKH")
			continue
		}
		ctx.Label("fill: P2PKH")
		h := content[3:23]
		pkh, perr := s.PublicKeyHash()
		if perr != nil || !bytes.Equal(pkh, h) {
			return fmt.Errorf("after refill %d: PublicKeyHash = %x, %v; the buffer now holds the hash %x", i, pkh, perr, h)
		}
		want := ref.B58CheckEncode(0x00, h)
		if aerr != nil || len(addrs) != 1 || addrs[0] != want {
			return fmt.Errorf("after refill %d: Addresses = %v, %v; the buffer now holds the hash %x whose address is %s (PublicKeyHash says %x)", i, addrs, aerr, h, want, pkh)
		}
		for _, mainnet := range []bool{true, false} {
			ver := byte(0x00)
			if !mainnet {
				ver = 0x6f
			}
			a, err := bscript.NewAddressFromPublicKeyHash(pkh, mainnet) // fed with the slice that aliases the buffer
			if err != nil || a == nil || a.AddressString != ref.B58CheckEncode(ver, h) || a.PublicKeyHash != fmt.Sprintf("%x", h) {
				return fmt.Errorf("after refill %d: NewAddressFromPublicKeyHash(PublicKeyHash(), %v) = %+v, %v; want %s", i, mainnet, a, err, ref.B58CheckEncode(ver, h))
			}
		}
		sc, err := bscript.NewP2PKHFromPubKeyHash(pkh)
		if err != nil || sc == nil || !bytes.Equal(*sc, content) {
			return fmt.Errorf("after refill %d: NewP2PKHFromPubKeyHash(PublicKeyHash()) = %v, %v", i, sc, err)
		}
		if addrs2, _ := s.Addresses(); len(addrs2) != 1 || addrs2[0] != want {
			return fmt.Errorf("after refill %d: Addresses asked a second time = %v, want %s", i, addrs2, want)
		}
		keep = append(keep, kept{i: i, addrs: addrs, want: want})
	}
	for _, k := range keep {
		if len(k.addrs) != 1 || k.addrs[0] != k.want {
			return fmt.Errorf("the address list obtained after refill %d reads %v after all %d refills; it was %s", k.i, k.addrs, len(c.Fills), k.want)
		}
	}
	ctx.Key(key...)
	ctx.Labelf("fills=%d", len(c.Fills))
	ctx.NonTrivial()
	return nil
}

func TestRefill(t *testing.T) {
	pbt.Run(t, pbt.Sub[Refill]{
		Name: "refill", Quick: 24000, Thorough: 600000,
		Gen: func(t *rapid.T) Refill {
			n := rapid.IntRange(2, 8).Draw(t, "n")
			c := Refill{}
			for i := 0; i < n; i++ {
				switch k := rapid.IntRange(0, 9).Draw(t, "kind"); {
				case k == 0 && i > 0:
					c.Fills = append(c.Fills, c.Fills[rapid.IntRange(0, i-1).Draw(t, "again")])
				case k == 1:
					c.Fills = append(c.Fills, rapid.SliceOfN(rapid.Byte(), 25, 25).Draw(t, "raw"))
				case k == 2:
					// almost P2PKH: one template byte off
					b := ref.P2PKHScript(genHash(t))
					b[rapid.SampledFrom([]int{0, 1, 2, 23, 24}).Draw(t, "pos")] ^= 1 << uint(rapid.IntRange(0, 7).Draw(t, "bit"))
					c.Fills = append(c.Fills, b)
				case k == 3:
					d, _ := DeriveMarker{Kind: "hash", Marker: 0, Offset: rapid.IntRange(0, 14).Draw(t, "off"), Salt: rapid.Byte().Draw(t, "salt")}.data()
					c.Fills = append(c.Fills, d)
				default:
					c.Fills = append(c.Fills, genHash(t))
				}
			}
			return c
		},
		Check:    checkRefill,
		EnumDesc: "200 payees: hash A, hash B, A again; A, 25 non-P2PKH bytes, B; A, B differing from A in one byte (every byte position)",
		Enum: func(tier string, yield func(Refill)) {
			for i := 0; i < 200; i++ {
				a, b := enumHash(12000+i), enumHash(13000+i)
				yield(Refill{Fills: []pbt.Hex{a, b, a}})
				yield(Refill{Fills: []pbt.Hex{a, append(ref.P2PKHScript(b)[:24], 0xad), b}})
				if i < 20 {
					for p := 0; p < 20; p++ {
						c := append([]byte(nil), a...)
						c[p] ^= 0x40
						yield(Refill{Fills: []pbt.Hex{a, c, a}})
					}
				}
			}
		},
	})
}

// ---------------------------------------------------------------------------

// Run is a valid address with one run of a character made longer.
type Run struct {
	Hash    pbt.Hex `json:"hash"`
	Mainnet bool    `json:"mainnet"`
	Where   string  `json:"where"` // lead (N extra '1' in front), trail (last character N more times), inner (character at Pos N more times), ones (N '1' alone)
	N       int     `json:"n"`
	Pos     int     `json:"pos"`
}

func (c Run) build() (base, s string) {
	base = baseAddr(c.Hash, c.Mainnet)
	switch c.Where {
	case "lead":
		return base, strings.Repeat("1", c.N) + base
	case "trail":
		return base, base + strings.Repeat(base[len(base)-1:], c.N)
	case "inner":
		p := c.Pos % len(base)
		return base, base[:p] + strings.Repeat(base[p:p+1], c.N) + base[p:]
	}
	return base, strings.Repeat("1", c.N)
}

func runClass(n int) string {
	switch {
	case n <= 300:
		return "0..300"
	case n < 65534:
		return fmt.Sprintf("%d", n/256*256) + "±"
	}
	return "65536±"
}

func checkRun(ctx *pbt.Ctx, c Run) error {
	if len(c.Hash) != 20 || c.N < 0 || c.N > 70000 || (c.Where != "lead" && c.Where != "ones" && c.N > 1100) {
		return fmt.Errorf("harness: malformed run case")
	}
	base, s := c.build()
	info := ref.ClassifyAddress(s)
	ctx.Label("where=" + c.Where)
	ctx.Label("n=" + runClass(c.N))
	ctx.Label("class=" + info.Class)
	ctx.Key([]byte(c.Where), []byte(fmt.Sprint(c.N, c.Pos)), []byte(base))
	if s != base {
		ctx.NonTrivial()
	}
	if err := judge(ctx, s, info); err != nil {
		if len(s) > 200 {
			return fmt.Errorf("%s\n(candidate: %s of %d characters on %s)", clipMsg(err.Error()), c.Where, c.N, base)
		}
		return err
	}
	return nil
}

func clipMsg(m string) string {
	if len(m) > 400 {
		return m[:200] + " … " + m[len(m)-150:]
	}
	return m
}

func runLens() []int {
	var out []int
	for n := 0; n <= 300; n++ {
		out = append(out, n)
	}
	for _, p := range []int{512, 768, 1024} {
		for d := -2; d <= 2; d++ {
			out = append(out, p+d)
		}
	}
	return out
}

func TestRuns(t *testing.T) {
	pbt.Run(t, pbt.Sub[Run]{
		Name: "runs", Quick: 4000, Thorough: 100000,
		Gen: func(t *rapid.T) Run {
			c := Run{Hash: genHash(t), Mainnet: rapid.Bool().Draw(t, "mainnet"), Where: rapid.SampledFrom([]string{"lead", "lead", "lead", "trail", "inner", "ones"}).Draw(t, "where"), Pos: rapid.IntRange(0, 33).Draw(t, "pos")}
			c.N = rapid.SampledFrom([]int{1, 2, 255, 256, 257, 511, 512, 513, 768, 1024}).Draw(t, "n")
			if rapid.IntRange(0, 2).Draw(t, "any") == 0 {
				c.N = rapid.IntRange(0, 1100).Draw(t, "n")
			}
			if (c.Where == "lead" || c.Where == "ones") && rapid.IntRange(0, 399).Draw(t, "n16") == 173 {
				c.N = rapid.IntRange(65534, 65538).Draw(t, "n")
			}
			return c
		},
		Check:    checkRun,
		EnumDesc: "8 base addresses (hashes with 0 / 1 / 2 / 3 leading zero bytes x both networks): n extra leading '1' for every n = 0..300, 510..514, 766..770, 1022..1026 (65534..65538 for one base per network); for every second base the last character and two inner characters repeated n more times for the same n up to 1026; n '1' characters alone",
		Enum: func(tier string, yield func(Run)) {
			for i := 0; i < 8; i++ {
				h := enumHash(14000 + i)
				for z := 0; z < i%4; z++ {
					h[z] = 0
				}
				mn := i/4 == 0
				for _, n := range runLens() {
					yield(Run{Hash: h, Mainnet: mn, Where: "lead", N: n})
					if i%2 == 0 {
						yield(Run{Hash: h, Mainnet: mn, Where: "trail", N: n})
						yield(Run{Hash: h, Mainnet: mn, Where: "inner", N: n, Pos: 1 + i})
						yield(Run{Hash: h, Mainnet: mn, Where: "inner", N: n, Pos: 17})
					}
					if i == 0 {
						yield(Run{Hash: h, Mainnet: mn, Where: "ones", N: n})
					}
				}
				for n := 65534; n <= 65538 && i%4 == 0; n++ { // ~0.3 s each: the constructors decode all of it
					yield(Run{Hash: h, Mainnet: mn, Where: "lead", N: n})
					if i == 0 {
						yield(Run{Hash: h, Mainnet: mn, Where: "ones", N: n})
					}
				}
			}
		},
	})
}
