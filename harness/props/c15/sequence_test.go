package c15

import (
	"bytes"
	"encoding/hex"
	"fmt"
	"testing"

	"github.com/libsv/go-bk/bec"
	"github.com/libsv/go-bt/v2"
	"github.com/libsv/go-bt/v2/bscript"
	"pgregory.net/rapid"

	"verif/harness/gen"
	"verif/harness/pbt"
	"verif/harness/ref"
)

// ---------------------------------------------------------------------------
// sub-check 3: histories. Several payees are served one after the other by
// the same constructors; everything that was handed out is kept, and is
// examined only after the last call. A script, an output or an address object
// built for one payee must still be that payee's when others have been built.
// ---------------------------------------------------------------------------

// Seq is a sequence of derivations (2..6 payees) and the order of the constructor calls.
type Seq struct {
	Items []Derive `json:"items"`
	// Ctors selects, per item, which constructors are called (bits 0-9, all of them most of the
	// time) and through which call the payee's output is added to the one transaction (bits 10+)
	Ctors []uint16 `json:"ctors"`
}

type kept struct {
	what   string
	item   int
	script *bscript.Script  // retained script object (nil if addr)
	addr   *bscript.Address // retained address object
}

func checkSeq(ctx *pbt.Ctx, c Seq) error {
	if len(c.Items) < 2 || len(c.Ctors) != len(c.Items) {
		ctx.Discard("malformed case")
		return nil
	}
	type exp struct {
		h          []byte
		script     []byte
		addr, main string
	}
	exps := make([]exp, len(c.Items))
	var held []kept
	// The byte slices handed over are the caller's. In half of the histories (by the shape of the
	// case) the caller has ONE work buffer per length, refilled in place for every call, with a
	// canary behind it; otherwise every call gets its own slice with a canary.
	workMode := (len(c.Items)+int(c.Ctors[0]))%2 == 0
	work := map[int][]byte{}
	var handed [][]byte
	own := func(b []byte) []byte {
		if workMode {
			w, ok := work[len(b)]
			if !ok {
				w = ref.Canary(b)
				work[len(b)] = w
				handed = append(handed, w)
			}
			copy(w, b)
			return w
		}
		o := ref.Canary(b)
		handed = append(handed, o)
		return o
	}
	ctx.After(func() error {
		for _, o := range handed {
			if ref.CanaryDamaged(o) {
				return fmt.Errorf("a constructor wrote behind the %d-byte slice it was handed (the caller's memory): %x", len(o), o[len(o):cap(o)])
			}
		}
		return nil
	})
	if workMode {
		ctx.Label("caller_reuses_one_work_buffer")
	}
	one := bt.NewTx() // one transaction collects an output per payee as well
	var oneItems []int
	distinct := map[string]bool{}
	for i, it := range c.Items {
		var h, key []byte
		var pub *bec.PublicKey
		switch it.Kind {
		case "hash":
			if len(it.Data) != 20 {
				return fmt.Errorf("harness: hash case with %d bytes", len(it.Data))
			}
			h = it.Data
		case "key":
			if len(it.Data) != 33 {
				return fmt.Errorf("harness: key case with %d bytes", len(it.Data))
			}
			key = it.Data
			h = ref.Hash160(key)
		case "priv":
			_, pub = bec.PrivKeyFromBytes(bec.S256(), it.Data)
			key = pub.SerialiseCompressed()
			h = ref.Hash160(key)
		default:
			return fmt.Errorf("harness: unknown kind %q", it.Kind)
		}
		ver := byte(0x00)
		if !it.Mainnet {
			ver = 0x6f
		}
		e := exp{h: h, script: ref.P2PKHScript(h), addr: ref.B58CheckEncode(ver, h), main: ref.B58CheckEncode(0x00, h)}
		exps[i] = e
		distinct[string(h)] = true
		sel := c.Ctors[i]
		on := func(bit uint) bool { return sel&(1<<bit) != 0 }
		keepS := func(what string, s *bscript.Script, err error) error {
			if err != nil || s == nil {
				return fmt.Errorf("%s failed for item %d (%s %x): %v", what, i, it.Kind, []byte(it.Data), err)
			}
			held = append(held, kept{what: what, item: i, script: s})
			return nil
		}
		keepA := func(what string, a *bscript.Address, err error) error {
			if err != nil || a == nil {
				return fmt.Errorf("%s failed for item %d (%s %x): %v", what, i, it.Kind, []byte(it.Data), err)
			}
			held = append(held, kept{what: what, item: i, addr: a})
			return nil
		}
		hs := hex.EncodeToString(h)
		if on(0) {
			s, err := bscript.NewP2PKHFromPubKeyHash(own(h))
			if err := keepS("NewP2PKHFromPubKeyHash", s, err); err != nil {
				return err
			}
		}
		if on(1) {
			s, err := bscript.NewP2PKHFromPubKeyHashStr(hs)
			if err := keepS("NewP2PKHFromPubKeyHashStr", s, err); err != nil {
				return err
			}
		}
		if on(2) {
			s, err := bscript.NewP2PKHFromAddress(e.addr)
			if err := keepS("NewP2PKHFromAddress", s, err); err != nil {
				return err
			}
		}
		if on(3) {
			a, err := bscript.NewAddressFromPublicKeyHash(own(h), it.Mainnet)
			if err := keepA("NewAddressFromPublicKeyHash", a, err); err != nil {
				return err
			}
		}
		if on(4) {
			a, err := bscript.NewAddressFromString(e.addr)
			if err := keepA("NewAddressFromString", a, err); err != nil {
				return err
			}
		}
		if key != nil {
			if on(5) {
				s, err := bscript.NewP2PKHFromPubKeyBytes(own(key))
				if err := keepS("NewP2PKHFromPubKeyBytes", s, err); err != nil {
					return err
				}
			}
			if on(6) {
				s, err := bscript.NewP2PKHFromPubKeyStr(hex.EncodeToString(key))
				if err := keepS("NewP2PKHFromPubKeyStr", s, err); err != nil {
					return err
				}
			}
			if on(7) {
				a, err := bscript.NewAddressFromPublicKeyString(hex.EncodeToString(key), it.Mainnet)
				if err := keepA("NewAddressFromPublicKeyString", a, err); err != nil {
					return err
				}
			}
		}
		if pub != nil {
			if on(8) {
				s, err := bscript.NewP2PKHFromPubKeyEC(pub)
				if err := keepS("NewP2PKHFromPubKeyEC", s, err); err != nil {
					return err
				}
			}
			if on(9) {
				a, err := bscript.NewAddressFromPublicKey(pub, it.Mainnet)
				if err := keepA("NewAddressFromPublicKey", a, err); err != nil {
					return err
				}
			}
		}
		// outputs of one and the same transaction
		var err error
		before := len(one.Outputs)
		switch oc := int(sel>>10) % 6; {
		case oc == 0:
			err = one.AddP2PKHOutputFromPubKeyHashStr(hs, uint64(1000+i))
		case oc == 1:
			err = one.AddP2PKHOutputFromAddress(e.addr, uint64(1000+i))
		case oc == 2 && key != nil:
			err = one.AddP2PKHOutputFromPubKeyBytes(own(key), uint64(1000+i))
		case oc == 3 && key != nil:
			err = one.AddP2PKHOutputFromPubKeyStr(hex.EncodeToString(key), uint64(1000+i))
		case oc == 4:
			err = one.PayToAddress(e.addr, uint64(1000+i))
		}
		if err != nil {
			return fmt.Errorf("adding a P2PKH output for item %d (%s %x) failed: %v", i, it.Kind, []byte(it.Data), err)
		}
		if len(one.Outputs) == before+1 {
			oneItems = append(oneItems, i)
		} else if len(one.Outputs) != before {
			return fmt.Errorf("one output constructor call changed the output count from %d to %d", before, len(one.Outputs))
		}
	}
	// ---- only now look at what was handed out ----
	for _, k := range held {
		e := exps[k.item]
		if k.script != nil {
			if !bytes.Equal(*k.script, e.script) {
				return fmt.Errorf("the script %s returned for payee %d (hash %x) reads %x after %d payees were served; canonical script is %x",
					k.what, k.item, e.h, []byte(*k.script), len(c.Items), e.script)
			}
			got, err := k.script.PublicKeyHash()
			if err != nil || !bytes.Equal(got, e.h) {
				return fmt.Errorf("PublicKeyHash() of the script %s returned for payee %d = %x, %v; want %x", k.what, k.item, got, err, e.h)
			}
			addrs, err := k.script.Addresses()
			if err != nil || len(addrs) != 1 || addrs[0] != e.main {
				return fmt.Errorf("Addresses() of the script %s returned for payee %d = %v, %v; want [%s]", k.what, k.item, addrs, err, e.main)
			}
		}
		if k.addr != nil {
			if k.addr.AddressString != e.addr || k.addr.PublicKeyHash != hex.EncodeToString(e.h) {
				return fmt.Errorf("the address %s returned for payee %d reads %q / %s after %d payees were served; want %q / %x",
					k.what, k.item, k.addr.AddressString, k.addr.PublicKeyHash, len(c.Items), e.addr, e.h)
			}
		}
	}
	if len(one.Outputs) != len(oneItems) {
		return fmt.Errorf("harness: output bookkeeping")
	}
	for n, i := range oneItems {
		o := one.Outputs[n]
		if o.LockingScript == nil || !bytes.Equal(*o.LockingScript, exps[i].script) || o.Satoshis != uint64(1000+i) {
			return fmt.Errorf("output %d of a transaction paying %d payees in turn should pay %d satoshis to %x (payee %d), it reads %d / %v",
				n, len(oneItems), 1000+i, exps[i].script, i, o.Satoshis, o.LockingScript)
		}
	}
	ctx.Labelf("payees=%d", len(c.Items))
	ctx.Labelf("outputs_in_one_tx=%d", min(len(oneItems), 4))
	if len(distinct) >= 2 {
		ctx.NonTrivial()
		ctx.Label("distinct_hashes>=2")
	}
	var kk [][]byte
	for _, e := range exps {
		kk = append(kk, e.h)
	}
	ctx.Key(kk...)
	return nil
}

func genDeriveItem(t *rapid.T) Derive {
	c := Derive{Mainnet: rapid.Bool().Draw(t, "mainnet")}
	switch rapid.IntRange(0, 9).Draw(t, "kind") {
	case 0, 1, 2, 3, 4:
		c.Kind = "hash"
		c.Data = genHash(t)
	case 5, 6, 7:
		c.Kind = "key"
		k := gen.Bytes(t, 33, "key")
		k[0] = byte(2 + rapid.IntRange(0, 1).Draw(t, "parity"))
		c.Data = k
	default:
		c.Kind = "priv"
		p := gen.Bytes(t, 32, "priv")
		p[0] &= 0x7f
		if leadingZeros(p) == 32 {
			p[31] = 1
		}
		c.Data = p
	}
	return c
}

func TestSequence(t *testing.T) {
	pbt.Run(t, pbt.Sub[Seq]{
		Name: "sequence", Quick: 20000, Thorough: 600000,
		Gen: func(t *rapid.T) Seq {
			n := rapid.IntRange(2, 6).Draw(t, "payees")
			var c Seq
			for i := 0; i < n; i++ {
				c.Items = append(c.Items, genDeriveItem(t))
				sel := uint16(0x03ff) // bits 0-9: which constructors; bits 10+: which output constructor (mod 6, 5 = none)
				if rapid.IntRange(0, 2).Draw(t, "subset") == 0 {
					sel = uint16(rapid.IntRange(0, 0x3ff).Draw(t, "ctors"))
				}
				sel |= uint16(rapid.IntRange(0, 5).Draw(t, "out_ctor")) << 10
				c.Ctors = append(c.Ctors, sel)
			}
			return c
		},
		Check: checkSeq,
	})
}
