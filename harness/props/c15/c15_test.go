// Package c15 decides property C15 (P2PKH construction and addresses are
// coherent and checksum-protected).
package c15

import (
	"bytes"
	"crypto/sha256"
	"encoding/binary"
	"encoding/hex"
	"fmt"
	"strconv"
	"strings"
	"testing"

	"github.com/libsv/go-bk/bec"
	"github.com/libsv/go-bk/bip32"
	"github.com/libsv/go-bk/chaincfg"
	"github.com/libsv/go-bt/v2"
	"github.com/libsv/go-bt/v2/bscript"
	"pgregory.net/rapid"

	"verif/harness/gen"
	"verif/harness/pbt"
	"verif/harness/ref"
)

func TestMain(m *testing.M) { pbt.Main(m) }

// ---------------------------------------------------------------------------
// acceptance of a string by the five entry points
// ---------------------------------------------------------------------------

// fundingScript is the P2PKH locking script of the single input of the
// transaction ChangeToAddress is tried on (hash = 20 x 0x11).
var fundingScript = hex.EncodeToString(ref.P2PKHScript(bytes.Repeat([]byte{0x11}, 20)))

const fundingTxID = "aa00000000000000000000000000000000000000000000000000000000000011"

type acceptance struct {
	name     string
	accepted bool   // the entry point treated the string as an address
	clean    bool   // accepted without any reservation (ok && err == nil)
	hash     []byte // hash the entry point derived (nil if it exposes none)
	script   []byte // locking script it built (nil if none)
	err      error
}

// tryAll hands s to the five entry points of the statement.
func tryAll(s string) []acceptance {
	out := make([]acceptance, 0, 5)

	ok, verr := bscript.ValidateAddress(s)
	out = append(out, acceptance{name: "ValidateAddress", accepted: ok || verr == nil, clean: ok && verr == nil, err: verr})

	a, aerr := bscript.NewAddressFromString(s)
	ac := acceptance{name: "NewAddressFromString", accepted: aerr == nil, clean: aerr == nil && a != nil, err: aerr}
	if aerr == nil && a != nil {
		if a.AddressString != s {
			ac.err = fmt.Errorf("AddressString %q differs from the input", a.AddressString)
			ac.clean = false
		}
		h, herr := hex.DecodeString(a.PublicKeyHash)
		if herr != nil {
			ac.err = fmt.Errorf("PublicKeyHash %q is not hex", a.PublicKeyHash)
			ac.clean = false
		}
		ac.hash = h
	}
	out = append(out, ac)

	sc, serr := bscript.NewP2PKHFromAddress(s)
	sa := acceptance{name: "NewP2PKHFromAddress", accepted: serr == nil, clean: serr == nil && sc != nil, err: serr}
	if sc != nil {
		sa.script = []byte(*sc)
	}
	out = append(out, sa)

	tx := bt.NewTx()
	perr := tx.PayToAddress(s, 1000)
	pa := acceptance{name: "PayToAddress", accepted: perr == nil || len(tx.Outputs) > 0, clean: perr == nil && len(tx.Outputs) == 1, err: perr}
	if len(tx.Outputs) == 1 && tx.Outputs[0].LockingScript != nil {
		pa.script = []byte(*tx.Outputs[0].LockingScript)
		if tx.Outputs[0].Satoshis != 1000 {
			pa.clean = false
			pa.err = fmt.Errorf("output carries %d satoshis, 1000 requested", tx.Outputs[0].Satoshis)
		}
	}
	out = append(out, pa)

	ctr := bt.NewTx()
	if err := ctr.From(fundingTxID, 0, fundingScript, 100000); err != nil {
		panic("harness: cannot build funding input: " + err.Error())
	}
	cerr := ctr.ChangeToAddress(s, bt.NewFeeQuote())
	ca := acceptance{name: "ChangeToAddress", accepted: cerr == nil || len(ctr.Outputs) > 0, clean: cerr == nil && len(ctr.Outputs) == 1, err: cerr}
	if len(ctr.Outputs) == 1 && ctr.Outputs[0].LockingScript != nil {
		ca.script = []byte(*ctr.Outputs[0].LockingScript)
	}
	out = append(out, ca)
	return out
}

// judge compares the five verdicts with the reference verdict. It returns the
// number of acceptances excused as known finding L26.
func judge(ctx *pbt.Ctx, s string, info ref.AddrInfo) error {
	res := tryAll(s)
	if info.Class == ref.AddrValid {
		want := ref.P2PKHScript(info.Hash)
		for _, r := range res {
			if !r.clean {
				return fmt.Errorf("%s rejects / mishandles the valid address %q (version %02x, hash %x): %v", r.name, s, info.Version, info.Hash, r.err)
			}
			if r.hash != nil && !bytes.Equal(r.hash, info.Hash) {
				return fmt.Errorf("%s(%q) gives hash %x, the address encodes %x", r.name, s, r.hash, info.Hash)
			}
			if r.script != nil && !bytes.Equal(r.script, want) {
				return fmt.Errorf("%s(%q) builds script %x, canonical P2PKH script is %x", r.name, s, r.script, want)
			}
		}
		return nil
	}
	for _, r := range res {
		if !r.accepted {
			continue
		}
		// Known finding L26, narrowest shape: canonical Base58 of exactly 25 bytes,
		// version 00/6f, the checksum is the only defect, and the acceptor is one of
		// the four that sit on NewAddressFromString. ValidateAddress is never excused.
		if info.Class == ref.AddrBadChecksum && r.name != "ValidateAddress" && ctx.Known("L26") {
			ctx.Label("L26:" + r.name)
			continue
		}
		return fmt.Errorf("%s accepts %q although it is not a well-formed address (reference: %s, version %02x); built script %x, hash %x", r.name, s, info.Class, info.Version, r.script, r.hash)
	}
	return nil
}

// ---------------------------------------------------------------------------
// sub-check 1: derivation and construction coherence
// ---------------------------------------------------------------------------

// Derive is a key hash / public key / private key and a network.
type Derive struct {
	Kind    string  `json:"kind"` // "hash" (20 bytes), "key" (33 bytes, any content), "priv" (32-byte scalar -> real curve point)
	Data    pbt.Hex `json:"data"`
	Mainnet bool    `json:"mainnet"`
}

func leadingZeros(b []byte) int {
	n := 0
	for n < len(b) && b[n] == 0 {
		n++
	}
	return n
}

func scriptOf(name string, s *bscript.Script, err error) ([]byte, error) {
	if err != nil {
		return nil, fmt.Errorf("%s failed: %v", name, err)
	}
	if s == nil {
		return nil, fmt.Errorf("%s returned a nil script without error", name)
	}
	return []byte(*s), nil
}

func lastOutputScript(name string, tx *bt.Tx, err error, sats uint64) ([]byte, error) {
	if err != nil {
		return nil, fmt.Errorf("%s failed: %v", name, err)
	}
	if len(tx.Outputs) != 1 || tx.Outputs[0].LockingScript == nil {
		return nil, fmt.Errorf("%s left %d outputs", name, len(tx.Outputs))
	}
	if sats != 0 && tx.Outputs[0].Satoshis != sats {
		return nil, fmt.Errorf("%s: output carries %d satoshis, %d requested", name, tx.Outputs[0].Satoshis, sats)
	}
	return []byte(*tx.Outputs[0].LockingScript), nil
}

func checkDerive(ctx *pbt.Ctx, c Derive) error {
	// every byte slice handed to the library is the caller's own, with a canary in its spare
	// capacity: a constructor that appends to it writes into the caller's memory
	var handed [][]byte
	own := func(b []byte) []byte {
		o := ref.Canary(b)
		handed = append(handed, o)
		return o
	}
	ctx.After(func() error {
		for _, o := range handed {
			if ref.CanaryDamaged(o) {
				return fmt.Errorf("a constructor wrote behind the %d-byte slice %x it was handed (the caller's memory): %x", len(o), o, o[len(o):cap(o)])
			}
		}
		return nil
	})
	var h, key []byte
	var pub *bec.PublicKey
	switch c.Kind {
	case "hash":
		if len(c.Data) != 20 {
			return fmt.Errorf("harness: hash case with %d bytes", len(c.Data))
		}
		h = c.Data
	case "key":
		if len(c.Data) != 33 {
			return fmt.Errorf("harness: key case with %d bytes", len(c.Data))
		}
		key = c.Data
		h = ref.Hash160(key)
	case "priv":
		_, pub = bec.PrivKeyFromBytes(bec.S256(), c.Data)
		key = pub.SerialiseCompressed()
		h = ref.Hash160(key)
	default:
		return fmt.Errorf("harness: unknown kind %q", c.Kind)
	}
	ver := byte(0x00)
	if !c.Mainnet {
		ver = 0x6f
	}
	want := ref.B58CheckEncode(ver, h)
	wantMain := ref.B58CheckEncode(0x00, h)
	wantScript := ref.P2PKHScript(h)
	ctx.Label("kind=" + c.Kind)
	ctx.Labelf("mainnet=%v", c.Mainnet)
	ctx.Labelf("hash_leading_zero_bytes=%d", min(leadingZeros(h), 4))
	ctx.Labelf("addrlen=%d", len(want))
	ctx.NonTrivial()
	ctx.Key([]byte(want))

	// ---- derived addresses equal the reference rendering ----
	type der struct {
		name string
		a    *bscript.Address
		err  error
	}
	var ders []der
	a1, e1 := bscript.NewAddressFromPublicKeyHash(own(h), c.Mainnet)
	ders = append(ders, der{"NewAddressFromPublicKeyHash", a1, e1})
	if key != nil {
		a2, e2 := bscript.NewAddressFromPublicKeyString(hex.EncodeToString(key), c.Mainnet)
		ders = append(ders, der{"NewAddressFromPublicKeyString", a2, e2})
	}
	if pub != nil {
		a3, e3 := bscript.NewAddressFromPublicKey(pub, c.Mainnet)
		ders = append(ders, der{"NewAddressFromPublicKey", a3, e3})
	}
	// the same hash / key on the other network, in the same process: the answer may not depend
	// on what was asked before
	{
		otherVer := byte(0x6f)
		if !c.Mainnet {
			otherVer = 0x00
		}
		wantOther := ref.B58CheckEncode(otherVer, h)
		type od struct {
			name string
			a    *bscript.Address
			err  error
		}
		var others []od
		o1, oe1 := bscript.NewAddressFromPublicKeyHash(own(h), !c.Mainnet)
		others = append(others, od{"NewAddressFromPublicKeyHash", o1, oe1})
		if key != nil {
			o2, oe2 := bscript.NewAddressFromPublicKeyString(hex.EncodeToString(key), !c.Mainnet)
			others = append(others, od{"NewAddressFromPublicKeyString", o2, oe2})
		}
		if pub != nil {
			o3, oe3 := bscript.NewAddressFromPublicKey(pub, !c.Mainnet)
			others = append(others, od{"NewAddressFromPublicKey", o3, oe3})
		}
		for _, o := range others {
			if o.err != nil || o.a == nil {
				return fmt.Errorf("%s failed for %s %x on the other network: %v", o.name, c.Kind, c.Data, o.err)
			}
			if o.a.AddressString != wantOther || o.a.PublicKeyHash != hex.EncodeToString(h) {
				return fmt.Errorf("%s(%s %x, mainnet=%v), asked right after mainnet=%v, = %q / %s; Base58Check(%02x || hash160) is %q", o.name, c.Kind, c.Data, !c.Mainnet, c.Mainnet, o.a.AddressString, o.a.PublicKeyHash, otherVer, wantOther)
			}
		}
		// and once more on the first network
		if pub != nil {
			a4, e4 := bscript.NewAddressFromPublicKey(pub, c.Mainnet)
			ders = append(ders, der{"NewAddressFromPublicKey (asked again)", a4, e4})
		}
	}
	for _, d := range ders {
		if d.err != nil || d.a == nil {
			return fmt.Errorf("%s failed for %s %x: %v", d.name, c.Kind, c.Data, d.err)
		}
		if d.a.AddressString != want {
			return fmt.Errorf("%s(%s %x, mainnet=%v) = %q, Base58Check(%02x || hash160) is %q", d.name, c.Kind, c.Data, c.Mainnet, d.a.AddressString, ver, want)
		}
		if d.a.PublicKeyHash != hex.EncodeToString(h) {
			return fmt.Errorf("%s(%s %x).PublicKeyHash = %s, want %x", d.name, c.Kind, c.Data, d.a.PublicKeyHash, h)
		}
	}

	// ---- the address decodes back to the hash, validates, and every string entry point agrees ----
	info := ref.ClassifyAddress(want)
	if info.Class != ref.AddrValid || !bytes.Equal(info.Hash, h) || info.Version != ver {
		return fmt.Errorf("harness: reference does not round-trip its own address %q", want)
	}
	if err := judge(ctx, want, info); err != nil {
		return err
	}

	// ---- every constructor yields the canonical script ----
	type built struct {
		name string
		b    []byte
		err  error
	}
	var bs []built
	add := func(name string, b []byte, err error) { bs = append(bs, built{name, b, err}) }
	{
		s, err := bscript.NewP2PKHFromPubKeyHash(own(h))
		b, err := scriptOf("NewP2PKHFromPubKeyHash", s, err)
		add("NewP2PKHFromPubKeyHash", b, err)
	}
	{
		s, err := bscript.NewP2PKHFromPubKeyHashStr(hex.EncodeToString(h))
		b, err := scriptOf("NewP2PKHFromPubKeyHashStr", s, err)
		add("NewP2PKHFromPubKeyHashStr", b, err)
	}
	{
		s, err := bscript.NewP2PKHFromAddress(want)
		b, err := scriptOf("NewP2PKHFromAddress", s, err)
		add("NewP2PKHFromAddress", b, err)
	}
	{
		tx := bt.NewTx()
		err := tx.AddP2PKHOutputFromPubKeyHashStr(hex.EncodeToString(h), 546)
		b, err := lastOutputScript("AddP2PKHOutputFromPubKeyHashStr", tx, err, 546)
		add("AddP2PKHOutputFromPubKeyHashStr", b, err)
	}
	{
		tx := bt.NewTx()
		err := tx.AddP2PKHOutputFromAddress(want, 547)
		b, err := lastOutputScript("AddP2PKHOutputFromAddress", tx, err, 547)
		add("AddP2PKHOutputFromAddress", b, err)
	}
	if key != nil {
		s, err := bscript.NewP2PKHFromPubKeyBytes(own(key))
		b, err := scriptOf("NewP2PKHFromPubKeyBytes", s, err)
		add("NewP2PKHFromPubKeyBytes", b, err)

		s, err = bscript.NewP2PKHFromPubKeyStr(hex.EncodeToString(key))
		b, err = scriptOf("NewP2PKHFromPubKeyStr", s, err)
		add("NewP2PKHFromPubKeyStr", b, err)

		tx := bt.NewTx()
		err = tx.AddP2PKHOutputFromPubKeyBytes(own(key), 548)
		b, err = lastOutputScript("AddP2PKHOutputFromPubKeyBytes", tx, err, 548)
		add("AddP2PKHOutputFromPubKeyBytes", b, err)

		tx = bt.NewTx()
		err = tx.AddP2PKHOutputFromPubKeyStr(hex.EncodeToString(key), 549)
		b, err = lastOutputScript("AddP2PKHOutputFromPubKeyStr", tx, err, 549)
		add("AddP2PKHOutputFromPubKeyStr", b, err)
	}
	if pub != nil {
		s, err := bscript.NewP2PKHFromPubKeyEC(pub)
		b, err := scriptOf("NewP2PKHFromPubKeyEC", s, err)
		add("NewP2PKHFromPubKeyEC", b, err)
	}
	{
		// a canonical script handed back in: AddP2PKHOutputFromScript / PayTo
		for _, name := range []string{"AddP2PKHOutputFromScript", "PayTo"} {
			tx := bt.NewTx()
			sc := bscript.NewFromBytes(append([]byte{}, wantScript...))
			var err error
			if name == "PayTo" {
				err = tx.PayTo(sc, 550)
			} else {
				err = tx.AddP2PKHOutputFromScript(sc, 550)
			}
			b, err := lastOutputScript(name, tx, err, 550)
			add(name, b, err)
		}
	}
	for _, x := range bs {
		if x.err != nil {
			return fmt.Errorf("%s %x mainnet=%v: %v", c.Kind, c.Data, c.Mainnet, x.err)
		}
		if !bytes.Equal(x.b, wantScript) {
			return fmt.Errorf("%s builds %x for %s %x, canonical script is %x", x.name, x.b, c.Kind, c.Data, wantScript)
		}
		// ---- hash and address are recovered from the script ----
		sc := bscript.Script(append([]byte{}, x.b...))
		if !sc.IsP2PKH() {
			return fmt.Errorf("script %x built by %s is not recognised as P2PKH", x.b, x.name)
		}
		got, err := sc.PublicKeyHash()
		if err != nil || !bytes.Equal(got, h) {
			return fmt.Errorf("PublicKeyHash() of %x = %x, %v; want %x", x.b, got, err, h)
		}
		addrs, err := sc.Addresses()
		if err != nil || len(addrs) != 1 || addrs[0] != wantMain {
			return fmt.Errorf("Addresses() of %x = %v, %v; want [%s] (mainnet rendering of %x)", x.b, addrs, err, wantMain, h)
		}
	}
	// ---- the extended-key constructors: the script pays the key found at the path they report ----
	if c.Kind == "priv" {
		master, err := bip32.NewMaster(c.Data, &chaincfg.MainNet)
		if err != nil {
			ctx.Label("bip32_master_refused")
			return nil
		}
		for round := 0; round < 2; round++ {
			var got []byte
			var path, name string
			if round == 0 {
				name = "NewP2PKHFromBip32ExtKey"
				sc, p, err := bscript.NewP2PKHFromBip32ExtKey(master)
				got, err = scriptOf(name, sc, err)
				if err != nil {
					return err
				}
				path = p
			} else {
				name = "AddP2PKHOutputFromBip32ExtKey"
				tx := bt.NewTx()
				p, err := tx.AddP2PKHOutputFromBip32ExtKey(master, 551)
				got, err = lastOutputScript(name, tx, err, 551)
				if err != nil {
					return err
				}
				path = p
			}
			// walk the reported path with go-bk's Child (trusted base), element by element
			k := master
			for _, el := range strings.Split(path, "/") {
				hard := strings.HasSuffix(el, "'")
				n, perr := strconv.ParseUint(strings.TrimSuffix(el, "'"), 10, 32)
				if perr != nil {
					return fmt.Errorf("%s reports derivation path %q, element %q is not a number", name, path, el)
				}
				if hard {
					n += 1 << 31
				}
				k, err = k.Child(uint32(n))
				if err != nil {
					return fmt.Errorf("harness: cannot walk reported path %q: %v", path, err)
				}
			}
			pk, err := k.ECPubKey()
			if err != nil {
				return fmt.Errorf("harness: no public key at %q: %v", path, err)
			}
			wantS := ref.P2PKHScript(ref.Hash160(pk.SerialiseCompressed()))
			if !bytes.Equal(got, wantS) {
				return fmt.Errorf("%s returned script %x with path %q; the key at that path gives %x", name, got, path, wantS)
			}
			ctx.Label("bip32_constructor_checked")
		}
	}
	return nil
}

func enumHash(i int) []byte {
	var seed [12]byte
	copy(seed[:], "c15-enum")
	binary.BigEndian.PutUint32(seed[8:], uint32(i))
	s := sha256.Sum256(seed[:])
	return s[:20]
}

func genHash(t *rapid.T) []byte {
	h := gen.Bytes(t, 20, "hash")
	switch rapid.IntRange(0, 9).Draw(t, "hash_shape") {
	case 0, 1, 2:
		z := rapid.IntRange(1, 3).Draw(t, "lead_zero")
		for i := 0; i < z; i++ {
			h[i] = 0
		}
	case 3:
		z := rapid.IntRange(4, 20).Draw(t, "lead_zero_many")
		for i := 0; i < z; i++ {
			h[i] = 0
		}
	case 4:
		f := rapid.SampledFrom([]byte{0x00, 0xff, 0x01, 0x80}).Draw(t, "fill")
		for i := range h {
			h[i] = f
		}
	}
	return h
}

func TestDerive(t *testing.T) {
	pbt.Run(t, pbt.Sub[Derive]{
		Name: "derive", Quick: 100000, Thorough: 2500000,
		EnumDesc: "hashes with every leading-zero count 0..20 (rest ff / rest 01 / pseudo-random) x both networks; 64 fixed 33-byte keys and 16 private scalars x both networks",
		Enum: func(tier string, yield func(Derive)) {
			for z := 0; z <= 20; z++ {
				for v, fill := range []byte{0xff, 0x01, 0x00} {
					h := enumHash(z*3 + v)
					if fill != 0 {
						for i := range h {
							h[i] = fill
						}
					}
					for i := 0; i < z; i++ {
						h[i] = 0
					}
					yield(Derive{Kind: "hash", Data: h, Mainnet: true})
					yield(Derive{Kind: "hash", Data: append([]byte{}, h...), Mainnet: false})
				}
			}
			for i := 0; i < 64; i++ {
				kh := sha256.Sum256(enumHash(1000 + i))
				k := append([]byte{byte(2 + i%2)}, kh[:]...)
				yield(Derive{Kind: "key", Data: k, Mainnet: i%4 < 2})
			}
			for i := 1; i <= 16; i++ {
				p := make([]byte, 32)
				copy(p[12:], enumHash(2000+i))
				if i <= 4 {
					p = make([]byte, 32)
					p[31] = byte(i)
				}
				yield(Derive{Kind: "priv", Data: p, Mainnet: true})
				yield(Derive{Kind: "priv", Data: append([]byte{}, p...), Mainnet: false})
			}
		},
		Gen: func(t *rapid.T) Derive {
			c := Derive{Mainnet: rapid.Bool().Draw(t, "mainnet")}
			switch rapid.IntRange(0, 9).Draw(t, "kind") {
			case 0, 1, 2, 3, 4, 5:
				c.Kind = "hash"
				c.Data = genHash(t)
			case 6, 7, 8:
				c.Kind = "key"
				k := gen.Bytes(t, 33, "key")
				if rapid.IntRange(0, 9).Draw(t, "prefix_any") != 0 {
					k[0] = byte(2 + rapid.IntRange(0, 1).Draw(t, "parity"))
				}
				c.Data = k
			default:
				c.Kind = "priv"
				p := gen.Bytes(t, 32, "priv")
				p[0] &= 0x7f // below the group order
				if leadingZeros(p) == 32 {
					p[31] = 1
				}
				c.Data = p
			}
			return c
		},
		Check: checkDerive,
	})
}

// ---------------------------------------------------------------------------
// sub-check 2: which strings are accepted
// ---------------------------------------------------------------------------

// Str is a candidate address string and how it was obtained.
type Str struct {
	Base string `json:"base"` // valid address it was derived from (informational; "" if constructed)
	Op   string `json:"op"`
	S    string `json:"s"`
	// Raw, when set, is the candidate as raw bytes (strings that are not valid UTF-8 cannot
	// travel through a JSON replay file as text); it takes precedence over S.
	Raw pbt.Hex `json:"raw,omitempty"`
}

func checkStr(ctx *pbt.Ctx, c Str) error {
	if len(c.Raw) > 0 {
		c.S = string(c.Raw)
	}
	if strings.HasPrefix(c.S, "bitcoin-script:") {
		// ValidateAddress documents BIP276 text as a second accepted form (property C17).
		ctx.Discard("bip276 form")
		return nil
	}
	info := ref.ClassifyAddress(c.S)
	ctx.Label("op=" + c.Op)
	ctx.Label("class=" + info.Class)
	ctx.Label("op=" + c.Op + "/" + info.Class)
	if c.S != c.Base {
		ctx.NonTrivial()
		if info.Class == ref.AddrValid {
			ctx.Label("valid_and_differs_from_base")
		}
	}
	ctx.Key([]byte(c.S))
	return judge(ctx, c.S, info)
}

// nonAlphabet holds characters that are not Base58 digits: the four look-alikes
// the alphabet leaves out, punctuation, white space, control and non-ASCII runes.
var nonAlphabet = []string{"0", "O", "I", "l", " ", "\t", "\n", "\x00", "+", "/", "=", "-", "_", ":", ".", "\u00e9", "\uff11", "\u200b", "\x7f"}

func baseAddr(h []byte, mainnet bool) string {
	if mainnet {
		return ref.B58CheckEncode(0x00, h)
	}
	return ref.B58CheckEncode(0x6f, h)
}

// neighbourhood yields the complete edit-distance-1 neighbourhood of a valid
// address plus the constructed version / length / alphabet classes.
func neighbourhood(h []byte, mainnet bool, yield func(Str)) {
	{
		base := baseAddr(h, mainnet)
		for i := range base {
			b := []byte(base)
			b[i] |= 0x80
			yield(Str{Base: base, Op: "highbit", Raw: b})
		}
	}
	base := baseAddr(h, mainnet)
	ver := byte(0x00)
	if !mainnet {
		ver = 0x6f
	}
	yield(Str{Base: base, Op: "same", S: base})
	for i := 0; i < len(base); i++ {
		for j := 0; j < len(ref.B58Alphabet); j++ {
			if ref.B58Alphabet[j] != base[i] {
				yield(Str{Base: base, Op: "subst", S: base[:i] + ref.B58Alphabet[j:j+1] + base[i+1:]})
			}
		}
		for _, x := range nonAlphabet[:5] {
			yield(Str{Base: base, Op: "subst_nonalpha", S: base[:i] + x + base[i+1:]})
		}
		yield(Str{Base: base, Op: "delete", S: base[:i] + base[i+1:]})
	}
	for i := 0; i+1 < len(base); i++ {
		if base[i] != base[i+1] {
			yield(Str{Base: base, Op: "transpose", S: base[:i] + base[i+1:i+2] + base[i:i+1] + base[i+2:]})
		}
	}
	for i := 0; i <= len(base); i++ {
		for j := 0; j < len(ref.B58Alphabet); j++ {
			yield(Str{Base: base, Op: "insert", S: base[:i] + ref.B58Alphabet[j:j+1] + base[i:]})
		}
	}
	for v := 0; v < 256; v++ {
		yield(Str{Base: base, Op: "version", S: ref.B58CheckEncode(byte(v), h)})
		// version byte replaced, checksum of the original kept
		raw, _ := ref.B58Decode(base)
		raw[0] = byte(v)
		yield(Str{Base: base, Op: "version_keepsum", S: ref.B58Encode(raw)})
	}
	for n := 0; n <= 40; n++ {
		p := make([]byte, n)
		for i := range p {
			p[i] = h[i%20]
		}
		yield(Str{Base: base, Op: "length", S: ref.B58CheckEncode(ver, p)})
	}
	for n := 0; n <= len(base)+1; n++ {
		yield(Str{Base: base, Op: "ones", S: strings.Repeat("1", n)})
	}
	for k := 1; k <= 40; k++ {
		raw, _ := ref.B58Decode(base)
		yield(Str{Base: base, Op: "wrap", S: ref.B58Encode(append([]byte{byte(k)}, raw...))})
	}
}

func genStr(t *rapid.T) Str {
	h := genHash(t)
	mainnet := rapid.Bool().Draw(t, "mainnet")
	base := baseAddr(h, mainnet)
	ver := byte(0x00)
	if !mainnet {
		ver = 0x6f
	}
	alpha := func(label string) string {
		j := rapid.IntRange(0, 57).Draw(t, label)
		return ref.B58Alphabet[j : j+1]
	}
	pos := func(label string, max int) int { return rapid.IntRange(0, max).Draw(t, label) }
	ops := []string{"same", "subst", "subst", "subst_nonalpha", "transpose", "insert", "insert_nonalpha", "delete", "delete_lead", "insert_lead1",
		"version", "version_keepsum", "length", "truncate", "extend", "bitflip", "bitflip", "subst2", "random58", "ones", "pad", "case", "double", "hex", "highbit", "rawbyte", "wrap"}
	op := rapid.SampledFrom(ops).Draw(t, "op")
	c := Str{Base: base, Op: op}
	switch op {
	case "same":
		c.S = base
	case "highbit":
		// the same characters with bit 7 set on one of them: not a Base58 digit, not even ASCII
		b := []byte(base)
		b[pos("pos", len(b)-1)] |= 0x80
		c.Raw = b
	case "rawbyte":
		b := []byte(base)
		i := pos("pos", len(b))
		x := byte(rapid.IntRange(0x80, 0xff).Draw(t, "rawbyte"))
		if i == len(b) || rapid.Bool().Draw(t, "rawins") {
			b = append(b[:i:i], append([]byte{x}, b[i:]...)...)
		} else {
			b[i] = x
		}
		c.Raw = b
	case "subst":
		i := pos("pos", len(base)-1)
		c.S = base[:i] + alpha("chr") + base[i+1:]
	case "subst2":
		i := pos("pos", len(base)-1)
		j := pos("pos2", len(base)-1)
		b := []byte(base)
		b[i] = alpha("chr")[0]
		b[j] = alpha("chr2")[0]
		c.S = string(b)
	case "subst_nonalpha":
		i := pos("pos", len(base)-1)
		c.S = base[:i] + rapid.SampledFrom(nonAlphabet).Draw(t, "bad") + base[i+1:]
	case "transpose":
		i := pos("pos", len(base)-2)
		c.S = base[:i] + base[i+1:i+2] + base[i:i+1] + base[i+2:]
	case "insert":
		i := pos("pos", len(base))
		c.S = base[:i] + alpha("chr") + base[i:]
	case "insert_nonalpha":
		i := pos("pos", len(base))
		c.S = base[:i] + rapid.SampledFrom(nonAlphabet).Draw(t, "bad") + base[i:]
	case "delete":
		i := pos("pos", len(base)-1)
		c.S = base[:i] + base[i+1:]
	case "delete_lead":
		// drop 1..all leading '1's (mainnet) or the first characters (testnet)
		n := leadingOnes(base)
		if n == 0 {
			n = 1
		}
		c.S = base[rapid.IntRange(1, n).Draw(t, "n"):]
	case "insert_lead1":
		c.S = strings.Repeat("1", rapid.IntRange(1, 4).Draw(t, "n")) + base
	case "version":
		c.S = ref.B58CheckEncode(byte(rapid.IntRange(0, 255).Draw(t, "v")), h)
	case "version_keepsum":
		raw, _ := ref.B58Decode(base)
		raw[0] = byte(rapid.IntRange(0, 255).Draw(t, "v"))
		c.S = ref.B58Encode(raw)
	case "length":
		n := rapid.IntRange(0, 45).Draw(t, "n")
		p := gen.Bytes(t, n, "payload")
		if rapid.Bool().Draw(t, "zero_lead") && n > 0 {
			p[0] = 0
		}
		c.S = ref.B58CheckEncode(ver, p)
	case "truncate":
		c.S = base[:pos("n", len(base)-1)]
	case "extend":
		c.S = base + base[:pos("n", len(base))]
		if c.S == base {
			c.S = base + alpha("chr")
		}
	case "bitflip":
		raw, _ := ref.B58Decode(base)
		i := pos("byte", 24)
		raw[i] ^= 1 << uint(rapid.IntRange(0, 7).Draw(t, "bit"))
		c.S = ref.B58Encode(raw)
	case "random58":
		n := rapid.IntRange(0, 50).Draw(t, "n")
		var sb strings.Builder
		for i := 0; i < n; i++ {
			sb.WriteString(alpha("chr"))
		}
		c.Base = ""
		c.S = sb.String()
	case "ones":
		c.Base = ""
		c.S = strings.Repeat("1", rapid.IntRange(0, 60).Draw(t, "n"))
		if rapid.Bool().Draw(t, "tail") {
			c.S += alpha("chr")
		}
	case "pad":
		w := rapid.SampledFrom([]string{" ", "\n", "\t", "\r\n", "\x00"}).Draw(t, "ws")
		if rapid.Bool().Draw(t, "front") {
			c.S = w + base
		} else {
			c.S = base + w
		}
	case "case":
		if rapid.Bool().Draw(t, "upper") {
			c.S = strings.ToUpper(base)
		} else {
			c.S = strings.ToLower(base)
		}
	case "double":
		c.S = base + base
	case "wrap":
		// a longer numeral that equals the valid 25-byte payload modulo 2^200 (or modulo 2^(8n)
		// for a neighbouring width): what a fixed-width accumulator keeps of it is a valid address
		raw, _ := ref.B58Decode(base)
		k := rapid.SampledFrom([]int{1, 1, 2, 3, 31, 32, 33, 58, 255, 256, 65535}).Draw(t, "k")
		if rapid.IntRange(0, 3).Draw(t, "k_any") == 0 {
			k = rapid.IntRange(1, 1<<20).Draw(t, "k_v")
		}
		var hi []byte
		for x := k; x > 0; x >>= 8 {
			hi = append([]byte{byte(x)}, hi...)
		}
		c.S = ref.B58Encode(append(hi, raw...))
	case "hex":
		// the raw 25 bytes, or the hash, rendered as hex instead of Base58
		raw, _ := ref.B58Decode(base)
		if rapid.Bool().Draw(t, "hash_only") {
			raw = h
		}
		c.S = hex.EncodeToString(raw)
	}
	return c
}

func leadingOnes(s string) int {
	n := 0
	for n < len(s) && s[n] == '1' {
		n++
	}
	return n
}

// enumAddresses is the number of base addresses whose neighbourhood is
// enumerated completely.
func enumAddresses(tier string) int {
	if tier == "thorough" {
		return 20000
	}
	return 600
}

func TestStrings(t *testing.T) {
	pbt.Run(t, pbt.Sub[Str]{
		Name: "strings", Quick: 1000000, Thorough: 8000000,
		EnumDesc: fmt.Sprintf("complete neighbourhood of %d (quick) / %d (thorough) derived addresses (hashes with 0..3 leading zero bytes, both networks): every single-character substitution by the 57 other alphabet characters and by 5 non-alphabet characters, every deletion, every adjacent transposition, every insertion of every alphabet character at every position, all 256 version bytes with recomputed and with kept checksum, payload lengths 0..40, runs of '1', the 40 smallest longer numerals congruent to the payload modulo 2^200", enumAddresses("quick"), enumAddresses("thorough")),
		Enum: func(tier string, yield func(Str)) {
			n := enumAddresses(tier)
			for i := 0; i < n; i++ {
				h := enumHash(5000 + i)
				for z := 0; z < i%4; z++ { // 0..3 leading zero bytes, a quarter each
					h[z] = 0
				}
				neighbourhood(h, (i/4)%2 == 0, yield)
			}
		},
		Gen:   genStr,
		Check: checkStr,
	})
}
