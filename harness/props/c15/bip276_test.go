package c15

// Round 7: the second family of strings ValidateAddress accepts. On HEAD, ValidateAddress
// accepts (a) a well-formed Base58Check P2PKH address (the property) or (b) a text that starts
// with exactly "bitcoin-script:" and that DecodeBIP276 accepts; the other four entry points
// (NewAddressFromString, NewP2PKHFromAddress, PayToAddress, ChangeToAddress) accept (a) only.
// Candidate strings here are valid BIP276 texts and their neighbourhood: prefix altered (suffix
// added before the colon, another prefix, an address as prefix, empty prefix, case changes,
// truncated), separator altered (missing, doubled, other character), network / version bytes
// 00..ff, payload and checksum variants, padding - each WITH the checksum recomputed over the
// altered text and WITHOUT.
//
// Oracle (only the property's clause "accepted as an address only if well-formed ..."):
//   - a text that does NOT start with exactly "bitcoin-script:" is judged like every other
//     candidate string (judge(): accepted by any of the five entry points => the reference
//     Base58Check classifier says valid; valid => accepted by all five; L26 excused exactly as in
//     `strings`). A BIP276 look-alike contains ':' / '-' / '0', is never valid Base58 and must be
//     refused by all five, whatever checksum it carries.
//   - a text that starts with "bitcoin-script:": the four constructors must refuse it; a text the
//     independent BIP276 reference accepts (prefix = text before the first colon, >= 12 hex digits,
//     even count, last 8 = double-SHA-256 of the rest in lower case) must be accepted by
//     ValidateAddress; and ValidateAddress accepts only if the text is such a BIP276 text for
//     SOME colon as separator (the library's pattern lets the prefix itself contain colons).

import (
	"encoding/hex"
	"fmt"
	"strings"
	"testing"

	"pgregory.net/rapid"

	"verif/harness/pbt"
	"verif/harness/ref"
)

const bipPrefix = "bitcoin-script"

func cks276(text string) string { return hex.EncodeToString(ref.Sha256d([]byte(text))[:4]) }

// bip276Verdict: strict = reference decoder accepts with the first colon as separator;
// lenient = some colon works as separator.
func bip276Verdict(s string) (strict, lenient bool) {
	if _, err := ref.DecodeBIP276(s); err == nil {
		strict = true
	}
	for i := 1; i < len(s); i++ {
		if s[i] != ':' {
			continue
		}
		rest := s[i+1:]
		if len(rest) < 12 || len(rest)%2 != 0 {
			continue
		}
		ok := true
		for j := 0; j < len(rest); j++ {
			c := rest[j]
			if !(c >= '0' && c <= '9' || c >= 'a' && c <= 'f' || c >= 'A' && c <= 'F') {
				ok = false
				break
			}
		}
		if ok && cks276(s[:i+1]+strings.ToLower(rest[:len(rest)-8])) == rest[len(rest)-8:] {
			lenient = true
		}
	}
	return strict, lenient
}

// judgeWithBIP276 is the oracle for any candidate string, BIP276 family included.
func judgeWithBIP276(ctx *pbt.Ctx, s string) error {
	info := ref.ClassifyAddress(s)
	if !strings.HasPrefix(s, bipPrefix+":") {
		ctx.Label("family: not bitcoin-script: text, class " + info.Class)
		return judge(ctx, s, info)
	}
	if info.Class == ref.AddrValid {
		return fmt.Errorf("harness: %q is classified as valid Base58Check", s)
	}
	strict, lenient := bip276Verdict(s)
	res := tryAll(s)
	for _, r := range res {
		if r.name == "ValidateAddress" {
			switch {
			case strict && !r.clean:
				return fmt.Errorf("ValidateAddress refuses the well-formed BIP276 text %q: %v", s, r.err)
			case r.accepted && !lenient:
				return fmt.Errorf("ValidateAddress accepts %q, which is neither a Base58Check address nor a well-formed bitcoin-script: text", s)
			}
			continue
		}
		if r.accepted {
			return fmt.Errorf("%s accepts the bitcoin-script: text %q as an address; built script %x, hash %x", r.name, s, r.script, r.hash)
		}
	}
	switch {
	case strict:
		ctx.Label("family: bitcoin-script: text, well-formed")
	case lenient:
		ctx.Label("family: bitcoin-script: text, well-formed only with a later colon as separator (not claimed)")
	default:
		ctx.Label("family: bitcoin-script: text, malformed")
	}
	return nil
}

func checkBIP276(ctx *pbt.Ctx, c Str) error {
	if len(c.Raw) > 0 {
		c.S = string(c.Raw)
	}
	ctx.Label("op=" + c.Op)
	ctx.Key([]byte(c.S))
	if c.S != c.Base {
		ctx.NonTrivial()
	}
	return judgeWithBIP276(ctx, c.S)
}

func hex2(v int) string { return fmt.Sprintf("%02x", v&0xff) }

var bipPrefixVariants = []string{bipPrefix, bipPrefix + "s", bipPrefix + "-template", bipPrefix + "1", bipPrefix + ":", bipPrefix + " ", bipPrefix + "\n", bipPrefix + "\x00",
	"bitcoin-template", "bitcoin", "x", "", "Bitcoin-script", "BITCOIN-SCRIPT", "bitcoin-scrip", "bitcoin_script", " " + bipPrefix, "@ADDR", bipPrefix + " @ADDR", "@ADDR " + bipPrefix}

var bipSepVariants = []string{":", "", "::", ";", " :", ": ", "：", "-"}

// variants276 yields the neighbourhood of the valid text for (net, ver, data); addr is a valid address used as a prefix ingredient.
func variants276(net, ver int, data []byte, addr string, yield func(Str)) {
	body := hex2(net) + hex2(ver) + hex.EncodeToString(data)
	base := bipPrefix + ":" + body
	valid := base + cks276(base)
	keep := cks276(base)
	yield(Str{Base: valid, Op: "bip276:valid", S: valid})
	for _, p := range bipPrefixVariants {
		p = strings.ReplaceAll(p, "@ADDR", addr)
		for _, sep := range bipSepVariants {
			if p == bipPrefix && sep == ":" {
				continue
			}
			t := p + sep + body
			yield(Str{Base: valid, Op: "bip276:prefix/separator altered, checksum recomputed", S: t + cks276(t)})
			yield(Str{Base: valid, Op: "bip276:prefix/separator altered, checksum kept", S: t + keep})
		}
	}
	up := bipPrefix + ":" + strings.ToUpper(body)
	yield(Str{Base: valid, Op: "bip276:upper-case hex, checksum over lower case", S: up + keep})
	yield(Str{Base: valid, Op: "bip276:upper-case hex, checksum over the text", S: up + cks276(up)})
	yield(Str{Base: valid, Op: "bip276:upper-case checksum", S: base + strings.ToUpper(keep)})
	for i := 0; i < len(body); i++ {
		d := body[i]
		r := byte('0')
		if d == '0' {
			r = 'f'
		}
		t := bipPrefix + ":" + body[:i] + string(r) + body[i+1:]
		yield(Str{Base: valid, Op: "bip276:digit substituted, checksum kept", S: t + keep})
		if i < 12 || i%7 == 0 {
			yield(Str{Base: valid, Op: "bip276:digit substituted, checksum recomputed", S: t + cks276(t)})
			yield(Str{Base: valid, Op: "bip276:digit deleted, checksum recomputed", S: bipPrefix + ":" + body[:i] + body[i+1:] + cks276(bipPrefix+":"+body[:i]+body[i+1:])})
			t2 := bipPrefix + ":" + body[:i] + "g" + body[i:]
			yield(Str{Base: valid, Op: "bip276:non-hex inserted, checksum recomputed", S: t2 + cks276(t2)})
		}
	}
	for i := 0; i < 8; i++ {
		r := byte('0')
		if keep[i] == '0' {
			r = '1'
		}
		yield(Str{Base: valid, Op: "bip276:checksum digit changed", S: base + keep[:i] + string(r) + keep[i+1:]})
		yield(Str{Base: valid, Op: "bip276:truncated", S: valid[:len(valid)-1-i]})
	}
	for _, pad := range []string{" ", "\n", "\t", "\x00"} {
		yield(Str{Base: valid, Op: "bip276:padded", S: pad + valid})
		yield(Str{Base: valid, Op: "bip276:padded", S: valid + pad})
	}
	yield(Str{Base: valid, Op: "bip276:extended", S: valid + "00"})
	yield(Str{Base: valid, Op: "bip276:twice", S: valid + valid})
	yield(Str{Base: valid, Op: "bip276:address then text", S: addr + valid})
	yield(Str{Base: valid, Op: "bip276:text then address", S: valid + addr})
	yield(Str{Base: addr, Op: "bip276:address alone", S: addr})
	for _, short := range []string{"", "01", "0101", "010100", "0101000000", "01010000000000"} {
		t := bipPrefix + ":" + short
		yield(Str{Base: valid, Op: "bip276:short body", S: t})
		yield(Str{Base: valid, Op: "bip276:short body", S: t + cks276(t)})
	}
}

func TestBIP276Family(t *testing.T) {
	pbt.Run(t, pbt.Sub[Str]{
		Name: "bip276", Quick: 60000, Thorough: 1000000,
		Gen: func(t *rapid.T) Str {
			h := genHash(t)
			addr := baseAddr(h, rapid.Bool().Draw(t, "mainnet"))
			var data []byte
			switch rapid.IntRange(0, 3).Draw(t, "data") {
			case 0:
				data = ref.P2PKHScript(h)
			case 1:
				data = nil
			default:
				data = rapid.SliceOfN(rapid.Byte(), 0, 40).Draw(t, "bytes")
			}
			net, ver := rapid.SampledFrom([]int{1, 2, 0, 0xff, 0x6f}).Draw(t, "net"), rapid.SampledFrom([]int{1, 0, 2, 0xff}).Draw(t, "ver")
			if rapid.IntRange(0, 3).Draw(t, "any_nv") == 0 {
				net, ver = rapid.IntRange(0, 255).Draw(t, "net"), rapid.IntRange(0, 255).Draw(t, "ver")
			}
			var all []Str
			variants276(net, ver, data, addr, func(s Str) { all = append(all, s) })
			c := all[rapid.IntRange(0, len(all)-1).Draw(t, "variant")]
			if rapid.IntRange(0, 5).Draw(t, "free_prefix") == 0 {
				// an arbitrary prefix in front of the colon, checksum recomputed or kept
				p := bipPrefix
				if rapid.Bool().Draw(t, "own") {
					p = ""
				}
				p += rapid.StringOfN(rapid.RuneFrom([]rune("abcs-: 1:0\n")), 0, 6, -1).Draw(t, "suffix")
				body := hex2(net) + hex2(ver) + hex.EncodeToString(data)
				t2 := p + ":" + body
				c = Str{Base: c.Base, Op: "bip276:free prefix, checksum recomputed", S: t2 + cks276(t2)}
				if rapid.IntRange(0, 3).Draw(t, "keep") == 0 {
					c = Str{Base: c.Base, Op: "bip276:free prefix, checksum kept", S: t2 + cks276(bipPrefix+":"+body)}
				}
			}
			return c
		},
		Check:    checkBIP276,
		EnumDesc: "for 20 (quick) / 200 (thorough) payees x data {P2PKH script, empty, 1 byte, 100 bytes} x (network, version) in {(1,1), (2,1)}: the valid BIP276 text and its neighbourhood - 20 prefixes x 8 separators with recomputed and with kept checksum, upper-case variants, every body digit substituted / some deleted / non-hex inserted, checksum digits changed, truncations, padding, extension, concatenations with an address, short bodies; and all 256 x 256 / 16 network-version pairs on one payee",
		Enum: func(tier string, yield func(Str)) {
			n := 20
			if tier == "thorough" {
				n = 200
			}
			for i := 0; i < n; i++ {
				h := enumHash(9000 + i)
				addr := baseAddr(h, i%2 == 0)
				for _, data := range [][]byte{ref.P2PKHScript(h), nil, {byte(i)}, append(ref.P2PKHScript(h), make([]byte, 75)...)} {
					for _, nv := range [][2]int{{1, 1}, {2, 1}} {
						variants276(nv[0], nv[1], data, addr, yield)
					}
				}
			}
			h := enumHash(8999)
			for net := 0; net < 256; net++ {
				for ver := net % 16; ver < 256; ver += 16 {
					body := hex2(net) + hex2(ver) + hex.EncodeToString(ref.P2PKHScript(h))
					for _, p := range []string{bipPrefix, bipPrefix + "s"} {
						t := p + ":" + body
						yield(Str{Op: "bip276:network/version sweep", S: t + cks276(t)})
					}
				}
			}
		},
	})
}
