package c18

import (
	"encoding/json"
	"errors"
	"fmt"
	"runtime"
	"sync"
	"sync/atomic"
	"testing"

	"github.com/libsv/go-bt/v2"
	"pgregory.net/rapid"

	"verif/harness/pbt"
)

// ---------------------------------------------------------------------------
// sub-check: duels. Two (or three) goroutines are released by a spin barrier
// and each performs ONE call on a fresh shared object; this is repeated for
// hundreds to thousands of rounds so that the calls really overlap. After the
// join the object is quiescent, and then every way of reading one location
// must tell the same story, and that story must be one of the values written:
// Expiry() is one of the stored times and Expired() is what that time implies;
// Fee(t) is one of the stored fees and the marshalled document says the same;
// after two UnmarshalJSON calls both fee types come from documents that were
// stored (a mix is allowed only if each type's value was stored for that type).
// ---------------------------------------------------------------------------

// Duel is one kind of pairing, the number of rounds and the scheduler width.
type Duel struct {
	Kind   string `json:"kind"`
	Rounds int    `json:"rounds"`
	Procs  int    `json:"procs"`
	Third  bool   `json:"third"` // a third goroutine reads while the two write
}

var duelKinds = []string{"expiry-expiry", "expiry-expired", "addquote-addquote", "addquote-marshal", "unmarshal-unmarshal", "unmarshal-fee", "updateminer-updateminer", "addminer-updateminer",
	// ninth round: a look-up that fails (a poller asks lookupBurst times in a row for a miner nobody added, a
	// miner registered with a nil quote, a fee type nobody stored) against ONE container-level / quote-level writer
	"feemissing-addminer", "feemissing-updateminer", "feenilminer-adddefault", "feeunknowntype-updateminer", "feeunknowntype-addminer", "quotemissing-addminer", "quotefeeunknown-addquote"}

const lookupBurst = 8

func checkDuel(ctx *pbt.Ctx, c Duel) error {
	if skipAbandoned(ctx) {
		return nil
	}
	var bt8 beat
	if c.Rounds < 1 || c.Rounds > 20000 || c.Procs < 1 || c.Procs > 64 {
		ctx.Discard("malformed case")
		return nil
	}
	ok := false
	for _, k := range duelKinds {
		ok = ok || k == c.Kind
	}
	if !ok {
		ctx.Discard("unknown duel")
		return nil
	}
	old := runtime.GOMAXPROCS(c.Procs)
	defer runtime.GOMAXPROCS(old)
	past, future := timeOf(1, false), timeOf(2, true)
	for round := 0; round < c.Rounds; round++ {
		q := bt.NewFeeQuote()
		qs := bt.NewFeeQuotes("m0")
		var ready, gate int32
		parties := 2
		if c.Third {
			parties = 3
		}
		run := func(f func()) func() {
			return func() {
				atomic.AddInt32(&ready, 1)
				for atomic.LoadInt32(&gate) == 0 {
					runtime.Gosched()
				}
				f()
				bt8.tick()
			}
		}
		var a, b, r func()
		var errMu sync.Mutex
		var readErr error
		fail := func(format string, args ...any) {
			errMu.Lock()
			if readErr == nil {
				readErr = fmt.Errorf(format, args...)
			}
			errMu.Unlock()
		}
		idA, idB := wid(1, round%maxOps), wid(2, round%maxOps)
		switch c.Kind {
		case "expiry-expiry":
			a, b = func() { q.UpdateExpiry(past) }, func() { q.UpdateExpiry(future) }
			r = func() { _ = q.Expired(); _ = q.Expiry() }
		case "expiry-expired":
			a, b = func() { q.UpdateExpiry(past) }, func() { _ = q.Expired() }
			r = func() { q.UpdateExpiry(future) }
		case "addquote-addquote":
			a, b = func() { q.AddQuote(bt.FeeTypeStandard, feeObj(idA, 0)) }, func() { q.AddQuote(bt.FeeTypeStandard, feeObj(idB, 0)) }
			r = func() { _, _ = q.Fee(bt.FeeTypeStandard) }
		case "addquote-marshal":
			a, b = func() { q.AddQuote(bt.FeeTypeData, feeObj(idA, 1)) }, func() {
				if _, err := json.Marshal(q); err != nil {
					fail("MarshalJSON failed during AddQuote: %v", err)
				}
			}
			r = func() { q.AddQuote(bt.FeeTypeStandard, feeObj(idB, 0)) }
		case "unmarshal-unmarshal", "unmarshal-fee":
			a = func() {
				if err := json.Unmarshal([]byte(docText(docBoth, idA)), q); err != nil {
					fail("UnmarshalJSON of a valid document failed: %v", err)
				}
			}
			b = func() {
				if err := json.Unmarshal([]byte(docText(docBoth, idB)), q); err != nil {
					fail("UnmarshalJSON of a valid document failed: %v", err)
				}
			}
			if c.Kind == "unmarshal-fee" {
				b = func() {
					for _, ft := range []bt.FeeType{bt.FeeTypeStandard, bt.FeeTypeData} {
						if _, err := q.Fee(ft); err != nil {
							fail("Fee(%s) failed while a complete document was being stored over complete defaults: %v", ft, err)
						}
					}
				}
			}
			r = func() { _, _ = json.Marshal(q) }
		case "updateminer-updateminer":
			a = func() { _, _ = qs.UpdateMinerFees("m0", bt.FeeTypeStandard, feeObj(idA, 0)) }
			b = func() { _, _ = qs.UpdateMinerFees("m0", bt.FeeTypeStandard, feeObj(idB, 0)) }
			r = func() { _, _ = qs.Fee("m0", bt.FeeTypeStandard) }
		case "addminer-updateminer":
			a = func() { qs.AddMiner("m1", bt.NewFeeQuote()) }
			b = func() { _, _ = qs.UpdateMinerFees("m0", bt.FeeTypeData, feeObj(idB, 1)) }
			r = func() { _, _ = qs.Quote("m1") }
		case "feemissing-addminer", "feemissing-updateminer", "feenilminer-adddefault", "feeunknowntype-updateminer", "feeunknowntype-addminer", "quotemissing-addminer":
			// the look-up has one documented answer, whatever the writers do meanwhile
			name, ft, want := "nobody", bt.FeeTypeStandard, bt.ErrMinerNoQuotes
			switch c.Kind {
			case "feenilminer-adddefault":
				name = "mn"
				qs.AddMiner("mn", nil)
			case "feeunknowntype-updateminer", "feeunknowntype-addminer":
				name, ft, want = "m0", otherType, bt.ErrFeeTypeNotFound
			}
			a = func() {
				for k := 0; k < lookupBurst; k++ {
					if c.Kind == "quotemissing-addminer" {
						if fq, err := qs.Quote(name); fq != nil || !errors.Is(err, want) {
							fail("Quote(%s) for a miner nobody adds returned (%v, %v), documented: %v", name, fq, err, want)
						}
						continue
					}
					if f, err := qs.Fee(name, ft); f != nil || !errors.Is(err, want) {
						fail("Fee(%s, %s) returned (%v, %v), documented: nil and %v", name, ft, f, err, want)
					}
				}
			}
			upd := func() {
				if _, err := qs.UpdateMinerFees("m0", bt.FeeTypeData, feeObj(idB, 1)); err != nil {
					fail("UpdateMinerFees(m0) failed: %v", err)
				}
			}
			switch c.Kind {
			case "feemissing-addminer", "feeunknowntype-addminer", "quotemissing-addminer":
				b, r = func() { qs.AddMiner("m1", bt.NewFeeQuote()) }, upd
			case "feemissing-updateminer", "feeunknowntype-updateminer":
				b, r = upd, func() { qs.AddMinerWithDefault("m1") }
			default:
				b, r = func() { qs.AddMinerWithDefault("m1") }, upd
			}
		case "quotefeeunknown-addquote":
			a = func() {
				for k := 0; k < lookupBurst; k++ {
					if f, err := q.Fee(otherType); f != nil || !errors.Is(err, bt.ErrFeeTypeNotFound) {
						fail("quote.Fee(%s) returned (%v, %v), documented: nil and ErrFeeTypeNotFound", otherType, f, err)
					}
				}
			}
			b = func() { q.AddQuote(bt.FeeTypeStandard, feeObj(idB, 0)) }
			r = func() { q.UpdateExpiry(future) }
		}
		var wg sync.WaitGroup
		fs := []func(){a, b}
		if c.Third {
			fs = append(fs, r)
		}
		for _, f := range fs {
			wg.Add(1)
			go func(f func()) { defer wg.Done(); run(f)() }(f)
		}
		for atomic.LoadInt32(&ready) < int32(parties) {
			runtime.Gosched()
		}
		atomic.StoreInt32(&gate, 1)
		done := make(chan struct{})
		go func() { wg.Wait(); close(done) }()
		if err := bounded(done, &bt8, fmt.Sprintf("duel %s, round %d", c.Kind, round)); err != nil {
			return err
		}
		if readErr != nil {
			return fmt.Errorf("duel %s, round %d: %v", c.Kind, round, readErr)
		}
		// ---- quiescent: every reader of a location agrees, and with a stored value ----
		switch c.Kind {
		case "expiry-expiry", "expiry-expired":
			e := q.Expiry()
			_, fut, okT := decodeTime(e)
			if !okT {
				return fmt.Errorf("duel %s, round %d: Expiry() = %v after the UpdateExpiry calls returned; not a stored time", c.Kind, round, e)
			}
			if okT {
				if q.Expired() == fut {
					return fmt.Errorf("duel %s, round %d: after both calls returned Expiry() = %v (%s) but Expired() = %v: the two readers of the expiry disagree", c.Kind, round, e, map[bool]string{true: "future", false: "past"}[fut], q.Expired())
				}
			}
			if c.Kind == "expiry-expired" && !c.Third {
				if id, _, okx := decodeTime(e); !okx || id != 1 {
					return fmt.Errorf("duel %s, round %d: the only writer stored the past time, Expiry() = %v", c.Kind, round, e)
				}
			}
		case "addquote-addquote", "addquote-marshal":
			ft, t := bt.FeeTypeStandard, 0
			if c.Kind == "addquote-marshal" {
				ft, t = bt.FeeTypeData, 1
			}
			f, err := q.Fee(ft)
			if err != nil {
				return fmt.Errorf("duel %s, round %d: Fee(%s) fails after the writers returned: %v", c.Kind, round, ft, err)
			}
			id, tt, okF := decodeFee(valOf(f))
			if !okF || tt != t || (id != idA && !(c.Kind == "addquote-addquote" && id == idB)) {
				return fmt.Errorf("duel %s, round %d: Fee(%s) = %+v is none of the values written", c.Kind, round, ft, valOf(f))
			}
			js, err := json.Marshal(q)
			if err != nil {
				return fmt.Errorf("duel %s, round %d: MarshalJSON fails at rest: %v", c.Kind, round, err)
			}
			var back map[string]*bt.Fee
			if err := json.Unmarshal(js, &back); err != nil || back[string(ft)] == nil || valOf(back[string(ft)]) != valOf(f) {
				return fmt.Errorf("duel %s, round %d: at rest Fee(%s) = %+v but the marshalled quote says %s", c.Kind, round, ft, valOf(f), js)
			}
		case "unmarshal-unmarshal", "unmarshal-fee":
			for t, ft := range []bt.FeeType{bt.FeeTypeStandard, bt.FeeTypeData} {
				f, err := q.Fee(ft)
				if err != nil {
					return fmt.Errorf("duel %s, round %d: Fee(%s) fails after complete documents were stored: %v", c.Kind, round, ft, err)
				}
				id, tt, okF := decodeFee(valOf(f))
				if !okF || tt != t || (id != idA && !(c.Kind == "unmarshal-unmarshal" && id == idB)) {
					return fmt.Errorf("duel %s, round %d: Fee(%s) = %+v was stored by no document for that type", c.Kind, round, ft, valOf(f))
				}
			}
		case "updateminer-updateminer":
			f, err := qs.Fee("m0", bt.FeeTypeStandard)
			if err != nil {
				return fmt.Errorf("duel %s, round %d: Fee fails at rest: %v", c.Kind, round, err)
			}
			if id, tt, okF := decodeFee(valOf(f)); !okF || tt != 0 || (id != idA && id != idB) {
				return fmt.Errorf("duel %s, round %d: Fee(m0, standard) = %+v is none of the values written", c.Kind, round, valOf(f))
			}
		case "addminer-updateminer":
			if _, err := qs.Quote("m1"); err != nil {
				return fmt.Errorf("duel %s, round %d: the miner added is missing at rest: %v", c.Kind, round, err)
			}
			f, err := qs.Fee("m0", bt.FeeTypeData)
			if err != nil {
				return fmt.Errorf("duel %s, round %d: Fee fails at rest: %v", c.Kind, round, err)
			}
			if id, tt, okF := decodeFee(valOf(f)); !okF || tt != 1 || id != idB {
				return fmt.Errorf("duel %s, round %d: Fee(m0, data) = %+v, the value written is lost", c.Kind, round, valOf(f))
			}
		case "feemissing-addminer", "feemissing-updateminer", "feenilminer-adddefault", "feeunknowntype-updateminer", "feeunknowntype-addminer", "quotemissing-addminer":
			// at rest: the writes are there, and the look-up still has its one answer
			if fq, err := qs.Quote("m1"); (err != nil || fq == nil) && (c.Third || (c.Kind != "feemissing-updateminer" && c.Kind != "feeunknowntype-updateminer")) {
				return fmt.Errorf("duel %s, round %d: the miner added is missing at rest: %v", c.Kind, round, err)
			}
			if c.Third || c.Kind == "feemissing-updateminer" || c.Kind == "feeunknowntype-updateminer" {
				f, err := qs.Fee("m0", bt.FeeTypeData)
				if err != nil {
					return fmt.Errorf("duel %s, round %d: Fee fails at rest: %v", c.Kind, round, err)
				}
				if id, tt, okF := decodeFee(valOf(f)); !okF || tt != 1 || id != idB {
					return fmt.Errorf("duel %s, round %d: Fee(m0, data) = %+v, the value written is lost", c.Kind, round, valOf(f))
				}
			}
			if f, err := qs.Fee("nobody", bt.FeeTypeStandard); f != nil || !errors.Is(err, bt.ErrMinerNoQuotes) {
				return fmt.Errorf("duel %s, round %d: at rest Fee(nobody) = (%v, %v)", c.Kind, round, f, err)
			}
		case "quotefeeunknown-addquote":
			f, err := q.Fee(bt.FeeTypeStandard)
			if err != nil {
				return fmt.Errorf("duel %s, round %d: Fee(standard) fails at rest: %v", c.Kind, round, err)
			}
			if id, tt, okF := decodeFee(valOf(f)); !okF || tt != 0 || id != idB {
				return fmt.Errorf("duel %s, round %d: Fee(standard) = %+v, the value written is lost", c.Kind, round, valOf(f))
			}
		}
	}
	ctx.Label("duel=" + c.Kind)
	ctx.Labelf("procs=%d", c.Procs)
	ctx.NonTrivial()
	return nil
}

func TestDuels(t *testing.T) {
	pbt.Run(t, pbt.Sub[Duel]{
		Name: "duels", Quick: 192, Thorough: 3000,
		Gen: func(t *rapid.T) Duel {
			return Duel{Kind: rapid.SampledFrom(duelKinds).Draw(t, "kind"), Rounds: rapid.SampledFrom([]int{300, 1000, 3000}).Draw(t, "rounds"),
				Procs: rapid.SampledFrom([]int{2, 4, 16}).Draw(t, "procs"), Third: rapid.Bool().Draw(t, "third")}
		},
		Check: checkDuel, Precommit: true,
	})
}

// ---------------------------------------------------------------------------
// sub-check: errorpaths. Calls that are refused (empty miner name, empty fee
// type, nil fee, unknown miner, unknown fee type, malformed JSON) are part of
// what many goroutines do to a shared container. A refused call must leave the
// object usable: the calls that follow - readers and writers, from the same
// and from other goroutines - must still return.
// ---------------------------------------------------------------------------

// EPCase is a sequence of calls.
type EPCase struct {
	Ops   []int `json:"ops"`
	Split int   `json:"split"` // the calls from this index on run on a second goroutine after the first part
	// Loops > 0 (ninth round): the two parts run AT THE SAME TIME, each repeated Loops times - the
	// refused look-ups of one goroutine overlap the container-level writers of the other
	Loops int `json:"loops,omitempty"`
}

var epNames = []string{"UpdateMinerFees(\"\",std,fee)", "UpdateMinerFees(m0,\"\",fee)", "UpdateMinerFees(m0,std,nil)", "UpdateMinerFees(unknown,std,fee)", "Fee(unknown,std)", "Fee(m0,unknown type)", "Quote(unknown)",
	"quote.UnmarshalJSON(malformed)", "quote.Fee(unknown type)", "AddMiner(m1,quote)", "AddMinerWithDefault(m2)", "UpdateMinerFees(m0,std,fee)", "Fee(m0,std)", "Quote(m0)", "quote.AddQuote", "quote.UpdateExpiry", "quote.Expired", "json.Marshal(quote)",
	"AddMiner(m3,nil)", "Fee(m3,std) [never added or added with a nil quote]", "UpdateMinerFees(m3,std,fee)", "Fee(m3,unknown type)"}

// epRefused: the call is refused whatever else happened before or happens meanwhile.
func epRefused(k int) bool {
	k %= len(epNames)
	return k <= 8 || k >= 19
}

func checkEP(ctx *pbt.Ctx, c EPCase) error {
	if skipAbandoned(ctx) {
		return nil
	}
	if len(c.Ops) == 0 || len(c.Ops) > 64 || c.Loops < 0 || c.Loops > 5000 {
		ctx.Discard("malformed case")
		return nil
	}
	qs := bt.NewFeeQuotes("m0")
	q, _ := qs.Quote("m0")
	// a look-up that must fail has one documented answer - no value and the error named in the
	// documentation of Fee / Quote - whatever the other goroutine does meanwhile
	want := func(what string, f any, isNil bool, err, target error) error {
		if !isNil || !errors.Is(err, target) {
			return fmt.Errorf("%s returned (%v, %v), documented: nil and %v", what, f, err, target)
		}
		return nil
	}
	do := func(k int) error {
		k %= len(epNames)
		switch k {
		case 0:
			_, _ = qs.UpdateMinerFees("", bt.FeeTypeStandard, feeObj(1, 0))
		case 1:
			_, _ = qs.UpdateMinerFees("m0", "", feeObj(1, 0))
		case 2:
			_, _ = qs.UpdateMinerFees("m0", bt.FeeTypeStandard, nil)
		case 3:
			_, _ = qs.UpdateMinerFees("nobody", bt.FeeTypeStandard, feeObj(1, 0))
		case 4:
			f, err := qs.Fee("nobody", bt.FeeTypeStandard)
			return want(epNames[k], f, f == nil, err, bt.ErrMinerNoQuotes)
		case 5:
			f, err := qs.Fee("m0", otherType)
			return want(epNames[k], f, f == nil, err, bt.ErrFeeTypeNotFound)
		case 6:
			fq, err := qs.Quote("nobody")
			return want(epNames[k], fq, fq == nil, err, bt.ErrMinerNoQuotes)
		case 7:
			_ = json.Unmarshal([]byte(`{"standard":`), q)
			_ = q.UnmarshalJSON([]byte(`{"standard": 5}`))
		case 8:
			f, err := q.Fee(otherType)
			return want(epNames[k], f, f == nil, err, bt.ErrFeeTypeNotFound)
		case 9:
			qs.AddMiner("m1", bt.NewFeeQuote())
		case 10:
			qs.AddMinerWithDefault("m2")
		case 11:
			_, _ = qs.UpdateMinerFees("m0", bt.FeeTypeStandard, feeObj(2, 0))
		case 12:
			_, _ = qs.Fee("m0", bt.FeeTypeStandard)
		case 13:
			_, _ = qs.Quote("m0")
		case 14:
			q.AddQuote(bt.FeeTypeData, feeObj(3, 1))
		case 15:
			q.UpdateExpiry(timeOf(4, true))
		case 16:
			_ = q.Expired()
		case 17:
			_, _ = json.Marshal(q)
		case 18:
			qs.AddMiner("m3", nil)
		case 19, 21:
			// m3 is either unknown or registered without a quote: no fees either way
			ft := bt.FeeTypeStandard
			if k == 21 {
				ft = otherType
			}
			f, err := qs.Fee("m3", ft)
			return want(epNames[k], f, f == nil, err, bt.ErrMinerNoQuotes)
		default:
			_, _ = qs.UpdateMinerFees("m3", bt.FeeTypeStandard, feeObj(5, 0))
		}
		return nil
	}
	split := c.Split
	if split < 0 || split > len(c.Ops) {
		split = len(c.Ops)
	}
	var bt8 beat
	var at [2]atomic.Int32
	at[0].Store(-1)
	at[1].Store(-1)
	var errMu sync.Mutex
	var first error
	part := func(who, from, to, loops int) {
		for l := 0; l < loops; l++ {
			for i := from; i < to; i++ {
				at[who].Store(int32(i))
				if err := do(c.Ops[i]); err != nil {
					errMu.Lock()
					if first == nil {
						first = fmt.Errorf("call %d (loop %d): %v", i, l, err)
					}
					errMu.Unlock()
				}
				bt8.tick()
			}
		}
	}
	done := make(chan struct{})
	if c.Loops == 0 {
		go func() {
			defer close(done)
			part(0, 0, split, 1)
			second := make(chan struct{})
			go func() {
				defer close(second)
				part(1, split, len(c.Ops), 1)
			}()
			<-second
		}()
	} else {
		var wg sync.WaitGroup
		start := make(chan struct{})
		wg.Add(2)
		go func() { defer wg.Done(); <-start; part(0, 0, split, c.Loops) }()
		go func() { defer wg.Done(); <-start; part(1, split, len(c.Ops), c.Loops) }()
		close(start)
		go func() { wg.Wait(); close(done) }()
	}
	if err := bounded(done, &bt8, "errorpaths"); err != nil {
		var in []string
		for who := range at {
			if i := int(at[who].Load()); i >= 0 && i < len(c.Ops) {
				in = append(in, fmt.Sprintf("goroutine %d in call %d (%s)", who, i, epNames[c.Ops[i]%len(epNames)]))
			}
		}
		var hist []string
		for _, k := range c.Ops {
			hist = append(hist, epNames[k%len(epNames)])
		}
		return fmt.Errorf("%v; %v; the calls: %v, second goroutine from call %d, loops %d", err, in, hist, split, c.Loops)
	}
	if first != nil {
		return first
	}
	if _, err := qs.Quote("m0"); err != nil {
		return errors.New("the initial miner's quote is gone after the sequence: " + err.Error())
	}
	ctx.Labelf("calls=%d", min(len(c.Ops), 16))
	refused, lookups, cwriters := 0, [2]bool{}, [2]bool{}
	for i, k := range c.Ops {
		who := 0
		if i >= split {
			who = 1
		}
		if epRefused(k) {
			refused++
		}
		switch k % len(epNames) {
		case 4, 5, 6, 19, 21:
			lookups[who] = true
		case 9, 10, 11, 18:
			cwriters[who] = true
		}
	}
	if c.Loops > 0 {
		ctx.Label("concurrent")
		if (lookups[0] && cwriters[1]) || (lookups[1] && cwriters[0]) {
			ctx.Label("concurrent: failing look-up next to a container-level writer")
		}
	}
	if refused > 0 && refused < len(c.Ops) {
		ctx.NonTrivial()
	}
	return nil
}

func TestErrorPaths(t *testing.T) {
	pbt.Run(t, pbt.Sub[EPCase]{
		Name: "errorpaths", Quick: 6000, Thorough: 120000,
		Gen: func(t *rapid.T) EPCase {
			n := rapid.IntRange(2, 12).Draw(t, "calls")
			c := EPCase{}
			for i := 0; i < n; i++ {
				c.Ops = append(c.Ops, rapid.IntRange(0, len(epNames)-1).Draw(t, "op"))
			}
			c.Split = rapid.IntRange(0, n).Draw(t, "split")
			c.Loops = rapid.SampledFrom([]int{0, 0, 0, 20, 60, 150}).Draw(t, "loops")
			return c
		},
		Check: checkEP, Precommit: true,
	})
}
