package c18

import (
	"encoding/binary"
	"fmt"
	"runtime"
	"sync"
	"sync/atomic"
	"testing"

	"github.com/libsv/go-bt/v2/bscript"
	"github.com/libsv/go-bt/v2/bscript/interpreter"
	"pgregory.net/rapid"

	"verif/harness/interp"
	"verif/harness/pbt"
)

// ---------------------------------------------------------------------------
// sub-check: firstuse. The engine sub-check obtains its expected verdicts from
// a sequential phase that runs first, so by the time the goroutines start the
// process has already seen every script once. Here nothing runs before the
// goroutines do: every round builds script content this process has never
// executed (a per-round salt is part of the bytes), the expected verdicts are
// known by construction (and confirmed by the reference interpreter, never by
// the library), and 2..16 goroutines released by a spin barrier validate
// spends that share that content - each from its own byte slices - on one
// engine. Scripts are 16 bytes to 16 KiB, in the locking or in the unlocking
// position. After the join the same spends are validated once more
// sequentially and must give the same verdicts.
// ---------------------------------------------------------------------------

// FUCase is one campaign of rounds.
type FUCase struct {
	Salt       uint64 `json:"salt"`
	Rounds     int    `json:"rounds"`
	Procs      int    `json:"procs"`
	Goroutines int    `json:"goroutines"`
	Size       int    `json:"size"`  // bytes of filler in the shared script
	Shape      int    `json:"shape"` // 0 NOP run, 1 one large push dropped, 2 many small pushes dropped, 3 large content in the unlocking script
	PerG       int    `json:"per_g"` // spends per goroutine and round
}

// fuScripts returns the shared scripts for a round and goroutine-private unlock prefixes:
// the spend with small number k is valid iff k == 5.
func fuScripts(c FUCase, round int) (lock []byte, unlockPrefix []byte) {
	var salt [12]byte
	binary.LittleEndian.PutUint64(salt[:8], c.Salt)
	binary.LittleEndian.PutUint32(salt[8:], uint32(round))
	pushSalt := append([]byte{12}, salt[:]...)
	big := func(n int) []byte { // one push of n bytes that starts with the salt
		d := make([]byte, n)
		for i := range d {
			d[i] = byte(i*7 + round)
		}
		copy(d, salt[:])
		switch {
		case n <= 75:
			return append([]byte{byte(n)}, d...)
		case n <= 255:
			return append([]byte{0x4c, byte(n)}, d...)
		case n <= 65535:
			return append([]byte{0x4d, byte(n), byte(n >> 8)}, d...)
		}
		return append([]byte{0x4e, byte(n), byte(n >> 8), byte(n >> 16), byte(n >> 24)}, d...)
	}
	switch c.Shape {
	case 0:
		lock = append(lock, pushSalt...)
		lock = append(lock, 0x75)
		lock = append(lock, bytesRepeat(0x61, c.Size)...)
		lock = append(lock, 0x55, 0x87)
	case 1:
		n := c.Size
		if n < 12 {
			n = 12
		}
		lock = append(lock, big(n)...)
		lock = append(lock, 0x75, 0x55, 0x87)
	case 2:
		lock = append(lock, pushSalt...)
		lock = append(lock, 0x75)
		for len(lock) < c.Size {
			lock = append(lock, 0x04, byte(len(lock)), byte(len(lock)>>8), byte(round), 0x01, 0x75)
		}
		lock = append(lock, 0x55, 0x87)
	default:
		n := c.Size
		if n < 12 {
			n = 12
		}
		unlockPrefix = big(n)
		// stack: big k -> k == 5, then the big item is removed
		lock = []byte{0x55, 0x87, 0x77}
	}
	return lock, unlockPrefix
}

func checkFirstUse(ctx *pbt.Ctx, c FUCase) error {
	if skipAbandoned(ctx) {
		return nil
	}
	var bt8 beat
	if c.Rounds < 1 || c.Rounds > 2000 || c.Procs < 1 || c.Procs > 64 || c.Goroutines < 2 || c.Goroutines > 32 ||
		c.Size < 0 || c.Size > 1<<16 || c.Shape < 0 || c.Shape > 3 || c.PerG < 1 || c.PerG > 8 {
		ctx.Discard("malformed case")
		return nil
	}
	old := runtime.GOMAXPROCS(c.Procs)
	defer runtime.GOMAXPROCS(old)
	eng := interpreter.NewEngine()
	for round := 0; round < c.Rounds; round++ {
		lock, pre := fuScripts(c, round)
		// the verdicts by construction, confirmed by the reference (first round only: the shape is the same in all)
		ks := make([][]int, c.Goroutines)
		for g := range ks {
			for j := 0; j < c.PerG; j++ {
				k := 5
				if (g+j+round+int(c.Salt))%3 == 0 {
					k = 1 + (g*5+j*3+round)%16
				}
				ks[g] = append(ks[g], k)
			}
		}
		if round == 0 {
			for _, k := range []int{5, 6} {
				un := append(append([]byte{}, pre...), smallInt(k))
				r := interp.VerifyScript(un, lock, interp.FlagAfterGenesis|interp.FlagForkID, interp.TxChecker{}, false, interp.DefaultLimits)
				if r.BudgetHit || r.OK != (k == 5) {
					return fmt.Errorf("harness: reference verdict for k=%d is ok=%v (%s), expected %v by construction (lock %d bytes, shape %d)", k, r.OK, r.Err, k == 5, len(lock), c.Shape)
				}
			}
		}
		type res struct {
			err string
		}
		got := make([][]res, c.Goroutines)
		var ready, gate int32
		var wg sync.WaitGroup
		for g := 0; g < c.Goroutines; g++ {
			got[g] = make([]res, c.PerG)
			// every goroutine owns its bytes; only the content is shared
			myLock := append([]byte{}, lock...)
			myPre := append([]byte{}, pre...)
			wg.Add(1)
			go func(g int) {
				defer wg.Done()
				atomic.AddInt32(&ready, 1)
				for atomic.LoadInt32(&gate) == 0 {
					runtime.Gosched()
				}
				for j, k := range ks[g] {
					func() {
						defer func() {
							if x := recover(); x != nil {
								got[g][j].err = fmt.Sprintf("panic: %v", x)
							}
						}()
						un := append(append([]byte{}, myPre...), smallInt(k))
						err := eng.Execute(interpreter.WithScripts(bscript.NewFromBytes(append([]byte{}, myLock...)), bscript.NewFromBytes(un)),
							interpreter.WithForkID(), interpreter.WithAfterGenesis())
						if err != nil {
							got[g][j].err = err.Error()
						}
					}()
					bt8.tick()
				}
			}(g)
		}
		for atomic.LoadInt32(&ready) < int32(c.Goroutines) {
			runtime.Gosched()
		}
		atomic.StoreInt32(&gate, 1)
		done := make(chan struct{})
		go func() { wg.Wait(); close(done) }()
		if err := bounded(done, &bt8, fmt.Sprintf("round %d: %d goroutines validating on one engine", round, c.Goroutines)); err != nil {
			return err
		}
		for g := range got {
			for j, k := range ks[g] {
				if ok := got[g][j].err == ""; ok != (k == 5) {
					return fmt.Errorf("round %d, goroutine %d of %d (GOMAXPROCS %d), spend %d: unlock ...OP_%d against a %d-byte locking script (shape %d, unlock prefix %d bytes) that accepts exactly OP_5, first executed by these goroutines at once: library err=%q",
						round, g, c.Goroutines, c.Procs, j, k, len(lock), c.Shape, len(pre), got[g][j].err)
				}
				// once more at rest
				un := append(append([]byte{}, pre...), smallInt(k))
				err := eng.Execute(interpreter.WithScripts(bscript.NewFromBytes(append([]byte{}, lock...)), bscript.NewFromBytes(un)),
					interpreter.WithForkID(), interpreter.WithAfterGenesis())
				if (err == nil) != (k == 5) {
					return fmt.Errorf("round %d: sequential validation after the concurrent phase: unlock ...OP_%d against the %d-byte locking script (shape %d): err=%v", round, k, len(lock), c.Shape, err)
				}
			}
		}
	}
	ctx.Labelf("shape=%d", c.Shape)
	ctx.Labelf("size=%s", bucket(c.Size, 64, 520, 1024, 4096, 16384))
	ctx.Labelf("procs=%d", c.Procs)
	ctx.Labelf("goroutines=%s", bucket(c.Goroutines, 2, 4, 8, 16))
	if c.Procs >= 2 {
		ctx.NonTrivial()
	}
	return nil
}

func TestFirstUse(t *testing.T) {
	pbt.Run(t, pbt.Sub[FUCase]{
		Name: "firstuse", Quick: 64, Thorough: 2400,
		Gen: func(t *rapid.T) FUCase {
			size := rapid.SampledFrom([]int{16, 200, 519, 520, 521, 1000, 1023, 1024, 1025, 2048, 4096, 5000, 10000, 16384}).Draw(t, "size")
			if rapid.IntRange(0, 3).Draw(t, "size_any") == 0 {
				size = rapid.IntRange(0, 20000).Draw(t, "size_n")
			}
			return FUCase{Salt: rapid.Uint64().Draw(t, "salt"), Rounds: rapid.SampledFrom([]int{30, 100, 250}).Draw(t, "rounds"),
				Procs: rapid.SampledFrom([]int{2, 4, 16, 16}).Draw(t, "procs"), Goroutines: rapid.SampledFrom([]int{2, 2, 3, 4, 8, 16}).Draw(t, "goroutines"),
				Size: size, Shape: rapid.IntRange(0, 3).Draw(t, "shape"), PerG: rapid.IntRange(1, 3).Draw(t, "per_g")}
		},
		Check: checkFirstUse, Precommit: true,
	})
}
