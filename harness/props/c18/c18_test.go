// Package c18 decides property C18: the fee-quote types are race free under
// concurrent use and every read returns a value some write stored; one script
// engine gives concurrent validations the sequential verdicts.
//
// The package is built with -race by the driver. A case is a generated
// concurrent PROGRAM (goroutines x operations, GOMAXPROCS, yield points); the
// only thing not drawn from rapid is the goroutine schedule, which is the
// quantifier of the property. Cases are written to disk before they run
// (Precommit), so a race report (the race detector halts the process) is
// attributed to the program that was running.
package c18

import (
	"encoding/json"
	"errors"
	"fmt"
	"runtime"
	"sort"
	"sync"
	"testing"
	"time"

	"github.com/libsv/go-bt/v2"
	"github.com/libsv/go-bt/v2/bscript"
	"pgregory.net/rapid"

	"verif/harness/pbt"
)

func TestMain(m *testing.M) { pbt.Main(m) }

// ---------------------------------------------------------------------------
// program model

// Op is one operation of one goroutine.
//
// Operations on pool quote Q (a *bt.FeeQuote):
//
//	fee(T) add(T) exp upd(V: 0 past, 1 future) expd mar unm(V: document shape)
//
// Operations on the shared *bt.FeeQuotes:
//
//	qfee(M,T) quote(M,T) addm(M,Q) addd(M) updm(M,T) qmar addn(M)
//
// Look-ups that fail are operations like any other (ninth round): miner index
// nMiners names a miner nobody ever adds ("ghost"), fee type index 2 a fee type
// nobody ever stores ("other"), and addn(M) registers miner M with a nil quote
// (AddMiner(name, nil)), after which the miner has no quote again.
//
// Every write stores a value that is unique to the writing operation (it
// encodes goroutine and operation index), so a value that is read can be
// traced back to the write that stored it.
type Op struct {
	K string `json:"k"`
	Q int    `json:"q,omitempty"` // pool quote index
	M int    `json:"m,omitempty"` // miner index (name "m<M>")
	T int    `json:"t,omitempty"` // fee type: 0 standard, 1 data
	V int    `json:"v,omitempty"` // upd: 0 far past / 1 far future; unm: document shape
	Y bool   `json:"y,omitempty"` // runtime.Gosched() after the operation
}

// Prog is a generated concurrent program.
type Prog struct {
	Kind    string `json:"kind"`  // "quote": every op targets pool quote 0; "quotes": FeeQuotes + pool quotes
	Procs   int    `json:"procs"` // GOMAXPROCS while the program runs
	NQuotes int    `json:"nquotes"`
	Rounds  int    `json:"rounds"` // the program is run this many times on fresh objects
	G       [][]Op `json:"g"`
}

const (
	maxOps  = 512 // per goroutine (generated: <= 300)
	maxG    = 32
	nMiners = 4
	ghost   = nMiners // miner index of the name that is never added
	otherT  = 2       // fee type index of the type that is never stored
)

var otherType = bt.FeeType("other")

func ftOf(t int) bt.FeeType {
	if t == otherT {
		return otherType
	}
	return feeTypes[t]
}

// document shapes for unm
const (
	docBoth = iota
	docStdOnly
	docDataOnly
	docUnknownType // {"bogus": ...}: UnmarshalJSON must refuse it
	docMalformed
	nDocShapes
)

var feeTypes = []bt.FeeType{bt.FeeTypeStandard, bt.FeeTypeData}

type feeVal [4]int // mining sat, mining bytes, relay sat, relay bytes

var defaultVal = feeVal{5, 100, 5, 100}

func wid(g, i int) int { return g*maxOps + i }

// the value write (g,i) stores for fee type t: four consecutive numbers, so a
// value assembled from two different writes is recognisable
func feeNums(id, t int) feeVal {
	b := 1000 + 8*id + 4*t
	return feeVal{b, b + 1, b + 2, b + 3}
}

func decodeFee(v feeVal) (id, t int, ok bool) {
	b := v[0] - 1000
	if b < 0 || b%4 != 0 || v[1] != v[0]+1 || v[2] != v[0]+2 || v[3] != v[0]+3 {
		return 0, 0, false
	}
	return b / 8, (b % 8) / 4, true
}

func valOf(f *bt.Fee) feeVal {
	return feeVal{f.MiningFee.Satoshis, f.MiningFee.Bytes, f.RelayFee.Satoshis, f.RelayFee.Bytes}
}

func feeObj(id, t int) *bt.Fee {
	p := feeNums(id, t)
	return &bt.Fee{FeeType: feeTypes[t], MiningFee: bt.FeeUnit{Satoshis: p[0], Bytes: p[1]}, RelayFee: bt.FeeUnit{Satoshis: p[2], Bytes: p[3]}}
}

func feeJSON(id, t int) string {
	p := feeNums(id, t)
	return fmt.Sprintf(`{"miningFee":{"satoshis":%d,"bytes":%d},"relayFee":{"satoshis":%d,"bytes":%d}}`, p[0], p[1], p[2], p[3])
}

var (
	pastBase   = time.Date(2001, 1, 1, 0, 0, 0, 0, time.UTC)
	futureBase = time.Date(2201, 1, 1, 0, 0, 0, 0, time.UTC)
)

func timeOf(id int, future bool) time.Time {
	if future {
		return futureBase.Add(time.Duration(id) * time.Second)
	}
	return pastBase.Add(time.Duration(id) * time.Second)
}

func decodeTime(x time.Time) (id int, future, ok bool) {
	for _, f := range []bool{false, true} {
		d := x.Sub(timeOf(0, f))
		if d >= 0 && d < time.Duration(maxG*maxOps)*time.Second && d%time.Second == 0 {
			return int(d / time.Second), f, true
		}
	}
	return 0, false, false
}

func docHas(shape, t int) bool {
	return shape == docBoth || (shape == docStdOnly && t == 0) || (shape == docDataOnly && t == 1)
}

func docValid(shape int) bool { return shape == docBoth || shape == docStdOnly || shape == docDataOnly }

func docText(shape, id int) string {
	switch shape {
	case docBoth:
		return fmt.Sprintf(`{"standard":%s,"data":%s}`, feeJSON(id, 0), feeJSON(id, 1))
	case docStdOnly:
		return fmt.Sprintf(`{"standard":%s}`, feeJSON(id, 0))
	case docDataOnly:
		return fmt.Sprintf(`{"data":%s}`, feeJSON(id, 1))
	case docUnknownType:
		return fmt.Sprintf(`{"bogus":%s}`, feeJSON(id, 0))
	}
	return `{"standard":`
}

func miner(m int) string {
	if m == ghost {
		return "nobody"
	}
	return fmt.Sprintf("m%d", m)
}

// ---------------------------------------------------------------------------
// static facts about a program (computed from its text only)

type model struct {
	p       Prog
	hasDflt [nMiners]bool         // NewFeeQuotes / AddMinerWithDefault creates a quote for miner m
	mapsTo  [nMiners]map[int]bool // pool quotes some AddMiner registers under miner m
	absent  [][2]bool             // per pool quote, fee type: some Unmarshal may remove the type
	badDoc  []bool                // per pool quote: an invalid document is unmarshalled into it
	nilable [nMiners]bool         // some AddMiner(m, nil) registers miner m without a quote
}

func buildModel(p Prog) *model {
	m := &model{p: p, absent: make([][2]bool, p.NQuotes), badDoc: make([]bool, p.NQuotes)}
	for i := range m.mapsTo {
		m.mapsTo[i] = map[int]bool{}
	}
	m.hasDflt[0] = true // NewFeeQuotes("m0")
	for _, g := range p.G {
		for _, o := range g {
			switch o.K {
			case "addm":
				m.mapsTo[o.M][o.Q] = true
			case "addd":
				m.hasDflt[o.M] = true
			case "addn":
				m.nilable[o.M] = true
			case "unm":
				for t := 0; t < 2; t++ {
					if !docHas(o.V, t) {
						m.absent[o.Q][t] = true // removed by a partial document (or, conservatively, by an invalid one)
					}
				}
				if !docValid(o.V) {
					m.badDoc[o.Q] = true
				}
			}
		}
	}
	return m
}

func (m *model) op(id int) (Op, bool) {
	g, i := id/maxOps, id%maxOps
	if g < 0 || g >= len(m.p.G) || i >= len(m.p.G[g]) {
		return Op{}, false
	}
	return m.p.G[g][i], true
}

// storesAt reports whether write id can have stored its type-t value in pool quote q.
func (m *model) storesAt(id, t, q int) bool {
	o, ok := m.op(id)
	if !ok {
		return false
	}
	switch o.K {
	case "add":
		return o.Q == q && o.T == t
	case "unm":
		return o.Q == q && docHas(o.V, t)
	case "updm":
		return o.T == t && o.M != ghost && m.mapsTo[o.M][q]
	}
	return false
}

// storesVia reports whether write id can have stored its type-t value in a
// quote reachable through miner mi.
func (m *model) storesVia(id, t, mi int) bool {
	o, ok := m.op(id)
	if !ok {
		return false
	}
	if o.K == "updm" && o.T == t && o.M == mi {
		return true
	}
	for q := range m.mapsTo[mi] {
		if m.storesAt(id, t, q) {
			return true
		}
	}
	return false
}

// directWrite: operation o certainly writes location (q,t) (value or removal).
func directWrite(o Op, q, t int) bool {
	switch o.K {
	case "add":
		return o.Q == q && o.T == t
	case "unm":
		return o.Q == q && docValid(o.V)
	}
	return false
}

// laterDirectWrite: goroutine g writes (q,t) directly after its operation i.
func (m *model) laterDirectWrite(g, i, q, t int) bool {
	for k := i + 1; k < len(m.p.G[g]); k++ {
		if directWrite(m.p.G[g][k], q, t) {
			return true
		}
	}
	return false
}

// ---------------------------------------------------------------------------
// running a program

type world struct {
	p       Prog
	m       *model
	fqs     *bt.FeeQuotes
	q       []*bt.FeeQuote
	initExp []time.Time
	beat    beat // completed operations (watchdog)
}

type loc struct{ q, t int }

// gstate is what one goroutine has observed so far.
type gstate struct {
	g          int
	seen       map[loc]map[int]int // location -> writer goroutine -> highest operation index observed
	nonDefault map[loc]bool        // a written value (or a removal) was observed: the default cannot come back
	seenExp    []map[int]int
	nonInitExp []bool
	tx         *bt.Tx // a transaction of this goroutine alone (priced with the shared quotes)
}

// ownTx returns the goroutine's private transaction: one P2PKH input, a payment and a data output.
func (s *gstate) ownTx() *bt.Tx {
	if s.tx == nil {
		tx := bt.NewTx()
		_ = tx.From(fmt.Sprintf("%064x", s.g+1), 0, "76a9140102030405060708090a0b0c0d0e0f101112131488ac", 100000)
		tx.AddOutput(&bt.Output{Satoshis: 1000, LockingScript: bscript.NewFromBytes([]byte{0x76, 0xa9, 0x14, 1, 2, 3, 4, 5, 6, 7, 8, 9, 10, 11, 12, 13, 14, 15, 16, 17, 18, 19, 20, 0x88, 0xac})})
		tx.AddOutput(&bt.Output{LockingScript: bscript.NewFromBytes(append([]byte{0x00, 0x6a, 0x20}, make([]byte, 32)...))})
		s.tx = tx
	}
	return s.tx
}

func newGState(g, nq int) *gstate {
	s := &gstate{g: g, seen: map[loc]map[int]int{}, nonDefault: map[loc]bool{}, seenExp: make([]map[int]int, nq), nonInitExp: make([]bool, nq)}
	for i := range s.seenExp {
		s.seenExp[i] = map[int]int{}
	}
	return s
}

func (s *gstate) observe(l loc, id int) error {
	g, i := id/maxOps, id%maxOps
	if s.seen[l] == nil {
		s.seen[l] = map[int]int{}
	}
	if prev, ok := s.seen[l][g]; ok && i < prev {
		return fmt.Errorf("stale value: the value of goroutine %d's operation %d reappeared after its later operation %d had been observed there", g, i, prev)
	}
	s.seen[l][g] = i
	s.nonDefault[l] = true
	return nil
}

// readDirect judges a fee read from pool quote q (nil gs: after the join).
func (w *world) readDirect(gs *gstate, q, t int, f *bt.Fee, err error, what string) error {
	l := loc{q, t}
	if err != nil {
		if errors.Is(err, bt.ErrFeeTypeNotFound) && w.m.absent[q][t] {
			if gs != nil {
				gs.nonDefault[l] = true
			}
			return nil
		}
		return fmt.Errorf("%s returned error %v, which no write in the program can cause", what, err)
	}
	if f == nil {
		return fmt.Errorf("%s returned nil fee and nil error", what)
	}
	return w.valueDirect(gs, q, t, valOf(f), string(f.FeeType), what)
}

func (w *world) valueDirect(gs *gstate, q, t int, v feeVal, label, what string) error {
	l := loc{q, t}
	if label != string(feeTypes[t]) {
		return fmt.Errorf("%s returned a fee labelled %q", what, label)
	}
	if v == defaultVal {
		if gs != nil && gs.nonDefault[l] {
			return fmt.Errorf("%s returned the default fee after a written value had been observed there", what)
		}
		return nil
	}
	id, vt, ok := decodeFee(v)
	if !ok || vt != t || !w.m.storesAt(id, t, q) {
		return fmt.Errorf("%s returned %v: no write in the program stores that value there", what, v)
	}
	if gs != nil {
		if e := gs.observe(l, id); e != nil {
			return fmt.Errorf("%s returned %v: %v", what, v, e)
		}
	}
	return nil
}

// readVia judges a fee read through miner mi (mapping may change: membership only).
func (w *world) readVia(mi, t int, f *bt.Fee, err error, what string) error {
	if err != nil {
		if errors.Is(err, bt.ErrFeeTypeNotFound) {
			for q := range w.m.mapsTo[mi] {
				if w.m.absent[q][t] {
					return nil
				}
			}
		}
		return fmt.Errorf("%s returned error %v, which no write in the program can cause", what, err)
	}
	if f == nil {
		return fmt.Errorf("%s returned nil fee and nil error", what)
	}
	if f.FeeType != feeTypes[t] {
		return fmt.Errorf("%s returned a fee labelled %q", what, f.FeeType)
	}
	v := valOf(f)
	if v == defaultVal {
		return nil
	}
	id, vt, ok := decodeFee(v)
	if !ok || vt != t || !w.m.storesVia(id, t, mi) {
		return fmt.Errorf("%s returned %v: no write in the program stores that value there", what, v)
	}
	return nil
}

func (w *world) exec(o Op, i int, gs *gstate) error {
	id := wid(gs.g, i)
	switch o.K {
	case "fee":
		if o.T == otherT {
			return refused(fmt.Sprintf("quote%d.Fee(%s)", o.Q, otherType), bt.ErrFeeTypeNotFound)(w.q[o.Q].Fee(otherType))
		}
		f, err := w.q[o.Q].Fee(feeTypes[o.T])
		return w.readDirect(gs, o.Q, o.T, f, err, fmt.Sprintf("quote%d.Fee(%s)", o.Q, feeTypes[o.T]))
	case "add":
		if r := w.q[o.Q].AddQuote(feeTypes[o.T], feeObj(id, o.T)); r != w.q[o.Q] {
			return fmt.Errorf("AddQuote did not return its receiver")
		}
		return gs.observe(loc{o.Q, o.T}, id)
	case "exp":
		return w.readExpiry(gs, o.Q, w.q[o.Q].Expiry(), fmt.Sprintf("quote%d.Expiry()", o.Q))
	case "upd":
		w.q[o.Q].UpdateExpiry(timeOf(id, o.V%2 == 1))
		gs.seenExp[o.Q][gs.g] = i
		gs.nonInitExp[o.Q] = true
	case "expd":
		got := w.q[o.Q].Expired()
		// stored times are far past (expired) or far future (not expired); the
		// initial expiry (creation instant) allows either answer
		can := !gs.nonInitExp[o.Q]
		for _, g := range w.p.G {
			for _, x := range g {
				if x.K == "upd" && x.Q == o.Q && (x.V%2 == 0) == got {
					can = true
				}
			}
		}
		if !can {
			return fmt.Errorf("quote%d.Expired() = %v contradicts every expiry a write in the program stores", o.Q, got)
		}
	case "mar":
		b, err := json.Marshal(w.q[o.Q])
		if err != nil {
			return fmt.Errorf("json.Marshal(quote%d): %v", o.Q, err)
		}
		return w.checkMarshalled(gs, o.Q, b)
	case "unm":
		err := json.Unmarshal([]byte(docText(o.V, id)), w.q[o.Q])
		if docValid(o.V) {
			if err != nil {
				return fmt.Errorf("json.Unmarshal(valid document, quote%d): %v", o.Q, err)
			}
			for t := 0; t < 2; t++ {
				if docHas(o.V, t) {
					if e := gs.observe(loc{o.Q, t}, id); e != nil {
						return e
					}
				} else {
					gs.nonDefault[loc{o.Q, t}] = true
				}
			}
		}
	case "txf":
		// the consumers on the transaction side read the shared quote too: a transaction of this
		// goroutine alone is priced with it (an error is possible while a partial document has
		// removed a fee type; a panic or a data race is not)
		tx := gs.ownTx()
		switch o.V % 4 {
		case 0:
			_, _ = tx.IsFeePaidEnough(w.q[o.Q])
		case 1:
			_, _ = tx.EstimateIsFeePaidEnough(w.q[o.Q])
		case 2:
			_, _ = tx.EstimateFeesPaid(w.q[o.Q])
		default:
			c := tx.Clone()
			_ = c.Change(bscript.NewFromBytes([]byte{0x76, 0xa9, 0x14, 1, 2, 3, 4, 5, 6, 7, 8, 9, 10, 11, 12, 13, 14, 15, 16, 17, 18, 19, 20, 0x88, 0xac}), w.q[o.Q])
		}
	case "qfee":
		what := fmt.Sprintf("quotes.Fee(%s,%s)", miner(o.M), ftOf(o.T))
		if o.M == ghost {
			// nobody adds this miner: the one documented answer, whatever the other goroutines do to the container
			return refused(what, bt.ErrMinerNoQuotes)(w.fqs.Fee(miner(o.M), ftOf(o.T)))
		}
		f, err := w.fqs.Fee(miner(o.M), ftOf(o.T))
		if errors.Is(err, bt.ErrMinerNoQuotes) && (o.M != 0 || w.m.nilable[0]) {
			if f != nil {
				return fmt.Errorf("%s returned a fee together with %v", what, err)
			}
			return nil // the miner may not have been added yet (or is registered without a quote)
		}
		if o.T == otherT {
			return refused(what, bt.ErrFeeTypeNotFound)(f, err)
		}
		return w.readVia(o.M, o.T, f, err, fmt.Sprintf("quotes.Fee(%s,%s)", miner(o.M), feeTypes[o.T]))
	case "quote":
		fq, err := w.fqs.Quote(miner(o.M))
		if o.M == ghost {
			if fq != nil || !errors.Is(err, bt.ErrMinerNoQuotes) {
				return fmt.Errorf("quotes.Quote(%s) for a miner nobody adds returned (%v, %v), documented: ErrMinerNoQuotes", miner(o.M), fq, err)
			}
			return nil
		}
		if err != nil {
			if errors.Is(err, bt.ErrMinerNoQuotes) && o.M != 0 && fq == nil {
				return nil
			}
			return fmt.Errorf("quotes.Quote(%s): %v", miner(o.M), err)
		}
		if fq == nil {
			if w.m.nilable[o.M] {
				return nil // registered with a nil quote: what AddMiner stored is what comes back
			}
			return fmt.Errorf("quotes.Quote(%s) returned nil, nil", miner(o.M))
		}
		if o.T == otherT {
			return refused(fmt.Sprintf("quotes.Quote(%s).Fee(%s)", miner(o.M), otherType), bt.ErrFeeTypeNotFound)(fq.Fee(otherType))
		}
		for qi, q := range w.q {
			if q == fq {
				if !w.m.mapsTo[o.M][qi] {
					return fmt.Errorf("quotes.Quote(%s) returned pool quote %d, which no AddMiner registers under that name", miner(o.M), qi)
				}
				f, err := fq.Fee(feeTypes[o.T])
				return w.readDirect(gs, qi, o.T, f, err, fmt.Sprintf("quotes.Quote(%s)=quote%d .Fee(%s)", miner(o.M), qi, feeTypes[o.T]))
			}
		}
		if !w.m.hasDflt[o.M] {
			return fmt.Errorf("quotes.Quote(%s) returned a quote nobody stored", miner(o.M))
		}
		// a quote created by NewFeeQuotes/AddMinerWithDefault: defaults plus UpdateMinerFees values of this miner
		f, err := fq.Fee(feeTypes[o.T])
		if err != nil || f == nil {
			return fmt.Errorf("quotes.Quote(%s).Fee(%s) on a default quote: %v", miner(o.M), feeTypes[o.T], err)
		}
		if v := valOf(f); v != defaultVal {
			vid, vt, ok := decodeFee(v)
			x, ok2 := w.m.op(vid)
			if !ok || !ok2 || vt != o.T || x.K != "updm" || x.M != o.M || x.T != o.T {
				return fmt.Errorf("quotes.Quote(%s).Fee(%s) on a default quote returned %v: no UpdateMinerFees of that miner stores it", miner(o.M), feeTypes[o.T], v)
			}
		}
	case "addm":
		if r := w.fqs.AddMiner(miner(o.M), w.q[o.Q]); r != w.fqs {
			return fmt.Errorf("AddMiner did not return its receiver")
		}
	case "addd":
		w.fqs.AddMinerWithDefault(miner(o.M))
	case "addn":
		if r := w.fqs.AddMiner(miner(o.M), nil); r != w.fqs {
			return fmt.Errorf("AddMiner did not return its receiver")
		}
	case "updm":
		fq, err := w.fqs.UpdateMinerFees(miner(o.M), feeTypes[o.T], feeObj(id, o.T))
		if o.M == ghost {
			if fq != nil || !errors.Is(err, bt.ErrMinerNoQuotes) {
				return fmt.Errorf("quotes.UpdateMinerFees(%s) for a miner nobody adds returned (%v, %v), expected ErrMinerNoQuotes", miner(o.M), fq, err)
			}
			return nil
		}
		if err != nil {
			if errors.Is(err, bt.ErrMinerNoQuotes) && (o.M != 0 || w.m.nilable[0]) {
				return nil
			}
			return fmt.Errorf("quotes.UpdateMinerFees(%s): %v", miner(o.M), err)
		}
		if fq == nil {
			return fmt.Errorf("quotes.UpdateMinerFees(%s) returned nil, nil", miner(o.M))
		}
	case "qmar":
		if _, err := json.Marshal(w.fqs); err != nil {
			return fmt.Errorf("json.Marshal(quotes): %v", err)
		}
	default:
		return fmt.Errorf("unknown op %q", o.K)
	}
	return nil
}

// refused judges a look-up that has exactly one documented answer: no fee and the given error.
func refused(what string, want error) func(*bt.Fee, error) error {
	return func(f *bt.Fee, err error) error {
		if f != nil || !errors.Is(err, want) {
			return fmt.Errorf("%s returned (%v, %v), documented: nil and %v", what, f, err, want)
		}
		return nil
	}
}

func (w *world) readExpiry(gs *gstate, q int, e time.Time, what string) error {
	if e.Equal(w.initExp[q]) {
		if gs != nil && gs.nonInitExp[q] {
			return fmt.Errorf("%s returned the initial expiry after an updated one had been observed", what)
		}
		return nil
	}
	id, future, ok := decodeTime(e)
	o, ok2 := w.m.op(id)
	if !ok || !ok2 || o.K != "upd" || o.Q != q || (o.V%2 == 1) != future {
		return fmt.Errorf("%s = %v: neither the initial expiry nor a time some UpdateExpiry stores there", what, e)
	}
	if gs != nil {
		g, i := id/maxOps, id%maxOps
		if prev, seen := gs.seenExp[q][g]; seen && i < prev {
			return fmt.Errorf("%s = %v: stale, goroutine %d's operation %d reappeared after its operation %d", what, e, g, i, prev)
		}
		gs.seenExp[q][g] = i
		gs.nonInitExp[q] = true
	}
	return nil
}

func (w *world) checkMarshalled(gs *gstate, q int, b []byte) error {
	var got map[string]struct {
		MiningFee bt.FeeUnit `json:"miningFee"`
		RelayFee  bt.FeeUnit `json:"relayFee"`
	}
	if err := json.Unmarshal(b, &got); err != nil {
		return fmt.Errorf("json.Marshal(quote%d) produced %q which does not parse: %v", q, b, err)
	}
	for t, ft := range feeTypes {
		what := fmt.Sprintf("json.Marshal(quote%d) = %s: %q", q, b, ft)
		e, ok := got[string(ft)]
		if !ok {
			if !w.m.absent[q][t] {
				return fmt.Errorf("%s is missing although no write removes it", what)
			}
			if gs != nil {
				gs.nonDefault[loc{q, t}] = true
			}
			continue
		}
		v := feeVal{e.MiningFee.Satoshis, e.MiningFee.Bytes, e.RelayFee.Satoshis, e.RelayFee.Bytes}
		if err := w.valueDirect(gs, q, t, v, string(ft), what); err != nil {
			return err
		}
	}
	for k := range got {
		if k != string(bt.FeeTypeStandard) && k != string(bt.FeeTypeData) && !w.m.badDoc[q] {
			return fmt.Errorf("json.Marshal(quote%d) = %s has fee type %q nobody stored", q, b, k)
		}
	}
	return nil
}

func (w *world) runOnce() error {
	p := w.p
	w.fqs = bt.NewFeeQuotes(miner(0))
	w.q, w.initExp = nil, nil
	for i := 0; i < p.NQuotes; i++ {
		q := bt.NewFeeQuote()
		w.q = append(w.q, q)
		w.initExp = append(w.initExp, q.Expiry())
	}
	errs := make([]error, len(p.G))
	start := make(chan struct{})
	var wg sync.WaitGroup
	for gi := range p.G {
		wg.Add(1)
		go func(gi int) {
			defer wg.Done()
			defer func() {
				if x := recover(); x != nil {
					errs[gi] = fmt.Errorf("goroutine %d panicked: %v", gi, x)
				}
			}()
			<-start
			gs := newGState(gi, p.NQuotes)
			for oi, o := range p.G[gi] {
				if err := w.exec(o, oi, gs); err != nil {
					errs[gi] = fmt.Errorf("goroutine %d op %d %+v: %v", gi, oi, o, err)
					return
				}
				w.beat.tick()
				if o.Y {
					runtime.Gosched()
				}
			}
		}(gi)
	}
	close(start)
	done := make(chan struct{})
	go func() { wg.Wait(); close(done) }()
	if err := bounded(done, &w.beat, fmt.Sprintf("%d goroutines on shared fee quotes (GOMAXPROCS %d)", len(p.G), p.Procs)); err != nil {
		return err // the goroutines are left behind; nothing they share is looked at again
	}
	for _, e := range errs {
		if e != nil {
			return e
		}
	}
	return w.quiescent()
}

// quiescent checks the state after the join: every location holds a value some
// write stored there, and it is the LAST write of its goroutine to that
// location (an earlier one surviving means a later update was lost).
func (w *world) quiescent() error {
	for q := range w.q {
		for t := range feeTypes {
			what := fmt.Sprintf("after join: quote%d.Fee(%s)", q, feeTypes[t])
			f, err := w.q[q].Fee(feeTypes[t])
			if e := w.readDirect(nil, q, t, f, err, what); e != nil {
				return e
			}
			if w.m.badDoc[q] {
				continue
			}
			anyDirect, removalLast := false, false
			for g, ops := range w.p.G {
				for i, o := range ops {
					if !directWrite(o, q, t) {
						continue
					}
					anyDirect = true
					if o.K == "unm" && !docHas(o.V, t) && !w.m.laterDirectWrite(g, i, q, t) {
						removalLast = true
					}
				}
			}
			switch {
			case err != nil:
				if !removalLast {
					return fmt.Errorf("%s is missing, but no goroutine's last write there removes it", what)
				}
			case valOf(f) == defaultVal:
				if anyDirect {
					return fmt.Errorf("%s is still the default although the program writes there (lost update)", what)
				}
			default:
				id, _, _ := decodeFee(valOf(f))
				if w.m.laterDirectWrite(id/maxOps, id%maxOps, q, t) {
					return fmt.Errorf("%s = %v is the value of goroutine %d's operation %d, but that goroutine wrote there again later (lost update)",
						what, valOf(f), id/maxOps, id%maxOps)
				}
			}
		}
		e := w.q[q].Expiry()
		what := fmt.Sprintf("after join: quote%d.Expiry()", q)
		if err := w.readExpiry(nil, q, e, what); err != nil {
			return err
		}
		anyUpd := false
		for _, ops := range w.p.G {
			for _, o := range ops {
				anyUpd = anyUpd || (o.K == "upd" && o.Q == q)
			}
		}
		if e.Equal(w.initExp[q]) {
			if anyUpd {
				return fmt.Errorf("%s is still the initial expiry although the program updates it (lost update)", what)
			}
			continue
		}
		id, future, _ := decodeTime(e)
		g, i := id/maxOps, id%maxOps
		for k := i + 1; k < len(w.p.G[g]); k++ {
			if o := w.p.G[g][k]; o.K == "upd" && o.Q == q {
				return fmt.Errorf("%s = %v is goroutine %d's operation %d, but it updated the expiry again later (lost update)", what, e, g, i)
			}
		}
		if got := w.q[q].Expired(); got == future {
			return fmt.Errorf("after join: quote%d.Expired() = %v but its expiry is %v", q, got, e)
		}
	}
	return nil
}

func valid(p Prog) bool {
	if p.Procs < 1 || p.Procs > 64 || p.NQuotes < 1 || p.NQuotes > 8 || p.Rounds < 1 || p.Rounds > 10 || len(p.G) == 0 || len(p.G) > maxG {
		return false
	}
	for _, g := range p.G {
		if len(g) >= maxOps {
			return false
		}
		for _, o := range g {
			if o.Q < 0 || o.Q >= p.NQuotes || o.M < 0 || o.M > ghost || o.T < 0 || o.T > otherT || o.V < 0 {
				return false
			}
			if o.M == ghost && o.K != "qfee" && o.K != "quote" && o.K != "updm" {
				return false
			}
			if o.T == otherT && o.K != "fee" && o.K != "qfee" && o.K != "quote" {
				return false
			}
			if o.K == "unm" && o.V >= nDocShapes {
				return false
			}
			if p.Kind == "quote" && (o.Q != 0 || o.K == "qfee" || o.K == "quote" || o.K == "addm" || o.K == "addd" || o.K == "updm" || o.K == "qmar" || o.K == "addn") {
				return false
			}
		}
	}
	return p.Kind == "quote" || p.Kind == "quotes"
}

var writers = map[string]bool{"add": true, "upd": true, "unm": true, "addm": true, "addd": true, "updm": true, "addn": true}

func checkProg(ctx *pbt.Ctx, p Prog) error {
	if skipAbandoned(ctx) {
		return nil
	}
	if !valid(p) {
		ctx.Discard("outside domain")
		return nil
	}
	prev := runtime.GOMAXPROCS(p.Procs)
	defer runtime.GOMAXPROCS(prev)
	w := &world{p: p, m: buildModel(p)}
	for r := 0; r < p.Rounds; r++ {
		if err := w.runOnce(); err != nil {
			return fmt.Errorf("round %d: %v", r, err)
		}
	}
	// evidence
	nops, nw, nr := 0, 0, 0
	kinds := map[string]bool{}
	for _, g := range p.G {
		for _, o := range g {
			nops++
			kinds[o.K] = true
			if o.M == ghost {
				kinds[o.K+":ghost-miner"] = true
			}
			if o.T == otherT {
				kinds[o.K+":unknown-type"] = true
			}
			if writers[o.K] {
				nw++
			} else {
				nr++
			}
		}
	}
	ctx.Label("kind:" + p.Kind)
	ctx.Labelf("procs:%d", p.Procs)
	ctx.Labelf("goroutines:%s", bucket(len(p.G), 2, 4, 8, 16))
	ctx.Labelf("ops:%s", bucket(nops, 100, 500, 1500, 5000))
	ks := make([]string, 0, len(kinds))
	for k := range kinds {
		ks = append(ks, k)
	}
	sort.Strings(ks)
	for _, k := range ks {
		ctx.Label("op:" + k)
	}
	if len(p.G) >= 2 && nw > 0 && nr > 0 {
		ctx.NonTrivial()
	}
	return nil
}

func bucket(n int, edges ...int) string {
	for _, e := range edges {
		if n <= e {
			return fmt.Sprintf("<=%d", e)
		}
	}
	return fmt.Sprintf(">%d", edges[len(edges)-1])
}

// ---------------------------------------------------------------------------
// generator

var quoteOps = []string{"fee", "fee", "add", "add", "exp", "upd", "expd", "mar", "mar", "unm", "txf"}
var quotesOps = []string{"qfee", "qfee", "quote", "quote", "addm", "addd", "updm", "updm", "qmar", "addn",
	"fee", "add", "exp", "upd", "expd", "mar", "unm", "txf"}

func genOp(t *rapid.T, kinds []string, nq int) Op {
	o := Op{K: rapid.SampledFrom(kinds).Draw(t, "k")}
	switch o.K {
	case "fee":
		o.Q, o.T = rapid.IntRange(0, nq-1).Draw(t, "q"), rapid.SampledFrom([]int{0, 1, 0, 1, 0, 1, otherT}).Draw(t, "t")
	case "add":
		o.Q, o.T = rapid.IntRange(0, nq-1).Draw(t, "q"), rapid.IntRange(0, 1).Draw(t, "t")
	case "exp", "expd", "mar":
		o.Q = rapid.IntRange(0, nq-1).Draw(t, "q")
	case "upd":
		o.Q, o.V = rapid.IntRange(0, nq-1).Draw(t, "q"), rapid.IntRange(0, 1).Draw(t, "v")
	case "txf":
		o.Q, o.V = rapid.IntRange(0, nq-1).Draw(t, "q"), rapid.IntRange(0, 3).Draw(t, "v")
	case "unm":
		o.Q, o.V = rapid.IntRange(0, nq-1).Draw(t, "q"), rapid.SampledFrom([]int{docBoth, docBoth, docBoth, docBoth, docStdOnly, docDataOnly, docUnknownType, docMalformed}).Draw(t, "v")
	case "qfee", "quote":
		// the miner nobody adds and the fee type nobody stores are look-ups like the others
		o.M, o.T = rapid.SampledFrom([]int{0, 1, 2, 3, 0, 1, 2, 3, ghost}).Draw(t, "m"), rapid.SampledFrom([]int{0, 1, 0, 1, 0, 1, otherT}).Draw(t, "t")
	case "updm":
		o.M, o.T = rapid.SampledFrom([]int{0, 1, 2, 3, 0, 1, 2, 3, ghost}).Draw(t, "m"), rapid.IntRange(0, 1).Draw(t, "t")
	case "addn":
		o.M = rapid.IntRange(1, nMiners-1).Draw(t, "m") // the initial miner keeps its quote
	case "addm":
		o.M, o.Q = rapid.IntRange(0, nMiners-1).Draw(t, "m"), rapid.IntRange(0, nq-1).Draw(t, "q")
	case "addd":
		o.M = rapid.IntRange(0, nMiners-1).Draw(t, "m")
	}
	o.Y = rapid.IntRange(0, 7).Draw(t, "y") == 0
	return o
}

func genProg(t *rapid.T) Prog {
	p := Prog{Kind: rapid.SampledFrom([]string{"quote", "quotes"}).Draw(t, "kind"),
		Procs:  rapid.SampledFrom([]int{1, 2, 4, 16}).Draw(t, "procs"),
		Rounds: rapid.IntRange(1, 3).Draw(t, "rounds"), NQuotes: 1}
	kinds := quoteOps
	if p.Kind == "quotes" {
		p.NQuotes = rapid.IntRange(1, 4).Draw(t, "nquotes")
		kinds = quotesOps
	}
	// a goroutine is either a mixed worker or specialised on a few operation
	// kinds (hammering one reader against one writer is what exposes a missing lock)
	ng := rapid.IntRange(2, 16).Draw(t, "goroutines")
	for g := 0; g < ng; g++ {
		mine := kinds
		if rapid.Bool().Draw(t, "specialised") {
			mine = rapid.SliceOfN(rapid.SampledFrom(kinds), 1, 3).Draw(t, "mine")
		}
		n := rapid.IntRange(20, 300).Draw(t, "nops")
		ops := make([]Op, n)
		for i := range ops {
			ops[i] = genOp(t, mine, p.NQuotes)
		}
		p.G = append(p.G, ops)
	}
	return p
}

func TestFeeQuotePrograms(t *testing.T) {
	pbt.Run(t, pbt.Sub[Prog]{
		Name: "feequote-programs", Quick: 1600, Thorough: 30000,
		Gen: genProg, Check: checkProg, Precommit: true,
	})
}
