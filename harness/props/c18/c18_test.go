// Package c18 decides property C18: the fee-quote types are race free under
// concurrent use and every read returns a value some write stored; one script
// engine gives concurrent validations the sequential verdicts.
//
// The package is built with -race by the driver. A case is a generated
// concurrent PROGRAM (goroutines x operations, GOMAXPROCS, yield points); the
// only thing not drawn from rapid is the goroutine schedule, which is the
// quantifier of the property. Cases are written to disk before they run
// (Precommit), so a race report (the race detector halts the process) is
// attributed to the program that was running.
package c18

import (
	"encoding/json"
	"errors"
	"fmt"
	"runtime"
	"sort"
	"sync"
	"testing"
	"time"

	"github.com/libsv/go-bt/v2"
	"pgregory.net/rapid"

	"verif/harness/pbt"
)

func TestMain(m *testing.M) { pbt.Main(m) }

// ---------------------------------------------------------------------------
// program model

// Op is one operation of one goroutine.
//
// Operations on pool quote Q (a *bt.FeeQuote):
//   fee(T) add(T,V) exp upd(V) expd mar unm(V)
// Operations on the shared *bt.FeeQuotes:
//   qfee(M,T) quote(M) addm(M,Q) addd(M) updm(M,T,V) qmar
type Op struct {
	K string `json:"k"`
	Q int    `json:"q,omitempty"` // pool quote index
	M int    `json:"m,omitempty"` // miner index (name "m<M>")
	T int    `json:"t,omitempty"` // fee type: 0 standard, 1 data
	V int    `json:"v,omitempty"` // pool value index (fee value / time / document)
	Y bool   `json:"y,omitempty"` // runtime.Gosched() after the operation
}

// Prog is a generated concurrent program.
type Prog struct {
	Kind    string `json:"kind"`   // "quote": every op targets pool quote 0; "quotes": FeeQuotes + pool quotes
	Procs   int    `json:"procs"`  // GOMAXPROCS while the program runs
	NQuotes int    `json:"nquotes"`
	Rounds  int    `json:"rounds"` // the program is run this many times on fresh objects
	G       [][]Op `json:"g"`
}

const (
	nFeeVals = 24
	nTimes   = 8
	nMiners  = 4
)

var feeTypes = []bt.FeeType{bt.FeeTypeStandard, bt.FeeTypeData}

type feeVal [4]int // mining sat, mining bytes, relay sat, relay bytes

var defaultVal = feeVal{5, 100, 5, 100}

// value v of the numbered pool: four distinct numbers derived from v, so a
// value assembled from two different writes is recognisable
func poolVal(v int) feeVal { return feeVal{1000 + 4*v, 1001 + 4*v, 1002 + 4*v, 1003 + 4*v} }

func valOf(f *bt.Fee) feeVal {
	return feeVal{f.MiningFee.Satoshis, f.MiningFee.Bytes, f.RelayFee.Satoshis, f.RelayFee.Bytes}
}

func feeObj(v, t int) *bt.Fee {
	p := poolVal(v)
	return &bt.Fee{FeeType: feeTypes[t], MiningFee: bt.FeeUnit{Satoshis: p[0], Bytes: p[1]}, RelayFee: bt.FeeUnit{Satoshis: p[2], Bytes: p[3]}}
}

// pool time v: even = far past, odd = far future
func poolTime(v int) time.Time {
	if v%2 == 0 {
		return time.Date(2001+v, 1, 2, 3, 4, 5, 0, time.UTC)
	}
	return time.Date(2201+v, 1, 2, 3, 4, 5, 0, time.UTC)
}

// doc is a JSON document handed to UnmarshalJSON. vals[t] < 0: type absent.
type doc struct {
	text  string
	vals  [2]int
	valid bool
}

func feeJSON(v int) string {
	p := poolVal(v)
	return fmt.Sprintf(`{"miningFee":{"satoshis":%d,"bytes":%d},"relayFee":{"satoshis":%d,"bytes":%d}}`, p[0], p[1], p[2], p[3])
}

var docs = func() []doc {
	var d []doc
	for i := 0; i < 6; i++ { // both types
		a, b := 2*i, 2*i+1
		d = append(d, doc{fmt.Sprintf(`{"standard":%s,"data":%s}`, feeJSON(a), feeJSON(b)), [2]int{a, b}, true})
	}
	d = append(d, doc{fmt.Sprintf(`{"standard":%s}`, feeJSON(12)), [2]int{12, -1}, true})
	d = append(d, doc{fmt.Sprintf(`{"data":%s}`, feeJSON(13)), [2]int{-1, 13}, true})
	d = append(d, doc{fmt.Sprintf(`{"bogus":%s}`, feeJSON(14)), [2]int{-1, -1}, false}) // unknown fee type: must be refused
	d = append(d, doc{`{"standard":`, [2]int{-1, -1}, false})                             // not JSON
	return d
}()

func miner(m int) string { return fmt.Sprintf("m%d", m) }

// ---------------------------------------------------------------------------
// what a read may return (computed from the program text only)

type allowed struct {
	fee    [2]map[feeVal]bool
	absent [2]bool // ErrFeeTypeNotFound possible
}

func newAllowed() *allowed {
	a := &allowed{}
	for t := range a.fee {
		a.fee[t] = map[feeVal]bool{defaultVal: true}
	}
	return a
}

func (a *allowed) merge(b *allowed) {
	for t := range a.fee {
		for v := range b.fee[t] {
			a.fee[t][v] = true
		}
		a.absent[t] = a.absent[t] || b.absent[t]
	}
}

type model struct {
	quote   []*allowed        // per pool quote
	dflt    [nMiners]*allowed // quotes created by NewFeeQuotes / AddMinerWithDefault for miner m
	hasDflt [nMiners]bool
	mapsTo  [nMiners]map[int]bool // pool quotes ever registered under miner m
	times   []map[int]bool        // per pool quote: pool times written
	badDoc  []bool                // per pool quote: an invalid document is unmarshalled into it
}

func buildModel(p Prog) *model {
	m := &model{}
	for q := 0; q < p.NQuotes; q++ {
		m.quote = append(m.quote, newAllowed())
		m.times = append(m.times, map[int]bool{})
		m.badDoc = append(m.badDoc, false)
	}
	for i := range m.dflt {
		m.dflt[i] = newAllowed()
		m.mapsTo[i] = map[int]bool{}
	}
	m.hasDflt[0] = true // NewFeeQuotes("m0")
	each := func(f func(o Op)) {
		for _, g := range p.G {
			for _, o := range g {
				f(o)
			}
		}
	}
	each(func(o Op) {
		switch o.K {
		case "addm":
			m.mapsTo[o.M][o.Q] = true
		case "addd":
			m.hasDflt[o.M] = true
		}
	})
	each(func(o Op) {
		switch o.K {
		case "add":
			m.quote[o.Q].fee[o.T][poolVal(o.V)] = true
		case "unm":
			d := docs[o.V]
			for t := 0; t < 2; t++ {
				if !d.valid || d.vals[t] < 0 {
					m.quote[o.Q].absent[t] = true
				} else {
					m.quote[o.Q].fee[t][poolVal(d.vals[t])] = true
				}
			}
			if !d.valid {
				m.badDoc[o.Q] = true
			}
		case "upd":
			m.times[o.Q][o.V] = true
		case "updm":
			m.dflt[o.M].fee[o.T][poolVal(o.V)] = true
			for q := range m.mapsTo[o.M] {
				m.quote[q].fee[o.T][poolVal(o.V)] = true
			}
		}
	})
	return m
}

// viaMiner is what a read through miner m may see.
func (m *model) viaMiner(mi int) *allowed {
	a := newAllowed()
	if m.hasDflt[mi] {
		a.merge(m.dflt[mi])
	}
	for q := range m.mapsTo[mi] {
		a.merge(m.quote[q])
	}
	return a
}

// ---------------------------------------------------------------------------
// running a program

type world struct {
	p       Prog
	m       *model
	fqs     *bt.FeeQuotes
	q       []*bt.FeeQuote
	initExp []time.Time
	fees    [nFeeVals][2]*bt.Fee
}

func checkFee(a *allowed, t int, f *bt.Fee, err error, what string) error {
	if err != nil {
		if errors.Is(err, bt.ErrFeeTypeNotFound) && a.absent[t] {
			return nil
		}
		return fmt.Errorf("%s returned error %v, which no write in the program can cause", what, err)
	}
	if f == nil {
		return fmt.Errorf("%s returned nil fee and nil error", what)
	}
	if !a.fee[t][valOf(f)] {
		return fmt.Errorf("%s returned %v (type %q): no write in the program stores that value there", what, valOf(f), f.FeeType)
	}
	if f.FeeType != feeTypes[t] {
		return fmt.Errorf("%s returned a fee labelled %q", what, f.FeeType)
	}
	return nil
}

// gstate is what one goroutine knows about its own earlier operations.
type gstate struct{ wroteExp []bool }

func (w *world) exec(o Op, gs *gstate) error {
	switch o.K {
	case "fee":
		f, err := w.q[o.Q].Fee(feeTypes[o.T])
		return checkFee(w.m.quote[o.Q], o.T, f, err, fmt.Sprintf("quote%d.Fee(%s)", o.Q, feeTypes[o.T]))
	case "add":
		if r := w.q[o.Q].AddQuote(feeTypes[o.T], w.fees[o.V][o.T]); r != w.q[o.Q] {
			return fmt.Errorf("AddQuote did not return its receiver")
		}
	case "exp":
		e := w.q[o.Q].Expiry()
		// once this goroutine has itself updated the expiry, the initial value can no longer be what it reads
		if !gs.wroteExp[o.Q] && e.Equal(w.initExp[o.Q]) {
			return nil
		}
		for v := range w.m.times[o.Q] {
			if e.Equal(poolTime(v)) {
				return nil
			}
		}
		return fmt.Errorf("quote%d.Expiry() = %v: neither the initial expiry nor a time some UpdateExpiry stores", o.Q, e)
	case "upd":
		w.q[o.Q].UpdateExpiry(poolTime(o.V))
		gs.wroteExp[o.Q] = true
	case "expd":
		got := w.q[o.Q].Expired()
		// pool times are far past (even index => expired) or far future (odd => not
		// expired); the initial expiry (creation instant) allows either answer
		can := !gs.wroteExp[o.Q]
		for v := range w.m.times[o.Q] {
			can = can || (v%2 == 0) == got
		}
		if !can {
			return fmt.Errorf("quote%d.Expired() = %v contradicts every expiry a write in the program stores", o.Q, got)
		}
	case "mar":
		b, err := json.Marshal(w.q[o.Q])
		if err != nil {
			return fmt.Errorf("json.Marshal(quote%d): %v", o.Q, err)
		}
		return w.checkMarshalled(o.Q, b)
	case "unm":
		err := json.Unmarshal([]byte(docs[o.V].text), w.q[o.Q])
		if docs[o.V].valid && err != nil {
			return fmt.Errorf("json.Unmarshal(valid document %d, quote%d): %v", o.V, o.Q, err)
		}
	case "qfee":
		f, err := w.fqs.Fee(miner(o.M), feeTypes[o.T])
		if errors.Is(err, bt.ErrMinerNoQuotes) && o.M != 0 {
			return nil // the miner may not have been added yet
		}
		return checkFee(w.m.viaMiner(o.M), o.T, f, err, fmt.Sprintf("quotes.Fee(%s,%s)", miner(o.M), feeTypes[o.T]))
	case "quote":
		fq, err := w.fqs.Quote(miner(o.M))
		if err != nil {
			if errors.Is(err, bt.ErrMinerNoQuotes) && o.M != 0 {
				return nil
			}
			return fmt.Errorf("quotes.Quote(%s): %v", miner(o.M), err)
		}
		if fq == nil {
			return fmt.Errorf("quotes.Quote(%s) returned nil, nil", miner(o.M))
		}
		isPool := -1
		for i, q := range w.q {
			if q == fq {
				isPool = i
			}
		}
		if isPool >= 0 && !w.m.mapsTo[o.M][isPool] {
			return fmt.Errorf("quotes.Quote(%s) returned pool quote %d, which no AddMiner registers under that name", miner(o.M), isPool)
		}
		if isPool < 0 && !w.m.hasDflt[o.M] {
			return fmt.Errorf("quotes.Quote(%s) returned a quote nobody stored", miner(o.M))
		}
		f, err := fq.Fee(feeTypes[o.T])
		return checkFee(w.m.viaMiner(o.M), o.T, f, err, fmt.Sprintf("quotes.Quote(%s).Fee(%s)", miner(o.M), feeTypes[o.T]))
	case "addm":
		if r := w.fqs.AddMiner(miner(o.M), w.q[o.Q]); r != w.fqs {
			return fmt.Errorf("AddMiner did not return its receiver")
		}
	case "addd":
		w.fqs.AddMinerWithDefault(miner(o.M))
	case "updm":
		fq, err := w.fqs.UpdateMinerFees(miner(o.M), feeTypes[o.T], w.fees[o.V][o.T])
		if err != nil {
			if errors.Is(err, bt.ErrMinerNoQuotes) && o.M != 0 {
				return nil
			}
			return fmt.Errorf("quotes.UpdateMinerFees(%s): %v", miner(o.M), err)
		}
		if fq == nil {
			return fmt.Errorf("quotes.UpdateMinerFees(%s) returned nil, nil", miner(o.M))
		}
	case "qmar":
		if _, err := json.Marshal(w.fqs); err != nil {
			return fmt.Errorf("json.Marshal(quotes): %v", err)
		}
	default:
		return fmt.Errorf("unknown op %q", o.K)
	}
	return nil
}

func (w *world) checkMarshalled(q int, b []byte) error {
	var got map[string]struct {
		MiningFee bt.FeeUnit `json:"miningFee"`
		RelayFee  bt.FeeUnit `json:"relayFee"`
	}
	if err := json.Unmarshal(b, &got); err != nil {
		return fmt.Errorf("json.Marshal(quote%d) produced %q which does not parse: %v", q, b, err)
	}
	a := w.m.quote[q]
	for t, ft := range feeTypes {
		e, ok := got[string(ft)]
		if !ok {
			if !a.absent[t] {
				return fmt.Errorf("json.Marshal(quote%d) = %s lacks %q although no write removes it", q, b, ft)
			}
			continue
		}
		v := feeVal{e.MiningFee.Satoshis, e.MiningFee.Bytes, e.RelayFee.Satoshis, e.RelayFee.Bytes}
		if !a.fee[t][v] {
			return fmt.Errorf("json.Marshal(quote%d) = %s: %q value %v is stored by no write in the program", q, b, ft, v)
		}
	}
	for k := range got {
		if k != string(bt.FeeTypeStandard) && k != string(bt.FeeTypeData) && !w.m.badDoc[q] {
			return fmt.Errorf("json.Marshal(quote%d) = %s has fee type %q nobody stored", q, b, k)
		}
	}
	return nil
}

// lastWrites returns, for a single-object program, the set of values that can
// be the final one for fee type t: the last write of each goroutine that writes
// it, or the default when nobody does.
func lastWrites(p Prog, t int) (vals map[feeVal]bool, absent bool) {
	vals = map[feeVal]bool{}
	any := false
	for _, g := range p.G {
		for i := len(g) - 1; i >= 0; i-- {
			o := g[i]
			if o.K == "add" && o.T == t {
				vals[poolVal(o.V)] = true
				any = true
				break
			}
			if o.K == "unm" && docs[o.V].valid {
				if docs[o.V].vals[t] < 0 {
					absent = true
				} else {
					vals[poolVal(docs[o.V].vals[t])] = true
				}
				any = true
				break
			}
		}
	}
	if !any {
		vals[defaultVal] = true
	}
	return vals, absent
}

func (w *world) runOnce() error {
	p := w.p
	w.m = buildModel(p)
	w.fqs = bt.NewFeeQuotes(miner(0))
	w.q, w.initExp = nil, nil
	for i := 0; i < p.NQuotes; i++ {
		q := bt.NewFeeQuote()
		w.q = append(w.q, q)
		w.initExp = append(w.initExp, q.Expiry())
	}
	for v := 0; v < nFeeVals; v++ {
		for t := 0; t < 2; t++ {
			w.fees[v][t] = feeObj(v, t)
		}
	}
	errs := make([]error, len(p.G))
	start := make(chan struct{})
	var wg sync.WaitGroup
	for gi := range p.G {
		wg.Add(1)
		go func(gi int) {
			defer wg.Done()
			defer func() {
				if x := recover(); x != nil {
					errs[gi] = fmt.Errorf("goroutine %d panicked: %v", gi, x)
				}
			}()
			<-start
			gs := &gstate{wroteExp: make([]bool, p.NQuotes)}
			for oi, o := range p.G[gi] {
				if err := w.exec(o, gs); err != nil {
					errs[gi] = fmt.Errorf("goroutine %d op %d %+v: %v", gi, oi, o, err)
					return
				}
				if o.Y {
					runtime.Gosched()
				}
			}
		}(gi)
	}
	close(start)
	wg.Wait()
	for _, e := range errs {
		if e != nil {
			return e
		}
	}
	// quiescent state: every fee is still a stored value; for the single-object
	// kind it is the last write of some goroutine
	for q := range w.q {
		for t := range feeTypes {
			f, err := w.q[q].Fee(feeTypes[t])
			if e := checkFee(w.m.quote[q], t, f, err, fmt.Sprintf("after join: quote%d.Fee(%s)", q, feeTypes[t])); e != nil {
				return e
			}
			if p.Kind == "quote" && !w.m.badDoc[q] {
				vals, absent := lastWrites(p, t)
				switch {
				case err != nil && !absent:
					return fmt.Errorf("after join: quote.Fee(%s) is missing, but no goroutine's last write removes it", feeTypes[t])
				case err == nil && !vals[valOf(f)]:
					return fmt.Errorf("after join: quote.Fee(%s) = %v is not the last write of any goroutine (lost update)", feeTypes[t], valOf(f))
				}
			}
		}
		if p.Kind == "quote" {
			last := map[int]bool{}
			for _, g := range p.G {
				for i := len(g) - 1; i >= 0; i-- {
					if g[i].K == "upd" {
						last[g[i].V] = true
						break
					}
				}
			}
			e := w.q[q].Expiry()
			ok := len(last) == 0 && e.Equal(w.initExp[q])
			for v := range last {
				ok = ok || e.Equal(poolTime(v))
			}
			if !ok {
				return fmt.Errorf("after join: quote.Expiry() = %v is not the last UpdateExpiry of any goroutine", e)
			}
			if len(last) > 0 {
				// all candidates are far past (even) or far future (odd): Expired() must agree with one of them
				got := w.q[q].Expired()
				can := false
				for v := range last {
					can = can || (v%2 == 0) == got
				}
				if !can {
					return fmt.Errorf("after join: quote.Expired() = %v contradicts every possible final expiry", got)
				}
			}
		}
	}
	return nil
}

func valid(p Prog) bool {
	if p.Procs < 1 || p.Procs > 64 || p.NQuotes < 1 || p.NQuotes > 8 || p.Rounds < 1 || p.Rounds > 10 || len(p.G) == 0 {
		return false
	}
	for _, g := range p.G {
		for _, o := range g {
			if o.Q < 0 || o.Q >= p.NQuotes || o.M < 0 || o.M >= nMiners || o.T < 0 || o.T > 1 || o.V < 0 {
				return false
			}
			switch o.K {
			case "add", "updm":
				if o.V >= nFeeVals {
					return false
				}
			case "upd":
				if o.V >= nTimes {
					return false
				}
			case "unm":
				if o.V >= len(docs) {
					return false
				}
			}
			if p.Kind == "quote" && (o.Q != 0 || o.K == "qfee" || o.K == "quote" || o.K == "addm" || o.K == "addd" || o.K == "updm" || o.K == "qmar") {
				return false
			}
		}
	}
	return p.Kind == "quote" || p.Kind == "quotes"
}

var writers = map[string]bool{"add": true, "upd": true, "unm": true, "addm": true, "addd": true, "updm": true}

func checkProg(ctx *pbt.Ctx, p Prog) error {
	if !valid(p) {
		ctx.Discard("outside domain")
		return nil
	}
	prev := runtime.GOMAXPROCS(p.Procs)
	defer runtime.GOMAXPROCS(prev)
	w := &world{p: p}
	for r := 0; r < p.Rounds; r++ {
		if err := w.runOnce(); err != nil {
			return fmt.Errorf("round %d: %v", r, err)
		}
	}
	// evidence
	nops, nw, nr := 0, 0, 0
	kinds := map[string]bool{}
	for _, g := range p.G {
		for _, o := range g {
			nops++
			kinds[o.K] = true
			if writers[o.K] {
				nw++
			} else {
				nr++
			}
		}
	}
	ctx.Label("kind:" + p.Kind)
	ctx.Labelf("procs:%d", p.Procs)
	ctx.Labelf("goroutines:%s", bucket(len(p.G), 2, 4, 8, 16))
	ctx.Labelf("ops:%s", bucket(nops, 100, 500, 1500, 5000))
	ks := make([]string, 0, len(kinds))
	for k := range kinds {
		ks = append(ks, k)
	}
	sort.Strings(ks)
	for _, k := range ks {
		ctx.Label("op:" + k)
	}
	if len(p.G) >= 2 && nw > 0 && nr > 0 {
		ctx.NonTrivial()
	}
	return nil
}

func bucket(n int, edges ...int) string {
	for _, e := range edges {
		if n <= e {
			return fmt.Sprintf("<=%d", e)
		}
	}
	return fmt.Sprintf(">%d", edges[len(edges)-1])
}

// ---------------------------------------------------------------------------
// generator

var quoteOps = []string{"fee", "fee", "add", "add", "exp", "upd", "expd", "mar", "mar", "unm"}
var quotesOps = []string{"qfee", "qfee", "quote", "quote", "addm", "addd", "updm", "updm", "qmar",
	"fee", "add", "exp", "upd", "expd", "mar", "unm"}

func genOp(t *rapid.T, kinds []string, nq int) Op {
	o := Op{K: rapid.SampledFrom(kinds).Draw(t, "k")}
	switch o.K {
	case "fee":
		o.Q, o.T = rapid.IntRange(0, nq-1).Draw(t, "q"), rapid.IntRange(0, 1).Draw(t, "t")
	case "add":
		o.Q, o.T, o.V = rapid.IntRange(0, nq-1).Draw(t, "q"), rapid.IntRange(0, 1).Draw(t, "t"), rapid.IntRange(0, nFeeVals-1).Draw(t, "v")
	case "exp", "expd", "mar":
		o.Q = rapid.IntRange(0, nq-1).Draw(t, "q")
	case "upd":
		o.Q, o.V = rapid.IntRange(0, nq-1).Draw(t, "q"), rapid.IntRange(0, nTimes-1).Draw(t, "v")
	case "unm":
		o.Q, o.V = rapid.IntRange(0, nq-1).Draw(t, "q"), rapid.IntRange(0, len(docs)-1).Draw(t, "v")
	case "qfee", "quote":
		o.M, o.T = rapid.IntRange(0, nMiners-1).Draw(t, "m"), rapid.IntRange(0, 1).Draw(t, "t")
	case "addm":
		o.M, o.Q = rapid.IntRange(0, nMiners-1).Draw(t, "m"), rapid.IntRange(0, nq-1).Draw(t, "q")
	case "addd":
		o.M = rapid.IntRange(0, nMiners-1).Draw(t, "m")
	case "updm":
		o.M, o.T, o.V = rapid.IntRange(0, nMiners-1).Draw(t, "m"), rapid.IntRange(0, 1).Draw(t, "t"), rapid.IntRange(0, nFeeVals-1).Draw(t, "v")
	}
	o.Y = rapid.IntRange(0, 7).Draw(t, "y") == 0
	return o
}

func genProg(t *rapid.T) Prog {
	p := Prog{Kind: rapid.SampledFrom([]string{"quote", "quotes"}).Draw(t, "kind"),
		Procs:  rapid.SampledFrom([]int{1, 2, 4, 16}).Draw(t, "procs"),
		Rounds: rapid.IntRange(1, 3).Draw(t, "rounds"), NQuotes: 1}
	kinds := quoteOps
	if p.Kind == "quotes" {
		p.NQuotes = rapid.IntRange(1, 4).Draw(t, "nquotes")
		kinds = quotesOps
	}
	// a goroutine is either a mixed worker or specialised on a few operation
	// kinds (hammering one reader against one writer is what exposes a missing lock)
	ng := rapid.IntRange(2, 16).Draw(t, "goroutines")
	for g := 0; g < ng; g++ {
		mine := kinds
		if rapid.Bool().Draw(t, "specialised") {
			mine = rapid.SliceOfN(rapid.SampledFrom(kinds), 1, 3).Draw(t, "mine")
		}
		n := rapid.IntRange(20, 300).Draw(t, "nops")
		ops := make([]Op, n)
		for i := range ops {
			ops[i] = genOp(t, mine, p.NQuotes)
		}
		p.G = append(p.G, ops)
	}
	return p
}

func TestFeeQuotePrograms(t *testing.T) {
	pbt.Run(t, pbt.Sub[Prog]{
		Name: "feequote-programs", Quick: 2400, Thorough: 60000,
		Gen: genProg, Check: checkProg, Precommit: true,
	})
}
