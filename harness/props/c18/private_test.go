package c18

import (
	"encoding/json"
	"fmt"
	"runtime"
	"sync"
	"sync/atomic"
	"testing"

	"github.com/libsv/go-bt/v2"
	"pgregory.net/rapid"

	"verif/harness/pbt"
)

// ---------------------------------------------------------------------------
// sub-check: private. The other sub-checks share one object between the
// goroutines. Here NOTHING is shared: every goroutine constructs quote objects
// of its own, through every constructor (NewFeeQuote, NewFeeQuotes and its
// default quote, AddMinerWithDefault, AddMiner of a fresh quote, a quote filled
// by UnmarshalJSON), and works on them alone - API writes and reads, and edits
// of the fee objects its own quotes hand out through Fee(). Objects that were
// constructed separately and are used by one goroutine each can share nothing:
// the race detector must stay silent, and every goroutine must read back
// exactly what it stored last (another goroutine's number is a value that no
// write to THIS object stored). Afterwards a quote constructed later still has
// the documented defaults.
// ---------------------------------------------------------------------------

// PrivCase is one campaign.
type PrivCase struct {
	Procs      int   `json:"procs"`
	Goroutines int   `json:"goroutines"`
	Rounds     int   `json:"rounds"`
	Ops        []int `json:"ops"` // what each goroutine does per round, in order
}

var privOps = []string{"edit-default-in-place", "addquote", "edit-fetched-in-place", "unmarshal", "updateminer", "edit-miner-default-in-place", "expiry", "marshal"}

func checkPrivate(ctx *pbt.Ctx, c PrivCase) error {
	if skipAbandoned(ctx) {
		return nil
	}
	var bt8 beat
	if c.Procs < 1 || c.Procs > 64 || c.Goroutines < 2 || c.Goroutines > 32 || c.Rounds < 1 || c.Rounds > 5000 || len(c.Ops) == 0 || len(c.Ops) > 32 {
		ctx.Discard("malformed case")
		return nil
	}
	old := runtime.GOMAXPROCS(c.Procs)
	defer runtime.GOMAXPROCS(old)
	def := valOf(func() *bt.Fee { f, _ := bt.NewFeeQuote().Fee(bt.FeeTypeStandard); return f }())
	defData := valOf(func() *bt.Fee { f, _ := bt.NewFeeQuote().Fee(bt.FeeTypeData); return f }())
	var ready, gate int32
	var wg sync.WaitGroup
	var mu sync.Mutex
	var first error
	fail := func(format string, args ...any) {
		mu.Lock()
		if first == nil {
			first = fmt.Errorf(format, args...)
		}
		mu.Unlock()
	}
	for g := 0; g < c.Goroutines; g++ {
		wg.Add(1)
		go func(g int) {
			defer wg.Done()
			atomic.AddInt32(&ready, 1)
			for atomic.LoadInt32(&gate) == 0 {
				runtime.Gosched()
			}
			for round := 0; round < c.Rounds; round++ {
				// objects of this goroutine alone
				q := bt.NewFeeQuote()
				qs := bt.NewFeeQuotes("m0")
				qs.AddMinerWithDefault("m1")
				if f, err := q.Fee(bt.FeeTypeStandard); err != nil || valOf(f) != def {
					fail("goroutine %d, round %d: a quote just constructed by NewFeeQuote reads standard fee %+v, err %v; documented default %+v", g, round, f, err, def)
					return
				}
				if f, err := qs.Fee("m1", bt.FeeTypeData); err != nil || valOf(f) != defData {
					fail("goroutine %d, round %d: the default quote of a miner just added reads data fee %+v, err %v; documented default %+v", g, round, f, err, defData)
					return
				}
				id := (g*977 + round) % (maxG * maxOps)
				bt8.tick()
				for k, op := range c.Ops {
					switch privOps[op%len(privOps)] {
					case "edit-default-in-place":
						f, _ := q.Fee(bt.FeeTypeStandard)
						*f = *feeObj(id, 0)
						if got, _ := q.Fee(bt.FeeTypeStandard); valOf(got) != valOf(feeObj(id, 0)) {
							fail("goroutine %d, round %d, op %d: a fee object of the goroutine's own quote, edited in place, reads %+v instead of %+v", g, round, k, valOf(got), valOf(feeObj(id, 0)))
							return
						}
					case "addquote":
						q.AddQuote(bt.FeeTypeData, feeObj(id, 1))
						if got, _ := q.Fee(bt.FeeTypeData); valOf(got) != valOf(feeObj(id, 1)) {
							fail("goroutine %d, round %d, op %d: AddQuote on the goroutine's own quote, then Fee: %+v instead of %+v", g, round, k, valOf(got), valOf(feeObj(id, 1)))
							return
						}
					case "edit-fetched-in-place":
						f, _ := q.Fee(bt.FeeTypeData)
						f.MiningFee.Satoshis = feeNums(id, 1)[0]
						if got, _ := q.Fee(bt.FeeTypeData); got.MiningFee.Satoshis != feeNums(id, 1)[0] {
							fail("goroutine %d, round %d, op %d: in-place edit of the goroutine's own data fee reads back %d instead of %d", g, round, k, got.MiningFee.Satoshis, feeNums(id, 1)[0])
							return
						}
					case "unmarshal":
						if err := json.Unmarshal([]byte(docText(docBoth, id)), q); err != nil {
							fail("goroutine %d: UnmarshalJSON of a valid document failed: %v", g, err)
							return
						}
						if got, _ := q.Fee(bt.FeeTypeStandard); valOf(got) != valOf(feeObj(id, 0)) {
							fail("goroutine %d, round %d, op %d: after UnmarshalJSON into the goroutine's own quote the standard fee reads %+v instead of %+v", g, round, k, valOf(got), valOf(feeObj(id, 0)))
							return
						}
					case "updateminer":
						if _, err := qs.UpdateMinerFees("m0", bt.FeeTypeStandard, feeObj(id, 0)); err != nil {
							fail("goroutine %d: UpdateMinerFees failed: %v", g, err)
							return
						}
						if got, _ := qs.Fee("m0", bt.FeeTypeStandard); valOf(got) != valOf(feeObj(id, 0)) {
							fail("goroutine %d, round %d, op %d: UpdateMinerFees on the goroutine's own container, then Fee: %+v instead of %+v", g, round, k, valOf(got), valOf(feeObj(id, 0)))
							return
						}
					case "edit-miner-default-in-place":
						f, _ := qs.Fee("m1", bt.FeeTypeStandard)
						*f = *feeObj(id, 0)
						if got, _ := qs.Fee("m1", bt.FeeTypeStandard); valOf(got) != valOf(feeObj(id, 0)) {
							fail("goroutine %d, round %d, op %d: the default fee of the goroutine's own miner, edited in place, reads %+v instead of %+v", g, round, k, valOf(got), valOf(feeObj(id, 0)))
							return
						}
						// the other miner of the same container was constructed separately: its data fee is
						// touched by nothing in this program
						if other, _ := qs.Fee("m0", bt.FeeTypeData); valOf(other) != defData {
							fail("goroutine %d, round %d, op %d: editing miner m1's standard fee in place changed miner m0's data fee to %+v (documented default %+v)", g, round, k, valOf(other), defData)
							return
						}
					case "expiry":
						q.UpdateExpiry(timeOf(id, true))
						if !q.Expiry().Equal(timeOf(id, true)) || q.Expired() {
							fail("goroutine %d, round %d, op %d: expiry of the goroutine's own quote reads %v (expired %v) after UpdateExpiry(%v)", g, round, k, q.Expiry(), q.Expired(), timeOf(id, true))
							return
						}
					default:
						if _, err := json.Marshal(q); err != nil {
							fail("goroutine %d: MarshalJSON failed: %v", g, err)
							return
						}
					}
				}
			}
		}(g)
	}
	for atomic.LoadInt32(&ready) < int32(c.Goroutines) {
		runtime.Gosched()
	}
	atomic.StoreInt32(&gate, 1)
	done := make(chan struct{})
	go func() { wg.Wait(); close(done) }()
	if err := bounded(done, &bt8, fmt.Sprintf("%d goroutines, each on quote objects of its own", c.Goroutines)); err != nil {
		return err
	}
	if first != nil {
		return first
	}
	// at rest: what is constructed now has the documented defaults, whatever the goroutines did to theirs
	if f, err := bt.NewFeeQuote().Fee(bt.FeeTypeStandard); err != nil || valOf(f) != def {
		return fmt.Errorf("a quote constructed after the goroutines finished reads standard fee %+v (err %v); documented default %+v", f, err, def)
	}
	if f, err := bt.NewFeeQuotes("x").Fee("x", bt.FeeTypeData); err != nil || valOf(f) != defData {
		return fmt.Errorf("a container constructed after the goroutines finished reads data fee %+v (err %v); documented default %+v", f, err, defData)
	}
	for _, op := range c.Ops {
		ctx.Label("op=" + privOps[op%len(privOps)])
	}
	ctx.Labelf("procs=%d", c.Procs)
	ctx.NonTrivial()
	return nil
}

func TestPrivate(t *testing.T) {
	pbt.Run(t, pbt.Sub[PrivCase]{
		Name: "private", Quick: 96, Thorough: 2400,
		Gen: func(t *rapid.T) PrivCase {
			c := PrivCase{Procs: rapid.SampledFrom([]int{1, 2, 4, 16}).Draw(t, "procs"), Goroutines: rapid.SampledFrom([]int{2, 3, 4, 8, 16}).Draw(t, "goroutines"),
				Rounds: rapid.SampledFrom([]int{50, 200, 600}).Draw(t, "rounds")}
			n := rapid.IntRange(1, 8).Draw(t, "nops")
			for i := 0; i < n; i++ {
				c.Ops = append(c.Ops, rapid.IntRange(0, len(privOps)-1).Draw(t, "op"))
			}
			return c
		},
		Check: checkPrivate, Precommit: true,
	})
}
