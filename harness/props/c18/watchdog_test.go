package c18

import (
	"fmt"
	"runtime"
	"sort"
	"strings"
	"sync/atomic"
	"time"

	"verif/harness/pbt"
)

// ---------------------------------------------------------------------------
// The bound every sub-check of the package puts on the concurrent part of a
// case. A program of a few thousand library calls takes milliseconds; calls
// that never return (a lock that is lost: taken again by its holder, not
// released on some path) would otherwise keep the process sitting until the
// driver's wall-clock cap and end as "inconclusive". "Many goroutines can call
// these methods at once" includes that the calls return: every sequential
// order of the same calls completes.
//
// The verdict is time based, so it is made only when the case really is
// stuck, however loaded the machine is:
//
//   - the watchdog counts its own one-second ticks, not wall time: a process
//     that was frozen or starved as a whole does not age while it is;
//   - a case is given up after at least stuckAfter ticks AND only if none of
//     its operations completed during the last quietFor ticks (every
//     goroutine of a case counts each call that returned).
//
// A case given up leaves its goroutines behind (they are blocked inside the
// library). The process is then no place to judge further cases - and rapid
// would spend 120 s on every shrink attempt - so all later cases of the
// process are skipped (discarded); the failing case is on disk by then and the
// driver replays it in a fresh process.
// ---------------------------------------------------------------------------

const (
	stuckAfter = 120 // ticks (seconds) the concurrent part of a case is given at least
	quietFor   = 60  // ... of which the last 60 passed without a single completed operation
)

var abandoned atomic.Bool

// beat counts the completed operations of the running case.
type beat struct{ n atomic.Int64 }

func (b *beat) tick() { b.n.Add(1) }

// skipAbandoned is called first by every Check of the package.
func skipAbandoned(ctx *pbt.Ctx) bool {
	if abandoned.Load() && !pbt.Replaying() {
		ctx.Discard("skipped: an earlier case of this process was given up with its goroutines blocked")
		return true
	}
	return false
}

// bounded waits until done is closed. It returns an error when the case is stuck.
func bounded(done <-chan struct{}, b *beat, what string) error {
	tm := time.NewTicker(time.Second)
	defer tm.Stop()
	ticks, quiet := 0, 0
	last := b.n.Load()
	for {
		select {
		case <-done:
			return nil
		case <-tm.C:
		}
		ticks++
		if n := b.n.Load(); n != last {
			last, quiet = n, 0
		} else {
			quiet++
		}
		if ticks >= stuckAfter && quiet >= quietFor {
			select {
			case <-done:
				return nil
			default:
			}
			abandoned.Store(true)
			return fmt.Errorf("%s: the calls did not return within %d s and none of them completed during the last %d s (%d completed before); every sequential order of these calls returns. Goroutines inside the library: %s",
				what, ticks, quiet, last, blockedSummary())
		}
	}
}

// blockedSummary names the innermost go-bt function of every goroutine that is inside the library.
func blockedSummary() string {
	buf := make([]byte, 1<<20)
	buf = buf[:runtime.Stack(buf, true)]
	count := map[string]int{}
	for _, g := range strings.Split(string(buf), "\n\n") {
		for _, l := range strings.Split(g, "\n") {
			if i := strings.Index(l, "github.com/libsv/go-bt/v2"); i == 0 {
				fn := l
				if j := strings.LastIndex(fn, "("); j > 0 {
					fn = fn[:j]
				}
				fn = strings.TrimPrefix(fn, "github.com/libsv/go-bt/v2")
				count[strings.TrimLeft(fn, "./")]++
				break
			}
		}
	}
	if len(count) == 0 {
		return "none"
	}
	var out []string
	for k, v := range count {
		out = append(out, fmt.Sprintf("%s x%d", k, v))
	}
	sort.Strings(out)
	return strings.Join(out, ", ")
}
