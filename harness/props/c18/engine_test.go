package c18

import (
	"context"
	"crypto/sha256"
	"encoding/hex"
	"fmt"
	"math/big"
	"runtime"
	"sync"
	"testing"

	"github.com/libsv/go-bk/bec"
	"github.com/libsv/go-bk/crypto"
	"github.com/libsv/go-bt/v2"
	"github.com/libsv/go-bt/v2/bscript"
	"github.com/libsv/go-bt/v2/bscript/interpreter"
	"github.com/libsv/go-bt/v2/sighash"
	"github.com/libsv/go-bt/v2/unlocker"
	"pgregory.net/rapid"

	"verif/harness/interp"
	"verif/harness/libexec"
	"verif/harness/pbt"
	"verif/harness/sgen"
)

// Job is one validation: a signed P2PKH spend (valid, or corrupted after
// signing) or a plain script pair.
type Job struct {
	Kind  string  `json:"kind"` // valid | sigflip | wrongkey | outtamper | amount | add | hash
	Key   pbt.Hex `json:"key,omitempty"`
	NIn   int     `json:"nin,omitempty"`
	NOut  int     `json:"nout,omitempty"`
	Idx   int     `json:"idx,omitempty"`  // input that is validated
	Salt  int     `json:"salt,omitempty"` // varies txids, values and output scripts
	Flag  int     `json:"flag,omitempty"` // signature hash type byte
	Pos   int     `json:"pos,omitempty"`  // sigflip: which signature byte
	A     int     `json:"a,omitempty"`    // script jobs: operands
	B     int     `json:"b,omitempty"`
	C     int     `json:"c,omitempty"`
	Lock  pbt.Hex `json:"lock,omitempty"`   // prog / cond jobs: generated scripts
	Un    pbt.Hex `json:"unlock,omitempty"`
	Flags uint32  `json:"flags,omitempty"`
	Owner int     `json:"owner"` // goroutine that validates it in the concurrent phase
	Yield bool    `json:"yield,omitempty"`
}

// EngCase is a set of jobs validated sequentially and then concurrently on one Engine.
type EngCase struct {
	Procs      int   `json:"procs"`
	Goroutines int   `json:"goroutines"`
	Jobs       []Job `json:"jobs"`
	// SharedOpts (round 11): in the concurrent phase the option values (WithFlags(x), WithForkID(),
	// WithAfterGenesis(), WithP2SH()) are built once and handed to every Execute call that needs them,
	// from every goroutine - the way a validator loop holds its options; the sequential phase, which
	// gives the expected verdicts, builds fresh values per call
	SharedOpts bool `json:"shared_opts,omitempty"`
}

// built is a job ready to run: everything the engine gets is rebuilt from these
// bytes for every run, so the two phases share no objects.
type built struct {
	tx       []byte
	idx      int
	prev     []byte
	sats     uint64
	lock, un []byte // script jobs
	flags    *uint32 // prog jobs run under their own flag set
}

var curveN = bec.S256().N

func keyOf(b []byte) *bec.PrivateKey {
	k := new(big.Int).SetBytes(b)
	if len(b) != 32 || k.Sign() <= 0 || k.Cmp(curveN) >= 0 {
		return nil
	}
	p, _ := bec.PrivKeyFromBytes(bec.S256(), b)
	return p
}

func p2pkh(h []byte) []byte {
	return append(append([]byte{0x76, 0xa9, 0x14}, h...), 0x88, 0xac)
}

func smallInt(n int) byte { return byte(0x50 + n) } // OP_1..OP_16

func materialise(j Job) (*built, error) {
	switch j.Kind {
	case "prog", "cond": // a generated program (conditionals, alt stack, separators: all per-execution state)
		f := j.Flags
		return &built{un: j.Un, lock: j.Lock, flags: &f}, nil
	case "add": // <a> <b> | OP_ADD <c> OP_NUMEQUAL
		if j.A < 1 || j.A > 16 || j.B < 1 || j.B > 16 || j.C < 1 || j.C > 16 {
			return nil, fmt.Errorf("operands out of range")
		}
		return &built{un: []byte{smallInt(j.A), smallInt(j.B)}, lock: []byte{0x93, smallInt(j.C), 0x9c}}, nil
	case "hash": // <data> | OP_SHA256 <digest> OP_EQUAL ; C != 0 corrupts the digest
		d := []byte(fmt.Sprintf("payload-%d-%d", j.A, j.B))
		h := sha256.Sum256(d)
		if j.C != 0 {
			h[j.C%32] ^= 1
		}
		return &built{un: append([]byte{byte(len(d))}, d...), lock: append(append([]byte{0xa8, 0x20}, h[:]...), 0x87)}, nil
	}
	key := keyOf(j.Key)
	if key == nil || j.NIn < 1 || j.NIn > 4 || j.NOut < 1 || j.NOut > 4 || j.Idx < 0 || j.Idx >= j.NIn {
		return nil, fmt.Errorf("job outside domain")
	}
	lock := p2pkh(crypto.Hash160(key.PubKey().SerialiseCompressed()))
	tx := bt.NewTx()
	for i := 0; i < j.NIn; i++ {
		id := sha256.Sum256([]byte(fmt.Sprintf("in-%d-%d", j.Salt, i)))
		if err := tx.From(hex.EncodeToString(id[:]), uint32(i+j.Salt%3), hex.EncodeToString(lock), uint64(1000+97*i+j.Salt)); err != nil {
			return nil, err
		}
	}
	for o := 0; o < j.NOut; o++ {
		h := sha256.Sum256([]byte(fmt.Sprintf("out-%d-%d", j.Salt, o)))
		tx.AddOutput(&bt.Output{Satoshis: uint64(100 + 11*o + j.Salt%50), LockingScript: bscript.NewFromBytes(p2pkh(h[:20]))})
	}
	signer := key
	if j.Kind == "wrongkey" {
		kb := append([]byte{}, j.Key...)
		kb[31] ^= 0x55
		if signer = keyOf(kb); signer == nil {
			return nil, fmt.Errorf("derived key invalid")
		}
	}
	for i := 0; i < j.NIn; i++ {
		k := key
		if i == j.Idx {
			k = signer
		}
		if err := tx.FillInput(context.Background(), &unlocker.Simple{PrivateKey: k}, bt.UnlockerParams{InputIdx: uint32(i), SigHashFlags: sighash.Flag(j.Flag)}); err != nil {
			return nil, err
		}
	}
	b := &built{idx: j.Idx, prev: lock, sats: tx.Inputs[j.Idx].PreviousTxSatoshis}
	switch j.Kind {
	case "sigflip":
		us := *tx.Inputs[j.Idx].UnlockingScript
		us[5+j.Pos%60] ^= 0x04 // inside the DER signature
	case "outtamper":
		o := j.Idx
		if o >= j.NOut {
			o = j.NOut - 1
		}
		tx.Outputs[o].Satoshis++
	case "amount":
		b.sats++
	}
	b.tx = tx.Bytes()
	return b, nil
}

func (b *built) run(e interpreter.Engine, salt int) string {
	var err error
	// libexec.FlagOpts: fresh option values in one of the equivalent forms, or - while a pool is
	// installed - the pool's shared values
	std := interp.FlagForkID | interp.FlagAfterGenesis
	if b.tx == nil && b.flags != nil {
		err = e.Execute(append([]interpreter.ExecutionOptionFunc{interpreter.WithScripts(bscript.NewFromBytes(append([]byte{}, b.lock...)), bscript.NewFromBytes(append([]byte{}, b.un...)))},
			libexec.FlagOpts(interp.Flags(*b.flags), salt)...)...)
	} else if b.tx == nil {
		err = e.Execute(append([]interpreter.ExecutionOptionFunc{interpreter.WithScripts(bscript.NewFromBytes(append([]byte{}, b.lock...)), bscript.NewFromBytes(append([]byte{}, b.un...)))},
			libexec.FlagOpts(std, 1+salt%2)...)...)
	} else {
		tx, perr := bt.NewTxFromBytes(b.tx)
		if perr != nil {
			return "harness: " + perr.Error()
		}
		err = e.Execute(append([]interpreter.ExecutionOptionFunc{interpreter.WithTx(tx, b.idx, &bt.Output{LockingScript: bscript.NewFromBytes(append([]byte{}, b.prev...)), Satoshis: b.sats})},
			libexec.FlagOpts(std, 1+salt%2)...)...)
	}
	if err == nil {
		return ""
	}
	return err.Error()
}

func checkEngine(ctx *pbt.Ctx, c EngCase) error {
	if skipAbandoned(ctx) {
		return nil
	}
	var bt8 beat
	if c.Procs < 1 || c.Procs > 64 || c.Goroutines < 1 || c.Goroutines > 64 || len(c.Jobs) == 0 {
		ctx.Discard("outside domain")
		return nil
	}
	bs := make([]*built, len(c.Jobs))
	for i, j := range c.Jobs {
		b, err := materialise(j)
		if err != nil || j.Owner < 0 || j.Owner >= c.Goroutines {
			ctx.Discard("job outside domain")
			return nil
		}
		bs[i] = b
	}
	eng := interpreter.NewEngine()
	seq := make([]string, len(bs))
	for i, b := range bs {
		seq[i] = b.run(eng, i)
	}
	if c.SharedOpts {
		libexec.SetPool(libexec.NewOptPool())
		defer libexec.SetPool(nil)
		ctx.Label("option values shared by the goroutines")
	}
	prev := runtime.GOMAXPROCS(c.Procs)
	defer runtime.GOMAXPROCS(prev)
	conc := make([]string, len(bs))
	start := make(chan struct{})
	var wg sync.WaitGroup
	for g := 0; g < c.Goroutines; g++ {
		wg.Add(1)
		go func(g int) {
			defer wg.Done()
			<-start
			for i, j := range c.Jobs {
				if j.Owner != g {
					continue
				}
				func() {
					defer func() {
						if x := recover(); x != nil {
							conc[i] = fmt.Sprintf("panic: %v", x)
						}
					}()
					conc[i] = bs[i].run(eng, i+g)
				}()
				bt8.tick()
				if j.Yield {
					runtime.Gosched()
				}
			}
		}(g)
	}
	close(start)
	done := make(chan struct{})
	go func() { wg.Wait(); close(done) }()
	if err := bounded(done, &bt8, fmt.Sprintf("%d goroutines validating %d jobs on one engine (GOMAXPROCS %d)", c.Goroutines, len(c.Jobs), c.Procs)); err != nil {
		return err
	}
	nOK, nErr := 0, 0
	busy := map[int]bool{}
	for i := range bs {
		if seq[i] != conc[i] {
			return fmt.Errorf("job %d %+v: sequential verdict %q, concurrent verdict (goroutine %d of %d, GOMAXPROCS %d) %q",
				i, c.Jobs[i], seq[i], c.Jobs[i].Owner, c.Goroutines, c.Procs, conc[i])
		}
		// what the verdict has to be is known by construction for four kinds of job (every hash type
		// drawn carries FORKID, so the spent amount is always committed): a sequential phase that is
		// wrong in the same way as the concurrent one is still wrong
		switch k := c.Jobs[i].Kind; {
		case k == "valid" && seq[i] != "":
			return fmt.Errorf("job %d %+v: a spend signed by the library for the key the output pays is rejected (sequential phase, after %d other validations in this process): %s", i, c.Jobs[i], i, seq[i])
		case (k == "sigflip" || k == "wrongkey" || k == "amount") && seq[i] == "":
			return fmt.Errorf("job %d %+v: a corrupted spend (%s) is accepted (sequential phase)", i, c.Jobs[i], k)
		}
		if seq[i] == "" {
			nOK++
		} else {
			nErr++
		}
		busy[c.Jobs[i].Owner] = true
		v := "accepted"
		if seq[i] != "" {
			v = "rejected"
		}
		ctx.Label("job:" + c.Jobs[i].Kind + ":" + v)
	}
	ctx.Labelf("procs:%d", c.Procs)
	ctx.Labelf("goroutines:%s", bucket(len(busy), 1, 2, 4, 8, 16))
	ctx.Labelf("jobs:%s", bucket(len(bs), 16, 50, 100, 200))
	if len(busy) >= 2 && nOK > 0 && nErr > 0 {
		ctx.NonTrivial()
	}
	return nil
}

func bytesRepeat(b byte, n int) []byte {
	o := make([]byte, n)
	for i := range o {
		o[i] = b
	}
	return o
}

var sigFlags = []int{0x41, 0x41, 0x41, 0x42, 0x43, 0xc1, 0xc2, 0xc3}

func genEngine(t *rapid.T) EngCase {
	c := EngCase{Procs: rapid.SampledFrom([]int{1, 2, 4, 16}).Draw(t, "procs"), Goroutines: rapid.IntRange(2, 16).Draw(t, "goroutines")}
	n := rapid.IntRange(16, 200).Draw(t, "jobs")
	nk := rapid.IntRange(1, 4).Draw(t, "nkeys")
	keys := make([]pbt.Hex, nk)
	for i := range keys {
		b := rapid.SliceOfN(rapid.Byte(), 32, 32).Draw(t, "key")
		b[0] &= 0x7f
		b[1] |= 0x01 // never zero, and the wrong-key twin stays in range
		keys[i] = b
	}
	// related keys: the negation N-d of a key of the pool has the same X coordinate and the other
	// parity - two different keys that anything keyed by a part of the encoding takes for one
	if rapid.IntRange(0, 2).Draw(t, "negated_keys") == 0 {
		for i := 0; i < nk; i++ {
			d := new(big.Int).Sub(curveN, new(big.Int).SetBytes(keys[i]))
			nb := d.Bytes()
			keys = append(keys, append(make(pbt.Hex, 32-len(nb)), nb...))
		}
		nk = len(keys)
	}
	for i := 0; i < n; i++ {
		j := Job{Kind: rapid.SampledFrom([]string{"valid", "valid", "valid", "sigflip", "wrongkey", "outtamper", "amount", "add", "hash", "prog", "prog", "cond", "cond"}).Draw(t, "kind"),
			Owner: rapid.IntRange(0, c.Goroutines-1).Draw(t, "owner"), Yield: rapid.IntRange(0, 5).Draw(t, "yield") == 0}
		switch j.Kind {
		case "prog":
			fl := sgen.Flags(t, sgen.FlagPoolNonSig)
			pr := sgen.StackAware(t, fl, 25)
			j.Un, j.Lock, j.Flags = pr.Unlock, pr.Lock, uint32(pr.Flags)
			// signature / locktime opcodes need a transaction: keep these jobs script-only
			for i, b := range j.Lock {
				if b >= 0xac && b <= 0xb2 && b != 0xb0 {
					j.Lock[i] = 0x61
				}
			}
			for i, b := range j.Un {
				if b >= 0xac && b <= 0xb2 && b != 0xb0 {
					j.Un[i] = 0x61
				}
			}
		case "cond":
			// <v> | IF <n NOPs> <a> ELSE <n NOPs> <b> ENDIF, optionally nested and with the alt stack:
			// long enough for executions to overlap, verdict decided by the branch state
			n := rapid.IntRange(20, 300).Draw(t, "cond_n")
			v := byte(rapid.IntRange(0, 1).Draw(t, "cond_v"))
			a, b := byte(rapid.IntRange(0, 1).Draw(t, "cond_a")), byte(rapid.IntRange(0, 1).Draw(t, "cond_b"))
			nop := func(k int) []byte { return bytesRepeat(0x61, k) }
			pushBit := func(x byte) byte {
				if x == 0 {
					return 0x00
				}
				return 0x51
			}
			lock := []byte{0x63}
			if rapid.Bool().Draw(t, "cond_nested") {
				lock = append(lock, 0x51, 0x63)
				lock = append(lock, nop(n/2)...)
				lock = append(lock, 0x67)
				lock = append(lock, nop(n/2)...)
				lock = append(lock, 0x68)
			}
			lock = append(lock, nop(n)...)
			lock = append(lock, pushBit(a), 0x6b, 0x6c, 0x67) // result through the alt stack
			lock = append(lock, nop(n)...)
			lock = append(lock, pushBit(b), 0x68)
			j.Un, j.Lock, j.Flags = []byte{pushBit(v)}, lock, 1<<14
		case "add":
			j.A, j.B = rapid.IntRange(1, 8).Draw(t, "a"), rapid.IntRange(1, 8).Draw(t, "b")
			j.C = j.A + j.B
			if rapid.IntRange(0, 2).Draw(t, "wrong") == 0 {
				j.C = rapid.IntRange(1, 16).Draw(t, "c")
			}
		case "hash":
			j.A, j.B = rapid.IntRange(0, 1000).Draw(t, "a"), rapid.IntRange(0, 1000).Draw(t, "b")
			if rapid.IntRange(0, 2).Draw(t, "wrong") == 0 {
				j.C = rapid.IntRange(1, 255).Draw(t, "c")
			}
		default:
			j.Key = keys[rapid.IntRange(0, nk-1).Draw(t, "keyidx")]
			j.NIn, j.NOut = rapid.IntRange(1, 3).Draw(t, "nin"), rapid.IntRange(1, 3).Draw(t, "nout")
			j.Idx = rapid.IntRange(0, j.NIn-1).Draw(t, "idx")
			j.Salt = rapid.IntRange(0, 100000).Draw(t, "salt")
			j.Flag = rapid.SampledFrom(sigFlags).Draw(t, "flag")
			j.Pos = rapid.IntRange(0, 59).Draw(t, "pos")
		}
		c.Jobs = append(c.Jobs, j)
	}
	c.SharedOpts = rapid.Bool().Draw(t, "shared_opts")
	return c
}

func TestEngineConcurrent(t *testing.T) {
	pbt.Run(t, pbt.Sub[EngCase]{
		Name: "engine-concurrent", Quick: 96, Thorough: 1500,
		Gen: genEngine, Check: checkEngine, Precommit: true,
	})
}
