package c18

import (
	"fmt"
	"runtime"
	"sort"
	"strings"
	"sync"
	"sync/atomic"
	"testing"

	"github.com/libsv/go-bt/v2"
	"pgregory.net/rapid"

	"verif/harness/pbt"
)

// ---------------------------------------------------------------------------
// sub-check: atomic (round 11). Two or three goroutines, released by a spin
// barrier, perform ONE container-level call each on a shared FeeQuotes; hundreds
// to thousands of rounds per case. A thread-safe container performs each call
// atomically, so what every call returned and what the container holds after the
// join must be what SOME sequential order of the same calls gives. The expected
// outcomes come from running the calls one after the other, in every order, on
// fresh objects (at most six orders, computed once per case). This is the
// "concurrent equals sequential" oracle applied to the fee-quote container: the
// quiescent rule of `feequote-programs` looks at fee values and expiry times
// only, never at WHICH quote object a miner name is bound to - seeded change
// C18-19 (UpdateMinerFees looks the miner up under the read lock, lets go, and
// writes the stale binding back under the write lock) undoes a completed AddMiner
// without a data race, a deadlock or a value nobody wrote.
// ---------------------------------------------------------------------------

// LinOp is one call. K: addm = AddMiner(name, pool quote Q), addd = AddMinerWithDefault(name),
// updm = UpdateMinerFees(name, type T, fee), qadd = pool quote Q .AddQuote(type T, fee),
// quote = Quote(name), fee = Fee(name, type T).
type LinOp struct {
	K string `json:"k"`
	M int    `json:"m"` // miner name index: 0 = the miner the container starts with, 1 = another
	Q int    `json:"q"` // pool quote 0..1
	T int    `json:"t"` // fee type index
}

// LinCase is the set of calls (one per goroutine), the rounds and the scheduler width.
type LinCase struct {
	Ops    []LinOp `json:"ops"`
	Rounds int     `json:"rounds"`
	Procs  int     `json:"procs"`
	// Busy: a further goroutine keeps reading the initial quote's fees meanwhile (its answers are
	// not judged; it only makes the quote's own lock a contended one)
	Busy bool `json:"busy"`
}

var linKinds = []string{"addm", "addd", "updm", "updm", "qadd", "quote", "fee"}

type linWorld struct {
	qs   *bt.FeeQuotes
	init *bt.FeeQuote
	pool [2]*bt.FeeQuote
}

func newLinWorld() *linWorld {
	w := &linWorld{qs: bt.NewFeeQuotes("m0")}
	w.init, _ = w.qs.Quote("m0")
	w.pool[0], w.pool[1] = bt.NewFeeQuote(), bt.NewFeeQuote()
	return w
}

func linName(m int) string { return fmt.Sprintf("m%d", m&1) }

func (w *linWorld) class(q *bt.FeeQuote) string {
	switch q {
	case nil:
		return "none"
	case w.init:
		return "init"
	case w.pool[0]:
		return "Q0"
	case w.pool[1]:
		return "Q1"
	}
	return "fresh"
}

func feeText(f *bt.Fee, err error) string {
	if err != nil || f == nil {
		return "-"
	}
	return fmt.Sprint(valOf(f))
}

// do performs op number i and renders what the call returned.
func (w *linWorld) do(i int, o LinOp) string {
	ft := feeTypes[o.T&1]
	switch o.K {
	case "addm":
		w.qs.AddMiner(linName(o.M), w.pool[o.Q&1])
		return ""
	case "addd":
		w.qs.AddMinerWithDefault(linName(o.M))
		return ""
	case "updm":
		q, err := w.qs.UpdateMinerFees(linName(o.M), ft, feeObj(wid(i+1, 0), o.T&1))
		return fmt.Sprintf("%s/%v", w.class(q), err == nil)
	case "qadd":
		w.pool[o.Q&1].AddQuote(ft, feeObj(wid(i+1, 1), o.T&1))
		return ""
	case "quote":
		q, err := w.qs.Quote(linName(o.M))
		return fmt.Sprintf("%s/%v", w.class(q), err == nil)
	default:
		f, err := w.qs.Fee(linName(o.M), ft)
		return feeText(f, err)
	}
}

// rest renders the container at rest: the binding of both names and the fees reachable through them
// and through the pool quotes.
func (w *linWorld) rest() string {
	var sb strings.Builder
	for m := 0; m < 2; m++ {
		q, _ := w.qs.Quote(linName(m))
		fmt.Fprintf(&sb, "%s->%s", linName(m), w.class(q))
		for t := range feeTypes {
			f, err := w.qs.Fee(linName(m), feeTypes[t])
			fmt.Fprintf(&sb, " %s", feeText(f, err))
		}
		sb.WriteString("; ")
	}
	for k, q := range []*bt.FeeQuote{w.init, w.pool[0], w.pool[1]} {
		fmt.Fprintf(&sb, "q%d:", k)
		for t := range feeTypes {
			f, err := q.Fee(feeTypes[t])
			fmt.Fprintf(&sb, " %s", feeText(f, err))
		}
		sb.WriteString("; ")
	}
	return sb.String()
}

func permutations(n int) [][]int {
	if n == 1 {
		return [][]int{{0}}
	}
	var out [][]int
	for _, p := range permutations(n - 1) {
		for pos := 0; pos <= len(p); pos++ {
			q := append(append(append([]int{}, p[:pos]...), n-1), p[pos:]...)
			out = append(out, q)
		}
	}
	return out
}

func linValid(c LinCase) bool {
	if len(c.Ops) < 2 || len(c.Ops) > 3 || c.Rounds < 1 || c.Rounds > 20000 || c.Procs < 1 || c.Procs > 64 {
		return false
	}
	for _, o := range c.Ops {
		ok := false
		for _, k := range linKinds {
			ok = ok || k == o.K
		}
		if !ok {
			return false
		}
	}
	return true
}

func checkLin(ctx *pbt.Ctx, c LinCase) error {
	if skipAbandoned(ctx) {
		return nil
	}
	if !linValid(c) {
		ctx.Discard("malformed case")
		return nil
	}
	// the outcomes of every sequential order
	allowed := map[string][]int{}
	for _, perm := range permutations(len(c.Ops)) {
		w := newLinWorld()
		res := make([]string, len(c.Ops))
		for _, i := range perm {
			res[i] = w.do(i, c.Ops[i])
		}
		allowed[strings.Join(res, "|")+" || "+w.rest()] = perm
	}
	old := runtime.GOMAXPROCS(c.Procs)
	defer runtime.GOMAXPROCS(old)
	var bt8 beat
	// the spinning reader costs a whole P: under GOMAXPROCS 2 it is left out, and with it the rounds are capped
	rounds, busyOn := c.Rounds, c.Busy && c.Procs >= 4
	if busyOn && rounds > 400 {
		rounds = 400
	}
	for round := 0; round < rounds; round++ {
		w := newLinWorld()
		res := make([]string, len(c.Ops))
		var ready, gate, stop int32
		var wg sync.WaitGroup
		for i := range c.Ops {
			wg.Add(1)
			go func(i int) {
				defer wg.Done()
				atomic.AddInt32(&ready, 1)
				for atomic.LoadInt32(&gate) == 0 {
					runtime.Gosched()
				}
				res[i] = w.do(i, c.Ops[i])
				bt8.tick()
			}(i)
		}
		var busy sync.WaitGroup
		if busyOn {
			busy.Add(1)
			go func() {
				defer busy.Done()
				for atomic.LoadInt32(&stop) == 0 {
					_, _ = w.init.Fee(bt.FeeTypeStandard)
					_, _ = w.init.Fee(bt.FeeTypeData)
				}
			}()
		}
		for atomic.LoadInt32(&ready) < int32(len(c.Ops)) {
			runtime.Gosched()
		}
		atomic.StoreInt32(&gate, 1)
		done := make(chan struct{})
		go func() { wg.Wait(); atomic.StoreInt32(&stop, 1); busy.Wait(); close(done) }()
		if err := bounded(done, &bt8, fmt.Sprintf("atomic %+v, round %d", c.Ops, round)); err != nil {
			return err
		}
		got := strings.Join(res, "|") + " || " + w.rest()
		if _, ok := allowed[got]; !ok {
			var want []string
			for k, perm := range allowed {
				want = append(want, fmt.Sprintf("order %v: %s", perm, k))
			}
			sort.Strings(want)
			return fmt.Errorf("round %d: the calls %+v, one per goroutine on a fresh container, returned and left behind\n  %s\nwhich no sequential order of the same calls gives:\n  %s", round, c.Ops, got, strings.Join(want, "\n  "))
		}
	}
	kinds := map[string]bool{}
	writers, sameName := 0, false
	for i, o := range c.Ops {
		kinds[o.K] = true
		if o.K == "addm" || o.K == "addd" || o.K == "updm" {
			writers++
			for _, p := range c.Ops[:i] {
				if (p.K == "addm" || p.K == "addd" || p.K == "updm") && p.M&1 == o.M&1 && p.K != o.K {
					sameName = true
				}
			}
		}
	}
	var ks []string
	for k := range kinds {
		ks = append(ks, k)
	}
	sort.Strings(ks)
	ctx.Label("atomic=" + strings.Join(ks, "+"))
	ctx.Labelf("orders=%d", len(allowed))
	if sameName {
		ctx.Label("two different container-level writers on one miner name")
	}
	if writers >= 2 || (writers >= 1 && len(allowed) >= 2) {
		ctx.NonTrivial()
	}
	return nil
}

func genLin(t *rapid.T) LinCase {
	c := LinCase{Rounds: rapid.SampledFrom([]int{150, 400, 1000}).Draw(t, "rounds"), Procs: rapid.SampledFrom([]int{2, 4, 16}).Draw(t, "procs"), Busy: rapid.Bool().Draw(t, "busy")}
	n := rapid.SampledFrom([]int{2, 2, 3}).Draw(t, "ops")
	for i := 0; i < n; i++ {
		c.Ops = append(c.Ops, LinOp{K: rapid.SampledFrom(linKinds).Draw(t, "k"), M: rapid.SampledFrom([]int{0, 0, 0, 1}).Draw(t, "m"),
			Q: rapid.IntRange(0, 1).Draw(t, "q"), T: rapid.IntRange(0, 1).Draw(t, "t")})
	}
	return c
}

func TestAtomic(t *testing.T) {
	pbt.Run(t, pbt.Sub[LinCase]{
		Name: "atomic", Quick: 96, Thorough: 1200,
		Gen: genLin, Check: checkLin, Precommit: true,
	})
}
