// Package c01 decides property C01: the transaction wire codec (standard,
// extended, stream, block list) is lossless and canonical. Every comparison is
// against the independent reference codec in harness/ref (never library vs
// library only) and std-lib crypto/sha256 for the transaction id.
package c01

import (
	"bytes"
	"crypto/sha256"
	"encoding/hex"
	"fmt"
	"io"
	"testing"
	"testing/iotest"

	"github.com/libsv/go-bt/v2"
	"pgregory.net/rapid"

	"verif/harness/gen"
	"verif/harness/pbt"
	"verif/harness/ref"
)

func TestMain(m *testing.M) { pbt.Main(m) }

// ---------------------------------------------------------------------------
// helpers

func sha256d(b []byte) []byte {
	a := sha256.Sum256(b)
	c := sha256.Sum256(a[:])
	return c[:]
}

func head(b []byte) string {
	if len(b) <= 96 {
		return hex.EncodeToString(b)
	}
	return fmt.Sprintf("%x...(%d bytes)...%x", b[:48], len(b), b[len(b)-24:])
}

// firstDiff describes where two byte strings start to differ.
func firstDiff(got, want []byte) string {
	n := len(got)
	if len(want) < n {
		n = len(want)
	}
	i := 0
	for i < n && got[i] == want[i] {
		i++
	}
	lo := i - 8
	if lo < 0 {
		lo = 0
	}
	hg, hw := i+16, i+16
	if hg > len(got) {
		hg = len(got)
	}
	if hw > len(want) {
		hw = len(want)
	}
	return fmt.Sprintf("len got=%d want=%d, first difference at offset %d: got ..%x want ..%x", len(got), len(want), i, got[lo:hg], want[lo:hw])
}

func validModel(m ref.Tx) error {
	for i, in := range m.In {
		if len(in.TxID) != 32 {
			return fmt.Errorf("input %d: txid of %d bytes", i, len(in.TxID))
		}
		if in.UnlockNil && len(in.Unlock) != 0 {
			return fmt.Errorf("input %d: unlock_nil with unlock bytes", i)
		}
		if in.PrevNil && len(in.PrevScript) != 0 {
			return fmt.Errorf("input %d: prev_nil with prev_script bytes", i)
		}
	}
	return nil
}

// stripPrev is the model of what a standard-format decode knows: no previous
// output data (which the extended serialisation writes as value 0, length 0).
func stripPrev(m ref.Tx) ref.Tx {
	o := ref.Tx{Version: m.Version, LockTime: m.LockTime, Out: m.Out}
	for _, in := range m.In {
		in.PrevSats, in.PrevScript, in.PrevNil = 0, nil, true
		o.In = append(o.In, in)
	}
	return o
}

func cls(n int) string {
	switch {
	case n == 0:
		return "0"
	case n < 252:
		return "1..251"
	case n == 252:
		return "252"
	case n == 253:
		return "253"
	case n < 65535:
		return "254..65534"
	case n == 65535:
		return "65535"
	case n == 65536:
		return "65536"
	}
	return ">65536"
}

type shapeInfo struct {
	maxScript    int
	emptyPrev    bool
	nilUnlock    bool
	nilPrev      bool
	anyBigVarint bool
}

func shapeOf(m ref.Tx) shapeInfo {
	var s shapeInfo
	up := func(n int) {
		if n > s.maxScript {
			s.maxScript = n
		}
	}
	for _, in := range m.In {
		up(len(in.Unlock))
		up(len(in.PrevScript))
		if len(in.PrevScript) == 0 {
			s.emptyPrev = true
		}
		s.nilUnlock = s.nilUnlock || in.UnlockNil
		s.nilPrev = s.nilPrev || in.PrevNil
	}
	for _, o := range m.Out {
		up(len(o.Script))
	}
	s.anyBigVarint = s.maxScript >= 253 || len(m.In) >= 253 || len(m.Out) >= 253
	return s
}

// sameAs checks a decoded library object against the model.
func sameAs(what string, tx *bt.Tx, m ref.Tx, extended bool) error {
	got := ref.FromLib(tx)
	if !ref.SameWire(got, m, extended) {
		return fmt.Errorf("%s: decoded fields differ from the model (extended=%v): %s", what, extended, describeDiff(got, m, extended))
	}
	return nil
}

func describeDiff(a, b ref.Tx, extended bool) string {
	if a.Version != b.Version {
		return fmt.Sprintf("version %d vs %d", a.Version, b.Version)
	}
	if a.LockTime != b.LockTime {
		return fmt.Sprintf("locktime %d vs %d", a.LockTime, b.LockTime)
	}
	if len(a.In) != len(b.In) || len(a.Out) != len(b.Out) {
		return fmt.Sprintf("counts in %d/%d out %d/%d", len(a.In), len(b.In), len(a.Out), len(b.Out))
	}
	for i := range a.In {
		x, y := a.In[i], b.In[i]
		switch {
		case !bytes.Equal(x.TxID, y.TxID):
			return fmt.Sprintf("input %d txid %x vs %x", i, x.TxID, y.TxID)
		case x.Vout != y.Vout:
			return fmt.Sprintf("input %d vout %d vs %d", i, x.Vout, y.Vout)
		case x.Seq != y.Seq:
			return fmt.Sprintf("input %d sequence %d vs %d", i, x.Seq, y.Seq)
		case !bytes.Equal(x.Unlock, y.Unlock):
			return fmt.Sprintf("input %d unlocking script %s vs %s", i, head(x.Unlock), head(y.Unlock))
		case extended && x.PrevSats != y.PrevSats:
			return fmt.Sprintf("input %d previous satoshis %d vs %d", i, x.PrevSats, y.PrevSats)
		case extended && !bytes.Equal(x.PrevScript, y.PrevScript):
			return fmt.Sprintf("input %d previous script %s vs %s", i, head(x.PrevScript), head(y.PrevScript))
		}
	}
	for i := range a.Out {
		if a.Out[i].Sats != b.Out[i].Sats {
			return fmt.Sprintf("output %d satoshis %d vs %d", i, a.Out[i].Sats, b.Out[i].Sats)
		}
		if !bytes.Equal(a.Out[i].Script, b.Out[i].Script) {
			return fmt.Sprintf("output %d script %s vs %s", i, head(a.Out[i].Script), head(b.Out[i].Script))
		}
	}
	return "(no field difference found)"
}

func eqBytes(what string, got, want []byte) error {
	if !bytes.Equal(got, want) {
		return fmt.Errorf("%s: %s", what, firstDiff(got, want))
	}
	return nil
}

// ---------------------------------------------------------------------------
// (a) model -> library object -> bytes -> library object

// checkModel is the oracle of sub-checks "model" and "boundary".
func checkModel(ctx *pbt.Ctx, m ref.Tx) error {
	if err := validModel(m); err != nil {
		ctx.Discard("invalid model in replay file: " + err.Error())
		return nil
	}
	if ref.Ambiguous(m) {
		// the one shape the statement excludes; Clone would log.Fatal on it
		ctx.Discard("ambiguous shape (no inputs, no outputs, locktime 0xEF000000)")
		return nil
	}
	std := ref.Encode(m, false)
	ext := ref.Encode(m, true)
	sh := shapeOf(m)
	ctx.Label("nin=" + cls(len(m.In)))
	ctx.Label("nout=" + cls(len(m.Out)))
	ctx.Label("maxscript=" + cls(sh.maxScript))
	if sh.nilUnlock {
		ctx.Label("nil-unlock")
	}
	if sh.nilPrev {
		ctx.Label("nil-prev")
	}
	if sh.emptyPrev && len(m.In) > 0 {
		ctx.Label("ext-empty-prev")
	}
	if sh.anyBigVarint || (sh.emptyPrev && len(m.In) > 0) {
		ctx.NonTrivial()
	}
	ctx.Key(ext)

	tx := ref.ToLib(m)
	ctx.After(ref.Intact(tx))
	// 1. serialisers against the reference encoder
	if err := eqBytes("Bytes() vs reference standard encoding", tx.Bytes(), std); err != nil {
		return err
	}
	if err := eqBytes("ExtendedBytes() vs reference extended encoding", tx.ExtendedBytes(), ext); err != nil {
		return err
	}
	// 2. standard bytes parse back to the model and re-serialise identically
	// the byte slices handed to the parser are the caller's own copies; they are
	// overwritten at the end of the check and the parsed objects looked at once more
	stdOwn, extOwn := append([]byte{}, std...), append([]byte{}, ext...)
	d, err := bt.NewTxFromBytes(stdOwn)
	if err != nil {
		return fmt.Errorf("NewTxFromBytes rejected the standard encoding %s: %v", head(std), err)
	}
	if err := sameAs("NewTxFromBytes(standard)", d, m, false); err != nil {
		return err
	}
	if err := eqBytes("standard -> parse -> Bytes()", d.Bytes(), std); err != nil {
		return err
	}
	if err := eqBytes("standard -> parse -> ExtendedBytes() (no previous outputs known: value 0, length 0)", d.ExtendedBytes(), ref.Encode(stripPrev(m), true)); err != nil {
		return err
	}
	// 3. extended bytes preserve the previous output data too
	e, err := bt.NewTxFromBytes(extOwn)
	if err != nil {
		return fmt.Errorf("NewTxFromBytes rejected the extended encoding %s: %v", head(ext), err)
	}
	if err := sameAs("NewTxFromBytes(extended)", e, m, true); err != nil {
		return err
	}
	if err := eqBytes("extended -> parse -> ExtendedBytes()", e.ExtendedBytes(), ext); err != nil {
		return err
	}
	if err := eqBytes("extended -> parse -> Bytes()", e.Bytes(), std); err != nil {
		return err
	}
	// 4. exact consumption by the stream entry point
	for _, f := range []struct {
		name string
		b    []byte
	}{{"standard", std}, {"extended", ext}} {
		_, used, err := bt.NewTxFromStream(f.b)
		if err != nil || used != len(f.b) {
			return fmt.Errorf("NewTxFromStream(%s encoding of %d bytes): used=%d err=%v", f.name, len(f.b), used, err)
		}
	}
	// 5. Clone keeps both serialisations
	for _, x := range []struct {
		name string
		tx   *bt.Tx
		std  []byte
		ext  []byte
	}{{"constructed", tx, std, ext}, {"parsed-extended", e, std, ext}, {"parsed-standard", d, std, ref.Encode(stripPrev(m), true)}} {
		c := x.tx.Clone()
		if err := eqBytes("Clone("+x.name+").Bytes()", c.Bytes(), x.std); err != nil {
			return err
		}
		if err := eqBytes("Clone("+x.name+").ExtendedBytes()", c.ExtendedBytes(), x.ext); err != nil {
			return err
		}
		if err := eqBytes(x.name+".Bytes() after Clone", x.tx.Bytes(), x.std); err != nil {
			return err
		}
	}
	// 6. transaction id
	want := ref.Reverse(sha256d(std))
	for _, x := range []struct {
		name string
		tx   *bt.Tx
	}{{"constructed", tx}, {"parsed-extended", e}} {
		if err := eqBytes("TxIDBytes() of the "+x.name+" tx vs reversed SHA-256d of the standard encoding", x.tx.TxIDBytes(), want); err != nil {
			return err
		}
		if got := x.tx.TxID(); got != hex.EncodeToString(want) {
			return fmt.Errorf("TxID() of the %s tx = %s, reversed SHA-256d of the standard encoding is %x", x.name, got, want)
		}
	}
	// 7. the caller reuses its input buffers (zeroed / inverted, by the parity of the length)
	for _, b := range [][]byte{stdOwn, extOwn} {
		for i := range b {
			if len(b)%2 == 0 {
				b[i] = 0
			} else {
				b[i] = ^b[i]
			}
		}
	}
	if err := eqBytes("Bytes() of the tx parsed from the standard encoding, after the caller overwrote the slice it had passed in", d.Bytes(), std); err != nil {
		return err
	}
	if err := eqBytes("ExtendedBytes() of the tx parsed from the extended encoding, after the caller overwrote the slice it had passed in", e.ExtendedBytes(), ext); err != nil {
		return err
	}
	if got := e.TxID(); got != hex.EncodeToString(want) {
		return fmt.Errorf("TxID() of the tx parsed from the extended encoding = %s after the caller overwrote the slice it had passed in; it was parsed from a transaction with id %x", got, want)
	}
	return nil
}

// Model is the case type of sub-check "model".
type Model struct {
	Tx ref.Tx `json:"tx"`
}

// nilify turns some empty scripts into nil ones and some scripts into empty
// ones (both are the same value on the wire).
func nilify(t *rapid.T, m *ref.Tx) {
	for i := range m.In {
		switch rapid.IntRange(0, 7).Draw(t, "unlock_kind") {
		case 0:
			m.In[i].Unlock, m.In[i].UnlockNil = nil, true
		case 1:
			m.In[i].Unlock = pbt.Hex{}
		}
		switch rapid.IntRange(0, 7).Draw(t, "prev_kind") {
		case 0, 1:
			m.In[i].PrevScript, m.In[i].PrevNil = nil, true
		case 2:
			m.In[i].PrevScript = pbt.Hex{}
		}
	}
}

// bigScript replaces one script by a 65535/65536-byte one (low weight).
func bigScript(t *rapid.T, m *ref.Tx, oneIn int) {
	if rapid.IntRange(0, oneIn-1).Draw(t, "big_script") != 0 {
		return
	}
	n := rapid.SampledFrom([]int{65535, 65536, 65537, 70000}).Draw(t, "big_len")
	sites := 2*len(m.In) + len(m.Out)
	if sites == 0 {
		return
	}
	s := rapid.IntRange(0, sites-1).Draw(t, "big_site")
	b := gen.FillBytes(t, n, "big")
	switch {
	case s < len(m.In):
		m.In[s].Unlock, m.In[s].UnlockNil = b, false
	case s < 2*len(m.In):
		m.In[s-len(m.In)].PrevScript, m.In[s-len(m.In)].PrevNil = b, false
	default:
		m.Out[s-2*len(m.In)].Script = b
	}
}

func genModel(t *rapid.T) Model {
	o := gen.DefaultTxOpts()
	m := gen.Tx(t, o)
	nilify(t, &m)
	if pbt.Thorough() {
		bigScript(t, &m, 60)
	} else {
		bigScript(t, &m, 250)
	}
	return Model{Tx: m}
}

func TestModel(t *testing.T) {
	pbt.Run(t, pbt.Sub[Model]{
		Name: "model", Quick: 54000, Thorough: 1200000,
		Gen:   genModel,
		Check: func(ctx *pbt.Ctx, c Model) error { return checkModel(ctx, c.Tx) },
	})
}

// ---------------------------------------------------------------------------
// boundary cross product (enumerated)

// Shape describes a deterministic boundary transaction compactly (the 65536
// shapes would be megabytes as explicit models).
type Shape struct {
	NIn  int `json:"nin"`
	NOut int `json:"nout"`
	// Len is the script length given to the first and the last element of every
	// script list (unlocking, previous, locking); the others get (i mod 4) bytes.
	Len  int `json:"len"`
	Salt int `json:"salt"`
}

func fixed(n, salt int) pbt.Hex {
	b := make(pbt.Hex, n)
	for i := range b {
		b[i] = byte(i*7 + salt*13 + 1)
	}
	return b
}

func (s Shape) model() ref.Tx {
	m := ref.Tx{Version: uint32(1 + s.Salt), LockTime: uint32(s.Salt * 0x01010101)}
	l := func(i, n int) int {
		if i == 0 || i == n-1 {
			return s.Len
		}
		return i % 4
	}
	for i := 0; i < s.NIn; i++ {
		in := ref.In{TxID: fixed(32, s.Salt+i), Vout: uint32(i), Seq: 0xffffffff - uint32(i%3), PrevSats: uint64(i) * 1000003}
		in.Unlock = fixed(l(i, s.NIn), s.Salt+i+1)
		in.PrevScript = fixed(l(i, s.NIn), s.Salt+i+2)
		if len(in.Unlock) == 0 && i%2 == 1 {
			in.Unlock, in.UnlockNil = nil, true
		}
		if len(in.PrevScript) == 0 && i%2 == 0 {
			in.PrevScript, in.PrevNil = nil, true
		}
		m.In = append(m.In, in)
	}
	for i := 0; i < s.NOut; i++ {
		m.Out = append(m.Out, ref.Out{Sats: uint64(i) * 7919, Script: fixed(l(i, s.NOut), s.Salt+i+3)})
	}
	return m
}

func TestBoundary(t *testing.T) {
	pbt.Run(t, pbt.Sub[Shape]{
		Name:     "boundary",
		EnumDesc: "input counts x output counts from {0,1,2,252,253,254,300} x script-length class {0,1,252,253,254,255 (quick) + 65535,65536 (thorough)} (first and last script of each list), standard and extended both checked per case; thorough adds the four 65535/65536-element shapes",
		Enum: func(tier string, yield func(Shape)) {
			counts := []int{0, 1, 2, 252, 253, 254, 300}
			lens := []int{0, 1, 252, 253, 254, 255}
			if tier == "thorough" {
				lens = append(lens, 65535, 65536)
			}
			salt := 0
			for _, ni := range counts {
				for _, no := range counts {
					for _, l := range lens {
						salt++
						yield(Shape{NIn: ni, NOut: no, Len: l, Salt: salt % 200})
					}
				}
			}
			if tier == "thorough" {
				for _, n := range []int{65535, 65536} {
					yield(Shape{NIn: n, NOut: 1, Len: 1, Salt: 3})
					yield(Shape{NIn: 1, NOut: n, Len: 1, Salt: 4})
				}
			}
		},
		Check: func(ctx *pbt.Ctx, s Shape) error {
			if s.NIn < 0 || s.NOut < 0 || s.Len < 0 || s.NIn > 70000 || s.NOut > 70000 || s.Len > 1<<20 {
				ctx.Discard("shape out of range")
				return nil
			}
			return checkModel(ctx, s.model())
		},
	})
}

// ---------------------------------------------------------------------------
// (b) streams

// Stream is the case type of sub-check "stream".
type Stream struct {
	Txs        []ref.Tx `json:"txs"`
	Ext        []bool   `json:"ext"`
	CountWidth int      `json:"count_width"` // width class of the block-list count varint (0 = minimal)
	Chunks     []int    `json:"chunks"`      // sizes of the short reads of the chunked reader, cycled
	Trailing   pbt.Hex  `json:"trailing"`    // bytes after the last transaction; must stay unread
	// round 9: reader behaviours (empty reads, the last bytes together with io.EOF, a non-EOF
	// failure after k bytes, ...) played by gen.C09NewScriptReader over the same bytes
	Scripts []gen.C09Script `json:"scripts,omitempty"`
}

// countingReader counts what the library is actually handed.
type countingReader struct {
	r io.Reader
	n int64
}

func (c *countingReader) Read(p []byte) (int, error) {
	n, err := c.r.Read(p)
	c.n += int64(n)
	return n, err
}

// chunkReader returns short reads of the given sizes (cycled).
type chunkReader struct {
	b      []byte
	chunks []int
	i      int
}

func (c *chunkReader) Read(p []byte) (int, error) {
	if len(c.b) == 0 {
		return 0, io.EOF
	}
	if len(p) == 0 {
		return 0, nil
	}
	k := 1
	if len(c.chunks) > 0 {
		k = c.chunks[c.i%len(c.chunks)]
		c.i++
	}
	if k < 1 {
		k = 1
	}
	if k > len(p) {
		k = len(p)
	}
	if k > len(c.b) {
		k = len(c.b)
	}
	copy(p, c.b[:k])
	c.b = c.b[k:]
	return k, nil
}

func checkStream(ctx *pbt.Ctx, c Stream) error {
	if len(c.Ext) != len(c.Txs) {
		ctx.Discard("invalid case: ext/txs length mismatch")
		return nil
	}
	switch c.CountWidth {
	case 0, 1, 3, 5, 9:
	default:
		ctx.Discard("invalid case: count width")
		return nil
	}
	for _, m := range c.Txs {
		if err := validModel(m); err != nil {
			ctx.Discard("invalid model in replay file")
			return nil
		}
		if ref.Ambiguous(m) {
			ctx.Discard("ambiguous shape (no inputs, no outputs, locktime 0xEF000000)")
			return nil
		}
	}
	var encs [][]byte
	var cat []byte
	nExt := 0
	for i, m := range c.Txs {
		e := ref.Encode(m, c.Ext[i])
		encs = append(encs, e)
		cat = append(cat, e...)
		if c.Ext[i] {
			nExt++
		}
	}
	data := append(append([]byte{}, cat...), c.Trailing...)
	ctx.Labelf("ntx=%d", len(c.Txs))
	switch {
	case nExt == 0:
		ctx.Label("all-standard")
	case nExt == len(c.Txs):
		ctx.Label("all-extended")
	default:
		ctx.Label("mixed-formats")
	}
	if len(c.Trailing) > 0 {
		ctx.Label("trailing-bytes")
	}
	ctx.Labelf("count-width=%d", c.CountWidth)
	if len(c.Txs) >= 2 {
		ctx.NonTrivial()
	}
	ctx.Key(data, []byte{byte(c.CountWidth)})

	compare := func(how string, i int, tx *bt.Tx) error {
		if err := sameAs(fmt.Sprintf("%s, transaction %d of %d", how, i, len(c.Txs)), tx, c.Txs[i], c.Ext[i]); err != nil {
			return err
		}
		var again []byte
		if c.Ext[i] {
			again = tx.ExtendedBytes()
		} else {
			again = tx.Bytes()
		}
		return eqBytes(fmt.Sprintf("%s, transaction %d re-serialised in the format it arrived in", how, i), again, encs[i])
	}

	// NewTxFromStream at successive offsets
	off := 0
	for i := range c.Txs {
		tx, used, err := bt.NewTxFromStream(data[off:])
		if err != nil {
			return fmt.Errorf("NewTxFromStream at offset %d (transaction %d of %d): %v", off, i, len(c.Txs), err)
		}
		if used != len(encs[i]) {
			return fmt.Errorf("NewTxFromStream at offset %d (transaction %d): used %d bytes, the transaction is %d bytes long", off, i, used, len(encs[i]))
		}
		if err := compare("NewTxFromStream", i, tx); err != nil {
			return err
		}
		off += used
	}
	// (*Tx).ReadFrom over three kinds of reader
	readers := []readerKind{
		{"bytes.Reader", func(b []byte) io.Reader { return bytes.NewReader(b) }, nil},
		{"iotest.OneByteReader", func(b []byte) io.Reader { return iotest.OneByteReader(bytes.NewReader(b)) }, nil},
		{"chunked reader", func(b []byte) io.Reader { return &chunkReader{b: b, chunks: c.Chunks} }, nil},
		{"iotest.DataErrReader", func(b []byte) io.Reader { return iotest.DataErrReader(bytes.NewReader(b)) }, nil},
		{"iotest.HalfReader", func(b []byte) io.Reader { return iotest.HalfReader(bytes.NewReader(b)) }, nil},
	}
	if len(c.Scripts) > 4 {
		ctx.Discard("invalid case: scripts")
		return nil
	}
	for i := range c.Scripts {
		if !c.Scripts[i].Valid() {
			ctx.Discard("invalid case: scripts")
			return nil
		}
		readers = append(readers, scriptedKind(ctx, c.Scripts[i]))
	}
	for _, rk := range readers {
		cr := &countingReader{r: rk.mk(data)}
		lim := int64(rk.limit(len(data)))
		var want int64
		for i := range c.Txs {
			tx := &bt.Tx{}
			n, err := tx.ReadFrom(cr)
			if want+int64(len(encs[i])) > lim {
				// the reader fails before this transaction is complete: it cannot be accepted
				if err == nil {
					return fmt.Errorf("(*Tx).ReadFrom on %s accepted transaction %d of %d (reported %d bytes) although the reader handed over only %d bytes and the transaction ends at %d", rk.name, i, len(c.Txs), n, cr.n, want+int64(len(encs[i])))
				}
				ctx.Label("reader failed inside a transaction: rejected")
				break
			}
			if err != nil && errWithLastBytes(rk.sc, int(want)+len(encs[i]), len(data)) {
				ctx.Label("reader failed together with the last bytes of a transaction: rejected")
				break
			}
			if err != nil {
				return fmt.Errorf("(*Tx).ReadFrom on %s, transaction %d of %d: %v", rk.name, i, len(c.Txs), err)
			}
			want += int64(len(encs[i]))
			if n != int64(len(encs[i])) {
				return fmt.Errorf("(*Tx).ReadFrom on %s, transaction %d: reported %d bytes, the transaction is %d bytes long", rk.name, i, n, len(encs[i]))
			}
			if cr.n != want {
				return fmt.Errorf("(*Tx).ReadFrom on %s, transaction %d: %d bytes were taken from the reader in total, the transactions so far end at %d", rk.name, i, cr.n, want)
			}
			if err := compare("(*Tx).ReadFrom on "+rk.name, i, tx); err != nil {
				return err
			}
		}
	}
	// (*Txs).ReadFrom behind a count varint
	prefix := ref.VarIntWidth(uint64(len(c.Txs)), c.CountWidth)
	block := append(append(append([]byte{}, prefix...), cat...), c.Trailing...)
	for _, rk := range readers {
		cr := &countingReader{r: rk.mk(block)}
		var txs bt.Txs
		n, err := txs.ReadFrom(cr)
		if rk.limit(len(block)) < len(prefix)+len(cat) {
			if err == nil {
				return fmt.Errorf("(*Txs).ReadFrom on %s accepted a list (reported %d bytes, %d elements) although the reader handed over only %d of its %d bytes", rk.name, n, len(txs), cr.n, len(prefix)+len(cat))
			}
			ctx.Label("reader failed inside the list: rejected")
			continue
		}
		if err != nil && errWithLastBytes(rk.sc, len(prefix)+len(cat), len(block)) {
			continue
		}
		if err != nil {
			return fmt.Errorf("(*Txs).ReadFrom on %s (%d transactions, count varint %x): %v", rk.name, len(c.Txs), prefix, err)
		}
		want := int64(len(prefix) + len(cat))
		if n != want || cr.n != want {
			return fmt.Errorf("(*Txs).ReadFrom on %s: reported %d bytes, took %d from the reader, the list is %d bytes long", rk.name, n, cr.n, want)
		}
		if len(txs) != len(c.Txs) {
			return fmt.Errorf("(*Txs).ReadFrom on %s: %d transactions returned, %d encoded", rk.name, len(txs), len(c.Txs))
		}
		for i, tx := range txs {
			if tx == nil {
				return fmt.Errorf("(*Txs).ReadFrom on %s: element %d is nil", rk.name, i)
			}
			if err := compare("(*Txs).ReadFrom on "+rk.name, i, tx); err != nil {
				return err
			}
		}
	}
	return nil
}

func streamOpts() gen.TxOpts {
	return gen.TxOpts{MinIn: 0, MaxIn: 3, MinOut: 0, MaxOut: 3, BigCounts: []int{253}, MaxScript: 300,
		ScriptEdges: []int{0, 1, 75, 76, 252, 253, 254}}
}

func genStream(t *rapid.T) Stream {
	n := rapid.SampledFrom([]int{0, 1, 1, 2, 2, 3, 3, 4, 5, 6}).Draw(t, "ntx")
	c := Stream{Txs: []ref.Tx{}, Ext: []bool{}}
	for i := 0; i < n; i++ {
		m := gen.Tx(t, streamOpts())
		nilify(t, &m)
		if ref.Ambiguous(m) {
			m.LockTime = 0 // stay inside the domain by construction
		}
		c.Txs = append(c.Txs, m)
		c.Ext = append(c.Ext, rapid.Bool().Draw(t, "ext"))
	}
	c.CountWidth = rapid.SampledFrom([]int{0, 0, 3, 5, 9}).Draw(t, "count_width")
	c.Chunks = rapid.SliceOfN(rapid.IntRange(1, 40), 1, 8).Draw(t, "chunks")
	if rapid.Bool().Draw(t, "has_trailing") {
		c.Trailing = gen.Bytes(t, rapid.IntRange(1, 12).Draw(t, "ntrail"), "trailing")
	}
	total := len(c.Trailing)
	for i, m := range c.Txs {
		total += len(ref.Encode(m, c.Ext[i]))
	}
	c.Scripts = []gen.C09Script{gen.C09GenScript(t, total, false), gen.C09GenScript(t, total+1, true)}
	return c
}

func TestStream(t *testing.T) {
	pbt.Run(t, pbt.Sub[Stream]{
		Name: "stream", Quick: 15000, Thorough: 300000,
		Gen:   genStream,
		Check: checkStream,
	})
}

// ---------------------------------------------------------------------------
// (c) byte strings

// Bytes is the case type of sub-check "bytes".
type Bytes struct {
	Op   string  `json:"op"` // how the bytes were derived (informational)
	Data pbt.Hex `json:"data"`
	// round 9: (*Tx).ReadFrom also reads the bytes from a reader that plays this behaviour
	Script *gen.C09Script `json:"script,omitempty"`
}

// maxClaim walks the transaction layout and returns the largest value any
// length/count varint announces (independent of the library and of ref.Decode).
func maxClaim(b []byte) uint64 {
	p := 0
	var mx uint64
	ok := true
	take := func(n uint64) {
		if !ok || n > uint64(len(b)-p) {
			ok = false
			return
		}
		p += int(n)
	}
	varint := func() uint64 {
		take(1)
		if !ok {
			return 0
		}
		w := map[byte]int{0xfd: 2, 0xfe: 4, 0xff: 8}[b[p-1]]
		if w == 0 {
			return uint64(b[p-1])
		}
		take(uint64(w))
		if !ok {
			return 0
		}
		var v uint64
		for i := 0; i < w; i++ {
			v |= uint64(b[p-w+i]) << (8 * uint(i))
		}
		if v > mx {
			mx = v
		}
		return v
	}
	script := func() { take(varint()) }
	take(4)
	nin := varint()
	ext, have := false, false
	var nout uint64
	if ok && nin == 0 {
		nout, have = varint(), true
		if ok && nout == 0 {
			take(4)
			if !ok || !(b[p-4] == 0 && b[p-3] == 0 && b[p-2] == 0 && b[p-1] == 0xEF) {
				return mx
			}
			ext, have = true, false
			nin = varint()
		}
	}
	for i := uint64(0); ok && i < nin; i++ {
		take(36)
		script()
		take(4)
		if ext {
			take(8)
			script()
		}
	}
	if !have {
		nout = varint()
	}
	for i := uint64(0); ok && i < nout; i++ {
		take(8)
		script()
	}
	return mx
}

type libResult struct {
	tx       *bt.Tx
	used     int64
	err      error
	panicked bool
}

// guarded runs a library decoder; a panic on a byte string is "not accepted"
// as far as C01 is concerned (totality of the decoder is property C09).
func guarded(f func() (*bt.Tx, int64, error)) (r libResult) {
	defer func() {
		if x := recover(); x != nil {
			r = libResult{err: fmt.Errorf("panic: %v", x), panicked: true}
		}
	}()
	r.tx, r.used, r.err = f()
	return r
}

func checkBytes(ctx *pbt.Ctx, c Bytes) error {
	data := []byte(c.Data)
	if mc := maxClaim(data); mc >= 1<<31 {
		// (round 5) such cases are no longer discarded: a decoder that ACCEPTS what the
		// reference rejects violates C01 whatever number was announced; a decoder that
		// panics on it is merely "not accepting" here (totality is C09)
		ctx.Label("announces>=2^31")
		if mc >= 1<<63 {
			ctx.Label("announces>=2^63")
		}
	}
	ctx.Label("op=" + c.Op)
	ctx.Key(data)
	d, rerr := ref.Decode(data)
	ls := guarded(func() (*bt.Tx, int64, error) {
		tx, used, err := bt.NewTxFromStream(append([]byte{}, data...))
		return tx, int64(used), err
	})
	tx, used, lerr := ls.tx, int(ls.used), ls.err
	if ls.panicked {
		ctx.Label("lib-panicked-on-rejected-input")
	}

	if lerr == nil {
		ctx.Label("lib-accepts")
		if rerr != nil {
			return fmt.Errorf("NewTxFromStream accepted %s (used %d) but the reference decoder rejects it: %v", head(data), used, rerr)
		}
		if used != d.Consumed {
			return fmt.Errorf("NewTxFromStream(%s) used %d bytes, the transaction ends at %d", head(data), used, d.Consumed)
		}
		if err := sameAs("NewTxFromStream("+head(data)+")", tx, d.Tx, d.Extended); err != nil {
			return err
		}
		if !d.Minimal {
			ctx.Label("accepted-non-minimal")
			ctx.NonTrivial()
		}
	} else {
		ctx.Label("lib-rejects")
		if rerr == nil && d.Minimal {
			return fmt.Errorf("NewTxFromStream rejected %s (%v) although it starts with a canonical %d-byte transaction (extended=%v)", head(data), lerr, d.Consumed, d.Extended)
		}
		if rerr == nil {
			ctx.Label("rejected-non-minimal")
		}
	}
	if rerr == nil {
		sh := shapeOf(d.Tx)
		if sh.anyBigVarint {
			ctx.NonTrivial()
		}
		if d.Extended {
			ctx.Label("extended")
			if sh.emptyPrev && len(d.Tx.In) > 0 {
				ctx.NonTrivial()
			}
		} else {
			ctx.Label("standard")
		}
		if d.Consumed < len(data) {
			ctx.Label("has-trailing-bytes")
		}
	}
	// canonical re-serialisation in the format the bytes arrived in
	if lerr == nil && d.Minimal {
		var again []byte
		if d.Extended {
			again = tx.ExtendedBytes()
		} else {
			again = tx.Bytes()
		}
		if err := eqBytes(fmt.Sprintf("accepted minimal encoding re-serialised (extended=%v) vs the %d bytes consumed", d.Extended, used), again, data[:used]); err != nil {
			return err
		}
	}
	// the exactly-one-transaction entry point
	lo := guarded(func() (*bt.Tx, int64, error) {
		tx, err := bt.NewTxFromBytes(append([]byte{}, data...))
		return tx, 0, err
	})
	if lo.err == nil {
		if rerr != nil || d.Consumed != len(data) {
			return fmt.Errorf("NewTxFromBytes accepted %s (%d bytes) but the transaction it starts with ends at %d (reference error: %v)", head(data), len(data), d.Consumed, rerr)
		}
		if err := sameAs("NewTxFromBytes("+head(data)+")", lo.tx, d.Tx, d.Extended); err != nil {
			return err
		}
	} else if rerr == nil && d.Minimal && d.Consumed == len(data) {
		return fmt.Errorf("NewTxFromBytes rejected the canonical encoding %s: %v", head(data), lo.err)
	}
	// reader entry point: exact consumption, nothing taken beyond the transaction
	cr := &countingReader{r: bytes.NewReader(data)}
	lr := guarded(func() (*bt.Tx, int64, error) {
		rt := &bt.Tx{}
		n, err := rt.ReadFrom(cr)
		return rt, n, err
	})
	if (lr.err == nil) != (lerr == nil) {
		return fmt.Errorf("(*Tx).ReadFrom and NewTxFromStream disagree on accepting %s: %v vs %v", head(data), lr.err, lerr)
	}
	if lr.err == nil {
		if lr.used != int64(d.Consumed) || cr.n != int64(d.Consumed) {
			return fmt.Errorf("(*Tx).ReadFrom(%s): reported %d bytes, took %d from the reader, the transaction ends at %d", head(data), lr.used, cr.n, d.Consumed)
		}
		if err := sameAs("(*Tx).ReadFrom("+head(data)+")", lr.tx, d.Tx, d.Extended); err != nil {
			return err
		}
	}
	if err := checkBytesHex(ctx, data, d, rerr); err != nil {
		return err
	}
	if c.Script != nil {
		if !c.Script.Valid() {
			ctx.Discard("invalid case: script")
			return nil
		}
		return checkBytesScripted(ctx, data, *c.Script)
	}
	return nil
}

func bytesOpts() gen.TxOpts {
	return gen.TxOpts{MinIn: 0, MaxIn: 3, MinOut: 0, MaxOut: 3, BigCounts: []int{252, 253}, MaxScript: 300,
		ScriptEdges: []int{0, 1, 2, 75, 76, 252, 253, 254}}
}

var hostileBytes = []byte{0x00, 0x01, 0xfc, 0xfd, 0xfe, 0xff, 0xef, 0x80}

func genBytes(t *rapid.T) Bytes {
	m := gen.Tx(t, bytesOpts())
	nilify(t, &m)
	if ref.Ambiguous(m) {
		m.LockTime = 0
	}
	ext := rapid.Bool().Draw(t, "ext")
	op := rapid.SampledFrom([]string{"canonical", "nonminimal", "nonminimal", "nonminimal", "nonminimal2", "bitflip", "bitflip", "byteset", "truncate", "trailing", "nonminimal+trailing", "random", "claim", "claim", "claim+trailing"}).Draw(t, "op")
	widen := func(w ref.Widths) {
		sites := ref.VarintSites(m, ext)
		w[rapid.IntRange(0, sites-1).Draw(t, "site")] = rapid.SampledFrom([]int{3, 5, 9}).Draw(t, "width")
	}
	var data []byte
	switch op {
	case "canonical":
		data = ref.Encode(m, ext)
	case "nonminimal":
		w := ref.Widths{}
		widen(w)
		data = ref.EncodeWidths(m, ext, w)
	case "nonminimal2":
		w := ref.Widths{}
		widen(w)
		widen(w)
		data = ref.EncodeWidths(m, ext, w)
	case "bitflip":
		data = ref.Encode(m, ext)
		i := rapid.IntRange(0, len(data)*8-1).Draw(t, "bit")
		data[i/8] ^= 1 << uint(i%8)
	case "byteset":
		data = ref.Encode(m, ext)
		i := rapid.IntRange(0, len(data)-1).Draw(t, "pos")
		data[i] = rapid.SampledFrom(hostileBytes).Draw(t, "val")
	case "truncate":
		data = ref.Encode(m, ext)
		data = data[:rapid.IntRange(0, len(data)-1).Draw(t, "cut")]
	case "trailing":
		data = append(ref.Encode(m, ext), gen.Bytes(t, rapid.IntRange(1, 12).Draw(t, "ntrail"), "trailing")...)
	case "nonminimal+trailing":
		w := ref.Widths{}
		widen(w)
		data = append(ref.EncodeWidths(m, ext, w), gen.Bytes(t, rapid.IntRange(1, 12).Draw(t, "ntrail"), "trailing")...)
	case "claim", "claim+trailing":
		// one varint site (2 in 3: a count site) announces a huge value; the body is kept,
		// cut behind the site, or followed by more bytes
		_, counts := encodeClaims(m, ext, nil)
		s := rapid.SampledFrom(counts).Draw(t, "count_site")
		if rapid.IntRange(0, 2).Draw(t, "any_site") == 0 {
			s = rapid.IntRange(0, ref.VarintSites(m, ext)-1).Draw(t, "site")
		}
		data, _ = encodeClaims(m, ext, map[int]uint64{s: genClaim(t)})
		if op == "claim+trailing" {
			data = append(data, gen.BytesUpTo(t, 90, "trailing")...)
		} else if rapid.IntRange(0, 3).Draw(t, "cut?") == 0 {
			data = data[:rapid.IntRange(5, len(data)).Draw(t, "cut")]
		}
	case "random":
		// a plausible header followed by random bytes
		data = append(data, gen.Bytes(t, 4, "version")...)
		if rapid.Bool().Draw(t, "marker") {
			data = append(data, 0, 0, 0, 0, 0, 0xEF)
		}
		data = append(data, rapid.SampledFrom([]byte{0, 0, 1, 1, 2, 0xfd}).Draw(t, "nin"))
		data = append(data, gen.BytesUpTo(t, 120, "rest")...)
	}
	sc := gen.C09GenScript(t, len(data), true)
	return Bytes{Op: op, Data: data, Script: &sc}
}

func TestBytes(t *testing.T) {
	pbt.Run(t, pbt.Sub[Bytes]{
		Name: "bytes", Quick: 36000, Thorough: 1000000,
		Gen:      genBytes,
		Check:    checkBytes,
		EnumDesc: "for 4 fixed transactions x {standard, extended}: every varint site widened to each of the 3 non-minimal classes, every varint site announcing each of 18 huge values (2^31 .. 2^64-1 incl. bit 63 set and products with 9 / 41 that wrap around 2^64) with and without 64 bytes behind the encoding, every truncation point, and every single-bit flip of the encoding",
		Enum: func(tier string, yield func(Bytes)) {
			seeds := []Shape{{NIn: 0, NOut: 0, Len: 0, Salt: 1}, {NIn: 1, NOut: 1, Len: 2, Salt: 2}, {NIn: 2, NOut: 2, Len: 0, Salt: 3}, {NIn: 0, NOut: 2, Len: 5, Salt: 4}}
			for _, s := range seeds {
				m := s.model()
				for _, ext := range []bool{false, true} {
					base := ref.Encode(m, ext)
					yield(Bytes{Op: "canonical", Data: base})
					for site := 0; site < ref.VarintSites(m, ext); site++ {
						for _, w := range []int{3, 5, 9} {
							yield(Bytes{Op: "nonminimal", Data: ref.EncodeWidths(m, ext, ref.Widths{site: w})})
						}
					}
					for site := 0; site < ref.VarintSites(m, ext); site++ {
						for _, cl := range fixedClaims {
							d, _ := encodeClaims(m, ext, map[int]uint64{site: cl})
							yield(Bytes{Op: "claim", Data: d})
							yield(Bytes{Op: "claim+trailing", Data: append(d, make([]byte, 64)...)})
						}
					}
					for k := 0; k < len(base); k++ {
						yield(Bytes{Op: "truncate", Data: append([]byte{}, base[:k]...)})
					}
					for i := 0; i < len(base)*8; i++ {
						b := append([]byte{}, base...)
						b[i/8] ^= 1 << uint(i%8)
						yield(Bytes{Op: "bitflip", Data: b})
					}
				}
			}
		},
	})
}

// ---------------------------------------------------------------------------
// varint classes (VarInt.Bytes / ReadFrom / Length / NewVarIntFromBytes agree
// with the reference on the 1/3/5/9-byte classes)

// VI is the case type of sub-check "varint".
type VI struct {
	V uint64 `json:"v"`
}

func checkVI(ctx *pbt.Ctx, c VI) error {
	want := ref.VarInt(c.V)
	ctx.Labelf("width=%d", len(want))
	if len(want) > 1 {
		ctx.NonTrivial()
	}
	got := bt.VarInt(c.V).Bytes()
	if !bytes.Equal(got, want) {
		return fmt.Errorf("VarInt(%d).Bytes() = %x, reference encoding is %x", c.V, got, want)
	}
	if l := bt.VarInt(c.V).Length(); l != len(want) {
		return fmt.Errorf("VarInt(%d).Length() = %d, the encoding is %d bytes long", c.V, l, len(want))
	}
	for _, w := range []int{0, 3, 5, 9} {
		enc := ref.VarIntWidth(c.V, w)
		var v bt.VarInt
		cr := &countingReader{r: bytes.NewReader(append(append([]byte{}, enc...), 0xaa, 0xbb))}
		n, err := v.ReadFrom(cr)
		if err != nil || uint64(v) != c.V || n != int64(len(enc)) || cr.n != int64(len(enc)) {
			return fmt.Errorf("VarInt.ReadFrom(%x) = value %d, n %d, taken %d, err %v; want value %d, n %d", enc, uint64(v), n, cr.n, err, c.V, len(enc))
		}
		v2, size := bt.NewVarIntFromBytes(append(append([]byte{}, enc...), 0xaa))
		if uint64(v2) != c.V || size != len(enc) {
			return fmt.Errorf("NewVarIntFromBytes(%x) = %d, %d; want %d, %d", enc, uint64(v2), size, c.V, len(enc))
		}
	}
	return nil
}

func TestVarInt(t *testing.T) {
	pbt.Run(t, pbt.Sub[VI]{
		Name: "varint", Quick: 12000, Thorough: 200000,
		Gen:      func(t *rapid.T) VI { return VI{V: gen.U64(t, "v")} },
		Check:    checkVI,
		EnumDesc: "all values 0..70000 and every value within 3 of 2^8, 2^16, 2^24, 2^31, 2^32, 2^40, 2^48, 2^56, 2^63, 2^64",
		Enum: func(tier string, yield func(VI)) {
			for v := uint64(0); v <= 70000; v++ {
				yield(VI{V: v})
			}
			for _, sh := range []uint{8, 16, 24, 31, 32, 40, 48, 56, 63} {
				for d := int64(-3); d <= 3; d++ {
					yield(VI{V: uint64(int64(uint64(1)<<sh) + d)})
				}
			}
			for d := uint64(0); d < 4; d++ {
				yield(VI{V: ^uint64(0) - d})
			}
		},
	})
}

// ---------------------------------------------------------------------------
// reference self-test: a disagreement of the reference codec with itself is a
// harness error (plain test failure => exit 2), never a violation.

func TestReferenceSelfCheck(t *testing.T) {
	if pbt.Replaying() {
		return
	}
	for _, s := range []Shape{{0, 0, 0, 1}, {1, 1, 0, 2}, {2, 3, 253, 3}, {253, 1, 1, 4}, {1, 300, 252, 5}, {3, 3, 65536, 6}} {
		m := s.model()
		for _, ext := range []bool{false, true} {
			b := ref.Encode(m, ext)
			d, err := ref.Decode(b)
			if err != nil || d.Consumed != len(b) || d.Extended != ext || !d.Minimal || !ref.SameWire(d.Tx, m, ext) {
				t.Fatalf("reference codec does not round-trip shape %+v ext=%v: %v", s, ext, err)
			}
			for site := 0; site < ref.VarintSites(m, ext) && site < 12; site++ {
				nb := ref.EncodeWidths(m, ext, ref.Widths{site: 9})
				d, err := ref.Decode(nb)
				if err != nil || d.Consumed != len(nb) || d.Minimal || !ref.SameWire(d.Tx, m, ext) || d.Extended != ext {
					t.Fatalf("reference codec mishandles a widened varint at site %d of shape %+v ext=%v: %v", site, s, ext, err)
				}
			}
		}
	}
}
