package c01

// Round 8: failed calls are calls too. failingCall performs ONE library call that
// fails - a serialiser on an object outside the domain (it panics on HEAD too; the
// harness recovers), a decoder on a truncated input or on a reader that breaks off
// with an error. Nothing is asserted about the call itself; the sub-checks that
// interleave such calls require every ordinary call afterwards to agree with the
// reference exactly as before.

import (
	"bytes"
	"errors"
	"io"

	"github.com/libsv/go-bt/v2"

	"verif/harness/ref"
)

var failKinds = []string{
	"ser-nil-locking-script", "ser-nil-output-element", "ser-nil-input-element", "ser-nil-tx", "ser-output-without-script",
	"dec-bytes-truncated", "dec-stream-truncated", "dec-reader-breaks", "dec-list-truncated", "dec-input-truncated", "dec-output-truncated", "dec-varint-truncated",
}

var errBroken = errors.New("c01: reader broke off")

// breakingReader hands over its data and then fails with a non-EOF error.
type breakingReader struct{ b []byte }

func (r *breakingReader) Read(p []byte) (int, error) {
	if len(r.b) == 0 {
		return 0, errBroken
	}
	n := copy(p, r.b)
	r.b = r.b[n:]
	return n, nil
}

// failingCall runs failure kind `kind` derived from model m (at selects the position
// of the damage / the cut, variant the entry point). It reports how the call ended:
// "panic", "error" or "ok" (a cut that happens to leave a valid input).
func failingCall(kind string, m ref.Tx, at, variant int, ext bool) (outcome string) {
	if at < 0 {
		at = -at
	}
	if variant < 0 {
		variant = -variant
	}
	defer func() {
		if recover() != nil {
			outcome = "panic"
		}
	}()
	serialise := func(tx *bt.Tx) {
		switch variant % 6 {
		case 0:
			tx.Bytes()
		case 1:
			tx.ExtendedBytes()
		case 2:
			_ = tx.TxID()
		case 3:
			tx.TxIDBytes()
		case 4:
			tx.BytesWithClearedInputs(0, []byte{0x51, 0x52})
		default:
			_ = tx.Size()
		}
	}
	enc := ref.Encode(m, ext)
	cut := enc[:at%len(enc)] // a proper prefix
	var err error
	switch kind {
	case "ser-nil-locking-script":
		tx := ref.ToLib(m)
		p := at % (len(tx.Outputs) + 1)
		tx.Outputs = append(tx.Outputs, nil)
		copy(tx.Outputs[p+1:], tx.Outputs[p:])
		tx.Outputs[p] = &bt.Output{Satoshis: 7} // no locking script: outside the domain
		serialise(tx)
	case "ser-nil-output-element":
		tx := ref.ToLib(m)
		p := at % (len(tx.Outputs) + 1)
		tx.Outputs = append(tx.Outputs, nil)
		copy(tx.Outputs[p+1:], tx.Outputs[p:])
		tx.Outputs[p] = nil
		serialise(tx)
	case "ser-nil-input-element":
		tx := ref.ToLib(m)
		p := at % (len(tx.Inputs) + 1)
		tx.Inputs = append(tx.Inputs, nil)
		copy(tx.Inputs[p+1:], tx.Inputs[p:])
		tx.Inputs[p] = nil
		serialise(tx)
	case "ser-nil-tx":
		serialise(nil)
	case "ser-output-without-script":
		if variant%2 == 0 {
			(&bt.Output{Satoshis: 1}).Bytes()
		} else {
			(&bt.Output{Satoshis: 1}).BytesForSigHash()
		}
	case "dec-bytes-truncated":
		_, err = bt.NewTxFromBytes(append([]byte{}, cut...))
	case "dec-stream-truncated":
		_, _, err = bt.NewTxFromStream(append([]byte{}, cut...))
	case "dec-reader-breaks":
		_, err = (&bt.Tx{}).ReadFrom(&breakingReader{b: append([]byte{}, cut...)})
	case "dec-list-truncated":
		block := append(append([]byte{2}, enc...), cut...)
		_, err = (&bt.Txs{}).ReadFrom(bytes.NewReader(block))
	case "dec-input-truncated":
		e := refInput(defaultIn, ext)
		if len(m.In) > 0 {
			e = refInput(m.In[at%len(m.In)], ext)
		}
		in := &bt.Input{}
		if ext {
			_, err = in.ReadFromExtended(bytes.NewReader(e[:at%len(e)]))
		} else {
			_, err = in.ReadFrom(io.MultiReader(bytes.NewReader(e[:at%len(e)]), &breakingReader{}))
		}
	case "dec-output-truncated":
		e := refOutput(defaultOut)
		if len(m.Out) > 0 {
			e = refOutput(m.Out[at%len(m.Out)])
		}
		_, err = (&bt.Output{}).ReadFrom(bytes.NewReader(e[:at%len(e)]))
	case "dec-varint-truncated":
		v := new(bt.VarInt)
		_, err = v.ReadFrom(bytes.NewReader(ref.VarIntWidth(uint64(at), []int{3, 5, 9}[variant%3])[:1+variant%2]))
	default:
		return "unknown"
	}
	if err != nil {
		return "error"
	}
	return "ok"
}

func knownFailKind(k string) bool {
	for _, f := range failKinds {
		if f == k {
			return true
		}
	}
	return false
}
