package c01

import (
	"testing"

	"verif/harness/pbt"
	"verif/harness/ref"
)

// FuzzCodec is the coverage-guided target of the thorough tier: arbitrary bytes through the
// decoder with the oracle of the `bytes` sub-check (library accepts => the reference accepts with
// the same consumption and fields; all varints minimal => byte-exact re-serialisation in the
// arriving format; canonical => accepted).
func FuzzCodec(f *testing.F) {
	txid := pbt.Hex{0, 0x11, 0x22, 0x33, 0x44, 0x55, 0x66, 0x77, 0x88, 0x99, 0xaa, 0xbb, 0xcc, 0xdd, 0xee, 0xff, 0, 0x11, 0x22, 0x33, 0x44, 0x55, 0x66, 0x77, 0x88, 0x99, 0xaa, 0xbb, 0xcc, 0xdd, 0xee, 0xff}
	ms := []ref.Tx{
		{Version: 1},
		{Version: 2, LockTime: 0xEF000001, In: []ref.In{{TxID: txid, Vout: 1, Seq: 0xffffffff, Unlock: []byte{0x51}, PrevSats: 7, PrevScript: []byte{0x52, 0x53}}}, Out: []ref.Out{{Sats: 5, Script: []byte{0x6a}}}},
		{Version: 1, In: []ref.In{{TxID: txid, Vout: 0xffffffff}, {TxID: txid, Vout: 2, Unlock: make([]byte, 253)}}, Out: []ref.Out{{Sats: 1 << 62, Script: nil}, {Sats: 0, Script: make([]byte, 300)}}},
		{Version: 0xffffffff, Out: []ref.Out{{Sats: 1, Script: []byte{0x00}}}},
	}
	for _, m := range ms {
		f.Add(ref.Encode(m, false))
		f.Add(ref.Encode(m, true))
	}
	f.Fuzz(func(t *testing.T, data []byte) {
		if len(data) > 8192 {
			t.Skip()
		}
		pbt.FuzzCheck(t, "C01", "bytes", checkBytes, Bytes{Op: "fuzz", Data: data})
	})
}
