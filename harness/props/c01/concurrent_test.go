package c01

import (
	"encoding/binary"
	"encoding/hex"
	"fmt"
	"testing"

	"pgregory.net/rapid"

	"verif/harness/conc"
	"verif/harness/gen"
	"verif/harness/pbt"
	"verif/harness/ref"
)

// ConcCase: the serialisation queries read the transaction and nothing else, so several
// goroutines may ask one shared object at once (schedule dependent: listed in FLAKY_SUBS.txt).
type ConcCase struct {
	Tx         ref.Tx `json:"tx"`
	Goroutines int    `json:"goroutines"`
	Rounds     int    `json:"rounds"`
}

func revBytes(b []byte) []byte {
	o := make([]byte, len(b))
	for i := range b {
		o[len(b)-1-i] = b[i]
	}
	return o
}

func checkConcurrent(ctx *pbt.Ctx, c ConcCase) error {
	m := c.Tx
	if c.Goroutines < 2 || c.Goroutines > 16 || c.Rounds < 1 || c.Rounds > 500 || ref.Ambiguous(m) {
		ctx.Discard("malformed case")
		return nil
	}
	for _, in := range m.In {
		if len(in.TxID) != 32 {
			ctx.Discard("txid length")
			return nil
		}
	}
	tx := ref.ToLib(m)
	ctx.After(ref.Intact(tx))
	std, ext := ref.Encode(m, false), ref.Encode(m, true)
	id := revBytes(ref.Sha256d(std))
	size := make([]byte, 8)
	binary.LittleEndian.PutUint64(size, uint64(len(std)))
	calls := []conc.Call{
		{Name: "Bytes()", F: func() ([]byte, error) { return tx.Bytes(), nil }, Want: std},
		{Name: "ExtendedBytes()", F: func() ([]byte, error) { return tx.ExtendedBytes(), nil }, Want: ext},
		{Name: "TxIDBytes()", F: func() ([]byte, error) { return tx.TxIDBytes(), nil }, Want: id},
		{Name: "TxID()", F: func() ([]byte, error) { return []byte(tx.TxID()), nil }, Want: []byte(hex.EncodeToString(id))},
		{Name: "Size()", F: func() ([]byte, error) {
			b := make([]byte, 8)
			binary.LittleEndian.PutUint64(b, uint64(tx.Size()))
			return b, nil
		}, Want: size},
		{Name: "Clone().ExtendedBytes()", F: func() ([]byte, error) { return tx.Clone().ExtendedBytes(), nil }, Want: ext},
		{Name: "String()", F: func() ([]byte, error) { return []byte(tx.String()), nil }, Want: []byte(hex.EncodeToString(std))},
	}
	for i := range m.In {
		i := i
		calls = append(calls, conc.Call{Name: fmt.Sprintf("Inputs[%d].Bytes(false)", i), F: func() ([]byte, error) { return tx.Inputs[i].Bytes(false), nil }, Want: tx.Inputs[i].Bytes(false)})
	}
	before := ref.FromLib(tx)
	if err := conc.Readers(calls, c.Goroutines, c.Rounds); err != nil {
		return err
	}
	if after := ref.FromLib(tx); !ref.SameWire(before, after, true) {
		return fmt.Errorf("the transaction changed while %d goroutines serialised it", c.Goroutines)
	}
	ctx.Labelf("goroutines=%d", c.Goroutines)
	if len(m.In)+len(m.Out) >= 2 {
		ctx.NonTrivial()
	}
	return nil
}

func TestConcurrent(t *testing.T) {
	pbt.Run(t, pbt.Sub[ConcCase]{
		Name: "concurrent", Quick: 1200, Thorough: 24000,
		Gen: func(t *rapid.T) ConcCase {
			o := gen.DefaultTxOpts()
			o.BigCounts = nil
			o.MaxIn, o.MaxOut, o.MaxScript = 5, 5, 120
			m := gen.Tx(t, o)
			if ref.Ambiguous(m) {
				m.LockTime = 0
			}
			return ConcCase{Tx: m, Goroutines: rapid.SampledFrom([]int{2, 3, 4, 8}).Draw(t, "goroutines"), Rounds: rapid.SampledFrom([]int{5, 20, 60}).Draw(t, "rounds")}
		},
		Check: checkConcurrent,
	})
}
