package c01

// Round 9: HOW a reader hands over its bytes is an axis of every reader-based
// sub-check. gen.C09Script describes a behaviour the io.Reader contract allows - a
// read answered (0, nil) at chosen offsets or every k-th call, odd read sizes, the
// last bytes together with io.EOF, a non-EOF failure after k bytes (alone or together
// with the last data), a reader that is an io.ByteReader too; a reader playing it over
// the byte string b delivers exactly b[:limit], so the decoder must do exactly what
// the reference decoder does on b[:limit] (and what the library does on a bytes.Reader).
// Also here: the hex-string front doors of the single-transaction parser that the
// `bytes` sub-check (and therefore the fuzz target) runs on every byte string.

import (
	"bytes"
	"encoding/hex"
	"encoding/json"
	"fmt"
	"io"

	"github.com/libsv/go-bt/v2"

	"verif/harness/gen"
	"verif/harness/pbt"
	"verif/harness/ref"
)

// readerKind is one way of putting a byte string behind an io.Reader.
type readerKind struct {
	name string
	mk   func(b []byte) io.Reader
	sc   *gen.C09Script
}

// limit is how many of n bytes a reader of this kind hands over before it fails (n: all).
func (k readerKind) limit(n int) int {
	if k.sc != nil {
		return k.sc.Limit(n)
	}
	return n
}

func scriptedKind(ctx *pbt.Ctx, s gen.C09Script) readerKind {
	ctx.Label("reader script=" + s.Name())
	return readerKind{"a reader that " + describeScript(s), func(b []byte) io.Reader {
		r, _ := gen.C09NewScriptReader(b, s)
		return r
	}, &s}
}

// errWithLastBytes: the script's non-EOF error arrives in the same Read call as the
// bytes that complete an object ending at offset end (of n bytes). The decoder holds the
// whole object then; whether it reports the error that came along or the object is left
// open (io.ReadFull semantics: the object) - nothing is asserted about accept / reject.
func errWithLastBytes(s *gen.C09Script, end, n int) bool {
	return s != nil && s.Fail && s.FailWithData && s.Limit(n) == end
}

// quietScripts returns the scripts of a case that hand over everything (replay files
// may hold anything).
func quietScripts(ss []gen.C09Script) ([]gen.C09Script, bool) {
	if len(ss) > 4 {
		return nil, false
	}
	for _, s := range ss {
		if !s.Valid() || s.Fail {
			return nil, false
		}
	}
	return ss, true
}

func describeScript(s gen.C09Script) string {
	d := ""
	if len(s.EmptyAt) > 0 {
		d += fmt.Sprintf("answers one read with (0, nil) at offset(s) %v, ", s.EmptyAt)
	}
	if s.EmptyEvery > 0 {
		d += fmt.Sprintf("answers every read no. %d*i with (0, nil), ", s.EmptyEvery)
	}
	if len(s.Chunks) > 0 {
		d += fmt.Sprintf("hands over at most %v bytes per read (cycled), ", s.Chunks)
	}
	if s.EOFWithData {
		d += "returns io.EOF together with the last bytes, "
	}
	if s.Fail {
		if s.FailWithData {
			d += fmt.Sprintf("fails with a non-EOF error together with the bytes that end at offset %d, ", s.FailAt)
		} else {
			d += fmt.Sprintf("fails with a non-EOF error after %d bytes, ", s.FailAt)
		}
	}
	if s.ByteReader {
		d += "is an io.ByteReader too, "
	}
	if d == "" {
		return "reads plainly"
	}
	return d[:len(d)-2]
}

// source puts b behind reader no. k of a rotation: plain bytes.Reader first, then the
// given (quiet) scripts. left() = bytes of b not handed over yet.
func source(b []byte, scripts []gen.C09Script, k int) (r io.Reader, left func() int, name string) {
	if len(scripts) == 0 || k%(len(scripts)+1) == 0 {
		br := bytes.NewReader(b)
		return br, br.Len, "bytes.Reader"
	}
	s := scripts[k%(len(scripts)+1)-1]
	sr, core := gen.C09NewScriptReader(b, s)
	return sr, core.Left, "a reader that " + describeScript(s)
}

// checkBytesScripted: (*Tx).ReadFrom over a reader playing s on data must do what
// the reference decoder does on the bytes that reader hands over.
func checkBytesScripted(ctx *pbt.Ctx, data []byte, s gen.C09Script) error {
	lim := s.Limit(len(data))
	d, rerr := ref.Decode(data[:lim])
	sr, core := gen.C09NewScriptReader(data, s)
	lr := guarded(func() (*bt.Tx, int64, error) {
		rt := &bt.Tx{}
		n, err := rt.ReadFrom(sr)
		return rt, n, err
	})
	what := fmt.Sprintf("(*Tx).ReadFrom(%s) on a reader that %s (it hands over %d of %d bytes)", head(data), describeScript(s), lim, len(data))
	ctx.Label("reader script=" + s.Name())
	if core.Empties > 0 {
		ctx.Label("an empty read was answered")
	}
	if lr.err != nil {
		if rerr == nil && d.Minimal && !errWithLastBytes(&s, d.Consumed, len(data)) {
			return fmt.Errorf("%s rejected (%v) although the bytes handed over start with a canonical %d-byte transaction", what, lr.err, d.Consumed)
		}
		ctx.Label("scripted: rejected")
		return nil
	}
	if rerr != nil {
		return fmt.Errorf("%s accepted (reported %d bytes) what the reference decoder rejects: %v", what, lr.used, rerr)
	}
	if lr.used != int64(d.Consumed) || core.Delivered != int64(d.Consumed) {
		return fmt.Errorf("%s: reported %d bytes, took %d from the reader, the transaction ends at %d", what, lr.used, core.Delivered, d.Consumed)
	}
	if err := sameAs(what, lr.tx, d.Tx, d.Extended); err != nil {
		return err
	}
	if d.Minimal {
		again := lr.tx.Bytes()
		if d.Extended {
			again = lr.tx.ExtendedBytes()
		}
		if err := eqBytes(what+" re-serialised in the format it arrived in", again, data[:d.Consumed]); err != nil {
			return err
		}
	}
	ctx.Label("scripted: accepted")
	return nil
}

// hexDoors are the entry points that take the transaction as a hex string.
var hexDoors = []struct {
	name string
	call func(s string) (*bt.Tx, error)
}{
	{"NewTxFromString", func(s string) (*bt.Tx, error) { return bt.NewTxFromString(s) }},
	{`json.Unmarshal {"hex"} into a Tx`, func(s string) (*bt.Tx, error) {
		tx := bt.NewTx()
		err := json.Unmarshal([]byte(`{"hex":"`+s+`"}`), tx)
		return tx, err
	}},
	{`json.Unmarshal {"hex"} into Tx.NodeJSON()`, func(s string) (*bt.Tx, error) {
		tx := bt.NewTx()
		err := json.Unmarshal([]byte(`{"hex":"`+s+`"}`), tx.NodeJSON())
		return tx, err
	}},
	{`json.Unmarshal [{"hex"}] into Txs.NodeJSON()`, func(s string) (*bt.Tx, error) {
		var txs bt.Txs
		if err := json.Unmarshal([]byte(`[{"hex":"`+s+`"}]`), txs.NodeJSON()); err != nil {
			return nil, err
		}
		if len(txs) != 1 || txs[0] == nil {
			return nil, fmt.Errorf("harness: list of %d", len(txs))
		}
		return txs[0], nil
	}},
}

// judgeHexDoors runs every hex-string entry point on s. want: what the bytes s stands
// for decode to (rerr != nil, or s not being a hex string at all: nothing). An entry
// point that accepts must have found exactly one transaction that IS the whole
// string; a lower-case string holding exactly one canonical transaction must be
// accepted.
func judgeHexDoors(ctx *pbt.Ctx, s string, isHex bool, raw []byte, d ref.Decoded, rerr error, mustAccept bool) error {
	if s == "" {
		return nil // the JSON decoders take an empty "hex" for "no hex field"
	}
	for _, door := range hexDoors {
		var tx *bt.Tx
		var err error
		g := guarded(func() (*bt.Tx, int64, error) {
			tx, err = door.call(s)
			return tx, 0, err
		})
		if g.panicked {
			err = g.err
		}
		what := fmt.Sprintf("%s of the %d-character string %s", door.name, len(s), headStr(s))
		if err != nil {
			if mustAccept {
				return fmt.Errorf("%s rejected (%v) the hex of exactly one canonical transaction", what, err)
			}
			continue
		}
		switch {
		case !isHex:
			return fmt.Errorf("%s accepted a string that is not the hex of any byte string: what follows the transaction was not consumed", what)
		case rerr != nil:
			return fmt.Errorf("%s accepted what the reference decoder rejects: %v", what, rerr)
		case d.Consumed != len(raw):
			return fmt.Errorf("%s accepted a string of %d bytes of which the transaction is only the first %d: the rest was dropped", what, len(raw), d.Consumed)
		}
		if err := sameAs(what, tx, d.Tx, d.Extended); err != nil {
			return err
		}
		if d.Minimal {
			again := tx.Bytes()
			if d.Extended {
				again = tx.ExtendedBytes()
			}
			if err := eqBytes(what+" re-serialised in the format it arrived in", again, raw); err != nil {
				return err
			}
		}
		ctx.Label("hex door accepted")
	}
	return nil
}

func headStr(s string) string {
	if len(s) <= 160 {
		return s
	}
	return s[:96] + "...(" + fmt.Sprint(len(s)) + " characters)..." + s[len(s)-48:]
}

// checkBytesHex: the byte string of a `bytes` case, as lower-case hex, through the
// hex-string entry points (they sit in front of NewTxFromBytes: exactly one
// transaction, nothing behind it).
func checkBytesHex(ctx *pbt.Ctx, data []byte, d ref.Decoded, rerr error) error {
	must := rerr == nil && d.Minimal && d.Consumed == len(data)
	return judgeHexDoors(ctx, hex.EncodeToString(data), true, data, d, rerr, must)
}
