package c01

// Sub-check "serialisers" (round 7): EVERY exported serialiser of the package takes
// part in a history over several transactions and loose values - Tx.Bytes,
// ExtendedBytes, BytesWithClearedInputs, TxIDBytes, TxID, String, Size, Input.Bytes
// (clear or not), Output.Bytes, Output.BytesForSigHash, VarInt.Bytes / Length /
// UpperLimitInc, ReverseBytes, LittleEndianBytes - and every byte slice the library
// RETURNS is treated as the caller's: the harness appends to it (up to a few hundred
// bytes, i.e. into whatever capacity stands behind it) and scribbles over it within
// len and within cap. After every such step ALL varints 0..300 (and the class edges)
// are encoded again, and at the end every transaction of the case plus two sweep
// transactions (counts and script lengths sweeping 0..300) are serialised again;
// everything must equal the reference.

import (
	"bytes"
	"encoding/hex"
	"fmt"
	"testing"

	"github.com/libsv/go-bt/v2"
	"pgregory.net/rapid"

	"verif/harness/gen"
	"verif/harness/pbt"
	"verif/harness/ref"
)

// SStep is one call of a serialiser.
type SStep struct {
	Kind     string  `json:"kind"` // bytes ext txidbytes txid string size cleared inbytes outbytes outsighash varint varintlen upper reverse le fail
	Fail     string  `json:"fail,omitempty"` // fail: which failing call (failKinds); at = position of the damage / the cut, v = entry point variant, clear = extended format
	Tx       int     `json:"tx,omitempty"`
	At       int     `json:"at,omitempty"`     // element index (modulo the count); cleared: used as is (may be out of range, -1 included)
	Script   pbt.Hex `json:"script,omitempty"` // cleared: the script given
	NilArg   bool    `json:"nil_arg,omitempty"`
	Clear    bool    `json:"clear,omitempty"`
	V        uint64  `json:"v,omitempty"`
	Append   int     `json:"append,omitempty"`   // bytes the caller appends to the returned slice
	Scribble string  `json:"scribble,omitempty"` // "" | len | cap : how much of the returned slice the caller overwrites
}

// Serial is the case type of sub-check "serialisers".
type Serial struct {
	Txs   []ref.Tx `json:"txs"`
	Sweep int      `json:"sweep"` // parameter of the two sweep transactions
	Steps []SStep  `json:"steps"`
}

func refInBytes(in ref.In, clear bool) []byte {
	if clear {
		in.Unlock = nil
	}
	return refInput(in, false)
}

// clearedForms returns the serialisations BytesWithClearedInputs may produce. With a
// nil script it is the standard serialisation. With a script every unlocking script is
// written as empty, and input idx (if there is one) carries the given script: the
// library at HEAD writes ONLY length+script for that input (no outpoint, no sequence);
// a version that keeps outpoint and sequence would serve the documented purpose equally,
// so both forms are accepted - what must never differ are the other inputs, the counts,
// the outputs, the lock time and the length prefix of the script.
func clearedForms(m ref.Tx, idx int, script []byte, nilArg bool) [][]byte {
	if nilArg {
		return [][]byte{ref.Encode(m, false)}
	}
	var pre, post []byte
	pre = append(pre, le32b(m.Version)...)
	pre = append(pre, ref.VarInt(uint64(len(m.In)))...)
	hit := false
	var a, b []byte
	for i, in := range m.In {
		if i == idx {
			hit = true
			ls := append(append([]byte{}, ref.VarInt(uint64(len(script)))...), script...)
			a = ls
			b = append(append(append(append([]byte{}, ref.Reverse(in.TxID)...), le32b(in.Vout)...), ls...), le32b(in.Seq)...)
			continue
		}
		if !hit {
			pre = append(pre, refInBytes(in, true)...)
		} else {
			post = append(post, refInBytes(in, true)...)
		}
	}
	post = append(post, ref.VarInt(uint64(len(m.Out)))...)
	for _, o := range m.Out {
		post = append(post, refOutput(o)...)
	}
	post = append(post, le32b(m.LockTime)...)
	if !hit {
		return [][]byte{append(append([]byte{}, pre...), post...)}
	}
	return [][]byte{
		append(append(append([]byte{}, pre...), a...), post...),
		append(append(append([]byte{}, pre...), b...), post...),
	}
}

// sweepTx builds a transaction whose counts and script lengths walk through 0..300.
func sweepTx(p, which int) ref.Tx {
	nin, nout := (p*7+which*131)%301, (p*13+which*57+29)%301
	if which == 1 {
		nin = nin % 5 // few inputs, many outputs ... and the other way round
	} else {
		nout = nout % 5
	}
	m := ref.Tx{Version: uint32(p), LockTime: uint32(which)}
	for i := 0; i < nin; i++ {
		m.In = append(m.In, ref.In{TxID: fixed(32, i+p), Vout: uint32(i), Seq: uint32(p), Unlock: fixed((p+i*3)%301, i), PrevSats: uint64(i), PrevScript: fixed((p*3+i)%301, i+1)})
	}
	for i := 0; i < nout; i++ {
		m.Out = append(m.Out, ref.Out{Sats: uint64(i), Script: fixed((p*5+i*2)%301, i+2)})
	}
	if ref.Ambiguous(m) {
		m.LockTime = 1
	}
	return m
}

var varintEdges = []uint64{65535, 65536, 1<<32 - 1, 1 << 32, ^uint64(0)}

// varintsHold encodes every value 0..300 and the class edges again.
func varintsHold(when string) error {
	for v := uint64(0); v <= 300+uint64(len(varintEdges)); v++ {
		x := v
		if v > 300 {
			x = varintEdges[v-301]
		}
		if got, want := bt.VarInt(x).Bytes(), ref.VarInt(x); !bytes.Equal(got, want) {
			return fmt.Errorf("%s: VarInt(%d).Bytes() = %x, the encoding is %x", when, x, got, want)
		}
	}
	return nil
}

func txsHold(when string, libs []*bt.Tx, ms []ref.Tx) error {
	for i, m := range ms {
		if err := eqBytes(fmt.Sprintf("%s: Bytes() of transaction %d of the case", when, i), libs[i].Bytes(), ref.Encode(m, false)); err != nil {
			return err
		}
		if err := eqBytes(fmt.Sprintf("%s: ExtendedBytes() of transaction %d of the case", when, i), libs[i].ExtendedBytes(), ref.Encode(m, true)); err != nil {
			return err
		}
	}
	return nil
}

func checkSerial(ctx *pbt.Ctx, c Serial) error {
	if len(c.Txs) == 0 || len(c.Txs) > 6 || len(c.Steps) > 16 || c.Sweep < 0 {
		ctx.Discard("invalid case")
		return nil
	}
	var libs []*bt.Tx
	for _, m := range c.Txs {
		if validModel(m) != nil {
			ctx.Discard("invalid model in replay file")
			return nil
		}
		if ref.Ambiguous(m) {
			ctx.Discard("ambiguous shape (no inputs, no outputs, locktime 0xEF000000)")
			return nil
		}
		tx, via := ref.ToLibVia(m)
		if via == "built" {
			ctx.After(ref.Intact(tx))
		}
		ctx.Label("object=" + via)
		libs = append(libs, tx)
	}
	type kept struct {
		what      string
		got, want []byte
	}
	var retained []kept
	abused := false
	for si, s := range c.Steps {
		if s.Tx < 0 || s.Append < 0 || s.Append > 2000 {
			ctx.Discard("invalid case: step")
			return nil
		}
		k := s.Tx % len(c.Txs)
		m, tx := c.Txs[k], libs[k]
		what := fmt.Sprintf("step %d: %s", si, s.Kind)
		ctx.Label("call=" + s.Kind)
		var got []byte
		var wants [][]byte
		switch s.Kind {
		case "fail":
			// a call that fails (panic recovered / error returned): nothing is asserted about
			// it, but it must leave no trace in anything computed afterwards
			if !knownFailKind(s.Fail) {
				ctx.Discard("invalid case: failing call")
				return nil
			}
			ctx.Label("failing call " + s.Fail + ": " + failingCall(s.Fail, m, s.At, int(s.V%1000), s.Clear))
			after := what + " (" + s.Fail + ")"
			if err := varintsHold("after the failed call of " + after); err != nil {
				return err
			}
			if err := txsHold("after the failed call of "+after, libs, c.Txs); err != nil {
				return err
			}
			if g, w := libs[0].TxID(), hex.EncodeToString(ref.Reverse(sha256d(ref.Encode(c.Txs[0], false)))); g != w {
				return fmt.Errorf("after the failed call of %s: TxID() of transaction 0 = %s, want %s", after, g, w)
			}
			abused = true
			continue
		case "bytes":
			got, wants = tx.Bytes(), [][]byte{ref.Encode(m, false)}
		case "ext":
			got, wants = tx.ExtendedBytes(), [][]byte{ref.Encode(m, true)}
		case "txidbytes":
			got, wants = tx.TxIDBytes(), [][]byte{ref.Reverse(sha256d(ref.Encode(m, false)))}
		case "txid":
			if g, w := tx.TxID(), hex.EncodeToString(ref.Reverse(sha256d(ref.Encode(m, false)))); g != w {
				return fmt.Errorf("%s: TxID() = %s, want %s", what, g, w)
			}
			continue
		case "string":
			if g, w := tx.String(), hex.EncodeToString(ref.Encode(m, false)); g != w {
				return fmt.Errorf("%s: String() differs from the hex of the standard encoding: %s", what, firstDiff([]byte(g), []byte(w)))
			}
			continue
		case "size":
			if g, w := tx.Size(), len(ref.Encode(m, false)); g != w {
				return fmt.Errorf("%s: Size() = %d, want %d", what, g, w)
			}
			continue
		case "cleared":
			var arg []byte
			if !s.NilArg {
				arg = append([]byte{}, s.Script...) // non-nil even when empty
			}
			argCopy := append([]byte{}, arg...)
			got, wants = tx.BytesWithClearedInputs(s.At, arg), clearedForms(m, s.At, s.Script, s.NilArg)
			if !bytes.Equal(arg, argCopy) {
				return fmt.Errorf("%s: BytesWithClearedInputs changed the script it was given", what)
			}
			switch {
			case s.NilArg:
				ctx.Label("cleared: nil script")
			case s.At < 0 || s.At >= len(m.In):
				ctx.Label("cleared: index out of range")
			default:
				ctx.Labelf("cleared: script length %s", cls(len(s.Script)))
			}
		case "inbytes":
			if len(m.In) == 0 {
				continue
			}
			i := s.At % len(m.In)
			if i < 0 {
				i = 0
			}
			got, wants = tx.Inputs[i].Bytes(s.Clear), [][]byte{refInBytes(m.In[i], s.Clear)}
		case "outbytes", "outsighash":
			if len(m.Out) == 0 {
				continue
			}
			i := s.At % len(m.Out)
			if i < 0 {
				i = 0
			}
			if s.Kind == "outbytes" {
				got = tx.Outputs[i].Bytes()
			} else {
				got = tx.Outputs[i].BytesForSigHash()
			}
			wants = [][]byte{refOutput(m.Out[i])}
		case "varint":
			got, wants = bt.VarInt(s.V).Bytes(), [][]byte{ref.VarInt(s.V)}
			ctx.Labelf("varint width %d", len(wants[0]))
		case "varintlen":
			if g, w := bt.VarInt(s.V).Length(), len(ref.VarInt(s.V)); g != w {
				return fmt.Errorf("%s: VarInt(%d).Length() = %d, the encoding has %d bytes", what, s.V, g, w)
			}
			continue
		case "upper":
			w := -1
			if s.V != ^uint64(0) {
				w = len(ref.VarInt(s.V+1)) - len(ref.VarInt(s.V))
			}
			if g := bt.VarInt(s.V).UpperLimitInc(); g != w {
				return fmt.Errorf("%s: VarInt(%d).UpperLimitInc() = %d, the encoding grows by %d bytes when the value is incremented (-1: cannot be)", what, s.V, g, w)
			}
			continue
		case "reverse":
			arg := append([]byte{}, s.Script...)
			got, wants = bt.ReverseBytes(arg), [][]byte{ref.Reverse(s.Script)}
			if !bytes.Equal(arg, s.Script) {
				return fmt.Errorf("%s: ReverseBytes changed its argument", what)
			}
		case "le":
			got, wants = bt.LittleEndianBytes(uint32(s.V), 4), [][]byte{le32b(uint32(s.V))}
		default:
			ctx.Discard("invalid case: kind")
			return nil
		}
		ok := false
		var want []byte
		for _, w := range wants {
			if bytes.Equal(got, w) {
				ok, want = true, w
			}
		}
		if !ok {
			return fmt.Errorf("%s (transaction %d, at %d, clear %v, script %s, nil %v, v %d) vs the reference: %s", what, k, s.At, s.Clear, head(s.Script), s.NilArg, s.V, firstDiff(got, wants[0]))
		}
		if s.Append == 0 && s.Scribble == "" {
			retained = append(retained, kept{what, got, want})
			continue
		}
		// the result is the caller's: grow it, write all over it
		abused = true
		r := got
		for i := 0; i < s.Append; i++ {
			r = append(r, byte(0xe0+i%16))
		}
		switch s.Scribble {
		case "len":
			for i := range r {
				r[i] = 0xd1
			}
		case "cap":
			r = r[:cap(r)]
			for i := range r {
				r[i] = 0xd2
			}
		}
		ctx.Label("result appended-to / scribbled")
		if err := varintsHold(what + ", after the caller appended to / wrote over the returned slice"); err != nil {
			return err
		}
	}
	when := "after the last step"
	if err := varintsHold(when); err != nil {
		return err
	}
	for _, r := range retained {
		if err := eqBytes(when+", the result retained from "+r.what+" changed", r.got, r.want); err != nil {
			return err
		}
	}
	if err := txsHold(when, libs, c.Txs); err != nil {
		return err
	}
	for w := 0; w < 2; w++ {
		sm := sweepTx(c.Sweep, w)
		st, _ := ref.ToLibVia(sm)
		if err := txsHold(fmt.Sprintf("%s: sweep transaction (%d inputs, %d outputs)", when, len(sm.In), len(sm.Out)), []*bt.Tx{st}, []ref.Tx{sm}); err != nil {
			return err
		}
		if got, want := st.TxID(), hex.EncodeToString(ref.Reverse(sha256d(ref.Encode(sm, false)))); got != want {
			return fmt.Errorf("%s: TxID() of the sweep transaction = %s, want %s", when, got, want)
		}
	}
	if abused {
		ctx.NonTrivial()
	}
	return nil
}

func genSerial(t *rapid.T) Serial {
	n := rapid.IntRange(1, 3).Draw(t, "ntx")
	c := Serial{Sweep: rapid.IntRange(0, 3000).Draw(t, "sweep")}
	o := gen.TxOpts{MinIn: 0, MaxIn: 4, MinOut: 0, MaxOut: 4, BigCounts: []int{30, 126, 127, 252, 253}, MaxScript: 300, ScriptEdges: []int{0, 1, 25, 26, 50, 75, 76, 126, 127, 128, 252, 253}}
	for i := 0; i < n; i++ {
		m := gen.Tx(t, o)
		nilify(t, &m)
		if m.LockTime == 0xEF000000 {
			m.LockTime = 0xEE000000
		}
		c.Txs = append(c.Txs, m)
	}
	ns := rapid.IntRange(2, 10).Draw(t, "nsteps")
	for i := 0; i < ns; i++ {
		s := SStep{Kind: rapid.SampledFrom([]string{"fail", "fail", "fail", "cleared", "cleared", "cleared", "varint", "varint", "bytes", "ext", "txidbytes", "inbytes", "outbytes", "outsighash", "txid", "string", "size", "varintlen", "upper", "reverse", "le"}).Draw(t, "kind")}
		s.Tx = rapid.IntRange(0, 2).Draw(t, "tx")
		s.At = rapid.SampledFrom([]int{0, 0, 1, 2, 3, 251, 252, -1, 7}).Draw(t, "at")
		switch s.Kind {
		case "cleared":
			s.NilArg = rapid.IntRange(0, 7).Draw(t, "nil_arg") == 0
			if !s.NilArg {
				s.Script = gen.FillBytes(t, gen.EdgeLen(t, 300, "slen", 0, 1, 25, 26, 75, 76, 107, 125, 126, 127, 128, 252, 253), "script")
			}
		case "inbytes":
			s.Clear = rapid.Bool().Draw(t, "clear")
		case "varint", "varintlen", "upper", "le":
			if rapid.Bool().Draw(t, "v_small") {
				s.V = uint64(rapid.IntRange(0, 300).Draw(t, "v300"))
			} else {
				s.V = gen.U64(t, "v")
			}
		case "reverse":
			s.Script = gen.BytesUpTo(t, 40, "rev")
		case "fail":
			s.Fail = rapid.SampledFrom(failKinds).Draw(t, "fail")
			s.At = rapid.IntRange(0, 2000).Draw(t, "fail_at")
			s.V = uint64(rapid.IntRange(0, 11).Draw(t, "fail_variant"))
			s.Clear = rapid.Bool().Draw(t, "fail_ext")
		}
		switch rapid.IntRange(0, 3).Draw(t, "abuse") {
		case 0:
		case 1:
			s.Append = rapid.SampledFrom([]int{1, 8, 25, 100, 252, 300, 600}).Draw(t, "append")
		case 2:
			s.Scribble = rapid.SampledFrom([]string{"len", "cap"}).Draw(t, "scribble")
		default:
			s.Append = rapid.SampledFrom([]int{1, 25, 126, 300}).Draw(t, "append2")
			s.Scribble = rapid.SampledFrom([]string{"len", "cap"}).Draw(t, "scribble2")
		}
		c.Steps = append(c.Steps, s)
	}
	return c
}

func TestSerialisers(t *testing.T) {
	pbt.Run(t, pbt.Sub[Serial]{
		Name: "serialisers", Quick: 9000, Thorough: 150000,
		Gen:      genSerial,
		Check:    checkSerial,
		EnumDesc: "VarInt(n).Bytes() for every n in 0..300 and the class edges: the caller appends 300 bytes to the result and overwrites all of its capacity, then all of 0..300 are encoded again; BytesWithClearedInputs(0, script) for every script length 0..300 on a two-input transaction, followed by the same re-encoding and by the sweep transactions; each of the 12 failing calls (serialisers on objects with a nil locking script / nil element / nil transaction, decoders on truncated inputs and breaking readers) at every position 0..len(encoding)-1 x {standard, extended}, followed by ordinary serialisations",
		Enum: func(tier string, yield func(Serial)) {
			base := Shape{NIn: 2, NOut: 2, Len: 3, Salt: 5}.model()
			for v := uint64(0); v <= 300+uint64(len(varintEdges)); v++ {
				x := v
				if v > 300 {
					x = varintEdges[v-301]
				}
				yield(Serial{Txs: []ref.Tx{base}, Sweep: int(v) * 3, Steps: []SStep{{Kind: "varint", V: x, Append: 300, Scribble: "cap"}}})
			}
			for l := 0; l <= 300; l++ {
				yield(Serial{Txs: []ref.Tx{base}, Sweep: l * 7, Steps: []SStep{{Kind: "cleared", At: l % 2, Script: fixed(l, l)}, {Kind: "bytes"}}})
			}
			// every failing call, at every position / cut point, in every entry point variant
			for _, fk := range failKinds {
				for _, ext := range []bool{false, true} {
					for at := 0; at < len(ref.Encode(base, ext)); at++ {
						yield(Serial{Txs: []ref.Tx{base}, Sweep: at, Steps: []SStep{{Kind: "fail", Fail: fk, At: at, V: uint64(at % 6), Clear: ext}, {Kind: "ext"}, {Kind: "txid"}}})
					}
				}
			}
		},
	})
}
