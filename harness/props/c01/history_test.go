package c01

// Sub-check "history" (extension round 4): ONE library transaction object serves
// a generated sequence of queries and in-place edits. After every step each
// answer must equal the independent reference for the transaction as it stands at
// that moment; everything the queries handed out is kept and compared once more
// after the last step (retained results); objects split off by Clone must keep
// the serialisations they had when they were split off.

import (
	"bytes"
	"encoding/hex"
	"fmt"
	"runtime"
	"runtime/debug"
	"testing"

	"github.com/libsv/go-bt/v2"
	"github.com/libsv/go-bt/v2/bscript"
	"pgregory.net/rapid"

	"verif/harness/gen"
	"verif/harness/pbt"
	"verif/harness/ref"
)

// HOp is one step of a history: an optional edit followed by queries.
type HOp struct {
	Kind     string   `json:"kind"`
	At       int      `json:"at,omitempty"`
	U64      uint64   `json:"u64,omitempty"`
	B        pbt.Hex  `json:"b,omitempty"`
	N        int      `json:"n,omitempty"`      // rep-in / rep-out: element count to reach by replicating the last element
	In       *ref.In  `json:"in,omitempty"`     // add-in / ins-in / replace-in
	Out      *ref.Out `json:"out,omitempty"`    // add-out / ins-out / replace-out
	Other    *ref.Tx  `json:"other,omitempty"`  // readfrom: the transaction decoded into the populated object
	Ext      bool     `json:"ext,omitempty"`    // readfrom: format of the encoding
	Trail    pbt.Hex  `json:"trail,omitempty"`  // readfrom: bytes behind the encoding that must stay unread
	Script   *gen.C09Script `json:"script,omitempty"` // readfrom (round 9): how the reader hands the bytes over (never failing)
	Switch   bool     `json:"switch,omitempty"` // clone: the history continues on the clone (else on the original)
	Q        []string `json:"q"`                // queries asked after the edit
	Scribble bool     `json:"scribble,omitempty"`
}

// History is the case type of sub-check "history".
type History struct {
	Tx    ref.Tx   `json:"tx"`
	Start string   `json:"start"` // build | parse-std | parse-ext | list-std | list-ext
	Q     []string `json:"q"`     // queries before the first edit
	Ops   []HOp    `json:"ops"`
}

var historyQueries = []string{"bytes", "ext", "txid", "txidbytes", "size", "string", "reparse"}

func libIn(in ref.In) *bt.Input {
	i := &bt.Input{PreviousTxOutIndex: in.Vout, SequenceNumber: in.Seq, PreviousTxSatoshis: in.PrevSats}
	if err := i.PreviousTxIDAdd(append([]byte{}, in.TxID...)); err != nil {
		panic("c01 history: model input with invalid txid")
	}
	if !in.UnlockNil {
		i.UnlockingScript = bscript.NewFromBytes(append([]byte{}, in.Unlock...))
	}
	if !in.PrevNil {
		i.PreviousTxScript = bscript.NewFromBytes(append([]byte{}, in.PrevScript...))
	}
	return i
}

func libOut(o ref.Out) *bt.Output {
	return &bt.Output{Satoshis: o.Sats, LockingScript: bscript.NewFromBytes(append([]byte{}, o.Script...))}
}

func validIn(in *ref.In) bool {
	return in != nil && len(in.TxID) == 32 && !(in.UnlockNil && len(in.Unlock) != 0) && !(in.PrevNil && len(in.PrevScript) != 0)
}

var defaultIn = ref.In{TxID: fixed(32, 7), Vout: 1, Seq: 0xfffffffe, Unlock: pbt.Hex{0x51}, PrevSats: 1000, PrevScript: pbt.Hex{0x52}}
var defaultOut = ref.Out{Sats: 1, Script: pbt.Hex{0x51}}

// validOp says whether the op can be interpreted at all (replay files may hold anything).
func validOp(op HOp) error {
	switch op.Kind {
	case "none", "version", "locktime", "in-vout", "in-seq", "in-prevsats", "in-unlock", "in-unlock-nil", "in-prev", "in-prev-nil",
		"in-unlock-flip", "in-unlock-append", "out-sats", "out-script", "out-flip", "out-append", "del-in", "del-out",
		"clear-in", "clear-out", "swap-in", "swap-out", "clone":
	case "fail":
		if !knownFailKind(string(op.B)) {
			return fmt.Errorf("unknown failing call")
		}
	case "in-txid":
		if len(op.B) != 32 {
			return fmt.Errorf("in-txid with %d bytes", len(op.B))
		}
	case "add-in", "ins-in", "replace-in":
		if !validIn(op.In) {
			return fmt.Errorf("%s without a valid input", op.Kind)
		}
	case "add-out", "ins-out", "replace-out":
		if op.Out == nil {
			return fmt.Errorf("%s without an output", op.Kind)
		}
	case "rep-in", "rep-out":
		if op.N < 0 || op.N > 70000 {
			return fmt.Errorf("%s to %d elements", op.Kind, op.N)
		}
	case "readfrom":
		if op.Other == nil || validModel(*op.Other) != nil {
			return fmt.Errorf("readfrom without a valid transaction")
		}
	default:
		return fmt.Errorf("unknown op %q", op.Kind)
	}
	for _, q := range op.Q {
		if !knownQuery(q) {
			return fmt.Errorf("unknown query %q", q)
		}
	}
	if op.At < 0 {
		return fmt.Errorf("negative position")
	}
	return nil
}

func knownQuery(q string) bool {
	for _, k := range historyQueries {
		if k == q {
			return true
		}
	}
	return false
}

func cow(b pbt.Hex) pbt.Hex { return append(pbt.Hex{}, b...) }

// applyModel applies an edit to the model. Script bytes are never modified in
// place (replicated elements share them); lists are rebuilt, never aliased with
// the case.
func applyModel(op HOp, m *ref.Tx) {
	ni, no := len(m.In), len(m.Out)
	switch op.Kind {
	case "version":
		m.Version = uint32(op.U64)
	case "locktime":
		m.LockTime = uint32(op.U64)
	case "in-vout":
		if ni > 0 {
			m.In[op.At%ni].Vout = uint32(op.U64)
		}
	case "in-seq":
		if ni > 0 {
			m.In[op.At%ni].Seq = uint32(op.U64)
		}
	case "in-prevsats":
		if ni > 0 {
			m.In[op.At%ni].PrevSats = op.U64
		}
	case "in-txid":
		if ni > 0 {
			m.In[op.At%ni].TxID = cow(op.B)
		}
	case "in-unlock":
		if ni > 0 {
			m.In[op.At%ni].Unlock, m.In[op.At%ni].UnlockNil = cow(op.B), false
		}
	case "in-unlock-nil":
		if ni > 0 {
			m.In[op.At%ni].Unlock, m.In[op.At%ni].UnlockNil = nil, true
		}
	case "in-prev":
		if ni > 0 {
			m.In[op.At%ni].PrevScript, m.In[op.At%ni].PrevNil = cow(op.B), false
		}
	case "in-prev-nil":
		if ni > 0 {
			m.In[op.At%ni].PrevScript, m.In[op.At%ni].PrevNil = nil, true
		}
	case "in-unlock-flip":
		if ni > 0 {
			in := &m.In[op.At%ni]
			if l := len(in.Unlock); l > 0 {
				s := cow(in.Unlock)
				s[op.U64%uint64(l)] ^= 0xff
				in.Unlock = s
			}
		}
	case "in-unlock-append":
		if ni > 0 {
			in := &m.In[op.At%ni]
			in.Unlock, in.UnlockNil = append(cow(in.Unlock), op.B...), false
		}
	case "out-sats":
		if no > 0 {
			m.Out[op.At%no].Sats = op.U64
		}
	case "out-script":
		if no > 0 {
			m.Out[op.At%no].Script = cow(op.B)
		}
	case "out-flip":
		if no > 0 {
			o := &m.Out[op.At%no]
			if l := len(o.Script); l > 0 {
				s := cow(o.Script)
				s[op.U64%uint64(l)] ^= 0xff
				o.Script = s
			}
		}
	case "out-append":
		if no > 0 {
			o := &m.Out[op.At%no]
			o.Script = append(cow(o.Script), op.B...)
		}
	case "add-in":
		m.In = append(m.In[:ni:ni], *op.In)
	case "add-out":
		m.Out = append(m.Out[:no:no], *op.Out)
	case "ins-in":
		p := op.At % (ni + 1)
		n := append([]ref.In{}, m.In[:p]...)
		n = append(n, *op.In)
		m.In = append(n, m.In[p:]...)
	case "ins-out":
		p := op.At % (no + 1)
		n := append([]ref.Out{}, m.Out[:p]...)
		n = append(n, *op.Out)
		m.Out = append(n, m.Out[p:]...)
	case "replace-in":
		if ni > 0 {
			m.In[op.At%ni] = *op.In
		}
	case "replace-out":
		if no > 0 {
			m.Out[op.At%no] = *op.Out
		}
	case "del-in":
		if ni > 0 {
			p := op.At % ni
			m.In = append(append([]ref.In{}, m.In[:p]...), m.In[p+1:]...)
		}
	case "del-out":
		if no > 0 {
			p := op.At % no
			m.Out = append(append([]ref.Out{}, m.Out[:p]...), m.Out[p+1:]...)
		}
	case "clear-in":
		m.In = nil
	case "clear-out":
		m.Out = nil
	case "swap-in":
		if ni > 1 {
			a, b := op.At%ni, int(op.U64%uint64(ni))
			m.In[a], m.In[b] = m.In[b], m.In[a]
		}
	case "swap-out":
		if no > 1 {
			a, b := op.At%no, int(op.U64%uint64(no))
			m.Out[a], m.Out[b] = m.Out[b], m.Out[a]
		}
	case "rep-in":
		last := defaultIn
		if ni > 0 {
			last = m.In[ni-1]
		}
		n := append(make([]ref.In, 0, op.N), m.In...)
		for len(n) < op.N {
			n = append(n, last)
		}
		m.In = n[:op.N]
	case "rep-out":
		last := defaultOut
		if no > 0 {
			last = m.Out[no-1]
		}
		n := append(make([]ref.Out, 0, op.N), m.Out...)
		for len(n) < op.N {
			n = append(n, last)
		}
		m.Out = n[:op.N]
	case "readfrom":
		o := *op.Other
		if !op.Ext {
			o = stripPrev(o)
		}
		*m = ref.Tx{Version: o.Version, LockTime: o.LockTime, In: append([]ref.In{}, o.In...), Out: append([]ref.Out{}, o.Out...)}
	}
}

// applyLib performs the same edit on the library object, in place, through its
// exported fields (and PreviousTxIDAdd for the one unexported field). before is
// the model before the edit (replicated elements are built from it).
func applyLib(op HOp, tx *bt.Tx, before ref.Tx) {
	ni, no := len(tx.Inputs), len(tx.Outputs)
	switch op.Kind {
	case "version":
		tx.Version = uint32(op.U64)
	case "locktime":
		tx.LockTime = uint32(op.U64)
	case "in-vout":
		if ni > 0 {
			tx.Inputs[op.At%ni].PreviousTxOutIndex = uint32(op.U64)
		}
	case "in-seq":
		if ni > 0 {
			tx.Inputs[op.At%ni].SequenceNumber = uint32(op.U64)
		}
	case "in-prevsats":
		if ni > 0 {
			tx.Inputs[op.At%ni].PreviousTxSatoshis = op.U64
		}
	case "in-txid":
		if ni > 0 {
			if err := tx.Inputs[op.At%ni].PreviousTxIDAdd(append([]byte{}, op.B...)); err != nil {
				panic(err)
			}
		}
	case "in-unlock":
		if ni > 0 {
			tx.Inputs[op.At%ni].UnlockingScript = bscript.NewFromBytes(append([]byte{}, op.B...))
		}
	case "in-unlock-nil":
		if ni > 0 {
			tx.Inputs[op.At%ni].UnlockingScript = nil
		}
	case "in-prev":
		if ni > 0 {
			tx.Inputs[op.At%ni].PreviousTxScript = bscript.NewFromBytes(append([]byte{}, op.B...))
		}
	case "in-prev-nil":
		if ni > 0 {
			tx.Inputs[op.At%ni].PreviousTxScript = nil
		}
	case "in-unlock-flip":
		if ni > 0 {
			if s := tx.Inputs[op.At%ni].UnlockingScript; s != nil && len(*s) > 0 {
				(*s)[op.U64%uint64(len(*s))] ^= 0xff
			}
		}
	case "in-unlock-append":
		if ni > 0 {
			in := tx.Inputs[op.At%ni]
			if in.UnlockingScript == nil {
				in.UnlockingScript = bscript.NewFromBytes(append([]byte{}, op.B...))
			} else {
				*in.UnlockingScript = append(*in.UnlockingScript, op.B...)
			}
		}
	case "out-sats":
		if no > 0 {
			tx.Outputs[op.At%no].Satoshis = op.U64
		}
	case "out-script":
		if no > 0 {
			tx.Outputs[op.At%no].LockingScript = bscript.NewFromBytes(append([]byte{}, op.B...))
		}
	case "out-flip":
		if no > 0 {
			if s := tx.Outputs[op.At%no].LockingScript; len(*s) > 0 {
				(*s)[op.U64%uint64(len(*s))] ^= 0xff
			}
		}
	case "out-append":
		if no > 0 {
			s := tx.Outputs[op.At%no].LockingScript
			*s = append(*s, op.B...)
		}
	case "add-in":
		tx.Inputs = append(tx.Inputs, libIn(*op.In))
	case "add-out":
		if op.U64&1 == 1 {
			tx.AddOutput(libOut(*op.Out))
		} else {
			tx.Outputs = append(tx.Outputs, libOut(*op.Out))
		}
	case "ins-in":
		p := op.At % (ni + 1)
		tx.Inputs = append(tx.Inputs, nil)
		copy(tx.Inputs[p+1:], tx.Inputs[p:])
		tx.Inputs[p] = libIn(*op.In)
	case "ins-out":
		p := op.At % (no + 1)
		tx.Outputs = append(tx.Outputs, nil)
		copy(tx.Outputs[p+1:], tx.Outputs[p:])
		tx.Outputs[p] = libOut(*op.Out)
	case "replace-in":
		if ni > 0 {
			tx.Inputs[op.At%ni] = libIn(*op.In)
		}
	case "replace-out":
		if no > 0 {
			tx.Outputs[op.At%no] = libOut(*op.Out)
		}
	case "del-in":
		if ni > 0 {
			p := op.At % ni
			tx.Inputs = append(tx.Inputs[:p], tx.Inputs[p+1:]...)
		}
	case "del-out":
		if no > 0 {
			p := op.At % no
			tx.Outputs = append(tx.Outputs[:p], tx.Outputs[p+1:]...)
		}
	case "clear-in":
		if op.U64&1 == 1 {
			tx.Inputs = nil
		} else {
			tx.Inputs = tx.Inputs[:0]
		}
	case "clear-out":
		if op.U64&1 == 1 {
			tx.Outputs = nil
		} else {
			tx.Outputs = tx.Outputs[:0]
		}
	case "swap-in":
		if ni > 1 {
			a, b := op.At%ni, int(op.U64%uint64(ni))
			tx.Inputs[a], tx.Inputs[b] = tx.Inputs[b], tx.Inputs[a]
		}
	case "swap-out":
		if no > 1 {
			a, b := op.At%no, int(op.U64%uint64(no))
			tx.Outputs[a], tx.Outputs[b] = tx.Outputs[b], tx.Outputs[a]
		}
	case "rep-in":
		last := defaultIn
		if n := len(before.In); n > 0 {
			last = before.In[n-1]
		}
		for len(tx.Inputs) < op.N {
			tx.Inputs = append(tx.Inputs, libIn(last)) // a fresh object per element
		}
		tx.Inputs = tx.Inputs[:op.N]
	case "rep-out":
		last := defaultOut
		if n := len(before.Out); n > 0 {
			last = before.Out[n-1]
		}
		for len(tx.Outputs) < op.N {
			tx.Outputs = append(tx.Outputs, libOut(last))
		}
		tx.Outputs = tx.Outputs[:op.N]
	}
}

// lowMemory switches the collector to its default pace (pbt.Main runs the shards
// at 400 %) and returns the function that restores the pace and frees the garbage.
func lowMemory() func() {
	old := debug.SetGCPercent(100)
	return func() {
		debug.SetGCPercent(old)
		runtime.GC()
	}
}

type retainedBytes struct {
	what      string
	got, want []byte
}

type retainedStr struct{ what, got, want string }

type shadow struct {
	what     string
	tx       *bt.Tx
	std, ext []byte
}

func crossing(a, b int) string {
	lo, hi := a, b
	if lo > hi {
		lo, hi = hi, lo
	}
	switch {
	case lo <= 252 && hi >= 253 && hi < 60000:
		return "252|253"
	case lo <= 65535 && lo > 60000 && hi >= 65536:
		return "65535|65536"
	}
	return ""
}

func checkHistory(ctx *pbt.Ctx, c History) error {
	// ---- validity and domain (pure model pass) ----
	if err := validModel(c.Tx); err != nil {
		ctx.Discard("invalid model in replay file")
		return nil
	}
	switch c.Start {
	case "build", "parse-std", "parse-ext", "list-std", "list-ext":
	default:
		ctx.Discard("invalid case: start")
		return nil
	}
	if len(c.Ops) > 12 {
		ctx.Discard("invalid case: too many ops")
		return nil
	}
	for _, q := range c.Q {
		if !knownQuery(q) {
			ctx.Discard("invalid case: query")
			return nil
		}
	}
	start := ref.Tx{Version: c.Tx.Version, LockTime: c.Tx.LockTime, In: append([]ref.In{}, c.Tx.In...), Out: append([]ref.Out{}, c.Tx.Out...)}
	if c.Start == "parse-std" || c.Start == "list-std" {
		start = stripPrev(start)
	}
	{
		m := ref.Tx{Version: start.Version, LockTime: start.LockTime, In: append([]ref.In{}, start.In...), Out: append([]ref.Out{}, start.Out...)}
		if ref.Ambiguous(m) {
			ctx.Discard("ambiguous shape (no inputs, no outputs, locktime 0xEF000000)")
			return nil
		}
		for _, op := range c.Ops {
			if err := validOp(op); err != nil {
				ctx.Discard("invalid case: op")
				return nil
			}
			if op.Kind == "readfrom" && ref.Ambiguous(*op.Other) {
				ctx.Discard("ambiguous shape (no inputs, no outputs, locktime 0xEF000000)")
				return nil
			}
			applyModel(op, &m)
			if ref.Ambiguous(m) {
				ctx.Discard("ambiguous shape (no inputs, no outputs, locktime 0xEF000000)")
				return nil
			}
		}
	}

	// cases with tens of thousands of elements: collect garbage eagerly so that the
	// shard's heap (and with it the address space under the driver's ulimit) stays small
	for _, op := range c.Ops {
		if (op.Kind == "rep-in" || op.Kind == "rep-out") && op.N > 10000 {
			defer lowMemory()()
			break
		}
	}

	// ---- the object under test ----
	m := start
	var cur *bt.Tx
	switch c.Start {
	case "build":
		cur = ref.ToLib(m)
	case "parse-std", "parse-ext":
		var err error
		buf := ref.Encode(c.Tx, c.Start == "parse-ext")
		if cur, err = bt.NewTxFromBytes(buf); err != nil {
			return fmt.Errorf("NewTxFromBytes rejected the reference encoding of the start transaction: %v", err)
		}
		for i := range buf { // the caller reuses the buffer it parsed from
			buf[i] = ^buf[i]
		}
	default:
		var txs bt.Txs
		block := append([]byte{1}, ref.Encode(c.Tx, c.Start == "list-ext")...)
		if _, err := txs.ReadFrom(bytes.NewReader(block)); err != nil || len(txs) != 1 || txs[0] == nil {
			return fmt.Errorf("(*Txs).ReadFrom on a list of one transaction: %d elements, err %v", len(txs), err)
		}
		cur = txs[0]
	}
	ctx.Label("start=" + c.Start)

	var keptB []retainedBytes
	var keptS []retainedStr
	var shadows []shadow
	seenCls := map[string]bool{}
	edited := false

	query := func(step int, when string, qs []string, scribble bool) error {
		std := ref.Encode(m, false)
		ext := ref.Encode(m, true)
		id := ref.Reverse(sha256d(std))
		for _, l := range []string{"nin-reached=" + cls(len(m.In)), "nout-reached=" + cls(len(m.Out))} {
			if !seenCls[l] {
				seenCls[l] = true
				ctx.Label(l)
			}
		}
		if len(qs) == 0 {
			qs = []string{"bytes", "ext"}
		}
		for _, q := range qs {
			what := fmt.Sprintf("step %d (%s): %s", step, when, q)
			ctx.Label("q=" + q)
			var got, want []byte
			switch q {
			case "bytes":
				got, want = cur.Bytes(), std
			case "ext":
				got, want = cur.ExtendedBytes(), ext
			case "txidbytes":
				got, want = cur.TxIDBytes(), id
			case "txid":
				g, w := cur.TxID(), hex.EncodeToString(id)
				if g != w {
					return fmt.Errorf("%s: TxID() = %s, the reversed SHA-256d of the standard encoding of the transaction as it stands is %s", what, g, w)
				}
				keptS = append(keptS, retainedStr{what, g, w})
				continue
			case "string":
				g, w := cur.String(), hex.EncodeToString(std)
				if g != w {
					return fmt.Errorf("%s: String() is not the hex of the standard encoding of the transaction as it stands: %s", what, firstDiff([]byte(g), []byte(w)))
				}
				keptS = append(keptS, retainedStr{what, g, w})
				continue
			case "size":
				if g := cur.Size(); g != len(std) {
					return fmt.Errorf("%s: Size() = %d, the standard encoding of the transaction as it stands has %d bytes", what, g, len(std))
				}
				continue
			case "reparse":
				p, err := bt.NewTxFromBytes(cur.ExtendedBytes())
				if err != nil {
					return fmt.Errorf("%s: the extended serialisation does not parse back: %v", what, err)
				}
				if err := sameAs(what+": ExtendedBytes() parsed back", p, m, true); err != nil {
					return err
				}
				continue
			}
			if err := eqBytes(what+" vs the reference for the transaction as it stands", got, want); err != nil {
				return err
			}
			if scribble {
				// the result is the caller's: writing into it must change neither the
				// object nor anything handed out before or later
				for i := range got {
					got[i] = 0xa5
				}
				ctx.Label("scribbled-result")
			} else if len(got) < 1<<18 || len(keptB) < 8 { // at most 8 retained buffers of a 65536-element transaction
				keptB = append(keptB, retainedBytes{what, got, want})
			}
		}
		for _, s := range shadows {
			if err := eqBytes(fmt.Sprintf("step %d (%s): %s no longer has the standard serialisation it had when it was split off", step, when, s.what), s.tx.Bytes(), s.std); err != nil {
				return err
			}
			if err := eqBytes(fmt.Sprintf("step %d (%s): %s no longer has the extended serialisation it had when it was split off", step, when, s.what), s.tx.ExtendedBytes(), s.ext); err != nil {
				return err
			}
		}
		return nil
	}

	if err := query(0, "start", c.Q, false); err != nil {
		return err
	}
	for i, op := range c.Ops {
		step := i + 1
		ctx.Label("op=" + op.Kind)
		beforeExt := ref.Encode(m, true)
		ni, no := len(m.In), len(m.Out)
		switch op.Kind {
		case "clone":
			cl := cur.Clone()
			std, ext := ref.Encode(m, false), ref.Encode(m, true)
			if err := eqBytes(fmt.Sprintf("step %d: Clone().Bytes()", step), cl.Bytes(), std); err != nil {
				return err
			}
			if err := eqBytes(fmt.Sprintf("step %d: Clone().ExtendedBytes()", step), cl.ExtendedBytes(), ext); err != nil {
				return err
			}
			if op.Switch {
				shadows = append(shadows, shadow{fmt.Sprintf("the original cloned at step %d", step), cur, std, ext})
				cur = cl
				ctx.Label("continue-on-clone")
			} else {
				shadows = append(shadows, shadow{fmt.Sprintf("the clone made at step %d", step), cl, std, ext})
				ctx.Label("continue-on-original")
			}
		case "readfrom":
			enc := ref.Encode(*op.Other, op.Ext)
			var rscripts []gen.C09Script
			if op.Script != nil {
				if !op.Script.Valid() || op.Script.Fail {
					ctx.Discard("invalid case: script")
					return nil
				}
				rscripts = []gen.C09Script{*op.Script}
				ctx.Label("readfrom reader script=" + op.Script.Name())
			}
			r, left, rname := source(append(append([]byte{}, enc...), op.Trail...), rscripts, 1)
			// the element objects the receiver holds now (built by the caller or produced by an
			// earlier decode) are not the decoder's to reuse: they must keep their content
			shadows = append(shadows, shadow{fmt.Sprintf("the inputs and outputs the object held before the ReadFrom of step %d", step),
				&bt.Tx{Version: cur.Version, LockTime: cur.LockTime, Inputs: append([]*bt.Input{}, cur.Inputs...), Outputs: append([]*bt.Output{}, cur.Outputs...)},
				ref.Encode(m, false), ref.Encode(m, true)})
			n, err := cur.ReadFrom(r)
			if err != nil {
				return fmt.Errorf("step %d: ReadFrom into the populated object on %s rejected a reference encoding: %v", step, rname, err)
			}
			if n != int64(len(enc)) || left() != len(op.Trail) {
				return fmt.Errorf("step %d: ReadFrom into the populated object on %s reported %d bytes and left %d in the reader; the transaction has %d bytes and %d follow it", step, rname, n, left(), len(enc), len(op.Trail))
			}
			applyModel(op, &m)
			if err := sameAs(fmt.Sprintf("step %d: ReadFrom into the populated object", step), cur, m, op.Ext); err != nil {
				return err
			}
			ctx.Labelf("readfrom-into-populated ext=%v", op.Ext)
		case "fail":
			// a failing call in between (on other objects / inputs derived from the current
			// content): it must leave no trace in the answers that follow
			ctx.Label("failing call " + string(op.B) + ": " + failingCall(string(op.B), m, op.At, int(op.U64%1000), op.Ext))
		default:
			before := m
			applyModel(op, &m)
			applyLib(op, cur, before)
		}
		if x := crossing(ni, len(m.In)); x != "" {
			ctx.Label("input-count-crosses " + x)
		}
		if x := crossing(no, len(m.Out)); x != "" {
			ctx.Label("output-count-crosses " + x)
		}
		afterExt := ref.Encode(m, true)
		if !bytes.Equal(beforeExt, afterExt) {
			edited = true
			if len(beforeExt) == len(afterExt) && ni == len(m.In) && no == len(m.Out) {
				ctx.Label("edit-keeps-counts-and-size")
			}
		}
		if err := query(step, "after "+op.Kind, op.Q, op.Scribble); err != nil {
			return err
		}
	}
	// ---- retained results: compared only now ----
	for _, k := range keptB {
		if err := eqBytes("after the last step, the result retained from "+k.what+" changed", k.got, k.want); err != nil {
			return err
		}
	}
	for _, k := range keptS {
		if k.got != k.want {
			return fmt.Errorf("after the last step, the string retained from %s changed: %s vs %s", k.what, k.got, k.want)
		}
	}
	switch {
	case len(keptB) >= 6:
		ctx.Label("retained>=6")
	case len(keptB) >= 2:
		ctx.Label("retained=2..5")
	}
	if len(shadows) > 0 {
		ctx.Label("split-off-objects")
	}
	if edited {
		ctx.NonTrivial()
	}
	return nil
}

// ---------------------------------------------------------------------------
// generator

func histOpts() gen.TxOpts {
	return gen.TxOpts{MinIn: 0, MaxIn: 3, MinOut: 0, MaxOut: 3, MaxScript: 300, ScriptEdges: []int{0, 1, 2, 75, 76, 127, 128, 253}}
}

func genIn(t *rapid.T) *ref.In {
	in := ref.In{TxID: pbt.Hex(gen.Bytes(t, 32, "txid")), Vout: gen.U32(t, "vout"), Seq: gen.U32(t, "seq"), PrevSats: gen.U64(t, "prevsats")}
	in.Unlock = gen.FillBytes(t, gen.EdgeLen(t, 90, "ulen", 0, 1, 75, 76), "unlock")
	in.PrevScript = gen.FillBytes(t, gen.EdgeLen(t, 90, "plen", 0, 1, 25), "prev")
	switch rapid.IntRange(0, 7).Draw(t, "nil_kind") {
	case 0:
		in.Unlock, in.UnlockNil = nil, true
	case 1:
		in.PrevScript, in.PrevNil = nil, true
	}
	return &in
}

func genOut(t *rapid.T) *ref.Out {
	return &ref.Out{Sats: gen.U64(t, "sats"), Script: gen.FillBytes(t, gen.EdgeLen(t, 90, "olen", 0, 1, 25, 75, 76), "oscript")}
}

var plainKinds = []string{
	"version", "locktime", "in-vout", "in-seq", "in-seq", "in-prevsats", "in-prevsats", "in-txid", "in-unlock", "in-unlock-nil", "in-prev", "in-prev-nil",
	"in-unlock-flip", "in-unlock-append", "out-sats", "out-sats", "out-script", "out-flip", "out-flip", "out-append", "out-append",
	"add-in", "add-out", "add-out", "ins-in", "ins-out", "replace-in", "replace-out", "del-in", "del-out", "clear-in", "clear-out",
	"swap-in", "swap-out", "clone", "clone", "clone", "readfrom", "readfrom", "none", "fail", "fail", "fail",
}

// shorten keeps the scripts of elements that are about to be replicated 65536
// times short (the encoding stays below 4 MB).
func shorten(m *ref.Tx) {
	for i := range m.In {
		if len(m.In[i].Unlock) > 4 {
			m.In[i].Unlock = m.In[i].Unlock[:4]
		}
		if len(m.In[i].PrevScript) > 4 {
			m.In[i].PrevScript = m.In[i].PrevScript[:4]
		}
	}
	for i := range m.Out {
		if len(m.Out[i].Script) > 4 {
			m.Out[i].Script = m.Out[i].Script[:4]
		}
	}
}

func genHistory(t *rapid.T) History {
	m := gen.Tx(t, histOpts())
	nilify(t, &m)
	c := History{Tx: m, Start: rapid.SampledFrom([]string{"build", "build", "build", "parse-std", "parse-ext", "parse-ext", "list-std", "list-ext"}).Draw(t, "start")}
	qs := func() []string {
		return rapid.SliceOfN(rapid.SampledFrom([]string{"bytes", "bytes", "ext", "ext", "txid", "txidbytes", "size", "string", "reparse"}), 1, 3).Draw(t, "q")
	}
	c.Q = qs()
	// mode: which side (if any) is taken to a varint boundary by replication
	mode := rapid.SampledFrom([]string{"plain", "plain", "plain", "plain", "plain", "plain", "plain", "plain", "in253", "out253", "both253", "big"}).Draw(t, "mode")
	if mode == "big" {
		// 65535/65536 elements cost ~10 ms per query: 1 case in 25 of this class (quick), 1 in 15 (thorough)
		k := 25
		if pbt.Thorough() {
			k = 15
		}
		if rapid.IntRange(0, k-1).Draw(t, "big_really") == 0 {
			mode = rapid.SampledFrom([]string{"in65536", "out65536"}).Draw(t, "big_side")
		} else {
			mode = "plain"
		}
	}
	n := rapid.IntRange(2, 8).Draw(t, "n_ops")
	near := func(b int) int { return b + rapid.SampledFrom([]int{-2, -1, -1, 0, 0, 1}).Draw(t, "near") }
	var side []string // edit kinds that move the count on the replicated side
	switch mode {
	case "in253":
		c.Ops = append(c.Ops, HOp{Kind: "rep-in", N: near(253), Q: qs()})
		side = []string{"add-in", "ins-in", "del-in", "add-in", "del-in", "replace-in", "swap-in", "in-seq"}
	case "out253":
		c.Ops = append(c.Ops, HOp{Kind: "rep-out", N: near(253), Q: qs()})
		side = []string{"add-out", "ins-out", "del-out", "add-out", "del-out", "replace-out", "swap-out", "out-sats"}
	case "both253":
		c.Ops = append(c.Ops, HOp{Kind: "rep-in", N: near(253), Q: qs()}, HOp{Kind: "rep-out", N: near(253), Q: qs()})
		side = []string{"add-in", "del-in", "add-out", "del-out", "ins-in", "ins-out"}
	case "in65536":
		shorten(&c.Tx)
		c.Ops = append(c.Ops, HOp{Kind: "rep-in", N: near(65536), Q: qs()})
		side = []string{"add-in", "ins-in", "del-in", "add-in", "del-in"}
		n = rapid.IntRange(2, 4).Draw(t, "n_ops_big")
	case "out65536":
		shorten(&c.Tx)
		c.Ops = append(c.Ops, HOp{Kind: "rep-out", N: near(65536), Q: qs()})
		side = []string{"add-out", "ins-out", "del-out", "add-out", "del-out"}
		n = rapid.IntRange(2, 4).Draw(t, "n_ops_big")
	}
	for len(c.Ops) < n {
		kinds := plainKinds
		if side != nil && rapid.IntRange(0, 2).Draw(t, "on_side") != 0 {
			kinds = side
		}
		op := HOp{Kind: rapid.SampledFrom(kinds).Draw(t, "kind"), Q: qs()}
		if side != nil && (op.Kind == "clear-in" || op.Kind == "clear-out") {
			op.Kind = "none" // keep the replicated list
		}
		switch op.Kind {
		case "version", "locktime", "in-vout", "in-seq":
			op.U64 = uint64(gen.U32(t, "u32"))
		case "in-prevsats", "out-sats", "clear-in", "clear-out", "in-unlock-flip", "out-flip", "swap-in", "swap-out", "add-out":
			op.U64 = gen.U64(t, "u64")
		case "in-txid":
			op.B = gen.Bytes(t, 32, "newtxid")
		case "in-unlock", "in-prev", "out-script":
			op.B = gen.FillBytes(t, gen.EdgeLen(t, 300, "newlen", 0, 1, 75, 76, 252, 253, 254), "newscript")
		case "in-unlock-append", "out-append":
			op.B = gen.FillBytes(t, gen.EdgeLen(t, 260, "applen", 1, 2, 177, 178, 252, 253), "appended")
		case "readfrom":
			o := gen.Tx(t, histOpts())
			nilify(t, &o)
			op.Other, op.Ext = &o, rapid.Bool().Draw(t, "ext")
			if rapid.Bool().Draw(t, "has_trail") {
				op.Trail = gen.Bytes(t, rapid.IntRange(1, 9).Draw(t, "ntrail"), "trail")
			}
			if rapid.IntRange(0, 2).Draw(t, "scripted") != 0 {
				sc := gen.C09GenScript(t, len(ref.Encode(o, op.Ext))+len(op.Trail), false)
				op.Script = &sc
			}
		case "clone":
			op.Switch = rapid.Bool().Draw(t, "switch")
		case "fail":
			op.B = pbt.Hex(rapid.SampledFrom(failKinds).Draw(t, "fail"))
			op.At = rapid.IntRange(0, 2000).Draw(t, "fail_at")
			op.U64 = uint64(rapid.IntRange(0, 11).Draw(t, "fail_variant"))
			op.Ext = rapid.Bool().Draw(t, "fail_ext")
		}
		switch op.Kind {
		case "add-in", "ins-in", "replace-in":
			op.In = genIn(t)
		case "add-out", "ins-out", "replace-out":
			op.Out = genOut(t)
		}
		switch op.Kind {
		case "in-vout", "in-seq", "in-prevsats", "in-txid", "in-unlock", "in-unlock-nil", "in-prev", "in-prev-nil", "in-unlock-flip", "in-unlock-append",
			"out-sats", "out-script", "out-flip", "out-append", "ins-in", "ins-out", "replace-in", "replace-out", "del-in", "del-out", "swap-in", "swap-out":
			// first / last / anywhere (positions are taken modulo the current count)
			op.At = rapid.SampledFrom([]int{0, 0, 1, 2, 251, 252, 253, 65534, 65535, 69999}).Draw(t, "at")
		}
		op.Scribble = rapid.IntRange(0, 5).Draw(t, "scribble") == 0
		c.Ops = append(c.Ops, op)
	}
	// stay inside the domain by construction: no state of the history may be the
	// excluded shape (no inputs, no outputs, lock time 0xEF000000)
	fix := func(v *uint32) {
		if *v == 0xEF000000 {
			*v = 0xEE000000
		}
	}
	fix(&c.Tx.LockTime)
	for i := range c.Ops {
		if c.Ops[i].Kind == "locktime" && uint32(c.Ops[i].U64) == 0xEF000000 {
			c.Ops[i].U64 = 0xEE000000
		}
		if c.Ops[i].Other != nil {
			fix(&c.Ops[i].Other.LockTime)
		}
	}
	return c
}

func TestHistory(t *testing.T) {
	pbt.Run(t, pbt.Sub[History]{
		Name: "history", Quick: 16000, Thorough: 200000,
		Gen:   genHistory,
		Check: checkHistory,
	})
}
