package c01

// Sub-check "entrypoints" (extension round 4): the same byte string goes through
// every parsing entry point - byte-slice constructors (NewTxFromBytes,
// NewTxFromStream at successive offsets) and io.Reader variants ((*Tx).ReadFrom
// into fresh and into already-populated objects, (*Txs).ReadFrom into an
// already-populated list). All of them must agree with the reference decoder and
// therefore with each other on accept/reject, on the bytes consumed and on where
// the reader stands afterwards; every object handed out is compared once more
// after the last call. Element and list counts reach 252/253 (and 65535/65536)
// through replication counts stored in the case.

import (
	"bytes"
	"encoding/hex"
	"encoding/json"
	"fmt"
	"io"
	"testing"

	"github.com/libsv/go-bt/v2"
	"github.com/libsv/go-bt/v2/bscript"
	"pgregory.net/rapid"

	"verif/harness/gen"
	"verif/harness/pbt"
	"verif/harness/ref"
)

// EP is the case type of sub-check "entrypoints".
type EP struct {
	Txs        []ref.Tx `json:"txs"`
	Ext        []bool   `json:"ext"`
	RepIn      []int    `json:"rep_in"`      // per transaction: the last input is replicated until there are this many (0 = leave)
	RepOut     []int    `json:"rep_out"`     // same for outputs
	RepTx      int      `json:"rep_tx"`      // the last transaction is replicated until the list has this many (0 = leave)
	Mut        string   `json:"mut"`         // none | widen | truncate | bitflip | byteset | claim
	Claim      uint64   `json:"claim,omitempty"`      // claim: varint site Site of transaction WTx announces this value (even Site: a count site)
	ListClaim  uint64   `json:"list_claim,omitempty"` // != 0: the list count announces this value (count_delta unused)
	Overwrite  string   `json:"overwrite,omitempty"` // how the caller reuses its input buffers after the calls: "" / zero | invert | shift (the next message)
	ElemExt    []bool   `json:"elem_ext,omitempty"`   // formats in which the reused element receiver decodes the inputs one after the other (cycled)
	WTx        int      `json:"wtx"`         // widen: which transaction
	Site       int      `json:"site"`        // widen: which varint site of it
	Width      int      `json:"width"`       // widen: 3, 5 or 9
	Pos        int      `json:"pos"`         // truncate / bitflip / byteset: position (modulo the length)
	Val        int      `json:"val"`         // byteset: value
	CountWidth int      `json:"count_width"` // width class of the list count (0 = minimal)
	CountDelta int      `json:"count_delta"` // the list count announces this many more (or fewer) transactions than there are
	Trailing   pbt.Hex  `json:"trailing"`
	Dirty      ref.Tx   `json:"dirty"`      // what the populated receivers hold before they decode
	DirtyList  int      `json:"dirty_list"` // how many such transactions the populated list holds
	Chunks     []int    `json:"chunks"`
	// round 9: behaviours (empty reads, odd read sizes, the last bytes together with io.EOF, an
	// io.ByteReader; none that fails) further readers play over the same bytes in parts C, D, E
	Scripts []gen.C09Script `json:"scripts,omitempty"`
}

func expand(m ref.Tx, repIn, repOut int) ref.Tx {
	o := ref.Tx{Version: m.Version, LockTime: m.LockTime, In: m.In, Out: m.Out}
	if repIn > len(m.In) {
		last := defaultIn
		if len(m.In) > 0 {
			last = m.In[len(m.In)-1]
		}
		o.In = append(make([]ref.In, 0, repIn), m.In...)
		for len(o.In) < repIn {
			o.In = append(o.In, last)
		}
	}
	if repOut > len(m.Out) {
		last := defaultOut
		if len(m.Out) > 0 {
			last = m.Out[len(m.Out)-1]
		}
		o.Out = append(make([]ref.Out, 0, repOut), m.Out...)
		for len(o.Out) < repOut {
			o.Out = append(o.Out, last)
		}
	}
	return o
}

type refItem struct {
	d   ref.Decoded
	off int
}

// refSequence decodes up to max transactions one after the other with the
// reference decoder.
func refSequence(data []byte, max int) []refItem {
	var items []refItem
	off := 0
	for len(items) < max {
		d, err := ref.Decode(data[off:])
		if err != nil {
			break
		}
		items = append(items, refItem{d, off})
		off += d.Consumed
	}
	return items
}

type handedOut struct {
	what string
	tx   *bt.Tx
	item int
}

func checkEP(ctx *pbt.Ctx, c EP) error {
	n := len(c.Txs)
	if n == 0 || n > 8 || len(c.Ext) != n || len(c.RepIn) != n || len(c.RepOut) != n {
		ctx.Discard("invalid case: list lengths")
		return nil
	}
	switch c.CountWidth {
	case 0, 1, 3, 5, 9:
	default:
		ctx.Discard("invalid case: count width")
		return nil
	}
	if c.RepTx < 0 || c.RepTx > 70000 || c.DirtyList < 0 || c.DirtyList > 300 || c.Pos < 0 || c.Site < 0 || c.WTx < 0 || c.CountDelta < -1 || c.CountDelta > 1 {
		ctx.Discard("invalid case: range")
		return nil
	}
	if validModel(c.Dirty) != nil {
		ctx.Discard("invalid model in replay file")
		return nil
	}
	scripts, sok := quietScripts(c.Scripts)
	if !sok {
		ctx.Discard("invalid case: scripts")
		return nil
	}
	var models []ref.Tx
	elems := 0
	for i, m := range c.Txs {
		if validModel(m) != nil || c.RepIn[i] < 0 || c.RepOut[i] < 0 || c.RepIn[i] > 70000 || c.RepOut[i] > 70000 {
			ctx.Discard("invalid model in replay file")
			return nil
		}
		x := expand(m, c.RepIn[i], c.RepOut[i])
		if ref.Ambiguous(x) {
			ctx.Discard("ambiguous shape (no inputs, no outputs, locktime 0xEF000000)")
			return nil
		}
		elems += len(x.In) + len(x.Out)
		models = append(models, x)
	}
	exts := append([]bool{}, c.Ext...)
	for len(models) < c.RepTx {
		models = append(models, models[n-1])
		exts = append(exts, exts[n-1])
		elems += len(models[n-1].In) + len(models[n-1].Out)
	}
	if elems > 300000 {
		ctx.Discard("invalid case: too large")
		return nil
	}
	nTx := len(models)
	if elems > 10000 || nTx > 10000 {
		defer lowMemory()()
	}

	// ---- the byte string ----
	var cat []byte
	for i, m := range models {
		if c.Mut == "widen" && i == c.WTx%nTx {
			switch c.Width {
			case 3, 5, 9:
			default:
				ctx.Discard("invalid case: width")
				return nil
			}
			cat = append(cat, ref.EncodeWidths(m, exts[i], ref.Widths{c.Site % ref.VarintSites(m, exts[i]): c.Width})...)
			continue
		}
		if c.Mut == "claim" && i == c.WTx%nTx {
			_, counts := encodeClaims(m, exts[i], nil)
			site := counts[(c.Site/2)%len(counts)]
			if c.Site%2 == 1 {
				site = c.Site % ref.VarintSites(m, exts[i])
			}
			b, _ := encodeClaims(m, exts[i], map[int]uint64{site: c.Claim})
			cat = append(cat, b...)
			continue
		}
		cat = append(cat, ref.Encode(m, exts[i])...)
	}
	switch c.Mut {
	case "none", "widen", "claim":
	case "truncate":
		cat = cat[:c.Pos%len(cat)]
	case "bitflip":
		p := c.Pos % (len(cat) * 8)
		cat[p/8] ^= 1 << uint(p%8)
	case "byteset":
		cat[c.Pos%len(cat)] = byte(c.Val)
	default:
		ctx.Discard("invalid case: mutation")
		return nil
	}
	data := append(append([]byte{}, cat...), c.Trailing...)
	announce := uint64(nTx + c.CountDelta)
	if c.ListClaim != 0 {
		announce = c.ListClaim
	}
	prefix := ref.VarIntWidth(announce, c.CountWidth)
	block := append(append([]byte{}, prefix...), data...)

	// the reference decoder never allocates from an announced count or length (it
	// walks the bytes that are there), so nothing is discarded however much a damaged
	// or lying field announces (round 5; a library panic still counts as "rejected")
	items := refSequence(data, nTx+2)

	ctx.Label("mut=" + c.Mut)
	ctx.Label("ntx=" + cls(nTx))
	maxIn, maxOut := 0, 0
	for _, m := range models[:n] {
		if len(m.In) > maxIn {
			maxIn = len(m.In)
		}
		if len(m.Out) > maxOut {
			maxOut = len(m.Out)
		}
	}
	ctx.Label("max-nin=" + cls(maxIn))
	ctx.Label("max-nout=" + cls(maxOut))
	if c.ListClaim != 0 {
		ctx.Label("list-count-lies")
		if c.ListClaim >= 1<<63 {
			ctx.Label("list-count>=2^63")
		}
	}
	if c.Mut == "claim" {
		switch {
		case c.Claim >= 1<<63:
			ctx.Label("claim>=2^63")
		case c.Claim >= 1<<31:
			ctx.Label("claim>=2^31")
		}
		if c.Site%2 == 0 {
			ctx.Label("claim-at-count-site")
		}
	}
	ctx.Labelf("count-delta=%d", c.CountDelta)
	ctx.Labelf("count-width=%d", len(prefix))
	if len(c.Trailing) > 0 {
		ctx.Label("trailing-bytes")
	}
	ctx.Labelf("ref-decodes=%s of %s", cls(len(items)), cls(nTx))
	if nTx >= 2 || maxIn >= 253 || maxOut >= 253 || c.Mut != "none" {
		ctx.NonTrivial()
	}
	ctx.Key(block, []byte{byte(c.DirtyList)})

	var out []handedOut
	// verify compares an object some entry point handed out with reference item i
	verify := func(what string, tx *bt.Tx, i int) error {
		it := items[i].d
		if err := sameAs(what, tx, it.Tx, it.Extended); err != nil {
			return err
		}
		if it.Minimal {
			var again []byte
			if it.Extended {
				again = tx.ExtendedBytes()
			} else {
				again = tx.Bytes()
			}
			return eqBytes(what+" re-serialised in the format it arrived in", again, data[items[i].off:items[i].off+it.Consumed])
		}
		return nil
	}
	// judge decides one decode attempt against reference item i (which may not exist)
	judge := func(what string, i int, tx *bt.Tx, used int64, err error) (accepted bool, verr error) {
		refOK := i < len(items)
		if err != nil {
			if refOK && items[i].d.Minimal {
				return false, fmt.Errorf("%s rejected (%v) a canonical %d-byte transaction at offset %d of %s", what, err, items[i].d.Consumed, items[i].off, head(data))
			}
			return false, nil
		}
		if !refOK {
			return false, fmt.Errorf("%s accepted transaction %d (reported %d bytes) where the reference decoder finds none in %s", what, i, used, head(data))
		}
		if used != int64(items[i].d.Consumed) {
			return false, fmt.Errorf("%s reported %d bytes for transaction %d, which ends after %d", what, used, i, items[i].d.Consumed)
		}
		if verr := verify(what, tx, i); verr != nil {
			return false, verr
		}
		out = append(out, handedOut{what, tx, i})
		return true, nil
	}

	// ---- A: NewTxFromStream at successive offsets: the library's own view of the stream ----
	accepted := 0
	off := 0
	// every buffer handed to the library is the caller's: it is overwritten after the
	// last call and only then are the objects looked at a last time (round 6)
	var callerBufs [][]byte
	lend := func(b []byte) []byte {
		c := append([]byte{}, b...)
		callerBufs = append(callerBufs, c)
		return c
	}
	own := lend(data)
	for i := 0; i < nTx+2; i++ {
		g := guarded(func() (*bt.Tx, int64, error) {
			tx, used, err := bt.NewTxFromStream(own[off:])
			return tx, int64(used), err
		})
		if g.panicked {
			ctx.Label("lib-panicked-on-rejected-input")
		}
		tx, used, err := g.tx, int(g.used), g.err
		ok, verr := judge(fmt.Sprintf("NewTxFromStream at offset %d", off), i, tx, int64(used), err)
		if verr != nil {
			return verr
		}
		if !ok {
			break
		}
		accepted++
		off += used
	}
	if accepted < len(items) {
		ctx.Label("lib-rejects-non-minimal")
	}
	ctx.Labelf("lib-accepts-first=%v", accepted > 0)

	// ---- B: NewTxFromBytes accepts exactly when the first transaction is all there is ----
	{
		g := guarded(func() (*bt.Tx, int64, error) {
			tx, err := bt.NewTxFromBytes(lend(data))
			return tx, 0, err
		})
		tx, err := g.tx, g.err
		whole := accepted > 0 && items[0].d.Consumed == len(data)
		switch {
		case err == nil && !whole:
			return fmt.Errorf("NewTxFromBytes accepted %s (%d bytes) although NewTxFromStream/reference find a transaction ending at %d (0 = none)", head(data), len(data), consumedOf(items))
		case err != nil && whole:
			return fmt.Errorf("NewTxFromBytes rejected (%v) what NewTxFromStream accepts as exactly one transaction: %s", err, head(data))
		case err == nil:
			if _, verr := judge("NewTxFromBytes", 0, tx, int64(len(data)), nil); verr != nil {
				return verr
			}
			ctx.Label("exactly-one-transaction")
		}
	}

	// ---- C: (*Tx).ReadFrom, fresh and populated receivers, two kinds of reader ----
	kinds := []readerKind{
		{"bytes.Reader", func(b []byte) io.Reader { return bytes.NewReader(b) }, nil},
		{"chunked reader", func(b []byte) io.Reader { return &chunkReader{b: b, chunks: c.Chunks} }, nil},
	}
	if elems <= 2000 && nTx <= 600 { // the large replicated shapes keep to the two kinds above
		for _, s := range scripts {
			kinds = append(kinds, scriptedKind(ctx, s))
		}
	}
	for _, k := range kinds {
		for _, populated := range []bool{false, true} {
			src := k.mk(lend(data))
			cr := &countingReader{r: src}
			var reused *bt.Tx
			if populated {
				reused = ref.ToLib(c.Dirty)
			}
			var keptBytes [][]byte
			var wantBytes [][]byte
			var keptElems []*bt.Tx // the element objects each decode left in the reused receiver
			var want int64
			for i := 0; i <= accepted && i < nTx+2; i++ {
				tx := reused
				if !populated {
					tx = &bt.Tx{}
				}
				what := fmt.Sprintf("(*Tx).ReadFrom (populated receiver=%v) on %s, transaction %d", populated, k.name, i)
				g := guarded(func() (*bt.Tx, int64, error) {
					n, err := tx.ReadFrom(cr)
					return tx, n, err
				})
				nr, err := g.used, g.err
				if (err == nil) != (i < accepted) {
					return fmt.Errorf("%s: err=%v, but NewTxFromStream at the same offset %s: the entry points disagree on %s", what, err, map[bool]string{true: "accepted", false: "rejected"}[i < accepted], head(data))
				}
				if err != nil {
					break
				}
				if !populated {
					if _, verr := judge(what, i, tx, nr, nil); verr != nil {
						return verr
					}
				} else {
					if nr != int64(items[i].d.Consumed) {
						return fmt.Errorf("%s reported %d bytes, the transaction has %d", what, nr, items[i].d.Consumed)
					}
					if verr := verify(what, tx, i); verr != nil {
						return verr
					}
					// the receiver is reused for the next decode: keep a serialisation
					keptBytes = append(keptBytes, tx.ExtendedBytes())
					wantBytes = append(wantBytes, ref.Encode(items[i].d.Tx, true))
					keptElems = append(keptElems, &bt.Tx{Version: tx.Version, LockTime: tx.LockTime, Inputs: append([]*bt.Input{}, tx.Inputs...), Outputs: append([]*bt.Output{}, tx.Outputs...)})
				}
				want += int64(items[i].d.Consumed)
				if cr.n != want {
					return fmt.Errorf("%s: %d bytes taken from the reader in total, the transactions so far end at %d", what, cr.n, want)
				}
				if br, ok := src.(*bytes.Reader); ok && int64(br.Len()) != int64(len(data))-want {
					return fmt.Errorf("%s: the reader is left with %d unread bytes, %d follow the transaction", what, br.Len(), int64(len(data))-want)
				}
			}
			for i := range keptBytes {
				if err := eqBytes(fmt.Sprintf("ExtendedBytes() taken from the reused receiver after decode %d, looked at after the last decode", i), keptBytes[i], wantBytes[i]); err != nil {
					return err
				}
				if err := eqBytes(fmt.Sprintf("the input / output objects decode %d left in the reused receiver (%s), serialised after the last decode into that receiver", i, k.name), keptElems[i].ExtendedBytes(), wantBytes[i]); err != nil {
					return err
				}
			}
		}
	}

	// ---- D: (*Txs).ReadFrom into a populated list ----
	for _, k := range kinds {
		src := k.mk(lend(block))
		cr := &countingReader{r: src}
		txs := bt.Txs{}
		for i := 0; i < c.DirtyList; i++ {
			txs = append(txs, ref.ToLib(c.Dirty))
		}
		g := guarded(func() (*bt.Tx, int64, error) {
			n, err := txs.ReadFrom(cr)
			return nil, n, err
		})
		nr, err := g.used, g.err
		if accepted >= nTx+2 && announce > uint64(accepted) {
			break // more transactions in the bytes than were looked at: no expectation
		}
		shouldAccept := uint64(accepted) >= announce
		claimed := 0
		if shouldAccept {
			claimed = int(announce) // <= accepted <= nTx+2
		}
		what := fmt.Sprintf("(*Txs).ReadFrom into a list of %d on %s (count prefix %x announces %d, %d encoded)", c.DirtyList, k.name, prefix, announce, nTx)
		if (err == nil) != shouldAccept {
			return fmt.Errorf("%s: err=%v, but NewTxFromStream accepts %d transactions one after the other: the entry points disagree on %s", what, err, accepted, head(data))
		}
		if err != nil {
			ctx.Label("list-rejected")
			continue
		}
		ctx.Label("list-accepted")
		want := int64(len(prefix))
		for i := 0; i < claimed; i++ {
			want += int64(items[i].d.Consumed)
		}
		if nr != want || cr.n != want {
			return fmt.Errorf("%s reported %d bytes and took %d from the reader, the list ends after %d", what, nr, cr.n, want)
		}
		if br, ok := src.(*bytes.Reader); ok && int64(br.Len()) != int64(len(block))-want {
			return fmt.Errorf("%s: the reader is left with %d unread bytes, %d follow the list", what, br.Len(), int64(len(block))-want)
		}
		if len(txs) != claimed {
			return fmt.Errorf("%s returned %d transactions", what, len(txs))
		}
		for i, tx := range txs {
			if tx == nil {
				return fmt.Errorf("%s: element %d is nil", what, i)
			}
			if verr := verify(fmt.Sprintf("%s, element %d", what, i), tx, i); verr != nil {
				return verr
			}
			out = append(out, handedOut{fmt.Sprintf("%s, element %d", what, i), tx, i})
		}
	}

	// ---- E: the element-level decoders (Input.ReadFrom / ReadFromExtended / Output.ReadFrom) ----
	if err := checkElements(ctx, c); err != nil {
		return err
	}

	// ---- F: hex-string and JSON entry points over caller memory (first transaction, when it is one) ----
	if accepted > 0 {
		one := data[:items[0].d.Consumed]
		hx := hex.EncodeToString(one)
		if tx, err := bt.NewTxFromString(hx); err != nil {
			return fmt.Errorf("NewTxFromString rejected (%v) the hex of what NewTxFromStream accepts: %s", err, head(one))
		} else if _, verr := judge("NewTxFromString", 0, tx, int64(len(one)), nil); verr != nil {
			return verr
		}
		doc := lend([]byte(`{"hex":"` + hx + `"}`))
		jt := ref.ToLib(c.Dirty)
		if err := json.Unmarshal(doc, jt); err != nil {
			return fmt.Errorf("json.Unmarshal into a populated Tx rejected (%v) {\"hex\": ...} of what NewTxFromStream accepts: %s", err, head(one))
		} else if _, verr := judge("json.Unmarshal {\"hex\"} into a populated Tx", 0, jt, int64(len(one)), nil); verr != nil {
			return verr
		}
	}

	// ---- the caller reuses its buffers ----
	for _, b := range callerBufs {
		switch c.Overwrite {
		case "invert":
			for i := range b {
				b[i] = ^b[i]
			}
		case "shift": // the next message arrives in the same buffer
			if len(b) > 1 {
				first := b[0]
				copy(b, b[1:])
				b[len(b)-1] = first ^ 0x5a
			}
			for i := range b {
				b[i] += 0x31
			}
		default:
			for i := range b {
				b[i] = 0
			}
		}
	}
	ctx.Label("input-buffers-overwritten")

	// ---- retained objects: looked at again only now ----
	for _, h := range out {
		if err := verify("after the last call and after the caller overwrote its input buffers, "+h.what, h.tx, h.item); err != nil {
			return err
		}
	}
	if len(out) > 0 && items[out[0].item].d.Minimal {
		it := items[out[0].item]
		std := ref.Encode(it.d.Tx, false)
		if got, want := out[0].tx.TxID(), hex.EncodeToString(ref.Reverse(sha256d(std))); got != want {
			return fmt.Errorf("after the caller overwrote its input buffers, TxID() of the first object handed out (%s) = %s, the reversed SHA-256d of the standard encoding it was parsed from is %s", out[0].what, got, want)
		}
	}
	ctx.Labelf("objects-retained=%s", cls(len(out)))
	return nil
}

// refInput / refOutput are the reference encodings of one element (cut out of the
// reference encoding of a transaction that holds just that element).
func refInput(in ref.In, ext bool) []byte {
	b := ref.Encode(ref.Tx{In: []ref.In{in}}, ext)
	from := 4 + 1
	if ext {
		from += 6
	}
	return b[from : len(b)-1-4]
}

func refOutput(o ref.Out) []byte {
	b := ref.Encode(ref.Tx{Out: []ref.Out{o}}, false)
	return b[4+1+1 : len(b)-4]
}

// inputIs compares a decoded input with the model field by field. A standard-format
// decode carries no previous output: value 0, script absent (nil or empty).
func inputIs(what string, got *bt.Input, want ref.In, ext bool) error {
	g := ref.FromLib(&bt.Tx{Inputs: []*bt.Input{got}}).In[0]
	w := want
	if !ext {
		w.PrevSats, w.PrevScript = 0, nil
	}
	switch {
	case !bytes.Equal(g.TxID, w.TxID):
		return fmt.Errorf("%s: txid %x, encoded %x", what, g.TxID, w.TxID)
	case g.Vout != w.Vout:
		return fmt.Errorf("%s: vout %d, encoded %d", what, g.Vout, w.Vout)
	case g.Seq != w.Seq:
		return fmt.Errorf("%s: sequence %d, encoded %d", what, g.Seq, w.Seq)
	case !bytes.Equal(g.Unlock, w.Unlock):
		return fmt.Errorf("%s: unlocking script %s, encoded %s", what, head(g.Unlock), head(w.Unlock))
	case g.PrevSats != w.PrevSats:
		return fmt.Errorf("%s: previous-output value %d, the bytes carry %d (extended=%v)", what, g.PrevSats, w.PrevSats, ext)
	case !bytes.Equal(g.PrevScript, w.PrevScript):
		return fmt.Errorf("%s: previous-output script %s, the bytes carry %s (extended=%v)", what, head(g.PrevScript), head(w.PrevScript), ext)
	}
	return nil
}

// checkElements feeds the inputs and outputs of the case's transactions, one by
// one, to the exported element decoders: each into a fresh receiver and all of them
// into ONE receiver that is reused across formats. Every field (incl. the previous
// output, which only the extended format carries), the bytes reported and the reader
// position are compared with the reference; a transaction put together from the
// decoded elements must serialise like the reference says, i.e. like the same
// elements decoded by the transaction-level decoder.
func checkElements(ctx *pbt.Ctx, c EP) error {
	var ins []ref.In
	var outs []ref.Out
	for _, m := range append(append([]ref.Tx{}, c.Txs...), c.Dirty) {
		for _, in := range m.In {
			if len(ins) < 8 {
				ins = append(ins, in)
			}
		}
		for _, o := range m.Out {
			if len(outs) < 8 {
				outs = append(outs, o)
			}
		}
	}
	fmts := c.ElemExt
	if len(fmts) == 0 {
		fmts = []bool{true, false, false, true}
	}
	scripts, _ := quietScripts(c.Scripts)
	nsrc := 0
	trail := []byte(c.Trailing)
	reusedIn := &bt.Input{}
	var keptIn [][]byte
	var wantIn [][]byte
	prevExt, prevHad := false, false
	for i, in := range ins {
		for pass, ext := range []bool{fmts[i%len(fmts)], !fmts[i%len(fmts)]} {
			enc := refInput(in, ext)
			for _, reuse := range []bool{false, true} {
				if reuse && pass == 1 {
					continue // the reused receiver follows the case's format sequence only
				}
				recv := &bt.Input{}
				if reuse {
					recv = reusedIn
				}
				nsrc++
				r, left, rname := source(append(append([]byte{}, enc...), trail...), scripts, nsrc)
				what := fmt.Sprintf("Input.ReadFrom%s (reused receiver=%v), input %d, on %s", map[bool]string{true: "Extended", false: ""}[ext], reuse, i, rname)
				var n int64
				var err error
				if ext {
					n, err = recv.ReadFromExtended(r)
				} else {
					n, err = recv.ReadFrom(r)
				}
				if err != nil {
					return fmt.Errorf("%s rejected the reference encoding %s: %v", what, head(enc), err)
				}
				if n != int64(len(enc)) || left() != len(trail) {
					return fmt.Errorf("%s reported %d bytes and left %d in the reader; the input has %d bytes and %d follow it", what, n, left(), len(enc), len(trail))
				}
				if err := inputIs(what, recv, in, ext); err != nil {
					return err
				}
				// a transaction holding the decoded element serialises as the reference says
				w := in
				if !ext {
					w.PrevSats, w.PrevScript, w.PrevNil = 0, nil, true
				}
				holder := &bt.Tx{Version: 1, Inputs: []*bt.Input{recv}}
				if err := eqBytes(what+": ExtendedBytes() of a transaction holding the decoded input", holder.ExtendedBytes(), ref.Encode(ref.Tx{Version: 1, In: []ref.In{w}}, true)); err != nil {
					return err
				}
				if err := eqBytes(what+": Input.Bytes(false)", recv.Bytes(false), refInput(in, false)); err != nil {
					return err
				}
				if reuse {
					if prevHad && prevExt && !ext {
						ctx.Label("element-receiver: standard after extended")
					}
					prevExt, prevHad = ext, true
					keptIn = append(keptIn, recv.Bytes(false))
					wantIn = append(wantIn, refInput(in, false))
				}
			}
		}
	}
	for i := range keptIn {
		if err := eqBytes(fmt.Sprintf("Input.Bytes(false) taken from the reused receiver after decode %d, looked at after the last decode", i), keptIn[i], wantIn[i]); err != nil {
			return err
		}
	}
	reusedOut := &bt.Output{}
	var decoded []*bt.Output
	for i, o := range outs {
		enc := refOutput(o)
		for _, reuse := range []bool{false, true} {
			recv := &bt.Output{}
			if reuse {
				recv = reusedOut
			}
			nsrc++
			r, left, rname := source(append(append([]byte{}, enc...), trail...), scripts, nsrc)
			what := fmt.Sprintf("Output.ReadFrom (reused receiver=%v), output %d, on %s", reuse, i, rname)
			n, err := recv.ReadFrom(r)
			if err != nil {
				return fmt.Errorf("%s rejected the reference encoding %s: %v", what, head(enc), err)
			}
			if n != int64(len(enc)) || left() != len(trail) {
				return fmt.Errorf("%s reported %d bytes and left %d in the reader; the output has %d bytes and %d follow it", what, n, left(), len(enc), len(trail))
			}
			if recv.Satoshis != o.Sats || recv.LockingScript == nil || !bytes.Equal(*recv.LockingScript, o.Script) {
				return fmt.Errorf("%s: decoded value %d / script differ from the encoded %d / %s", what, recv.Satoshis, o.Sats, head(o.Script))
			}
			if err := eqBytes(what+": Output.Bytes()", recv.Bytes(), enc); err != nil {
				return err
			}
			if !reuse {
				decoded = append(decoded, recv)
			}
		}
	}
	if len(decoded) > 0 {
		// all fresh outputs in one transaction, looked at after the last decode
		if err := eqBytes("Bytes() of a transaction holding the outputs decoded one by one", (&bt.Tx{Version: 2, Outputs: decoded}).Bytes(), ref.Encode(ref.Tx{Version: 2, Out: outs}, false)); err != nil {
			return err
		}
	}
	if len(ins) > 0 {
		ctx.Label("element-decodes: inputs")
	}
	if len(outs) > 0 {
		ctx.Label("element-decodes: outputs")
	}
	return checkUsedReceivers(ctx, ins, outs, fmts, trail)
}

// resized returns variants of a script that are shorter than, as long as and longer than b.
func resized(b []byte) [][]byte {
	inv := make([]byte, len(b))
	for i := range b {
		inv[i] = ^b[i]
	}
	return [][]byte{b[:len(b)/2], inv, append(append([]byte{}, b...), 0x6a, 1, 2, 3, 4, 5, 6, 7, 8)}
}

type producedScript struct {
	what string
	obj  *bscript.Script // the script object a decode put into the receiver
	id   []byte          // or the txid slice it put there
	want []byte
}

// checkUsedReceivers decodes a stream of elements into ONE Input and ONE Output
// object (binary decoders in both formats and json.Unmarshal, mixed), each element
// followed by a shorter, an equally long and a longer variant of itself, and keeps
// what every decode PRODUCED - the script objects and txid slices the library
// allocated and put into the receiver. They are results of the earlier call: after the
// last decode each of them must still hold the bytes that were on the wire.
func checkUsedReceivers(ctx *pbt.Ctx, ins []ref.In, outs []ref.Out, fmts []bool, trail []byte) error {
	var kept []producedScript
	in := &bt.Input{}
	step := 0
	for i, base := range ins {
		vs := []ref.In{base}
		for _, u := range resized(base.Unlock) {
			v := base
			v.Unlock, v.UnlockNil = u, false
			v.PrevScript, v.PrevNil = resized(base.PrevScript)[len(vs)%3], false
			vs = append(vs, v)
		}
		for _, v := range vs {
			ext := fmts[step%len(fmts)]
			mode := []string{"binary", "binary", "json"}[(step+len(v.Unlock))%3]
			step++
			what := fmt.Sprintf("used Input receiver, decode %d (input %d, %s, extended=%v)", step, i, mode, ext)
			if mode == "json" {
				doc := fmt.Sprintf(`{"unlockingScript":"%x","txid":"%x","vout":%d,"sequence":%d}`, []byte(v.Unlock), []byte(v.TxID), v.Vout, v.Seq)
				if err := json.Unmarshal([]byte(doc), in); err != nil {
					return fmt.Errorf("%s: json.Unmarshal rejected %s: %v", what, doc, err)
				}
				if in.PreviousTxOutIndex != v.Vout || in.SequenceNumber != v.Seq || !bytes.Equal(in.PreviousTxID(), v.TxID) || in.UnlockingScript == nil || !bytes.Equal(*in.UnlockingScript, v.Unlock) {
					return fmt.Errorf("%s: the decoded outpoint / sequence / unlocking script differ from the document %s", what, doc)
				}
			} else {
				enc := refInput(v, ext)
				r := bytes.NewReader(append(append([]byte{}, enc...), trail...))
				var n int64
				var err error
				if ext {
					n, err = in.ReadFromExtended(r)
				} else {
					n, err = in.ReadFrom(r)
				}
				if err != nil || n != int64(len(enc)) || r.Len() != len(trail) {
					return fmt.Errorf("%s: err %v, reported %d of %d bytes, %d left in the reader (%d follow the input)", what, err, n, len(enc), r.Len(), len(trail))
				}
				if err := inputIs(what, in, v, ext); err != nil {
					return err
				}
				if ext && in.PreviousTxScript != nil {
					kept = append(kept, producedScript{what + ": previous script object", in.PreviousTxScript, nil, v.PrevScript})
				}
			}
			kept = append(kept, producedScript{what + ": unlocking script object", in.UnlockingScript, nil, v.Unlock})
			kept = append(kept, producedScript{what + ": txid slice", nil, in.PreviousTxID(), v.TxID})
		}
	}
	out := &bt.Output{}
	for i, base := range outs {
		vs := []ref.Out{base}
		for _, sc := range resized(base.Script) {
			vs = append(vs, ref.Out{Sats: base.Sats ^ uint64(len(vs)), Script: sc})
		}
		for _, v := range vs {
			mode := []string{"binary", "json", "binary"}[(step+len(v.Script))%3]
			step++
			what := fmt.Sprintf("used Output receiver, decode %d (output %d, %s)", step, i, mode)
			if mode == "json" {
				doc := fmt.Sprintf(`{"satoshis":%d,"lockingScript":"%x"}`, v.Sats, []byte(v.Script))
				if err := json.Unmarshal([]byte(doc), out); err != nil {
					return fmt.Errorf("%s: json.Unmarshal rejected %s: %v", what, doc, err)
				}
			} else {
				enc := refOutput(v)
				r := bytes.NewReader(append(append([]byte{}, enc...), trail...))
				n, err := out.ReadFrom(r)
				if err != nil || n != int64(len(enc)) || r.Len() != len(trail) {
					return fmt.Errorf("%s: err %v, reported %d of %d bytes, %d left in the reader (%d follow the output)", what, err, n, len(enc), r.Len(), len(trail))
				}
			}
			if out.Satoshis != v.Sats || out.LockingScript == nil || !bytes.Equal(*out.LockingScript, v.Script) {
				return fmt.Errorf("%s: decoded value %d / script differ from the encoded %d / %s", what, out.Satoshis, v.Sats, head(v.Script))
			}
			kept = append(kept, producedScript{what + ": locking script object", out.LockingScript, nil, v.Script})
		}
	}
	for _, k := range kept {
		got := k.id
		if k.obj != nil {
			got = *k.obj
		}
		if !bytes.Equal(got, k.want) {
			return fmt.Errorf("%s no longer holds what was decoded into it once the same receiver had decoded %d more elements: %s", k.what, step, firstDiff(got, k.want))
		}
	}
	ctx.Labelf("used-receiver results kept: %s", cls(len(kept)))
	return nil
}

func consumedOf(items []refItem) int {
	if len(items) == 0 {
		return 0
	}
	return items[0].d.Consumed
}

func epOpts() gen.TxOpts {
	// script lengths cross any plausible copy-avoidance threshold: 127/128, 252/253, 1000 (and 65535.. via bigScript)
	return gen.TxOpts{MinIn: 0, MaxIn: 3, MinOut: 0, MaxOut: 3, MaxScript: 1100, ScriptEdges: []int{0, 1, 75, 76, 127, 128, 129, 252, 253, 254, 1000, 1024}}
}

func genEP(t *rapid.T) EP {
	n := rapid.SampledFrom([]int{1, 1, 2, 2, 3, 4}).Draw(t, "ntx")
	c := EP{}
	fix := func(m *ref.Tx) {
		if m.LockTime == 0xEF000000 {
			m.LockTime = 0xEE000000 // never the excluded shape, whatever the counts
		}
	}
	for i := 0; i < n; i++ {
		m := gen.Tx(t, epOpts())
		nilify(t, &m)
		fix(&m)
		c.Txs = append(c.Txs, m)
		c.Ext = append(c.Ext, rapid.Bool().Draw(t, "ext"))
		c.RepIn = append(c.RepIn, 0)
		c.RepOut = append(c.RepOut, 0)
	}
	bigScript(t, &c.Txs[0], 60) // a 65535..70000-byte script now and then
	bigOdds := 400 // the 65535/65536 shapes are enumerated on every run; generated ones add variety
	if pbt.Thorough() {
		bigOdds = 100
	}
	small := func(m *ref.Tx) { // keep replicated elements short
		for i := range m.In {
			if len(m.In[i].Unlock) > 4 {
				m.In[i].Unlock = m.In[i].Unlock[:4]
			}
			if len(m.In[i].PrevScript) > 4 {
				m.In[i].PrevScript = m.In[i].PrevScript[:4]
			}
		}
		for i := range m.Out {
			if len(m.Out[i].Script) > 4 {
				m.Out[i].Script = m.Out[i].Script[:4]
			}
		}
	}
	switch rapid.SampledFrom([]string{"plain", "plain", "plain", "plain", "plain", "plain", "elems", "elems", "list", "big"}).Draw(t, "mode") {
	case "elems":
		i := rapid.IntRange(0, n-1).Draw(t, "rep_which")
		cnt := rapid.SampledFrom([]int{252, 253, 253, 254}).Draw(t, "rep_count")
		small(&c.Txs[i])
		switch rapid.IntRange(0, 2).Draw(t, "rep_side") {
		case 0:
			c.RepIn[i] = cnt
		case 1:
			c.RepOut[i] = cnt
		default:
			c.RepIn[i], c.RepOut[i] = cnt, rapid.SampledFrom([]int{252, 253}).Draw(t, "rep_count2")
		}
	case "list":
		c.RepTx = rapid.SampledFrom([]int{252, 253, 254, 255, 256, 257, 300}).Draw(t, "rep_tx")
		small(&c.Txs[n-1])
	case "big":
		if rapid.IntRange(0, bigOdds-1).Draw(t, "big_really") == 0 {
			small(&c.Txs[n-1])
			cnt := rapid.SampledFrom([]int{65535, 65536}).Draw(t, "big_count")
			switch rapid.IntRange(0, 2).Draw(t, "big_side") {
			case 0:
				c.RepIn[n-1] = cnt
			case 1:
				c.RepOut[n-1] = cnt
			default:
				c.Txs[n-1].In, c.Txs[n-1].Out = nil, c.Txs[n-1].Out[:min(1, len(c.Txs[n-1].Out))]
				c.RepTx = cnt
			}
		}
	}
	c.Mut = rapid.SampledFrom([]string{"none", "none", "none", "none", "widen", "widen", "truncate", "bitflip", "byteset", "claim", "claim"}).Draw(t, "mut")
	if c.Mut == "claim" {
		c.Claim = genClaim(t)
	}
	if rapid.IntRange(0, 7).Draw(t, "list_lies") == 0 {
		c.ListClaim = genClaim(t)
	}
	c.ElemExt = rapid.SliceOfN(rapid.Bool(), 1, 6).Draw(t, "elem_ext")
	c.Overwrite = rapid.SampledFrom([]string{"zero", "invert", "shift"}).Draw(t, "overwrite")
	c.WTx = rapid.IntRange(0, 3).Draw(t, "wtx")
	c.Site = rapid.IntRange(0, 12).Draw(t, "site")
	c.Width = rapid.SampledFrom([]int{3, 5, 9}).Draw(t, "width")
	c.Pos = rapid.IntRange(0, 1<<22).Draw(t, "pos")
	c.Val = int(rapid.SampledFrom(hostileBytes).Draw(t, "val"))
	c.CountWidth = rapid.SampledFrom([]int{0, 0, 0, 3, 5, 9}).Draw(t, "count_width")
	c.CountDelta = rapid.SampledFrom([]int{0, 0, 0, 0, -1, 1}).Draw(t, "count_delta")
	if rapid.IntRange(0, 2).Draw(t, "has_trailing") == 0 {
		c.Trailing = gen.Bytes(t, rapid.IntRange(1, 12).Draw(t, "ntrail"), "trailing")
	} else if rapid.IntRange(0, 5).Draw(t, "trailing_tx") == 0 {
		// the bytes that follow are themselves a transaction: a list that announces
		// one more finds it, one that does not must leave it alone
		x := gen.Tx(t, gen.TxOpts{MinIn: 0, MaxIn: 1, MinOut: 0, MaxOut: 1, MaxScript: 8})
		fix(&x)
		c.Trailing = ref.Encode(x, rapid.Bool().Draw(t, "trailing_ext"))
	}
	c.Dirty = gen.Tx(t, gen.TxOpts{MinIn: 1, MaxIn: 4, MinOut: 1, MaxOut: 4, MaxScript: 40})
	fix(&c.Dirty)
	c.DirtyList = rapid.SampledFrom([]int{0, 1, 1, 2, 3, 5}).Draw(t, "dirty_list")
	c.Chunks = rapid.SliceOfN(rapid.IntRange(1, 40), 1, 6).Draw(t, "chunks")
	span := 0
	for i, m := range c.Txs {
		span += len(ref.Encode(m, c.Ext[i]))
	}
	if rapid.Bool().Draw(t, "script_near") && span > 120 {
		span = 120 // offsets inside the first elements (part E decodes them one by one)
	}
	c.Scripts = []gen.C09Script{gen.C09GenScript(t, span, false)}
	return c
}

// epShape is a deterministic boundary case: one small transaction with one side
// (inputs, outputs, or the list itself) replicated to count.
func epShape(side string, count int, ext bool, delta int) EP {
	m := Shape{NIn: 1, NOut: 1, Len: 2, Salt: count % 7}.model()
	c := EP{Txs: []ref.Tx{m}, Ext: []bool{ext}, RepIn: []int{0}, RepOut: []int{0}, Mut: "none", Width: 3, CountDelta: delta,
		Dirty: Shape{NIn: 2, NOut: 3, Len: 1, Salt: 9}.model(), DirtyList: 2, Chunks: []int{5, 64, 1}}
	switch side {
	case "in":
		c.RepIn[0] = count
	case "out":
		c.RepOut[0] = count
	default:
		c.Txs[0].In = nil
		c.RepTx = count
	}
	return c
}

func TestEntryPoints(t *testing.T) {
	pbt.Run(t, pbt.Sub[EP]{
		Name: "entrypoints", Quick: 7000, Thorough: 60000,
		Gen:      genEP,
		Check:    checkEP,
		EnumDesc: "one fixed transaction with its inputs, its outputs or the list of transactions replicated to {252, 253} x {standard, extended} x list count {exact, one fewer, one more} and to {65535, 65536} (standard, exact count); the same transaction with its input count, its output count or the list count announcing each of 18 huge values (2^31 .. 2^64-1, bit 63 set, wrap-around products) x {standard, extended}",
		Enum: func(tier string, yield func(EP)) {
			for _, side := range []string{"in", "out", "tx"} {
				for _, n := range []int{252, 253} {
					for _, ext := range []bool{false, true} {
						for _, d := range []int{0, -1, 1} {
							yield(epShape(side, n, ext, d))
						}
					}
				}
				for _, n := range []int{65535, 65536} {
					yield(epShape(side, n, false, 0))
				}
			}
			for _, cl := range fixedClaims {
				for _, ext := range []bool{false, true} {
					for _, site := range []int{0, 2} { // input count, output count
						c := epShape("in", 1, ext, 0)
						c.Mut, c.Site, c.Claim = "claim", site, cl
						yield(c)
					}
					c := epShape("out", 1, ext, 0)
					c.ListClaim = cl
					yield(c)
				}
			}
		},
	})
}
