package c01

// Round 5: announced counts / lengths that lie. encodeClaims is a reference-side
// encoder (independent of the library) that writes a model like ref.Encode but
// lets chosen varint sites ANNOUNCE an arbitrary value while the body stays as it
// is; hugeClaims are the values put there (every numeric width class, bit 63 set,
// products with small element sizes that wrap around 2^64).

import (
	"encoding/binary"

	"pgregory.net/rapid"

	"verif/harness/ref"
)

func le32b(v uint32) []byte { b := make([]byte, 4); binary.LittleEndian.PutUint32(b, v); return b }
func le64b(v uint64) []byte { b := make([]byte, 8); binary.LittleEndian.PutUint64(b, v); return b }

// encodeClaims serialises m; varint site s (numbered in order of appearance, as in
// ref.EncodeWidths) announces claims[s] instead of the true count / length.
// countSite reports which sites are element counts (the others are script lengths).
func encodeClaims(m ref.Tx, extended bool, claims map[int]uint64) (out []byte, countSites []int) {
	site := 0
	vi := func(v uint64, isCount bool) []byte {
		if c, ok := claims[site]; ok {
			v = c
		}
		if isCount {
			countSites = append(countSites, site)
		}
		site++
		return ref.VarInt(v)
	}
	o := le32b(m.Version)
	if extended {
		o = append(o, 0, 0, 0, 0, 0, 0xEF)
	}
	o = append(o, vi(uint64(len(m.In)), true)...)
	for _, in := range m.In {
		o = append(o, ref.Reverse(in.TxID)...)
		o = append(o, le32b(in.Vout)...)
		o = append(o, vi(uint64(len(in.Unlock)), false)...)
		o = append(o, in.Unlock...)
		o = append(o, le32b(in.Seq)...)
		if extended {
			o = append(o, le64b(in.PrevSats)...)
			o = append(o, vi(uint64(len(in.PrevScript)), false)...)
			o = append(o, in.PrevScript...)
		}
	}
	o = append(o, vi(uint64(len(m.Out)), true)...)
	for _, x := range m.Out {
		o = append(o, le64b(x.Sats)...)
		o = append(o, vi(uint64(len(x.Script)), false)...)
		o = append(o, x.Script...)
	}
	return append(o, le32b(m.LockTime)...), countSites
}

func ceilDiv64(pow uint, m uint64) uint64 {
	// ceil(2^pow / m) for pow <= 64 without overflowing
	if pow == 64 {
		q := ^uint64(0) / m // floor((2^64-1)/m)
		if (^uint64(0))%m == m-1 {
			return q + 1 // m divides 2^64
		}
		return q + 1
	}
	p := uint64(1) << pow
	return (p + m - 1) / m
}

// fixedClaims are announced values tried at every site in the enumerations.
var fixedClaims = []uint64{
	1 << 31, 1<<32 - 1, 1 << 32, 1 << 40, 1 << 62, 1<<63 - 1, 1 << 63, 1<<63 + 1, 1<<63 + 41, 0xC000000000000000, ^uint64(0) - 1, ^uint64(0),
	ceilDiv64(64, 41), ceilDiv64(64, 9), ceilDiv64(64, 41) - 1, ceilDiv64(64, 9) + 1, ceilDiv64(63, 41), ceilDiv64(64, 10),
}

// genClaim draws an announced value: numeric class edges, any value with bit 63
// set, and wrap-around candidates k with k*m = 2^64 + small.
func genClaim(t *rapid.T) uint64 {
	switch rapid.IntRange(0, 5).Draw(t, "claim_kind") {
	case 0:
		return rapid.SampledFrom(fixedClaims).Draw(t, "claim_fixed")
	case 1, 2:
		return rapid.Uint64().Draw(t, "claim_top") | 1<<63
	case 3:
		m := uint64(rapid.IntRange(2, 300).Draw(t, "claim_m"))
		pow := rapid.SampledFrom([]uint{64, 64, 63, 32}).Draw(t, "claim_pow")
		j := uint64(rapid.IntRange(1, 4).Draw(t, "claim_j"))
		return j*ceilDiv64(pow, m) + uint64(int64(rapid.IntRange(-1, 1).Draw(t, "claim_d")))
	case 4:
		sh := uint(rapid.IntRange(31, 63).Draw(t, "claim_sh"))
		return uint64(1)<<sh + uint64(int64(rapid.IntRange(-2, 2).Draw(t, "claim_d2")))
	default:
		return rapid.Uint64().Draw(t, "claim_any")
	}
}
