package c01

// Sub-check "readerbehaviour" (round 9): every reader-based decoder of the package -
// (*Tx).ReadFrom into fresh and into populated receivers, (*Txs).ReadFrom,
// Input.ReadFrom / ReadFromExtended, Output.ReadFrom, VarInt.ReadFrom - reads valid
// encodings (followed by bytes that must stay unread) from a reader that plays a
// scripted behaviour (harness/gen/c09_readers.go): one read answered (0, nil) at
// EVERY offset in turn, an empty read before every data read, odd read sizes, the
// last bytes together with io.EOF (read sizes all / 1 / 7; also on an io.ByteReader),
// a non-EOF failure at EVERY offset, alone or together with the last data. All of
// that is legal for an io.Reader and none of it changes WHICH bytes arrive, so the
// oracle is the reference codec on the bytes handed over: the object is all there =>
// accepted, bytes reported = bytes taken from the reader = reference length, fields
// and re-serialisation as encoded; the reader failed before the end of the object =>
// rejected. (Only when a non-EOF error arrives in the very Read call that completes the
// object is accept / reject left open.)

import (
	"bytes"
	"fmt"
	"testing"

	"github.com/libsv/go-bt/v2"
	"pgregory.net/rapid"

	"verif/harness/gen"
	"verif/harness/pbt"
	"verif/harness/ref"
)

// RB is the case type of sub-check "readerbehaviour".
type RB struct {
	Txs      []ref.Tx      `json:"txs"`
	Ext      []bool        `json:"ext"`
	Trailing pbt.Hex       `json:"trailing,omitempty"`
	Script   gen.C09Script `json:"script"`
	Dirty    bool          `json:"dirty,omitempty"` // receivers hold another transaction / element before they decode
	V        uint64        `json:"v"`               // VarInt.ReadFrom: value
	VW       int           `json:"vw"`              // and width class (0 = minimal)
}

// unit is one decode over a scripted reader: enc followed by the trailing bytes.
func (c RB) unit(ctx *pbt.Ctx, what string, enc []byte, call func(r *scriptedSrc) (int64, error), verify func() error) error {
	b := append(append([]byte{}, enc...), c.Trailing...)
	s := c.Script
	lim := s.Limit(len(b))
	src := newScriptedSrc(b, s)
	var n int64
	var err error
	g := guarded(func() (*bt.Tx, int64, error) {
		n, err = call(src)
		return nil, n, err
	})
	if g.panicked {
		err = g.err
	}
	what = fmt.Sprintf("%s (%d bytes, %d more behind them) on a reader that %s", what, len(enc), len(c.Trailing), describeScript(s))
	if src.core.Empties > 0 {
		ctx.Label("an empty read was answered")
	}
	if lim < len(enc) {
		if err == nil {
			return fmt.Errorf("%s: accepted (reported %d bytes) although the reader failed after %d bytes", what, n, src.core.Delivered)
		}
		ctx.Label("reader failed inside the object: rejected")
		return nil
	}
	if err != nil {
		if errWithLastBytes(&s, len(enc), len(b)) {
			ctx.Label("reader failed together with the last bytes of the object: rejected")
			return nil
		}
		return fmt.Errorf("%s: rejected (%v, reported %d bytes) a complete reference encoding %s; the reader handed over %d bytes", what, err, n, head(enc), src.core.Delivered)
	}
	if n != int64(len(enc)) || src.core.Delivered != int64(len(enc)) {
		return fmt.Errorf("%s: reported %d bytes and took %d from the reader; the object is %d bytes long", what, n, src.core.Delivered, len(enc))
	}
	if err := verify(); err != nil {
		return fmt.Errorf("%s: %v", what, err)
	}
	return nil
}

type scriptedSrc struct {
	r interface {
		Read(p []byte) (int, error)
	}
	core *gen.C09ScriptReader
}

func newScriptedSrc(b []byte, s gen.C09Script) *scriptedSrc {
	r, core := gen.C09NewScriptReader(b, s)
	return &scriptedSrc{r, core}
}

func checkRB(ctx *pbt.Ctx, c RB) error {
	if len(c.Txs) == 0 || len(c.Txs) > 4 || len(c.Ext) != len(c.Txs) || !c.Script.Valid() || len(c.Trailing) > 64 {
		ctx.Discard("invalid case")
		return nil
	}
	switch c.VW {
	case 0, 1, 3, 5, 9:
	default:
		ctx.Discard("invalid case: width")
		return nil
	}
	for _, m := range c.Txs {
		if validModel(m) != nil || ref.Ambiguous(m) {
			ctx.Discard("invalid model / excluded shape")
			return nil
		}
	}
	ctx.Label("script=" + c.Script.Name())
	ctx.Labelf("ntx=%d", len(c.Txs))
	if c.Dirty {
		ctx.Label("populated receivers")
	}
	ctx.NonTrivial()
	dirtyModel := Shape{NIn: 2, NOut: 3, Len: 4, Salt: 11}.model()

	// ---- (*Tx).ReadFrom: the transactions one after the other off ONE reader ----
	var encs [][]byte
	var cat []byte
	for i, m := range c.Txs {
		e := ref.Encode(m, c.Ext[i])
		encs = append(encs, e)
		cat = append(cat, e...)
	}
	ctx.Key(cat, c.Trailing, []byte(fmt.Sprintf("%+v %v %d %d", c.Script, c.Dirty, c.V, c.VW)))
	{
		data := append(append([]byte{}, cat...), c.Trailing...)
		s := c.Script
		lim := s.Limit(len(data))
		src := newScriptedSrc(data, s)
		reused := ref.ToLib(dirtyModel)
		end := 0
		for i := range c.Txs {
			tx := &bt.Tx{}
			if c.Dirty {
				tx = reused
			}
			g := guarded(func() (*bt.Tx, int64, error) {
				n, err := tx.ReadFrom(src.r)
				return tx, n, err
			})
			n, err := g.used, g.err
			end += len(encs[i])
			what := fmt.Sprintf("(*Tx).ReadFrom, transaction %d of %d (ends at offset %d of %d), on a reader that %s", i, len(c.Txs), end, len(data), describeScript(s))
			if lim < end {
				if err == nil {
					return fmt.Errorf("%s: accepted (reported %d bytes) although the reader failed after %d bytes", what, n, src.core.Delivered)
				}
				ctx.Label("reader failed inside the object: rejected")
				break
			}
			if err != nil {
				if errWithLastBytes(&s, end, len(data)) {
					ctx.Label("reader failed together with the last bytes of the object: rejected")
					break
				}
				return fmt.Errorf("%s: rejected (%v, reported %d bytes) a complete reference encoding; the reader handed over %d bytes in all", what, err, n, src.core.Delivered)
			}
			if n != int64(len(encs[i])) || src.core.Delivered != int64(end) {
				return fmt.Errorf("%s: reported %d bytes (the transaction has %d), %d bytes taken from the reader in all (the transactions so far end at %d)", what, n, len(encs[i]), src.core.Delivered, end)
			}
			if err := sameAs(what, tx, c.Txs[i], c.Ext[i]); err != nil {
				return err
			}
			again := tx.Bytes()
			if c.Ext[i] {
				again = tx.ExtendedBytes()
			}
			if err := eqBytes(what+", re-serialised in the format it arrived in", again, encs[i]); err != nil {
				return err
			}
		}
	}

	// ---- (*Txs).ReadFrom ----
	{
		block := append(ref.VarInt(uint64(len(c.Txs))), cat...)
		txs := bt.Txs{}
		if c.Dirty {
			txs = bt.Txs{ref.ToLib(dirtyModel), ref.ToLib(dirtyModel)}
		}
		err := c.unit(ctx, fmt.Sprintf("(*Txs).ReadFrom of a list of %d", len(c.Txs)), block,
			func(r *scriptedSrc) (int64, error) { return txs.ReadFrom(r.r) },
			func() error {
				if len(txs) != len(c.Txs) {
					return fmt.Errorf("%d transactions returned, %d encoded", len(txs), len(c.Txs))
				}
				for i, tx := range txs {
					if tx == nil {
						return fmt.Errorf("element %d is nil", i)
					}
					if err := sameAs(fmt.Sprintf("element %d", i), tx, c.Txs[i], c.Ext[i]); err != nil {
						return err
					}
					again := tx.Bytes()
					if c.Ext[i] {
						again = tx.ExtendedBytes()
					}
					if err := eqBytes(fmt.Sprintf("element %d re-serialised in the format it arrived in", i), again, encs[i]); err != nil {
						return err
					}
				}
				return nil
			})
		if err != nil {
			return err
		}
	}

	// ---- element decoders ----
	var ins []ref.In
	var outs []ref.Out
	for _, m := range c.Txs {
		for _, in := range m.In {
			if len(ins) < 3 {
				ins = append(ins, in)
			}
		}
		for _, o := range m.Out {
			if len(outs) < 3 {
				outs = append(outs, o)
			}
		}
	}
	for i, in := range ins {
		for _, ext := range []bool{false, true} {
			recv := &bt.Input{}
			if c.Dirty {
				recv = ref.ToLib(dirtyModel).Inputs[0]
			}
			in, ext := in, ext
			err := c.unit(ctx, fmt.Sprintf("Input.ReadFrom%s, input %d", map[bool]string{true: "Extended", false: ""}[ext], i), refInput(in, ext),
				func(r *scriptedSrc) (int64, error) {
					if ext {
						return recv.ReadFromExtended(r.r)
					}
					return recv.ReadFrom(r.r)
				},
				func() error {
					if err := inputIs("decoded input", recv, in, ext); err != nil {
						return err
					}
					return eqBytes("Input.Bytes(false)", recv.Bytes(false), refInput(in, false))
				})
			if err != nil {
				return err
			}
		}
	}
	for i, o := range outs {
		recv := &bt.Output{}
		if c.Dirty {
			recv = ref.ToLib(dirtyModel).Outputs[0]
		}
		o := o
		err := c.unit(ctx, fmt.Sprintf("Output.ReadFrom, output %d", i), refOutput(o),
			func(r *scriptedSrc) (int64, error) { return recv.ReadFrom(r.r) },
			func() error {
				if recv.Satoshis != o.Sats || recv.LockingScript == nil || !bytes.Equal(*recv.LockingScript, o.Script) {
					return fmt.Errorf("decoded value %d / script differ from the encoded %d / %s", recv.Satoshis, o.Sats, head(o.Script))
				}
				return eqBytes("Output.Bytes()", recv.Bytes(), refOutput(o))
			})
		if err != nil {
			return err
		}
	}
	if len(ins) > 0 {
		ctx.Label("element-decodes: inputs")
	}
	if len(outs) > 0 {
		ctx.Label("element-decodes: outputs")
	}

	// ---- VarInt.ReadFrom ----
	{
		v := bt.VarInt(0)
		if c.Dirty {
			v = bt.VarInt(0xfdfdfdfd)
		}
		enc := ref.VarIntWidth(c.V, c.VW)
		ctx.Labelf("varint width=%d", len(enc))
		err := c.unit(ctx, fmt.Sprintf("VarInt.ReadFrom(%x)", enc), enc,
			func(r *scriptedSrc) (int64, error) { return v.ReadFrom(r.r) },
			func() error {
				if uint64(v) != c.V {
					return fmt.Errorf("value %d, encoded %d", uint64(v), c.V)
				}
				return nil
			})
		if err != nil {
			return err
		}
	}
	return nil
}

func genRB(t *rapid.T) RB {
	n := rapid.SampledFrom([]int{1, 1, 1, 2, 3}).Draw(t, "ntx")
	c := RB{}
	total := 0
	for i := 0; i < n; i++ {
		m := gen.Tx(t, gen.TxOpts{MinIn: 0, MaxIn: 3, MinOut: 0, MaxOut: 3, BigCounts: []int{253}, MaxScript: 300, ScriptEdges: []int{0, 1, 75, 76, 252, 253, 254}})
		nilify(t, &m)
		if m.LockTime == 0xEF000000 {
			m.LockTime = 0xEE000000
		}
		c.Txs = append(c.Txs, m)
		c.Ext = append(c.Ext, rapid.Bool().Draw(t, "ext"))
		total += len(ref.Encode(m, c.Ext[i]))
	}
	if rapid.Bool().Draw(t, "has_trailing") {
		c.Trailing = gen.Bytes(t, rapid.IntRange(1, 12).Draw(t, "ntrail"), "trailing")
	}
	// offsets are drawn over the whole stream half of the time, over the first 80 bytes otherwise
	// (where the element decoders and the varint decoder are still reading)
	span := total + len(c.Trailing)
	if rapid.Bool().Draw(t, "near") && span > 80 {
		span = 80
	}
	c.Script = gen.C09GenScript(t, span, true)
	c.Dirty = rapid.Bool().Draw(t, "dirty")
	c.V = gen.U64(t, "v")
	c.VW = rapid.SampledFrom([]int{0, 0, 3, 5, 9}).Draw(t, "vw")
	if len(ref.VarIntWidth(c.V, c.VW)) < len(ref.VarInt(c.V)) {
		c.VW = 0
	}
	return c
}

func TestReaderBehaviour(t *testing.T) {
	pbt.Run(t, pbt.Sub[RB]{
		Name: "readerbehaviour", Quick: 8000, Thorough: 120000,
		Gen:      genRB,
		Check:    checkRB,
		EnumDesc: "2 fixed transactions x {standard, extended} x {nothing, 3 bytes} behind them, a list of both, their inputs / outputs and a 1 / 3 / 5 / 9-byte varint x {one (0, nil) read at EVERY offset of the transaction (plain and one-byte reads), an empty read before every data read, the last bytes together with io.EOF for read sizes all / 1 / 7 (also on an io.ByteReader), a non-EOF failure at EVERY offset: on its own call, with the last data, with the last data of one-byte reads}",
		Enum: func(tier string, yield func(RB)) {
			shapes := []Shape{{NIn: 2, NOut: 2, Len: 3, Salt: 1}, {NIn: 0, NOut: 1, Len: 2, Salt: 2}}
			k := 0
			for si, sh := range shapes {
				m := sh.model()
				for _, ext := range []bool{false, true} {
					for _, trail := range []pbt.Hex{nil, {0xaa, 0x00, 0xfd}} {
						n := len(ref.Encode(m, ext)) + len(trail)
						for _, s := range gen.C09EnumScripts(n, true) {
							k++
							c := RB{Txs: []ref.Tx{m}, Ext: []bool{ext}, Trailing: trail, Script: s, Dirty: k%3 == 0,
								V: []uint64{7, 0xfc, 0xfd, 0x10000, 1 << 32, 300}[k%6], VW: []int{0, 0, 0, 0, 0, 9}[k%6]}
							if si == 0 && k%5 == 0 {
								c.Txs, c.Ext = append(c.Txs, shapes[1].model()), append(c.Ext, !ext)
							}
							yield(c)
						}
					}
				}
			}
		},
	})
}
