package c01

import (
	"fmt"
	"testing"

	"pgregory.net/rapid"

	"verif/harness/pbt"
	"verif/harness/ref"
)

// ---------------------------------------------------------------------------
// sub-check: huge (tenth round). The other sub-checks stop at scripts of about 70 kB. A transaction
// may carry megabytes (data outputs), and an implementation may treat large ones differently - a
// streaming serialiser or hasher above a threshold, a chunked reader. The case describes a
// transaction by numbers: ONE script of 1 MiB .. 3 MiB + 1 (unlocking script, locking script or
// previous script) in a transaction of 1..3 inputs and 0..3 outputs whose OTHER scripts are nil,
// empty or one byte long - the unsigned transaction with one big data output is the everyday shape.
// Oracle: the `model` oracle unchanged (Bytes / ExtendedBytes = reference encoding, both parse back
// to the model, byte-exact re-serialisation, Clone, TxID = reversed double SHA-256 of the standard
// serialisation, Size).
// ---------------------------------------------------------------------------

// Huge describes the transaction by numbers.
type Huge struct {
	Bytes  int    `json:"bytes"`
	Where  string `json:"where"` // unlock | lock | prev
	At     int    `json:"at"`
	NIn    int    `json:"nin"`
	NOut   int    `json:"nout"`
	Others int    `json:"others"` // the other scripts: 0 nil (inputs) / empty, 1 empty, 2 one byte
}

func (c Huge) model() ref.Tx {
	big := make(pbt.Hex, c.Bytes)
	for i := range big {
		big[i] = byte(i*13 + i>>9)
	}
	m := ref.Tx{Version: 2, LockTime: 7}
	for i := 0; i < c.NIn; i++ {
		id := make(pbt.Hex, 32)
		id[0], id[31] = byte(i+1), 0x5a
		in := ref.In{TxID: id, Vout: uint32(i), Seq: 0xffffffff, PrevSats: uint64(1000 + i)}
		switch c.Others {
		case 0:
			in.UnlockNil, in.PrevNil = true, true
		case 1:
			in.Unlock, in.PrevScript = pbt.Hex{}, pbt.Hex{}
		default:
			in.Unlock, in.PrevScript = pbt.Hex{0x51}, pbt.Hex{0x52}
		}
		m.In = append(m.In, in)
	}
	for i := 0; i < c.NOut; i++ {
		o := ref.Out{Sats: uint64(i), Script: pbt.Hex{}}
		if c.Others == 2 {
			o.Script = pbt.Hex{0x6a}
		}
		m.Out = append(m.Out, o)
	}
	switch c.Where {
	case "unlock":
		i := c.At % len(m.In)
		m.In[i].Unlock, m.In[i].UnlockNil = big, false
	case "prev":
		i := c.At % len(m.In)
		m.In[i].PrevScript, m.In[i].PrevNil = big, false
	default:
		if len(m.Out) == 0 {
			m.Out = append(m.Out, ref.Out{Sats: 0})
		}
		m.Out[c.At%len(m.Out)].Script = big
	}
	return m
}

func checkHuge(ctx *pbt.Ctx, c Huge) error {
	if c.Bytes < 0 || c.Bytes > 8<<20 || c.NIn < 1 || c.NIn > 4 || c.NOut < 0 || c.NOut > 4 || c.At < 0 {
		ctx.Discard("malformed case")
		return nil
	}
	ctx.Labelf("huge:size=%dKiB", (c.Bytes>>10)&^255)
	ctx.Label("huge:where=" + c.Where)
	ctx.Labelf("huge:others=%d", c.Others)
	if err := checkModel(ctx, c.model()); err != nil {
		return fmt.Errorf("%v (transaction described as %+v)", err, c)
	}
	ctx.Key([]byte(fmt.Sprint(c)))
	ctx.NonTrivial()
	return nil
}

func TestHuge(t *testing.T) {
	pbt.Run(t, pbt.Sub[Huge]{
		Name: "huge", Quick: 36, Thorough: 360,
		Gen: func(t *rapid.T) Huge {
			return Huge{Bytes: rapid.SampledFrom([]int{1 << 20, 1<<20 - 1, 1<<20 + 1, 1<<20 + 4096, 2 << 20, 3<<20 + 1}).Draw(t, "bytes") + rapid.IntRange(-3, 3).Draw(t, "delta"),
				Where: rapid.SampledFrom([]string{"unlock", "lock", "lock", "prev"}).Draw(t, "where"), At: rapid.IntRange(0, 3).Draw(t, "at"),
				NIn: rapid.IntRange(1, 3).Draw(t, "nin"), NOut: rapid.IntRange(0, 3).Draw(t, "nout"), Others: rapid.IntRange(0, 2).Draw(t, "others")}
		},
		Check:    checkHuge,
		EnumDesc: "one script of 1 MiB - 1 / 1 MiB / 1 MiB + 1 / 2 MiB x {unlocking, locking, previous script} x other scripts {nil, empty, one byte}, two inputs and two outputs",
		Enum: func(_ string, yield func(Huge)) {
			for _, n := range []int{1<<20 - 1, 1 << 20, 1<<20 + 1, 2 << 20} {
				for _, w := range []string{"unlock", "lock", "prev"} {
					for o := 0; o <= 2; o++ {
						yield(Huge{Bytes: n, Where: w, At: 1, NIn: 2, NOut: 2, Others: o})
					}
				}
			}
		},
	})
}
