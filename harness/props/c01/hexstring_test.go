package c01

// Sub-check "hexstring" (round 9): the entry points that take the transaction as a
// hex STRING - NewTxFromString and the "hex" field of json.Unmarshal into a Tx, into
// Tx.NodeJSON() and into the elements of Txs.NodeJSON() - are front doors of the
// exactly-one-transaction parser (NewTxFromBytes). They get what the byte-slice
// constructors get in the other sub-checks: a transaction followed by 0 .. 5000 more
// bytes (every length 1..64 enumerated; lengths around 256 / 512 / 1024 / 2048 and
// tails that bring the whole string to 512 / 1024 / 2048 / 4096 bytes +-2, i.e. around
// any block size a streaming hex decoder may use), by a second transaction, by an odd
// number of hex digits or by characters that are no hex digits at all; cut short;
// with a widened varint; in lower, upper and mixed case. Oracle: the reference decoder
// on the bytes the string stands for - an entry point that accepts has consumed the
// WHOLE string as one transaction (same fields, and byte-exact re-serialisation when all
// varints are minimal); a string that is no hex string is never accepted; the lower-case
// hex of exactly one canonical transaction is always accepted.

import (
	"encoding/hex"
	"strings"
	"testing"

	"pgregory.net/rapid"

	"verif/harness/gen"
	"verif/harness/pbt"
	"verif/harness/ref"
)

// HexStr is the case type of sub-check "hexstring".
type HexStr struct {
	Tx       ref.Tx  `json:"tx"`
	Ext      bool    `json:"ext"`
	Site     int     `json:"site"`                // >= 0: this varint site (modulo their number) is widened to Width
	Width    int     `json:"width,omitempty"`     // 3, 5 or 9
	Cut      int     `json:"cut,omitempty"`       // > 0: only the first Cut characters of the transaction's hex are kept
	TailLen  int     `json:"tail_len,omitempty"`  // this many bytes follow the transaction (pattern from TailSalt)
	TailSalt int     `json:"tail_salt,omitempty"` //
	TailTx   *ref.Tx `json:"tail_tx,omitempty"`   // a second transaction (standard format) follows
	TailText string  `json:"tail_text,omitempty"` // characters behind all that (no hex digits, or an odd number of them)
	Case     string  `json:"case,omitempty"`      // "" / lower | upper | mixed
}

func sizeClass(n int) string {
	switch {
	case n == 0:
		return "0"
	case n <= 2:
		return "1..2"
	case n <= 40:
		return "3..40"
	case n < 256:
		return "41..255"
	case n < 512:
		return "256..511"
	case n < 1024:
		return "512..1023"
	case n < 2048:
		return "1024..2047"
	}
	return ">=2048"
}

func checkHexStr(ctx *pbt.Ctx, c HexStr) error {
	if validModel(c.Tx) != nil || ref.Ambiguous(c.Tx) || c.TailLen < 0 || c.TailLen > 20000 || c.Cut < 0 || (c.TailTx != nil && (validModel(*c.TailTx) != nil || ref.Ambiguous(*c.TailTx))) {
		ctx.Discard("invalid case")
		return nil
	}
	for _, ch := range []byte(c.TailText) {
		if ch <= 0x20 || ch >= 0x7f || ch == '"' || ch == '\\' {
			ctx.Discard("invalid case: tail text") // white space and JSON escapes are left alone
			return nil
		}
	}
	var enc []byte
	if c.Site >= 0 {
		switch c.Width {
		case 3, 5, 9:
		default:
			ctx.Discard("invalid case: width")
			return nil
		}
		enc = ref.EncodeWidths(c.Tx, c.Ext, ref.Widths{c.Site % ref.VarintSites(c.Tx, c.Ext): c.Width})
		ctx.Label("widened varint")
	} else {
		enc = ref.Encode(c.Tx, c.Ext)
	}
	s := hex.EncodeToString(enc)
	if c.Cut > 0 && c.Cut < len(s) {
		s = s[:c.Cut]
		ctx.Label("transaction cut short")
	}
	s += hex.EncodeToString(fixed(c.TailLen, c.TailSalt))
	if c.TailTx != nil {
		s += hex.EncodeToString(ref.Encode(*c.TailTx, false))
		ctx.Label("tail: a second transaction")
	}
	switch c.Case {
	case "", "lower":
	case "upper":
		s = strings.ToUpper(s)
	case "mixed":
		b := []byte(s)
		for i := range b {
			if (i/3+c.TailSalt)%2 == 0 && b[i] >= 'a' {
				b[i] -= 'a' - 'A'
			}
		}
		s = string(b)
	default:
		ctx.Discard("invalid case: case")
		return nil
	}
	s += c.TailText

	raw, herr := hex.DecodeString(s)
	isHex := herr == nil
	var d ref.Decoded
	var rerr error
	if isHex {
		d, rerr = ref.Decode(raw)
	}
	lower := c.Case == "" || c.Case == "lower"
	must := isHex && lower && rerr == nil && d.Minimal && d.Consumed == len(raw)

	ctx.Label("tail bytes=" + sizeClass(c.TailLen))
	ctx.Label("string bytes=" + sizeClass(len(s)/2))
	for _, edge := range []int{512, 1024, 2048, 4096} {
		if dd := len(s)/2 - edge; dd >= -2 && dd <= 2 {
			ctx.Labelf("string ends within 2 bytes of %d", edge)
		}
	}
	if c.TailText != "" {
		if isHex {
			ctx.Label("tail text: hex after all")
		} else if len(s)%2 == 1 {
			ctx.Label("tail text: odd length")
		} else {
			ctx.Label("tail text: not hex")
		}
	}
	ctx.Label("case=" + map[bool]string{true: "lower", false: c.Case}[lower])
	switch {
	case must:
		ctx.Label("exactly one canonical transaction")
	case isHex && rerr == nil && d.Consumed < len(raw):
		ctx.Label("something follows the transaction")
		ctx.NonTrivial()
	case !isHex:
		ctx.NonTrivial()
	}
	ctx.Key([]byte(s))
	return judgeHexDoors(ctx, s, isHex, raw, d, rerr, must)
}

var hexTailTexts = []string{"0", "a", "f", "F", "f0f", "00000", "g", "zz", "0g", "g0", "x", "0x", "-", "..", "+1", "_", "00zz", ":", "=="}

var hexTailLens = []int{1, 2, 3, 4, 9, 20, 41, 100, 255, 256, 257, 400, 500, 510, 511, 512, 513, 520, 600, 1000, 1023, 1024, 1025, 2000, 2047, 2048, 2049, 4096, 5000}

func genHexStr(t *rapid.T) HexStr {
	m := gen.Tx(t, gen.TxOpts{MinIn: 0, MaxIn: 3, MinOut: 0, MaxOut: 3, MaxScript: 600, ScriptEdges: []int{0, 1, 75, 76, 252, 253, 254, 400, 512}})
	nilify(t, &m)
	if m.LockTime == 0xEF000000 {
		m.LockTime = 0xEE000000
	}
	c := HexStr{Tx: m, Ext: rapid.Bool().Draw(t, "ext"), Site: -1}
	n := len(ref.Encode(m, c.Ext))
	switch rapid.SampledFrom([]string{"none", "none", "small", "small", "listed", "listed", "align", "align", "tx"}).Draw(t, "tail") {
	case "small":
		c.TailLen = rapid.IntRange(1, 12).Draw(t, "tail_len")
	case "listed":
		c.TailLen = rapid.SampledFrom(hexTailLens).Draw(t, "tail_len")
	case "align":
		// the whole string ends at (or next to) a round number of bytes
		target := rapid.SampledFrom([]int{256, 512, 512, 1024, 1024, 2048, 4096}).Draw(t, "align_to") + rapid.IntRange(-2, 2).Draw(t, "align_d")
		if target > n {
			c.TailLen = target - n
		} else {
			c.TailLen = 1
		}
	case "tx":
		x := gen.Tx(t, gen.TxOpts{MinIn: 0, MaxIn: 2, MinOut: 0, MaxOut: 2, MaxScript: 40})
		if x.LockTime == 0xEF000000 {
			x.LockTime = 0xEE000000
		}
		c.TailTx = &x
	}
	c.TailSalt = rapid.IntRange(0, 255).Draw(t, "tail_salt")
	if rapid.IntRange(0, 3).Draw(t, "has_text") == 0 {
		c.TailText = rapid.SampledFrom(hexTailTexts).Draw(t, "tail_text")
	}
	if rapid.IntRange(0, 9).Draw(t, "cut?") == 0 {
		c.Cut = rapid.IntRange(1, 2*n).Draw(t, "cut")
	}
	if rapid.IntRange(0, 7).Draw(t, "widen?") == 0 {
		c.Site, c.Width = rapid.IntRange(0, 12).Draw(t, "site"), rapid.SampledFrom([]int{3, 5, 9}).Draw(t, "width")
	}
	c.Case = rapid.SampledFrom([]string{"lower", "lower", "lower", "lower", "upper", "mixed"}).Draw(t, "case")
	return c
}

func TestHexString(t *testing.T) {
	pbt.Run(t, pbt.Sub[HexStr]{
		Name: "hexstring", Quick: 8000, Thorough: 100000,
		Gen:      genHexStr,
		Check:    checkHexStr,
		EnumDesc: "3 fixed transactions x {standard, extended} x tails of every length 0..64 and {100, 255..257, 400, 500, 510..513, 520, 600, 1000, 1023..1025, 2000, 2047..2049, 4096, 5000} bytes and tails that bring the whole string to {256, 512, 1024, 2048, 4096} +-2 bytes x text behind it {none, one hex digit, a character that is no hex digit}",
		Enum: func(tier string, yield func(HexStr)) {
			for si, sh := range []Shape{{NIn: 2, NOut: 2, Len: 5, Salt: 1}, {NIn: 0, NOut: 1, Len: 3, Salt: 2}, {NIn: 1, NOut: 3, Len: 253, Salt: 3}} {
				for _, ext := range []bool{false, true} {
					m := sh.model()
					n := len(ref.Encode(m, ext))
					lens := []int{}
					for l := 0; l <= 64; l++ {
						lens = append(lens, l)
					}
					lens = append(lens, hexTailLens[7:]...)
					for _, target := range []int{256, 512, 1024, 2048, 4096} {
						for d := -2; d <= 2; d++ {
							if target+d > n {
								lens = append(lens, target+d-n)
							}
						}
					}
					for _, l := range lens {
						for _, txt := range []string{"", "0", "g"} {
							yield(HexStr{Tx: m, Ext: ext, Site: -1, TailLen: l, TailSalt: si + l, TailText: txt})
						}
					}
				}
			}
		},
	})
}
