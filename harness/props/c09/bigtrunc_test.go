package c09

// Sub-check "bigtrunc" (extension round 4): valid encodings whose input count,
// output count or transaction count sits on a varint boundary (252/253 and
// 65535/65536 elements, described by a count in the case), cut at EVERY prefix
// (253-class, enumerated) or at the structural hot spots and evenly spaced
// positions (65536-class, enumerated) or at a generated position with an
// optional bit flip; fed to the transaction, stream, reader, block-list and
// JSON-hex decoders. Oracle: the one of all C09 sub-checks (no panic, bytes
// reported <= bytes handed over, allocation <= bound(len(input))).

import (
	"encoding/hex"
	"fmt"
	"runtime"
	"runtime/debug"
	"testing"

	"pgregory.net/rapid"

	"verif/harness/pbt"
	"verif/harness/ref"
)

// BigCut is the case type of sub-check "bigtrunc".
type BigCut struct {
	Entry string `json:"entry"`
	Side  string `json:"side"` // in | out | tx: what is replicated
	N     int    `json:"n"`    // how many
	Ext   bool   `json:"ext"`
	Cut   int    `json:"cut"`  // bytes kept (-1 = all)
	Flip  int    `json:"flip"` // bit flipped before cutting (-1 = none)
}

var bigEntries = []string{"NewTxFromBytes", "NewTxFromStream", "Tx.ReadFrom", "Txs.ReadFrom", "json:Tx", "json:Tx.NodeJSON"}

// bigShape builds the binary encoding (without any JSON wrapping).
func bigShape(entry, side string, n int, ext bool) []byte {
	m := ref.Tx{Version: 1, LockTime: 0x11223344}
	in := ref.In{TxID: fixed(32, 5), Vout: 2, Seq: 0xfffffffe, Unlock: pbt.Hex{0x51, 0x52}, PrevSats: 77, PrevScript: pbt.Hex{0x53}}
	out := ref.Out{Sats: 546, Script: pbt.Hex{0x51}}
	nin, nout, ntx := 1, 1, 1
	switch side {
	case "in":
		nin = n
	case "out":
		nout = n
	default:
		ntx, nin = n, 0
	}
	for i := 0; i < nin; i++ {
		m.In = append(m.In, in)
	}
	for i := 0; i < nout; i++ {
		m.Out = append(m.Out, out)
	}
	one := ref.Encode(m, ext)
	if entry != "Txs.ReadFrom" && side != "tx" {
		return one
	}
	b := append([]byte{}, ref.VarInt(uint64(ntx))...)
	for i := 0; i < ntx; i++ {
		b = append(b, one...)
	}
	if entry != "Txs.ReadFrom" {
		// a single-transaction decoder given a run of transactions: it reads the first
		return b[len(ref.VarInt(uint64(ntx))):]
	}
	return b
}

// bigLayout returns where element 0 of the replicated list starts in the shape
// and how long one element is.
func bigLayout(entry, side string, n int, ext bool) (head, elem int) {
	cnt := len(ref.VarInt(uint64(n)))
	list, marker, prev := 0, 0, 0
	if entry == "Txs.ReadFrom" {
		list = 1 // the count of a list of one transaction
	}
	if ext {
		marker, prev = 6, 8+1+1
	}
	in := 32 + 4 + 1 + 2 + 4 + prev
	switch side {
	case "in":
		return list + 4 + marker + cnt, in
	case "out":
		return list + 4 + marker + 1 + in + cnt, 8 + 1 + 1
	}
	if entry == "Txs.ReadFrom" {
		return cnt, 4 + marker + 1 + 1 + (8 + 1 + 1) + 4
	}
	return 0, 4 + marker + 1 + 1 + (8 + 1 + 1) + 4
}

// prefixCuts lists the cut positions of a 252/253-class shape: every proper
// prefix when the shape is short; otherwise every prefix of the header, of the
// first two and the last two elements and of the tail, and for every other
// element the cuts at its start, one byte in and in its middle.
func prefixCuts(total, head, elem, n int) []int {
	var out []int
	if total <= 3000 {
		for k := 0; k < total; k++ {
			out = append(out, k)
		}
		return out
	}
	for k := 0; k < head+2*elem && k < total; k++ {
		out = append(out, k)
	}
	for i := 2; i < n-2; i++ {
		at := head + i*elem
		out = append(out, at, at+1, at+elem/2)
	}
	for k := head + (n-2)*elem; k < total; k++ {
		if k >= head+2*elem {
			out = append(out, k)
		}
	}
	return out
}

// shapeMemo keeps the most recently built shapes: bigShape is a pure function of
// its arguments and the enumeration asks for the same shape thousands of times.
var shapeMemo = map[string][]byte{}

func bigShapeCopy(entry, side string, n int, ext bool) []byte {
	k := fmt.Sprintf("%v/%s/%d/%v", entry == "Txs.ReadFrom", side, n, ext)
	b, ok := shapeMemo[k]
	if !ok {
		if len(shapeMemo) >= 6 {
			shapeMemo = map[string][]byte{}
		}
		b = bigShape(entry, side, n, ext)
		shapeMemo[k] = b
	}
	return append([]byte{}, b...)
}

func (c BigCut) input() []byte {
	b := bigShapeCopy(c.Entry, c.Side, c.N, c.Ext)
	if c.Flip >= 0 && len(b) > 0 {
		p := c.Flip % (len(b) * 8)
		b[p/8] ^= 1 << uint(p%8)
	}
	if c.Cut >= 0 && c.Cut < len(b) {
		b = b[:c.Cut]
	}
	if isJSON(c.Entry) {
		return []byte(`{"hex":"` + hex.EncodeToString(b) + `"}`)
	}
	return b
}

func checkBigCut(ctx *pbt.Ctx, c BigCut) error {
	okEntry := false
	for _, e := range bigEntries {
		okEntry = okEntry || e == c.Entry
	}
	if !okEntry || (c.Side != "in" && c.Side != "out" && c.Side != "tx") || c.N < 0 || c.N > 70000 || c.Cut < -1 || c.Flip < -1 {
		ctx.Discard("invalid case")
		return nil
	}
	if c.N > 10000 {
		old := debug.SetGCPercent(100) // see reuse_test.go
		defer func() { debug.SetGCPercent(old); runtime.GC() }()
	}
	data := c.input()
	ctx.Key([]byte(c.Entry), data)
	ctx.Labelf("side=%s n=%s", c.Side, countClass(c.N))
	switch {
	case c.Cut < 0:
		ctx.Label("complete")
	default:
		ctx.Label("cut")
		ctx.NonTrivial() // a count / length field announces more than what is left
	}
	if c.Flip >= 0 {
		ctx.Label("bit-flipped")
	}
	if !isJSON(c.Entry) && len(data) <= 4096 { // the walker is slow on big inputs; the cut itself already decides non-triviality
		over, short, complete := classify(c.Entry, data)
		switch {
		case over:
			ctx.Label("field-exceeds-remaining")
			ctx.NonTrivial()
		case short:
			ctx.Label("ends-inside-fixed-field")
		case complete:
			ctx.Label("well-formed")
		}
	}
	return oracle(ctx, c.Entry, data)
}

func countClass(n int) string {
	switch {
	case n < 252:
		return "<252"
	case n <= 254:
		return fmt.Sprint(n)
	case n < 65535:
		return "255..65534"
	case n <= 65537:
		return fmt.Sprint(n)
	}
	return ">65537"
}

// hotCuts are the cut positions tried on the 65536-class shapes: both ends,
// around the elements with index 65534..65536, and evenly spaced ones.
func hotCuts(total, head, elem int) []int {
	seen := map[int]bool{}
	var out []int
	add := func(p int) {
		if p >= 0 && p < total && !seen[p] {
			seen[p] = true
			out = append(out, p)
		}
	}
	for p := 0; p < 24; p++ {
		add(p)
		add(total - 1 - p)
	}
	for _, idx := range []int{65534, 65535, 65536} {
		for d := -3; d <= elem+3; d++ {
			add(head + idx*elem + d)
		}
	}
	for k := 1; k < 24; k++ {
		add(total * k / 24)
	}
	return out
}

func TestBigTrunc(t *testing.T) {
	pbt.Run(t, pbt.Sub[BigCut]{
		Name: "bigtrunc", Quick: 6000, Thorough: 120000,
		Check: checkBigCut,
		Gen: func(t *rapid.T) BigCut {
			c := BigCut{Entry: rapid.SampledFrom(bigEntries).Draw(t, "entry"), Side: rapid.SampledFrom([]string{"in", "out", "tx"}).Draw(t, "side"), Ext: rapid.Bool().Draw(t, "ext"), Flip: -1}
			c.N = rapid.SampledFrom([]int{251, 252, 253, 253, 254, 255, 256, 257, 300, 1000}).Draw(t, "n")
			odds := 60
			if pbt.Thorough() {
				odds = 12
			}
			if rapid.IntRange(0, odds-1).Draw(t, "huge") == 0 {
				c.N = rapid.SampledFrom([]int{65534, 65535, 65536, 65537}).Draw(t, "n_huge")
			}
			c.Cut = rapid.IntRange(0, 1<<20).Draw(t, "cut")
			if l := len(bigShape(c.Entry, c.Side, c.N, c.Ext)); l > 0 {
				c.Cut %= l + 1
			}
			if rapid.IntRange(0, 9).Draw(t, "whole") == 0 {
				c.Cut = -1
			}
			if rapid.IntRange(0, 2).Draw(t, "flip?") == 0 {
				c.Flip = rapid.IntRange(0, 1<<23).Draw(t, "flip")
			}
			return c
		},
		EnumDesc: "inputs / outputs / transactions replicated to 252 and 253 x {standard, extended} x decoders {NewTxFromStream, Tx.ReadFrom, Txs.ReadFrom (+ NewTxFromBytes in thorough)}: the complete encoding and every proper prefix when the shape is <= 3000 bytes, otherwise every prefix of the header, the first two and last two elements and the tail plus three cuts inside every other element; the JSON hex decoders on every prefix of the 253-output shape; 65535 and 65536 elements (standard) through NewTxFromStream (inputs, outputs) and Txs.ReadFrom (transactions; thorough: both decoders on all three): complete, the first and last 24 prefixes, every cut around elements 65534..65536 and 23 evenly spaced cuts",
		Enum: func(tier string, yield func(BigCut)) {
			small := bigEntries[1:4] // NewTxFromBytes is NewTxFromStream plus a length comparison: thorough only
			if tier == "thorough" {
				small = bigEntries[:4]
			}
			for _, side := range []string{"in", "out", "tx"} {
				for _, n := range []int{252, 253} {
					for _, ext := range []bool{false, true} {
						for _, entry := range small {
							l := len(bigShape(entry, side, n, ext))
							head, elem := bigLayout(entry, side, n, ext)
							yield(BigCut{Entry: entry, Side: side, N: n, Ext: ext, Cut: -1, Flip: -1})
							for _, k := range prefixCuts(l, head, elem, n) {
								yield(BigCut{Entry: entry, Side: side, N: n, Ext: ext, Cut: k, Flip: -1})
							}
						}
					}
				}
			}
			for _, entry := range bigEntries[4:] {
				l := len(bigShape(entry, "out", 253, false))
				for k := 0; k <= l; k++ {
					yield(BigCut{Entry: entry, Side: "out", N: 253, Cut: k, Flip: -1})
				}
			}
			for _, side := range []string{"in", "out", "tx"} {
				for _, n := range []int{65535, 65536} {
					for _, entry := range []string{"NewTxFromStream", "Txs.ReadFrom"} {
						if tier != "thorough" && (entry == "Txs.ReadFrom") != (side == "tx") {
							continue // quick: the list decoder on the replicated list, the stream decoder on replicated inputs / outputs
						}
						l := len(bigShape(entry, side, n, false))
						head, elem := bigLayout(entry, side, n, false)
						yield(BigCut{Entry: entry, Side: side, N: n, Cut: -1, Flip: -1})
						for _, k := range hotCuts(l, head, elem) {
							yield(BigCut{Entry: entry, Side: side, N: n, Cut: k, Flip: -1})
						}
					}
				}
			}
		},
	})
}
