package c09

// Sub-check "readers" (round 7): the dynamic type of the reader is an axis. The
// hostile inputs of the other sub-checks (one varint site announcing 253 .. 2^64-1,
// now also 2^20 .. 2^30, with little or nothing behind it) and truncations go to the
// reader-based entry points through every kind of reader a caller may hold:
// bytes.Reader, bytes.Buffer, strings.Reader (Len() = what is left), bufio.Reader,
// io.SectionReader with an exact and with an OVERSTATED section (Size() = 2^62 over
// a few bytes), readers whose Len() / Size() lie (2^40, negative), io.LimitReader,
// io.MultiReader, readers with only Read (all at once, one byte at a time, half
// reads, data together with EOF). A decoder may consult such methods but must not
// trust them: the oracle is unchanged - no panic, reported <= handed over by the
// source, allocation <= bound(len(input)).

import (
	"fmt"
	"testing"

	"pgregory.net/rapid"

	"verif/harness/pbt"
)

var readerEntries = []string{"Tx.ReadFrom", "Txs.ReadFrom", "Input.ReadFrom", "Input.ReadFromExtended", "Output.ReadFrom"}

// midClaims are large enough to cost real memory when trusted and small enough to be allocatable.
var midClaims = []uint64{1 << 20, 1 << 24, 1 << 28, 1 << 30}

func TestReaders(t *testing.T) {
	all := append(append([]uint64{}, claims...), midClaims...)
	pbt.Run(t, pbt.Sub[Wrap]{
		Name: "readers", Quick: 40000, Thorough: 700000, Precommit: true,
		Check: checkWrap,
		Gen: func(t *rapid.T) Wrap {
			entry := rapid.SampledFrom(readerEntries).Draw(t, "entry")
			c := Wrap{Entry: entry, Reader: rapid.SampledFrom(readerKinds).Draw(t, "reader")}
			switch rapid.IntRange(0, 3).Draw(t, "how") {
			case 0: // valid or truncated
				ms, exts := genModels(t)
				d := baseFor(entry, ms, exts).b
				if rapid.Bool().Draw(t, "cut?") {
					d = d[:rapid.IntRange(0, len(d)).Draw(t, "cut")]
				}
				c.Data, c.Note = d, "valid / truncated"
			case 1:
				ms, exts := genModels(t)
				e := baseFor(entry, ms, exts)
				s := rapid.IntRange(0, len(e.sites)-1).Draw(t, "site")
				cl := rapid.SampledFrom(midClaims).Draw(t, "mid") + uint64(rapid.IntRange(-2, 2).Draw(t, "d"))
				keep := rapid.SampledFrom([]int{0, 1, 8, 50, -1}).Draw(t, "keep")
				c.Data, c.Note = hostile(e, s, cl, 0, keep), fmt.Sprintf("site %d announces %d, keep %d", s, cl, keep)
			default:
				c.Data, c.Note = genHostileBytes(t, entry)
			}
			return c
		},
		EnumDesc: "2 seed inputs per reader-based entry point {Tx.ReadFrom, Txs.ReadFrom, Input.ReadFrom, Input.ReadFromExtended, Output.ReadFrom} x every varint site x claims {253, 2^16, 2^24, 2^31, 2^32-1, 2^32, 2^40, 2^63, 2^64-1, 2^20, 2^28, 2^30} x {0, 1, all} bytes kept x 21 kinds of reader (15 dynamic types + 6 scripted behaviours, round 9)",
		Enum: func(tier string, yield func(Wrap)) {
			for _, entry := range readerEntries {
				for si, sd := range seeds()[:2] {
					e := baseFor(entry, sd.ms, sd.exts)
					for s := range e.sites {
						for _, cl := range all {
							for _, keep := range []int{0, 1, -1} {
								for _, kind := range readerKinds {
									yield(Wrap{Entry: entry, Reader: kind, Data: hostile(e, s, cl, 0, keep), Note: fmt.Sprintf("seed %d site %d claims %d keep %d", si, s, cl, keep)})
								}
							}
						}
					}
				}
			}
		},
	})
}
