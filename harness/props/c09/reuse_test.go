package c09

// Sub-check "reuse" (extension round 4): ONE receiver object per case serves a
// sequence of 2..6 decodes (valid, hostile, truncated, random inputs; binary and
// JSON entry points of the same receiver type mixed; several kinds of reader).
// The oracle of every single call is the one of the other sub-checks - no panic,
// bytes reported <= bytes handed over, heap allocated <= bound(len(this input)) -
// so whatever an earlier decode left in the receiver (lists, scripts, capacity)
// must not make a later decode crash, over-report or allocate out of proportion
// to ITS input. Receivers are primed with large valid inputs (300 / 40000
// elements, stored as a count) in part of the cases.

import (
	"bytes"
	"encoding/hex"
	"encoding/json"
	"errors"
	"fmt"
	"io"
	"runtime"
	"runtime/debug"
	"strings"
	"testing"
	"testing/iotest"

	"github.com/libsv/go-bt/v2"
	"pgregory.net/rapid"

	"verif/harness/gen"
	"verif/harness/pbt"
	"verif/harness/ref"
)

// Step is one decode of a history.
type Step struct {
	Entry  string  `json:"entry"`
	Data   pbt.Hex `json:"data,omitempty"`
	Text   string  `json:"text,omitempty"`
	Big    int     `json:"big,omitempty"`    // > 0: the input is a valid encoding with this many replicated elements (data/text unused)
	Cut    int     `json:"cut,omitempty"`    // big inputs: keep only this many bytes (0 = all)
	Reader string  `json:"reader,omitempty"` // "" (bytes.Reader) | onebyte | dataerr | chunk | fail
	Note   string  `json:"note,omitempty"`
}

// Reuse is the case type of sub-check "reuse".
type Reuse struct {
	Family string `json:"family"`
	Steps  []Step `json:"steps"`
}

var families = map[string][]string{
	"tx":     {"Tx.ReadFrom", "json:Tx", "json:Tx.NodeJSON"},
	"txs":    {"Txs.ReadFrom", "json:Txs.NodeJSON"},
	"input":  {"Input.ReadFrom", "Input.ReadFromExtended", "json:Input"},
	"output": {"Output.ReadFrom", "json:Output", "json:Output.NodeJSON"},
	"utxo":   {"json:UTXO", "json:UTXO.NodeJSON"},
	"utxos":  {"json:UTXOs.NodeJSON"},
	"varint": {"VarInt.ReadFrom"},
}

var familyNames = []string{"tx", "tx", "txs", "txs", "input", "output", "utxo", "utxos", "varint"}

func inFamily(fam, entry string) bool {
	for _, e := range families[fam] {
		if e == entry {
			return true
		}
	}
	return false
}

// ---------------------------------------------------------------------------
// large valid inputs, described by a count

const emptyTxHex = "01000000000000000000"

func bigScriptHex(n int) string { return strings.Repeat("51", n) }

// bigInput builds a valid input for entry with n replicated elements (outputs
// of a transaction, transactions of a list, bytes of a script).
func bigInput(entry string, n int) []byte {
	txBytes := func() []byte {
		m := ref.Tx{Version: 2, LockTime: 7}
		m.In = []ref.In{{TxID: fixed(32, 3), Vout: 1, Seq: 0xffffffff, Unlock: fixed(5, 1)}}
		m.Out = make([]ref.Out, n)
		for i := range m.Out {
			m.Out[i] = ref.Out{Sats: 546, Script: pbt.Hex{0x51}}
		}
		return ref.Encode(m, false)
	}
	switch entry {
	case "Tx.ReadFrom", "NewTxFromBytes", "NewTxFromStream":
		return txBytes()
	case "Txs.ReadFrom":
		one, _ := hex.DecodeString(emptyTxHex)
		b := append([]byte{}, ref.VarInt(uint64(n))...)
		for i := 0; i < n; i++ {
			b = append(b, one...)
		}
		return b
	case "Input.ReadFrom", "Input.ReadFromExtended":
		e := &enc{}
		e.input(ref.In{TxID: fixed(32, 3), Vout: 1, Seq: 5, Unlock: bytes.Repeat([]byte{0x51}, n), PrevSats: 9, PrevScript: bytes.Repeat([]byte{0x52}, n)}, entry == "Input.ReadFromExtended")
		return e.b
	case "Output.ReadFrom":
		e := &enc{}
		e.output(ref.Out{Sats: 1, Script: bytes.Repeat([]byte{0x51}, n)})
		return e.b
	case "VarInt.ReadFrom":
		return ref.VarInt(uint64(n))
	case "json:Tx", "json:Tx.NodeJSON":
		return []byte(`{"hex":"` + hex.EncodeToString(txBytes()) + `"}`)
	case "json:Txs.NodeJSON":
		return []byte("[" + strings.TrimSuffix(strings.Repeat(`{"hex":"`+emptyTxHex+`"},`, n), ",") + "]")
	case "json:Input":
		return []byte(`{"unlockingScript":"` + bigScriptHex(n) + `","txid":"` + strings.Repeat("ab", 32) + `","vout":1,"sequence":2}`)
	case "json:Output":
		return []byte(`{"satoshis":1,"lockingScript":"` + bigScriptHex(n) + `"}`)
	case "json:Output.NodeJSON":
		return []byte(`{"value":0.1,"n":0,"scriptPubKey":{"asm":"","hex":"` + bigScriptHex(n) + `","type":"nonstandard"}}`)
	case "json:UTXO":
		return []byte(`{"txid":"` + strings.Repeat("ab", 32) + `","vout":1,"lockingScript":"` + bigScriptHex(n) + `","satoshis":3}`)
	case "json:UTXO.NodeJSON":
		return []byte(`{"txid":"` + strings.Repeat("ab", 32) + `","vout":1,"scriptPubKey":"` + bigScriptHex(n) + `","amount":0.5}`)
	case "json:UTXOs.NodeJSON":
		return []byte("[" + strings.TrimSuffix(strings.Repeat(`{"txid":"`+strings.Repeat("ab", 32)+`","vout":1,"scriptPubKey":"51","amount":0.5},`, n), ",") + "]")
	}
	return nil
}

func (s Step) input() []byte {
	if s.Big > 0 {
		b := bigInput(s.Entry, s.Big)
		if s.Cut > 0 && s.Cut < len(b) {
			b = b[:s.Cut]
		}
		return b
	}
	if len(s.Data) == 0 && s.Text != "" {
		return []byte(s.Text)
	}
	return []byte(s.Data)
}

// ---------------------------------------------------------------------------
// readers (all allocation-free while reading)

type countingAny struct {
	r io.Reader
	n int64
}

func (c *countingAny) Read(p []byte) (int, error) {
	n, err := c.r.Read(p)
	c.n += int64(n)
	return n, err
}

type chunked struct {
	b []byte
	k int
}

func (c *chunked) Read(p []byte) (int, error) {
	if len(c.b) == 0 {
		return 0, io.EOF
	}
	n := c.k
	if n > len(p) {
		n = len(p)
	}
	if n > len(c.b) {
		n = len(c.b)
	}
	copy(p, c.b[:n])
	c.b = c.b[n:]
	return n, nil
}

var errBoom = errors.New("c09: reader failed")

// failing hands over all its data and then fails with an error that is not io.EOF.
type failing struct{ b []byte }

func (f *failing) Read(p []byte) (int, error) {
	if len(f.b) == 0 {
		return 0, errBoom
	}
	n := copy(p, f.b)
	f.b = f.b[n:]
	return n, nil
}

func mkReader(kind string, data []byte) io.Reader {
	switch kind {
	case "onebyte":
		return iotest.OneByteReader(bytes.NewReader(data))
	case "dataerr":
		return iotest.DataErrReader(bytes.NewReader(data))
	case "chunk":
		return &chunked{b: data, k: 7}
	case "fail":
		return &failing{b: data}
	}
	if sc, ok := namedScript(kind, len(data)); ok { // round 9: scripted behaviours
		r, _ := gen.C09NewScriptReader(data, sc)
		return r
	}
	return bytes.NewReader(data)
}

// ---------------------------------------------------------------------------
// the receivers and one metered call on them

type receivers struct {
	tx    *bt.Tx
	txs   *bt.Txs
	in    *bt.Input
	out   *bt.Output
	utxo  *bt.UTXO
	utxos *bt.UTXOs
	vi    *bt.VarInt
}

func newReceivers() *receivers {
	return &receivers{tx: bt.NewTx(), txs: &bt.Txs{}, in: &bt.Input{}, out: &bt.Output{}, utxo: &bt.UTXO{}, utxos: &bt.UTXOs{}, vi: new(bt.VarInt)}
}

// runOn is run() of c09_test.go on a persistent receiver.
func (rc *receivers) runOn(s Step, data []byte, meter func() uint64) (outcome, uint64) {
	var out outcome
	cr := &countingAny{r: mkReader(s.Reader, data)}
	var call func()
	switch s.Entry {
	case "Tx.ReadFrom":
		call = func() { out.reported, out.err = rc.tx.ReadFrom(cr); out.hasReported = true }
	case "Txs.ReadFrom":
		call = func() { out.reported, out.err = rc.txs.ReadFrom(cr); out.hasReported = true }
	case "Input.ReadFrom":
		call = func() { out.reported, out.err = rc.in.ReadFrom(cr); out.hasReported = true }
	case "Input.ReadFromExtended":
		call = func() { out.reported, out.err = rc.in.ReadFromExtended(cr); out.hasReported = true }
	case "Output.ReadFrom":
		call = func() { out.reported, out.err = rc.out.ReadFrom(cr); out.hasReported = true }
	case "VarInt.ReadFrom":
		call = func() { out.reported, out.err = rc.vi.ReadFrom(cr); out.hasReported = true }
	case "json:Tx":
		call = func() { out.err = json.Unmarshal(data, rc.tx) }
	case "json:Input":
		call = func() { out.err = json.Unmarshal(data, rc.in) }
	case "json:Output":
		call = func() { out.err = json.Unmarshal(data, rc.out) }
	case "json:UTXO":
		call = func() { out.err = json.Unmarshal(data, rc.utxo) }
	case "json:Tx.NodeJSON":
		w := rc.tx.NodeJSON()
		call = func() { out.err = json.Unmarshal(data, w) }
	case "json:Txs.NodeJSON":
		w := rc.txs.NodeJSON()
		call = func() { out.err = json.Unmarshal(data, w) }
	case "json:Output.NodeJSON":
		w := rc.out.NodeJSON()
		call = func() { out.err = json.Unmarshal(data, w) }
	case "json:UTXO.NodeJSON":
		w := rc.utxo.NodeJSON()
		call = func() { out.err = json.Unmarshal(data, w) }
	case "json:UTXOs.NodeJSON":
		w := rc.utxos.NodeJSON()
		call = func() { out.err = json.Unmarshal(data, w) }
	default:
		panic("c09 reuse: unknown entry " + s.Entry)
	}
	a0 := meter()
	call()
	a1 := meter()
	out.delivered = cr.n
	return out, a1 - a0
}

type stepResult struct {
	out   outcome
	alloc uint64
}

// play runs the whole history on fresh receivers; step exactAt (if >= 0) is
// measured with the exact stop-the-world meter.
func play(c Reuse, inputs [][]byte, exactAt int) []stepResult {
	rc := newReceivers()
	res := make([]stepResult, len(c.Steps))
	for i, s := range c.Steps {
		m := meterFast
		if i == exactAt {
			m = meterExact
		}
		res[i].out, res[i].alloc = rc.runOn(s, inputs[i], m)
	}
	return res
}

func checkReuse(ctx *pbt.Ctx, c Reuse) error {
	if families[c.Family] == nil || len(c.Steps) == 0 || len(c.Steps) > 8 {
		ctx.Discard("invalid case: family / steps")
		return nil
	}
	for _, s := range c.Steps {
		if s.Big > 10000 {
			// large inputs: collect garbage at the default pace (pbt.Main runs shards at
			// 400 %) so that the shard stays far below the driver's address-space limit
			old := debug.SetGCPercent(100)
			defer func() { debug.SetGCPercent(old); runtime.GC() }()
			break
		}
	}
	inputs := make([][]byte, len(c.Steps))
	var key [][]byte
	for i, s := range c.Steps {
		if !inFamily(c.Family, s.Entry) || s.Big < 0 || s.Big > 80000 || s.Cut < 0 {
			ctx.Discard("invalid case: step")
			return nil
		}
		switch s.Reader {
		case "", "onebyte", "dataerr", "chunk", "fail":
		default:
			if _, ok := namedScript(s.Reader, 0); !ok {
				ctx.Discard("invalid case: reader")
				return nil
			}
		}
		inputs[i] = s.input()
		key = append(key, []byte(s.Entry+"/"+s.Reader), inputs[i])
	}
	ctx.Key(key...)
	ctx.Label("family=" + c.Family)

	res := play(c, inputs, -1)
	populated, afterBig, nontrivial := false, false, false
	for i, s := range c.Steps {
		r := res[i]
		data := inputs[i]
		what := fmt.Sprintf("decode %d of %d on one %s receiver (%s, reader %q)", i+1, len(c.Steps), c.Family, s.Entry, s.Reader)
		if r.out.hasReported && (r.out.reported > r.out.delivered || r.out.reported < 0) {
			return fmt.Errorf("%s reported %d bytes consumed but was handed only %d (input %d bytes: %s; err: %v)", what, r.out.reported, r.out.delivered, len(data), head(data), r.out.err)
		}
		if bound := allocBound(s.Entry, len(data)); r.alloc > bound {
			exact := play(c, inputs, i)[i].alloc
			if exact > bound {
				return fmt.Errorf("%s allocated %d bytes (exact re-measurement of a replayed history; first reading %d) for a %d-byte input (bound %d); the receiver had served %d decodes before; input %s; err: %v", what, exact, r.alloc, len(data), bound, i, head(data), r.out.err)
			}
			ctx.Label("alloc-meter-noise")
		}
		ctx.Label("entry=" + s.Entry)
		if s.Reader != "" {
			ctx.Label("reader=" + s.Reader)
		}
		ok := r.out.err == nil
		over := false
		if !isJSON(s.Entry) {
			over, _, _ = classify(s.Entry, data)
		}
		switch {
		case ok && populated:
			ctx.Label("ok-after-populated")
		case !ok && populated:
			ctx.Label("error-after-populated")
			nontrivial = true
		case !ok:
			ctx.Label("error-on-fresh")
		}
		if over {
			ctx.Label("field-exceeds-remaining")
			if populated {
				nontrivial = true
			}
		}
		if afterBig {
			ctx.Label("decode-after-big-receiver-state")
			nontrivial = true
		}
		if ok {
			populated = true
			if s.Big >= 300 {
				afterBig = true
				ctx.Labelf("primed-big=%d", s.Big)
			}
		}
	}
	if nontrivial {
		ctx.NonTrivial()
	}
	return nil
}

// ---------------------------------------------------------------------------
// generator

func genJSONEntry(t *rapid.T, entry string, hostile bool) (string, string) {
	op := rapid.SampledFrom([]string{"grammar", "grammar", "grammar", "valid", "valid", "valid+truncate", "valid+replace", "toplevel"}).Draw(t, "jop")
	g := &jgen{t: t, allValid: strings.HasPrefix(op, "valid"), hostile: hostile}
	text := g.value(schemaFor[entry], 0)
	switch op {
	case "valid+truncate":
		text = text[:rapid.IntRange(0, len(text)).Draw(t, "cut")]
	case "valid+replace":
		if len(text) > 0 {
			b := []byte(text)
			b[rapid.IntRange(0, len(b)-1).Draw(t, "pos")] = asciiNoise[rapid.IntRange(0, len(asciiNoise)-1).Draw(t, "ch")]
			text = string(b)
		}
	case "toplevel":
		text = rapid.SampledFrom([]string{"null", "[]", "{}", "[null]", "[{}]", `{"hex":"00"}`, `{"hex":""}`, "{\"vin\":null,\"vout\":null}"}).Draw(t, "top")
	}
	if !isASCII(text) || text == "" {
		text = "{}"
	}
	return text, op
}

func genBinStep(t *rapid.T, entry string) ([]byte, string) {
	op := rapid.SampledFrom([]string{"valid", "valid", "valid", "hostile", "hostile", "truncate", "bitflip", "random", "empty"}).Draw(t, "bop")
	if op == "hostile" && entry != "VarInt.ReadFrom" {
		d, note := genHostileBytes(t, entry)
		return d, "hostile: " + note
	}
	ms, exts := genModels(t)
	d := baseFor(entry, ms, exts).b
	switch op {
	case "truncate", "hostile":
		d = d[:rapid.IntRange(0, len(d)).Draw(t, "cut")]
	case "bitflip":
		if len(d) > 0 {
			i := rapid.IntRange(0, len(d)*8-1).Draw(t, "bit")
			d[i/8] ^= 1 << uint(i%8)
		}
	case "random":
		d = gen.BytesUpTo(t, 80, "bytes")
	case "empty":
		d = nil
	}
	return d, op
}

func genReuse(t *rapid.T) Reuse {
	fam := rapid.SampledFrom(familyNames).Draw(t, "family")
	c := Reuse{Family: fam}
	es := families[fam]
	n := rapid.IntRange(2, 6).Draw(t, "nsteps")
	// prime the receiver with a large valid decode in 1 of 6 cases (40000 elements in 1 of 240)
	if fam != "varint" && rapid.IntRange(0, 5).Draw(t, "prime") == 0 {
		big := 300
		if rapid.IntRange(0, 39).Draw(t, "prime_huge") == 0 {
			big = 40000
		}
		c.Steps = append(c.Steps, Step{Entry: rapid.SampledFrom(es).Draw(t, "prime_entry"), Big: big, Note: "prime"})
	}
	for len(c.Steps) < n {
		s := Step{Entry: rapid.SampledFrom(es).Draw(t, "entry")}
		if isJSON(s.Entry) {
			hostile := false
			for _, h := range hexEntries {
				if h == s.Entry {
					hostile = rapid.IntRange(0, 3).Draw(t, "hexhostile") == 0
				}
			}
			s.Text, s.Note = genJSONEntry(t, s.Entry, hostile)
		} else {
			var d []byte
			d, s.Note = genBinStep(t, s.Entry)
			s.Data = d
			s.Reader = rapid.SampledFrom(append([]string{"", "", "", "", "onebyte", "dataerr", "chunk", "fail"}, namedScriptKinds...)).Draw(t, "reader")
		}
		if rapid.IntRange(0, 24).Draw(t, "bigcut") == 0 && fam != "varint" {
			// a large input that ends early
			s = Step{Entry: s.Entry, Big: 300, Cut: rapid.IntRange(1, 3000).Draw(t, "cut_at"), Reader: s.Reader, Note: "big, cut"}
		}
		c.Steps = append(c.Steps, s)
	}
	return c
}

func TestReuse(t *testing.T) {
	pbt.Run(t, pbt.Sub[Reuse]{
		Name: "reuse", Quick: 30000, Thorough: 600000, Precommit: true,
		Gen:   genReuse,
		Check: checkReuse,
	})
}
