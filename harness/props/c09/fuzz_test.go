package c09

import (
	"encoding/hex"
	"encoding/json"
	"fmt"
	"os"
	"path/filepath"
	"runtime/debug"
	"testing"

	"verif/harness/pbt"
	"verif/harness/ref"
)

// valid transactions taken from /repo's own tests (tx_test.go)
var repoTxHex = []string{
	"010000000000000000ef01478a4ac0c8e4dae42db983bc720d95ed2099dec4c8c3f2d9eedfbeb74e18cdbb1b0100006b483045022100b05368f9855a28f21d3cb6f3e278752d3c5202f1de927862bbaaf5ef7d67adc50220728d4671cd4c34b1fa28d15d5cd2712b68166ea885522baa35c0b9e399fe9ed74121030d4ad284751daf629af387b1af30e02cf5794139c4e05836b43b1ca376624f7fffffffff10000000000000001976a9140c77a935b45abdcf3e472606d3bc647c5cc0efee88ac01000000000000000070006a0963657274696861736822314c6d763150594d70387339594a556e374d3948565473446b64626155386b514e4a406164386337373536356335363935353261626463636634646362353537376164633936633866613933623332663630373865353664666232326265623766353600000000",
	"01000000000100000000000000001a006a07707265666978310c6578616d706c65206461746102133700000000",
	"0100000001478a4ac0c8e4dae42db983bc720d95ed2099dec4c8c3f2d9eedfbeb74e18cdbb1b0100006b483045022100b05368f9855a28f21d3cb6f3e278752d3c5202f1de927862bbaaf5ef7d67adc50220728d4671cd4c34b1fa28d15d5cd2712b68166ea885522baa35c0b9e399fe9ed74121030d4ad284751daf629af387b1af30e02cf5794139c4e05836b43b1ca376624f7fffffffff01000000000000000070006a0963657274696861736822314c6d763150594d70387339594a556e374d3948565473446b64626155386b514e4a406164386337373536356335363935353261626463636634646362353537376164633936633866613933623332663630373865353664666232326265623766353600000000",
	"010000000193a35408b6068499e0d5abd799d3e827d9bfe70c9b75ebe209c91d2507232651000000006b483045022100c1d77036dc6cd1f3fa1214b0688391ab7f7a16cd31ea4e5a1f7a415ef167df820220751aced6d24649fa235132f1e6969e163b9400f80043a72879237dab4a1190ad412103b8b40a84123121d260f5c109bc5a46ec819c2e4002e5ba08638783bfb4e01435ffffffff02404b4c00000000001976a91404ff367be719efa79d76e4416ffb072cd53b208888acde94a905000000001976a91404d03f746652cfcb6cb55119ab473a045137d26588ac00000000",
}

// fuzzSeeds yields (entry index, input) pairs for the native fuzzer's corpus.
func fuzzSeeds(add func(uint8, []byte)) {
	idx := func(entry string) uint8 {
		for i, e := range entries {
			if e == entry {
				return uint8(i)
			}
		}
		panic("c09: no such entry " + entry)
	}
	var valid [][]byte
	for _, h := range repoTxHex {
		if b, err := hex.DecodeString(h); err == nil {
			valid = append(valid, b)
		}
	}
	// the first transactions of the block file shipped with the repository
	repo := os.Getenv("VERIF_REPO")
	if repo == "" {
		repo = "/repo"
	}
	if blk, err := os.ReadFile(filepath.Join(repo, "testing", "data", "tx", "bin", "block.bin")); err == nil && len(blk) > 10 {
		w := &walker{b: blk}
		if n, ok := w.varint(); ok {
			for i := uint64(0); i < n && i < 12; i++ {
				d, err := ref.Decode(blk[w.p:])
				if err != nil {
					break
				}
				if d.Consumed < 4000 {
					valid = append(valid, append([]byte{}, blk[w.p:w.p+d.Consumed]...))
				}
				w.p += d.Consumed
			}
		}
	}
	for _, b := range valid {
		for _, e := range txEntries {
			add(idx(e), b)
		}
		add(idx("Txs.ReadFrom"), append([]byte{1}, b...))
		add(idx("json:Tx"), []byte(`{"hex":"`+hex.EncodeToString(b)+`"}`))
		add(idx("json:Tx.NodeJSON"), []byte(`{"hex":"`+hex.EncodeToString(b)+`"}`))
	}
	// valid seeds for the other binary entry points + hostile prefixes
	for _, entry := range binEntries {
		for _, sd := range seeds() {
			e := baseFor(entry, sd.ms, sd.exts)
			add(idx(entry), e.b)
			for s := range e.sites {
				for _, cl := range []uint64{253, 1 << 16, 1 << 32, ^uint64(0)} {
					add(idx(entry), hostile(e, s, cl, 0, 0))
				}
			}
		}
	}
	// JSON: the all-valid document of every schema and the defect shapes of the ledger
	for _, entry := range jsonEntries {
		base, _ := render(schemaFor[entry], -1, "", false)
		add(idx(entry), []byte(base))
	}
	add(idx("json:Tx.NodeJSON"), []byte(`{"vin":[{"txid":"00","vout":0}]}`))
	add(idx("json:Tx.NodeJSON"), []byte(`{"vout":[{"value":1}]}`))
	add(idx("json:Output.NodeJSON"), []byte(`{"value":1}`))
}

// writeFuzzFailure stores the failing input as a replay file of sub-check
// "fuzz" (raw bytes + entry point) in $VERIF_FUZZ_OUT.
func writeFuzzFailure(entry string, data []byte, msg string) {
	dir := os.Getenv("VERIF_FUZZ_OUT")
	if dir == "" {
		return
	}
	cb, err := json.Marshal(Raw{Entry: entry, Data: data, Note: "found by FuzzDecode"})
	if err != nil {
		return
	}
	rf, _ := json.MarshalIndent(pbt.ReplayFile{Property: "C09", Sub: "fuzz", Error: msg, Case: cb}, "", " ")
	for n := 1; n < 100000; n++ {
		p := filepath.Join(dir, fmt.Sprintf("fuzzfail-%06d.json", n))
		fh, err := os.OpenFile(p, os.O_WRONLY|os.O_CREATE|os.O_EXCL, 0o644)
		if err != nil {
			if os.IsExist(err) {
				continue
			}
			return
		}
		_, _ = fh.Write(rf)
		_ = fh.Close()
		return
	}
}

// fuzzOne is the oracle as the fuzz target runs it (panics are turned into errors).
func fuzzOne(entry string, data []byte) (err error) {
	defer func() {
		if x := recover(); x != nil {
			err = fmt.Errorf("panic in %s on %s: %v\n%s", entry, head(data), x, debug.Stack())
		}
	}()
	return oracle(nil, entry, data)
}

// FuzzDecode is the native coverage-guided target of the thorough tier
// (go test -fuzz FuzzDecode): same oracle as the rapid sub-checks.
func FuzzDecode(f *testing.F) {
	fuzzSeeds(func(e uint8, b []byte) { f.Add(e, b) })
	f.Fuzz(func(t *testing.T, e uint8, data []byte) {
		entry := entries[int(e)%len(entries)]
		if err := fuzzOne(entry, data); err != nil {
			writeFuzzFailure(entry, data, err.Error())
			t.Fatalf("%v", err)
		}
	})
}

// TestFuzzSeedsHold runs the fuzz corpus seeds through the oracle in the
// ordinary tiers too (sharded like an enumeration), so a seed that fails is
// reported with a replay file even when native fuzzing is not run.
func TestFuzzSeedsHold(t *testing.T) {
	pbt.Run(t, pbt.Sub[Raw]{
		Name: "fuzzseeds", Precommit: true,
		Check:    checkRaw,
		EnumDesc: "every seed of the FuzzDecode corpus (valid transactions from /repo's tests and block file, hostile prefixes, JSON documents)",
		Enum: func(tier string, yield func(Raw)) {
			fuzzSeeds(func(e uint8, b []byte) { yield(Raw{Entry: entries[e], Data: b, Note: "fuzz corpus seed"}) })
		},
	})
}
