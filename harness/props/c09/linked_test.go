package c09

// Sub-check "linked" (round 8): lists whose elements refer to EACH OTHER. A
// transaction list - binary (Txs.ReadFrom) or node JSON (elements given as "hex" or
// field by field) - in which later transactions spend outputs of earlier ones of the
// same list: the previous txid of their inputs is the real id (reversed SHA-256d of
// the standard encoding, computed by the harness) of an earlier element. Output index:
// valid, == output count, count+1, 2^31, 2^32-1, mixed; one or many (up to thousands
// of) inputs naming ONE large output, in one spending transaction or spread over
// many; chains (grandchildren); standard and extended format; plus the control shape
// in which the inputs name a transaction that is not in the list. Oracle: the one of
// all C09 sub-checks (no panic, reported <= delivered, allocation <= bound(len)).
// The case stores the parameters, not the bytes.

import (
	"crypto/sha256"
	"encoding/hex"
	"fmt"
	"runtime"
	"runtime/debug"
	"strings"
	"testing"

	"pgregory.net/rapid"

	"verif/harness/pbt"
	"verif/harness/ref"
)

// Linked is the case type of sub-check "linked".
type Linked struct {
	Entry      string `json:"entry"`   // Txs.ReadFrom | json:Txs.NodeJSON
	Dialect    string `json:"dialect"` // JSON: hex | fields
	ParentOuts int    `json:"parent_outs"`
	BigScript  int    `json:"big_script"` // length of the locking script of the parent's output 0
	Spenders   int    `json:"spenders"`   // inputs that name the parent
	PerTx      int    `json:"per_tx"`     // how many of them per spending transaction
	Index      string `json:"index"`      // valid | big-output | eq-count | count+1 | 2^31 | max | mixed
	ParentExt  bool   `json:"parent_ext"`
	SpendExt   bool   `json:"spend_ext"`
	Chain      int    `json:"chain"`     // further generations, each spending output 0 of the transaction before it
	Unrelated  bool   `json:"unrelated"` // control: the inputs name a transaction outside the list
}

func sha256dC09(b []byte) []byte {
	a := sha256.Sum256(b)
	c := sha256.Sum256(a[:])
	return c[:]
}

func txidOf(m ref.Tx) pbt.Hex { return pbt.Hex(ref.Reverse(sha256dC09(ref.Encode(m, false)))) }

func (c Linked) models() ([]ref.Tx, []bool) {
	parent := ref.Tx{Version: 1, LockTime: 0, In: []ref.In{{TxID: fixed(32, 9), Vout: 3, Seq: 0xffffffff, Unlock: fixed(4, 2), PrevSats: 5000, PrevScript: fixed(25, 3)}}}
	for i := 0; i < c.ParentOuts; i++ {
		n := 25
		if i == 0 {
			n = c.BigScript
		}
		parent.Out = append(parent.Out, ref.Out{Sats: 546 + uint64(i), Script: fixed(n, i+1)})
	}
	ms, exts := []ref.Tx{parent}, []bool{c.ParentExt}
	named := txidOf(parent)
	if c.Unrelated {
		named = fixed(32, 77)
	}
	index := func(k int) uint32 {
		kind := c.Index
		if kind == "mixed" {
			kind = []string{"valid", "big-output", "eq-count", "count+1", "2^31", "max"}[k%6]
		}
		switch kind {
		case "big-output":
			return 0
		case "eq-count":
			return uint32(c.ParentOuts)
		case "count+1":
			return uint32(c.ParentOuts) + 1
		case "2^31":
			return 1 << 31
		case "max":
			return 0xffffffff
		}
		if c.ParentOuts == 0 {
			return 0
		}
		return uint32(k % c.ParentOuts)
	}
	per := c.PerTx
	if per < 1 {
		per = 1
	}
	for k := 0; k < c.Spenders; {
		tx := ref.Tx{Version: 2, LockTime: uint32(k)}
		for j := 0; j < per && k < c.Spenders; j, k = j+1, k+1 {
			tx.In = append(tx.In, ref.In{TxID: named, Vout: index(k), Seq: uint32(k), Unlock: fixed(k%3, k), PrevSats: uint64(k), PrevScript: fixed(k%2, k)})
		}
		tx.Out = []ref.Out{{Sats: 1, Script: fixed(3, k)}}
		ms, exts = append(ms, tx), append(exts, c.SpendExt)
	}
	for g := 0; g < c.Chain; g++ {
		prev := ms[len(ms)-1]
		tx := ref.Tx{Version: 3, LockTime: uint32(g), In: []ref.In{{TxID: txidOf(prev), Vout: uint32(g % 2), Seq: 1, Unlock: fixed(2, g), PrevSats: 1, PrevScript: fixed(1, g)}}, Out: []ref.Out{{Sats: 2, Script: fixed(5, g)}}}
		ms, exts = append(ms, tx), append(exts, c.SpendExt && g%2 == 0)
	}
	return ms, exts
}

func nodeFields(m ref.Tx) string {
	var vin, vout []string
	for _, in := range m.In {
		vin = append(vin, fmt.Sprintf(`{"scriptSig":{"asm":"","hex":"%x"},"txid":"%x","vout":%d,"sequence":%d}`, []byte(in.Unlock), []byte(in.TxID), in.Vout, in.Seq))
	}
	for i, o := range m.Out {
		vout = append(vout, fmt.Sprintf(`{"value":%d.%08d,"n":%d,"scriptPubKey":{"asm":"","hex":"%x","type":"nonstandard"}}`, o.Sats/100000000, o.Sats%100000000, i, []byte(o.Script)))
	}
	return fmt.Sprintf(`{"version":%d,"locktime":%d,"vin":[%s],"vout":[%s]}`, m.Version, m.LockTime, strings.Join(vin, ","), strings.Join(vout, ","))
}

func (c Linked) input() []byte {
	ms, exts := c.models()
	if c.Entry == "Txs.ReadFrom" {
		b := append([]byte{}, ref.VarInt(uint64(len(ms)))...)
		for i, m := range ms {
			b = append(b, ref.Encode(m, exts[i])...)
		}
		return b
	}
	var el []string
	for i, m := range ms {
		if c.Dialect == "fields" {
			el = append(el, nodeFields(m))
		} else {
			el = append(el, `{"hex":"`+hex.EncodeToString(ref.Encode(m, exts[i]))+`"}`)
		}
	}
	return []byte("[" + strings.Join(el, ",") + "]")
}

func checkLinked(ctx *pbt.Ctx, c Linked) error {
	if (c.Entry != "Txs.ReadFrom" && c.Entry != "json:Txs.NodeJSON") || c.ParentOuts < 0 || c.ParentOuts > 300 || c.BigScript < 0 || c.BigScript > 1<<20 ||
		c.Spenders < 0 || c.Spenders > 20000 || c.PerTx < 0 || c.Chain < 0 || c.Chain > 20 {
		ctx.Discard("invalid case")
		return nil
	}
	if c.Spenders*c.BigScript > 1<<22 {
		old := debug.SetGCPercent(100) // see reuse_test.go
		defer func() { debug.SetGCPercent(old); runtime.GC() }()
	}
	data := c.input()
	ctx.Key([]byte(c.Entry), data)
	ctx.Label("index=" + c.Index)
	if isJSON(c.Entry) {
		ctx.Label("dialect=" + c.Dialect)
	}
	if c.Unrelated {
		ctx.Label("control: inputs name a transaction outside the list")
	} else {
		ctx.NonTrivial()
	}
	switch {
	case c.Spenders >= 1000:
		ctx.Label("spenders>=1000")
	case c.Spenders >= 100:
		ctx.Label("spenders>=100")
	case c.Spenders > 1:
		ctx.Label("spenders>1")
	}
	if c.BigScript >= 10000 {
		ctx.Label("large spent output")
	}
	if c.Chain > 0 {
		ctx.Label("chain")
	}
	ctx.Labelf("formats parent-ext=%v spend-ext=%v", c.ParentExt, c.SpendExt)
	return oracle(ctx, c.Entry, data)
}

var linkIndexKinds = []string{"valid", "big-output", "eq-count", "count+1", "2^31", "max", "mixed"}

func TestLinked(t *testing.T) {
	pbt.Run(t, pbt.Sub[Linked]{
		Name: "linked", Quick: 6000, Thorough: 100000, Precommit: true,
		Check: checkLinked,
		Gen: func(t *rapid.T) Linked {
			c := Linked{Entry: rapid.SampledFrom([]string{"Txs.ReadFrom", "json:Txs.NodeJSON"}).Draw(t, "entry"), Dialect: rapid.SampledFrom([]string{"hex", "fields"}).Draw(t, "dialect"),
				ParentOuts: rapid.SampledFrom([]int{0, 1, 1, 2, 3, 5}).Draw(t, "parent_outs"), BigScript: rapid.SampledFrom([]int{0, 1, 25, 300, 5000, 50000}).Draw(t, "big_script"),
				Spenders: rapid.SampledFrom([]int{1, 1, 2, 3, 10, 100, 400}).Draw(t, "spenders"), PerTx: rapid.SampledFrom([]int{1, 1, 2, 7, 1000}).Draw(t, "per_tx"),
				Index: rapid.SampledFrom(linkIndexKinds).Draw(t, "index"), ParentExt: rapid.Bool().Draw(t, "parent_ext"), SpendExt: rapid.Bool().Draw(t, "spend_ext"),
				Chain: rapid.SampledFrom([]int{0, 0, 1, 3}).Draw(t, "chain"), Unrelated: rapid.IntRange(0, 7).Draw(t, "unrelated") == 0}
			return c
		},
		EnumDesc: "{Txs.ReadFrom, node JSON list with hex elements, node JSON list field by field} x output index {valid, the large output, == count, count+1, 2^31, 2^32-1, mixed} x parent / spenders in {standard, extended} x {1, 3, 300} spending inputs (one per transaction, and all in one transaction) x spent script of {25, 1000} bytes x {no chain, two more generations}; and the many-spenders-of-one-large-output shapes: 300 / 2000 inputs naming a 20 000-byte output through Txs.ReadFrom, 6000 inputs naming a 200 000-byte output and 8000 naming a 300 000-byte one in a node JSON list of hex elements, 2000 naming a 100 000-byte output field by field, each also as the control shape whose inputs name a transaction outside the list",
		Enum: func(tier string, yield func(Linked)) {
			for _, ed := range [][2]string{{"Txs.ReadFrom", ""}, {"json:Txs.NodeJSON", "hex"}, {"json:Txs.NodeJSON", "fields"}} {
				for _, ix := range linkIndexKinds {
					for f := 0; f < 4; f++ {
						for _, sp := range []int{1, 3, 300} {
							for _, per := range []int{1, 1000} {
								for _, big := range []int{25, 1000} {
									for _, chain := range []int{0, 2} {
										yield(Linked{Entry: ed[0], Dialect: ed[1], ParentOuts: 2, BigScript: big, Spenders: sp, PerTx: per, Index: ix, ParentExt: f&1 == 1, SpendExt: f&2 == 2, Chain: chain})
									}
								}
							}
						}
					}
				}
			}
			for _, unrelated := range []bool{false, true} {
				for _, ext := range []bool{false, true} {
					for _, per := range []int{1, 100000} {
						yield(Linked{Entry: "Txs.ReadFrom", ParentOuts: 1, BigScript: 20000, Spenders: 300, PerTx: per, Index: "big-output", SpendExt: ext, Unrelated: unrelated})
						yield(Linked{Entry: "Txs.ReadFrom", ParentOuts: 2, BigScript: 20000, Spenders: 2000, PerTx: per, Index: "big-output", SpendExt: ext, Unrelated: unrelated})
						yield(Linked{Entry: "json:Txs.NodeJSON", Dialect: "fields", ParentOuts: 1, BigScript: 100000, Spenders: 2000, PerTx: per, Index: "big-output", Unrelated: unrelated})
					}
					yield(Linked{Entry: "json:Txs.NodeJSON", Dialect: "hex", ParentOuts: 1, BigScript: 200000, Spenders: 6000, PerTx: 100000, Index: "big-output", SpendExt: ext, Unrelated: unrelated})
					yield(Linked{Entry: "json:Txs.NodeJSON", Dialect: "hex", ParentOuts: 2, BigScript: 300000, Spenders: 8000, PerTx: 100000, Index: "big-output", ParentExt: ext, Unrelated: unrelated})
				}
			}
		},
	})
}
