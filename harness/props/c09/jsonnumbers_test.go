package c09

// Sub-check "jsonnumbers" (round 7): every NUMERIC field of every JSON dialect the
// decoders accept (version, lock time, vout, sequence, satoshis, node "value" / "n" /
// "size" / "reqSigs" / "amount", in objects and in list elements) is written as a
// number that is cheap to write and expensive to take literally: exponent notation
// with exponents 10^3 .. 6*10^8 (positive and negative), digit strings of 10^3 ..
// 10^6 digits (integer and fraction), and values just beyond the field's range; all
// other fields valid, with and without a valid "hex" field next to it. Oracle: the one
// of all C09 sub-checks (no panic, allocation <= 1024 x len(document) + 256 KiB).
// The case stores (entry, field, form, magnitude), not the document.

import (
	"encoding/hex"
	"strconv"
	"strings"
	"testing"

	"pgregory.net/rapid"

	"verif/harness/pbt"
	"verif/harness/ref"
)

// NumCase is the case type of sub-check "jsonnumbers".
type NumCase struct {
	Entry   string `json:"entry"`
	Field   int    `json:"field"` // which numeric leaf of the schema (in document order, modulo their number)
	WithHex bool   `json:"with_hex"`
	Form    string `json:"form"` // exp | negexp | bigexp-neg | digits | fraction | zeros-exp | beyond
	Mag     int    `json:"mag"`  // exponent, number of digits, or index of the out-of-range value
	Neg     bool   `json:"neg,omitempty"`
}

var beyondValues = []string{"4294967295", "4294967296", "-1", "18446744073709551615", "18446744073709551616", "9223372036854775807", "9223372036854775808", "-9223372036854775809",
	"184467440737.09551615", "184467440737.09551616", "184467440737.1", "1e20", "1.7976931348623157e308", "1.8e308", "4.9e-324", "1e-400", "21000000.000000001", "0.000000005", "-0.00000001"}

func numberText(c NumCase) string {
	sign := ""
	if c.Neg {
		sign = "-"
	}
	m := c.Mag
	if m < 0 {
		m = 0
	}
	switch c.Form {
	case "exp":
		return sign + "1e" + strconv.Itoa(m)
	case "negexp":
		return sign + "1e-" + strconv.Itoa(m)
	case "mantissa-exp":
		return sign + "9.87654321E+" + strconv.Itoa(m)
	case "zeros-exp":
		return sign + "0e" + strconv.Itoa(m)
	case "digits":
		return sign + "1" + strings.Repeat("0", m)
	case "nines":
		return sign + strings.Repeat("9", m+1)
	case "fraction":
		return sign + "0." + strings.Repeat("0", m) + "1"
	case "long-fraction":
		return sign + "1." + strings.Repeat("3", m+1)
	default:
		return beyondValues[m%len(beyondValues)]
	}
}

var numForms = []string{"exp", "negexp", "mantissa-exp", "zeros-exp", "digits", "nines", "fraction", "long-fraction", "beyond"}

func isNumeric(k kind) bool { return k == kUint || k == kInt || k == kFloat }

func countNumeric(n *node) int {
	switch n.k {
	case kObj:
		c := 0
		for _, fl := range n.fields {
			c += countNumeric(fl.n)
		}
		return c
	case kArr:
		return countNumeric(n.elem)
	}
	if isNumeric(n.k) {
		return 1
	}
	return 0
}

// renderNumber writes the all-valid document of the schema in which numeric leaf
// number target carries text; a valid transaction hex is included on request.
func renderNumber(n *node, target int, text string, withHex bool) (string, string) {
	counter := 0
	name := ""
	validHex := `"` + hex.EncodeToString(ref.Encode(seeds()[0].ms[0], false)) + `"`
	var rec func(n *node, path string) string
	rec = func(n *node, path string) string {
		switch n.k {
		case kObj:
			var parts []string
			for _, fl := range n.fields {
				if fl.n.k == kTxHex {
					if withHex {
						parts = append(parts, q(fl.name)+":"+validHex)
					}
					continue
				}
				parts = append(parts, q(fl.name)+":"+rec(fl.n, path+"."+fl.name))
			}
			return "{" + strings.Join(parts, ",") + "}"
		case kArr:
			return "[" + rec(n.elem, path+"[]") + "]"
		}
		if isNumeric(n.k) {
			me := counter
			counter++
			if me == target {
				name = path
				return text
			}
		}
		return fixedLeaf(n.k)
	}
	return rec(n, ""), name
}

func checkNum(ctx *pbt.Ctx, c NumCase) error {
	sch := schemaFor[c.Entry]
	if sch == nil || c.Field < 0 || c.Mag < 0 || c.Mag > 1_000_000_000 {
		ctx.Discard("invalid case")
		return nil
	}
	switch c.Form {
	case "digits", "nines", "fraction", "long-fraction":
		if c.Mag > 2_000_000 {
			ctx.Discard("invalid case: digit count")
			return nil
		}
	}
	nn := countNumeric(sch)
	if nn == 0 {
		ctx.Discard("schema without numeric field")
		return nil
	}
	doc, name := renderNumber(sch, c.Field%nn, numberText(c), c.WithHex)
	ctx.Key([]byte(c.Entry), []byte(doc))
	ctx.Label("field=" + strings.TrimPrefix(c.Entry, "json:") + name)
	ctx.Label("form=" + c.Form)
	if c.WithHex {
		ctx.Label("hex-present")
	}
	switch {
	case c.Form == "beyond":
	case c.Mag >= 100_000_000:
		ctx.Label("magnitude>=10^8")
	case c.Mag >= 100_000:
		ctx.Label("magnitude>=10^5")
	case c.Mag >= 1000:
		ctx.Label("magnitude>=10^3")
	}
	ctx.NonTrivial()
	return oracle(ctx, c.Entry, []byte(doc))
}

func TestJSONNumbers(t *testing.T) {
	pbt.Run(t, pbt.Sub[NumCase]{
		Name: "jsonnumbers", Quick: 12000, Thorough: 200000, Precommit: true,
		Check: checkNum,
		Gen: func(t *rapid.T) NumCase {
			c := NumCase{Entry: rapid.SampledFrom(jsonEntries).Draw(t, "entry"), Field: rapid.IntRange(0, 15).Draw(t, "field"), WithHex: rapid.Bool().Draw(t, "with_hex"),
				Form: rapid.SampledFrom(numForms).Draw(t, "form"), Neg: rapid.IntRange(0, 5).Draw(t, "neg") == 0}
			switch c.Form {
			case "exp", "negexp", "mantissa-exp", "zeros-exp":
				p := rapid.IntRange(3, 8).Draw(t, "pow10")
				c.Mag = rapid.IntRange(1, 9).Draw(t, "lead")
				for i := 0; i < p; i++ {
					c.Mag *= 10
				}
				if c.Mag > 600_000_000 {
					c.Mag = 600_000_000
				}
				c.Mag += rapid.IntRange(-1, 1).Draw(t, "d")
			case "beyond":
				c.Mag = rapid.IntRange(0, len(beyondValues)-1).Draw(t, "which")
			default:
				c.Mag = rapid.SampledFrom([]int{20, 40, 309, 400, 1000, 5000, 20000, 100000}).Draw(t, "ndigits")
			}
			return c
		},
		EnumDesc: "every numeric field of the 9 JSON entry points x {hex absent, valid hex present} x {1eN, -1eN, 9.87654321E+N, 0eN, 1e-N for N in 10^3, 10^5, 10^7, 10^8, 6*10^8; 10^3 / 10^5 / 10^6-digit integers (1000.., 999..) and fractions; 19 values at and just beyond the uint32 / uint64 / int64 / float64 / 2^64-satoshi limits}",
		Enum: func(tier string, yield func(NumCase)) {
			for _, entry := range jsonEntries {
				for f := 0; f < countNumeric(schemaFor[entry]); f++ {
					for _, wh := range []bool{false, true} {
						for _, e := range []int{1000, 100000, 10000000, 100000000, 600000000} {
							for _, form := range []string{"exp", "negexp", "mantissa-exp", "zeros-exp"} {
								yield(NumCase{Entry: entry, Field: f, WithHex: wh, Form: form, Mag: e})
							}
							yield(NumCase{Entry: entry, Field: f, WithHex: wh, Form: "exp", Mag: e, Neg: true})
						}
						for _, d := range []int{1000, 100000, 1000000} {
							for _, form := range []string{"digits", "nines", "fraction", "long-fraction"} {
								yield(NumCase{Entry: entry, Field: f, WithHex: wh, Form: form, Mag: d})
							}
						}
						for i := range beyondValues {
							yield(NumCase{Entry: entry, Field: f, WithHex: wh, Form: "beyond", Mag: i})
						}
					}
				}
			}
		},
	})
}

