package c09

// Sub-check "wrapclaims" (round 5): hostile count / length values whose PRODUCT
// with a small element size wraps around 2^64 (or 2^63 / 2^32), so that a
// plausibility test of the form count*elementSize <= bytesRemaining is passed by a
// count that is absurd - k = ceil(2^64/m)+d, small multiples of it, and the same
// around 2^63 and 2^32, for element sizes m = 2..256 and some larger ones - placed at
// every varint site, followed by 0 / 2 / 25 / 41 / 64 / 600 real bytes, and delivered
// through readers WITH a Len() method (bytes.Reader, bytes.Buffer, strings.Reader:
// a decoder can ask them how much is left) and WITHOUT one. Oracle: the one of all
// C09 sub-checks.

import (
	"bufio"
	"bytes"
	"encoding/hex"
	"fmt"
	"io"
	"strings"
	"testing"
	"testing/iotest"

	"github.com/libsv/go-bt/v2"
	"pgregory.net/rapid"

	"verif/harness/gen"
	"verif/harness/pbt"
)

// Wrap is the case type of sub-check "wrapclaims".
type Wrap struct {
	Entry  string  `json:"entry"`
	Data   pbt.Hex `json:"data"`
	Reader string  `json:"reader,omitempty"` // reader-based entry points: bytes.Reader | bytes.Buffer | strings.Reader | nolen | onebyte
	Note   string  `json:"note,omitempty"`
}

var wrapReaders = []string{"bytes.Reader", "bytes.Buffer", "strings.Reader", "nolen", "onebyte"}

func ceilPow(pow uint, m uint64) uint64 {
	if pow >= 64 {
		return ^uint64(0)/m + 1 // ceil(2^64/m) for m >= 2
	}
	return (uint64(1)<<pow + m - 1) / m
}

// element sizes beyond 2..256 worth trying (sizes of in-memory structs, of typical
// serialised inputs / outputs, powers of two)
var extraSizes = []uint64{296, 320, 384, 512, 1000, 1024, 4096, 65536}

func isReaderEntry(entry string) bool {
	switch entry {
	case "Tx.ReadFrom", "Txs.ReadFrom", "Input.ReadFrom", "Input.ReadFromExtended", "Output.ReadFrom", "VarInt.ReadFrom":
		return true
	}
	return false
}

// countingAt counts what an io.ReaderAt hands over.
type countingAt struct {
	r *bytes.Reader
	n int64
}

func (c *countingAt) ReadAt(p []byte, off int64) (int, error) {
	n, err := c.r.ReadAt(p, off)
	c.n += int64(n)
	return n, err
}

// lyingLen is a reader whose Len() has nothing to do with what it holds.
type lyingLen struct {
	io.Reader
	claim int
}

func (l lyingLen) Len() int { return l.claim }

// lyingSize is a reader with a Size() method (like io.SectionReader) that overstates.
type lyingSize struct {
	io.Reader
	claim int64
}

func (l lyingSize) Size() int64 { return l.claim }

// readerKinds: the dynamic type of the reader is an axis of its own (append only).
var readerKinds = []string{"bytes.Reader", "bytes.Buffer", "strings.Reader", "nolen", "onebyte",
	"bufio", "section-overstated", "section-exact", "lying-len", "lying-len-negative", "lying-size", "limit", "multi", "half", "dataerr",
	// round 9, behaviours played by the scripted reader (behaviour_test.go: namedScript)
	"pause-each", "pause-each-onebyte", "pause-bytereader", "eofdata-7", "faildata-mid", "faildata-end"}

// runReader is run() of c09_test.go for the reader-based entry points with a
// chosen kind of reader; bytes delivered = what the source has handed over.
func runReader(entry, kind string, data []byte, meter func() uint64) (outcome, uint64) {
	var out outcome
	var r io.Reader
	var delivered func() int64
	src := bytes.NewReader(data)
	cnt := &countingReader{r: src}
	viaCnt := func() int64 { return cnt.n }
	switch kind {
	case "bytes.Buffer":
		b := bytes.NewBuffer(append([]byte{}, data...))
		r, delivered = b, func() int64 { return int64(len(data) - b.Len()) }
	case "strings.Reader":
		s := strings.NewReader(string(data))
		r, delivered = s, func() int64 { return int64(len(data) - s.Len()) }
	case "nolen":
		r, delivered = cnt, viaCnt
	case "onebyte":
		r, delivered = iotest.OneByteReader(cnt), viaCnt
	case "half":
		r, delivered = iotest.HalfReader(cnt), viaCnt
	case "dataerr":
		r, delivered = iotest.DataErrReader(cnt), viaCnt
	case "bufio":
		r, delivered = bufio.NewReaderSize(cnt, 16), viaCnt // may read ahead: delivered is what it pulled from the source
	case "limit":
		r, delivered = io.LimitReader(cnt, 1<<62), viaCnt
	case "multi":
		a, b := &countingReader{r: bytes.NewReader(data[:len(data)/2])}, &countingReader{r: bytes.NewReader(data[len(data)/2:])}
		r, delivered = io.MultiReader(a, b), func() int64 { return a.n + b.n }
	case "section-overstated", "section-exact":
		at := &countingAt{r: src}
		size := int64(len(data))
		if kind == "section-overstated" {
			size = 1 << 62 // a section declared over a file that turns out to be shorter
		}
		r, delivered = io.NewSectionReader(at, 0, size), func() int64 { return at.n }
	case "lying-len":
		r, delivered = lyingLen{cnt, 1 << 40}, viaCnt
	case "lying-len-negative":
		r, delivered = lyingLen{cnt, -1}, viaCnt
	case "lying-size":
		r, delivered = lyingSize{cnt, 1 << 40}, viaCnt
	default:
		if sc, ok := namedScript(kind, len(data)); ok {
			sr, core := gen.C09NewScriptReader(data, sc)
			r, delivered = sr, func() int64 { return core.Delivered }
			break
		}
		r, delivered = src, func() int64 { return int64(len(data) - src.Len()) }
	}
	var call func()
	switch entry {
	case "Tx.ReadFrom":
		tx := &bt.Tx{}
		call = func() { out.reported, out.err = tx.ReadFrom(r) }
	case "Txs.ReadFrom":
		txs := &bt.Txs{}
		call = func() { out.reported, out.err = txs.ReadFrom(r) }
	case "Input.ReadFrom":
		in := &bt.Input{}
		call = func() { out.reported, out.err = in.ReadFrom(r) }
	case "Input.ReadFromExtended":
		in := &bt.Input{}
		call = func() { out.reported, out.err = in.ReadFromExtended(r) }
	case "Output.ReadFrom":
		o := &bt.Output{}
		call = func() { out.reported, out.err = o.ReadFrom(r) }
	case "VarInt.ReadFrom":
		v := new(bt.VarInt)
		call = func() { out.reported, out.err = v.ReadFrom(r) }
	default:
		panic("c09 wrapclaims: not a reader entry " + entry)
	}
	out.hasReported = true
	a0 := meter()
	call()
	a1 := meter()
	out.delivered = delivered()
	return out, a1 - a0
}

func checkWrap(ctx *pbt.Ctx, c Wrap) error {
	if !knownEntry(c.Entry) {
		ctx.Discard("unknown entry point in replay file")
		return nil
	}
	data := []byte(c.Data)
	if !isReaderEntry(c.Entry) {
		// byte-slice and JSON entry points read through their own bytes.Reader (a Len reader)
		ctx.Key([]byte(c.Entry), data)
		ctx.Label("reader=internal")
		if isJSON(c.Entry) {
			data = []byte(`{"hex":"` + hex.EncodeToString(data) + `"}`)
			if c.Entry == "json:Txs.NodeJSON" {
				data = []byte("[" + string(data) + "]")
			}
		} else if over, _, _ := classify(c.Entry, data); over {
			ctx.Label("field-exceeds-remaining")
		}
		ctx.NonTrivial()
		return oracle(ctx, c.Entry, data)
	}
	kind := c.Reader
	ok := false
	for _, k := range readerKinds {
		ok = ok || k == kind
	}
	if !ok {
		ctx.Discard("invalid case: reader")
		return nil
	}
	ctx.Key([]byte(c.Entry+"/"+kind), data)
	ctx.Label("entry=" + c.Entry)
	ctx.Label("reader=" + kind)
	if over, _, _ := classify(c.Entry, data); over {
		ctx.Label("field-exceeds-remaining")
	}
	ctx.NonTrivial()
	out, alloc := runReader(c.Entry, kind, data, meterFast)
	if out.reported > out.delivered || out.reported < 0 {
		return fmt.Errorf("%s on a %s reported %d bytes consumed but took only %d from it (input %d bytes: %s; err: %v)", c.Entry, kind, out.reported, out.delivered, len(data), head(data), out.err)
	}
	if bound := allocBound(c.Entry, len(data)); alloc > bound {
		_, exact := runReader(c.Entry, kind, data, meterExact)
		if exact > bound {
			return fmt.Errorf("%s on a %s allocated %d bytes (exact re-measurement; first reading %d) while decoding a %d-byte input (bound %d): %s; err: %v", c.Entry, kind, exact, alloc, len(data), bound, head(data), out.err)
		}
		ctx.Label("alloc-meter-noise")
	}
	if out.err == nil {
		ctx.Label("decoded-ok")
	} else {
		ctx.Label("decode-error")
	}
	return nil
}

// padded keeps `keep` bytes of what followed the claim (-1: everything) and, for
// keep >= 600, fills up with zero bytes so that that many bytes really follow.
func padded(e *enc, s int, claim uint64, keep int) []byte {
	if keep >= 600 {
		d := hostile(e, s, claim, 0, -1)
		return append(d, make([]byte, keep)...)
	}
	return hostile(e, s, claim, 0, keep)
}

var wrapEntries = []string{"NewTxFromBytes", "NewTxFromStream", "Tx.ReadFrom", "Txs.ReadFrom", "Input.ReadFrom", "Input.ReadFromExtended", "Output.ReadFrom", "json:Tx", "json:Tx.NodeJSON", "json:Txs.NodeJSON"}

// baseEntry is the binary entry point whose layout the bytes of entry follow.
func baseEntry(entry string) string {
	if isJSON(entry) {
		return "NewTxFromBytes"
	}
	return entry
}

func TestWrapClaims(t *testing.T) {
	pbt.Run(t, pbt.Sub[Wrap]{
		Name: "wrapclaims", Quick: 30000, Thorough: 600000, Precommit: true,
		Check: checkWrap,
		Gen: func(t *rapid.T) Wrap {
			entry := rapid.SampledFrom(wrapEntries).Draw(t, "entry")
			ms, exts := genModels(t)
			e := baseFor(baseEntry(entry), ms, exts)
			s := rapid.IntRange(0, len(e.sites)-1).Draw(t, "site")
			m := uint64(rapid.IntRange(2, 300).Draw(t, "m"))
			if rapid.IntRange(0, 7).Draw(t, "m_big") == 0 {
				m = rapid.SampledFrom(extraSizes).Draw(t, "m_extra")
			}
			pow := rapid.SampledFrom([]uint{64, 64, 64, 63, 32}).Draw(t, "pow")
			j := uint64(rapid.IntRange(1, 8).Draw(t, "j"))
			if rapid.IntRange(0, 3).Draw(t, "j1") != 0 {
				j = 1
			}
			d := rapid.IntRange(-2, 2).Draw(t, "d")
			claim := j*ceilPow(pow, m) + uint64(int64(d))
			keep := rapid.SampledFrom([]int{0, 2, 25, 41, 64, 600, 600, 2000, -1}).Draw(t, "keep")
			c := Wrap{Entry: entry, Data: padded(e, s, claim, keep), Note: fmt.Sprintf("site %d of %d announces %d*ceil(2^%d/%d)%+d = %d, keep %d", s, len(e.sites), j, pow, m, d, claim, keep)}
			if isReaderEntry(entry) {
				c.Reader = rapid.SampledFrom(readerKinds).Draw(t, "reader")
			}
			return c
		},
		EnumDesc: "2 seed inputs (standard; extended) per entry point {NewTxFromBytes, NewTxFromStream, Tx.ReadFrom, Txs.ReadFrom, Input.ReadFrom, Input.ReadFromExtended, Output.ReadFrom, json:Tx, json:Tx.NodeJSON, json:Txs.NodeJSON} x every varint site x element sizes m = 2..256 and {296, 320, 384, 512, 1000, 1024, 4096, 65536} x claims {ceil(2^64/m)-1, ceil(2^64/m), ceil(2^64/m)+1, ceil(2^63/m), ceil(2^32/m)} with everything that followed kept plus 600 zero bytes (for m in {9, 41, 10, 148, 180} also with 0 / 2 / 25 / 41 / 64 bytes kept); reader-based entry points on a reader with Len() (bytes.Reader, bytes.Buffer, strings.Reader in turn) and on one without",
		Enum: func(tier string, yield func(Wrap)) {
			var sizes []uint64
			for m := uint64(2); m <= 256; m++ {
				sizes = append(sizes, m)
			}
			sizes = append(sizes, extraSizes...)
			idx := 0
			for _, entry := range wrapEntries {
				for si, sd := range seeds()[:2] {
					e := baseFor(baseEntry(entry), sd.ms, sd.exts)
					for s := range e.sites {
						for _, m := range sizes {
							keeps := []int{600}
							switch m {
							case 9, 10, 41, 148, 180:
								keeps = []int{600, 0, 2, 25, 41, 64}
							}
							for _, cl := range []uint64{ceilPow(64, m) - 1, ceilPow(64, m), ceilPow(64, m) + 1, ceilPow(63, m), ceilPow(32, m)} {
								for _, keep := range keeps {
									c := Wrap{Entry: entry, Data: padded(e, s, cl, keep), Note: fmt.Sprintf("seed %d site %d m %d claim %d keep %d", si, s, m, cl, keep)}
									if isReaderEntry(entry) {
										idx++
										c.Reader = wrapReaders[idx%3]
										yield(c)
										c.Reader = "nolen"
									}
									yield(c)
								}
							}
						}
					}
				}
			}
		},
	})
}
