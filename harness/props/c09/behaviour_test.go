package c09

// Sub-check "behaviour" (round 9): not the dynamic type of the reader (sub-check
// "readers") but HOW it hands over its bytes is the axis. Every behaviour the
// io.Reader contract allows is played by a scripted reader (harness/gen/c09_readers.go)
// over valid, truncated, hostile and random inputs for every reader-based entry point:
// a read answered (0, nil) at offset k - for every k, i.e. in front of every field and
// every varint byte -, an empty read before every data read, data in odd chunk sizes,
// the last bytes arriving together with io.EOF, a non-EOF failure after k bytes on its
// own call or together with the last data (n > 0, err), and the same on a reader that
// also offers ReadByte. An empty read delivers nothing and an error that comes with
// data still delivers that data, so the oracle is the one of all C09 sub-checks: no
// panic, 0 <= bytes reported <= bytes the reader really handed over, allocation <=
// bound(len(input)).

import (
	"fmt"
	"io"
	"testing"

	"github.com/libsv/go-bt/v2"
	"pgregory.net/rapid"

	"verif/harness/gen"
	"verif/harness/pbt"
	"verif/harness/ref"
)

// Behave is the case type of sub-check "behaviour".
type Behave struct {
	Entry  string        `json:"entry"`
	Data   pbt.Hex       `json:"data"`
	Script gen.C09Script `json:"script"`
	Note   string        `json:"note,omitempty"`
}

var behaveEntries = []string{"Tx.ReadFrom", "Txs.ReadFrom", "Input.ReadFrom", "Input.ReadFromExtended", "Output.ReadFrom", "VarInt.ReadFrom"}

// callOn returns the metered call of a reader-based entry point on a fresh receiver.
func callOn(entry string, r io.Reader, out *outcome) func() {
	switch entry {
	case "Tx.ReadFrom":
		tx := &bt.Tx{}
		return func() { out.reported, out.err = tx.ReadFrom(r) }
	case "Txs.ReadFrom":
		txs := &bt.Txs{}
		return func() { out.reported, out.err = txs.ReadFrom(r) }
	case "Input.ReadFrom":
		in := &bt.Input{}
		return func() { out.reported, out.err = in.ReadFrom(r) }
	case "Input.ReadFromExtended":
		in := &bt.Input{}
		return func() { out.reported, out.err = in.ReadFromExtended(r) }
	case "Output.ReadFrom":
		o := &bt.Output{}
		return func() { out.reported, out.err = o.ReadFrom(r) }
	case "VarInt.ReadFrom":
		v := new(bt.VarInt)
		return func() { out.reported, out.err = v.ReadFrom(r) }
	}
	panic("c09 behaviour: not a reader entry " + entry)
}

func runScripted(entry string, data []byte, s gen.C09Script, meter func() uint64) (outcome, uint64, *gen.C09ScriptReader) {
	var out outcome
	r, core := gen.C09NewScriptReader(data, s)
	call := callOn(entry, r, &out)
	out.hasReported = true
	a0 := meter()
	call()
	a1 := meter()
	out.delivered = core.Delivered
	return out, a1 - a0, core
}

func checkBehave(ctx *pbt.Ctx, c Behave) error {
	if !isReaderEntry(c.Entry) || !c.Script.Valid() {
		ctx.Discard("invalid case: entry / script")
		return nil
	}
	data := []byte(c.Data)
	ctx.Key([]byte(c.Entry), data, []byte(fmt.Sprintf("%+v", c.Script)))
	ctx.Label("entry=" + c.Entry)
	ctx.Label("script=" + c.Script.Name())
	if over, _, _ := classify(c.Entry, data); over {
		ctx.Label("field-exceeds-remaining")
	}
	out, alloc, core := runScripted(c.Entry, data, c.Script, meterFast)
	what := fmt.Sprintf("%s on a reader that %s", c.Entry, describeScript(c.Script))
	if out.reported > out.delivered || out.reported < 0 {
		return fmt.Errorf("%s reported %d bytes consumed but the reader handed over only %d (input %d bytes: %s; err: %v)", what, out.reported, out.delivered, len(data), head(data), out.err)
	}
	if bound := allocBound(c.Entry, len(data)); alloc > bound {
		_, exact, _ := runScripted(c.Entry, data, c.Script, meterExact)
		if exact > bound {
			return fmt.Errorf("%s allocated %d bytes (exact re-measurement; first reading %d) while decoding a %d-byte input (bound %d): %s; err: %v", what, exact, alloc, len(data), bound, head(data), out.err)
		}
		ctx.Label("alloc-meter-noise")
	}
	if core.Empties > 0 {
		ctx.Label("an empty read was answered")
		ctx.NonTrivial()
	}
	if c.Script.EOFWithData || c.Script.Fail {
		ctx.NonTrivial()
	}
	if out.err == nil {
		ctx.Label("decoded-ok")
	} else {
		ctx.Label("decode-error")
	}
	return nil
}

func describeScript(s gen.C09Script) string {
	d := ""
	if len(s.EmptyAt) > 0 {
		d += fmt.Sprintf("answers one read with (0, nil) at offset(s) %v, ", s.EmptyAt)
	}
	if s.EmptyEvery > 0 {
		d += fmt.Sprintf("answers every read no. %d*i with (0, nil), ", s.EmptyEvery)
	}
	if len(s.Chunks) > 0 {
		d += fmt.Sprintf("hands over at most %v bytes per read (cycled), ", s.Chunks)
	}
	if s.EOFWithData {
		d += "returns io.EOF together with the last bytes, "
	}
	if s.Fail {
		if s.FailWithData {
			d += fmt.Sprintf("fails with a non-EOF error together with the bytes that end at offset %d, ", s.FailAt)
		} else {
			d += fmt.Sprintf("fails with a non-EOF error after %d bytes, ", s.FailAt)
		}
	}
	if s.ByteReader {
		d += "is an io.ByteReader too, "
	}
	if d == "" {
		return "reads plainly"
	}
	return d[:len(d)-2]
}

// namedScript gives the fixed behaviours that the string-keyed reader kinds of the
// sub-checks readers / wrapclaims / reuse refer to (n = length of the input).
func namedScript(kind string, n int) (gen.C09Script, bool) {
	switch kind {
	case "pause-each":
		return gen.C09Script{EmptyEvery: 2}, true
	case "pause-each-onebyte":
		return gen.C09Script{EmptyEvery: 2, Chunks: []int{1}}, true
	case "pause-bytereader":
		return gen.C09Script{EmptyEvery: 2, Chunks: []int{3}, ByteReader: true}, true
	case "eofdata-7":
		return gen.C09Script{EOFWithData: true, Chunks: []int{7}}, true
	case "faildata-mid":
		return gen.C09Script{Fail: true, FailAt: n / 2, FailWithData: true, Chunks: []int{5}}, true
	case "faildata-end":
		return gen.C09Script{Fail: true, FailAt: n, FailWithData: true}, true
	}
	return gen.C09Script{}, false
}

var namedScriptKinds = []string{"pause-each", "pause-each-onebyte", "pause-bytereader", "eofdata-7", "faildata-mid", "faildata-end"}

func behaveSeedInput(entry string, si int) []byte {
	sd := seeds()[si]
	if entry == "VarInt.ReadFrom" {
		return ref.VarIntWidth(uint64(0x0102030405060708)>>(uint(si)*16), []int{9, 5, 3, 1}[si])
	}
	return baseFor(entry, sd.ms, sd.exts).b
}

func TestBehaviour(t *testing.T) {
	pbt.Run(t, pbt.Sub[Behave]{
		Name: "behaviour", Quick: 30000, Thorough: 600000, Precommit: true,
		Check: checkBehave,
		Gen: func(t *rapid.T) Behave {
			entry := rapid.SampledFrom(behaveEntries).Draw(t, "entry")
			c := Behave{Entry: entry}
			switch rapid.IntRange(0, 5).Draw(t, "how") {
			case 0, 1, 2: // valid
				ms, exts := genModels(t)
				c.Data, c.Note = baseFor(entry, ms, exts).b, "valid"
			case 3: // truncated / empty
				ms, exts := genModels(t)
				d := baseFor(entry, ms, exts).b
				c.Data, c.Note = d[:rapid.IntRange(0, len(d)).Draw(t, "cut")], "truncated"
			case 4:
				if entry == "VarInt.ReadFrom" {
					c.Data, c.Note = gen.BytesUpTo(t, 12, "bytes"), "random"
				} else {
					c.Data, c.Note = genHostileBytes(t, entry)
				}
			default:
				c.Data, c.Note = gen.BytesUpTo(t, 60, "bytes"), "random"
			}
			c.Script = gen.C09GenScript(t, len(c.Data), true)
			return c
		},
		EnumDesc: "4 seed inputs per reader-based entry point {Tx.ReadFrom, Txs.ReadFrom, Input.ReadFrom, Input.ReadFromExtended, Output.ReadFrom, VarInt.ReadFrom} (quick: 2) and the empty input x {one (0, nil) read at EVERY offset 0..len, with plain and with one-byte reads; an empty read before every data read; the last bytes together with io.EOF for read sizes all / 1 / 7, also on an io.ByteReader; a non-EOF failure at EVERY offset 0..len on its own call, together with the last data, and together with the last data of one-byte reads}",
		Enum: func(tier string, yield func(Behave)) {
			nseeds := 2
			if tier == "thorough" {
				nseeds = 4
			}
			for _, entry := range behaveEntries {
				for si := 0; si < nseeds; si++ {
					d := behaveSeedInput(entry, si)
					for _, s := range gen.C09EnumScripts(len(d), true) {
						yield(Behave{Entry: entry, Data: d, Script: s, Note: fmt.Sprintf("seed %d", si)})
					}
				}
				for _, s := range gen.C09EnumScripts(0, true) {
					yield(Behave{Entry: entry, Data: nil, Script: s, Note: "empty input"})
				}
			}
		},
	})
}
