package c09

import (
	"fmt"
	"testing"

	"pgregory.net/rapid"

	"verif/harness/pbt"
	"verif/harness/ref"
)

// ---------------------------------------------------------------------------
// sub-check: honest-large (tenth round). "Memory allocated while decoding is proportional to the
// size of the input" also has to hold when nothing lies: a script of many MiB that is really there.
// The hostile sub-checks keep inputs small and let the length fields lie; here the length prefix is
// honest and every byte is delivered. A decoder that re-allocates its buffer chunk by chunk costs
// L^2 / (2 x chunk) bytes for a script of L bytes - invisible at 64 KiB, 5 x the input at 1 MiB and
// beyond the bound only from about 10 MiB on. Enumerated: one script of 1 / 6 / 20 MiB (thorough:
// 40 MiB too) as unlocking script, locking script or extended-format previous script, through the
// binary entry points. Same oracle as everywhere in C09 (no panic, reported <= delivered,
// allocation <= 64 x input + 256 KiB, re-measured exactly before it is reported).
// ---------------------------------------------------------------------------

// Large describes the input by numbers; the bytes are built when the case runs.
type Large struct {
	Entry string `json:"entry"`
	Bytes int    `json:"bytes"` // length of the one large script
	Where string `json:"where"` // unlock | lock | prev
}

func (c Large) build() []byte {
	big := make(pbt.Hex, c.Bytes)
	for i := range big {
		big[i] = byte(i*7 + i>>11)
	}
	id := make(pbt.Hex, 32)
	id[0] = 9
	m := ref.Tx{Version: 1, In: []ref.In{{TxID: id, Vout: 1, Seq: 0xffffffff, Unlock: pbt.Hex{0x51}, PrevSats: 5, PrevScript: pbt.Hex{0x52}}},
		Out: []ref.Out{{Sats: 1, Script: pbt.Hex{0x53}}}}
	ext := false
	switch c.Where {
	case "unlock":
		m.In[0].Unlock = big
	case "lock":
		m.Out[0].Script = big
	default:
		m.In[0].PrevScript, ext = big, true
	}
	e := &enc{}
	switch c.Entry {
	case "Txs.ReadFrom":
		e.vi(1)
		e.tx(m, ext)
	case "Input.ReadFrom":
		e.input(m.In[0], false)
	case "Input.ReadFromExtended":
		e.input(m.In[0], true)
	case "Output.ReadFrom":
		e.output(m.Out[0])
	default:
		e.tx(m, ext)
	}
	return e.b
}

func checkLarge(ctx *pbt.Ctx, c Large) error {
	if !knownEntry(c.Entry) || isJSON(c.Entry) || c.Bytes < 0 || c.Bytes > 64<<20 {
		ctx.Discard("malformed case")
		return nil
	}
	data := c.build()
	ctx.Labelf("size=%dMiB", c.Bytes>>20)
	ctx.Label("where=" + c.Where)
	ctx.NonTrivial()
	ctx.Key([]byte(fmt.Sprint(c)))
	return oracle(ctx, c.Entry, data)
}

func TestHonestLarge(t *testing.T) {
	pbt.Run(t, pbt.Sub[Large]{
		Name: "honest-large", Quick: 12, Thorough: 24,
		Gen: func(t *rapid.T) Large {
			return Large{Entry: rapid.SampledFrom(txEntries).Draw(t, "entry"), Bytes: rapid.IntRange(1<<20, 3<<20).Draw(t, "bytes"),
				Where: rapid.SampledFrom([]string{"unlock", "lock", "prev"}).Draw(t, "where")}
		},
		Check:    checkLarge,
		EnumDesc: "one script of 1 / 6 / 20 MiB (thorough: 40 MiB) x {unlocking, locking, extended previous script} x the binary entry points that can carry it",
		Enum: func(tier string, yield func(Large)) {
			sizes := []int{1 << 20, 6 << 20, 20 << 20}
			if tier == "thorough" {
				sizes = append(sizes, 40<<20)
			}
			for _, n := range sizes {
				for _, e := range []string{"NewTxFromBytes", "NewTxFromStream", "Tx.ReadFrom", "Txs.ReadFrom"} {
					for _, w := range []string{"unlock", "lock", "prev"} {
						yield(Large{Entry: e, Bytes: n, Where: w})
					}
				}
				yield(Large{Entry: "Input.ReadFrom", Bytes: n, Where: "unlock"})
				yield(Large{Entry: "Input.ReadFromExtended", Bytes: n, Where: "prev"})
				yield(Large{Entry: "Output.ReadFrom", Bytes: n, Where: "lock"})
			}
		},
	})
}
