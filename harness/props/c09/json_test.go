package c09

import (
	"encoding/hex"
	"encoding/json"
	"fmt"
	"strings"
	"testing"

	"pgregory.net/rapid"

	"verif/harness/gen"
	"verif/harness/pbt"
	"verif/harness/ref"
)

// ---------------------------------------------------------------------------
// grammar over the real field names (txjson.go, txjson_node.go, utxojson.go)

type kind int

const (
	kString kind = iota
	kScriptHex
	kTxidHex
	kTxHex
	kUint
	kInt
	kFloat
	kObj
	kArr
)

type fld struct {
	name string
	n    *node
}

type node struct {
	k      kind
	fields []fld
	elem   *node
}

func leaf(k kind) *node          { return &node{k: k} }
func obj(f ...fld) *node         { return &node{k: kObj, fields: f} }
func arr(e *node) *node          { return &node{k: kArr, elem: e} }
func f(name string, n *node) fld { return fld{name, n} }

var (
	inputJ  = obj(f("unlockingScript", leaf(kScriptHex)), f("txid", leaf(kTxidHex)), f("vout", leaf(kUint)), f("sequence", leaf(kUint)))
	outputJ = obj(f("satoshis", leaf(kUint)), f("lockingScript", leaf(kScriptHex)))
	txJ     = obj(f("txid", leaf(kTxidHex)), f("hex", leaf(kTxHex)), f("inputs", arr(inputJ)), f("outputs", arr(outputJ)), f("version", leaf(kUint)), f("lockTime", leaf(kUint)))
	utxoJ   = obj(f("txid", leaf(kTxidHex)), f("vout", leaf(kUint)), f("lockingScript", leaf(kScriptHex)), f("satoshis", leaf(kUint)))

	nodeSig   = obj(f("asm", leaf(kString)), f("hex", leaf(kScriptHex)))
	nodeIn    = obj(f("scriptSig", nodeSig), f("txid", leaf(kTxidHex)), f("vout", leaf(kUint)), f("sequence", leaf(kUint)))
	nodeSPK   = obj(f("asm", leaf(kString)), f("hex", leaf(kScriptHex)), f("reqSigs", leaf(kInt)), f("type", leaf(kString)))
	nodeOut   = obj(f("value", leaf(kFloat)), f("n", leaf(kInt)), f("scriptPubKey", nodeSPK))
	nodeTx    = obj(f("version", leaf(kUint)), f("locktime", leaf(kUint)), f("txid", leaf(kTxidHex)), f("hash", leaf(kString)), f("size", leaf(kInt)), f("hex", leaf(kTxHex)), f("vin", arr(nodeIn)), f("vout", arr(nodeOut)))
	nodeUTXO  = obj(f("txid", leaf(kTxidHex)), f("vout", leaf(kUint)), f("scriptPubKey", leaf(kScriptHex)), f("amount", leaf(kFloat)))
	schemaFor = map[string]*node{
		"json:Tx":              txJ,
		"json:Input":           inputJ,
		"json:Output":          outputJ,
		"json:UTXO":            utxoJ,
		"json:Tx.NodeJSON":     nodeTx,
		"json:Txs.NodeJSON":    arr(nodeTx),
		"json:Output.NodeJSON": nodeOut,
		"json:UTXO.NodeJSON":   nodeUTXO,
		"json:UTXOs.NodeJSON":  arr(nodeUTXO),
	}
)

var wrongValues = []string{"true", "false", "123", "-1", "1.5", `"str"`, `""`, "[]", "{}", "[1]", "[null]", `{"a":1}`, "[[]]"}

// ---------------------------------------------------------------------------
// classification of a document (non-triviality only)

type jsonClass struct {
	class         string // syntax-error | field-null-or-mistyped | well-typed
	omitsNested   bool   // a nested object (scriptSig / scriptPubKey / list element) is absent or null
	hexOverclaims bool   // an embedded transaction hex has a length/count field exceeding its data
}

func classifyJSON(entry string, data []byte) jsonClass {
	var v any
	if err := json.Unmarshal(data, &v); err != nil {
		return jsonClass{class: "syntax-error"}
	}
	c := jsonClass{class: "well-typed"}
	var walk func(n *node, v any, nested bool)
	bad := func(nested bool) {
		c.class = "field-null-or-mistyped"
		if nested {
			c.omitsNested = true
		}
	}
	walk = func(n *node, v any, nested bool) {
		switch n.k {
		case kObj:
			m, ok := v.(map[string]any)
			if !ok {
				bad(nested)
				return
			}
			for _, fl := range n.fields {
				fv, present := m[fl.name]
				if !present {
					if fl.n.k == kObj {
						c.omitsNested = true
					}
					continue
				}
				walk(fl.n, fv, fl.n.k == kObj)
			}
		case kArr:
			a, ok := v.([]any)
			if !ok {
				bad(false)
				return
			}
			for _, e := range a {
				walk(n.elem, e, n.elem.k == kObj)
			}
		case kUint, kInt, kFloat:
			if _, ok := v.(float64); !ok {
				bad(false)
			}
		default:
			s, ok := v.(string)
			if !ok {
				bad(false)
				return
			}
			if n.k == kTxHex {
				if b, err := hex.DecodeString(s); err == nil && len(b) > 0 {
					if over, _, _ := classify("NewTxFromBytes", b); over {
						c.hexOverclaims = true
					}
				}
			}
		}
	}
	walk(schemaFor[entry], v, false)
	return c
}

// ---------------------------------------------------------------------------
// generated documents

type jgen struct {
	t        *rapid.T
	allValid bool
	hostile  bool // transaction hex fields may carry hostile / truncated encodings (sub-check jsonhex)
}

func q(s string) string { b, _ := json.Marshal(s); return string(b) }

func (g *jgen) hexOf(maxLen int, label string) string {
	return hex.EncodeToString(gen.BytesUpTo(g.t, maxLen, label))
}

func (g *jgen) leafValue(k kind) string {
	t := g.t
	pick := func(label string, valid []string, other []string) string {
		if g.allValid || rapid.IntRange(0, 2).Draw(t, label+"_ok") > 0 {
			return rapid.SampledFrom(valid).Draw(t, label)
		}
		return rapid.SampledFrom(other).Draw(t, label)
	}
	switch k {
	case kString:
		return pick("str", []string{`""`, `"OP_DUP OP_HASH160"`, `"pubkeyhash"`, `"x"`}, []string{`"\u0000"`, `"\ud800"`, `"` + strings.Repeat("a", 300) + `"`})
	case kScriptHex:
		switch c := rapid.IntRange(0, 9).Draw(t, "scripthex_kind"); {
		case g.allValid || c < 6:
			return q(g.hexOf(40, "script"))
		case c == 6:
			return q(g.hexOf(10, "script") + "a")
		case c == 7:
			return q("zz" + g.hexOf(4, "script"))
		case c == 8:
			return q(strings.ToUpper(g.hexOf(20, "script")))
		default:
			return `""`
		}
	case kTxidHex:
		switch c := rapid.IntRange(0, 9).Draw(t, "txid_kind"); {
		case g.allValid || c < 6:
			return q(hex.EncodeToString(gen.Bytes(t, 32, "txid")))
		case c == 6:
			return q(g.hexOf(31, "txid_short"))
		case c == 7:
			return q(hex.EncodeToString(gen.Bytes(t, 33, "txid_long")))
		case c == 8:
			return q("xyz")
		default:
			return `""`
		}
	case kTxHex:
		c := rapid.IntRange(0, 9).Draw(t, "txhex_kind")
		if g.allValid && c >= 3 {
			c = 0
		}
		if !g.hostile && c >= 3 && c <= 7 {
			c = 8
		}
		switch {
		case c < 3:
			ms, exts := genModels(t)
			return q(hex.EncodeToString(ref.Encode(ms[0], exts[0])))
		case c < 7:
			b, _ := genHostileBytes(t, "NewTxFromBytes")
			return q(hex.EncodeToString(b))
		case c == 7:
			ms, exts := genModels(t)
			b := ref.Encode(ms[0], exts[0])
			return q(hex.EncodeToString(b[:rapid.IntRange(0, len(b)).Draw(t, "cut")]))
		case c == 8:
			return q(g.hexOf(60, "txhex_random"))
		default:
			return `""`
		}
	case kUint:
		return pick("uint", []string{"0", "1", "77", "4294967295", "546"}, []string{"4294967296", "18446744073709551615", "18446744073709551616", "-1", "1.5", "1e2", "1e400", "00"})
	case kInt:
		return pick("int", []string{"0", "1", "2", "225"}, []string{"-1", "2147483648", "9223372036854775807", "9223372036854775808", "1.5", "1e30"})
	default:
		return pick("float", []string{"0", "1e-8", "0.00000546", "20999999.9769", "1", "0.1"}, []string{"1e308", "1e400", "-1", "-1e308", "184467440737.09551616", "1e-400", "5e-324"})
	}
}

func (g *jgen) value(n *node, depth int) string {
	t := g.t
	if !g.allValid {
		switch rapid.IntRange(0, 13).Draw(t, "mode") {
		case 0:
			return "null"
		case 1:
			return rapid.SampledFrom(wrongValues).Draw(t, "wrong")
		}
	}
	switch n.k {
	case kObj:
		var parts []string
		for _, fl := range n.fields {
			absent := !g.allValid && rapid.IntRange(0, 5).Draw(t, "absent") == 0
			if fl.n.k == kTxHex {
				// a non-empty hex short-circuits everything else: mostly absent in the
				// field-oriented sub-check, always present in the hex-oriented one
				absent = !g.hostile && rapid.IntRange(0, 3).Draw(t, "hex_absent") != 0
			}
			if absent {
				continue
			}
			parts = append(parts, q(fl.name)+":"+g.value(fl.n, depth+1))
			if !g.allValid && rapid.IntRange(0, 24).Draw(t, "dup") == 0 {
				parts = append(parts, q(fl.name)+":"+g.value(fl.n, depth+1))
			}
		}
		if !g.allValid && rapid.IntRange(0, 11).Draw(t, "extra") == 0 {
			parts = append(parts, `"zzz":`+rapid.SampledFrom(wrongValues).Draw(t, "extra_val"))
		}
		return "{" + strings.Join(parts, ",") + "}"
	case kArr:
		cnt := rapid.IntRange(0, 3).Draw(t, "arrlen")
		var parts []string
		for i := 0; i < cnt; i++ {
			parts = append(parts, g.value(n.elem, depth+1))
		}
		return "[" + strings.Join(parts, ",") + "]"
	}
	return g.leafValue(n.k)
}

const asciiNoise = `{}[]",:0123456789abcdefnulltrue\ -.eE`

// hexEntries are the JSON entry points whose documents embed a whole transaction.
var hexEntries = []string{"json:Tx", "json:Tx.NodeJSON", "json:Txs.NodeJSON"}

func genJSON(t *rapid.T, hostile bool) Raw {
	es := jsonEntries
	if hostile {
		es = hexEntries
	}
	entry := rapid.SampledFrom(es).Draw(t, "entry")
	op := rapid.SampledFrom([]string{"grammar", "grammar", "grammar", "grammar", "grammar", "grammar", "valid", "valid+truncate", "valid+replace", "grammar+truncate", "toplevel"}).Draw(t, "op")
	g := &jgen{t: t, allValid: strings.HasPrefix(op, "valid"), hostile: hostile}
	text := g.value(schemaFor[entry], 0)
	switch op {
	case "valid+truncate", "grammar+truncate":
		text = text[:rapid.IntRange(0, len(text)).Draw(t, "cut")]
	case "valid+replace":
		if len(text) > 0 {
			b := []byte(text)
			b[rapid.IntRange(0, len(b)-1).Draw(t, "pos")] = asciiNoise[rapid.IntRange(0, len(asciiNoise)-1).Draw(t, "ch")]
			text = string(b)
		}
	case "toplevel":
		text = rapid.SampledFrom([]string{"", " ", "null", "0", `""`, "[]", "{}", "[null]", "[{}]", "[[]]", "{\"vin\":null,\"vout\":null}", "[null,{}]", "nul", "{", "[", `{"a"`, `{"hex":"00"}`, `{"hex":""}`}).Draw(t, "top")
	}
	// keep the stored text ASCII so that it survives the replay file unchanged
	if !isASCII(text) {
		text = "{}"
	}
	return Raw{Entry: entry, Text: text, Note: op}
}

func isASCII(s string) bool {
	for i := 0; i < len(s); i++ {
		if s[i] >= 0x80 {
			return false
		}
	}
	return true
}

// ---------------------------------------------------------------------------
// enumeration: every field of every schema, one deviation at a time

// fixedLeaf is the fixed valid value used by the enumeration.
func fixedLeaf(k kind) string {
	switch k {
	case kString:
		return `"x"`
	case kScriptHex:
		return `"76a914000102030405060708090a0b0c0d0e0f1011121388ac"`
	case kTxidHex:
		return `"` + strings.Repeat("ab", 32) + `"`
	case kUint, kInt:
		return "1"
	case kFloat:
		return "0.00000546"
	}
	return `""`
}

// hostileHexes are transaction hex strings whose length/count fields lie.
func hostileHexes() []string {
	var out []string
	sd := seeds()[0]
	e := baseFor("NewTxFromBytes", sd.ms, sd.exts)
	for s := range e.sites {
		for _, cl := range claims {
			out = append(out, `"`+hex.EncodeToString(hostile(e, s, cl, 0, 0))+`"`)
		}
	}
	return out
}

// render writes the document for schema n in which the target-th node (DFS
// preorder over fields and array elements) is replaced by dev ("" = absent).
// It returns the text and the number of nodes visited.
func render(n *node, target int, dev string, hasDev bool) (string, int) {
	counter := 0
	var rec func(n *node) (string, bool)
	rec = func(n *node) (string, bool) {
		me := counter
		counter++
		if hasDev && me == target {
			// still number the subtree so that indices are stable
			skip(n, &counter)
			if dev == "" {
				return "", false
			}
			return dev, true
		}
		switch n.k {
		case kObj:
			var parts []string
			for _, fl := range n.fields {
				if fl.n.k == kTxHex && !(hasDev && counter == target) {
					counter++ // hex stays absent unless it is the target
					continue
				}
				v, ok := rec(fl.n)
				if ok {
					parts = append(parts, q(fl.name)+":"+v)
				}
			}
			return "{" + strings.Join(parts, ",") + "}", true
		case kArr:
			v, ok := rec(n.elem)
			if !ok {
				return "[]", true
			}
			return "[" + v + "]", true
		}
		return fixedLeaf(n.k), true
	}
	s, ok := rec(n)
	if !ok {
		s = ""
	}
	return s, counter
}

func skip(n *node, counter *int) {
	switch n.k {
	case kObj:
		for _, fl := range n.fields {
			*counter++
			skip(fl.n, counter)
		}
	case kArr:
		*counter++
		skip(n.elem, counter)
	}
}

func nodeAt(n *node, target int) *node {
	counter := 0
	var found *node
	var rec func(n *node)
	rec = func(n *node) {
		if counter == target {
			found = n
		}
		counter++
		switch n.k {
		case kObj:
			for _, fl := range n.fields {
				rec(fl.n)
			}
		case kArr:
			rec(n.elem)
		}
	}
	rec(n)
	return found
}

func enumJSON(hostile bool) func(tier string, yield func(Raw)) {
	return func(tier string, yield func(Raw)) {
		hh := hostileHexes()
		for _, entry := range jsonEntries {
			sch := schemaFor[entry]
			base, total := render(sch, -1, "", false)
			if !hostile {
				yield(Raw{Entry: entry, Text: base, Note: "all fields valid, hex absent"})
			}
			for i := 0; i < total; i++ {
				devs := append([]string{"", "null"}, wrongValues...)
				if nd := nodeAt(sch, i); nd != nil && nd.k == kTxHex {
					devs = append(devs, `"`+hex.EncodeToString(ref.Encode(seeds()[0].ms[0], false))+`"`)
					if hostile {
						devs = hh
					}
				} else if hostile {
					continue
				}
				for _, dev := range devs {
					text, _ := render(sch, i, dev, true)
					yield(Raw{Entry: entry, Text: text, Note: fmt.Sprintf("node %d replaced by %q", i, dev)})
				}
			}
		}
	}
}

func TestJSON(t *testing.T) {
	pbt.Run(t, pbt.Sub[Raw]{
		Name: "json", Quick: 80000, Thorough: 1200000,
		Check:    checkRaw,
		Gen:      func(t *rapid.T) Raw { return genJSON(t, false) },
		EnumDesc: "for each of the 9 JSON entry points: the all-valid document and every document in which exactly one schema node (field, nested object, list, list element) is absent / null / one of 13 wrong-typed values",
		Enum:     enumJSON(false),
	})
}

// TestJSONHex is the part of the JSON search in which the embedded transaction
// hex is hostile (lying length/count fields, truncations): on an unrepaired
// tree such a document can kill the process, hence Precommit.
func TestJSONHex(t *testing.T) {
	pbt.Run(t, pbt.Sub[Raw]{
		Name: "jsonhex", Quick: 20000, Thorough: 300000, Precommit: true,
		Check:    checkRaw,
		Gen:      func(t *rapid.T) Raw { return genJSON(t, true) },
		EnumDesc: "for each JSON entry point with a hex field: that field set to every hostile transaction prefix of seed 0 (every varint site x 9 claims), all other fields valid",
		Enum:     enumJSON(true),
	})
}
