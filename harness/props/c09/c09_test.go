// Package c09 decides property C09: decoding untrusted bytes through any
// transaction / input / output / list / JSON decoding entry point is total (no
// panic), never reports more bytes consumed than it was handed, and allocates
// memory in proportion to the input, not to length or count fields inside it.
package c09

import (
	"bytes"
	"encoding/json"
	"fmt"
	"runtime"
	"runtime/metrics"
	"strings"
	"testing"

	"github.com/libsv/go-bt/v2"
	"pgregory.net/rapid"

	"verif/harness/gen"
	"verif/harness/pbt"
	"verif/harness/ref"
)

func TestMain(m *testing.M) { pbt.Main(m) }

// ---------------------------------------------------------------------------
// entry points

// Binary entry points, then JSON entry points. The order is part of the fuzz
// corpus format (FuzzDecode selects by index): append only.
var entries = []string{
	"NewTxFromBytes",
	"NewTxFromStream",
	"Tx.ReadFrom",
	"Txs.ReadFrom",
	"Input.ReadFrom",
	"Input.ReadFromExtended",
	"Output.ReadFrom",
	"VarInt.ReadFrom",
	"json:Tx",
	"json:Input",
	"json:Output",
	"json:UTXO",
	"json:Tx.NodeJSON",
	"json:Txs.NodeJSON",
	"json:Output.NodeJSON",
	"json:UTXO.NodeJSON",
	"json:UTXOs.NodeJSON",
}

var txEntries = []string{"NewTxFromBytes", "NewTxFromStream", "Tx.ReadFrom"}
var binEntries = entries[:8]
var jsonEntries = entries[8:]

func isJSON(entry string) bool { return strings.HasPrefix(entry, "json:") }

func knownEntry(entry string) bool {
	for _, e := range entries {
		if e == entry {
			return true
		}
	}
	return false
}

// Raw is the case type of every sub-check: an entry point and the bytes fed to it.
type Raw struct {
	Entry string  `json:"entry"`
	Data  pbt.Hex `json:"data,omitempty"`
	Text  string  `json:"text,omitempty"` // JSON documents are stored as text (used when data is empty)
	Note  string  `json:"note,omitempty"` // how the generator derived the input (informational)
}

func (c Raw) input() []byte {
	if len(c.Data) == 0 && c.Text != "" {
		return []byte(c.Text)
	}
	return []byte(c.Data)
}

// countingReader measures what the decoder is actually handed.
type countingReader struct {
	r *bytes.Reader
	n int64
}

func (c *countingReader) Read(p []byte) (int, error) {
	n, err := c.r.Read(p)
	c.n += int64(n)
	return n, err
}

type outcome struct {
	reported    int64 // bytes the entry point says it consumed
	hasReported bool
	delivered   int64 // bytes it was handed (counting reader) or len(input)
	err         error
}

// ---------------------------------------------------------------------------
// allocation meters

var (
	sample = []metrics.Sample{{Name: "/gc/heap/allocs:bytes"}}
	ms     runtime.MemStats
)

// meterFast reads the cumulative heap allocation counter without stopping the
// world. Small-object allocations are accounted when an mcache span is flushed,
// so a delta can be off by up to one span per size class in either direction;
// large objects (> 32 KiB) are exact.
func meterFast() uint64 {
	metrics.Read(sample)
	if sample[0].Value.Kind() != metrics.KindUint64 {
		return 0
	}
	return sample[0].Value.Uint64()
}

// meterExact stops the world and flushes all mcaches: exact.
func meterExact() uint64 {
	runtime.ReadMemStats(&ms)
	return ms.TotalAlloc
}

const (
	slack      = 256 << 10
	binFactor  = 64
	jsonFactor = 1024 // see ASSUMPTIONS.txt: encoding/json needs a decodeState (+ reflection) per nested Unmarshal call
)

func allocBound(entry string, n int) uint64 {
	if isJSON(entry) {
		return uint64(jsonFactor)*uint64(n) + slack
	}
	return uint64(binFactor)*uint64(n) + slack
}

// run feeds data to the entry point. Everything the harness itself needs is
// allocated before the first meter reading; between the two readings only the
// library call (and the allocation-free counting reader) runs.
func run(entry string, data []byte, meter func() uint64) (outcome, uint64) {
	var out outcome
	cr := &countingReader{r: bytes.NewReader(data)}
	var call func()
	switch entry {
	case "NewTxFromBytes":
		call = func() { _, out.err = bt.NewTxFromBytes(data) }
	case "NewTxFromStream":
		call = func() {
			var used int
			_, used, out.err = bt.NewTxFromStream(data)
			out.reported, out.hasReported, out.delivered = int64(used), true, int64(len(data))
		}
	case "Tx.ReadFrom":
		tx := &bt.Tx{}
		call = func() { out.reported, out.err = tx.ReadFrom(cr); out.hasReported = true }
	case "Txs.ReadFrom":
		txs := &bt.Txs{}
		call = func() { out.reported, out.err = txs.ReadFrom(cr); out.hasReported = true }
	case "Input.ReadFrom":
		in := &bt.Input{}
		call = func() { out.reported, out.err = in.ReadFrom(cr); out.hasReported = true }
	case "Input.ReadFromExtended":
		in := &bt.Input{}
		call = func() { out.reported, out.err = in.ReadFromExtended(cr); out.hasReported = true }
	case "Output.ReadFrom":
		o := &bt.Output{}
		call = func() { out.reported, out.err = o.ReadFrom(cr); out.hasReported = true }
	case "VarInt.ReadFrom":
		v := new(bt.VarInt)
		call = func() { out.reported, out.err = v.ReadFrom(cr); out.hasReported = true }
	case "json:Tx":
		tx := bt.NewTx()
		call = func() { out.err = json.Unmarshal(data, tx) }
	case "json:Input":
		in := &bt.Input{}
		call = func() { out.err = json.Unmarshal(data, in) }
	case "json:Output":
		o := &bt.Output{}
		call = func() { out.err = json.Unmarshal(data, o) }
	case "json:UTXO":
		u := &bt.UTXO{}
		call = func() { out.err = json.Unmarshal(data, u) }
	case "json:Tx.NodeJSON":
		w := bt.NewTx().NodeJSON()
		call = func() { out.err = json.Unmarshal(data, w) }
	case "json:Txs.NodeJSON":
		var txs bt.Txs
		w := txs.NodeJSON()
		call = func() { out.err = json.Unmarshal(data, w) }
	case "json:Output.NodeJSON":
		w := (&bt.Output{}).NodeJSON()
		call = func() { out.err = json.Unmarshal(data, w) }
	case "json:UTXO.NodeJSON":
		w := (&bt.UTXO{}).NodeJSON()
		call = func() { out.err = json.Unmarshal(data, w) }
	case "json:UTXOs.NodeJSON":
		var us bt.UTXOs
		w := us.NodeJSON()
		call = func() { out.err = json.Unmarshal(data, w) }
	default:
		panic("c09: unknown entry " + entry)
	}
	a0 := meter()
	call()
	a1 := meter()
	if out.hasReported && entry != "NewTxFromStream" {
		out.delivered = cr.n
	}
	return out, a1 - a0
}

// oracle runs one (entry, data) pair and returns a description of a violation.
// Panics propagate to the caller (pbt turns them into violations with a stack;
// the fuzz target recovers them itself).
func oracle(ctx *pbt.Ctx, entry string, data []byte) error {
	out, alloc := run(entry, data, meterFast)
	if out.hasReported && (out.reported > out.delivered || out.reported < 0) {
		return fmt.Errorf("%s reported %d bytes consumed but was handed only %d (input %d bytes: %s; err: %v)", entry, out.reported, out.delivered, len(data), head(data), out.err)
	}
	if bound := allocBound(entry, len(data)); alloc > bound {
		// confirm with the exact (stop-the-world) counter before calling it a violation
		_, exact := run(entry, data, meterExact)
		if exact > bound {
			return fmt.Errorf("%s allocated %d bytes (exact re-measurement; first reading %d) while decoding a %d-byte input (bound %d = %dx input + 256 KiB): %s; err: %v", entry, exact, alloc, len(data), bound, bound/uint64(max(len(data), 1)), head(data), out.err)
		}
		if ctx != nil {
			ctx.Label("alloc-meter-noise")
		}
	}
	if ctx != nil {
		ctx.Label("entry=" + entry)
		if out.err == nil {
			ctx.Label("decoded-ok")
		} else {
			ctx.Label("decode-error")
		}
	}
	return nil
}

func head(b []byte) string {
	if len(b) <= 120 {
		return fmt.Sprintf("%x", b)
	}
	return fmt.Sprintf("%x...(%d bytes)", b[:120], len(b))
}

// ---------------------------------------------------------------------------
// independent structure walker: does a length / count field claim more than
// the bytes that remain? (decides non-triviality; never consulted as an oracle)

type walker struct {
	b     []byte
	p     int
	over  bool // some length/count field exceeded what was left
	short bool // input ended inside a fixed-size field
}

func (w *walker) left() uint64 { return uint64(len(w.b) - w.p) }

func (w *walker) take(n uint64) bool {
	if n > w.left() {
		w.short = true
		w.p = len(w.b)
		return false
	}
	w.p += int(n)
	return true
}

func (w *walker) varint() (uint64, bool) {
	if !w.take(1) {
		return 0, false
	}
	f := w.b[w.p-1]
	width := map[byte]int{0xfd: 2, 0xfe: 4, 0xff: 8}[f]
	if width == 0 {
		return uint64(f), true
	}
	if !w.take(uint64(width)) {
		return 0, false
	}
	var v uint64
	for i := 0; i < width; i++ {
		v |= uint64(w.b[w.p-width+i]) << (8 * uint(i))
	}
	return v, true
}

func (w *walker) claim(v, unit uint64) {
	if v > w.left()/unit {
		w.over = true
	}
}

func (w *walker) script() bool {
	l, ok := w.varint()
	if !ok {
		return false
	}
	w.claim(l, 1)
	return w.take(l)
}

func (w *walker) input(ext bool) bool {
	if !w.take(36) || !w.script() || !w.take(4) {
		return false
	}
	if ext {
		return w.take(8) && w.script()
	}
	return true
}

func (w *walker) output() bool { return w.take(8) && w.script() }

func (w *walker) tx() bool {
	if !w.take(4) {
		return false
	}
	nin, ok := w.varint()
	if !ok {
		return false
	}
	ext := false
	var nout uint64
	have := false
	if nin == 0 {
		if nout, ok = w.varint(); !ok {
			return false
		}
		have = true
		if nout == 0 {
			if !w.take(4) {
				return false
			}
			lt := w.b[w.p-4 : w.p]
			if !(lt[0] == 0 && lt[1] == 0 && lt[2] == 0 && lt[3] == 0xEF) {
				return true
			}
			ext, have = true, false
			if nin, ok = w.varint(); !ok {
				return false
			}
		}
	}
	w.claim(nin, 41)
	for i := uint64(0); i < nin; i++ {
		if !w.input(ext) {
			return false
		}
	}
	if !have {
		if nout, ok = w.varint(); !ok {
			return false
		}
	}
	w.claim(nout, 9)
	for i := uint64(0); i < nout; i++ {
		if !w.output() {
			return false
		}
	}
	return w.take(4)
}

func (w *walker) txs() bool {
	n, ok := w.varint()
	if !ok {
		return false
	}
	w.claim(n, 10)
	for i := uint64(0); i < n; i++ {
		if !w.tx() {
			return false
		}
	}
	return true
}

// classify walks data the way the entry point's format is laid out.
func classify(entry string, data []byte) (over, short, complete bool) {
	w := &walker{b: data}
	ok := false
	switch entry {
	case "NewTxFromBytes", "NewTxFromStream", "Tx.ReadFrom":
		ok = w.tx()
	case "Txs.ReadFrom":
		ok = w.txs()
	case "Input.ReadFrom":
		ok = w.input(false)
	case "Input.ReadFromExtended":
		ok = w.input(true)
	case "Output.ReadFrom":
		ok = w.output()
	case "VarInt.ReadFrom":
		_, ok = w.varint()
	}
	return w.over, w.short, ok
}

// ---------------------------------------------------------------------------
// the Check shared by all sub-checks

func checkRaw(ctx *pbt.Ctx, c Raw) error {
	if !knownEntry(c.Entry) {
		ctx.Discard("unknown entry point in replay file")
		return nil
	}
	data := c.input()
	ctx.Key([]byte(c.Entry), data)
	if isJSON(c.Entry) {
		cl := classifyJSON(c.Entry, data)
		ctx.Label("json-" + cl.class)
		if cl.omitsNested {
			ctx.Label("json-omits-nested-object")
		}
		if cl.omitsNested || cl.class == "field-null-or-mistyped" || cl.hexOverclaims {
			ctx.NonTrivial()
		}
		if cl.hexOverclaims {
			ctx.Label("json-hex-overclaims")
		}
	} else {
		over, short, complete := classify(c.Entry, data)
		switch {
		case over:
			ctx.Label("field-exceeds-remaining")
			ctx.NonTrivial()
		case short:
			ctx.Label("ends-inside-fixed-field")
		case complete:
			ctx.Label("well-formed")
		}
	}
	return oracle(ctx, c.Entry, data)
}

// ---------------------------------------------------------------------------
// encoders that remember where the varints are

type site struct{ off, width int }

type enc struct {
	b     []byte
	sites []site
}

func (e *enc) vi(v uint64) {
	x := ref.VarInt(v)
	e.sites = append(e.sites, site{len(e.b), len(x)})
	e.b = append(e.b, x...)
}

func (e *enc) u32(v uint32) { e.b = append(e.b, byte(v), byte(v>>8), byte(v>>16), byte(v>>24)) }
func (e *enc) u64(v uint64) { e.u32(uint32(v)); e.u32(uint32(v >> 32)) }

func (e *enc) input(in ref.In, ext bool) {
	e.b = append(e.b, ref.Reverse(in.TxID)...)
	e.u32(in.Vout)
	e.vi(uint64(len(in.Unlock)))
	e.b = append(e.b, in.Unlock...)
	e.u32(in.Seq)
	if ext {
		e.u64(in.PrevSats)
		e.vi(uint64(len(in.PrevScript)))
		e.b = append(e.b, in.PrevScript...)
	}
}

func (e *enc) output(o ref.Out) {
	e.u64(o.Sats)
	e.vi(uint64(len(o.Script)))
	e.b = append(e.b, o.Script...)
}

func (e *enc) tx(m ref.Tx, ext bool) {
	e.u32(m.Version)
	if ext {
		e.b = append(e.b, 0, 0, 0, 0, 0, 0xEF)
	}
	e.vi(uint64(len(m.In)))
	for _, in := range m.In {
		e.input(in, ext)
	}
	e.vi(uint64(len(m.Out)))
	for _, o := range m.Out {
		e.output(o)
	}
	e.u32(m.LockTime)
}

// baseFor builds a valid input for the entry point from models.
func baseFor(entry string, ms []ref.Tx, exts []bool) *enc {
	e := &enc{}
	m := ms[0]
	switch entry {
	case "Txs.ReadFrom":
		e.vi(uint64(len(ms)))
		for i := range ms {
			e.tx(ms[i], exts[i])
		}
	case "Input.ReadFrom", "Input.ReadFromExtended":
		in := ref.In{TxID: make(pbt.Hex, 32)}
		if len(m.In) > 0 {
			in = m.In[0]
		}
		e.input(in, entry == "Input.ReadFromExtended")
	case "Output.ReadFrom":
		o := ref.Out{}
		if len(m.Out) > 0 {
			o = m.Out[0]
		}
		e.output(o)
	case "VarInt.ReadFrom":
		e.vi(uint64(m.Version)<<16 | uint64(m.LockTime)) // any value: all four widths occur
	default:
		e.tx(m, exts[0])
	}
	return e
}

// claims are the element counts / lengths a hostile varint announces.
var claims = []uint64{253, 1 << 16, 1 << 24, 1 << 31, 1<<32 - 1, 1 << 32, 1 << 40, 1 << 63, ^uint64(0)}

// hostile rewrites varint site s of e to announce claim and keeps `keep` bytes
// of what followed (keep < 0: everything).
func hostile(e *enc, s int, claim uint64, width int, keep int) []byte {
	st := e.sites[s]
	out := append([]byte{}, e.b[:st.off]...)
	out = append(out, ref.VarIntWidth(claim, width)...)
	rest := e.b[st.off+st.width:]
	if keep >= 0 && keep < len(rest) {
		rest = rest[:keep]
	}
	return append(out, rest...)
}

// ---------------------------------------------------------------------------
// deterministic seed models (enumerations, fuzz corpus, regression seeds)

func fixed(n, salt int) pbt.Hex {
	b := make(pbt.Hex, n)
	for i := range b {
		b[i] = byte(i*7 + salt*13 + 1)
	}
	return b
}

func seedModel(nin, nout, slen, salt int) ref.Tx {
	m := ref.Tx{Version: uint32(1 + salt), LockTime: uint32(salt)}
	for i := 0; i < nin; i++ {
		m.In = append(m.In, ref.In{TxID: fixed(32, salt+i), Vout: uint32(i), Seq: 0xffffffff, Unlock: fixed(slen+i, salt), PrevSats: 1000 + uint64(i), PrevScript: fixed(slen, salt+1)})
	}
	for i := 0; i < nout; i++ {
		m.Out = append(m.Out, ref.Out{Sats: 546 + uint64(i), Script: fixed(slen+2*i, salt+2)})
	}
	return m
}

type seedT struct {
	ms   []ref.Tx
	exts []bool
}

func seeds() []seedT {
	a := seedModel(1, 1, 3, 1)
	b := seedModel(2, 2, 1, 2)
	c := seedModel(0, 0, 0, 3)
	d := seedModel(0, 1, 2, 4)
	return []seedT{
		{[]ref.Tx{a, b}, []bool{false, true}},
		{[]ref.Tx{b, c}, []bool{true, false}},
		{[]ref.Tx{c, a}, []bool{false, false}},
		{[]ref.Tx{d, d}, []bool{true, false}},
	}
}

// ---------------------------------------------------------------------------
// sub-check "hostile": crafted prefixes

func genModels(t *rapid.T) ([]ref.Tx, []bool) {
	o := gen.TxOpts{MinIn: 0, MaxIn: 3, MinOut: 0, MaxOut: 3, MaxScript: 80, ScriptEdges: []int{0, 1, 2, 75, 76}}
	n := rapid.IntRange(1, 3).Draw(t, "ntx")
	var ms []ref.Tx
	var exts []bool
	for i := 0; i < n; i++ {
		ms = append(ms, gen.Tx(t, o))
		exts = append(exts, rapid.Bool().Draw(t, "ext"))
	}
	return ms, exts
}

func genHostileBytes(t *rapid.T, entry string) ([]byte, string) {
	ms, exts := genModels(t)
	e := baseFor(entry, ms, exts)
	s := rapid.IntRange(0, len(e.sites)-1).Draw(t, "site")
	claim := rapid.SampledFrom(claims).Draw(t, "claim")
	if rapid.IntRange(0, 4).Draw(t, "claim_jitter") == 0 {
		claim += uint64(rapid.IntRange(-2, 2).Draw(t, "jitter"))
	}
	width := rapid.SampledFrom([]int{0, 0, 0, 9}).Draw(t, "width")
	keep := rapid.SampledFrom([]int{0, 0, 1, 2, 8, 40, -1}).Draw(t, "keep")
	if keep == 40 {
		keep = rapid.IntRange(0, 80).Draw(t, "keepn")
	}
	return hostile(e, s, claim, width, keep), fmt.Sprintf("site %d of %d claims %d, %d bytes kept behind it", s, len(e.sites), claim, keep)
}

func TestHostile(t *testing.T) {
	pbt.Run(t, pbt.Sub[Raw]{
		Name: "hostile", Quick: 70000, Thorough: 1200000, Precommit: true,
		Check: checkRaw,
		Gen: func(t *rapid.T) Raw {
			entry := rapid.SampledFrom(binEntries[:7]).Draw(t, "entry")
			d, note := genHostileBytes(t, entry)
			return Raw{Entry: entry, Data: d, Note: note}
		},
		EnumDesc: "4 seed inputs per entry point x every varint site x claims {253, 2^16, 2^24, 2^31, 2^32-1, 2^32, 2^40, 2^63, 2^64-1} x {0, 1, all} bytes kept behind the claim, for the 7 binary entry points that contain length/count fields",
		Enum: func(tier string, yield func(Raw)) {
			for _, entry := range binEntries[:7] {
				for si, sd := range seeds() {
					e := baseFor(entry, sd.ms, sd.exts)
					for s := range e.sites {
						for _, cl := range claims {
							for _, keep := range []int{0, 1, -1} {
								yield(Raw{Entry: entry, Data: hostile(e, s, cl, 0, keep), Note: fmt.Sprintf("seed %d site %d claims %d keep %d", si, s, cl, keep)})
							}
						}
					}
				}
			}
		},
	})
}

// ---------------------------------------------------------------------------
// sub-check "mutate": truncations and bit flips of valid encodings

func TestMutate(t *testing.T) {
	pbt.Run(t, pbt.Sub[Raw]{
		Name: "mutate", Quick: 80000, Thorough: 1500000,
		Check: checkRaw,
		Gen: func(t *rapid.T) Raw {
			entry := rapid.SampledFrom(binEntries).Draw(t, "entry")
			ms, exts := genModels(t)
			d := baseFor(entry, ms, exts).b
			op := rapid.SampledFrom([]string{"truncate", "truncate", "bitflip", "bitflip", "byteset", "2flips", "insert", "delete", "valid"}).Draw(t, "op")
			flip := func() {
				if len(d) > 0 {
					i := rapid.IntRange(0, len(d)*8-1).Draw(t, "bit")
					d[i/8] ^= 1 << uint(i%8)
				}
			}
			switch op {
			case "truncate":
				d = d[:rapid.IntRange(0, len(d)).Draw(t, "cut")]
			case "bitflip":
				flip()
			case "2flips":
				flip()
				flip()
			case "byteset":
				if len(d) > 0 {
					d[rapid.IntRange(0, len(d)-1).Draw(t, "pos")] = rapid.SampledFrom([]byte{0, 1, 0xfc, 0xfd, 0xfe, 0xff, 0xef, 0x80}).Draw(t, "val")
				}
			case "insert":
				i := rapid.IntRange(0, len(d)).Draw(t, "pos")
				v := rapid.SampledFrom([]byte{0, 0xfd, 0xfe, 0xff, 0xef}).Draw(t, "val")
				d = append(d[:i:i], append([]byte{v}, d[i:]...)...)
			case "delete":
				if len(d) > 0 {
					i := rapid.IntRange(0, len(d)-1).Draw(t, "pos")
					d = append(d[:i:i], d[i+1:]...)
				}
			}
			return Raw{Entry: entry, Data: d, Note: op}
		},
		EnumDesc: "4 seed inputs per binary entry point (transactions of 10..150 bytes, lists of two, single inputs/outputs/varints): every truncation point and every single-bit flip",
		Enum: func(tier string, yield func(Raw)) {
			for _, entry := range binEntries {
				for si, sd := range seeds() {
					base := baseFor(entry, sd.ms, sd.exts).b
					if entry == "VarInt.ReadFrom" {
						base = ref.VarIntWidth(uint64(0x0102030405060708)>>(uint(si)*16), []int{9, 5, 3, 1}[si])
					}
					for k := 0; k <= len(base); k++ {
						yield(Raw{Entry: entry, Data: append([]byte{}, base[:k]...), Note: fmt.Sprintf("seed %d truncated to %d of %d", si, k, len(base))})
					}
					for i := 0; i < len(base)*8; i++ {
						b := append([]byte{}, base...)
						b[i/8] ^= 1 << uint(i%8)
						yield(Raw{Entry: entry, Data: b, Note: fmt.Sprintf("seed %d bit %d flipped", si, i)})
					}
				}
			}
		},
	})
}

// ---------------------------------------------------------------------------
// sub-check "random": random bytes (plain, or behind a plausible header)

func TestRandom(t *testing.T) {
	pbt.Run(t, pbt.Sub[Raw]{
		Name: "random", Quick: 50000, Thorough: 800000,
		Check: checkRaw,
		Gen: func(t *rapid.T) Raw {
			entry := rapid.SampledFrom(binEntries).Draw(t, "entry")
			var d []byte
			note := "uniform"
			if rapid.Bool().Draw(t, "structured") {
				note = "header+random"
				switch entry {
				case "Txs.ReadFrom":
					d = append(d, rapid.SampledFrom([]byte{0, 1, 2, 3, 0xfd, 0xfe, 0xff}).Draw(t, "count"))
					fallthrough
				case "NewTxFromBytes", "NewTxFromStream", "Tx.ReadFrom":
					d = append(d, gen.Bytes(t, 4, "version")...)
					if rapid.Bool().Draw(t, "marker") {
						d = append(d, 0, 0, 0, 0, 0, 0xEF)
					}
					d = append(d, rapid.SampledFrom([]byte{0, 1, 1, 2, 3, 0xfd, 0xfe, 0xff}).Draw(t, "nin"))
				}
			}
			d = append(d, gen.BytesUpTo(t, 160, "bytes")...)
			return Raw{Entry: entry, Data: d, Note: note}
		},
	})
}

// ---------------------------------------------------------------------------
// sub-check "fuzz": no generator; exists so that inputs found by the native
// fuzz target FuzzDecode can be replayed with ./check C09 --replay.

func TestFuzzReplay(t *testing.T) {
	pbt.Run(t, pbt.Sub[Raw]{Name: "fuzz", Check: checkRaw})
}
