// Package c02 decides property C02 (FORKID / replay-protected signature hash).
package c02

import (
	"bytes"
	"fmt"
	"sync/atomic"
	"testing"

	"github.com/libsv/go-bt/v2/sighash"
	"pgregory.net/rapid"

	"verif/harness/gen"
	"verif/harness/pbt"
	"verif/harness/ref"
)

const subName = "forkid"

var (
	calib    ref.SigHashCalibration
	digests  atomic.Int64 // (index, type) pairs compared with the reference
	errCalls atomic.Int64 // (index, type) pairs where an error was expected and checked
)

func TestMain(m *testing.M) {
	// Calibration first: the reference must reproduce all 500 + 500 node vectors
	// or the run is a harness error (exit 2), never a verdict.
	calib = ref.MustCalibrateSigHash()
	if !pbt.Replaying() {
		pbt.SetExtra(subName, "calibration_vectors", calib.OKBIP143)
		pbt.SetExtra(subName, "calibration_vectors_legacy", calib.OKLegacy)
	}
	pbt.Main(m)
}

// Case is one transaction; the check runs every input index (in range and out
// of range) against all 128 hash types that carry the FORKID bit.
type Case struct {
	Src string `json:"src"`
	Tx  ref.Tx `json:"tx"` // an input with an empty txid is built as a zero-value bt.Input
}

// indices returns the input indices exercised for a transaction with n inputs.
func indices(n int) []uint32 {
	var idx []uint32
	if n <= 16 {
		for i := 0; i < n; i++ {
			idx = append(idx, uint32(i))
		}
	} else {
		// large shapes: a fixed spread (keeps one case in the tens of milliseconds)
		for _, i := range []int{0, 1, 2, n / 2, n - 2, n - 1} {
			idx = append(idx, uint32(i))
		}
	}
	return append(idx, uint32(n), uint32(n+1), 0xffffffff)
}

func check(ctx *pbt.Ctx, c Case) error {
	m := c.Tx
	n := len(m.In)
	tx, via := ref.ToLibLoose(m), "built"
	if allTxIDs32(m) {
		tx, via = ref.ToLibVia(m)
	}
	ctx.Label("object=" + via)
	before := ref.Snapshot(tx)

	anyNoTxID := -1
	for i, in := range m.In {
		if len(in.TxID) == 0 {
			anyNoTxID = i
		}
	}
	small := n+len(m.Out) <= 16

	nontrivial := n != len(m.Out)
	ctx.Labelf("nin=%s", countClass(n))
	ctx.Labelf("nout=%s", countClass(len(m.Out)))
	ctx.Label("src=" + c.Src)
	for i, o := range m.Out {
		if len(o.Script) >= 65535 {
			ctx.Labelf("huge_output:first=%v:over256k=%v", i == 0, len(o.Script) > 262144)
		}
	}
	for _, in := range m.In {
		if len(in.Unlock) >= 65535 {
			ctx.Labelf("huge_unlock:over256k=%v", len(in.Unlock) > 262144)
		}
		if len(in.PrevScript) >= 65535 {
			ctx.Labelf("huge_prevscript:over256k=%v", len(in.PrevScript) > 262144)
		}
	}
	var sawSingleNoOut, sawErrIdx, sawErrTxID, sawErrScript, sawOtherDefect bool
	partialLabels := map[string]bool{}

	for _, idx := range indices(n) {
		inRange := int64(idx) < int64(n)
		for ht := 0; ht < 256; ht++ {
			if ht&0x40 == 0 {
				continue
			}
			flag := sighash.Flag(ht)
			pre, perr := tx.CalcInputPreimage(idx, flag)
			sh, herr := tx.CalcInputSignatureHash(idx, flag)

			switch {
			case !inRange:
				sawErrIdx = true
				errCalls.Add(1)
				if perr == nil {
					return fmt.Errorf("CalcInputPreimage(idx=%d of %d inputs, type=0x%02x) = (%s, %v), want an error", idx, n, ht, clip(pre), perr)
				}
				if herr == nil {
					return fmt.Errorf("CalcInputSignatureHash(idx=%d of %d inputs, type=0x%02x) = (%x, %v), want an error", idx, n, ht, sh, herr)
				}
			case len(m.In[idx].TxID) == 0 || m.In[idx].PrevNil:
				errCalls.Add(1)
				noID, noScript := len(m.In[idx].TxID) == 0, m.In[idx].PrevNil
				ok := func(e error) bool {
					return e != nil // "is reported as an error": which sentinel, wrapped or not, is not fixed by the statement (benign round 2)
				}
				if noID {
					sawErrTxID = true
				}
				if noScript {
					sawErrScript = true
				}
				if !ok(perr) {
					return fmt.Errorf("CalcInputPreimage(idx=%d, type=0x%02x) = (%s, %v) for an input with missing txid=%v / missing previous script=%v; want an error", idx, ht, clip(pre), perr, noID, noScript)
				}
				if !ok(herr) {
					return fmt.Errorf("CalcInputSignatureHash(idx=%d, type=0x%02x) = (%x, %v) for an input with missing txid=%v / missing previous script=%v; want an error", idx, ht, sh, herr, noID, noScript)
				}
			case anyNoTxID >= 0:
				// another input has no previous txid: the specification does not say what
				// hashPrevouts is then - every other field of the preimage is specified all the
				// same, and with ANYONECANPAY the whole of it (ninth round, see partial_test.go)
				sawOtherDefect = true
				l, err := judgePartial(m, int(idx), ht, pre, perr, sh, herr)
				if err != nil {
					return err
				}
				partialLabels[l] = true
				digests.Add(1)
			default:
				in := m.In[idx]
				wantPre, wantHash := ref.SigHashForkID(m, int(idx), in.PrevScript, in.PrevSats, uint32(ht))
				digests.Add(1)
				if perr != nil || herr != nil {
					return fmt.Errorf("unexpected error idx=%d type=0x%02x: preimage err=%v, hash err=%v", idx, ht, perr, herr)
				}
				if !bytes.Equal(pre, wantPre) {
					return fmt.Errorf("preimage mismatch idx=%d type=0x%02x (%d inputs, %d outputs):\n lib %x\n ref %x\n first difference at byte %d (%s)",
						idx, ht, n, len(m.Out), clip(pre), clip(wantPre), firstDiff(pre, wantPre), fieldAt(firstDiff(pre, wantPre), len(in.PrevScript)))
				}
				if !bytes.Equal(sh, wantHash) {
					return fmt.Errorf("signature hash mismatch idx=%d type=0x%02x: lib %x, sha256d(reference preimage) %x", idx, ht, sh, wantHash)
				}
				base := ht & 0x1f
				if ht != 0x41 {
					nontrivial = true
				}
				if base == 3 && int(idx) >= len(m.Out) {
					sawSingleNoOut = true
				}
			}
			if small {
				if after := ref.Snapshot(tx); !ref.SameSnapshot(before, after) {
					return fmt.Errorf("transaction modified by sighash call idx=%d type=0x%02x: %s", idx, ht, ref.DiffSnapshot(before, after))
				}
			}
		}
		if !small {
			if after := ref.Snapshot(tx); !ref.SameSnapshot(before, after) {
				return fmt.Errorf("transaction modified by sighash calls for idx=%d (all FORKID types): %s", idx, ref.DiffSnapshot(before, after))
			}
		}
	}
	// a missing input can also be an empty slot of the input list: asked for that index (in range),
	// both functions must report ErrInputNoExist like for an index out of range - for every input
	// position of small transactions, the first, middle and last of large ones
	for _, idx := range []int{0, n / 2, n - 1} {
		if n == 0 || (idx != 0 && idx == n/2 && n <= 2 && idx != n-1) {
			continue
		}
		slot := tx.Inputs[idx]
		tx.Inputs[idx] = nil
		var perr, herr error
		var panicked any
		func() {
			defer func() { panicked = recover() }()
			ht := []int{0x41, 0xc1, 0x42, 0xc3}[(idx+n)%4]
			_, perr = tx.CalcInputPreimage(uint32(idx), sighash.Flag(ht))
			_, herr = tx.CalcInputSignatureHash(uint32(idx), sighash.Flag(ht))
		}()
		tx.Inputs[idx] = slot
		if panicked != nil {
			return fmt.Errorf("input slot %d of %d is empty (nil): the hash functions panicked instead of reporting the missing input: %v", idx, n, panicked)
		}
		if perr == nil || herr == nil {
			return fmt.Errorf("input slot %d of %d is empty (nil): CalcInputPreimage err=%v, CalcInputSignatureHash err=%v, want an error", idx, n, perr, herr)
		}
		ctx.Label("err_empty_slot")
	}
	if after := ref.Snapshot(tx); !ref.SameSnapshot(before, after) {
		return fmt.Errorf("transaction modified by sighash calls on an empty input slot: %s", ref.DiffSnapshot(before, after))
	}
	for _, l := range []struct {
		on bool
		s  string
	}{{sawSingleNoOut, "single_without_output"}, {sawErrIdx, "err_index"}, {sawErrTxID, "err_no_txid"}, {sawErrScript, "err_no_prev_script"}, {sawOtherDefect, "other_input_without_txid"}} {
		if l.on {
			ctx.Label(l.s)
		}
	}
	for _, l := range []string{"partial:acp_whole_preimage", "partial:all_fields_but_hashPrevouts", "partial:refused"} {
		if partialLabels[l] {
			ctx.Label(l)
		}
	}
	if nontrivial {
		ctx.NonTrivial()
	}
	ctx.Key(ref.Sha256d(ref.Encode(m, true)))
	return nil
}

func countClass(n int) string {
	switch {
	case n <= 3:
		return fmt.Sprint(n)
	case n <= 8:
		return "4-8"
	case n < 253:
		return "9-252"
	}
	return ">=253"
}

// clip renders at most the first 600 bytes of b as hex.
func clip(b []byte) string {
	if len(b) > 300 {
		return fmt.Sprintf("%x..(%d bytes)", b[:300], len(b))
	}
	return fmt.Sprintf("%x", b)
}

func firstDiff(a, b []byte) int {
	for i := 0; i < len(a) && i < len(b); i++ {
		if a[i] != b[i] {
			return i
		}
	}
	if len(a) < len(b) {
		return len(a)
	}
	return len(b)
}

// fieldAt names the preimage field holding byte offset off (informational).
func fieldAt(off, scriptLen int) string {
	vl := len(ref.VarInt(uint64(scriptLen)))
	bounds := []struct {
		end  int
		name string
	}{
		{4, "version"}, {36, "hashPrevouts"}, {68, "hashSequence"}, {104, "outpoint"},
		{104 + vl + scriptLen, "script code"}, {112 + vl + scriptLen, "value"}, {116 + vl + scriptLen, "sequence"},
		{148 + vl + scriptLen, "hashOutputs"}, {152 + vl + scriptLen, "locktime"}, {156 + vl + scriptLen, "hash type"},
	}
	for _, b := range bounds {
		if off < b.end {
			return b.name
		}
	}
	return "past end"
}

func genCase(t *rapid.T) Case {
	o := gen.TxOpts{MinIn: 1, MaxIn: 8, MinOut: 0, MaxOut: 8, BigCounts: []int{253, 253, 252, 300}, MaxScript: 600,
		ScriptEdges: []int{0, 1, 2, 25, 75, 76, 252, 253, 254, 255, 256, 520, 521, 600}}
	m := gen.Tx(t, o)
	if len(m.In) == 0 { // BigCounts never yields 0, MinIn is 1; defensive
		m.In = append(m.In, ref.In{TxID: pbt.Hex(gen.Bytes(t, 32, "txid")), PrevScript: pbt.Hex{}})
	}
	// #inputs > #outputs with SINGLE is a class of its own: bias towards it
	if rapid.IntRange(0, 4).Draw(t, "trim_out") == 0 && len(m.Out) > 0 {
		m.Out = m.Out[:rapid.IntRange(0, len(m.Out)-1).Draw(t, "nout_trim")]
	}
	for i := range m.In {
		if rapid.IntRange(0, 5).Draw(t, "unlock_nil") == 0 {
			m.In[i].Unlock, m.In[i].UnlockNil = nil, true
		}
	}
	// defects: missing previous script / zero-value input (no txid)
	switch rapid.IntRange(0, 9).Draw(t, "defect") {
	case 0:
		i := rapid.IntRange(0, len(m.In)-1).Draw(t, "defect_at")
		m.In[i].PrevScript, m.In[i].PrevNil = nil, true
	case 1:
		i := rapid.IntRange(0, len(m.In)-1).Draw(t, "defect_at")
		m.In[i].TxID = pbt.Hex{}
	case 2:
		i := rapid.IntRange(0, len(m.In)-1).Draw(t, "defect_at")
		m.In[i].TxID = pbt.Hex{}
		m.In[i].PrevScript, m.In[i].PrevNil = nil, true
	}
	// low weight: one very long script code (70 kB; 5-byte varint boundary is 65536)
	// script codes (and an output script) that are a standard template or one step away from one
	if rapid.IntRange(0, 3).Draw(t, "template_like") == 0 {
		for i := range m.In {
			if !m.In[i].PrevNil && rapid.IntRange(0, 2).Draw(t, "tpl_in") != 0 {
				m.In[i].PrevScript = gen.TemplateLike(t, "tpl")
			}
		}
		if len(m.Out) > 0 && rapid.Bool().Draw(t, "tpl_out") {
			m.Out[rapid.IntRange(0, len(m.Out)-1).Draw(t, "tpl_out_at")].Script = gen.TemplateLike(t, "tplo")
		}
	}
	if len(m.In) <= 8 && rapid.IntRange(0, 39).Draw(t, "huge") == 0 {
		gen.HugeField(t, &m)
	}
	return Case{Src: "gen", Tx: m}
}

// vectorCases turns each of the 500 node BIP143 vectors into a case: its
// transaction, with the vector's script recorded as the previous script of
// every input (amount 0 as in the vectors). All 128 FORKID types are run on
// it, which includes the vector's own low byte | 0x40.
func vectorCases(yield func(Case)) {
	for i, v := range calib.BIP143 {
		m := v.Tx
		m.In = append([]ref.In{}, m.In...)
		for j := range m.In {
			m.In[j].PrevScript = append(pbt.Hex{}, v.Script...)
			m.In[j].PrevSats = 0
			if j != v.Idx {
				m.In[j].PrevSats = uint64(i)*1000 + uint64(j)
			}
		}
		yield(Case{Src: "node-vector", Tx: m})
	}
}

func TestForkID(t *testing.T) {
	pbt.Run(t, pbt.Sub[Case]{
		Name: subName, Quick: 8000, Thorough: 80000,
		Gen:      genCase,
		Check:    check,
		Enum:     func(tier string, yield func(Case)) { vectorCases(yield); countSweep(tier, yield) },
		EnumDesc: "the 500 node-generated BIP143 vector transactions (script recorded as previous script of every input) x every input index incl. 3 out-of-range x all 128 hash types with bit 0x40; every input count 1..140 (x output count 0 / 1 / equal) with all-final and with mixed sequence numbers",
	})
	pbt.SetExtra(subName, "sum_digest_pairs_compared", digests.Load())
	pbt.SetExtra(subName, "sum_error_pairs_checked", errCalls.Load())
}

// countSweep yields a transaction for every input count 1..140 (quick: every count up to 70, then
// every third) - tables, fast paths and pre-sized buffers have their edge at some count, usually a
// power of two - with 0, 1 or as many outputs, once with all sequence numbers final and once mixed.
func countSweep(tier string, yield func(Case)) {
	for n := 1; n <= 140; n++ {
		if tier != "thorough" && n > 70 && n%3 != 0 {
			continue
		}
		for _, nout := range []int{0, 1, n} {
			for _, final := range []bool{true, false} {
				m := ref.Tx{Version: 1, LockTime: uint32(n)}
				for i := 0; i < n; i++ {
					id := make(pbt.Hex, 32)
					id[0], id[1], id[31] = byte(i), byte(i>>8), byte(n)
					seq := uint32(0xffffffff)
					if !final && i%2 == 1 {
						seq = uint32(i)
					}
					m.In = append(m.In, ref.In{TxID: id, Vout: uint32(i), Seq: seq, PrevSats: uint64(1000 + i), PrevScript: pbt.Hex{0x76, 0xa9, byte(i), 0x88, 0xac}, Unlock: pbt.Hex{}})
				}
				for k := 0; k < nout; k++ {
					m.Out = append(m.Out, ref.Out{Sats: uint64(k + 1), Script: pbt.Hex{0x51, byte(k)}})
				}
				yield(Case{Src: "count-sweep", Tx: m})
			}
		}
	}
}

func allTxIDs32(m ref.Tx) bool {
	for _, in := range m.In {
		if len(in.TxID) != 32 {
			return false
		}
	}
	return true
}
