package c02

import (
	"testing"

	"verif/harness/pbt"
)

// FuzzForkID (thorough tier): Go's native coverage-guided fuzzer drives the `forkid` generator
// (rapid.MakeFuzz); same oracle (preimage = reference byte for byte, hash, error sentinels,
// transaction unchanged).
func FuzzForkID(f *testing.F) {
	pbt.FuzzSub(f, "C02", pbt.Sub[Case]{Name: subName, Gen: genCase, Check: check})
}
