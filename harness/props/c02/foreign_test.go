package c02

import (
	"encoding/json"
	"fmt"

	bt "github.com/libsv/go-bt/v2"
	"pgregory.net/rapid"

	"verif/harness/gen"
	"verif/harness/pbt"
)

// Ninth round (file shared with props/c03): between two signature-hash requests a program uses
// the transaction - and other transactions - through the rest of the exported API: it serialises
// it (Bytes, ExtendedBytes, BytesWithClearedInputs with a script of any length, the serialisers of
// single inputs and outputs), asks for its id, size, string and JSON forms, clones it, asks
// whether it is a coinbase, computes the partial hashes, and uses the package's VarInt and byte
// helpers. What those calls return is the caller's own: the caller writes over it to the end of
// its capacity (which is also where an append that still fits would write). None of that may
// change what a later signature-hash request answers - for the object at hand or any other.
// The bytes written over are put back when the case ends (restore), so that a library whose
// results alias state it keeps is reported by the case that did the writing.

// Foreign is one such call.
type Foreign struct {
	Op string  `json:"op"`
	On int     `json:"on,omitempty"` // 0: the transaction under test, 1: a clone of it, 2: an unrelated transaction
	At int     `json:"at,omitempty"`
	N  uint64  `json:"n,omitempty"`
	B  pbt.Hex `json:"b,omitempty"`
}

var foreignOps = []string{
	"cleared", "cleared", "cleared", "cleared", "bytes", "extended", "txid", "txidbytes", "size", "sizetypes", "string", "clone", "json", "nodejson",
	"iscoinbase", "inbytes", "instring", "outbytes", "outsighash", "outstring", "prevouthash", "seqhash", "outputshash",
	"varint", "varint", "varintread", "le", "reverse", "totals", "scripts", "lookups",
}

// scribbler collects the byte slices the caller received and wrote over.
type scribbler struct {
	bufs  [][]byte
	saved [][]byte
}

// own treats b as the caller's own buffer: every byte up to its capacity is overwritten.
func (s *scribbler) own(b []byte) {
	full := b[:cap(b)]
	if len(full) == 0 {
		return
	}
	s.bufs = append(s.bufs, full)
	s.saved = append(s.saved, append([]byte{}, full...))
	for i := range full {
		full[i] ^= 0xa5
	}
}

// restore puts every overwritten byte back (in reverse order, should two buffers overlap).
func (s *scribbler) restore() {
	for i := len(s.bufs) - 1; i >= 0; i-- {
		copy(s.bufs[i], s.saved[i])
	}
	s.bufs, s.saved = nil, nil
}

// run performs the call on (a relative of) tx. It never edits tx.
func (f Foreign) run(tx *bt.Tx, s *scribbler) (label string, err error) {
	defer func() {
		if r := recover(); r != nil {
			err = fmt.Errorf("the call %s (on=%d) between two signature-hash requests panicked: %v", f.Op, f.On%3, r)
		}
	}()
	o := tx
	switch f.On % 3 {
	case 1:
		o = tx.Clone()
	case 2:
		var perr error
		if o, perr = bt.NewTxFromBytes(elsewhereBytes); perr != nil {
			return "", fmt.Errorf("harness: %v", perr)
		}
	}
	nin, nout := len(o.Inputs), len(o.Outputs)
	at := f.At
	if at < 0 {
		at = -at
	}
	switch f.Op {
	case "cleared":
		// index in range, or one past the end (then no input carries the script)
		s.own(o.BytesWithClearedInputs(at%(nin+1), append([]byte{}, f.B...)))
		switch l := len(f.B); {
		case l == 0:
			label = "cleared:0"
		case l <= 4:
			label = "cleared:1-4"
		case l <= 126:
			label = "cleared:5-126"
		default:
			label = "cleared:>=127"
		}
		return "foreign=" + label, nil
	case "bytes":
		s.own(o.Bytes())
	case "extended":
		s.own(o.ExtendedBytes())
	case "txid":
		_ = o.TxID()
	case "txidbytes":
		s.own(o.TxIDBytes())
	case "size":
		_ = o.Size()
	case "sizetypes":
		_ = o.SizeWithTypes()
	case "string":
		_ = o.String()
	case "clone":
		cl := o.Clone()
		s.own(cl.Bytes())
	case "json":
		b, _ := json.Marshal(o)
		s.own(b)
	case "nodejson":
		b, _ := json.Marshal(o.NodeJSON())
		s.own(b)
	case "iscoinbase":
		_ = o.IsCoinbase()
	case "inbytes":
		s.own(o.Inputs[at%nin].Bytes(f.N&1 == 1))
	case "instring":
		if in := o.Inputs[at%nin]; in.UnlockingScript != nil {
			_ = in.String()
		}
	case "outbytes":
		if nout > 0 {
			s.own(o.Outputs[at%nout].Bytes())
		}
	case "outsighash":
		if nout > 0 {
			s.own(o.Outputs[at%nout].BytesForSigHash())
		}
	case "outstring":
		if nout > 0 {
			_ = o.Outputs[at%nout].String()
			_ = o.Outputs[at%nout].LockingScriptHexString()
		}
	case "prevouthash":
		s.own(o.PreviousOutHash())
	case "seqhash":
		s.own(o.SequenceHash())
	case "outputshash":
		if f.N&1 == 1 && nout > 0 {
			s.own(o.OutputsHash(int32(at % nout)))
		} else {
			s.own(o.OutputsHash(-1))
		}
	case "varint":
		v := bt.VarInt(f.N)
		_ = v.Length()
		_ = v.UpperLimitInc()
		s.own(v.Bytes())
	case "varintread":
		enc := bt.VarInt(f.N).Bytes()
		v, size := bt.NewVarIntFromBytes(append(append([]byte{}, enc...), f.B...))
		_ = bt.VarInt(uint64(v) + uint64(size)).Bytes()
		s.own(enc)
	case "le":
		s.own(bt.LittleEndianBytes(uint32(f.N), 4))
		s.own(bt.LittleEndianBytes(o.Inputs[at%nin].SequenceNumber, 4))
	case "reverse":
		s.own(bt.ReverseBytes(append([]byte{}, f.B...)))
		s.own(bt.ReverseBytes(o.Inputs[at%nin].PreviousTxID()))
	case "totals":
		_ = o.TotalInputSatoshis()
		_ = o.TotalOutputSatoshis()
		_ = o.InputCount()
		_ = o.OutputCount()
		_ = o.HasDataOutputs()
	case "scripts":
		if sc := o.Inputs[at%nin].PreviousTxScript; sc != nil {
			_ = sc.String()
			_, _ = sc.ToASM()
			_ = sc.IsP2PKH()
			_ = sc.ScriptType()
		}
		if nout > 0 {
			sc := o.Outputs[at%nout].LockingScript
			_, _ = sc.ToASM()
			_ = sc.IsData()
			_ = sc.ScriptType()
		}
	case "lookups":
		_ = o.InputIdx(at % (nin + 2))
		_ = o.OutputIdx(at % (nout + 2))
		_ = o.Inputs[at%nin].PreviousTxIDStr()
	default:
		return "", fmt.Errorf("harness: unknown foreign call %q", f.Op)
	}
	return "foreign=" + f.Op, nil
}

// clearedLens: lengths of the script handed to BytesWithClearedInputs - short ones (the counts of
// a small transaction lie just above them), the template lengths, and both sides of the 1- and
// 3-byte length prefixes.
var clearedLens = []int{1, 1, 2, 2, 3, 4, 5, 8, 13, 20, 24, 25, 33, 35, 63, 64, 126, 127, 128, 252, 253, 300}

func genForeign(t *rapid.T) Foreign {
	f := Foreign{
		Op: rapid.SampledFrom(foreignOps).Draw(t, "foreign_op"),
		On: rapid.SampledFrom([]int{0, 0, 0, 1, 2}).Draw(t, "foreign_on"),
		At: rapid.IntRange(0, 7).Draw(t, "foreign_at"),
	}
	switch f.Op {
	case "cleared":
		n := rapid.SampledFrom(clearedLens).Draw(t, "cleared_len")
		if rapid.IntRange(0, 3).Draw(t, "cleared_len_k") == 0 {
			n = rapid.IntRange(0, 60).Draw(t, "cleared_len_u")
		}
		f.B = gen.FillBytes(t, n, "cleared_script")
	case "varint", "varintread":
		f.N = rapid.SampledFrom([]uint64{0, 1, 2, 3, 4, 25, 35, 76, 252, 253, 254, 0xffff, 0x10000, 0xffffffff, 0x100000000}).Draw(t, "varint_v")
		if rapid.Bool().Draw(t, "varint_small") {
			f.N = uint64(rapid.IntRange(0, 252).Draw(t, "varint_u"))
		}
		f.B = gen.BytesUpTo(t, 9, "tail")
	default:
		f.N = gen.U64(t, "foreign_n")
		f.B = gen.BytesUpTo(t, 40, "foreign_b")
	}
	return f
}
