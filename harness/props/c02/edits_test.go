package c02

import (
	"bytes"
	"encoding/json"
	"fmt"
	bt "github.com/libsv/go-bt/v2"
	"testing"

	"github.com/libsv/go-bt/v2/bscript"
	"github.com/libsv/go-bt/v2/sighash"
	"pgregory.net/rapid"

	"verif/harness/gen"
	"verif/harness/pbt"
	"verif/harness/ref"
)

// legacyEdits selects the algorithm this copy of the sub-check judges (the file is shared
// with props/c03, where the constant is true).
const legacyEdits = false

// Edit is one in-place modification of the transaction object between two hash computations.
type Edit struct {
	Kind string  `json:"kind"` // seq, vout, sats, oscript, prevsats, prevscript, version, locktime
	At   int     `json:"at"`
	U64  uint64  `json:"u64"`
	B    pbt.Hex `json:"b"`
	// F (kind "foreign"): not an edit at all - another exported method is called and its result
	// written over by the caller (see foreign_test.go); the transaction does not change
	F *Foreign `json:"f,omitempty"`
}

// EditCase is a history: hash, edit the same object in place, hash again, ...
type EditCase struct {
	Tx    ref.Tx `json:"tx"`
	Edits []Edit `json:"edits"`
	Types []int  `json:"types"` // hash type used after each edit (len = len(Edits)+1)
	Idx   []int  `json:"idx"`   // input hashed after each edit
}

func (e Edit) applyModel(m *ref.Tx) {
	switch e.Kind {
	case "seq":
		m.In[e.At%len(m.In)].Seq = uint32(e.U64)
	case "vout":
		m.In[e.At%len(m.In)].Vout = uint32(e.U64)
	case "prevsats":
		m.In[e.At%len(m.In)].PrevSats = e.U64
	case "prevscript":
		m.In[e.At%len(m.In)].PrevScript = append(pbt.Hex{}, e.B...)
	case "sats":
		if len(m.Out) > 0 {
			m.Out[e.At%len(m.Out)].Sats = e.U64
		}
	case "oscript":
		if len(m.Out) > 0 {
			m.Out[e.At%len(m.Out)].Script = append(pbt.Hex{}, e.B...)
		}
	case "version":
		m.Version = uint32(e.U64)
	case "locktime":
		m.LockTime = uint32(e.U64)
	case "dupin": // the very same input object once more (two slots, one *bt.Input)
		if len(m.In) < 8 {
			m.In = append(m.In, m.In[e.At%len(m.In)])
		}
	case "appendunlock":
		i := e.At % len(m.In)
		if !m.In[i].UnlockNil {
			m.In[i].Unlock = append(append(pbt.Hex{}, m.In[i].Unlock...), e.B...)
		}
	case "rejson": // (tenth round) the input OBJECT is pointed at another outpoint by decoding a JSON document into it
		i := e.At % len(m.In)
		m.In[i].TxID, m.In[i].Vout, m.In[i].Seq = rejsonTxID(e.B), uint32(e.U64), uint32(e.U64>>32)
		m.In[i].Unlock, m.In[i].UnlockNil = pbt.Hex{}, false
	case "elsewhere": // the caller works on another transaction it parsed; this one does not change
	case "foreign": // some other exported method is called; this transaction does not change
	}
}

// rejsonTxID derives the 32-byte txid a "rejson" edit points the input at.
func rejsonTxID(b []byte) pbt.Hex {
	id := make(pbt.Hex, 32)
	for i := range id {
		id[i] = byte(0x40 + i)
		if len(b) > 0 {
			id[i] ^= b[i%len(b)]
		}
	}
	return id
}

// elsewhereBytes is an unrelated unsigned transaction (two inputs with empty unlocking scripts).
var elsewhereBytes = ref.Encode(ref.Tx{Version: 1, In: []ref.In{
	{TxID: bytes.Repeat([]byte{0x21}, 32), Vout: 1, Seq: 0xffffffff, Unlock: pbt.Hex{}},
	{TxID: bytes.Repeat([]byte{0x22}, 32), Vout: 2, Seq: 0xffffffff, Unlock: pbt.Hex{}}},
	Out: []ref.Out{{Sats: 5, Script: pbt.Hex{0x51}}}}, false)

func checkEdits(ctx *pbt.Ctx, c EditCase) error {
	m := c.Tx
	m.In = append([]ref.In{}, c.Tx.In...)
	m.Out = append([]ref.Out{}, c.Tx.Out...)
	tx, via := ref.ToLibVia(m)
	ctx.Label("object=" + via)
	var undo []*bscript.Script
	var scribbled scribbler
	defer func() {
		scribbled.restore()
		for _, s := range undo {
			*s = (*s)[:0]
		}
	}()
	compare := func(step int) error {
		idx := c.Idx[step] % len(m.In)
		ht := c.Types[step] & 0xff
		var want []byte
		var got []byte
		var err error
		if legacyEdits {
			ht &^= 0x40
			want, _ = ref.SigHashLegacy(m, idx, m.In[idx].PrevScript, uint32(ht), false)
			if ht&0x1f == 3 && idx >= len(m.Out) {
				want = ref.SigHashOne()
			}
			got, err = tx.CalcInputPreimageLegacy(uint32(idx), sighash.Flag(ht))
		} else {
			ht |= 0x40
			want, _ = ref.SigHashForkID(m, idx, m.In[idx].PrevScript, m.In[idx].PrevSats, uint32(ht))
			got, err = tx.CalcInputPreimage(uint32(idx), sighash.Flag(ht))
		}
		if err != nil {
			return fmt.Errorf("after %d in-place edits: unexpected error for input %d type %#x: %v", step, idx, ht, err)
		}
		if !bytes.Equal(got, want) {
			return fmt.Errorf("after %d in-place edits (%v) the preimage of input %d, type %#x, is not the one of the transaction as it now stands:\n got  %x\n want %x", step, c.Edits[:step], idx, ht, got, want)
		}
		return nil
	}
	if err := compare(0); err != nil {
		return err
	}
	// roots[i] = the first slot that holds the same *bt.Input object as slot i ("dupin" puts one
	// object into two slots: an edit of it shows in both)
	roots := make([]int, len(m.In))
	for i := range roots {
		roots[i] = i
	}
	for i, e := range c.Edits {
		switch e.Kind {
		case "seq", "vout", "prevsats", "prevscript", "appendunlock", "rejson":
			target := roots[e.At%len(m.In)]
			for j := range m.In {
				if roots[j] == target {
					e2 := e
					e2.At = j
					e2.applyModel(&m)
				}
			}
		case "dupin":
			if len(m.In) < 8 {
				roots = append(roots, roots[e.At%len(m.In)])
			}
			e.applyModel(&m)
		default:
			e.applyModel(&m)
		}
		// the same edit on the library object, in place
		switch e.Kind {
		case "seq":
			tx.Inputs[e.At%len(tx.Inputs)].SequenceNumber = uint32(e.U64)
		case "vout":
			tx.Inputs[e.At%len(tx.Inputs)].PreviousTxOutIndex = uint32(e.U64)
		case "prevsats":
			tx.Inputs[e.At%len(tx.Inputs)].PreviousTxSatoshis = e.U64
		case "prevscript":
			tx.Inputs[e.At%len(tx.Inputs)].PreviousTxScript = bscript.NewFromBytes(append([]byte{}, e.B...))
		case "sats":
			if len(tx.Outputs) > 0 {
				tx.Outputs[e.At%len(tx.Outputs)].Satoshis = e.U64
			}
		case "oscript":
			if len(tx.Outputs) > 0 {
				tx.Outputs[e.At%len(tx.Outputs)].LockingScript = bscript.NewFromBytes(append([]byte{}, e.B...))
			}
		case "version":
			tx.Version = uint32(e.U64)
		case "locktime":
			tx.LockTime = uint32(e.U64)
		case "dupin":
			if len(tx.Inputs) < 8 {
				tx.Inputs = append(tx.Inputs, tx.Inputs[e.At%len(tx.Inputs)])
			}
		case "rejson":
			doc := fmt.Sprintf(`{"unlockingScript":"","txid":"%x","vout":%d,"sequence":%d}`, []byte(rejsonTxID(e.B)), uint32(e.U64), uint32(e.U64>>32))
			if jerr := json.Unmarshal([]byte(doc), tx.Inputs[e.At%len(tx.Inputs)]); jerr != nil {
				return fmt.Errorf("harness: %v", jerr)
			}
		case "appendunlock":
			if in := tx.Inputs[e.At%len(tx.Inputs)]; in.UnlockingScript != nil {
				*in.UnlockingScript = append(*in.UnlockingScript, e.B...)
			}
		case "elsewhere":
			// another transaction of the caller: parsed from bytes, cloned, and its empty unlocking
			// scripts filled in place through the pointers the parser handed out (undone when the
			// case ends, so that a library that shares such objects is reported by this case and
			// does not confuse the following ones)
			other, perr := bt.NewTxFromBytes(elsewhereBytes)
			if perr != nil {
				return fmt.Errorf("harness: %v", perr)
			}
			for _, o := range []*bt.Tx{other, other.Clone(), tx.Clone()} {
				for _, in := range o.Inputs {
					if s := in.UnlockingScript; s != nil && len(*s) == 0 {
						*s = append(*s, e.B...)
						undo = append(undo, s)
					}
				}
			}
		}
		if e.Kind == "foreign" && e.F != nil {
			l, ferr := e.F.run(tx, &scribbled)
			if ferr != nil {
				return ferr
			}
			ctx.Label(l)
		}
		ctx.Label("edit=" + e.Kind)
		if err := compare(i + 1); err != nil {
			return err
		}
	}
	ctx.NonTrivial()
	return nil
}

func TestEdits(t *testing.T) {
	pbt.Run(t, pbt.Sub[EditCase]{
		Name: "edits", Quick: 12000, Thorough: 400000, Precommit: true, // a library whose state a foreign call damaged may end the process (Tx.Clone calls log.Fatal)
		Gen: func(t *rapid.T) EditCase {
			o := gen.TxOpts{MinIn: 1, MaxIn: 4, MinOut: 0, MaxOut: 4, MaxScript: 60, ScriptEdges: []int{0, 1, 25}}
			c := EditCase{Tx: gen.Tx(t, o)}
			n := rapid.IntRange(1, 4).Draw(t, "n_edits")
			for i := 0; i < n; i++ {
				e := Edit{
					Kind: rapid.SampledFrom([]string{"seq", "seq", "vout", "sats", "sats", "oscript", "prevsats", "prevscript", "version", "locktime", "dupin", "appendunlock", "rejson", "rejson", "elsewhere", "elsewhere", "foreign", "foreign", "foreign", "foreign"}).Draw(t, "kind"),
					At:   rapid.IntRange(0, 3).Draw(t, "at"), U64: gen.U64(t, "val"), B: gen.BytesUpTo(t, 30, "bytes")}
				if e.Kind == "foreign" {
					f := genForeign(t)
					e.F = &f
				}
				c.Edits = append(c.Edits, e)
			}
			for i := 0; i <= n; i++ {
				c.Types = append(c.Types, rapid.SampledFrom([]int{0x41, 0x41, 0x42, 0x43, 0xc1, 0xc2, 0xc3, 0x44, 0x5f}).Draw(t, "type"))
				c.Idx = append(c.Idx, rapid.IntRange(0, 3).Draw(t, "idx"))
			}
			return c
		},
		Check: checkEdits,
	})
}
