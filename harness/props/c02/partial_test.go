package c02

import (
	"bytes"
	"encoding/hex"
	"encoding/json"
	"fmt"
	"strings"
	"testing"

	"github.com/libsv/go-bt/v2"
	"github.com/libsv/go-bt/v2/bscript"
	"github.com/libsv/go-bt/v2/sighash"
	"pgregory.net/rapid"

	"verif/harness/gen"
	"verif/harness/pbt"
	"verif/harness/ref"
)

// Ninth round: partially built transactions, and the forms a *missing* value can take.
//
// A transaction that is still being put together holds inputs that are not complete yet: a slot
// of the input list that is empty (nil), an input object without a previous txid (a placeholder
// some other party fills in later), an input without its previous script. The statement has two
// things to say about such a transaction:
//
//   - asked for an input that is itself missing / lacks its txid / lacks its previous script, the
//     functions report the error - whatever Go value stands for "missing": the txid field can be
//     nil (zero-value Input) or empty and non-nil (what Input.UnmarshalJSON stores for "txid":""),
//     the input object can have been built field by field or have come through the library's own
//     JSON decoding;
//   - asked for a COMPLETE input, every field of the preimage that the digest specification
//     defines without reference to the incomplete inputs must be exactly the specified one:
//     with ANYONECANPAY that is the whole preimage (hashPrevouts and hashSequence are zero, no
//     other input is committed to); without it, everything but hashPrevouts (bytes 4..36), which
//     is the only field that needs the other inputs' txids (hashSequence needs their sequence
//     numbers, which a placeholder has). A library that prefers to refuse such a request with
//     ErrEmptyPreviousTxID ("a missing previous txid is reported as an error") is accepted for
//     the types without ANYONECANPAY, since hashPrevouts cannot be computed there.
//
// Requests that would make the digest run over a nil slot (a type without ANYONECANPAY while
// some OTHER slot is nil) are not made: nothing is specified for them.

// PartialCase is one partially built transaction.
type PartialCase struct {
	Src string `json:"src"`
	// Tx is the complete model; Forms / Scripts say what each slot of the library object lacks.
	Tx ref.Tx `json:"tx"`
	// Forms[i]: "full" (built field by field), "jsonfull" (complete, decoded from the input's JSON
	// form), "zero" (zero-value Input, txid field nil), "json" (decoded from JSON with "txid":""),
	// "jsonrt" (a zero-value Input marshalled and unmarshalled), "nil" (empty slot).
	Forms []string `json:"forms"`
	// Scripts[i], the previous script of input i: "bytes", "hex" (bscript.NewFromHexString),
	// "new" (new(bscript.Script): non-nil object, nil slice), "empty" (non-nil object, empty
	// non-nil slice), "nil" (no script object: missing). "new" and "empty" make the script empty.
	Scripts []string `json:"scripts"`
	// Via: "built" (list assembled by the caller) or "txjson" (the whole transaction decoded by
	// Tx.UnmarshalJSON from a document without "hex", then completed by the caller).
	Via string `json:"via"`
}

var partialForms = []string{"full", "jsonfull", "zero", "json", "jsonrt", "nil"}
var partialScripts = []string{"bytes", "hex", "new", "empty", "nil"}

func noTxIDForm(f string) bool { return f == "zero" || f == "json" || f == "jsonrt" }

// effective returns the model of the transaction as the library object stands: placeholders have
// no txid, "new"/"empty" scripts are empty, "nil" scripts are absent.
func (c PartialCase) effective() ref.Tx {
	m := c.Tx
	m.In = append([]ref.In{}, c.Tx.In...)
	for i := range m.In {
		if noTxIDForm(c.Forms[i]) || c.Forms[i] == "nil" {
			m.In[i].TxID = pbt.Hex{}
		}
		switch c.Scripts[i] {
		case "new", "empty":
			m.In[i].PrevScript, m.In[i].PrevNil = pbt.Hex{}, false
		case "nil":
			m.In[i].PrevScript, m.In[i].PrevNil = nil, true
		default:
			m.In[i].PrevNil = false
		}
	}
	return m
}

func inputJSONText(txid []byte, vout, seq uint32, unlock []byte) string {
	return fmt.Sprintf(`{"unlockingScript":"%s","txid":"%s","vout":%d,"sequence":%d}`,
		hex.EncodeToString(unlock), hex.EncodeToString(txid), vout, seq)
}

// libInput builds slot i of the library object.
func (c PartialCase) libInput(i int) (*bt.Input, error) {
	in := c.Tx.In[i]
	var li *bt.Input
	switch c.Forms[i] {
	case "nil":
		return nil, nil
	case "full", "zero":
		li = &bt.Input{PreviousTxOutIndex: in.Vout, SequenceNumber: in.Seq}
		if c.Forms[i] == "full" {
			if err := li.PreviousTxIDAdd(ref.Canary(in.TxID)); err != nil {
				return nil, err
			}
		}
		if !in.UnlockNil {
			li.UnlockingScript = bscript.NewFromBytes(ref.Canary(in.Unlock))
		}
	case "json", "jsonfull":
		id := []byte(in.TxID)
		if c.Forms[i] == "json" {
			id = nil
		}
		li = &bt.Input{}
		if err := json.Unmarshal([]byte(inputJSONText(id, in.Vout, in.Seq, in.Unlock)), li); err != nil {
			return nil, err
		}
	case "jsonrt":
		z := &bt.Input{PreviousTxOutIndex: in.Vout, SequenceNumber: in.Seq}
		if !in.UnlockNil {
			z.UnlockingScript = bscript.NewFromBytes(append([]byte{}, in.Unlock...))
		}
		b, err := json.Marshal(z)
		if err != nil {
			return nil, err
		}
		li = &bt.Input{}
		if err := json.Unmarshal(b, li); err != nil {
			return nil, err
		}
	default:
		return nil, fmt.Errorf("unknown form %q", c.Forms[i])
	}
	c.complete(li, i)
	return li, nil
}

// complete records what the JSON form does not carry: the spent value and script.
func (c PartialCase) complete(li *bt.Input, i int) {
	in := c.Tx.In[i]
	li.PreviousTxSatoshis = in.PrevSats
	switch c.Scripts[i] {
	case "nil":
		// never recorded: the field stays as the constructor / decoder left it
	case "new":
		li.PreviousTxScript = new(bscript.Script)
	case "empty":
		s := bscript.Script{}
		li.PreviousTxScript = &s
	case "hex":
		s, err := bscript.NewFromHexString(hex.EncodeToString(in.PrevScript))
		if err != nil {
			panic("harness: " + err.Error())
		}
		li.PreviousTxScript = s
	default:
		li.PreviousTxScript = bscript.NewFromBytes(ref.Canary(in.PrevScript))
	}
}

// build returns the library object and the forms of its slots as they came out (the decoder of
// the transaction's JSON form may drop the lists: then there are no inputs at all).
func (c PartialCase) build() (*bt.Tx, []string, error) {
	if c.Via == "txjson" {
		var ins, outs []string
		for i, in := range c.Tx.In {
			switch {
			case c.Forms[i] == "nil":
				ins = append(ins, "null")
			case noTxIDForm(c.Forms[i]):
				ins = append(ins, inputJSONText(nil, in.Vout, in.Seq, in.Unlock))
			default:
				ins = append(ins, inputJSONText(in.TxID, in.Vout, in.Seq, in.Unlock))
			}
		}
		for _, o := range c.Tx.Out {
			outs = append(outs, fmt.Sprintf(`{"satoshis":%d,"lockingScript":"%s"}`, o.Sats, hex.EncodeToString(o.Script)))
		}
		doc := fmt.Sprintf(`{"version":%d,"lockTime":%d,"inputs":[%s],"outputs":[%s]}`, c.Tx.Version, c.Tx.LockTime, strings.Join(ins, ","), strings.Join(outs, ","))
		tx := bt.NewTx()
		if err := json.Unmarshal([]byte(doc), tx); err != nil {
			return nil, nil, err
		}
		if len(tx.Inputs) == 0 {
			return tx, nil, nil // the decoder keeps version and lock time only: every input is missing
		}
		if len(tx.Inputs) != len(c.Tx.In) || len(tx.Outputs) != len(c.Tx.Out) {
			return nil, nil, fmt.Errorf("decoder returned %d inputs / %d outputs for a document with %d / %d", len(tx.Inputs), len(tx.Outputs), len(c.Tx.In), len(c.Tx.Out))
		}
		for i, li := range tx.Inputs {
			if li != nil {
				c.complete(li, i)
			}
		}
		return tx, c.Forms, nil
	}
	tx := &bt.Tx{Version: c.Tx.Version, LockTime: c.Tx.LockTime}
	for i := range c.Tx.In {
		li, err := c.libInput(i)
		if err != nil {
			return nil, nil, err
		}
		tx.Inputs = append(tx.Inputs, li)
	}
	for _, o := range c.Tx.Out {
		tx.Outputs = append(tx.Outputs, &bt.Output{Satoshis: o.Sats, LockingScript: bscript.NewFromBytes(ref.Canary(o.Script))})
	}
	return tx, c.Forms, nil
}

// snapshotSparse is ref.Snapshot for a transaction whose input list may hold nil slots.
func snapshotSparse(tx *bt.Tx) (ref.Tx, []int) {
	dense := &bt.Tx{Version: tx.Version, LockTime: tx.LockTime, Outputs: tx.Outputs}
	var nils []int
	for i, in := range tx.Inputs {
		if in == nil {
			nils = append(nils, i)
			continue
		}
		dense.Inputs = append(dense.Inputs, in)
	}
	nils = append(nils, -len(tx.Inputs)-1) // the length of the list
	return ref.Snapshot(dense), nils
}

func sameInts(a, b []int) bool {
	if len(a) != len(b) {
		return false
	}
	for i := range a {
		if a[i] != b[i] {
			return false
		}
	}
	return true
}

// judgePartial compares the answer to one request for a COMPLETE input of a transaction in which
// other inputs lack their txid. m is the model as the object stands (placeholders with empty txid).
// It returns a label naming what could be compared.
func judgePartial(m ref.Tx, idx, ht int, pre []byte, perr error, sh []byte, herr error) (string, error) {
	in := m.In[idx]
	wantPre, wantHash := ref.SigHashForkID(m, idx, in.PrevScript, in.PrevSats, uint32(ht))
	acp := ht&0x80 != 0
	what := fmt.Sprintf("idx=%d type=0x%02x (%d inputs, %d outputs, inputs without txid: %v)", idx, ht, len(m.In), len(m.Out), withoutTxID(m))
	if acp {
		// no other input is committed to: the whole preimage is specified
		if perr != nil || herr != nil {
			return "", fmt.Errorf("%s: ANYONECANPAY commits to no other input, the digest of a complete input is fully specified; preimage err=%v, hash err=%v", what, perr, herr)
		}
		if !bytes.Equal(pre, wantPre) {
			d := firstDiff(pre, wantPre)
			return "", fmt.Errorf("%s: ANYONECANPAY preimage of a complete input differs from the specified one:\n lib %s\n ref %s\n first difference at byte %d (%s)", what, clip(pre), clip(wantPre), d, fieldAt(d, len(in.PrevScript)))
		}
		if !bytes.Equal(sh, wantHash) {
			return "", fmt.Errorf("%s: signature hash %x, want sha256d(specified preimage) %x", what, sh, wantHash)
		}
		return "partial:acp_whole_preimage", nil
	}
	if perr != nil || herr != nil {
		// hashPrevouts cannot be computed: reporting the missing txid is within the statement
		if perr != nil && herr != nil {
			return "partial:refused", nil
		}
		return "", fmt.Errorf("%s: preimage err=%v, hash err=%v; want either both answers or an error from both", what, perr, herr)
	}
	if len(pre) != len(wantPre) {
		return "", fmt.Errorf("%s: preimage has %d bytes, the specified layout has %d:\n lib %s", what, len(pre), len(wantPre), clip(pre))
	}
	// every field but hashPrevouts (bytes 4..36) is defined by the signed input, the outputs, the
	// sequence numbers, version, lock time and type
	for k := range pre {
		if k >= 4 && k < 36 {
			continue
		}
		if pre[k] != wantPre[k] {
			return "", fmt.Errorf("%s: field %q of the preimage (byte %d) is not the specified one although it does not depend on the other inputs' txids:\n lib %s\n ref %s (bytes 4..36, hashPrevouts, not compared)", what, fieldAt(k, len(in.PrevScript)), k, clip(pre), clip(wantPre))
		}
	}
	if want := ref.Sha256d(pre); !bytes.Equal(sh, want) {
		return "", fmt.Errorf("%s: signature hash %x is not the double SHA-256 of the preimage returned (%x)", what, sh, want)
	}
	return "partial:all_fields_but_hashPrevouts", nil
}

func withoutTxID(m ref.Tx) []int {
	var w []int
	for i, in := range m.In {
		if len(in.TxID) == 0 {
			w = append(w, i)
		}
	}
	return w
}

func checkPartial(ctx *pbt.Ctx, c PartialCase) error {
	if len(c.Forms) != len(c.Tx.In) || len(c.Scripts) != len(c.Tx.In) {
		return fmt.Errorf("harness: malformed case")
	}
	tx, forms, err := c.build()
	if err != nil && c.Via == "txjson" {
		// what the library's JSON decoder makes of a document without "hex" (keeps the lists, drops them,
		// refuses null slots or an absent txid) is not C02's business: no object, nothing to hash
		ctx.Discard("txjson: the decoder refused the document")
		return nil
	}
	if err != nil {
		return fmt.Errorf("harness: cannot build the object: %v", err)
	}
	ctx.Label("via=" + c.Via)
	if forms == nil {
		// every input is missing
		ctx.Label("txjson:lists_dropped_by_decoder")
		for idx := 0; idx <= len(c.Tx.In); idx++ {
			for ht := 0x40; ht < 256; ht++ {
				if ht&0x40 == 0 {
					continue
				}
				_, perr := tx.CalcInputPreimage(uint32(idx), sighash.Flag(ht))
				_, herr := tx.CalcInputSignatureHash(uint32(idx), sighash.Flag(ht))
				if perr == nil || herr == nil {
					return fmt.Errorf("transaction decoded from its JSON form without \"hex\" has %d inputs; idx=%d type=0x%02x: preimage err=%v, hash err=%v, want an error", len(tx.Inputs), idx, ht, perr, herr)
				}
			}
		}
		return nil
	}
	m := c.effective()
	n := len(m.In)
	before, beforeNils := snapshotSparse(tx)

	var nilSlots, placeholders int
	for i := range forms {
		switch {
		case forms[i] == "nil":
			nilSlots++
		case noTxIDForm(forms[i]):
			placeholders++
		}
		ctx.Label("form=" + forms[i])
		ctx.Label("script=" + c.Scripts[i])
	}
	seen := map[string]bool{}
	for idx := 0; idx <= n; idx++ {
		for ht := 0x40; ht < 256; ht++ {
			if ht&0x40 == 0 {
				continue
			}
			flag := sighash.Flag(ht)
			var label string
			switch {
			case idx == n || forms[idx] == "nil":
				_, perr := tx.CalcInputPreimage(uint32(idx), flag)
				_, herr := tx.CalcInputSignatureHash(uint32(idx), flag)
				if perr == nil || herr == nil {
					return fmt.Errorf("idx=%d of %d slots (forms %v) type=0x%02x: the input is missing; preimage err=%v, hash err=%v, want an error", idx, n, forms, ht, perr, herr)
				}
				label = "err_missing_input"
				if idx < n {
					label = "err_empty_slot"
				}
			case noTxIDForm(forms[idx]) || c.Scripts[idx] == "nil":
				noID, noScript := noTxIDForm(forms[idx]), c.Scripts[idx] == "nil"
				ok := func(e error) bool {
					return e != nil // "is reported as an error": which sentinel, wrapped or not, is not fixed by the statement (benign round 2)
				}
				pre, perr := tx.CalcInputPreimage(uint32(idx), flag)
				sh, herr := tx.CalcInputSignatureHash(uint32(idx), flag)
				if !ok(perr) {
					return fmt.Errorf("CalcInputPreimage(idx=%d, type=0x%02x) = (%s, %v) for an input (form %q, previous script %q) with missing txid=%v (PreviousTxID() has %d bytes, nil=%v) / missing previous script=%v; want an error", idx, ht, clip(pre), perr, forms[idx], c.Scripts[idx], noID, len(tx.Inputs[idx].PreviousTxID()), tx.Inputs[idx].PreviousTxID() == nil, noScript)
				}
				if !ok(herr) {
					return fmt.Errorf("CalcInputSignatureHash(idx=%d, type=0x%02x) = (%x, %v) for an input (form %q, previous script %q) with missing txid=%v / missing previous script=%v; want an error", idx, ht, sh, herr, forms[idx], c.Scripts[idx], noID, noScript)
				}
				label = fmt.Sprintf("err:no_txid=%v(%s):no_script=%v", noID, forms[idx], noScript)
				if !noID {
					label = "err:no_script"
				}
			default:
				// a complete input
				othersNil, othersNoID := nilSlots > 0, placeholders > 0
				acp := ht&0x80 != 0
				if othersNil && !acp {
					label = "not_asked:digest_over_an_empty_slot"
					break
				}
				pre, perr := tx.CalcInputPreimage(uint32(idx), flag)
				sh, herr := tx.CalcInputSignatureHash(uint32(idx), flag)
				if othersNoID || othersNil {
					l, err := judgePartial(m, idx, ht, pre, perr, sh, herr)
					if err != nil {
						return fmt.Errorf("forms %v: %v", forms, err)
					}
					label = l
					if othersNil {
						label += ":with_empty_slot"
					}
					// where the placeholder sits relative to the signed input
					for j, f := range forms {
						if noTxIDForm(f) {
							if j < idx {
								seen["placeholder_before_signed"] = true
							} else {
								seen["placeholder_after_signed"] = true
							}
						}
					}
					break
				}
				in := m.In[idx]
				wantPre, wantHash := ref.SigHashForkID(m, idx, in.PrevScript, in.PrevSats, uint32(ht))
				if perr != nil || herr != nil {
					return fmt.Errorf("unexpected error idx=%d type=0x%02x (forms %v, scripts %v): preimage err=%v, hash err=%v", idx, ht, forms, c.Scripts, perr, herr)
				}
				if !bytes.Equal(pre, wantPre) {
					d := firstDiff(pre, wantPre)
					return fmt.Errorf("preimage mismatch idx=%d type=0x%02x (forms %v, scripts %v):\n lib %s\n ref %s\n first difference at byte %d (%s)", idx, ht, forms, c.Scripts, clip(pre), clip(wantPre), d, fieldAt(d, len(in.PrevScript)))
				}
				if !bytes.Equal(sh, wantHash) {
					return fmt.Errorf("signature hash mismatch idx=%d type=0x%02x (forms %v): lib %x, want %x", idx, ht, forms, sh, wantHash)
				}
				label = "complete:" + forms[idx] + ":script=" + c.Scripts[idx]
			}
			seen[label] = true
		}
		if after, afterNils := snapshotSparse(tx); !ref.SameSnapshot(before, after) || !sameInts(beforeNils, afterNils) {
			return fmt.Errorf("transaction modified by the sighash calls for idx=%d (forms %v): %s (empty slots %v -> %v)", idx, forms, ref.DiffSnapshot(before, after), beforeNils, afterNils)
		}
	}
	for l := range seen {
		ctx.Label(l)
	}
	if placeholders+nilSlots > 0 {
		ctx.NonTrivial()
	}
	return nil
}

func genPartial(t *rapid.T) PartialCase {
	o := gen.TxOpts{MinIn: 1, MaxIn: 6, MinOut: 0, MaxOut: 4, MaxScript: 80, ScriptEdges: []int{0, 1, 25, 75, 76}}
	c := PartialCase{Src: "gen", Tx: gen.Tx(t, o), Via: "built"}
	if rapid.IntRange(0, 9).Draw(t, "via_txjson") == 0 {
		c.Via = "txjson"
	}
	for i := range c.Tx.In {
		f := "full"
		if rapid.IntRange(0, 1).Draw(t, "incomplete") == 0 {
			f = rapid.SampledFrom(partialForms).Draw(t, "form")
		}
		c.Forms = append(c.Forms, f)
		s := "bytes"
		if rapid.IntRange(0, 2).Draw(t, "script_form_k") == 0 {
			s = rapid.SampledFrom(partialScripts).Draw(t, "script_form")
		}
		c.Scripts = append(c.Scripts, s)
		if rapid.IntRange(0, 5).Draw(t, "unlock_nil") == 0 {
			c.Tx.In[i].Unlock, c.Tx.In[i].UnlockNil = nil, true
		}
	}
	return c
}

// enumPartial: every assignment of forms to the slots of transactions with 1..3 inputs (6 + 36 +
// 216), and every previous-script form for each slot of a two-input transaction next to a
// complete / placeholder / empty neighbour.
func enumPartial(tier string, yield func(PartialCase)) {
	mk := func(n, nout int) ref.Tx {
		m := ref.Tx{Version: 2, LockTime: uint32(500000000 + n)}
		for i := 0; i < n; i++ {
			id := make(pbt.Hex, 32)
			for k := range id {
				id[k] = byte(0x10*(i+1) + k)
			}
			m.In = append(m.In, ref.In{TxID: id, Vout: uint32(i + 1), Seq: uint32(0xfffffffe - i), PrevSats: uint64(1000 * (i + 1)),
				PrevScript: append(pbt.Hex{0x76, 0xa9, 0x14}, append(bytes.Repeat([]byte{byte(0xa0 + i)}, 20), 0x88, 0xac)...), Unlock: pbt.Hex{}})
		}
		for k := 0; k < nout; k++ {
			m.Out = append(m.Out, ref.Out{Sats: uint64(100 * (k + 1)), Script: pbt.Hex{0x51, byte(k)}})
		}
		return m
	}
	for n := 1; n <= 3; n++ {
		total := 1
		for i := 0; i < n; i++ {
			total *= len(partialForms)
		}
		for code := 0; code < total; code++ {
			c := PartialCase{Src: "enum-forms", Tx: mk(n, (code+n)%3), Via: "built"}
			x := code
			for i := 0; i < n; i++ {
				c.Forms = append(c.Forms, partialForms[x%len(partialForms)])
				c.Scripts = append(c.Scripts, "bytes")
				x /= len(partialForms)
			}
			yield(c)
		}
	}
	for _, neighbour := range []string{"full", "zero", "json", "nil"} {
		for _, own := range []string{"full", "jsonfull", "zero", "json"} {
			for _, s := range partialScripts {
				for pos := 0; pos < 2; pos++ {
					c := PartialCase{Src: "enum-scripts", Tx: mk(2, 2), Via: "built", Forms: []string{neighbour, neighbour}, Scripts: []string{"bytes", "bytes"}}
					c.Forms[pos], c.Scripts[pos] = own, s
					yield(c)
				}
			}
		}
	}
	for _, f := range partialForms {
		yield(PartialCase{Src: "enum-txjson", Tx: mk(2, 1), Via: "txjson", Forms: []string{"full", f}, Scripts: []string{"bytes", "bytes"}})
	}
}

func TestPartial(t *testing.T) {
	pbt.Run(t, pbt.Sub[PartialCase]{
		Name: "partial", Quick: 6000, Thorough: 120000,
		Gen:      genPartial,
		Check:    checkPartial,
		Enum:     enumPartial,
		EnumDesc: "every assignment of the six slot forms (complete built / complete from JSON / zero-value / JSON with empty txid / JSON round trip of a zero value / nil slot) to transactions with 1..3 inputs; every previous-script form (bytes / from hex / non-nil object with nil slice / with empty slice / no object) on either slot of a two-input transaction next to a complete, placeholder or empty neighbour; transactions decoded from their JSON form without \"hex\" - x every index incl. one out of range x all 128 hash types with bit 0x40",
	})
}
