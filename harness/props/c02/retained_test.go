package c02

import (
	"bytes"
	"fmt"
	"testing"

	"github.com/libsv/go-bt/v2/sighash"
	"pgregory.net/rapid"

	"verif/harness/gen"
	"verif/harness/pbt"
	"verif/harness/ref"
)

// RetainedCase: several hashes are computed on one transaction and every returned slice is
// kept; at the end each must still be what the specification says it is (a result handed out
// earlier may not be overwritten by a later computation).
type RetainedCase struct {
	Tx    ref.Tx `json:"tx"`
	Idx   []int  `json:"idx"`
	Types []int  `json:"types"`
	// Foreign[i] (may be absent or null): another exported method called before request i, its
	// result written over by the caller (see foreign_test.go)
	Foreign []*Foreign `json:"foreign,omitempty"`
}

func checkRetained(ctx *pbt.Ctx, c RetainedCase) error {
	m := c.Tx
	tx, via := ref.ToLibVia(m)
	ctx.Label("object=" + via)
	type kept struct {
		pre, hash, wantPre, wantHash []byte
		idx, ht                      int
	}
	var ks []kept
	var scribbled scribbler
	defer scribbled.restore()
	for i := range c.Idx {
		if i < len(c.Foreign) && c.Foreign[i] != nil {
			l, ferr := c.Foreign[i].run(tx, &scribbled)
			if ferr != nil {
				return ferr
			}
			ctx.Label(l)
		}
		idx := c.Idx[i] % len(m.In)
		ht := c.Types[i] & 0xff
		var k kept
		var err1, err2 error
		if legacyEdits {
			ht &^= 0x40
			k.wantPre, k.wantHash = ref.SigHashLegacy(m, idx, m.In[idx].PrevScript, uint32(ht), false)
			k.pre, err1 = tx.CalcInputPreimageLegacy(uint32(idx), sighash.Flag(ht))
		} else {
			ht |= 0x40
			k.wantPre, k.wantHash = ref.SigHashForkID(m, idx, m.In[idx].PrevScript, m.In[idx].PrevSats, uint32(ht))
			k.pre, err1 = tx.CalcInputPreimage(uint32(idx), sighash.Flag(ht))
		}
		k.hash, err2 = tx.CalcInputSignatureHash(uint32(idx), sighash.Flag(ht))
		if err1 != nil || err2 != nil {
			return fmt.Errorf("unexpected error for input %d type %#x: %v / %v", idx, ht, err1, err2)
		}
		k.idx, k.ht = idx, ht
		ks = append(ks, k)
	}
	for i, k := range ks {
		if !bytes.Equal(k.pre, k.wantPre) {
			return fmt.Errorf("the preimage returned by call %d of %d (input %d, type %#x) no longer is the specified one after the later calls:\n got  %x\n want %x", i+1, len(ks), k.idx, k.ht, k.pre, k.wantPre)
		}
		if !bytes.Equal(k.hash, k.wantHash) {
			return fmt.Errorf("the signature hash returned by call %d of %d (input %d, type %#x) no longer is the specified one after the later calls: got %x want %x", i+1, len(ks), k.idx, k.ht, k.hash, k.wantHash)
		}
	}
	// what was returned is the caller's: written over to the end of its capacity, the same requests
	// on the same object must still be answered as specified (the bytes are put back afterwards, so
	// that a library that shares them is reported here and not by some later case)
	var saved [][]byte
	for _, k := range ks {
		for _, b := range [][]byte{k.pre, k.hash} {
			full := b[:cap(b)]
			saved = append(saved, append([]byte{}, full...))
			for j := range full {
				full[j] ^= 0x5a
			}
		}
	}
	var again error
	for i, k := range ks {
		var pre []byte
		if legacyEdits {
			pre, _ = tx.CalcInputPreimageLegacy(uint32(k.idx), sighash.Flag(k.ht))
		} else {
			pre, _ = tx.CalcInputPreimage(uint32(k.idx), sighash.Flag(k.ht))
		}
		h, _ := tx.CalcInputSignatureHash(uint32(k.idx), sighash.Flag(k.ht))
		if !bytes.Equal(pre, k.wantPre) || !bytes.Equal(h, k.wantHash) {
			again = fmt.Errorf("after the caller wrote over the slices returned earlier, request %d of %d (input %d, type %#x) is answered differently: preimage ok=%v, hash %x want %x", i+1, len(ks), k.idx, k.ht, bytes.Equal(pre, k.wantPre), h, k.wantHash)
			break
		}
	}
	n := 0
	for _, k := range ks {
		for _, b := range [][]byte{k.pre, k.hash} {
			copy(b[:cap(b)], saved[n])
			n++
		}
	}
	if again != nil {
		return again
	}
	ctx.Labelf("calls=%d", len(ks))
	if len(ks) >= 2 {
		ctx.NonTrivial()
	}
	return nil
}

func TestRetained(t *testing.T) {
	pbt.Run(t, pbt.Sub[RetainedCase]{
		Name: "retained", Quick: 8000, Thorough: 200000, Precommit: true,
		Gen: func(t *rapid.T) RetainedCase {
			o := gen.TxOpts{MinIn: 1, MaxIn: 4, MinOut: 0, MaxOut: 4, MaxScript: 60, ScriptEdges: []int{0, 1, 25}}
			c := RetainedCase{Tx: gen.Tx(t, o)}
			n := rapid.IntRange(2, 6).Draw(t, "calls")
			for i := 0; i < n; i++ {
				c.Idx = append(c.Idx, rapid.IntRange(0, 3).Draw(t, "idx"))
				c.Types = append(c.Types, rapid.SampledFrom([]int{1, 1, 2, 3, 0x81, 0x82, 0x83, 4, 0x1f}).Draw(t, "type"))
				var f *Foreign
				if rapid.IntRange(0, 2).Draw(t, "foreign") == 0 {
					g := genForeign(t)
					f = &g
				}
				c.Foreign = append(c.Foreign, f)
			}
			return c
		},
		Check: checkRetained,
	})
}
