package c03

import (
	"testing"

	"verif/harness/pbt"
)

// FuzzLegacy (thorough tier): Go's native coverage-guided fuzzer drives the `legacy` generator
// (rapid.MakeFuzz); same oracle.
func FuzzLegacy(f *testing.F) {
	pbt.FuzzSub(f, "C03", pbt.Sub[Case]{Name: subName, Gen: genCase, Check: check})
}
