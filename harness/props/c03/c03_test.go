// Package c03 decides property C03 (legacy signature hash incl. the SIGHASH_SINGLE bug).
package c03

import (
	"bytes"
	"fmt"
	"sync/atomic"
	"testing"

	"github.com/libsv/go-bt/v2/sighash"
	"pgregory.net/rapid"

	"verif/harness/gen"
	"verif/harness/pbt"
	"verif/harness/ref"
)

const subName = "legacy"

var (
	calib   ref.SigHashCalibration
	digests atomic.Int64
	bugHits atomic.Int64
)

func TestMain(m *testing.M) {
	// Calibration first (harness error / exit 2 when the reference does not
	// reproduce all 500 + 500 node vectors).
	calib = ref.MustCalibrateSigHash()
	if !pbt.Replaying() {
		pbt.SetExtra(subName, "calibration_vectors", calib.OKLegacy)
		pbt.SetExtra(subName, "calibration_vectors_bip143", calib.OKBIP143)
	}
	pbt.Main(m)
}

// Case is one transaction; every in-range input index whose previous script is
// recorded is run against all 128 hash types without the FORKID bit.
type Case struct {
	Src string `json:"src"`
	Tx  ref.Tx `json:"tx"`
}

func indices(n int) []int {
	if n <= 16 {
		idx := make([]int, n)
		for i := range idx {
			idx[i] = i
		}
		return idx
	}
	return []int{0, 1, n / 2, n - 1}
}

var one = ref.SigHashOne()

func check(ctx *pbt.Ctx, c Case) error {
	m := c.Tx
	n, nout := len(m.In), len(m.Out)
	tx, via := ref.ToLibVia(m)
	ctx.Label("object=" + via)
	before := ref.Snapshot(tx)
	small := n+nout <= 16

	ctx.Labelf("nin=%s", countClass(n))
	ctx.Labelf("nout=%s", countClass(nout))
	ctx.Label("src=" + c.Src)
	for i, o := range m.Out {
		if len(o.Script) >= 65535 {
			ctx.Labelf("huge_output:first=%v:over256k=%v", i == 0, len(o.Script) > 262144)
		}
	}
	for _, in := range m.In {
		if len(in.Unlock) >= 65535 {
			ctx.Labelf("huge_unlock:over256k=%v", len(in.Unlock) > 262144)
		}
		if len(in.PrevScript) >= 65535 {
			ctx.Labelf("huge_prevscript:over256k=%v", len(in.PrevScript) > 262144)
		}
	}
	if n > nout {
		ctx.Label("nin>nout")
	}
	hasUnlock, noUnlock := false, false
	for _, in := range m.In {
		if in.UnlockNil || len(in.Unlock) == 0 {
			noUnlock = true
		} else {
			hasUnlock = true
		}
	}
	if hasUnlock {
		ctx.Label("some_inputs_already_unlocked")
	}
	if noUnlock {
		ctx.Label("some_inputs_without_unlocking_script")
	}
	var sawBug, sawACPMulti, sawSkipped, compared bool

	for _, idx := range indices(n) {
		in := m.In[idx]
		if in.PrevNil {
			// the statement takes the script code from the input's recorded previous
			// script; an input without one is outside its domain (C02 owns the error)
			sawSkipped = true
			continue
		}
		for ht := 0; ht < 256; ht++ {
			if ht&0x40 != 0 {
				continue
			}
			flag := sighash.Flag(ht)
			pre, perr := tx.CalcInputPreimageLegacy(uint32(idx), flag)
			sh, herr := tx.CalcInputSignatureHash(uint32(idx), flag)
			if perr != nil || herr != nil {
				return fmt.Errorf("unexpected error idx=%d type=0x%02x (%d inputs, %d outputs): preimage err=%v, hash err=%v", idx, ht, n, nout, perr, herr)
			}
			wantPre, wantHash := ref.SigHashLegacy(m, idx, in.PrevScript, uint32(ht), false)
			digests.Add(1)
			compared = true
			bug := ht&0x1f == 3 && idx >= nout
			if bug {
				sawBug = true
				bugHits.Add(1)
				if !bytes.Equal(pre, one) {
					return fmt.Errorf("SIGHASH_SINGLE without matching output (idx=%d, %d outputs, type=0x%02x): preimage is %x, want the constant 01 00..00 (32 bytes)", idx, nout, ht, pre)
				}
				if !bytes.Equal(sh, one) {
					return fmt.Errorf("SIGHASH_SINGLE without matching output (idx=%d, %d outputs, type=0x%02x): signature hash is %x, want the constant 01 00..00 (not hashed)", idx, nout, ht, sh)
				}
				if !bytes.Equal(wantHash, one) { // reference self-check
					panic("harness: reference does not return the constant for the SINGLE-bug shape")
				}
			} else {
				if !bytes.Equal(pre, wantPre) {
					return fmt.Errorf("legacy preimage mismatch idx=%d type=0x%02x (%d inputs, %d outputs):\n lib %s\n ref %s\n first difference at byte %d", idx, ht, n, nout, clip(pre), clip(wantPre), firstDiff(pre, wantPre))
				}
				if !bytes.Equal(sh, wantHash) {
					return fmt.Errorf("legacy signature hash mismatch idx=%d type=0x%02x: lib %x, sha256d(reference preimage) %x", idx, ht, sh, wantHash)
				}
			}
			if ht&0x80 != 0 && n >= 2 {
				sawACPMulti = true
			}
			if small {
				if after := ref.Snapshot(tx); !ref.SameSnapshot(before, after) {
					return fmt.Errorf("transaction modified by legacy sighash call idx=%d type=0x%02x: %s", idx, ht, ref.DiffSnapshot(before, after))
				}
			}
		}
		if !small {
			if after := ref.Snapshot(tx); !ref.SameSnapshot(before, after) {
				return fmt.Errorf("transaction modified by legacy sighash calls for idx=%d (all legacy types): %s", idx, ref.DiffSnapshot(before, after))
			}
		}
	}
	if sawBug {
		ctx.Label("single_bug_shape")
	}
	if sawACPMulti {
		ctx.Label("anyonecanpay_with_2+_inputs")
	}
	if sawSkipped {
		ctx.Label("index_without_prev_script(skipped)")
	}
	if compared { // every compared case covers types other than 0x01
		ctx.NonTrivial()
	}
	ctx.Key(ref.Sha256d(ref.Encode(m, true)))
	return nil
}

func countClass(n int) string {
	switch {
	case n <= 3:
		return fmt.Sprint(n)
	case n <= 8:
		return "4-8"
	case n < 253:
		return "9-252"
	}
	return ">=253"
}

// clip renders at most the first 600 bytes of b as hex.
func clip(b []byte) string {
	if len(b) > 300 {
		return fmt.Sprintf("%x..(%d bytes)", b[:300], len(b))
	}
	return fmt.Sprintf("%x", b)
}

func firstDiff(a, b []byte) int {
	for i := 0; i < len(a) && i < len(b); i++ {
		if a[i] != b[i] {
			return i
		}
	}
	if len(a) < len(b) {
		return len(a)
	}
	return len(b)
}

func genCase(t *rapid.T) Case {
	o := gen.TxOpts{MinIn: 1, MaxIn: 8, MinOut: 0, MaxOut: 8, BigCounts: []int{253, 253, 252, 254, 300}, MaxScript: 600,
		ScriptEdges: []int{0, 1, 2, 25, 75, 76, 252, 253, 254, 255, 256, 520, 521, 600}}
	m := gen.Tx(t, o)
	// more inputs than outputs (the SINGLE-bug shape) weighted up
	if rapid.IntRange(0, 2).Draw(t, "trim_out") == 0 && len(m.Out) > 0 {
		m.Out = m.Out[:rapid.IntRange(0, len(m.Out)-1).Draw(t, "nout_trim")]
	}
	// inputs with / without unlocking scripts already present
	switch rapid.IntRange(0, 3).Draw(t, "unlock_mode") {
	case 0: // none filled yet
		for i := range m.In {
			m.In[i].Unlock, m.In[i].UnlockNil = nil, true
		}
	case 1: // mixed
		for i := range m.In {
			if rapid.Bool().Draw(t, "unlock_nil") {
				m.In[i].Unlock, m.In[i].UnlockNil = nil, true
			}
		}
	}
	// low weight: some *other* input has no recorded previous script yet
	if len(m.In) >= 2 && rapid.IntRange(0, 9).Draw(t, "prevnil") == 0 {
		i := rapid.IntRange(0, len(m.In)-1).Draw(t, "prevnil_at")
		m.In[i].PrevScript, m.In[i].PrevNil = nil, true
	}
	// low weight: script codes that contain OP_CODESEPARATOR bytes (taken verbatim)
	if rapid.IntRange(0, 5).Draw(t, "codesep") == 0 {
		i := rapid.IntRange(0, len(m.In)-1).Draw(t, "codesep_at")
		if !m.In[i].PrevNil {
			s := append(pbt.Hex{0xab}, m.In[i].PrevScript...)
			m.In[i].PrevScript = append(s, 0xab, 0x51, 0xab)
		}
	}
	// script codes (and an output script) that are a standard template or one step away from one
	if rapid.IntRange(0, 3).Draw(t, "template_like") == 0 {
		for i := range m.In {
			if !m.In[i].PrevNil && rapid.IntRange(0, 2).Draw(t, "tpl_in") != 0 {
				m.In[i].PrevScript = gen.TemplateLike(t, "tpl")
			}
		}
		if len(m.Out) > 0 && rapid.Bool().Draw(t, "tpl_out") {
			m.Out[rapid.IntRange(0, len(m.Out)-1).Draw(t, "tpl_out_at")].Script = gen.TemplateLike(t, "tplo")
		}
	}
	if len(m.In) <= 8 && rapid.IntRange(0, 39).Draw(t, "huge") == 0 {
		gen.HugeField(t, &m)
	}
	return Case{Src: "gen", Tx: m}
}

// vectorCases: the 500 node legacy vector transactions with the vector's script
// (verbatim, code separators included) recorded as the previous script of every
// input; all 128 legacy types are run on them.
func vectorCases(yield func(Case)) {
	for _, v := range calib.Legacy {
		m := v.Tx
		m.In = append([]ref.In{}, m.In...)
		for j := range m.In {
			m.In[j].PrevScript = append(pbt.Hex{}, v.Script...)
		}
		yield(Case{Src: "node-vector", Tx: m})
	}
}

// Fresh is a case of the "results are not shared state" sub-check: one (tx, idx,
// type), plus where the caller scribbles on the buffers it got back.
type Fresh struct {
	Tx       ref.Tx `json:"tx"`
	Idx      int    `json:"idx"`
	HashType int    `json:"hash_type"`
	Pos      int    `json:"pos"`  // byte to overwrite (mod length)
	Mask     int    `json:"mask"` // xor mask 1..255
}

// checkFresh: the statement says the SINGLE-bug signature hash IS the constant 1
// (and every other preimage IS the original serialisation) for every call - also
// for a call made after the caller has used, and written into, the slices an
// earlier call handed out. The buffers are restored before returning so that a
// library which hands out shared state does not poison later cases.
func checkFresh(ctx *pbt.Ctx, c Fresh) error {
	m := c.Tx
	tx, via := ref.ToLibVia(m)
	ctx.Label("object=" + via)
	before := ref.Snapshot(tx)
	flag := sighash.Flag(c.HashType)
	in := m.In[c.Idx]
	wantPre, wantHash := ref.SigHashLegacy(m, c.Idx, in.PrevScript, uint32(c.HashType), false)
	bug := c.HashType&0x1f == 3 && c.Idx >= len(m.Out)
	if bug {
		ctx.Label("single_bug_shape")
		ctx.NonTrivial()
	} else {
		ctx.Label("ordinary_shape")
	}
	pre1, err1 := tx.CalcInputPreimageLegacy(uint32(c.Idx), flag)
	sh1, err2 := tx.CalcInputSignatureHash(uint32(c.Idx), flag)
	if err1 != nil || err2 != nil {
		return fmt.Errorf("unexpected error: %v / %v", err1, err2)
	}
	if !bytes.Equal(pre1, wantPre) || !bytes.Equal(sh1, wantHash) {
		return fmt.Errorf("first call already wrong: preimage %s hash %x, want %s / %x", clip(pre1), sh1, clip(wantPre), wantHash)
	}
	// the caller scribbles on what it was given
	pp, hp := c.Pos%len(pre1), (c.Pos+13)%len(sh1) // distinct offsets: both slices may be one and the same buffer
	pre1[pp] ^= byte(c.Mask)
	sh1[hp] ^= byte(c.Mask)
	pre2, err3 := tx.CalcInputPreimageLegacy(uint32(c.Idx), flag)
	sh2, err4 := tx.CalcInputSignatureHash(uint32(c.Idx), flag)
	pre3, _ := ref.ToLib(m).CalcInputPreimageLegacy(uint32(c.Idx), flag) // a different transaction object
	sh3, _ := ref.ToLib(m).CalcInputSignatureHash(uint32(c.Idx), flag)
	after := ref.Snapshot(tx)
	// copy the observations, then undo the scribble (restores shared state if there is any)
	pre2, sh2, pre3, sh3 = append([]byte{}, pre2...), append([]byte{}, sh2...), append([]byte{}, pre3...), append([]byte{}, sh3...)
	sh1[hp] ^= byte(c.Mask)
	pre1[pp] ^= byte(c.Mask)
	if err3 != nil || err4 != nil {
		return fmt.Errorf("unexpected error on second call: %v / %v", err3, err4)
	}
	what := fmt.Sprintf("idx=%d type=0x%02x (%d inputs, %d outputs)", c.Idx, c.HashType, len(m.In), len(m.Out))
	if bug {
		what = "SIGHASH_SINGLE without matching output, " + what
	}
	if !bytes.Equal(pre2, wantPre) || !bytes.Equal(pre3, wantPre) {
		return fmt.Errorf("%s: after the caller wrote into the preimage/hash returned by an earlier call, CalcInputPreimageLegacy returns %s (same tx) / %s (fresh tx object), want %s", what, clip(pre2), clip(pre3), clip(wantPre))
	}
	if !bytes.Equal(sh2, wantHash) || !bytes.Equal(sh3, wantHash) {
		return fmt.Errorf("%s: after the caller wrote into the preimage/hash returned by an earlier call, CalcInputSignatureHash returns %x (same tx) / %x (fresh tx object), want %x", what, sh2, sh3, wantHash)
	}
	if !ref.SameSnapshot(before, after) {
		return fmt.Errorf("%s: writing into the returned buffers changed the transaction: %s", what, ref.DiffSnapshot(before, after))
	}
	return nil
}

func genFresh(t *rapid.T) Fresh {
	o := gen.TxOpts{MinIn: 1, MaxIn: 4, MinOut: 0, MaxOut: 3, MaxScript: 80, ScriptEdges: []int{0, 1, 25, 75, 76}}
	m := gen.Tx(t, o)
	idx := rapid.IntRange(0, len(m.In)-1).Draw(t, "idx")
	ht := rapid.SampledFrom([]int{3, 3, 0x83, 1, 2, 0x81, 0x82, 0, 0x23}).Draw(t, "type")
	return Fresh{Tx: m, Idx: idx, HashType: ht, Pos: rapid.IntRange(0, 40).Draw(t, "pos"), Mask: rapid.IntRange(1, 255).Draw(t, "mask")}
}

func TestResultsNotShared(t *testing.T) {
	pbt.Run(t, pbt.Sub[Fresh]{
		Name: "results_not_shared", Quick: 6000, Thorough: 60000,
		Gen:   genFresh,
		Check: checkFresh,
	})
}

func TestLegacy(t *testing.T) {
	pbt.Run(t, pbt.Sub[Case]{
		Name: subName, Quick: 4800, Thorough: 36000,
		Gen:      genCase,
		Check:    check,
		Enum:     func(tier string, yield func(Case)) { vectorCases(yield); countSweep(tier, yield) },
		EnumDesc: "the 500 node-generated legacy vector transactions (script recorded verbatim as previous script of every input) x every input index x all 128 hash types without bit 0x40; every input count 1..140 (x output count 0 / 1 / equal) with all-final and with mixed sequence numbers",
	})
	pbt.SetExtra(subName, "sum_digest_pairs_compared", digests.Load())
	pbt.SetExtra(subName, "sum_single_bug_pairs", bugHits.Load())
}

// countSweep yields a transaction for every input count 1..140 (quick: every count up to 70, then
// every third) - tables, fast paths and pre-sized buffers have their edge at some count, usually a
// power of two - with 0, 1 or as many outputs, once with all sequence numbers final and once mixed.
func countSweep(tier string, yield func(Case)) {
	for n := 1; n <= 140; n++ {
		if tier != "thorough" && n > 70 && n%3 != 0 {
			continue
		}
		for _, nout := range []int{0, 1, n} {
			for _, final := range []bool{true, false} {
				m := ref.Tx{Version: 1, LockTime: uint32(n)}
				for i := 0; i < n; i++ {
					id := make(pbt.Hex, 32)
					id[0], id[1], id[31] = byte(i), byte(i>>8), byte(n)
					seq := uint32(0xffffffff)
					if !final && i%2 == 1 {
						seq = uint32(i)
					}
					m.In = append(m.In, ref.In{TxID: id, Vout: uint32(i), Seq: seq, PrevSats: uint64(1000 + i), PrevScript: pbt.Hex{0x76, 0xa9, byte(i), 0x88, 0xac}, Unlock: pbt.Hex{}})
				}
				for k := 0; k < nout; k++ {
					m.Out = append(m.Out, ref.Out{Sats: uint64(k + 1), Script: pbt.Hex{0x51, byte(k)}})
				}
				yield(Case{Src: "count-sweep", Tx: m})
			}
		}
	}
}
