package c03

import (
	"bytes"
	"fmt"
	"sync"
	"testing"

	"github.com/libsv/go-bt/v2"
	"github.com/libsv/go-bt/v2/sighash"
	"pgregory.net/rapid"

	"verif/harness/gen"
	"verif/harness/pbt"
	"verif/harness/ref"
)

// ConcCase: the hash functions read the transaction and nothing else, so several goroutines may
// ask one shared object at the same time (a validator checks the inputs of one transaction in
// parallel). Every answer must be the specified one and the object must be what it was - a
// function that changes the transaction while it works and puts it back afterwards modifies it
// all the same, and the other callers see it. The goroutine schedule is the only thing not drawn.
type ConcCase struct {
	Tx         ref.Tx `json:"tx"`
	Idx        []int  `json:"idx"`
	Types      []int  `json:"types"`
	Goroutines int    `json:"goroutines"`
	Rounds     int    `json:"rounds"`
	// Own gives every goroutine a transaction object of its own (the drawn one with its lock time,
	// one sequence number and one outpoint index changed per goroutine): unrelated objects hashed
	// at the same moment may share nothing either, whatever the package keeps between calls.
	Own bool `json:"own,omitempty"`
}

func checkConcurrent(ctx *pbt.Ctx, c ConcCase) error {
	m := c.Tx
	if len(m.In) == 0 || len(c.Idx) == 0 || len(c.Idx) != len(c.Types) || c.Goroutines < 2 || c.Goroutines > 16 || c.Rounds < 1 || c.Rounds > 200 {
		ctx.Discard("malformed case")
		return nil
	}
	type req struct {
		idx, ht           int
		wantPre, wantHash []byte
	}
	nObj := 1
	if c.Own {
		nObj = c.Goroutines
	}
	models := make([]ref.Tx, nObj)
	allReqs := make([][]req, nObj)
	txs := make([]*bt.Tx, nObj)
	befores := make([]ref.Tx, nObj)
	for o := 0; o < nObj; o++ {
		mo := m
		if o > 0 {
			mo.In = append([]ref.In{}, m.In...)
			mo.LockTime += uint32(o)
			mo.In[o%len(mo.In)].Seq ^= uint32(o + 1)
			mo.In[(o+1)%len(mo.In)].Vout += uint32(o)
		}
		models[o] = mo
		reqs := make([]req, len(c.Idx))
		for i := range c.Idx {
			idx := c.Idx[i] % len(mo.In)
			ht := c.Types[i] & 0xff
			r := req{idx: idx}
			if legacyEdits {
				ht &^= 0x40
				r.wantPre, r.wantHash = ref.SigHashLegacy(mo, idx, mo.In[idx].PrevScript, uint32(ht), false)
			} else {
				ht |= 0x40
				r.wantPre, r.wantHash = ref.SigHashForkID(mo, idx, mo.In[idx].PrevScript, mo.In[idx].PrevSats, uint32(ht))
			}
			r.ht = ht
			reqs[i] = r
		}
		allReqs[o] = reqs
		var via string
		txs[o], via = ref.ToLibVia(mo)
		if o == 0 {
			ctx.Label("object=" + via)
		}
		befores[o] = ref.Snapshot(txs[o])
	}
	what := "one shared transaction"
	if c.Own {
		what = "a transaction of their own each"
		ctx.Label("own_objects")
	}
	ctx.Labelf("inputs=%s", map[bool]string{true: ">32", false: "<=32"}[len(m.In) > 32])
	var mu sync.Mutex
	var first error
	var wg sync.WaitGroup
	start := make(chan struct{})
	for g := 0; g < c.Goroutines; g++ {
		wg.Add(1)
		go func(g int) {
			defer wg.Done()
			<-start
			tx, reqs := txs[g%nObj], allReqs[g%nObj]
			for round := 0; round < c.Rounds; round++ {
				for k := g % len(reqs); k < len(reqs); k += 1 + g%3 {
					r := reqs[k]
					var pre []byte
					var err error
					if legacyEdits {
						pre, err = tx.CalcInputPreimageLegacy(uint32(r.idx), sighash.Flag(r.ht))
					} else {
						pre, err = tx.CalcInputPreimage(uint32(r.idx), sighash.Flag(r.ht))
					}
					h, err2 := tx.CalcInputSignatureHash(uint32(r.idx), sighash.Flag(r.ht))
					var bad error
					switch {
					case err != nil || err2 != nil:
						bad = fmt.Errorf("input %d type %#x: error %v / %v while %d goroutines hash %s", r.idx, r.ht, err, err2, c.Goroutines, what)
					case !bytes.Equal(pre, r.wantPre):
						bad = fmt.Errorf("input %d type %#x: preimage differs from the specified one while %d goroutines hash %s:\n got  %x\n want %x", r.idx, r.ht, c.Goroutines, what, clipB(pre), clipB(r.wantPre))
					case !bytes.Equal(h, r.wantHash):
						bad = fmt.Errorf("input %d type %#x: signature hash %x, specified %x, while %d goroutines hash %s", r.idx, r.ht, h, r.wantHash, c.Goroutines, what)
					}
					if bad != nil {
						mu.Lock()
						if first == nil {
							first = bad
						}
						mu.Unlock()
						return
					}
				}
			}
		}(g)
	}
	close(start)
	wg.Wait()
	if first != nil {
		return first
	}
	for o := range txs {
		if after := ref.Snapshot(txs[o]); !ref.SameSnapshot(befores[o], after) {
			return fmt.Errorf("transaction changed by concurrent hash calls: %s", ref.DiffSnapshot(befores[o], after))
		}
	}
	ctx.Labelf("goroutines=%d", c.Goroutines)
	if len(c.Idx) >= 2 {
		ctx.NonTrivial()
	}
	return nil
}

func TestConcurrent(t *testing.T) {
	pbt.Run(t, pbt.Sub[ConcCase]{
		Name: "concurrent", Quick: 1200, Thorough: 24000,
		Gen: func(t *rapid.T) ConcCase {
			o := gen.TxOpts{MinIn: 2, MaxIn: 6, MinOut: 0, MaxOut: 4, MaxScript: 60, ScriptEdges: []int{0, 1, 25}}
			if rapid.IntRange(0, 3).Draw(t, "many_inputs") == 0 { // counts on both sides of 16, 32, 64, 128 and of the varint boundary
				k := rapid.SampledFrom([]int{15, 16, 17, 31, 32, 33, 40, 63, 64, 65, 100, 127, 128, 129, 140, 252, 253, 300}).Draw(t, "nin")
				o.MinIn, o.MaxIn, o.MaxScript = k, k, 30
			}
			c := ConcCase{Tx: gen.Tx(t, o)}
			c.Own = rapid.Bool().Draw(t, "own")
			n := rapid.IntRange(2, 8).Draw(t, "requests")
			for i := 0; i < n; i++ {
				c.Idx = append(c.Idx, rapid.IntRange(0, len(c.Tx.In)-1).Draw(t, "idx"))
				c.Types = append(c.Types, rapid.SampledFrom([]int{1, 2, 3, 0x81, 0x82, 0x83, 0, 4, 0x1f}).Draw(t, "type"))
			}
			c.Goroutines = rapid.SampledFrom([]int{2, 3, 4, 8}).Draw(t, "goroutines")
			c.Rounds = rapid.SampledFrom([]int{5, 20, 50}).Draw(t, "rounds")
			return c
		},
		Check: checkConcurrent,
	})
}

func clipB(b []byte) []byte {
	if len(b) > 300 {
		return b[:300]
	}
	return b
}
