package c16

import (
	"encoding/json"
	"fmt"
	"testing"

	"github.com/libsv/go-bt/v2"
	"pgregory.net/rapid"

	"verif/harness/pbt"
	"verif/harness/ref"
)

// ---------------------------------------------------------------------------
// sub-check 4: lists, two calls, retained results.
//
// Two lists A and B (bt.UTXOs or bt.Txs; 0, 1, 2, 3, a few or hundreds of
// elements; nil or empty when 0) go through the same dialect one after the
// other. Every position of a list is different from its neighbours (1..4
// drawn elements are repeated with the amount moved by a step per round and
// vout / version counted up), zero amounts and empty scripts alternate with
// full ones, amounts sit on decimal boundaries. B is unmarshalled into a fresh
// list or into the very list object that received A. After the second call:
// B's result is B; A's result (when its object was not reused) is still A;
// the JSON text kept from A still decodes to A.
// ---------------------------------------------------------------------------

// ListSpec describes a list compactly: element k is Elems[k mod n] (Txs[k mod n])
// of round r = k div n, with amount (Sats + r*Step) mod (21e14+1) and vout+r
// (UTXOs), version+r (transactions).
type ListSpec struct {
	Elems []UModel `json:"elems,omitempty"`
	Txs   []ref.Tx `json:"txs,omitempty"`
	Count int      `json:"count"`
	Step  uint64   `json:"step,omitempty"`
	Nil   bool     `json:"nil,omitempty"` // Count == 0: a nil list instead of an empty one
}

// Lists is one case.
type Lists struct {
	Kind    string   `json:"kind"`    // utxos | txs
	Dialect string   `json:"dialect"` // lib | node
	A       ListSpec `json:"a"`
	B       ListSpec `json:"b"`
	Into    string   `json:"into"` // fresh | over-a
	// UseA: before B goes through, the caller uses the list it decoded from A -
	// every element edited in place through the exported pointers (scripts
	// appended to with the builder methods, amounts, vout, an output added).
	UseA     bool    `json:"use_a,omitempty"`
	UseBytes pbt.Hex `json:"use_bytes,omitempty"`
}

func (s ListSpec) utxo(k int) UModel {
	n := len(s.Elems)
	e := cloneU(s.Elems[k%n])
	r := uint64(k / n)
	e.Sats = (e.Sats + r*(s.Step%(MaxSats+1))) % (MaxSats + 1)
	e.Vout += uint32(r)
	return e
}

func (s ListSpec) tx(k int) ref.Tx {
	n := len(s.Txs)
	m := cloneModel(s.Txs[k%n])
	m.Version += uint32(k / n)
	return m
}

func (s ListSpec) ok(kind string) bool {
	if s.Count < 0 || s.Count > 2000 {
		return false
	}
	if kind == "utxos" {
		for _, e := range s.Elems {
			if e.Sats > MaxSats || len(e.TxID) != 32 {
				return false
			}
		}
		return s.Count == 0 || len(s.Elems) > 0
	}
	for _, m := range s.Txs {
		if len(m.In) == 0 && len(m.Out) == 0 {
			return false // keeps clear of the ambiguous empty shape whatever the round does to the fields
		}
		for _, in := range m.In {
			if len(in.TxID) != 32 {
				return false
			}
		}
	}
	return s.Count == 0 || len(s.Txs) > 0
}

func checkLists(ctx *pbt.Ctx, c Lists) error {
	if (c.Kind != "utxos" && c.Kind != "txs") || (c.Dialect != "lib" && c.Dialect != "node") || !c.A.ok(c.Kind) || !c.B.ok(c.Kind) {
		ctx.Discard("outside domain")
		return nil
	}
	node := c.Dialect == "node"
	type side struct {
		spec  ListSpec
		js    []byte
		utxos *bt.UTXOs
		txs   *bt.Txs
		live  bool // the object still is this side's result
	}
	marshal := func(s ListSpec) ([]byte, error) {
		if c.Kind == "utxos" {
			var l bt.UTXOs
			if !(s.Count == 0 && s.Nil) {
				l = make(bt.UTXOs, 0, s.Count)
			}
			for k := 0; k < s.Count; k++ {
				l = append(l, libUTXO(s.utxo(k)))
			}
			if node {
				return json.Marshal(l.NodeJSON())
			}
			return json.Marshal(l)
		}
		var l bt.Txs
		if !(s.Count == 0 && s.Nil) {
			l = make(bt.Txs, 0, s.Count)
		}
		for k := 0; k < s.Count; k++ {
			l = append(l, ref.ToLib(s.tx(k)))
		}
		if node {
			return json.Marshal(l.NodeJSON())
		}
		return json.Marshal(l)
	}
	verify := func(what string, sd *side) error {
		s := sd.spec
		if c.Kind == "utxos" {
			g := *sd.utxos
			if len(g) != s.Count {
				return fmt.Errorf("%s: %d utxos, %d were marshalled (JSON %s)", what, len(g), s.Count, clip(sd.js))
			}
			for k := range g {
				if err := sameUTXOAsModel(fmt.Sprintf("%s[%d of %d]", what, k, s.Count), g[k], s.utxo(k)); err != nil {
					return err
				}
			}
			return nil
		}
		g := *sd.txs
		if len(g) != s.Count {
			return fmt.Errorf("%s: %d transactions, %d were marshalled", what, len(g), s.Count)
		}
		for k := range g {
			if err := sameTxAsModel(fmt.Sprintf("%s[%d of %d]", what, k, s.Count), g[k], s.tx(k)); err != nil {
				return err
			}
		}
		return nil
	}
	unmarshal := func(sd *side) error {
		if c.Kind == "utxos" {
			if sd.utxos == nil {
				sd.utxos = new(bt.UTXOs)
			}
			if node {
				return json.Unmarshal(sd.js, sd.utxos.NodeJSON())
			}
			return json.Unmarshal(sd.js, sd.utxos)
		}
		if sd.txs == nil {
			sd.txs = new(bt.Txs)
		}
		if node {
			return json.Unmarshal(sd.js, sd.txs.NodeJSON())
		}
		return json.Unmarshal(sd.js, sd.txs)
	}

	a, b := &side{spec: c.A, live: true}, &side{spec: c.B, live: true}
	var err error
	// first call
	if a.js, err = marshal(a.spec); err != nil {
		ctx.Label("marshal_error:" + c.Kind + "." + c.Dialect)
		return nil
	}
	a.js = append([]byte{}, a.js...)
	if err = unmarshal(a); err != nil {
		return fmt.Errorf("list A (%s %s) does not unmarshal: %v (JSON %s)", c.Kind, c.Dialect, err, clip(a.js))
	}
	var undo undoList
	defer undo.run()
	if c.UseA && c.Into != "over-a" {
		st := HStep{B: c.UseBytes, U64: uint64(len(c.UseBytes))}
		if a.utxos != nil {
			for _, g := range *a.utxos {
				useUTXO(g, st, &undo)
			}
		}
		if a.txs != nil {
			for _, g := range *a.txs {
				useTx(g, st, &undo)
			}
		}
		a.live = false
		ctx.Label("a-used-in-place-before-b")
	}
	// second call
	if b.js, err = marshal(b.spec); err != nil {
		ctx.Label("marshal_error:" + c.Kind + "." + c.Dialect)
		return nil
	}
	if c.Into == "over-a" {
		b.utxos, b.txs, a.live = a.utxos, a.txs, false
	}
	if err = unmarshal(b); err != nil {
		return fmt.Errorf("list B (%s %s, %s) does not unmarshal: %v (JSON %s)", c.Kind, c.Dialect, c.Into, err, clip(b.js))
	}
	// everything examined after the second call
	if err = verify(fmt.Sprintf("%s %s list B unmarshalled (%s) after list A", c.Kind, c.Dialect, c.Into), b); err != nil {
		return err
	}
	if a.live {
		if err = verify(fmt.Sprintf("%s %s list A, kept while list B went through", c.Kind, c.Dialect), a); err != nil {
			return err
		}
	}
	again := &side{spec: c.A, js: a.js}
	if err = unmarshal(again); err != nil {
		return fmt.Errorf("JSON text of list A kept while list B went through does not unmarshal: %v", err)
	}
	if err = verify(fmt.Sprintf("%s %s JSON text of list A decoded after list B went through", c.Kind, c.Dialect), again); err != nil {
		return err
	}

	ctx.Label(c.Kind + "." + c.Dialect + ":" + c.Into)
	ctx.Label("count_a=" + listClass(c.A.Count))
	ctx.Label("count_b=" + listClass(c.B.Count))
	switch {
	case c.B.Count < c.A.Count:
		ctx.Label("b-shorter")
	case c.B.Count > c.A.Count:
		ctx.Label("b-longer")
	}
	if c.A.Count+c.B.Count >= 2 {
		ctx.NonTrivial()
	}
	return nil
}

func listClass(n int) string {
	switch {
	case n <= 3:
		return fmt.Sprint(n)
	case n <= 24:
		return "4-24"
	case n <= 252:
		return "25-252"
	}
	return ">=253"
}

func genListSpec(t *rapid.T, kind, label string) ListSpec {
	var s ListSpec
	counts := []int{0, 0, 1, 1, 2, 2, 3, 5, 8, 24}
	if kind == "utxos" {
		counts = append(counts, 100, 252, 253, 300)
	} else {
		counts = append(counts, 40)
	}
	s.Count = rapid.SampledFrom(counts).Draw(t, label+"_count")
	s.Nil = s.Count == 0 && rapid.Bool().Draw(t, label+"_nil")
	n := rapid.IntRange(1, 4).Draw(t, label+"_distinct")
	if kind == "utxos" {
		for i := 0; i < n; i++ {
			e := genUModel(t, label+"_e")
			if i%2 == 1 && rapid.Bool().Draw(t, label+"_zero") { // a zero / empty element right after a full one
				e.Sats, e.Script = 0, pbt.Hex{}
			}
			s.Elems = append(s.Elems, e)
		}
		s.Step = rapid.SampledFrom([]uint64{0, 1, 3, 7, 999, 100000000, 99999999, 123456789012}).Draw(t, label+"_step")
		return s
	}
	for i := 0; i < n; i++ {
		m := genHistTxModel(t, label+"_tx")
		if len(m.In) == 0 && len(m.Out) == 0 {
			m.Out = append(m.Out, ref.Out{Sats: genSats(t, label+"_filler"), Script: pbt.Hex{0x51}})
		}
		s.Txs = append(s.Txs, m)
	}
	return s
}

func genLists(t *rapid.T) Lists {
	c := Lists{Kind: rapid.SampledFrom([]string{"utxos", "utxos", "txs"}).Draw(t, "kind"),
		Dialect: rapid.SampledFrom([]string{"lib", "node"}).Draw(t, "dialect"),
		Into:    rapid.SampledFrom([]string{"fresh", "fresh", "over-a"}).Draw(t, "into")}
	c.A, c.B = genListSpec(t, c.Kind, "a"), genListSpec(t, c.Kind, "b")
	if rapid.IntRange(0, 2).Draw(t, "use_a") == 0 {
		c.UseA, c.UseBytes = true, rapid.SliceOfN(rapid.Byte(), 0, 3).Draw(t, "use_bytes")
	}
	return c
}

func TestLists(t *testing.T) {
	pbt.Run(t, pbt.Sub[Lists]{
		Name: "lists", Quick: 18000, Thorough: 400000,
		Gen:   genLists,
		Check: checkLists,
	})
}
