package c16

import (
	"bytes"
	"encoding/json"
	"fmt"
	"testing"

	"github.com/libsv/go-bt/v2"
	"github.com/libsv/go-bt/v2/bscript"
	"pgregory.net/rapid"

	"verif/harness/gen"
	"verif/harness/pbt"
	"verif/harness/ref"
)

// ---------------------------------------------------------------------------
// sub-check 5: decode targets that are USED objects with internal sharing.
//
// The library keeps the script pointers it is given (PayTo, AddOutput, From /
// FromUTXOs; Clone copies the previous-script pointers), so a transaction built
// the ordinary way often has several outputs - or several inputs' unlocking and
// previous scripts, or two transactions, or a list of UTXOs - holding ONE
// *bscript.Script object. Such an object is the decode target here:
// json.Unmarshal(js, &tx.Outputs), (js, &tx.Inputs), (js, &utxos), (js, &txs)
// (encoding/json reuses the existing elements) and the single forms into one
// element (either dialect). After the unmarshal the target must equal the
// document element by element, and a bystander - another transaction that held
// the same script objects before the decode, or the transaction the target was
// cloned from - must still read what it read before.
// ---------------------------------------------------------------------------

// Shared is one case. Doc elements reuse UModel: outputs (Sats, Script), UTXOs (all
// four), inputs (TxID, Vout, Script = unlocking script, Sats mod 2^32 = sequence).
type Shared struct {
	Kind    string    `json:"kind"`    // outputs | inputs | utxos | txs | output | utxo
	Dialect string    `json:"dialect"` // lib | node (node: output, utxo, utxos, txs)
	Doc     []UModel  `json:"doc,omitempty"`
	DocTxs  []ref.Tx  `json:"doc_txs,omitempty"`
	Scripts []pbt.Hex `json:"scripts"`   // the script OBJECTS the caller created (contents)
	Target  []int     `json:"target"`    // target element i holds script object Target[i]
	Unlock  []int     `json:"unlock"`    // inputs: unlocking script object per target input (-1 = nil)
	Bystand []int     `json:"bystander"` // script objects held by the bystander transaction's outputs
	Via     string    `json:"via"`       // outputs: payto | addoutput; inputs / txs: direct | clone
	At      int       `json:"at"`        // single forms: the target element decoded into
}

func (c Shared) ok() bool {
	if len(c.Scripts) == 0 || len(c.Scripts) > 8 || len(c.Target) > 64 {
		return false
	}
	for _, l := range [][]int{c.Target, c.Bystand} {
		for _, k := range l {
			if k < 0 || k >= len(c.Scripts) {
				return false
			}
		}
	}
	for _, k := range c.Unlock {
		if k < -1 || k >= len(c.Scripts) {
			return false
		}
	}
	for _, d := range c.Doc {
		if d.Sats > MaxSats || (c.Kind != "outputs" && c.Kind != "output" && len(d.TxID) != 32) {
			return false
		}
	}
	for _, m := range c.DocTxs {
		if ref.Ambiguous(m) {
			return false
		}
		for _, in := range m.In {
			if len(in.TxID) != 32 {
				return false
			}
		}
	}
	return true
}

func checkShared(ctx *pbt.Ctx, c Shared) error {
	if !c.ok() {
		ctx.Discard("outside domain")
		return nil
	}
	node := c.Dialect == "node"
	// the caller's script objects
	sp := make([]*bscript.Script, len(c.Scripts))
	for k := range sp {
		sp[k] = bscript.NewFromBytes(append([]byte{}, c.Scripts[k]...))
	}
	// the bystander: an unrelated transaction paying to the same script objects
	by := bt.NewTx()
	for i, k := range c.Bystand {
		by.AddOutput(&bt.Output{Satoshis: uint64(1000 + i), LockingScript: sp[k]})
	}
	byModel := ref.Tx{Version: 1}
	for i, k := range c.Bystand {
		byModel.Out = append(byModel.Out, ref.Out{Sats: uint64(1000 + i), Script: append(pbt.Hex{}, c.Scripts[k]...)})
	}
	txid := func(i int) []byte { return bytes.Repeat([]byte{byte(0x30 + i)}, 32) }

	// the target, built the ordinary way, elements sharing script objects
	tgt := bt.NewTx()
	var utxos bt.UTXOs
	var txs bt.Txs
	var origin *bt.Tx // the transaction the target was cloned from (a second bystander)
	var originModel ref.Tx
	switch c.Kind {
	case "outputs", "output":
		for i, k := range c.Target {
			if c.Via == "payto" && sp[k].IsP2PKH() { // PayTo takes P2PKH scripts only
				if err := tgt.PayTo(sp[k], uint64(i+1)); err != nil {
					return fmt.Errorf("harness: PayTo: %v", err)
				}
			} else {
				tgt.AddOutput(&bt.Output{Satoshis: uint64(i + 1), LockingScript: sp[k]})
			}
		}
	case "inputs":
		for i, k := range c.Target {
			if err := tgt.FromUTXOs(&bt.UTXO{TxID: txid(i), Vout: uint32(i), LockingScript: sp[k], Satoshis: uint64(i + 5)}); err != nil {
				return fmt.Errorf("harness: FromUTXOs: %v", err)
			}
			if i < len(c.Unlock) && c.Unlock[i] >= 0 {
				tgt.Inputs[i].UnlockingScript = sp[c.Unlock[i]]
			}
		}
		tgt.AddOutput(&bt.Output{Satoshis: 1, LockingScript: bscript.NewFromBytes([]byte{0x51})})
		if c.Via == "clone" { // Clone copies the previous-script pointers: the clone is decoded into, the original stands by
			origin, originModel = tgt, ref.FromLib(tgt)
			tgt = tgt.Clone()
		}
	case "utxos", "utxo":
		shared := txid(0) // the elements also share one txid slice
		for i, k := range c.Target {
			utxos = append(utxos, &bt.UTXO{TxID: shared, Vout: uint32(i), LockingScript: sp[k], Satoshis: uint64(i + 5)})
		}
	case "txs":
		for i, k := range c.Target { // transactions of the list share script objects with each other and with the bystander
			t := bt.NewTx()
			_ = t.FromUTXOs(&bt.UTXO{TxID: txid(i), Vout: 0, LockingScript: sp[k], Satoshis: 9})
			t.AddOutput(&bt.Output{Satoshis: 3, LockingScript: sp[k]})
			t.AddOutput(&bt.Output{Satoshis: 4, LockingScript: sp[c.Target[(i+1)%len(c.Target)]]})
			txs = append(txs, t)
		}
	default:
		ctx.Discard("malformed case")
		return nil
	}

	// the document: fresh objects from the model, marshalled
	var js []byte
	var err error
	switch c.Kind {
	case "outputs":
		l := make([]*bt.Output, 0, len(c.Doc))
		for _, d := range c.Doc {
			l = append(l, libOutput(d))
		}
		js, err = json.Marshal(l)
	case "inputs":
		m := ref.Tx{}
		for _, d := range c.Doc {
			m.In = append(m.In, ref.In{TxID: d.TxID, Vout: d.Vout, Seq: uint32(d.Sats), Unlock: d.Script})
		}
		l := ref.ToLib(m).Inputs
		if l == nil {
			l = []*bt.Input{}
		}
		js, err = json.Marshal(l)
	case "utxos":
		l := make(bt.UTXOs, 0, len(c.Doc))
		for _, d := range c.Doc {
			l = append(l, libUTXO(d))
		}
		if node {
			js, err = json.Marshal(l.NodeJSON())
		} else {
			js, err = json.Marshal(l)
		}
	case "txs":
		l := make(bt.Txs, 0, len(c.DocTxs))
		for _, m := range c.DocTxs {
			l = append(l, ref.ToLib(m))
		}
		if node {
			js, err = json.Marshal(l.NodeJSON())
		} else {
			js, err = json.Marshal(l)
		}
	case "output":
		if len(c.Doc) == 0 || len(tgt.Outputs) == 0 {
			ctx.Discard("nothing to decode into")
			return nil
		}
		o := libOutput(c.Doc[0])
		if node {
			js, err = json.Marshal(o.NodeJSON())
		} else {
			js, err = json.Marshal(o)
		}
	case "utxo":
		if len(c.Doc) == 0 || len(utxos) == 0 {
			ctx.Discard("nothing to decode into")
			return nil
		}
		u := libUTXO(c.Doc[0])
		if node {
			js, err = json.Marshal(u.NodeJSON())
		} else {
			js, err = json.Marshal(u)
		}
	}
	if err != nil {
		ctx.Label("marshal_error:" + c.Kind + "." + c.Dialect)
		return nil
	}

	// what the elements NOT decoded into read before (single forms)
	at := 0
	var restBefore [][]byte
	if c.Kind == "output" {
		at = c.At % len(tgt.Outputs)
		for _, o := range tgt.Outputs {
			restBefore = append(restBefore, append([]byte{}, *o.LockingScript...))
		}
	}
	if c.Kind == "utxo" {
		at = c.At % len(utxos)
		for _, u := range utxos {
			restBefore = append(restBefore, append(append([]byte{}, u.TxID...), *u.LockingScript...))
		}
	}

	// the unmarshal into the used object
	switch c.Kind {
	case "outputs":
		err = json.Unmarshal(js, &tgt.Outputs)
	case "inputs":
		err = json.Unmarshal(js, &tgt.Inputs)
	case "utxos":
		if node {
			err = json.Unmarshal(js, utxos.NodeJSON())
		} else {
			err = json.Unmarshal(js, &utxos)
		}
	case "txs":
		if node {
			err = json.Unmarshal(js, txs.NodeJSON())
		} else {
			err = json.Unmarshal(js, &txs)
		}
	case "output":
		if node {
			err = json.Unmarshal(js, tgt.Outputs[at].NodeJSON())
		} else {
			err = json.Unmarshal(js, tgt.Outputs[at])
		}
	case "utxo":
		if node {
			err = json.Unmarshal(js, utxos[at].NodeJSON())
		} else {
			err = json.Unmarshal(js, utxos[at])
		}
	}
	what := fmt.Sprintf("%s %s JSON unmarshalled into a used target (%d elements sharing %d script objects, built via %s)", c.Kind, c.Dialect, len(c.Target), len(c.Scripts), c.Via)
	if err != nil {
		return fmt.Errorf("%s does not unmarshal: %v (JSON %s)", what, err, clip(js))
	}

	// 1. the target equals the document
	switch c.Kind {
	case "outputs":
		if len(tgt.Outputs) != len(c.Doc) {
			return fmt.Errorf("%s: %d outputs, the document has %d", what, len(tgt.Outputs), len(c.Doc))
		}
		for i, d := range c.Doc {
			if err := sameOutputAsModel(fmt.Sprintf("%s: output %d of %d", what, i, len(c.Doc)), tgt.Outputs[i], d); err != nil {
				return fmt.Errorf("%v (JSON %s)", err, clip(js))
			}
		}
	case "inputs":
		if len(tgt.Inputs) != len(c.Doc) {
			return fmt.Errorf("%s: %d inputs, the document has %d", what, len(tgt.Inputs), len(c.Doc))
		}
		for i, d := range c.Doc {
			in := tgt.Inputs[i]
			if in == nil || !bytes.Equal(in.PreviousTxID(), d.TxID) || in.PreviousTxOutIndex != d.Vout || in.SequenceNumber != uint32(d.Sats) || !sameBytes(scriptBytes(in.UnlockingScript), d.Script) {
				return fmt.Errorf("%s: input %d of %d is {%x:%d seq %d unlock %x}, the document has {%x:%d seq %d unlock %x} (JSON %s)", what, i, len(c.Doc),
					in.PreviousTxID(), in.PreviousTxOutIndex, in.SequenceNumber, scriptBytes(in.UnlockingScript), []byte(d.TxID), d.Vout, uint32(d.Sats), []byte(d.Script), clip(js))
			}
		}
	case "utxos":
		if len(utxos) != len(c.Doc) {
			return fmt.Errorf("%s: %d utxos, the document has %d", what, len(utxos), len(c.Doc))
		}
		for i, d := range c.Doc {
			if err := sameUTXOAsModel(fmt.Sprintf("%s: utxo %d of %d", what, i, len(c.Doc)), utxos[i], d); err != nil {
				return err
			}
		}
	case "txs":
		if len(txs) != len(c.DocTxs) {
			return fmt.Errorf("%s: %d transactions, the document has %d", what, len(txs), len(c.DocTxs))
		}
		for i, m := range c.DocTxs {
			if err := sameTxAsModel(fmt.Sprintf("%s: transaction %d of %d", what, i, len(c.DocTxs)), txs[i], m); err != nil {
				return err
			}
		}
	case "output":
		if err := sameOutputAsModel(what+fmt.Sprintf(": output %d", at), tgt.Outputs[at], c.Doc[0]); err != nil {
			return err
		}
		for i, o := range tgt.Outputs {
			if i != at && !bytes.Equal(*o.LockingScript, restBefore[i]) {
				return fmt.Errorf("%s: output %d was decoded into, and output %d (same script object before) now has script %x instead of %x", what, at, i, []byte(*o.LockingScript), restBefore[i])
			}
		}
	case "utxo":
		if err := sameUTXOAsModel(what+fmt.Sprintf(": utxo %d", at), utxos[at], c.Doc[0]); err != nil {
			return err
		}
		for i, u := range utxos {
			if now := append(append([]byte{}, u.TxID...), *u.LockingScript...); i != at && !bytes.Equal(now, restBefore[i]) {
				return fmt.Errorf("%s: utxo %d was decoded into, and utxo %d (shared txid slice / script object before) now reads %x instead of %x", what, at, i, now, restBefore[i])
			}
		}
	}
	// 2. the bystanders still read what they read before
	if err := sameTxAsModel(what+": the bystander transaction that held the same script objects", by, byModel); err != nil {
		return err
	}
	if origin != nil {
		if err := sameTxAsModel(what+": the transaction the target was cloned from", origin, originModel); err != nil {
			return err
		}
		for i, in := range origin.Inputs {
			if !sameBytes(scriptBytes(in.PreviousTxScript), originModel.In[i].PrevScript) {
				return fmt.Errorf("%s: previous script of input %d of the transaction the target was cloned from changed to %x", what, i, scriptBytes(in.PreviousTxScript))
			}
		}
	}
	for k := range sp {
		if !bytes.Equal(*sp[k], c.Scripts[k]) {
			return fmt.Errorf("%s: the caller's script object %d now holds %x instead of %x", what, k, []byte(*sp[k]), []byte(c.Scripts[k]))
		}
	}

	// evidence
	ctx.Label(c.Kind + "." + c.Dialect)
	sharedIn := map[int]int{}
	for _, k := range c.Target {
		sharedIn[k]++
	}
	multi := false
	for _, n := range sharedIn {
		if n > 1 {
			multi = true
		}
	}
	if multi {
		ctx.Label("target-elements-share-a-script-object")
	}
	docLen := len(c.Doc)
	if c.Kind == "txs" {
		docLen = len(c.DocTxs)
	}
	switch {
	case docLen < len(c.Target):
		ctx.Label("document-shorter-than-target")
	case docLen > len(c.Target):
		ctx.Label("document-longer-than-target")
	default:
		ctx.Label("document-as-long-as-target")
	}
	if c.Via == "clone" {
		ctx.Label("target-is-a-clone")
	}
	if multi && docLen >= 1 {
		ctx.NonTrivial()
	}
	return nil
}

func genShared(t *rapid.T) Shared {
	c := Shared{Kind: rapid.SampledFrom([]string{"outputs", "outputs", "outputs", "inputs", "inputs", "utxos", "txs", "output", "utxo"}).Draw(t, "kind"), Dialect: "lib"}
	switch c.Kind {
	case "utxos", "txs", "output", "utxo":
		c.Dialect = rapid.SampledFrom([]string{"lib", "node"}).Draw(t, "dialect")
	}
	for i, n := 0, rapid.IntRange(1, 3).Draw(t, "nscripts"); i < n; i++ {
		c.Scripts = append(c.Scripts, genScriptBytes(t, "obj"))
	}
	pick := func(label string) int { return rapid.IntRange(0, len(c.Scripts)-1).Draw(t, label) }
	for i, n := 0, rapid.SampledFrom([]int{0, 1, 2, 2, 3, 3, 4, 6}).Draw(t, "ntarget"); i < n; i++ {
		c.Target = append(c.Target, pick("target_obj"))
		u := -1
		if rapid.IntRange(0, 3).Draw(t, "unlock_set") > 0 {
			u = pick("unlock_obj")
		}
		c.Unlock = append(c.Unlock, u)
	}
	if (c.Kind == "output" || c.Kind == "utxo" || c.Kind == "txs") && len(c.Target) == 0 {
		c.Target, c.Unlock = []int{0, 0}, []int{-1, 0}
	}
	for i, n := 0, rapid.IntRange(1, 3).Draw(t, "nbystander"); i < n; i++ {
		c.Bystand = append(c.Bystand, pick("bystander_obj"))
	}
	switch c.Kind {
	case "outputs", "output":
		c.Via = rapid.SampledFrom([]string{"payto", "addoutput"}).Draw(t, "via")
		if c.Via == "payto" {
			for k := range c.Scripts {
				c.Scripts[k] = ref.P2PKHScript(gen.Bytes(t, 20, "payto_pkh"))
			}
		}
	case "inputs":
		c.Via = rapid.SampledFrom([]string{"direct", "clone"}).Draw(t, "via")
	default:
		c.Via = "direct"
	}
	c.At = rapid.IntRange(0, 7).Draw(t, "at")
	ndoc := rapid.SampledFrom([]int{0, 1, 2, 2, 3, 3, 4, 5}).Draw(t, "ndoc")
	if c.Kind == "output" || c.Kind == "utxo" {
		ndoc = 1
	}
	if c.Kind == "txs" {
		for i := 0; i < ndoc; i++ {
			c.DocTxs = append(c.DocTxs, genHistTxModel(t, "doc_tx"))
		}
		return c
	}
	for i := 0; i < ndoc; i++ {
		d := genUModel(t, "doc")
		if c.Kind == "inputs" {
			d.Sats = uint64(gen.U32(t, "doc_seq"))
		}
		c.Doc = append(c.Doc, d)
	}
	return c
}

func TestShared(t *testing.T) {
	pbt.Run(t, pbt.Sub[Shared]{
		Name: "shared", Quick: 36000, Thorough: 600000,
		Gen:   genShared,
		Check: checkShared,
	})
}
